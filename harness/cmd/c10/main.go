//go:build verif

// C10 harness: what fq displays is true.
//
//	(a) the real hexpairwriter / asciiwriter / columnwriter / mathx number formatting driven directly;
//	(b) hexdump / dv / d of binaries (any bit start and length, any root length) and of the leaves
//	    of decode trees (testdata files and a synthetic format) through the real interpreter
//	    (interp.Main with a virtual OS), for line_bytes 1..64, addrbase/sizebase in {2,8,10,16,36},
//	    display_bytes, verbose, colour;
//	(c) JSON values printed by fq (compact, indented, coloured, tojson).
//
// Observations are the printed texts; the Lean driver compares them with the model and evaluates
// the property statement on them.
package main

import (
	"os"
	"strconv"
	"strings"

	"github.com/wader/fq/internal/verifharness/hlib"
)

func main() {
	cfg := hlib.ParseFlags()
	o := hlib.NewOut(cfg.Out)
	defer o.Close()
	r := hlib.NewRand(cfg.Seed)
	repo := os.Getenv("VERIF_REPO")
	if repo == "" {
		repo = "/repo"
	}
	section := ""
	if len(cfg.Args) > 0 {
		section = cfg.Args[0]
	}

	if cfg.Replay != "" {
		var jsons []string
		for _, l := range hlib.ReplayLines(cfg.Replay) {
			ws := strings.Fields(l)
			if len(ws) == 0 {
				continue
			}
			switch ws[0] {
			case "fsess":
				if section == "" || section == "interp" {
					replayFileSession(o, ws)
				}
			case "jsonv":
				if (section == "" || section == "interp") && len(ws) >= 6 {
					pi, _ := strconv.Atoi(ws[4])
					runNumPath(o, ws[2], hlib.UnHex(ws[3]), pi, strings.Join(ws[5:], " "))
				}
			case "jsonf":
				if section == "" || section == "interp" {
					if !replayFloat(o, ws) {
						o.Verdict("BADOP", "cannot replay: "+l)
					}
				}
			case "ntree":
				if section == "" || section == "interp" {
					replayNTree(o, repo, ws)
				}
			case "dump", "tree":
				if section == "" || section == "interp" {
					replayDump(o, r, repo, ws)
				}
			case "json":
				if (section == "" || section == "interp") && len(ws) >= 3 {
					v := strings.TrimSpace(strings.TrimPrefix(strings.TrimSpace(strings.TrimPrefix(l, "json")), ws[1]))
					if strings.HasPrefix(ws[1], "n") {
						n := strings.TrimPrefix(ws[1], "n")
						runDeepBatch(o, []deepCase{{val: v, call: "tojson({indent:" + n + "})|println", mode: ws[1]}})
						continue
					}
					dup := false
					for _, x := range jsons {
						dup = dup || x == v
					}
					if !dup {
						jsons = append(jsons, v)
					}
				}
			default:
				if section == "" || section == "writers" {
					if !replayWriters(o, r, ws) {
						o.Verdict("BADOP", "cannot replay: "+l)
					}
				}
			}
		}
		if len(jsons) > 0 {
			runJSONBatch(o, jsons)
		}
		return
	}

	th := cfg.Thorough()
	if section == "" || section == "writers" {
		genWriters(o, r, th)
	}
	if section == "" || section == "interp" {
		nBin, nFiles, budget, nSynth := 1500, 45, 25, 60
		if th {
			nBin, nFiles, budget, nSynth = 12000, 250, 60, 400
		}
		genBinaries(o, r, nBin)
		genSynth(o, r, nSynth, budget)
		genTrees(o, r, repo, nFiles, budget)
		nNest, nBig := 40, 30
		if th {
			nNest, nBig = 400, 300
		}
		genNested(o, r, repo, nNest, th)
		nPart := 120
		if th {
			nPart = 1500
		}
		genPartialTrees(o, r, nPart)
		genBigV(o, r, nBig)
		nSess := 30
		if th {
			nSess = 300
		}
		genFileSessions(o, r, nSess)
		genNumBoundaries(o, r)
		genFloats(o, r, th)
		genDeepJSON(o, r, th)
		genJSON(o, r, th)
	}
}
