//go:build verif

package main

import (
	"bytes"
	"fmt"
	"math/big"
	"os"
	"path/filepath"
	"strings"

	"github.com/wader/fq/internal/bitiox"
	"github.com/wader/fq/internal/verifharness/hlib"
	"github.com/wader/fq/pkg/bitio"
	"github.com/wader/fq/pkg/decode"
	"github.com/wader/fq/pkg/interp"
	"github.com/wader/fq/pkg/scalar"
)

// ---- whole-tree dumps including nested root buffers.
// The jq function _c10_tree(tag) walks the decode tree with fq's own WalkPreOrder exactly as
// dump.go does (depth limit, array truncation) and records, per value in dump order, the root
// buffer it lives in, its root depth and bit range; root buffers are read through pkg/bitio.

type treeOpts struct {
	dumpOpts
	depth int
	at    int // array_truncate
}

func (p treeOpts) jq() string {
	return fmt.Sprintf("{line_bytes:%d,addrbase:%d,sizebase:%d,display_bytes:%d,color:%v,unicode:false,depth:%d,array_truncate:%d}",
		p.lb, p.ab, p.sb, p.db, p.color, p.depth, p.at)
}

func (p treeOpts) text() string {
	return fmt.Sprintf("%s depth=%d at=%d", p.dumpOpts.text(), p.depth, p.at)
}

type treeTruth struct {
	roots [][]byte
	bits  []int64
	vals  []string
	skip  string
	nest  int // values at root depth >= 1 that display data
	maxRD int
}

var treePlanned = map[string]treeOpts{}
var treeCaptured = map[string]*treeTruth{}

const maxRootBytes = 1 << 16

func init() {
	interp.RegisterFunc1("_c10_tree", func(_ *interp.Interp, c any, tag string) any {
		t := &treeTruth{}
		treeCaptured[tag] = t
		dvv, ok := c.(interp.DecodeValue)
		p, ok2 := treePlanned[tag]
		if !ok || !ok2 {
			t.skip = "not a decode value"
			return "@@" + tag
		}
		top := dvv.DecodeValue()
		verbose := p.kind == "dv"
		rootIdx := map[*decode.Value]int{}
		shown := map[*decode.Value]bool{}
		ellipsis := map[*decode.Value]bool{}
		// pass 2 of dump(): what dumpEx is called for (dump.go:104-114, 342-350, 408)
		_ = top.WalkPreOrder(func(v *decode.Value, rootV *decode.Value, depth int, rootDepth int) error {
			if p.depth != 0 && depth > p.depth {
				return decode.ErrWalkSkipChildren
			}
			shown[v] = true
			if v.Parent != nil {
				if pc, ok := v.Parent.V.(*decode.Compound); ok && pc.IsArray && p.at != 0 && depth != 0 && v.Index >= p.at {
					ellipsis[v] = true
					return decode.ErrWalkBreak
				}
			}
			return nil
		})
		// pass 1 of dump(): every value within the depth limit (dump.go:352-358)
		_ = top.WalkPreOrder(func(v *decode.Value, rootV *decode.Value, depth int, rootDepth int) error {
			if p.depth != 0 && depth > p.depth {
				return decode.ErrWalkSkipChildren
			}
			if t.skip != "" {
				return nil
			}
			if v.Err != nil {
				t.skip = "value with error lines"
				return nil
			}
			ri, ok := rootIdx[rootV]
			if !ok {
				n, err := bitiox.Len(rootV.RootReader)
				if err != nil || n > maxRootBytes*8 {
					t.skip = "root buffer too large or unreadable"
					return nil
				}
				b, err := readWindow(rootV.RootReader, n, 0, (n+7)/8)
				if err != nil {
					t.skip = "root read failed: " + err.Error()
					return nil
				}
				ri = len(t.roots)
				rootIdx[rootV] = ri
				t.roots = append(t.roots, b)
				t.bits = append(t.bits, n)
			}
			ir := v.InnerRange()
			if ir.Start < 0 || ir.Len < 0 || ir.Start+ir.Len > t.bits[ri] {
				t.skip = "value outside its root buffer"
				return nil
			}
			flags := ""
			_, isC := v.V.(*decode.Compound)
			synth := false
			if sc, ok := v.V.(scalar.Scalarable); ok {
				synth = sc.ScalarFlags().IsSynthetic()
			}
			switch {
			case !shown[v]:
				flags = "x"
			case ellipsis[v]:
				flags = "e"
			default:
				if depth == 0 || v.IsRoot || v.Format != nil {
					flags += "h"
				}
				if ir.Len > 0 && (!isC || (p.depth != 0 && p.depth == depth)) {
					flags += "d"
					if rootDepth >= 1 {
						t.nest++
					}
				}
				if verbose && !synth {
					flags += "r"
				}
				if flags == "" {
					flags = "-"
				}
			}
			if rootDepth > t.maxRD {
				t.maxRD = rootDepth
			}
			t.vals = append(t.vals, fmt.Sprintf("%d:%d:%d:%d:%s", ri, rootDepth, ir.Start, ir.Len, flags))
			return nil
		})
		if len(t.vals) > 6000 {
			t.skip = "too many values"
		}
		return "@@" + tag
	})
}

func randTreeOpts(r *hlib.Rand) treeOpts {
	p := treeOpts{dumpOpts: randOpts(r)}
	p.kind = []string{"dd", "dv", "d"}[r.Intn(3)]
	if r.Intn(3) != 0 {
		p.lb = []int{2, 3, 4, 5, 8, 16, 16, 16, 32}[r.Intn(9)]
	}
	if r.Intn(4) == 0 {
		p.depth = r.Range(1, 4)
	}
	if r.Intn(3) == 0 {
		p.at = r.Range(1, 6)
	}
	return p
}

// runNTree dumps the whole tree of one file and emits an `ntree` case.
func runNTree(o *hlib.Out, name string, data []byte, format string, p treeOpts) {
	runNTreeExpr(o, name, data, format, p, "", nil, 0)
}

// runNTreeExpr: with expr != "" the tree is the decode of a BINARY built by the jq expression
// (root buffers of any bit length, MultiReader-backed roots) instead of a file; wantRoot/wantBits:
// the harness's own idea of the root buffer (zero padded), checked against what was captured.
func runNTreeExpr(o *hlib.Out, name string, data []byte, format string, p treeOpts, expr string, wantRoot []byte, wantBits int64) {
	treePlanned = map[string]treeOpts{"T": p}
	treeCaptured = map[string]*treeTruth{}
	prog := fmt.Sprintf(`(_c10_tree("T")|println), %s(%s)`, p.kind, p.jq())
	var out string
	var err error
	if expr == "" {
		out, _, err = runFq(memFS{name: data}, "-d", format, prog, name)
	} else {
		out, _, err = runFq(nil, "-n", expr+" | "+format+" | ("+prog+")")
	}
	if err != nil {
		o.Stat("ntree_file_failed", 1)
		return
	}
	t := treeCaptured["T"]
	text, ok := sections(out)["T"]
	if t == nil || !ok {
		o.Verdict("BADOP", "whole-tree dump produced no output: "+name)
		return
	}
	if t.skip != "" {
		o.Stat("ntree_skipped", 1)
		return
	}
	roots := make([]string, len(t.roots))
	for i, b := range t.roots {
		roots[i] = fmt.Sprintf("%s:%d", hlib.Hex(b), t.bits[i])
	}
	if expr != "" {
		if len(t.roots) == 0 || t.bits[0] != wantBits || string(t.roots[0]) != string(wantRoot) {
			o.Verdict("BADOP", "the root buffer fq built is not the bits the harness asked for: "+expr)
			return
		}
	}
	op := fmt.Sprintf("ntree %s roots=%s vals=%s file=%s fmt=%s", p.text(), strings.Join(roots, ";"), strings.Join(t.vals, ","), name, format)
	if expr != "" {
		op += fmt.Sprintf(" expr=%s wantbits=%d want=%s", hlib.Hex([]byte(expr)), wantBits, hlib.Hex(wantRoot))
		o.Stat("ntree_partial_byte_roots", 1)
	} else if strings.HasPrefix(name, "synth") || len(data) <= 4096 {
		op += " data=" + hlib.Hex(data) // makes the line replayable on its own
	}
	o.Case(op, obsLines(stripANSI(text)))
	o.Class(fmt.Sprintf("ntree %s %s %s", name, format, p.text()))
	o.Stat("ntree_cases", 1)
	o.Stat("ntree_values", len(t.vals))
	if t.nest > 0 {
		o.Stat("ntree_with_nested_roots", 1)
		o.Stat("ntree_nested_values_with_data", t.nest)
	}
	if t.maxRD >= 2 {
		o.Stat("ntree_root_depth_ge2", 1)
	}
}

// ---- synthetic format with nested root buffers at depth 1 and 2 (each several lines long)

var nestGroup = &decode.Group{Name: "verif_c10_nest"}

func derive(b []byte, k byte, n int) []byte {
	out := make([]byte, n)
	for i := range out {
		if len(b) > 0 {
			out[i] = b[i%len(b)] ^ k ^ byte(i*7)
		} else {
			out[i] = k ^ byte(i)
		}
	}
	return out
}

func init() {
	interp.RegisterFormat(nestGroup, &decode.Format{
		Description: "verification harness C10: nested root buffers",
		DecodeFn: func(d *decode.D) any {
			n1 := int(d.FieldU("n1", 8))
			n2 := int(d.FieldU("n2", 8))
			d.FieldRawLen("head", min(d.BitsLeft(), 24))
			rest := d.BytesLen(int(min(d.BitsLeft()/8, 64)))
			b1 := derive(rest, 0x5a, 48+n1)
			b2 := derive(rest, 0xa5, 48+n2)
			d.FieldStructRootBitBufFn("inner", bitio.NewBitReader(b1, -1), func(d *decode.D) {
				d.FieldU("a", 5)
				d.FieldU("b", 11)
				d.FieldRawLen("blob", int64(20+n1/2)*8)
				d.FieldStructRootBitBufFn("inner2", bitio.NewBitReader(b2, -1), func(d *decode.D) {
					d.FieldU("x", 3)
					d.FieldRawLen("part1", int64(17+n2/3)*8+5)
					d.FieldArray("words", func(d *decode.D) {
						for i := 0; i < 4 && d.BitsLeft() >= 16; i++ {
							d.FieldU("w", 16)
						}
					})
					d.FieldRawLen("tail", d.BitsLeft())
				})
				d.FieldRootBitBuf("leafroot", bitio.NewBitReader(derive(rest, 0x33, 40+n2%32), -1))
				d.FieldRawLen("after", d.BitsLeft())
			})
			d.FieldRawLen("trailer", d.BitsLeft())
			return nil
		},
	})
}

func genNested(o *hlib.Out, r *hlib.Rand, repo string, nSynth int, thorough bool) {
	for i := 0; i < nSynth; i++ {
		data := r.Bytes(r.Range(6, 90))
		runNTree(o, fmt.Sprintf("synthnest/%d", i), data, "verif_c10_nest", randTreeOpts(r))
	}
	// repository files whose trees have nested root buffers (gzip, zip, pcap tcp streams, avro deflate, ogg)
	files := []treeFile{
		{"format/gzip/testdata/test.gz", "gzip"}, {"format/gzip/testdata/multi_members.gz", "gzip"},
		{"format/zip/testdata/test0.zip", "zip"}, {"format/zip/testdata/test-macos.zip", "zip"},
		{"format/pcap/testdata/sll2_tcp.pcap", "pcap"}, {"format/pcap/testdata/http_gzip.cap", "pcap"},
		{"format/pcap/testdata/tcp-ipv4frag.pcap", "pcap"},
		{"format/avro/testdata/quickstop-deflate.avro", "avro_ocf"}, {"format/avro/testdata/snappy.avro", "avro_ocf"},
		{"format/ogg/testdata/flac.ogg", "ogg"}, {"format/ogg/testdata/opus.ogg", "ogg"},
	}
	reps := 1
	if thorough {
		reps = 4
	}
	for _, f := range files {
		data, err := os.ReadFile(filepath.Join(repo, f.path))
		if err != nil {
			o.Stat("ntree_file_missing", 1)
			continue
		}
		for k := 0; k < reps; k++ {
			p := randTreeOpts(r)
			if k == 0 { // the configuration of the repository's goldens
				p = treeOpts{dumpOpts: dumpOpts{kind: "dd", lb: 16, ab: 16, sb: 10, db: 0}}
				if len(data) > 4096 {
					p.db = 16
					p.kind = "d"
				}
			}
			runNTree(o, f.path, data, f.format, p)
		}
	}
	// a random gzip member made here (the repro of the finding)
	var zb bytes.Buffer
	zb.Write([]byte{0x1f, 0x8b, 8, 0, 0, 0, 0, 0, 0, 3})
	raw := r.Bytes(r.Range(40, 300))
	// stored deflate block
	zb.Write([]byte{1, byte(len(raw)), byte(len(raw) >> 8), ^byte(len(raw)), ^byte(len(raw) >> 8)})
	zb.Write(raw)
	zb.Write([]byte{0, 0, 0, 0, byte(len(raw)), byte(len(raw) >> 8), 0, 0})
	runNTree(o, "synthgz/0", zb.Bytes(), "gzip", treeOpts{dumpOpts: dumpOpts{kind: "dd", lb: 16, ab: 16, sb: 10, db: 0}})
	runNTree(o, "synthgz/1", zb.Bytes(), "gzip", randTreeOpts(r))
}

// ---- tree dumps over root buffers whose bit length is not a multiple of 8 (a partial last byte must be
// shown zero padded), section-reader and MultiReader backed, with at least two displayed values

var tailGroup = &decode.Group{Name: "verif_c10_tail"}

func init() {
	interp.RegisterFormat(tailGroup, &decode.Format{
		Description: "verification harness C10: bytes, then a field inside the partial last byte",
		DecodeFn: func(d *decode.D) any {
			d.FieldArray("bytes", func(d *decode.D) {
				for d.BitsLeft() >= 8 {
					d.FieldU8("b")
				}
			})
			if d.BitsLeft() > 0 {
				if d.BitsLeft() > 2 && d.PeekUintBits(1) == 1 {
					d.FieldU("t1", 1)
				}
				d.FieldRawLen("tail", d.BitsLeft())
			}
			return nil
		},
	})
}

func bytesExpr(b []byte) string {
	ss := make([]string, len(b))
	for i, x := range b {
		ss[i] = fmt.Sprint(x)
	}
	return "[" + strings.Join(ss, ",") + "]|tobytes"
}

func genPartialTrees(o *hlib.Out, r *hlib.Rand, n int) {
	for i := 0; i < n; i++ {
		nb := r.Range(2, 40)
		if r.Intn(6) == 0 {
			nb = r.Range(40, 300)
		}
		b := r.Bytes(nb)
		format := []string{"verif_c10_tail", "verif_c10_tail", "verif_c10", "msgpack"}[r.Intn(4)]
		if format == "msgpack" {
			// one complete value (fixstr / fixarray of fixints) followed by one extra byte that gets cut
			m := r.Range(0, 12)
			if r.Bool() {
				b = append([]byte{0xa0 | byte(m)}, r.Bytes(m)...)
				for j := 1; j < len(b); j++ {
					b[j] = byte(33 + int(b[j])%90)
				}
			} else {
				b = append([]byte{0x90 | byte(m)}, r.Bytes(m)...)
				for j := 1; j < len(b); j++ {
					b[j] &= 0x7f
				}
			}
			b = append(b, byte(r.U64()))
		}
		k := r.Range(1, 7)
		L := int64(len(b))*8 - int64(k)
		want := append([]byte(nil), b...)
		want[len(want)-1] &= byte(0xff << uint(k))
		src := bytesExpr(b)
		var expr string
		switch r.Intn(4) {
		case 0: // a bit slice decoded in place: the root buffer stays the whole byte buffer
			expr = fmt.Sprintf("%s|tobits[:-%d]", src, k)
			want, L = b, int64(len(b))*8
		case 1: // a fresh buffer of L bits
			expr = fmt.Sprintf("%s|tobits[:-%d]|tobits", src, k)
		default: // MultiReader: part boundaries around the last byte
			a := L - int64(r.Range(0, 20))
			if r.Intn(3) == 0 {
				a = int64(len(b)-1) * 8 // right before the partial byte
			}
			if a < 0 {
				a = 0
			}
			if r.Bool() || a < 9 {
				expr = fmt.Sprintf("%s as $x|[($x|tobits[0:%d]),($x|tobits[%d:%d])]|tobits", src, a, a, L)
			} else {
				a0 := a - int64(r.Range(1, 8))
				expr = fmt.Sprintf("%s as $x|[($x|tobits[0:%d]),($x|tobits[%d:%d]),($x|tobits[%d:%d])]|tobits", src, a0, a0, a, a, L)
			}
		}
		p := randTreeOpts(r)
		p.depth = 0
		runNTreeExpr(o, fmt.Sprintf("synthpart/%d", i), nil, format, p, expr, want, L)
	}
}

func replayNTree(o *hlib.Out, repo string, ws []string) {
	atoi := func(k string) int { var n int; fmt.Sscanf(kvOf(ws, k), "%d", &n); return n }
	p := treeOpts{dumpOpts: dumpOpts{kind: kvOf(ws, "k"), lb: atoi("lb"), ab: atoi("ab"), sb: atoi("sb"), db: atoi("db"), color: atoi("c") == 1},
		depth: atoi("depth"), at: atoi("at")}
	var data []byte
	if e := kvOf(ws, "expr"); e != "" {
		var wb int64
		fmt.Sscanf(kvOf(ws, "wantbits"), "%d", &wb)
		runNTreeExpr(o, kvOf(ws, "file"), nil, kvOf(ws, "fmt"), p, string(hlib.UnHex(e)), hlib.UnHex(kvOf(ws, "want")), wb)
		return
	}
	if h := kvOf(ws, "data"); h != "" {
		data = hlib.UnHex(h)
	} else if b, err := os.ReadFile(filepath.Join(repo, kvOf(ws, "file"))); err == nil {
		data = b
	} else {
		o.Verdict("BADOP", "cannot replay ntree: no data")
		return
	}
	runNTree(o, kvOf(ws, "file"), data, kvOf(ws, "fmt"), p)
}

// ---- -V (value output) of big integers decoded from binary: the harness computes the integers itself

var bigGroup = &decode.Group{Name: "verif_c10_big"}

func init() {
	interp.RegisterFormat(bigGroup, &decode.Format{
		Description: "verification harness C10: signed big integers",
		DecodeFn: func(d *decode.D) any {
			d.FieldArray("items", func(d *decode.D) {
				for d.BitsLeft() >= 8 {
					w := int(d.PeekUintBits(8)) + 1
					if int64(8+w) > d.BitsLeft() {
						break
					}
					d.FieldStruct("item", func(d *decode.D) {
						d.FieldU("w", 8)
						d.FieldSBigInt("v", w)
					})
				}
			})
			d.FieldRawLen("rest", d.BitsLeft())
			return nil
		},
	})
}

func genBigV(o *hlib.Out, r *hlib.Rand, nFiles int) {
	for i := 0; i < nFiles; i++ {
		var bitsS []byte // one byte per bit
		var want []string
		n := r.Range(1, 12)
		for j := 0; j < n; j++ {
			w := r.Range(1, 256)
			switch r.Intn(4) {
			case 0:
				w = 64
			case 1:
				w = 65
			case 2:
				w = []int{8, 32, 63, 66, 128}[r.Intn(5)]
			}
			for k := 7; k >= 0; k-- {
				bitsS = append(bitsS, byte((w-1)>>uint(k))&1)
			}
			vb := make([]byte, w)
			for k := range vb {
				vb[k] = byte(r.U64() & 1)
			}
			if r.Intn(3) != 0 {
				vb[0] = 1 // negative
			}
			if w >= 2 && r.Intn(4) == 0 { // near the extremes
				for k := 1; k < w; k++ {
					vb[k] = vb[1]
				}
				vb[w-1] = byte(r.U64() & 1)
			}
			bitsS = append(bitsS, vb...)
			// two's complement value
			v := new(big.Int)
			for _, b := range vb {
				v.Lsh(v, 1)
				v.Or(v, big.NewInt(int64(b)))
			}
			if vb[0] == 1 {
				v.Sub(v, new(big.Int).Lsh(big.NewInt(1), uint(w)))
			}
			want = append(want, v.String())
		}
		for len(bitsS)%8 != 0 {
			bitsS = append(bitsS, 0)
		}
		data := make([]byte, len(bitsS)/8)
		for k, b := range bitsS {
			data[k/8] |= b << (7 - uint(k%8))
		}
		// a trailing partial item may decode from padding: only compare when the padding cannot form one
		name := fmt.Sprintf("synthbig/%d", i)
		for _, m := range []struct{ mode, args string }{{"c", "-c"}, {"i", ""}} {
			args := []string{"-d", "verif_c10_big", "-V"}
			if m.args != "" {
				args = append(args, m.args)
			}
			args = append(args, fmt.Sprintf("[.items[0:%d][].v]", n), name)
			out, stderr, err := runFq(memFS{name: data}, args...)
			if err != nil {
				o.Verdict("BADOP", "fq -V failed: "+firstLine(stderr))
				continue
			}
			o.Case(fmt.Sprintf("json %s [%s]", m.mode, strings.Join(want, ",")), strings.ReplaceAll(stripANSI(out), "\n", rsep))
			o.Stat("json_V_decoded_bigint", 1)
		}
	}
}
