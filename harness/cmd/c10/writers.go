//go:build verif

package main

import (
	"bytes"
	"fmt"
	"strconv"
	"strings"

	"github.com/wader/fq/internal/ansi"
	"github.com/wader/fq/internal/asciiwriter"
	"github.com/wader/fq/internal/columnwriter"
	"github.com/wader/fq/internal/hexpairwriter"
	"github.com/wader/fq/internal/mathx"
	"github.com/wader/fq/internal/verifharness/hlib"
	"github.com/wader/fq/pkg/ranges"
)

func nlToSep(s string) string { return strings.ReplaceAll(s, "\n", rsep) }

func chunksText(chunks [][]byte) string {
	ss := make([]string, len(chunks))
	for i, c := range chunks {
		ss[i] = hlib.Hex(c)
	}
	return strings.Join(ss, ",")
}

func parseChunks(s string) [][]byte {
	var cs [][]byte
	for _, p := range strings.Split(s, ",") {
		cs = append(cs, hlib.UnHex(p))
	}
	return cs
}

// randomChunks cuts b into Write calls (sometimes with empty calls in between).
func randomChunks(r *hlib.Rand, b []byte) [][]byte {
	var cs [][]byte
	switch r.Intn(5) {
	case 0:
		return [][]byte{b}
	case 1: // byte by byte
		for i := range b {
			cs = append(cs, b[i:i+1])
		}
		if len(cs) == 0 {
			cs = [][]byte{{}}
		}
		return cs
	}
	for len(b) > 0 {
		if r.Intn(12) == 0 {
			cs = append(cs, []byte{})
		}
		n := 1 + r.Intn(len(b))
		if r.Bool() {
			n = 1 + r.Intn(min(len(b), 9))
		}
		cs = append(cs, b[:n])
		b = b[n:]
	}
	if len(cs) == 0 || r.Intn(12) == 0 {
		cs = append(cs, []byte{})
	}
	return cs
}

func runHexw(o *hlib.Out, width, start int, chunks [][]byte, class bool) {
	op := fmt.Sprintf("hexw %d %d %s", width, start, chunksText(chunks))
	obs, _ := hlib.Catch(func() string {
		var bb bytes.Buffer
		w := hexpairwriter.New(&bb, width, start, hexpairwriter.Pair)
		for _, c := range chunks {
			if _, err := w.Write(c); err != nil {
				return "err:" + err.Error()
			}
		}
		return nlToSep(bb.String())
	})
	o.Case(op, obs)
	if class {
		o.Class(fmt.Sprintf("hexw w=%d s=%d n=%d k=%d", width, start, totalLen(chunks), len(chunks)))
	}
}

func runAsciiw(o *hlib.Out, width, start int, chunks [][]byte, class bool) {
	op := fmt.Sprintf("asciiw %d %d %s", width, start, chunksText(chunks))
	obs, _ := hlib.Catch(func() string {
		var bb bytes.Buffer
		w := asciiwriter.New(&bb, width, start, asciiwriter.SafeASCII)
		for _, c := range chunks {
			if _, err := w.Write(c); err != nil {
				return "err:" + err.Error()
			}
		}
		return nlToSep(bb.String())
	})
	o.Case(op, obs)
	if class {
		o.Class(fmt.Sprintf("asciiw w=%d s=%d n=%d k=%d", width, start, totalLen(chunks), len(chunks)))
	}
}

func totalLen(cs [][]byte) int {
	n := 0
	for _, c := range cs {
		n += len(c)
	}
	return n
}

type colSpec struct {
	bar   bool
	width int // -1 = unlimited
	text  string
}

func colsText(cols []colSpec) string {
	ss := make([]string, len(cols))
	for i, c := range cols {
		switch {
		case c.bar:
			ss[i] = "b:" + hlib.Hex([]byte(c.text))
		case c.width < 0:
			ss[i] = "mn:" + hlib.Hex([]byte(c.text))
		default:
			ss[i] = fmt.Sprintf("m%d:%s", c.width, hlib.Hex([]byte(c.text)))
		}
	}
	return strings.Join(ss, ";")
}

func parseCols(s string) []colSpec {
	var cols []colSpec
	for _, p := range strings.Split(s, ";") {
		kv := strings.SplitN(p, ":", 2)
		t := string(hlib.UnHex(kv[1]))
		switch {
		case kv[0] == "b":
			cols = append(cols, colSpec{bar: true, text: t})
		case kv[0] == "mn":
			cols = append(cols, colSpec{width: -1, text: t})
		default:
			w, _ := strconv.Atoi(kv[0][1:])
			cols = append(cols, colSpec{width: w, text: t})
		}
	}
	return cols
}

// runColw writes each column's text in random pieces into the real columnwriter and flushes once.
func runColw(o *hlib.Out, r *hlib.Rand, cols []colSpec) {
	op := "colw " + colsText(cols)
	obs, _ := hlib.Catch(func() string {
		var bb bytes.Buffer
		var cs []columnwriter.Column
		for _, c := range cols {
			if c.bar {
				cs = append(cs, columnwriter.BarColumn(c.text))
			} else {
				cs = append(cs, &columnwriter.MultiLineColumn{Width: c.width})
			}
		}
		cw := columnwriter.New(&bb, cs...)
		for i, c := range cols {
			if c.bar {
				continue
			}
			for _, p := range randomChunks(r, []byte(c.text)) {
				if len(p) == 0 {
					continue
				}
				_, _ = cw.Columns[i].Write(p)
			}
		}
		if err := cw.Flush(); err != nil {
			return "err:" + err.Error()
		}
		return nlToSep(bb.String())
	})
	o.Case(op, obs)
	o.Class(op)
}

func randText(r *hlib.Rand, maxLines, maxLen int) string {
	var sb strings.Builder
	n := r.Intn(maxLines + 1)
	for i := 0; i < n; i++ {
		l := r.Intn(maxLen + 1)
		for j := 0; j < l; j++ {
			sb.WriteByte(byte(32 + r.Intn(95)))
		}
		if i < n-1 || r.Intn(3) != 0 {
			sb.WriteByte('\n')
		}
	}
	return sb.String()
}

func runFmt(o *hlib.Out, base int, n int64, prefix bool, width int) {
	p := 0
	if prefix {
		p = 1
	}
	obs, _ := hlib.Catch(func() string { return mathx.PadFormatInt(n, base, prefix, width) })
	o.Case(fmt.Sprintf("fmt %d %d %d %d", base, n, p, width), obs)
}

func runBits(o *hlib.Out, base int, n uint64) {
	obs, _ := hlib.Catch(func() string { return mathx.Bits(n).StringByteBits(base) })
	o.Case(fmt.Sprintf("bits %d %d", base, n), obs)
}

func runRange(o *hlib.Out, base int, s, l int64) {
	obs, _ := hlib.Catch(func() string { return mathx.BitRange(ranges.Range{Start: s, Len: l}).StringByteBits(base) })
	o.Case(fmt.Sprintf("range %d %d %d", base, s, l), obs)
}

func runDigits(o *hlib.Out, base int, n int64) {
	obs, _ := hlib.Catch(func() string { return strconv.Itoa(mathx.DigitsInBase(n, true, base)) })
	o.Case(fmt.Sprintf("digits %d %d", base, n), obs)
}

var bases = []int{2, 8, 10, 16, 36}

func interestingNumbers(r *hlib.Rand, base int) []int64 {
	ns := []int64{0, 1, 7, 8, 9, 15, 16, 255, 256}
	p := int64(1)
	for p < 1<<40 {
		ns = append(ns, p-1, p, p+1)
		p *= int64(base)
	}
	for i := 0; i < 20; i++ {
		ns = append(ns, int64(r.U64()>>uint(1+r.Intn(62))))
	}
	return ns
}

func genWriters(o *hlib.Out, r *hlib.Rand, thorough bool) {
	// every byte value once (the Pair table and SafeASCII)
	all := make([]byte, 256)
	for i := range all {
		all[i] = byte(i)
	}
	runHexw(o, 16, 0, [][]byte{all}, true)
	runAsciiw(o, 16, 0, [][]byte{all}, true)
	runHexw(o, 7, 3, randomChunks(r, all), true)
	runAsciiw(o, 7, 3, randomChunks(r, all), true)

	// small domain, exhaustive in (width, start, length); chunking random
	maxW, reps := 8, 1
	if thorough {
		maxW, reps = 64, 2
	}
	for w := 1; w <= maxW; w++ {
		for s := 0; s < w; s++ {
			maxN := 2*w + 2
			for n := 0; n <= maxN; n++ {
				for k := 0; k < reps; k++ {
					b := r.Bytes(n)
					runHexw(o, w, s, randomChunks(r, b), n > 0)
					runAsciiw(o, w, s, randomChunks(r, b), n > 0)
				}
			}
		}
	}
	o.Stat("exhaustive_small_domain", 1)
	o.Stat("writers_max_width_exhaustive", maxW)

	// random: widths 1..64, start 0..w-1 (sometimes beyond the line: the writers accept it), lengths up to 400
	nRandom := 1500
	if thorough {
		nRandom = 30000
	}
	for i := 0; i < nRandom; i++ {
		w := r.Range(1, 64)
		s := r.Intn(w)
		if r.Intn(10) == 0 {
			s = r.Intn(3 * w)
		}
		n := r.Intn(5 * w)
		if r.Intn(8) == 0 {
			n = r.Intn(400)
		}
		b := r.Bytes(n)
		if r.Intn(4) == 0 { // printable-heavy
			for j := range b {
				b[j] = byte(28 + r.Intn(104))
			}
		}
		cs := randomChunks(r, b)
		runHexw(o, w, s, cs, n > 0)
		runAsciiw(o, w, s, cs, n > 0)
		if i < 2 {
			o.Sample(fmt.Sprintf("hexw %d %d %s", w, s, chunksText(cs)))
		}
	}
	o.Stat("writer_random", 2*nRandom)

	// columnwriter: dump.go's column set with random contents, and random column sets
	nCols := 400
	if thorough {
		nCols = 8000
	}
	for i := 0; i < nCols; i++ {
		var cols []colSpec
		if r.Bool() {
			lb := r.Range(1, 12)
			aw := r.Range(0, 8)
			cols = []colSpec{
				{width: aw, text: randText(r, 5, aw+2)}, {bar: true, text: "|"},
				{width: lb*3 - 1, text: randText(r, 5, lb*3+1)}, {bar: true, text: "|"},
				{width: lb, text: randText(r, 5, lb+1)}, {bar: true, text: "|"},
				{width: -1, text: randText(r, 5, 30)},
			}
		} else {
			n := r.Range(1, 5)
			for j := 0; j < n; j++ {
				switch r.Intn(4) {
				case 0:
					cols = append(cols, colSpec{bar: true, text: []string{"|", "", "||", " "}[r.Intn(4)]})
				case 1:
					cols = append(cols, colSpec{width: -1, text: randText(r, 4, 12)})
				default:
					cols = append(cols, colSpec{width: r.Intn(10), text: randText(r, 4, 12)})
				}
			}
		}
		runColw(o, r, cols)
	}
	o.Stat("columnwriter_cases", nCols)

	genColour(o, r, thorough)
	// numbers
	genDigits(o)
	for _, base := range []int{2, 3, 5, 7, 8, 10, 16, 35, 36} {
		for _, n := range interestingNumbers(r, base) {
			runFmt(o, base, n, r.Bool(), r.Intn(12))
			runFmt(o, base, n, true, 0)
			runBits(o, base, uint64(n))
			runRange(o, base, n, int64(r.Intn(100)))
			runRange(o, base, int64(r.Intn(1000)), n)
			runDigits(o, base, n)
		}
		for n := int64(0); n < 300; n++ {
			runBits(o, base, uint64(n))
			runDigits(o, base, n)
			runFmt(o, base, n, false, 2)
		}
	}
}

// runDigitsRLE: DigitsInBase(n, true, base) for EVERY n in [0, hi) as a run-length list n:v (value v
// from n on); the driver checks every run against the integer digit count.
func runDigitsRLE(o *hlib.Out, base int, hi int64) {
	var sb strings.Builder
	last := -1
	for n := int64(0); n < hi; n++ {
		v := mathx.DigitsInBase(n, true, base)
		if v != last {
			if sb.Len() > 0 {
				sb.WriteByte(',')
			}
			fmt.Fprintf(&sb, "%d:%d", n, v)
			last = v
		}
	}
	o.Case(fmt.Sprintf("digitsrle %d %d", base, hi), sb.String())
	o.Class(fmt.Sprintf("digitsrle %d %d", base, hi))
	o.Stat("digits_exhaustive_values", int(hi))
}

func genDigits(o *hlib.Out) {
	for base := 2; base <= 36; base++ {
		runDigitsRLE(o, base, 1<<20)
		// around every power of the base up to 2^63
		p := int64(1)
		for {
			for d := int64(-2); d <= 2; d++ {
				if n := p + d; n >= 0 {
					runDigits(o, base, n)
				}
			}
			if p > (1<<63-1)/int64(base) {
				break
			}
			p *= int64(base)
		}
		runDigits(o, base, 1<<63-1)
	}
}

// ---- colour: the real internal/ansi and the writers with a colouring formatter

// fam 0: codes as short as fq's defaults (set and reset at most 5 bytes, a coloured ascii cell at most
// 11 bytes — what asciiwriter's line buffer is sized for); fam 1: combined attributes (as
// `-o byte_colors=0-255=red+underline` produces), longer than the buffer allows.
func byteCode(fam int, b byte) ansi.Code {
	if fam == 0 {
		switch b % 3 {
		case 0:
			return ansi.MakeCode([]int{30 + int(b%8)}, []int{39})
		case 1:
			return ansi.MakeCode([]int{1}, []int{22})
		default:
			return ansi.MakeCode([]int{int(b % 10)}, []int{0})
		}
	}
	switch b % 3 {
	case 0:
		return ansi.MakeCode([]int{30 + int(b%8), 4}, []int{39, 24})
	case 1:
		return ansi.MakeCode([]int{1, 40 + int(b%8)}, []int{22, 49})
	default:
		return ansi.MakeCode([]int{int(b)}, []int{0})
	}
}

func runWriterColour(o *hlib.Out, kind string, fam, width, start int, chunks [][]byte) {
	op := fmt.Sprintf("%s %d %d %d %s", kind, fam, width, start, chunksText(chunks))
	obs, _ := hlib.Catch(func() string {
		var bb bytes.Buffer
		var w interface{ Write([]byte) (int, error) }
		if kind == "hexwc" {
			w = hexpairwriter.New(&bb, width, start, func(b byte) string { return byteCode(fam, b).Wrap(hexpairwriter.Pair(b)) })
		} else {
			w = asciiwriter.New(&bb, width, start, func(b byte) string { return byteCode(fam, b).Wrap(asciiwriter.SafeASCII(b)) })
		}
		for _, c := range chunks {
			if _, err := w.Write(c); err != nil {
				return "err:" + err.Error()
			}
		}
		return hlib.Hex(bb.Bytes())
	})
	if strings.HasPrefix(obs, "panic:") {
		obs = "panic"
	}
	o.Case(op, obs)
	o.Stat("writer_colour", 1)
}

func randAnsiString(r *hlib.Rand) string {
	var sb strings.Builder
	n := r.Intn(14)
	for i := 0; i < n; i++ {
		switch r.Intn(8) {
		case 0:
			sb.WriteString(byteCode(r.Intn(2), byte(r.Intn(256))).SetString)
		case 1:
			sb.WriteString(byteCode(r.Intn(2), byte(r.Intn(256))).ResetString)
		case 2:
			sb.WriteString(byteCode(r.Intn(2), byte(r.Intn(256))).Wrap(string(rune(33 + r.Intn(90)))))
		case 3:
			sb.WriteString([]string{"\x1b", "\x1b[", "\x1b[3", "m", "[", ";", "\x1b[m", "\x1bm"}[r.Intn(8)])
		default:
			for k := r.Intn(4); k >= 0; k-- {
				sb.WriteByte(byte(32 + r.Intn(95)))
			}
		}
	}
	return sb.String()
}

func runAnsi(o *hlib.Out, stop int, s string) {
	obs, _ := hlib.Catch(func() string {
		return fmt.Sprintf("%d %s", ansi.Len(s), hlib.Hex([]byte(ansi.Slice(s, 0, stop))))
	})
	o.Case(fmt.Sprintf("ansi %d %s", stop, hlib.Hex([]byte(s))), obs)
	o.Stat("ansi_cases", 1)
}

func genColour(o *hlib.Out, r *hlib.Rand, thorough bool) {
	n := 600
	if thorough {
		n = 12000
	}
	for i := 0; i < n; i++ {
		w := r.Range(1, 64)
		if r.Bool() {
			w = r.Range(1, 8)
		}
		s := r.Intn(w)
		b := r.Bytes(r.Intn(3*w + 2))
		cs := randomChunks(r, b)
		fam := 0
		if r.Intn(4) == 0 {
			fam = 1
		}
		runWriterColour(o, "hexwc", fam, w, s, cs)
		runWriterColour(o, "asciiwc", fam, w, s, cs)
		runAnsi(o, r.Range(1, 12), randAnsiString(r))
	}
	all := make([]byte, 256)
	for i := range all {
		all[i] = byte(i)
	}
	runWriterColour(o, "hexwc", 0, 16, 0, [][]byte{all})
	runWriterColour(o, "asciiwc", 0, 16, 0, [][]byte{all})
	runWriterColour(o, "hexwc", 1, 16, 0, [][]byte{all})
}

func replayWriters(o *hlib.Out, r *hlib.Rand, ws []string) bool {
	atoi := func(s string) int { n, _ := strconv.Atoi(s); return n }
	atoi64 := func(s string) int64 { n, _ := strconv.ParseInt(s, 10, 64); return n }
	switch {
	case ws[0] == "hexw" && len(ws) == 4:
		runHexw(o, atoi(ws[1]), atoi(ws[2]), parseChunks(ws[3]), false)
	case ws[0] == "asciiw" && len(ws) == 4:
		runAsciiw(o, atoi(ws[1]), atoi(ws[2]), parseChunks(ws[3]), false)
	case ws[0] == "colw" && len(ws) == 2:
		runColw(o, r, parseCols(ws[1]))
	case ws[0] == "fmt" && len(ws) == 5:
		runFmt(o, atoi(ws[1]), atoi64(ws[2]), ws[3] != "0", atoi(ws[4]))
	case ws[0] == "bits" && len(ws) == 3:
		n, _ := strconv.ParseUint(ws[2], 10, 64)
		runBits(o, atoi(ws[1]), n)
	case ws[0] == "range" && len(ws) == 4:
		runRange(o, atoi(ws[1]), atoi64(ws[2]), atoi64(ws[3]))
	case (ws[0] == "hexwc" || ws[0] == "asciiwc") && len(ws) == 5:
		runWriterColour(o, ws[0], atoi(ws[1]), atoi(ws[2]), atoi(ws[3]), parseChunks(ws[4]))
	case ws[0] == "ansi" && len(ws) == 3:
		runAnsi(o, atoi(ws[1]), string(hlib.UnHex(ws[2])))
	case ws[0] == "digitsrle" && len(ws) == 3:
		runDigitsRLE(o, atoi(ws[1]), atoi64(ws[2]))
	case ws[0] == "digits" && len(ws) == 3:
		runDigits(o, atoi(ws[1]), atoi64(ws[2]))
	default:
		return false
	}
	return true
}
