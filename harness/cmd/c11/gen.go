//go:build verif

package main

import (
	"strings"

	"github.com/wader/fq/internal/verifharness/hlib"
)

// Program TEXT generator following the productions of the gojq fork's parser.go.y one by one
// (program/header/imports/body/funcdef/query/expr/term/string/suffix/args/pattern/object...).
// Operands are NOT parenthesised by the generator (except through the `( query )` production), so
// precedence and associativity are resolved by the parser under test; a text the parser rejects
// (e.g. `a == b == c`, %nonassoc) is counted and dropped.  The budget bounds the token count.

type gen struct {
	r      *hlib.Rand
	budget int
	toks   []string
	labels []string
}

func (g *gen) n(k int) int       { return g.r.Intn(k) }
func (g *gen) chance(p int) bool { return g.r.Intn(100) < p }
func (g *gen) pick(ss ...string) string {
	return ss[g.r.Intn(len(ss))]
}

// emit one token
func (g *gen) e(t string) {
	g.toks = append(g.toks, t)
	g.budget--
}

// glue the next token to the previous one (no white space between them)
const glue = "\x01"

func (g *gen) eg(t string) { g.e(glue + t) }

var identPool = []string{"f", "g", "empty", "error", "input", "inputs", "limit", "first", "map", "select", "length", "not",
	"add", "range", "slurp", "repl", "help", "_cli_display", "_repl_display", "_cli_eval_on_expr_error", "tojson", "x1", "A_b",
	"m::f", "debug", "path", "env", "_query_fromstring", "halt_error", "display", "d", "tobytes"}
var varPool = []string{"$x", "$y", "$z", "$__loc__", "$ENV", "$_args", "$opts", "$q", "$m::v", "$orig_query", "$last", "$slurp", "$__prog_args", "$a1"}
var keywordPool = []string{"or", "and", "module", "import", "include", "def", "as", "label", "break", "null", "true", "false",
	"if", "then", "elif", "else", "end", "try", "catch", "reduce", "foreach"}
var fieldPool = []string{"a", "b", "foo", "_x", "a1", "and", "if", "end", "e1", "E", "x_y"}
var formatPool = []string{"@base64", "@json", "@text", "@uri", "@sh", "@base32d", "@html", "@csv"}
var binops = []string{"//", "//", "=", "|=", "+=", "-=", "*=", "/=", "%=", "//=", "or", "and", "==", "!=", "<", "<=", ">", ">=",
	"+", "+", "-", "-", "*", "/", "%"}

func (g *gen) ident() string { return identPool[g.n(len(identPool))] }
func (g *gen) variable() string {
	return varPool[g.n(len(varPool))]
}

func (g *gen) number() string {
	switch g.n(16) {
	case 0:
		return "0"
	case 1:
		return g.pick("1", "2", "7", "10", "42", "255", "18446744073709551616")
	case 2:
		return g.pick("1.5", "0.25", "3.0", "100.001")
	case 3:
		return g.pick(".5", ".125")
	case 4:
		return g.pick("1.", "20.")
	case 5:
		return g.pick("1e3", "1E3", "2e-2", "2E+2", "1.5e10", ".5e1", "1.e2")
	case 6:
		return g.pick("0x1f", "0xFF", "0xdeadBEEF", "0x0", "0xe", "0x1e5")
	case 7:
		return g.pick("0o17", "0o0", "0o777")
	case 8:
		return g.pick("0b101", "0b0", "0b1111_0000")
	case 9:
		return g.pick("0x1_000", "0xff_ff", "0o7_7", "0b1_0", "0x_1", "0b1_")
	case 10:
		return g.pick("1_000", "1_0.5") // decimal separators: not accepted by the lexer (counted as reject)
	case 11:
		return g.pick("00", "007", "0.0", "1e0", "0e0")
	default:
		return g.pick("1", "2", "3", "4", "5")
	}
}

var strChars = []string{"a", "b", "z", " ", "0", "_", ".", "(", ")", "|", "#", "$", "'", "\\n", "\\t", "\\\"", "\\\\", "\\/", "\\b", "\\f", "\\r",
	"\\u00e9", "\\u0000", "\\u001f", "\\ud83d\\ude00", "\\u2028", "é", "日", "😀", "<", ">", "&", "\x7f", "\t", "`", "\\u007f", "{", "}", "[", ":", ";", ","}

func (g *gen) strBody(max int) string {
	var sb strings.Builder
	for i := g.n(max + 1); i > 0; i-- {
		sb.WriteString(strChars[g.n(len(strChars))])
	}
	return sb.String()
}

var rawChars = []string{"a", "b", " ", "\"", "\\", "\\n", "\\(", "'", "é", "日", "(", ")", "\t", "#", "$x", "\\u0041", "<", "&", "\\\"", "|"}

// plain (non-interpolated) string token: "..." or fq's raw `...`
func (g *gen) plainString() string {
	if g.chance(20) {
		var sb strings.Builder
		sb.WriteByte('`')
		for i := g.n(6); i > 0; i-- {
			sb.WriteString(rawChars[g.n(len(rawChars))])
		}
		sb.WriteByte('`')
		return sb.String()
	}
	return `"` + g.strBody(5) + `"`
}

// string production: tokString | tokStringStart stringparts tokStringEnd
func (g *gen) str(d int) {
	if d <= 0 || g.budget < 6 || g.chance(65) {
		g.e(g.plainString())
		return
	}
	// interpolated: the pieces are glued so that white space is not inserted into the literal
	g.e(`"` + g.strBody(2))
	for i := 1 + g.n(3); i > 0; i-- {
		g.eg(`\(`)
		g.query(d - 1)
		g.e(")")
		g.eg(g.strBody(2))
	}
	g.eg(`"`)
}

func (g *gen) pattern(d int) {
	switch {
	case d <= 0 || g.chance(55):
		g.e(g.variable())
	case g.chance(50):
		g.e("[")
		for i, k := 0, 1+g.n(3); i < k; i++ {
			if i > 0 {
				g.e(",")
			}
			g.pattern(d - 1)
		}
		g.e("]")
	default:
		g.e("{")
		for i, k := 0, 1+g.n(3); i < k; i++ {
			if i > 0 {
				g.e(",")
			}
			switch g.n(5) {
			case 0:
				g.e(g.variable()) // objectpattern: tokVariable
			case 1:
				g.e(g.objectKey())
				g.e(":")
				g.pattern(d - 1)
			case 2:
				g.str(d - 1)
				g.e(":")
				g.pattern(d - 1)
			case 3:
				g.e("(")
				g.query(d - 1)
				g.e(")")
				g.e(":")
				g.pattern(d - 1)
			default:
				g.e(g.pick("a", "b", "c"))
				g.e(":")
				g.pattern(d - 1)
			}
		}
		g.e("}")
	}
}

func (g *gen) bindPatterns(d int) {
	g.pattern(d)
	for g.chance(25) {
		g.e("?//")
		g.pattern(d)
	}
}

// objectkey: tokIdent | tokVariable | tokKeyword
func (g *gen) objectKey() string {
	switch g.n(4) {
	case 0:
		return g.variable()
	case 1:
		return keywordPool[g.n(len(keywordPool))]
	default:
		return fieldPool[g.n(len(fieldPool))]
	}
}

// objectval: objectval '|' objectval | expr
func (g *gen) objectVal(d int) {
	g.expr(d)
	for g.chance(15) {
		g.e("|")
		g.expr(d)
	}
}

func (g *gen) object(d int) {
	g.e("{")
	k := g.n(4)
	if d <= 0 {
		k = g.n(2)
	}
	for i := 0; i < k; i++ {
		if i > 0 {
			g.e(",")
		}
		switch g.n(6) {
		case 0:
			g.e(g.objectKey()) // objectkey alone
		case 1:
			g.str(d - 1) // string alone
		case 2:
			g.str(d - 1)
			g.e(":")
			g.objectVal(d - 1)
		case 3:
			g.e("(")
			g.query(d - 1)
			g.e(")")
			g.e(":")
			g.objectVal(d - 1)
		default:
			g.e(g.objectKey())
			g.e(":")
			g.objectVal(d - 1)
		}
	}
	if k > 0 && g.chance(10) {
		g.e(",") // trailing comma production
	}
	g.e("}")
}

// suffix: '[' ']' | '[' query ']' | '[' query ':' ']' | '[' ':' query ']' | '[' query ':' query ']'
func (g *gen) suffix(d int, glued bool) {
	if glued {
		g.eg("[")
	} else {
		g.e("[")
	}
	switch g.n(6) {
	case 0, 1:
	case 2:
		g.query(d - 1)
	case 3:
		g.query(d - 1)
		g.e(":")
	case 4:
		g.e(":")
		g.query(d - 1)
	default:
		g.query(d - 1)
		g.e(":")
		g.query(d - 1)
	}
	g.e("]")
}

func (g *gen) args(d int) {
	g.eg("(")
	for i, k := 0, 1+g.n(3); i < k; i++ {
		if i > 0 {
			g.e(";")
		}
		g.query(d - 1)
	}
	g.e(")")
}

func (g *gen) atomTerm() {
	switch g.n(12) {
	case 0:
		g.e(".")
	case 1:
		g.e("..")
	case 2, 3:
		g.e("." + fieldPool[g.n(len(fieldPool))])
	case 4:
		g.e(g.pick("null", "true", "false"))
	case 5, 6:
		g.e(g.ident())
	case 7:
		g.e(g.variable())
	case 8:
		g.e(g.plainString())
	case 9:
		if g.chance(50) {
			g.e("{")
			g.e("}")
		} else {
			g.e("[")
			g.e("]")
		}
	default:
		g.e(g.number())
	}
}

// term production
func (g *gen) term(d int) {
	if d <= 0 || g.budget < 4 {
		g.atomTerm()
	} else {
		switch g.n(30) {
		case 0:
			g.e(".")
			g.suffix(d, g.chance(80)) // '.' suffix
		case 1:
			g.e(".") // '.' string
			if g.chance(85) {
				g.glueNext()
			}
			g.str(d - 1)
		case 2:
			g.e(g.ident())
			g.args(d)
		case 3:
			g.object(d)
		case 4:
			g.e("[")
			g.query(d - 1)
			g.e("]")
		case 5, 6:
			g.e(g.pick("-", "-", "+"))
			if g.chance(70) {
				g.glueNext()
			}
			g.term(d - 1)
		case 7:
			g.e(formatPool[g.n(len(formatPool))])
			if g.chance(70) {
				g.str(d - 1)
			}
		case 8:
			g.str(d)
		case 9:
			g.e("if")
			g.query(d - 1)
			g.e("then")
			g.query(d - 1)
			for g.chance(25) {
				g.e("elif")
				g.query(d - 1)
				g.e("then")
				g.query(d - 1)
			}
			if g.chance(60) {
				g.e("else")
				g.query(d - 1)
			}
			g.e("end")
		case 10, 11:
			g.e("try")
			g.expr(d - 1)
			if g.chance(60) {
				g.e("catch")
				g.expr(d - 1)
			}
		case 12:
			g.e("reduce")
			g.expr(d - 1)
			g.e("as")
			g.pattern(d - 1)
			g.e("(")
			g.query(d - 1)
			g.e(";")
			g.query(d - 1)
			g.e(")")
		case 13:
			g.e("foreach")
			g.expr(d - 1)
			g.e("as")
			g.pattern(d - 1)
			g.e("(")
			g.query(d - 1)
			g.e(";")
			g.query(d - 1)
			if g.chance(50) {
				g.e(";")
				g.query(d - 1)
			}
			g.e(")")
		case 14:
			g.e("break")
			if len(g.labels) > 0 && g.chance(80) {
				g.e(g.labels[g.n(len(g.labels))])
			} else {
				g.e(g.variable())
			}
		case 15, 16, 17:
			g.e("(")
			g.query(d - 1)
			g.e(")")
		default:
			g.atomTerm()
		}
	}
	// postfix productions: term tokIndex | term suffix | term '?' | term '.' suffix | term '.' string
	for g.chance(30) && g.budget > 0 {
		tight := g.chance(75)
		switch g.n(7) {
		case 0, 1:
			t := "." + fieldPool[g.n(len(fieldPool))]
			if tight && g.canGlueIndex() {
				g.eg(t)
			} else {
				g.e(t)
			}
		case 2:
			g.suffix(d, tight)
		case 3, 4:
			if tight {
				g.eg("?")
			} else {
				g.e("?")
			}
		case 5:
			if tight && g.canGlueIndex() {
				g.eg(".")
			} else {
				g.e(".")
			}
			g.suffix(d, true)
		default:
			if tight && g.canGlueIndex() {
				g.eg(".")
			} else {
				g.e(".")
			}
			g.eg(g.plainString())
		}
	}
}

func (g *gen) glueNext() { g.toks = append(g.toks, glue+glue) } // marker: glue whatever comes next

// a `.x` glued to a number or to `.`/`..` would lex differently (`1.x`, `..x`): keep the space there
func (g *gen) canGlueIndex() bool {
	if len(g.toks) == 0 {
		return false
	}
	p := g.toks[len(g.toks)-1]
	if p == "" {
		return false
	}
	c := p[len(p)-1]
	return !(c == '.' || c >= '0' && c <= '9')
}

// expr production: expr binop expr | term
func (g *gen) expr(d int) {
	g.term(d)
	for d > 0 && g.budget > 3 && g.chance(38) {
		g.e(binops[g.n(len(binops))])
		g.term(d - g.n(2))
	}
}

func (g *gen) funcdef(d int) {
	g.e("def")
	g.e(g.pick("f", "g", "h", "_cli_display", "inputs", "map", "_x1", "repl"))
	if g.chance(50) {
		g.eg("(")
		for i, k := 0, 1+g.n(3); i < k; i++ {
			if i > 0 {
				g.e(";")
			}
			g.e(g.pick("f", "g", "$x", "$y", "a", "$a1"))
		}
		g.e(")")
	}
	g.e(":")
	g.query(d - 1)
	g.e(";")
}

// query production
func (g *gen) query(d int) {
	if d <= 0 || g.budget < 4 {
		g.term(0)
		return
	}
	switch g.n(20) {
	case 0, 1:
		g.funcdef(d)
		g.query(d - g.n(2))
	case 2, 3, 4:
		g.query(d - 1)
		g.e("|")
		g.query(d - g.n(2))
	case 5, 6:
		g.term(d - 1)
		g.e("as")
		g.bindPatterns(d - 1)
		g.e("|")
		g.query(d - g.n(2))
	case 7:
		l := g.pick("$out", "$l", "$x")
		g.e("label")
		g.e(l)
		g.e("|")
		g.labels = append(g.labels, l)
		g.query(d - g.n(2))
		g.labels = g.labels[:len(g.labels)-1]
	case 8, 9, 10:
		g.query(d - 1)
		g.e(",")
		g.query(d - g.n(2))
	default:
		g.expr(d)
	}
}

func (g *gen) constTerm(d int) {
	switch {
	case d > 0 && g.chance(20):
		g.constObject(d - 1)
	case d > 0 && g.chance(20):
		g.e("[")
		for i, k := 0, g.n(3); i < k; i++ {
			if i > 0 {
				g.e(",")
			}
			g.constTerm(d - 1)
		}
		g.e("]")
	default:
		switch g.n(5) {
		case 0:
			g.e(g.number())
		case 1:
			g.e(`"` + g.strBody(4) + `"`)
		default:
			g.e(g.pick("null", "true", "false", "1", `"s"`, `""`))
		}
	}
}

func (g *gen) constObject(d int) {
	g.e("{")
	k := g.n(3)
	for i := 0; i < k; i++ {
		if i > 0 {
			g.e(",")
		}
		switch g.n(3) {
		case 0:
			g.e(fieldPool[g.n(len(fieldPool))])
		case 1:
			g.e(keywordPool[g.n(len(keywordPool))])
		default:
			g.e(`"` + g.strBody(3) + `"`)
		}
		g.e(":")
		g.constTerm(d)
	}
	if k > 0 && g.chance(10) {
		g.e(",")
	}
	g.e("}")
}

func (g *gen) directives() {
	if g.chance(50) {
		g.e("module")
		g.constObject(2)
		g.e(";")
	}
	for i := g.n(3); i > 0; i-- {
		if g.chance(50) {
			g.e("import")
			g.e(`"` + g.pick("a", "lib/b", "./c", "@builtin/x", "é") + `"`)
			g.e("as")
			g.e(g.pick("foo", "$data", "m", "$m"))
			if g.chance(40) {
				g.constObject(1)
			}
			g.e(";")
		} else {
			g.e("include")
			g.e(`"` + g.pick("a", "lib/b", "./c", "@config/init?", "d e") + `"`)
			if g.chance(40) {
				g.constObject(1)
			}
			g.e(";")
		}
	}
}

// slurp-like endings used by the rewrite cases (eval.jq:31-40: last element of the pipeline)
func (g *gen) slurpEnding() {
	switch g.n(10) {
	case 0:
		g.e("|")
		g.e("repl")
	case 1:
		g.e("|")
		g.e("repl")
		g.eg("(")
		g.object(1)
		g.e(")")
	case 2:
		g.e("|")
		g.e("help")
	case 3:
		g.e("|")
		g.e("help")
		g.args(1)
	case 4:
		g.e("|")
		g.e("slurp")
		g.eg("(")
		g.e(`"` + g.pick("name", "x", "a b") + `"`)
		g.e(")")
	case 5:
		g.e("|")
		g.e("slurp")
	case 6:
		g.e("|")
		g.e(".")
		g.e("as")
		g.e("$v")
		g.e("|")
		g.e(g.pick("repl", "help", "slurp"))
	case 7:
		g.e("|")
		g.e(g.pick("slurpx", "xslurp", "replx", "_repl_slurp", "myslurp", "m::slurp", "helper"))
	case 8:
		g.e("|")
		g.e(g.pick("repl", "help", "slurp"))
		g.eg(".a") // a suffix list: not a bare call
	default:
		g.e(",")
		g.e(g.pick("repl", "help", "slurp")) // comma, not pipe: not last in a pipeline
	}
}

var wsPool = []string{" ", " ", " ", " ", "  ", "\n", "\t", " \n ", "\r\n", " # c | ) \"\n", "#\n"}

func (g *gen) render() string {
	var sb strings.Builder
	glueNext := false
	for i, t := range g.toks {
		if t == glue+glue {
			glueNext = true
			continue
		}
		tight := glueNext
		glueNext = false
		if strings.HasPrefix(t, glue) {
			tight = true
			t = t[1:]
		}
		if i > 0 && !tight {
			if g.chance(12) {
				sb.WriteString(wsPool[g.n(len(wsPool))])
			} else {
				sb.WriteByte(' ')
			}
		}
		sb.WriteString(t)
	}
	return sb.String()
}

type progKind int

const (
	progFull  progKind = iota // header + imports + query or only function definitions
	progSlurp                 // query ending in a slurp-like last pipeline element
)

func genProgram(r *hlib.Rand, kind progKind, maxTokens int) string {
	g := &gen{r: r, budget: maxTokens}
	if g.chance(15) {
		g.directives()
	}
	d := 1 + g.n(5)
	switch {
	case kind == progSlurp:
		if g.chance(20) {
			g.e(g.pick("repl", "help", "slurp", "slurp(\"a\")"))
		} else {
			g.query(d)
			g.slurpEnding()
		}
	case g.chance(4):
		// body: funcdefs only (possibly none: the empty program)
		for i := g.n(3); i > 0; i-- {
			g.funcdef(d)
		}
	default:
		g.query(d)
	}
	return g.render()
}
