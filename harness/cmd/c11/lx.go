//go:build verif

package main

// lx cases: program TEXT lexed by the real fork lexer — through its public route gojq.Parse, i.e. fq's
// `_query_fromstring`, the AST carries every token payload: number spellings as text, decoded strings, names, operator
// spellings — and by the Lean lexer (FqModel/C11Lex.lean) followed by the Lean parser; the driver compares AST with
// AST (both directions incl. rejection), the text `_query_tostring` prints with the model's printText (character by
// character: ties the white-space rules of Query.String()), and checks the property on the real side (the printed text
// parses back to the same AST).
//
//	lx <hex text>      {"reject":true} | {"a":AST,"s":printed text,"b":AST of the printed text | {"reparse_error":…}}

import (
	"strings"

	"github.com/wader/fq/internal/verifharness/hlib"
)

type lxCase struct{ text string }

func (rn *runner) lx(cs []lxCase) {
	in := make([]any, len(cs))
	for i, c := range cs {
		in[i] = c.text
	}
	res := evalEach(rtExpr, in)
	for i, c := range cs {
		m, _ := res[i].(map[string]any)
		op := "lx " + hx(c.text)
		rn.o.Case(op, jsonText(res[i]))
		rn.o.Stat("lx", 1)
		switch {
		case m == nil || m["harness_error"] != nil:
			rn.o.Stat("lx_harness_error", 1)
		case m["reject"] != nil:
			rn.o.Stat("lx_reject", 1)
		default:
			// non-trivial: accepted, and the text is not already its own printed form
			if s, _ := m["s"].(string); s != c.text {
				rn.o.Class(op)
				if len(c.text) > 12 && len(c.text) < 80 && !strings.ContainsAny(c.text, "\n\t\x00") {
					rn.o.Sample("lx " + c.text + "  =>  " + s)
				}
			}
		}
	}
}

// programs the Lean side does not model: module identifiers (separate token classes)
func lxOutside(text string) bool { return strings.Contains(text, "::") }

func allStrings(alpha []string, maxLen int, f func(string)) {
	var rec func(prefix string, n int)
	rec = func(prefix string, n int) {
		if n == 0 {
			return
		}
		for _, a := range alpha {
			s := prefix + a
			f(s)
			rec(s, n-1)
		}
	}
	rec("", maxLen)
}

var lxNumAlphaSmall = []string{"0", "1", "8", "a", "f", "x", "o", "b", "_", ".", "e", "-"}
var lxNumAlphaFull = strings.Split("0123456789abcdefxob_.eE+-", "")
var lxNumCtx = []string{"%", "%.a", "% .e1", ".a[%]", "-%", "[%,%]", "%as $x|$x", "{a:%}", ".[%:%]", "%?", "%|%"}

var lxStrAlpha = []string{"a", `"`, `\`, "/", "n", "u", "(", ")", "0", "\x00", "\x1f", "\n", "\x7f", "é", "€", "😀", "\xff", "\xc3", "`", " ", "#"}
var lxEscAlpha = []string{`\n`, `\t`, `\"`, `\\`, `\/`, `\b`, `\f`, `\r`, `\u0041`, `\u00e9`, `\ud83d`, `\ude00`, `\ud800`, `\udfff`, `\uD83D\uDE00`, `\u000a`,
	`\u12`, `\x`, `\(1)`, `\("x")`, `\(`, `"`, "a", "é", "😀", "\x01", "\x7f", "\n", " ", "\xff", "`", "~", "{", "\x80"}

var lxStrPool = []string{`"a"`, `""`, `"\n"`, `"\u00e9"`, `"\ud83d\ude00"`, `"\ud800"`, `"a\\b"`, `"\""`, `"\/"`, "\"\x01\"", "\"\x7f\"", `"é€😀"`, `"a b"`, `"#x"`,
	"\"tab\there\"", `"\u0000"`, `"\b\f\r\t"`}

var lxSeps = []string{" ", " ", " ", "", "", "  ", "\n", "\t", " # c\n", " #a\\\nb\n", "\r\n"}

// interpolated strings to depth d
func lxInterp(r *hlib.Rand, d int) string {
	var sb strings.Builder
	sb.WriteByte('"')
	piece := func() {
		if r.Intn(2) == 0 {
			sb.WriteString([]string{"p", `\n`, "é", `\"`, " ", `\\`, ")", "(", `\u0041`, "\x01", "#"}[r.Intn(11)])
		}
	}
	piece()
	for i, k := 0, 1+r.Intn(2); i < k; i++ {
		sb.WriteString(`\(`)
		switch {
		case d > 1 && r.Intn(3) > 0:
			sb.WriteString(lxInterp(r, d-1))
		case r.Intn(3) == 0:
			sb.WriteString("(1)+f(2;\")\")")
		case r.Intn(2) == 0:
			sb.WriteString(` . `)
		default:
			sb.WriteString(`.a|@base64 "x\(1)"`)
		}
		sb.WriteString(`)`)
		piece()
	}
	sb.WriteByte('"')
	return sb.String()
}

// grammar-derived token words (the pp generator), string words replaced by tricky spellings, rendered with random
// separators (none, blanks, newlines, comments): tokens may merge — both lexers see the same text
func lxProgram(r *hlib.Rand) (string, bool) {
	toks := genPP(r.Fork())
	if ppOutsideCore(toks) {
		return "", false
	}
	inStr := 0
	for i, t := range toks {
		switch {
		case t == "S<":
			inStr++
		case t == ">S":
			inStr--
		case inStr == 0 && len(t) >= 2 && t[0] == '"' && r.Intn(2) == 0 && (i == 0 || (toks[i-1] != "import" && toks[i-1] != "include")):
			// (an empty import path prints as an include: a listed assumption of this property)
			toks[i] = lxStrPool[r.Intn(len(lxStrPool))]
		}
	}
	text, ok := ppText(toks)
	if !ok {
		return "", false
	}
	tight := r.Intn(3) == 0
	var sb strings.Builder
	quoted := false
	for i := 0; i < len(text); i++ {
		c := text[i]
		if c == '"' && (i == 0 || text[i-1] != '\\') {
			quoted = !quoted
		}
		if c == ' ' && !quoted {
			if tight {
				sb.WriteString(lxSeps[r.Intn(len(lxSeps))])
			} else {
				sb.WriteString(lxSeps[r.Intn(3)])
			}
			continue
		}
		sb.WriteByte(c)
	}
	return sb.String(), true
}

var lxFixed = []string{
	"- -1", "--1", "-1", "1 - -1", "1 -1", "1-1", ".. .", "...", ". .", "..", ".. .a", "..a", ". .a", ".a.[0]", ".a[0]", "1 .e", "1 .e1", "1.e1", "1.e", "1. e1",
	"0xf.e1", "0x1.e1", "0x1 .e1", "1 .a", "1.a", "1 . a", "1. .a", "1..a", "1...", "1..2", ".5.5", ".5 .a", "1.5.a", "1.[0]", "1 .[0]", "1[0]", "1?", "1 as $x|$x",
	".a?//1", ".a? //1", ".a ?// 1", ". as [$a] ?// $a | $a", ". as [$a]?//$a|$a", ".a?/1", ".a?/ /1", "1//2", "1/ /2", "1//=2", "1// =2", "1/=2", "1/2", "1 / /2",
	"a|=b", "a| =b", "a|b", "a==b", "a= =b", "a=b", "a!=b", "a! =b", "a<=b", "a< =b", "a<b", "a>=b", "a>b", "a+=b", "a-=b", "a*=b", "a%=b", "a+ =b", "a=-b", "a- -b", "a--b",
	"a and b", "aand b", "a andb", "a or b", "1and 2", "1 and2", "andy", "or_", "_or", "if1 then", "if 1then 2 end", "if 1 then 2end", "if 1 then 2 end", "if . then.a else.b end",
	"try.a catch.b", "trya", "nulll", "null.a", "true?", "end", ".end", ".if.then", "{if:1,then:2,and:3}", "{a:1}", "{a :1}", "{a: :1}", "{a::b}", "{ a:b }", "{$x}", "{$__loc__}",
	".[a:b]", ".[a :b]", ".[1:2]", ".[:2]", ".[1:]", ".[a:]", ". [1]", ".[\"a\"]", ".\"a\"", ". \"a\"", ".a.\"b\"", ".a .\"b\"", ".\"a\".b", ".\"a\"[0]", ".a1.b", ".a1 .b", "f1.b", "$x1.b", "@base64.b", "@base32d.a",
	"0x", "0x_", "0b__", "0b102", "0o8", "0o17", "0x1fg", "0x1f_ff", "0X1f", "0B1", "1_000", "1e", "1e+", "1e+5", "1E-5", "1e5.", "1e5.5", "1.e5", "1.5e5x", "007", "00x1", "0.", "0.x", "0x.1", ".0x1", "1x",
	"$", "$1", "$a", "$a.b", "$ a", "@", "@1", "@a1", "@ a", "@base64\"x\"", "@base64 \"x\"", "@json \"a\\(1)b\"", "!", "!=", "&", "^", "~", "'a'", "\\", "é", ".é", "\"é\"", "a#b", "a # b\n|c", "a # b\\\n|c\n|d",
	"a # b\\\\\n|d", "a # b\\\r\n|c\n|d", "a # b\\\r|c\n|d", "a #\x00 junk\n|||", "a # x\x00|b", "1 #", "#", "", " ", "\n", "a\x00", "\x00",
	"\"", "\"a", "\"\\", "\"\\\"", "\"\\(", "\"\\()\"", "\"\\(1)\"", "\"\\(1)", "\"\\(1))\"", "\"\\((1))\"", "\"a\\(1)b\\(2)c\"", "\"\\(1)\\(2)\"", "\"\\(\"\\(\"\\(1)\")\")\"", "\"\\(\"a\"+\"b\")\"",
	"\"\\u00e9\"", "\"\\u00E9\"", "\"\\ud83d\\ude00\"", "\"\\ud83d\"", "\"\\ude00\"", "\"\\ud83d\\u0041\"", "\"\\ud83dx\"", "\"\\ud83d\\ud83d\\ude00\"", "\"\\u12\"", "\"\\u\"", "\"\\x\"", "\"\\a\"", "\"\\0\"",
	"\"\x7f\"", "\"\x01\\n\"", "\"\x01\"", "\"a\nb\"", "\"\\/\"", "\"/\"", "\"\\b\\f\\n\\r\\t\"", "\"~\"", "\"\\\\(1)\"", "\"\\\\\\(1)\"", "`raw`", "`ra\\w\"`", "`a\nb`", "`", "`a", "``", "`é`", "`a`.b", ".`a`",
	"\"\xff\"", "`\xff`", "\"\xc3\"", "\"\xed\xa0\x80\"", "\xff", "a\xffb",
	"def f:1;f", "def f: 1; f", "def f(a;$b):a;f(1;2)", "def f(a ; $b) : a ; f(1 ; 2)", "deff:1;f", "def f:1;", "reduce.[]as$x(0;.+$x)", "foreach .[] as [$a,{b:$c}] (0;1;2)", "label$l|break$l", "label $l|break $l",
	"[.[]|{a,b:1,\"c\":2,(\"d\"):3,@base64 \"e\":4}]", "{\"a\\(1)\":2}", "{(1,2):3}", "[1,2,3][1:]", "[][0]?", "{}.a", "{}{}", "[.]", "[..]", "(.)", "(..)", "-.", "-..", "-.5", "+.a", "-(1)", "- (1)", "+-+1",
	"import \"a\" as b; 1", "include \"a\"; 1", "module {a:1}; 1", "import \"a\" as $b {x:1}; $b",
}

func (rn *runner) lxAll(r *hlib.Rand, thorough bool) {
	var cs []lxCase
	add := func(s string) {
		if lxOutside(s) {
			rn.o.Stat("lx_outside_model", 1)
			return
		}
		cs = append(cs, lxCase{s})
	}
	for _, s := range lxFixed {
		add(s)
	}
	// number spellings: exhaustive short ones, random longer ones in contexts
	allStrings(lxNumAlphaSmall, 3, add)
	nNum, nStr, nInterp, nProg := 1500, 1500, 400, 1500
	if thorough {
		nNum, nStr, nInterp, nProg = 20000, 15000, 4000, 20000
		allStrings(lxNumAlphaSmall, 4, func(s string) {
			if len(s) == 4 {
				add(s)
			}
		})
	}
	for i := 0; i < nNum; i++ {
		n := 1 + r.Intn(6)
		var sb strings.Builder
		for j := 0; j < n; j++ {
			sb.WriteString(lxNumAlphaFull[r.Intn(len(lxNumAlphaFull))])
		}
		lit := sb.String()
		if r.Intn(2) == 0 { // bias to well-formed starts
			lit = []string{"0x", "0b", "0o", "1", "0", ".5", "1.", "1e", "12"}[r.Intn(9)] + lit
		}
		add(strings.ReplaceAll(lxNumCtx[r.Intn(len(lxNumCtx))], "%", lit))
	}
	// string literals: exhaustive short bodies, random escape sequences
	allStrings(lxStrAlpha, 2, func(s string) { add(`"` + s + `"`) })
	for i := 0; i < nStr; i++ {
		n := 1 + r.Intn(6)
		var sb strings.Builder
		sb.WriteByte('"')
		for j := 0; j < n; j++ {
			sb.WriteString(lxEscAlpha[r.Intn(len(lxEscAlpha))])
		}
		sb.WriteByte('"')
		s := sb.String()
		switch r.Intn(6) {
		case 0:
			s = "." + s
		case 1:
			s = "{" + s + ":1}"
		case 2:
			s = "@json " + s
		}
		add(s)
	}
	for i := 0; i < nInterp; i++ {
		add(lxInterp(r.Fork(), 1+r.Intn(3)))
	}
	for i := 0; i < nProg; i++ {
		if s, ok := lxProgram(r.Fork()); ok {
			add(s)
		}
	}
	chunk(cs, 400, rn.lx)
}
