//go:build verif

// Harness for C11 — "the internal query rewrite preserves the meaning of the user's program".
//
// Case lines (obs is ONE compact JSON value, keys sorted):
//
//	rt <hexprog>                 [A, A2]        A = P|_query_fromstring, A2 = A|_query_tostring|_query_fromstring
//	                                            (A2 = {"reparse_error":..} when the printed text does not parse)
//	ctor <name> <hexP1> <hexP2>  {"in":[A1,A2],"out":V}   V = the constructor / walker applied by fq (see ctorExprs)
//	pp <tok> <tok> ...           AST | "reject"   (operator core, see pp.go)
//	rw <opts> <hexprog>          {"a":A,"o":OPTS,"r":R,"s":S,"p":RP}
//	                                            R  = fq's rewrite of A (body of _eval_query_rewrite, taken from eval.jq's
//	                                                 current text, applied to A without directives — the AST before printing)
//	                                            S  = P | _eval_query_rewrite(OPTS)   (the real function: the program text fq evaluates)
//	                                            RP = S | _query_fromstring
//
// Harness-decided lines (`!OK` / `!PROPFAIL`): the semantic differential `sem ev|cli|repl ...` (sem.go).
package main

import (
	"bytes"
	"encoding/hex"
	"encoding/json"
	"fmt"
	"os"
	"path/filepath"
	"strings"

	"github.com/wader/fq/internal/verifharness/hlib"
)

func hx(s string) string { return hlib.Hex([]byte(s)) }
func unhx(s string) (string, error) {
	if s == "-" {
		return "", nil
	}
	b, err := hex.DecodeString(s)
	return string(b), err
}

func jsonText(v any) string {
	var bb bytes.Buffer
	enc := json.NewEncoder(&bb)
	enc.SetEscapeHTML(false)
	if err := enc.Encode(normJSON(v)); err != nil {
		return `"harness-error:json:` + strings.ReplaceAll(err.Error(), `"`, `'`) + `"`
	}
	return strings.TrimRight(bb.String(), "\n")
}

// gojq values may hold *big.Int / int; everything in an AST is null/bool/string/array/object
func normJSON(v any) any {
	switch v := v.(type) {
	case map[string]any:
		m := make(map[string]any, len(v))
		for k, e := range v {
			m[k] = normJSON(e)
		}
		return m
	case []any:
		a := make([]any, len(v))
		for i, e := range v {
			a[i] = normJSON(e)
		}
		return a
	case fmt.Stringer:
		return v.String()
	default:
		return v
	}
}

func repoDir() string {
	if d := os.Getenv("VERIF_REPO"); d != "" {
		return d
	}
	return "/repo"
}

func readRepo(rel string) string {
	b, err := os.ReadFile(filepath.Join(repoDir(), rel))
	if err != nil {
		panic(err)
	}
	return string(b)
}

// rewriteBody extracts the argument of `_query_fromtostring( ... )` in `def _eval_query_rewrite($opts):`
// from the CURRENT text of pkg/interp/eval.jq, so that the AST before printing can be observed.
func rewriteBody() string {
	src := readRepo("pkg/interp/eval.jq")
	i := strings.Index(src, "def _eval_query_rewrite($opts):")
	if i < 0 {
		panic("eval.jq: def _eval_query_rewrite($opts): not found")
	}
	j := strings.Index(src[i:], "_query_fromtostring(")
	if j < 0 {
		panic("eval.jq: _query_fromtostring( not found in _eval_query_rewrite")
	}
	start := i + j + len("_query_fromtostring(")
	depth := 1
	for k := start; k < len(src); k++ {
		switch src[k] {
		case '#':
			for k < len(src) && src[k] != '\n' {
				k++
			}
		case '"':
			k++
			for k < len(src) && src[k] != '"' {
				if src[k] == '\\' {
					k++
				}
				k++
			}
		case '(':
			depth++
		case ')':
			depth--
			if depth == 0 {
				rest := strings.TrimLeft(src[k+1:], " \t\r\n")
				if !strings.HasPrefix(rest, ";") {
					panic("eval.jq: _eval_query_rewrite is not `_query_fromtostring(...);` any more")
				}
				return src[start:k]
			}
		}
	}
	panic("eval.jq: unbalanced _eval_query_rewrite")
}

func squash(s string) string { return strings.Join(strings.Fields(s), " ") }

// optShapeGuard: the option records below are copies of what init.jq (_cli_eval, _main) and repl.jq
// (_repl_eval) pass; the guard fails the run when those texts are no longer in the source.
func optShapeGuard() []string {
	var missing []string
	initjq := squash(readRepo("pkg/interp/init.jq"))
	repljq := squash(readRepo("pkg/interp/repl.jq"))
	need := func(src, name, frag string) {
		if !strings.Contains(src, squash(frag)) {
			missing = append(missing, name+": "+squash(frag))
		}
	}
	need(initjq, "init.jq", `+ { slurps: { help: "_help_slurp" , repl: "_cli_repl_error" , slurp: "_cli_slurp_error" } , catch_query: _query_func("_cli_eval_on_expr_error"), }`)
	need(initjq, "init.jq", `( if $opts.null_input then _query_null`)
	need(initjq, "init.jq", `elif $opts.string_input then _query_func("inputs") elif $opts.slurp then _query_func("inputs") | _query_array else _query_func("inputs") end`)
	need(initjq, "init.jq", `| .output_query = _query_func("_cli_display")`)
	need(initjq, "init.jq", `{ filename: $opts.expr_eval_path } as $eval_opts`)
	need(initjq, "init.jq", `| map(_cli_eval($opts.expr; $eval_opts))`)
	need(repljq, "repl.jq", `{ slurps: { repl: "_repl_slurp" , help: "_help_slurp" , slurp: "_slurp" }`)
	need(repljq, "repl.jq", `, input_query: (_query_ident | _query_iter)`)
	need(repljq, "repl.jq", `, catch_query: _query_func("_repl_on_expr_error")`)
	need(repljq, "repl.jq", `, output_query: _query_func("_repl_display") };`)
	return missing
}

var optNames = []string{"cli_null", "cli_inputs", "cli_slurp", "cli_repl", "repl", "empty",
	"x_in", "x_out", "x_inout", "x_catch_out", "x_catch_in", "x_slurps_only"}

const optsDef = `
def _c11_cli: { slurps: { help: "_help_slurp", repl: "_cli_repl_error", slurp: "_cli_slurp_error" }, catch_query: _query_func("_cli_eval_on_expr_error") };
def _c11_rslurps: { repl: "_repl_slurp", help: "_help_slurp", slurp: "_slurp" };
def _c11_opts($name):
  if $name == "cli_null" then ({filename: null} | .input_query = _query_null | .output_query = _query_func("_cli_display")) + _c11_cli
  elif $name == "cli_inputs" then ({filename: null} | .input_query = _query_func("inputs") | .output_query = _query_func("_cli_display")) + _c11_cli
  elif $name == "cli_slurp" then ({filename: null} | .input_query = (_query_func("inputs") | _query_array) | .output_query = _query_func("_cli_display")) + _c11_cli
  elif $name == "cli_repl" then {filename: null} + _c11_cli
  elif $name == "repl" then { slurps: _c11_rslurps, input_query: (_query_ident | _query_iter), catch_query: _query_func("_repl_on_expr_error"), output_query: _query_func("_repl_display") }
  elif $name == "empty" then {}
  elif $name == "x_in" then { slurps: _c11_rslurps, input_query: _query_func("inputs") }
  elif $name == "x_out" then { slurps: _c11_rslurps, output_query: _query_func("_cli_display") }
  elif $name == "x_inout" then { input_query: _query_null, output_query: _query_func("_cli_display") }
  elif $name == "x_catch_out" then { slurps: _c11_rslurps, catch_query: _query_func("_repl_on_expr_error"), output_query: _query_func("_repl_display") }
  elif $name == "x_catch_in" then { slurps: _c11_rslurps, catch_query: _query_func("_repl_on_expr_error"), input_query: (_query_ident | _query_iter) }
  elif $name == "x_slurps_only" then { slurps: _c11_rslurps }
  else error("c11: unknown opts " + $name) end;
`

var ctorNames = []string{"null", "query", "string", "ident", "is_ident", "func0", "func", "func_name", "func_args", "is_func",
	"is_string", "empty", "pipe", "array", "array_null", "object", "comma", "commas0", "commas1", "commas3", "iter",
	"try1", "try2", "pipe_last", "transform_pipe_last", "toquery", "func_rename"}

// the constructor / walker expressions: input is {p1, p2 (program texts), a1, a2 (their ASTs)}
const ctorDef = `
def _c11_ctor($name):
  if $name == "null" then _query_null
  elif $name == "query" then .a1 | _query_query
  elif $name == "string" then .p1 as $s | _query_string($s)
  elif $name == "ident" then _query_ident
  elif $name == "is_ident" then .a1 | _query_is_ident
  elif $name == "func0" then .p1 as $s | _query_func($s)
  elif $name == "func" then . as $c | _query_func("name"; [$c.a1, $c.a2])
  elif $name == "func_name" then .a1 | _query_func_name
  elif $name == "func_args" then .a1 | _query_func_args
  elif $name == "is_func" then .a1 | [_query_is_func, _query_is_func("repl")]
  elif $name == "is_string" then .a1 | [_query_is_string, _query_string_str]
  elif $name == "empty" then _query_empty
  elif $name == "pipe" then . as $c | _query_pipe($c.a1; $c.a2)
  elif $name == "array" then .a1 | _query_array
  elif $name == "array_null" then null | _query_array
  elif $name == "object" then {slurp: .a1, orig: .a2, b: .a1} | _query_object
  elif $name == "comma" then . as $c | _query_comma($c.a1; $c.a2)
  elif $name == "commas0" then [] | _query_commas
  elif $name == "commas1" then [.a1] | _query_commas
  elif $name == "commas3" then [.a1, .a2, .a1] | _query_commas
  elif $name == "iter" then .a1 | _query_iter
  elif $name == "try1" then . as $c | _query_try($c.a1)
  elif $name == "try2" then . as $c | _query_try($c.a1; $c.a2)
  elif $name == "pipe_last" then .a1 | _query_pipe_last
  elif $name == "transform_pipe_last" then .a1 | _query_transform_pipe_last(_query_ident)
  elif $name == "toquery" then .a1 | _query_toquery
  elif $name == "func_rename" then .a1 | _query_func_rename("renamed")
  else error("c11: unknown ctor " + $name) end;
`

type runner struct {
	o      *hlib.Out
	rwBody string
}

type rtCase struct{ prog string }
type rwCase struct{ opts, prog string }
type ctorCase struct{ name, p1, p2 string }

func batchEval(expr string, input []any) ([]any, string) {
	var vs []any
	var err error
	msg, panicked := hlib.Catch(func() string {
		vs, err = evalJQ(expr, input)
		return ""
	})
	switch {
	case panicked:
		return nil, msg
	case err != nil:
		return nil, "error: " + err.Error()
	case len(vs) != 1:
		return nil, fmt.Sprintf("outputs=%d", len(vs))
	}
	a, ok := vs[0].([]any)
	if !ok || len(a) != len(input) {
		return nil, "result shape"
	}
	return a, ""
}

// evaluate a batch; on failure of the whole batch fall back to one by one so that the failing case is isolated
func evalEach(expr string, input []any) []any {
	if a, why := batchEval(expr, input); why == "" {
		return a
	} else if len(input) == 1 {
		return []any{map[string]any{"harness_error": why}}
	}
	out := make([]any, 0, len(input))
	for _, in := range input {
		out = append(out, evalEach(expr, []any{in})[0])
	}
	return out
}

const rtExpr = `map(. as $p | try ($p | _query_fromstring | . as $a | _query_tostring as $s
  | {a: $a, s: $s, b: (try ($s | _query_fromstring) catch {reparse_error: (if type == "object" then .error else . end | tostring)})})
  catch {reject: true})`

func (rn *runner) rt(cs []rtCase) {
	in := make([]any, len(cs))
	for i, c := range cs {
		in[i] = c.prog
	}
	res := evalEach(rtExpr, in)
	for i, c := range cs {
		m, _ := res[i].(map[string]any)
		switch {
		case m == nil || m["harness_error"] != nil:
			rn.o.Case("rt "+hx(c.prog), jsonText(res[i]))
			rn.o.Stat("rt_harness_error", 1)
		case m["reject"] != nil:
			rn.o.Stat("rt_parse_reject", 1)
		default:
			rn.o.Case("rt "+hx(c.prog), jsonText([]any{m["a"], m["b"]}))
			rn.o.Stat("rt", 1)
			s, _ := m["s"].(string)
			rn.classifyRT(c.prog, s)
		}
	}
}

// non-triviality rule for rt cases: the program has at least one binary operator, binder, or bracketed
// construct (a lone term round-trips trivially); distinct by the printed form.
func (rn *runner) classifyRT(prog, printed string) {
	feats := progFeatures(printed)
	for _, f := range feats {
		rn.o.Stat("rt_feat_"+f, 1)
	}
	if len(feats) > 0 {
		rn.o.Class("rt:" + printed)
	}
	if len(feats) >= 3 {
		rn.o.Sample("rt " + prog + "  =>  " + printed)
	}
}

var featureMarks = []struct{ name, mark string }{
	{"pipe", " | "}, {"comma", ", "}, {"alt", " // "}, {"update", "= "}, {"or", " or "}, {"and", " and "}, {"cmp", " < "}, {"cmp", " == "},
	{"cmp", " != "}, {"cmp", " >= "}, {"cmp", " <= "}, {"cmp", " > "}, {"add", " + "}, {"sub", " - "}, {"mul", " * "}, {"div", " / "},
	{"mod", " % "}, {"as", " as "}, {"destalt", "?// "}, {"reduce", "reduce "}, {"foreach", "foreach "}, {"label", "label "},
	{"break", "break "}, {"def", "def "}, {"if", "if "}, {"try", "try "}, {"opt", "?"}, {"interp", `\(`}, {"format", "@"},
	{"import", "import "}, {"include", "include "}, {"module", "module "}, {"neg", "-"}, {"paren", "("}, {"hexlit", "0x"},
	{"octlit", "0o"}, {"binlit", "0b"}, {"slice", ":"}, {"iter", "[]"}, {"object", "{ "},
}

func progFeatures(printed string) []string {
	var fs []string
	seen := map[string]bool{}
	for _, f := range featureMarks {
		if !seen[f.name] && strings.Contains(printed, f.mark) {
			seen[f.name] = true
			fs = append(fs, f.name)
		}
	}
	return fs
}

func (rn *runner) rwExpr() string {
	return optsDef + "def _c11_rw($opts): (" + rn.rwBody + ");\n" +
		`map(. as $c | _c11_opts($c.o) as $opts
  | try ($c.p | _query_fromstring | . as $a
      | { a: $a, o: $opts
        , r: (try ($a | del(.meta) | del(.imports) | _c11_rw($opts)) catch {rewrite_error: tostring})
        , s: (try ($c.p | _eval_query_rewrite($opts)) catch {rewrite_error: tostring})
        }
      | .p = (.s as $s | if ($s | type) == "string" then (try ($s | _query_fromstring) catch {reparse_error: (if type == "object" then .error else . end | tostring)}) else null end)
      )
    catch {reject: true})`
}

func (rn *runner) rw(cs []rwCase) {
	in := make([]any, len(cs))
	for i, c := range cs {
		in[i] = map[string]any{"p": c.prog, "o": c.opts}
	}
	res := evalEach(rn.rwExpr(), in)
	for i, c := range cs {
		op := "rw " + c.opts + " " + hx(c.prog)
		m, _ := res[i].(map[string]any)
		switch {
		case m == nil || m["harness_error"] != nil:
			rn.o.Case(op, jsonText(res[i]))
			rn.o.Stat("rw_harness_error", 1)
		case m["reject"] != nil:
			rn.o.Stat("rw_parse_reject", 1)
		default:
			rn.o.Case(op, jsonText(m))
			rn.o.Stat("rw", 1)
			rn.o.Stat("rw_opts_"+c.opts, 1)
			s, _ := m["s"].(string)
			if strings.Contains(s, "_slurp") || strings.Contains(s, "_error(") {
				rn.o.Stat("rw_slurp_mode", 1)
			}
			rn.o.Class("rw:" + c.opts + ":" + s)
			if len(s) > 40 && len(s) < 200 {
				rn.o.Sample("rw " + c.opts + " " + c.prog + "  =>  " + s)
			}
		}
	}
}

func (rn *runner) ctorExpr() string {
	return ctorDef + `map(. as $c | try ({p1: $c.p1, p2: $c.p2, a1: ($c.p1 | _query_fromstring), a2: ($c.p2 | _query_fromstring)}
    | {in: [.a1, .a2], out: (try _c11_ctor($c.n) catch {ctor_error: tostring})})
  catch {reject: true})`
}

func (rn *runner) ctor(cs []ctorCase) {
	in := make([]any, len(cs))
	for i, c := range cs {
		in[i] = map[string]any{"n": c.name, "p1": c.p1, "p2": c.p2}
	}
	res := evalEach(rn.ctorExpr(), in)
	for i, c := range cs {
		op := "ctor " + c.name + " " + hx(c.p1) + " " + hx(c.p2)
		m, _ := res[i].(map[string]any)
		switch {
		case m == nil || m["harness_error"] != nil:
			rn.o.Case(op, jsonText(res[i]))
			rn.o.Stat("ctor_harness_error", 1)
		case m["reject"] != nil:
			rn.o.Stat("ctor_parse_reject", 1)
		default:
			rn.o.Case(op, jsonText(m))
			rn.o.Stat("ctor", 1)
			rn.o.Stat("ctor_"+c.name, 1)
			rn.o.Class("ctor:" + c.name + ":" + c.p1 + ":" + c.p2)
		}
	}
}

// fixed programs: every case named in the property statement, replayed on every run (besides corpus/)
var fixedPrograms = []string{
	``, `.`, `1, 2`, `1 | 2`, `a - b - c`, `a // b // c`, `-a`, `- a`, `-.a`, `a?`, `.a?`, `a as [$x, {b: $y}] ?// $z | $x`,
	`1 + 2 * 3`, `(1 + 2) * 3`, `1 - (2 - 3)`, `a / b / c`, `a % b % c`, `a and b or c`, `a or b and c`, `a == b and c != d`,
	`.a = 1 | .b |= 2`, `.a += 1`, `.a //= 1`, `1 as $x | 2 as $y | $x + $y`, `1, 2 as $x | 3, $x`, `1 | 2, 3 | 4`,
	`reduce .[] as $x (0; . + $x)`, `foreach .[] as [$a, $b] (0; . + $a; [$a, $b])`, `foreach range(3) as $x (0; . + $x)`,
	`label $out | 1, break $out, 2`, `def f: 1; f`, `def f(g; $x): g + $x; f(1; 2)`, `def f: def g: 1; g; f`,
	`import "a" as foo; include "b"; foo::f`, `import "a" as $d {search: "./"}; $d::d`, `module {name: "m", v: [1, {a: null}]}; 1`,
	`"a\(1 + 2)b\("c" + "\(3)")"`, `@base64 "x\(.)y"`, `@json`, "`raw \\n \"q\"`", `"é\n\t\"\\"`, `0x1f, 0o17, 0b101, 0x1_000, 0b1111_0000`,
	`1_000`, `.a.b.c`, `.a[1:2]`, `.[1:]`, `.[:2]`, `.[]`, `.[]?`, `.a."b"`, `."a"`, `.a.[0]`, `..`, `.. .a`, `. .a`, `1 .a`, `1. .a`, `1.5 .a`,
	`0x1f .a`, `f1 .a`, `$x.a`, `$__loc__`, `$ENV.PATH`, `{a: 1, "b": 2, (1): 3, $x, @base64 "k": 1}`, `{a: 1 | 2}`, `{a, $__loc__, "b", "c\(1)"}`,
	`{if: 1, and: 2, or}`, `.if.and`, `if . then 1 elif 2 then 3 else 4 end`, `if . then 1 end`, `try error catch .`, `try error`,
	`try (try error) catch .`, `try try error catch . catch .`, `try -1`, `try 1 + 1 catch 2 + 2`, `reduce 1 + 2 as $x (0; .)`,
	`-1 as $x | $x`, `- - 1`, `-(-1)`, `+1`, `1 - -1`, `1 -1`, `1 as $x | 2 | repl`, `1 | repl`, `repl`, `1 | repl({a: 1})`, `1 | slurp("a")`,
	`help(1; 2)`, `1, repl`, `1 | repl.a`, `def repl: 1; repl`, `def f: 1;`, `def f: 1; def g: 2;`, `[.[] | {a, b: (1, 2)}]`, `[]`, `{}`,
	`.[1 as $x | $x]`, `(1 as $x | $x) + 1`, `(label $l | 1) + 1`, `(def f: 1; f) + 1`, `1 + (2, 3)`, `(1, 2) | (3 | 4)`, `((1))`, `(.a).b`,
	`input | inputs`, `limit(2; inputs)`, `empty, error("x")`, `. as {a: $x, $y, "b": [$z], ("c" + "d"): $w} | 1`, `. as [$a] ?// {a: $a} ?// $a | $a`,
	`# comment\n1 # c2\n| 2`, "1\n|\n2", `"a" "b"`, `1 == 2 == 3`, `.a = .b = 1`, `a::b(1)`, `$a::b`, `include ""; 1`,
	`"\(1)\(2)"`, `"\("\("x")")"`, `@text "\(1)"`, `.["a"]`, `.[1,2]`, `."a\(1)"`, `.a."b\(1)"[0]?`, `break $x`, `label $x | break $x | 1`,
	// seeded changes S-C11-1 (bare-term programs lose their parenthesis) and S-C11-2 (slurp call inside an `as` body)
	`try error("x")`, `try (1, error("x"), 2)`, `label $out | 1, break $out, 2`, `try error("x") catch .`, `-1`, `.a?`, `if . then 1 end`,
	`5 as $x | $x + 1 | repl`, `1 as $x | 2 as $y | [$x, $y] | length | repl`, `5 as $x | $x, 7 | slurp("v")`, `"abc" as $x | $x | help`,
	`1 as $x | 2 | 3 as $y | 4 | 5 | repl({})`, `. as [$a] ?// $a | $a | .b | slurp("w")`,
	`try error catch . | 1`, `try error catch (. | 1)`, `1 as $x | 2, 3`, `(1 as $x | 2), 3`, `1 // 2 | 3`, `.a |= (1 | 2)`, `. as $x | [$x | 1]`,
}

func (rn *runner) fixed() {
	var rts []rtCase
	var rws []rwCase
	for _, p := range fixedPrograms {
		p = strings.ReplaceAll(p, `\n1 # c2\n`, "\n1 # c2\n")
		rts = append(rts, rtCase{p})
		for _, on := range optNames {
			rws = append(rws, rwCase{on, p})
		}
	}
	rn.rt(rts)
	rn.rw(rws)
	var cts []ctorCase
	pool := []string{`1`, `.`, `f`, `f(1; 2)`, `repl`, `"s"`, `"a\(1)"`, `1, 2`, `1 | 2`, `1 | 2 | f(3)`, `1 as $x | 2 | 3`, `1 as $x | 2 as $y | repl({})`,
		`def f: 1; f | g`, `.a.b`, `.a.b as $x | f`, `(1 | 2)`, `1 | 2, 3`, `.[] | f`, `label $l | 1 | f`, `1 | (2 | f)`, ``, `def f: 1;`, `.a | .b?`, `1 | .a as $x | 2`}
	for _, n := range ctorNames {
		for i, p1 := range pool {
			cts = append(cts, ctorCase{n, p1, pool[(i*7+3)%len(pool)]})
		}
	}
	rn.ctor(cts)
}

func (rn *runner) replay(path string) {
	var rts []rtCase
	var rws []rwCase
	var cts []ctorCase
	var pps [][]string
	var lxs []lxCase
	for _, l := range hlib.ReplayLines(path) {
		// harness-decided verdict lines come back as "PROPFAIL sem ..." / "OK sem ..."
		for _, pre := range []string{"PROPFAIL ", "OK ", "KNOWN "} {
			l = strings.TrimPrefix(l, pre)
		}
		if i := strings.Index(l, " :: "); i >= 0 {
			l = l[:i]
		}
		f := strings.Fields(l)
		bad := func() { rn.o.Case(l, `"harness-error:unparsable replay line"`) }
		switch {
		case len(f) == 2 && f[0] == "rt":
			p, err := unhx(f[1])
			if err != nil {
				bad()
				continue
			}
			rts = append(rts, rtCase{p})
		case len(f) == 3 && f[0] == "rw":
			p, err := unhx(f[2])
			if err != nil {
				bad()
				continue
			}
			rws = append(rws, rwCase{f[1], p})
		case len(f) == 4 && f[0] == "ctor":
			p1, err1 := unhx(f[2])
			p2, err2 := unhx(f[3])
			if err1 != nil || err2 != nil {
				bad()
				continue
			}
			cts = append(cts, ctorCase{f[1], p1, p2})
		case len(f) >= 1 && f[0] == "pp":
			pps = append(pps, f[1:])
		case len(f) == 2 && f[0] == "lx":
			p, err := unhx(f[1])
			if err != nil {
				bad()
				continue
			}
			lxs = append(lxs, lxCase{p})
		case len(f) >= 3 && f[0] == "sem":
			rn.semReplay(f[1:], l)
		default:
			bad()
		}
	}
	rn.rt(rts)
	rn.rw(rws)
	rn.ctor(cts)
	rn.pp(pps)
	rn.lx(lxs)
}

func chunk[T any](xs []T, n int, f func([]T)) {
	for len(xs) > 0 {
		k := n
		if k > len(xs) {
			k = len(xs)
		}
		f(xs[:k])
		xs = xs[k:]
	}
}

func main() {
	cfg := hlib.ParseFlags()
	o := hlib.NewOut(cfg.Out)
	defer o.Close()
	rn := &runner{o: o, rwBody: rewriteBody()}

	if len(cfg.Args) > 0 && cfg.Args[0] == "explore" {
		vs, err := evalJQ(cfg.Args[1], nil)
		for _, v := range vs {
			fmt.Println(jsonText(v))
		}
		if err != nil {
			fmt.Println("ERR", err)
		}
		return
	}
	if len(cfg.Args) > 0 && cfg.Args[0] == "cli" {
		res := runMain(cfg.Args[1:], cliVFS(), nil)
		fmt.Printf("exit=%d panic=%q\nstdout:\n%s\nstderr:\n%s\n", res.exit, res.panic, res.stdout, res.stderr)
		return
	}
	if len(cfg.Args) > 0 && cfg.Args[0] == "repl" {
		res := runMain([]string{"-n", "-i", "-c", replInputsExpr}, cliVFS(), cfg.Args[1:])
		fmt.Printf("exit=%d panic=%q\nstdout:\n%s\nstderr:\n%s\n", res.exit, res.panic, strings.ReplaceAll(string(res.stdout), "\x00", "--"), res.stderr)
		return
	}
	if len(cfg.Args) > 0 && cfg.Args[0] == "semgen" {
		r := hlib.NewRand(cfg.Seed)
		for i := 0; i < 40; i++ {
			fmt.Printf("%s\n", semProgram(r.Fork(), semFlavour(i%4)))
		}
		return
	}
	if len(cfg.Args) > 0 && cfg.Args[0] == "gen" {
		r := hlib.NewRand(cfg.Seed)
		for i := 0; i < 40; i++ {
			fmt.Printf("%q\n", genProgram(r.Fork(), progKind(i%2), 60))
		}
		return
	}

	if miss := optShapeGuard(); len(miss) > 0 {
		o.Verdict("DIVERGE", "option-shapes-changed: init.jq/repl.jq no longer contain: "+strings.Join(miss, " ;; "))
	}

	if cfg.Replay != "" {
		rn.replay(cfg.Replay)
		return
	}

	r := hlib.NewRand(cfg.Seed)
	nRT, nRW, nCtor, nPP, nEv, nCli, nRepl := 4000, 1500, 800, 4000, 500, 60, 8
	if cfg.Thorough() { // per shard
		nRT, nRW, nCtor, nPP, nEv, nCli, nRepl = 30000, 8000, 3000, 40000, 3500, 400, 80
	}

	// developer switch: C11_ONLY=rt,rw,ctor,ev,cli,repl restricts the generated part (never set by ./check)
	only := os.Getenv("C11_ONLY")
	want := func(k string) bool { return only == "" || strings.Contains(","+only+",", ","+k+",") }
	if !want("rt") {
		nRT = 0
	}
	if !want("rw") {
		nRW = 0
	}
	if !want("ctor") {
		nCtor = 0
	}
	if !want("pp") {
		nPP = -1
	}
	if !want("ev") {
		nEv = -1
	}
	if !want("cli") {
		nCli = -1
	}
	if !want("repl") {
		nRepl = -1
	}
	if only == "" || want("fixed") {
		rn.fixed()
	}

	var rts []rtCase
	for i := 0; i < nRT; i++ {
		max := 8 + r.Intn(53)
		rts = append(rts, rtCase{genProgram(r.Fork(), progFull, max)})
	}
	chunk(rts, 250, rn.rt)

	var rws []rwCase
	for i := 0; i < nRW; i++ {
		kind := progFull
		if r.Intn(100) < 45 {
			kind = progSlurp
		}
		rws = append(rws, rwCase{optNames[r.Intn(len(optNames))], genProgram(r.Fork(), kind, 6+r.Intn(30))})
	}
	chunk(rws, 200, rn.rw)

	var cts []ctorCase
	for i := 0; i < nCtor; i++ {
		k1, k2 := progFull, progFull
		if r.Intn(100) < 40 {
			k1 = progSlurp
		}
		cts = append(cts, ctorCase{ctorNames[r.Intn(len(ctorNames))], genProgram(r.Fork(), k1, 4+r.Intn(24)), genProgram(r.Fork(), k2, 4+r.Intn(12))})
	}
	chunk(cts, 200, rn.ctor)

	if nPP >= 0 {
		rn.ppAll(r, nPP)
	}
	if want("lx") {
		rn.lxAll(hlib.NewRand(cfg.Seed^0x6c78), cfg.Thorough()) // own stream: the other kinds keep their cases
	}

	rn.semAll(r, nEv, nCli, nRepl)
}
