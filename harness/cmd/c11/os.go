//go:build verif

package main

import (
	"bytes"
	"context"
	"errors"
	"io"
	"io/fs"

	_ "github.com/wader/fq/format/all"
	"github.com/wader/fq/internal/verifharness/hlib"
	"github.com/wader/fq/pkg/interp"
)

// Virtual OS for in-process evaluation, modelled on internal/script's CaseRun (the OS fq's own CLI
// tests use): virtual files, captured stdout/stderr, scripted readline (for the REPL path).

type vfs map[string][]byte

func (v vfs) Open(name string) (fs.File, error) {
	data, ok := v[name]
	if !ok {
		return nil, &fs.PathError{Op: "open", Path: name, Err: errors.New("verif-io-missing")}
	}
	return interp.FileReader{
		R:        io.NewSectionReader(bytes.NewReader(data), 0, int64(len(data))),
		FileInfo: interp.FixedFileInfo{FName: name, FSize: int64(len(data))},
	}, nil
}

type vin struct {
	interp.FileReader
}

func (vin) IsTerminal() bool { return false }
func (vin) Size() (int, int) { return 135, 25 }

type vout struct{ io.Writer }

func (vout) Size() (int, int) { return 135, 25 }
func (vout) IsTerminal() bool { return false }

// environment given to fq and (for $ENV / env) to the reference engine
var theEnviron = []string{"NO_COLOR=1", "NO_DECODE_PROGRESS=1", "CONFIG_DIR=/config", "VERIF_C11=wrapped"}

type vos struct {
	args    []string
	files   vfs
	stdin   []byte
	stdout  *bytes.Buffer
	stderr  *bytes.Buffer
	lines   []string // scripted readline input (REPL)
	linePos int
}

func (o *vos) Platform() interp.Platform {
	return interp.Platform{OS: "verifos", Arch: "verifarch", GoVersion: "verifgo"}
}
func (o *vos) Stdin() interp.Input {
	return vin{FileReader: interp.FileReader{R: bytes.NewReader(o.stdin), FileInfo: interp.FixedFileInfo{FName: "stdin", FMode: fs.ModeIrregular}}}
}
func (o *vos) Stdout() interp.Output        { return vout{o.stdout} }
func (o *vos) Stderr() interp.Output        { return vout{o.stderr} }
func (o *vos) InterruptChan() chan struct{} { return nil }
func (o *vos) Environ() []string            { return theEnviron }
func (o *vos) Args() []string               { return o.args }
func (o *vos) ConfigDir() (string, error)   { return "/config", nil }
func (o *vos) FS() fs.FS                    { return o.files }
func (o *vos) History() ([]string, error)   { return nil, nil }
func (o *vos) Readline(opts interp.ReadlineOpts) (string, error) {
	if o.linePos >= len(o.lines) {
		return "", interp.ErrEOF
	}
	l := o.lines[o.linePos]
	o.linePos++
	// mark where the output of this line starts
	o.stdout.WriteString("\x00LINE\n")
	return l, nil
}

type runResult struct {
	exit   int
	stdout []byte
	stderr []byte
	panic  string
}

// runMain = pkg/cli/cli.go Main with the virtual OS: exit code 0 on nil, Exiter's code, else 1.
func runMain(argv []string, files vfs, lines []string) runResult {
	o := &vos{args: append([]string{"fq"}, argv...), files: files, stdout: &bytes.Buffer{}, stderr: &bytes.Buffer{}, lines: lines}
	var res runResult
	msg, panicked := hlib.Catch(func() string {
		i, err := interp.New(o, interp.DefaultRegistry)
		if err != nil {
			res.exit = 1
			return ""
		}
		defer i.Stop()
		if err := i.Main(context.Background(), o.Stdout(), "verif"); err != nil {
			if ex, ok := err.(interp.Exiter); ok {
				res.exit = ex.ExitCode()
			} else {
				res.exit = 1
			}
			return ""
		}
		res.exit = 0
		return ""
	})
	if panicked {
		res.panic = msg
		res.exit = -1
	}
	res.stdout = o.stdout.Bytes()
	res.stderr = o.stderr.Bytes()
	return res
}

var sharedInterp *interp.Interp

func shared() *interp.Interp {
	if sharedInterp == nil {
		o := &vos{args: []string{"fq"}, files: vfs{}, stdout: &bytes.Buffer{}, stderr: &bytes.Buffer{}}
		i, err := interp.New(o, interp.DefaultRegistry)
		if err != nil {
			panic(err)
		}
		sharedInterp = i
	}
	return sharedInterp
}

// evalJQ evaluates a jq expression inside fq's interpreter (one long-lived interpreter; the
// expressions used by this harness are pure) on the given input and returns all outputs.
func evalJQ(expr string, input any) ([]any, error) {
	it, err := shared().Eval(context.Background(), input, expr, interp.EvalOpts{})
	if err != nil {
		return nil, err
	}
	var vs []any
	for {
		v, ok := it.Next()
		if !ok {
			break
		}
		if e, ok := v.(error); ok {
			return vs, e
		}
		vs = append(vs, v)
	}
	return vs, nil
}
