//go:build verif

package main

// pp cases: token sequences over the operator core (atoms, all binary operators, unary minus, postfix `?`,
// parentheses, `as $v |`, `label $l |`, `if … then … end`), grammar-derived and randomly damaged, parsed by the
// real parser (`_query_fromstring`); the driver parses the same tokens with the Lean precedence-climbing parser
// (FqModel/C11Print.lean) and compares the trees — this ties the model's precedence table to the fork's grammar.
//
//	pp <tok> <tok> ...      AST JSON | "reject"

import (
	"strings"

	"github.com/wader/fq/internal/verifharness/hlib"
)

var ppOps = []string{"|", ",", "//", "=", "|=", "+=", "-=", "*=", "/=", "%=", "//=", "or", "and", "==", "!=", "<", "<=", ">", ">=", "+", "-", "*", "/", "%"}
var ppAtoms = []string{"a", "b", "c", "$x", "1", "f"}

type ppGen struct {
	r    *hlib.Rand
	toks []string
	n    int
}

func (g *ppGen) e(t string) { g.toks = append(g.toks, t); g.n-- }

func (g *ppGen) term(d int) {
	switch k := g.r.Intn(12); {
	case d > 0 && g.n > 3 && k == 0:
		g.e("(")
		g.query(d - 1)
		g.e(")")
	case d > 0 && g.n > 3 && k == 1:
		g.e("-")
		g.term(d - 1)
	case d > 0 && g.n > 5 && k == 2:
		g.e("if")
		g.query(d - 1)
		g.e("then")
		g.query(d - 1)
		g.e("end")
	default:
		g.e(ppAtoms[g.r.Intn(len(ppAtoms))])
	}
	for g.r.Intn(100) < 15 {
		g.e("?")
	}
}

func (g *ppGen) query(d int) {
	if d <= 0 || g.n < 3 {
		g.term(0)
		return
	}
	switch g.r.Intn(10) {
	case 0:
		g.term(d - 1)
		g.e("as:" + []string{"$v", "$x"}[g.r.Intn(2)])
		g.query(d - 1)
	case 1:
		g.e("label:$l")
		g.query(d - 1)
	default:
		g.term(d - 1)
		for g.n > 2 && g.r.Intn(100) < 70 {
			g.e(ppOps[g.r.Intn(len(ppOps))])
			if g.r.Intn(100) < 12 {
				// a query-level operand after the operator (valid only after `|` and `,`)
				if g.r.Intn(2) == 0 {
					g.term(d - 1)
					g.e("as:$v")
					g.query(d - 1)
				} else {
					g.e("label:$l")
					g.query(d - 1)
				}
				return
			}
			g.term(d - 1)
		}
	}
}

func genPP(r *hlib.Rand) []string {
	g := &ppGen{r: r, n: 4 + r.Intn(26)}
	g.query(1 + r.Intn(4))
	toks := g.toks
	// damage some sequences: the parsers must agree on rejection too
	if r.Intn(100) < 15 && len(toks) > 1 {
		all := append(append([]string{}, ppOps...), "?", "(", ")", "as:$v", "label:$l", "if", "then", "end", "a")
		switch r.Intn(3) {
		case 0:
			i := r.Intn(len(toks))
			toks = append(toks[:i:i], toks[i+1:]...)
		case 1:
			i := r.Intn(len(toks) + 1)
			toks = append(toks[:i:i], append([]string{all[r.Intn(len(all))]}, toks[i:]...)...)
		default:
			toks[r.Intn(len(toks))] = all[r.Intn(len(all))]
		}
	}
	return toks
}

func ppText(toks []string) string {
	var sb strings.Builder
	for i, t := range toks {
		if i > 0 {
			sb.WriteByte(' ')
		}
		switch {
		case strings.HasPrefix(t, "as:"):
			sb.WriteString("as " + t[3:] + " |")
		case strings.HasPrefix(t, "label:"):
			sb.WriteString("label " + t[6:] + " |")
		default:
			sb.WriteString(t)
		}
	}
	return sb.String()
}

const ppExpr = `map(. as $p | try ($p | _query_fromstring) catch "reject")`

// outside the modelled core: the empty program, unary plus (a fork extension; the model has unary minus), and an
// identifier directly followed by `(` (a call with arguments)
func ppOutsideCore(toks []string) bool {
	if len(toks) == 0 {
		return true
	}
	isOp := func(t string) bool {
		for _, o := range ppOps {
			if o == t {
				return true
			}
		}
		return false
	}
	for i, t := range toks {
		if t == "+" {
			if i == 0 {
				return true
			}
			p := toks[i-1]
			if isOp(p) || p == "(" || p == "if" || p == "then" || strings.HasPrefix(p, "as:") || strings.HasPrefix(p, "label:") {
				return true
			}
		}
		if t == "(" && i > 0 {
			p := toks[i-1]
			if !(isOp(p) || p == "(" || p == "if" || p == "then" || strings.HasPrefix(p, "as:") || strings.HasPrefix(p, "label:")) && p != "?" && p != ")" && p != "end" {
				return true
			}
		}
	}
	return false
}

func (rn *runner) pp(all [][]string) {
	var cs [][]string
	for _, c := range all {
		if ppOutsideCore(c) {
			rn.o.Stat("pp_outside_core", 1)
			continue
		}
		cs = append(cs, c)
	}
	in := make([]any, len(cs))
	for i, c := range cs {
		in[i] = ppText(c)
	}
	res := evalEach(ppExpr, in)
	for i, c := range cs {
		op := "pp " + strings.Join(c, " ")
		rn.o.Case(op, jsonText(res[i]))
		rn.o.Stat("pp", 1)
		if s, ok := res[i].(string); ok && s == "reject" {
			rn.o.Stat("pp_reject", 1)
		} else if len(c) >= 5 {
			rn.o.Class(op)
			if len(c) > 10 {
				rn.o.Sample("pp " + ppText(c))
			}
		}
	}
}

// the cases named in the property statement and the corners of the precedence table
var ppFixed = []string{
	"a - b - c", "a / b / c", "a // b // c", "a | b | c", "a , b , c", "a == b == c", "a = b = c", "a == b != c", "a < b == c", "a = b |= c",
	"a + b * c", "a * b + c", "a - b * c - d", "a and b or c", "a or b and c", "a // b or c", "a or b // c", "a = b // c", "a // b = c",
	"a | b , c", "a , b | c", "- a", "- - a", "- a ?", "( - a ) ?", "a ? ?", "- a - - b", "a - - b", "a * - b", "- a * b",
	"a as:$v b", "a as:$v b , c", "a , b as:$v c , a", "a | b as:$v c | a", "a + b as:$v c", "a // b as:$v c", "- a as:$v b", "a ? as:$v b",
	"label:$l a", "label:$l a | b", "a | label:$l b , c", "a , label:$l b", "a + label:$l b", "( label:$l a ) + b",
	"if a then b end", "if a , b then c | a end ?", "if a then b end - c", "- if a then b end", "if a as:$v b then c end",
	"( a , b ) * c", "( a as:$v b ) , c", "( a )", "( ( a ) )", "a ( b )", "a b", "a +", "+ a", "( a", "a )", "", "?", "a as:$v", "as:$v a", "if a then end",
	"a = b == c", "a == b = c", "a < b + c < a", "a and b == c and a", "a * b / c % a", "a - b + c - a", "a |= b += c", "a , b // c , a",
}

func (rn *runner) ppAll(r *hlib.Rand, n int) {
	var cs [][]string
	for _, p := range ppFixed {
		cs = append(cs, strings.Fields(p))
	}
	for i := 0; i < n; i++ {
		cs = append(cs, genPP(r.Fork()))
	}
	chunk(cs, 400, rn.pp)
}
