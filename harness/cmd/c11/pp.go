//go:build verif

package main

// pp cases: TOKEN sequences over (almost) the whole term/query grammar of the fork — every production of
// parser.go.y for query, expr, term, string, suffix, args, patterns, objects, if/try/reduce/foreach/label/break/def —
// grammar-derived and randomly damaged, parsed by the real parser (`_query_fromstring`); the driver parses the same
// tokens with the Lean parser (FqModel/C11Full.lean) and compares the trees, both directions incl. rejections.
// This ties the model's grammar and precedence table to the fork's.
//
//	pp <word> <word> ...      AST JSON | "reject"
//
// words: numbers, "plain" strings, identifiers, $variables, .fields, @formats, `.`, `..`, keywords, operators,
// `?`, `?//`, ( ) [ ] { } : ;, and for interpolated strings `S<` (start) `\(` (query start) `>S` (end) with the
// literal pieces written as "plain" words.

import (
	"strings"

	"github.com/wader/fq/internal/verifharness/hlib"
)

var ppOps = []string{"|", ",", "//", "=", "|=", "+=", "-=", "*=", "/=", "%=", "//=", "or", "and", "==", "!=", "<", "<=", ">", ">=", "+", "-", "*", "/", "%"}
var ppExprOps = []string{"//", "=", "|=", "+=", "-=", "*=", "/=", "%=", "//=", "or", "and", "==", "!=", "<", "<=", ">", ">=", "+", "-", "*", "/", "%"}
var ppIdents = []string{"a", "b", "c", "f", "g", "empty", "error", "not"}
var ppVars = []string{"$x", "$y", "$v", "$__loc__", "$ENV"}
var ppFields = []string{".a", ".b", ".foo", ".if", ".and", "._x"}
var ppNums = []string{"0", "1", "2", "10", "1.5", ".5", "1e3", "0x1f", "0o17", "0b101", "0x1_000", "0b1111_0000", "007"}
var ppStrs = []string{`"a"`, `"b"`, `"xy"`, `""`, `"k1"`}
var ppFmts = []string{"@base64", "@json", "@text"}
var ppKeywords = []string{"or", "and", "module", "import", "include", "def", "as", "label", "break", "null", "true", "false",
	"if", "then", "elif", "else", "end", "try", "catch", "reduce", "foreach"}

type ppGen struct {
	r    *hlib.Rand
	toks []string
	n    int
}

func (g *ppGen) e(ts ...string)       { g.toks = append(g.toks, ts...); g.n -= len(ts) }
func (g *ppGen) pick(ss []string) string { return ss[g.r.Intn(len(ss))] }
func (g *ppGen) chance(p int) bool    { return g.r.Intn(100) < p }

// string: plain, or interpolated with at least one query and non-adjacent non-empty pieces (what the lexer can emit)
func (g *ppGen) str(d int) {
	if d <= 0 || g.n < 6 || g.chance(70) {
		g.e(g.pick(ppStrs))
		return
	}
	g.e("S<")
	piece := func() {
		if g.chance(50) {
			g.e(g.pick([]string{`"p"`, `"q1"`, `"zz"`}))
		}
	}
	piece()
	for i, k := 0, 1+g.r.Intn(2); i < k; i++ {
		g.e(`\(`)
		g.query(d - 1)
		g.e(")")
		if i < k-1 {
			g.e(g.pick([]string{`"p"`, `"-"`})) // a piece between two queries keeps them apart (optional in the lexer, fixed here)
		}
	}
	piece()
	g.e(">S")
}

func (g *ppGen) key() string {
	switch g.r.Intn(4) {
	case 0:
		return g.pick(ppVars)
	case 1:
		return g.pick(ppKeywords)
	default:
		return g.pick([]string{"a", "b", "k", "foo"})
	}
}

func (g *ppGen) objVal(d int) {
	g.expr(d)
	for g.chance(20) {
		g.e("|")
		g.expr(d)
	}
}

func (g *ppGen) pattern(d int) {
	switch {
	case d <= 0 || g.chance(50):
		g.e(g.pick(ppVars))
	case g.chance(50):
		g.e("[")
		for i, k := 0, 1+g.r.Intn(3); i < k; i++ {
			if i > 0 {
				g.e(",")
			}
			g.pattern(d - 1)
		}
		g.e("]")
	default:
		g.e("{")
		for i, k := 0, 1+g.r.Intn(3); i < k; i++ {
			if i > 0 {
				g.e(",")
			}
			switch g.r.Intn(5) {
			case 0:
				g.e(g.pick(ppVars))
			case 1:
				g.e(g.key(), ":")
				g.pattern(d - 1)
			case 2:
				g.str(d - 1)
				g.e(":")
				g.pattern(d - 1)
			case 3:
				g.e("(")
				g.query(d - 1)
				g.e(")", ":")
				g.pattern(d - 1)
			default:
				g.e(g.pick([]string{"a", "b"}), ":")
				g.pattern(d - 1)
			}
		}
		g.e("}")
	}
}

func (g *ppGen) bracket(d int) {
	g.e("[")
	switch g.r.Intn(6) {
	case 0, 1:
	case 2:
		g.query(d - 1)
	case 3:
		g.query(d - 1)
		g.e(":")
	case 4:
		g.e(":")
		g.query(d - 1)
	default:
		g.query(d - 1)
		g.e(":")
		g.query(d - 1)
	}
	g.e("]")
}

func (g *ppGen) atom() {
	switch g.r.Intn(12) {
	case 0, 1:
		g.e(g.pick(ppNums))
	case 2:
		g.e(g.pick(ppStrs))
	case 3, 4:
		g.e(g.pick(ppIdents))
	case 5:
		g.e(g.pick(ppVars))
	case 6, 7:
		g.e(g.pick(ppFields))
	case 8:
		g.e(".")
	case 9:
		g.e("..")
	case 10:
		g.e(g.pick([]string{"null", "true", "false"}))
	default:
		g.e(g.pick(ppFmts))
	}
}

func (g *ppGen) term(d int) {
	if d <= 0 || g.n < 4 {
		g.atom()
	} else {
		switch g.r.Intn(26) {
		case 0:
			g.e("(")
			g.query(d - 1)
			g.e(")")
		case 1, 2:
			g.e(g.pick([]string{"-", "-", "+"}))
			g.term(d - 1)
			return // postfix belongs to the inner term
		case 3:
			g.e("if")
			g.query(d - 1)
			g.e("then")
			g.query(d - 1)
			for g.chance(25) {
				g.e("elif")
				g.query(d - 1)
				g.e("then")
				g.query(d - 1)
			}
			if g.chance(50) {
				g.e("else")
				g.query(d - 1)
			}
			g.e("end")
		case 4, 5:
			g.e("try")
			g.term(d - 1)
			if g.chance(55) {
				g.e("catch")
				g.term(d - 1)
			}
			return
		case 6:
			g.e("reduce")
			g.expr(d - 1)
			g.e("as")
			g.pattern(d - 1)
			g.e("(")
			g.query(d - 1)
			g.e(";")
			g.query(d - 1)
			g.e(")")
		case 7:
			g.e("foreach")
			g.expr(d - 1)
			g.e("as")
			g.pattern(d - 1)
			g.e("(")
			g.query(d - 1)
			g.e(";")
			g.query(d - 1)
			if g.chance(50) {
				g.e(";")
				g.query(d - 1)
			}
			g.e(")")
		case 8:
			g.e("break", g.pick(ppVars))
		case 9:
			g.e(g.pick(ppIdents), "(")
			for i, k := 0, 1+g.r.Intn(3); i < k; i++ {
				if i > 0 {
					g.e(";")
				}
				g.query(d - 1)
			}
			g.e(")")
		case 10:
			g.e(".")
			g.bracket(d)
		case 11:
			g.e(".")
			g.str(d - 1)
		case 12:
			g.e(g.pick(ppFmts))
			g.str(d - 1)
		case 13:
			g.str(d)
		case 14:
			g.e("[")
			if g.chance(80) {
				g.query(d - 1)
			}
			g.e("]")
		case 15, 16:
			g.e("{")
			for i, k := 0, g.r.Intn(4); i < k; i++ {
				if i > 0 {
					g.e(",")
				}
				switch g.r.Intn(6) {
				case 0:
					g.e(g.key())
				case 1:
					g.str(d - 1)
				case 2:
					g.str(d - 1)
					g.e(":")
					g.objVal(d - 1)
				case 3:
					g.e("(")
					g.query(d - 1)
					g.e(")", ":")
					g.objVal(d - 1)
				default:
					g.e(g.key(), ":")
					g.objVal(d - 1)
				}
			}
			g.e("}")
		default:
			g.atom()
		}
	}
	for g.chance(28) && g.n > 0 {
		switch g.r.Intn(6) {
		case 0, 1:
			g.e("?")
		case 2, 3:
			g.e(g.pick(ppFields))
		case 4:
			g.bracket(d)
		default:
			g.e(".")
			g.str(d - 1)
		}
	}
}

func (g *ppGen) expr(d int) {
	g.term(d)
	for d > 0 && g.n > 2 && g.chance(40) {
		g.e(g.pick(ppExprOps))
		g.term(d - 1)
	}
}

func (g *ppGen) open(d int) {
	switch g.r.Intn(3) {
	case 0:
		g.term(d - 1)
		g.e("as")
		g.pattern(d - 1)
		for g.chance(25) {
			g.e("?//")
			g.pattern(d - 1)
		}
		g.e("|")
		g.query(d - 1)
	case 1:
		g.e("label", g.pick([]string{"$l", "$out"}), "|")
		g.query(d - 1)
	default:
		g.e("def", g.pick([]string{"f", "g", "h"}))
		if g.chance(50) {
			g.e("(")
			for i, k := 0, 1+g.r.Intn(3); i < k; i++ {
				if i > 0 {
					g.e(";")
				}
				g.e(g.pick([]string{"f", "g", "$x", "$y"}))
			}
			g.e(")")
		}
		g.e(":")
		g.query(d - 1)
		g.e(";")
		g.query(d - 1)
	}
}

func (g *ppGen) query(d int) {
	if d <= 0 || g.n < 3 {
		g.term(0)
		return
	}
	if g.chance(18) {
		g.open(d)
		return
	}
	g.term(d - 1)
	for g.n > 2 && g.chance(60) {
		g.e(g.pick(ppOps))
		if g.chance(12) {
			g.open(d) // valid only after `|` and `,`
			return
		}
		g.term(d - 1)
	}
}

func (g *ppGen) constTerm(d int) {
	switch {
	case d > 0 && g.chance(25):
		g.constObj(d - 1)
	case d > 0 && g.chance(25):
		g.e("[")
		for i, k := 0, g.r.Intn(3); i < k; i++ {
			if i > 0 {
				g.e(",")
			}
			g.constTerm(d - 1)
		}
		g.e("]")
	default:
		g.e(g.pick([]string{"1", "0x1f", `"s"`, `""`, "null", "true", "false", "1.5"}))
	}
}

func (g *ppGen) constObj(d int) {
	g.e("{")
	for i, k := 0, g.r.Intn(3); i < k; i++ {
		if i > 0 {
			g.e(",")
		}
		g.e(g.pick([]string{"a", "search", "if", "and", `"k"`, `""`, "module"}), ":")
		g.constTerm(d)
	}
	g.e("}")
}

// module / import / include directives (parser.go.y:56-100)
func (g *ppGen) directives() {
	if g.chance(50) {
		g.e("module")
		g.constObj(2)
		g.e(";")
	}
	for i := g.r.Intn(3); i > 0; i-- {
		if g.chance(50) {
			g.e("import", g.pick([]string{`"a"`, `"lib/b"`, `"x"`}), "as", g.pick([]string{"foo", "$data", "m"}))
		} else {
			g.e("include", g.pick([]string{`"a"`, `"c"`}))
		}
		if g.chance(40) {
			g.constObj(1)
		}
		g.e(";")
	}
}

func genPP(r *hlib.Rand) []string {
	g := &ppGen{r: r, n: 4 + r.Intn(36)}
	if g.chance(10) {
		g.directives()
	}
	g.query(1 + r.Intn(4))
	toks := g.toks
	// damage some sequences: the parsers must agree on rejection too
	if r.Intn(100) < 12 && len(toks) > 1 {
		all := append(append([]string{}, ppOps...), "?", "(", ")", "[", "]", "{", "}", ":", ";", "as", "label", "if", "then", "else", "end", "try",
			"catch", "a", "$x", ".a", ".", "1", `"s"`, "?//", "def", "reduce", "break")
		switch r.Intn(3) {
		case 0:
			i := r.Intn(len(toks))
			toks = append(toks[:i:i], toks[i+1:]...)
		case 1:
			i := r.Intn(len(toks) + 1)
			toks = append(toks[:i:i], append([]string{all[r.Intn(len(all))]}, toks[i:]...)...)
		default:
			toks[r.Intn(len(toks))] = all[r.Intn(len(all))]
		}
	}
	return toks
}

// ppText renders the words as program text; ok=false when the string tokens are not properly nested (then the text
// would not lex to these tokens)
func ppText(toks []string) (text string, ok bool) {
	var sb strings.Builder
	type ctx struct {
		inStr bool
		depth int // parenthesis depth inside an interpolation
	}
	stack := []ctx{{}}
	top := func() *ctx { return &stack[len(stack)-1] }
	tight := true
	emit := func(s string) {
		if !tight {
			sb.WriteByte(' ')
		}
		sb.WriteString(s)
		tight = false
	}
	prevPiece := false
	for _, t := range toks {
		c := top()
		isPiece := false
		switch {
		case c.inStr:
			switch {
			case t == `\(`:
				sb.WriteString(`\(`)
				stack = append(stack, ctx{})
				tight = false
			case t == ">S":
				sb.WriteString(`"`)
				stack = stack[:len(stack)-1]
				tight = false
			case len(t) >= 2 && t[0] == '"' && t[len(t)-1] == '"':
				if prevPiece || len(t) == 2 {
					return "", false // adjacent or empty pieces cannot come out of the lexer
				}
				sb.WriteString(t[1 : len(t)-1])
				isPiece = true
			default:
				return "", false
			}
		case t == "S<":
			emit(`"`)
			stack = append(stack, ctx{inStr: true})
			tight = true
		case t == `\(` || t == ">S":
			return "", false
		case t == "(":
			c.depth++
			emit(t)
		case t == ")":
			if c.depth == 0 && len(stack) > 1 {
				// closes the interpolation
				sb.WriteString(" )")
				stack = stack[:len(stack)-1]
				tight = true
			} else {
				c.depth--
				emit(t)
			}
		default:
			emit(t)
		}
		prevPiece = isPiece
	}
	if len(stack) != 1 {
		return "", false
	}
	return sb.String(), true
}

// outside the modelled grammar (see FqModel/C11Full.lean): the empty program, `term . [` (prints without the dot),
// a trailing comma in an object, an interpolated string without a query, two adjacent plain strings
func ppOutsideCore(toks []string) bool {
	if len(toks) == 0 || toks[len(toks)-1] == ";" {
		return true // empty, or a program of definitions only
	}
	for _, t := range toks {
		if strings.Contains(t, "::") {
			return true // module identifiers/variables are separate token classes (terms only)
		}
	}
	termEnd := func(p string) bool {
		switch p {
		case ")", "]", "}", "?", "..", ".", ">S", "null", "true", "false", "end":
			return true
		}
		if p == "" {
			return false
		}
		for _, o := range ppOps {
			if o == p {
				return false
			}
		}
		for _, k := range ppKeywords {
			if k == p {
				return false
			}
		}
		switch p {
		case "(", "[", "{", ":", ";", "?//", "S<", `\(`:
			return false
		}
		return true // identifiers, variables, fields, numbers, strings, formats
	}
	isStr := func(t string) bool { return len(t) >= 2 && t[0] == '"' }
	for i, t := range toks {
		if t == "." && i+1 < len(toks) && toks[i+1] == "[" && i > 0 && termEnd(toks[i-1]) {
			return true
		}
		if t == "," && i+1 < len(toks) && toks[i+1] == "}" {
			return true
		}
		if isStr(t) && i+1 < len(toks) && isStr(toks[i+1]) {
			return true
		}
		if t == "S<" {
			// needs a query before the end
			has := false
			for j := i + 1; j < len(toks) && toks[j] != ">S"; j++ {
				if toks[j] == `\(` {
					has = true
					break
				}
			}
			if !has {
				return true
			}
		}
		// a trailing comma in a constant object too (handled by the `, }` rule above)
	}
	return false
}

const ppExpr = `map(. as $p | try ($p | _query_fromstring) catch "reject")`

func (rn *runner) pp(all [][]string) {
	var cs [][]string
	var texts []any
	for _, c := range all {
		if ppOutsideCore(c) {
			rn.o.Stat("pp_outside_core", 1)
			continue
		}
		text, ok := ppText(c)
		if !ok {
			rn.o.Stat("pp_outside_core", 1)
			continue
		}
		cs = append(cs, c)
		texts = append(texts, text)
	}
	res := evalEach(ppExpr, texts)
	for i, c := range cs {
		op := "pp " + strings.Join(c, " ")
		rn.o.Case(op, jsonText(res[i]))
		rn.o.Stat("pp", 1)
		if s, ok := res[i].(string); ok && s == "reject" {
			rn.o.Stat("pp_reject", 1)
		} else if len(c) >= 5 {
			rn.o.Class(op)
			if len(c) > 14 {
				rn.o.Sample("pp " + texts[i].(string))
			}
		}
	}
}

// the cases named in the property statement and the corners of the grammar
var ppFixed = []string{
	"a - b - c", "a / b / c", "a // b // c", "a | b | c", "a , b , c", "a == b == c", "a = b = c", "a == b != c", "a < b == c", "a = b |= c",
	"a + b * c", "a * b + c", "a - b * c - a", "a and b or c", "a or b and c", "a // b or c", "a or b // c", "a = b // c", "a // b = c",
	"a | b , c", "a , b | c", "- a", "- - a", "- a ?", "( - a ) ?", "a ? ?", "- a - - b", "a - - b", "a * - b", "- a * b", "+ a", "+ - a", "a + + b",
	"a as $v | b", "a as $v | b , c", "a , b as $v | c , a", "a | b as $v | c | a", "a + b as $v | c", "a // b as $v | c", "- a as $v | b", "a ? as $v | b",
	"label $l | a", "label $l | a | b", "a | label $l | b , c", "a , label $l | b", "a + label $l | b", "( label $l | a ) + b",
	"if a then b end", "if a , b then c | a end ?", "if a then b end - c", "- if a then b end", "if a as $v | b then c end",
	"if a then b elif c then a elif b then c else a end", "if a then b else c end .a [ 0 ]",
	"( a , b ) * c", "( a as $v | b ) , c", "( a )", "( ( a ) )", "a ( b )", "a ( b ; c , a ; b | c )", "a b", "a +", "( a", "a )", "?", "a as $v |", "as $v | a", "if a then end",
	"a = b == c", "a == b = c", "a < b + c < a", "a and b == c and a", "a * b / c % a", "a - b + c - a", "a |= b += c", "a , b // c , a",
	"try a", "try a catch b", "try try a catch b", "try try a catch b catch c", "try ( try a ) catch b", "try a ?", "try - a", "try a + b", "try a catch b + c",
	"try a catch try b", "try a catch try b catch c", "- try a catch b", "try - try a catch b", "try a as $v | b", "try a . b", "try a .b catch c [ 0 ]",
	"reduce a as $x ( 0 ; . + $x )", "reduce a // b as [ $x , { k : $y } ] ( 0 ; . ) ?", "reduce a , b as $x ( 0 ; 1 )", "reduce a | b as $x ( 0 ; 1 )",
	"foreach a as $x ( 0 ; 1 )", "foreach a as $x ( 0 ; 1 ; 2 )", "foreach a as $x ( 0 ; 1 ; 2 ; 3 )", "reduce - a as $x ( 0 ; 1 )",
	"break $x", "label $l | break $l", "break $x .a", "break",
	"def f : a ; b", "def f ( g ; $x ) : a ; b", "def f : def g : a ; b ; c", "a | def f : b ; c , a", "a + def f : b ; c", "def f : a ;", "def f ( ) : a ; b",
	"def f : a ; b | c", "( def f : a ; b ) | c", "def f ( $x ) : a as $y | b ; c",
	". as [ $a , { b : $c , $d , \"e\" : $f , ( 1 ) : $g , $h : [ $i ] , if : $j } ] ?// $z ?// [ $w ] | a", ". as { } | a", ". as [ ] | a", ". as $a ?// | a",
	".a", ".a .b", ". .a", ".. .a", ".a ?", ".a [ 0 ]", ".a [ ]", ".a [ 1 : ]", ".a [ : 2 ]", ".a [ 1 : 2 ]", ".a [ 1 , 2 : 3 | 4 ]", ". [ 0 ]", ". [ ]", ". [ ] ?", ". [ 1 : 2 ] .a",
	". \"a\"", ". \"a\" .b", ".a . \"b\"", ". . \"b\"", ". S< \"p\" \\( 1 ) >S", ".a . S< \\( 1 ) \"p\" >S [ 0 ]", ".. [ 0 ]", "1 [ 0 ]", "1 .a", "$x .a [ 0 ] ? .b",
	"\"a\"", "S< \\( 1 ) >S", "S< \"p\" \\( 1 + 2 ) \"q1\" \\( S< \\( a ) >S ) >S", "@base64", "@base64 \"a\"", "@json S< \"p\" \\( . ) >S", "@text .a", "@text . \"a\"",
	"[ ]", "[ a ]", "[ a , b | c ]", "[ a as $x | b ]", "{ }", "{ a : 1 }", "{ a : 1 , \"b\" : 2 , ( 1 ) : 3 , $x , c , \"d\" , S< \\( 1 ) >S , if : 1 , and : 2 , or }",
	"{ a : 1 | 2 }", "{ a : 1 | 2 | 3 , b : 4 }", "{ a : 1 , 2 }", "{ a : 1 // 2 + 3 }", "{ a : - 1 }", "{ a : b as $x | c }", "{ a : label $l | b }", "{ ( a , b | c ) : 1 }",
	"{ $__loc__ }", "{ a : . as [ $x ] | 1 }", "{ a : ( . as $x | 1 ) }", "{ \"a\" : 1 , }", "{ , }", "{ a b }", "{ 1 : 2 }",
	"0x1f + 0o17 * 0b101 - 0x1_000", "1.5 / .5 % 1e3", "null , true , false", "$__loc__ , $ENV .a",
	"a ? // b", "a ?// b", "a as $x ?// $y | b",
	"module { } ; a", "module { a : 1 , \"b\" : [ 1 , \"x\" , null , { if : true } ] } ; import \"a\" as foo ; include \"b\" { search : \"./\" } ; import \"c\" as $d { } ; foo::f | a",
	"import \"a\" as foo ; a", "include \"a\" ; a", "import \"a\" as $d { x : 1 } ; $d", "include \"a\" { } ; include \"b\" ; a",
	"module { } ; module { } ; a", "import \"a\" ; a", "import \"a\" as 1 ; a", "include \"a\" as foo ; a", "module [ ] ; a", "module { a : b } ; a",
	"a ; import \"a\" as foo ; b", "import \"a\" as foo a", "module { a : - 1 } ; a", "module { $x : 1 } ; a", "include S< \\( 1 ) >S ; a",
}

func (rn *runner) ppAll(r *hlib.Rand, n int) {
	var cs [][]string
	for _, p := range ppFixed {
		cs = append(cs, strings.Fields(p))
	}
	for i := 0; i < n; i++ {
		cs = append(cs, genPP(r.Fork()))
	}
	chunk(cs, 400, rn.pp)
}
