//go:build verif

package main

import "github.com/wader/fq/internal/verifharness/hlib"

func (rn *runner) semAll(r *hlib.Rand, nEv, nCli, nRepl int) {}
func (rn *runner) semReplay(f []string, line string)        {}
