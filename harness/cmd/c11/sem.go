//go:build verif

package main

// Semantic differential for C11 (harness-decided, no Lean oracle):
//
//	sem ev <hexprog> <hexinput>      fq evaluates P directly (interp.Eval: gojq.Parse(P), no rewrite) vs through
//	                                 eval($p) = parse, rewrite with {} options, print, parse again, evaluate (eval.jq:95-116)
//	sem cli <n|f|s> <hexprog>        the gojq library evaluates P (reference main loop of jq: null input / one evaluation
//	                                 per input sharing the input iterator / slurp) vs fq's command line path
//	                                 (_main -> _cli_eval -> eval with input/output/catch queries) on virtual JSON files
//	sem repl <hexline>,<hexline>...  reference evaluation of every line on every REPL input vs fq -i with scripted
//	                                 readline (_repl_eval: `.[] | try (P) catch _repl_on_expr_error | _repl_display`),
//	                                 including `EXPR | slurp("v")` followed by `$v`
import (
	"bytes"
	"context"
	"encoding/json"
	"fmt"
	"strings"

	"github.com/wader/fq/internal/verifharness/hlib"
	"github.com/wader/fq/pkg/interp"
	"github.com/wader/gojq"
)

// ---------------------------------------------------------------- outcomes

type outcome struct {
	outs []string // canonical JSON of every output
	err  string   // "" = no error; else error descriptor
}

func (o outcome) String() string {
	s := "[" + strings.Join(o.outs, ",") + "]"
	if o.err != "" {
		s += " !" + o.err
	}
	return s
}

func canonValue(v any) string {
	// round trip through encoding/json so that int/float64/big.Int print alike on both sides
	b, err := gojq.Marshal(v)
	if err != nil {
		return "unmarshalable:" + err.Error()
	}
	var x any
	d := json.NewDecoder(bytes.NewReader(b))
	d.UseNumber()
	if err := d.Decode(&x); err != nil {
		return "undecodable:" + string(b)
	}
	return jsonText(canonNumbers(x))
}

func canonNumbers(v any) any {
	switch v := v.(type) {
	case map[string]any:
		for k, e := range v {
			v[k] = canonNumbers(e)
		}
		return v
	case []any:
		for i, e := range v {
			v[i] = canonNumbers(e)
		}
		return v
	case json.Number:
		if f, err := v.Float64(); err == nil {
			return f
		}
		return v.String()
	default:
		return v
	}
}

// error descriptor: compile errors by kind and message (positions differ by construction: the rewritten
// text is not the user's text), value errors by value, others by message
func errDesc(v any) string {
	if m, ok := v.(map[string]any); ok {
		if w, ok := m["what"].(string); ok {
			if e, ok := m["error"].(string); ok {
				return "compile:" + w + ":" + e
			}
		}
	}
	return "value:" + canonValue(v)
}

func goErrDesc(err error) string {
	type valuer interface{ Value() any }
	if ve, ok := err.(valuer); ok {
		return errDesc(ve.Value())
	}
	return "value:" + canonValue(err.Error())
}

// ---------------------------------------------------------------- sem ev

func fqDirect(prog string, input any) outcome {
	var oc outcome
	msg, panicked := hlib.Catch(func() string {
		it, err := shared().Eval(context.Background(), input, prog, interp.EvalOpts{})
		if err != nil {
			oc.err = goErrDesc(err)
			return ""
		}
		for n := 0; ; n++ {
			v, ok := it.Next()
			if !ok {
				break
			}
			if e, ok := v.(error); ok {
				oc.err = goErrDesc(e)
				break
			}
			oc.outs = append(oc.outs, canonValue(v))
			if n > 2000 {
				oc.err = "too-many-outputs"
				break
			}
		}
		return ""
	})
	if panicked {
		oc.err = "panic:" + msg
	}
	return oc
}

const evExpr = `map(. as $c | $c.i | [limit(2003; try (eval($c.p) | {v: .}) catch {e: .})])`

func fqThroughEval(progs []string, inputs []any) []outcome {
	in := make([]any, len(progs))
	for i := range progs {
		in[i] = map[string]any{"p": progs[i], "i": inputs[i]}
	}
	res := evalEach(evExpr, in)
	out := make([]outcome, len(progs))
	for i, r := range res {
		a, ok := r.([]any)
		if !ok {
			out[i].err = "harness:" + jsonText(r)
			continue
		}
		for _, e := range a {
			m, _ := e.(map[string]any)
			if ev, isErr := m["e"]; isErr {
				out[i].err = errDesc(ev)
			} else {
				out[i].outs = append(out[i].outs, canonValue(m["v"]))
			}
		}
		if len(out[i].outs) > 2001 {
			out[i].outs = out[i].outs[:2002]
			out[i].err = "too-many-outputs"
		}
	}
	return out
}

type evCase struct {
	prog  string
	input string // JSON text
}

func (rn *runner) semEv(cs []evCase) {
	progs := make([]string, len(cs))
	inputs := make([]any, len(cs))
	for i, c := range cs {
		progs[i] = c.prog
		var v any
		if err := json.Unmarshal([]byte(c.input), &v); err != nil {
			panic(err)
		}
		inputs[i] = v
	}
	through := fqThroughEval(progs, inputs)
	for i, c := range cs {
		var v any
		_ = json.Unmarshal([]byte(c.input), &v)
		direct := fqDirect(c.prog, v)
		op := "sem ev " + hx(c.prog) + " " + hx(c.input)
		rn.o.N++
		rn.o.Stat("sem_ev", 1)
		if direct.String() == through[i].String() {
			rn.o.Verdict("OK", op)
		} else {
			rn.o.Verdict("PROPFAIL", op+" :: program "+c.prog+" on "+c.input+": direct "+direct.String()+" but through eval "+through[i].String())
		}
		rn.semAccount("ev", c.prog, direct)
	}
}

func (rn *runner) semAccount(kind, prog string, ref outcome) {
	switch {
	case strings.HasPrefix(ref.err, "compile:"):
		rn.o.Stat("sem_"+kind+"_compile_error", 1)
	case ref.err != "":
		rn.o.Stat("sem_"+kind+"_runtime_error", 1)
		if len(ref.outs) > 0 {
			rn.o.Class("sem:" + kind + ":" + prog)
		}
	case len(ref.outs) == 0:
		rn.o.Stat("sem_"+kind+"_empty", 1)
	default:
		rn.o.Stat("sem_"+kind+"_values", 1)
		rn.o.Class("sem:" + kind + ":" + prog)
	}
}

// ---------------------------------------------------------------- reference engine (gojq library)

var cliFiles = []struct{ name, data string }{
	{"a.json", `{"a":1,"b":[1,2,3],"c":"x"}`},
	{"b.json", `[3,{"a":2},"s",null]`},
	{"c.json", `7`},
}

var cliArgNames = []string{"$opts", "$q"}
var cliArgValues = []any{"OPTSVAL", "QVAL"}

func cliInputs() []any {
	var vs []any
	for _, f := range cliFiles {
		var v any
		if err := json.Unmarshal([]byte(f.data), &v); err != nil {
			panic(err)
		}
		vs = append(vs, normalizeNumbers(v))
	}
	return vs
}

func normalizeNumbers(v any) any {
	switch v := v.(type) {
	case map[string]any:
		for k, e := range v {
			v[k] = normalizeNumbers(e)
		}
		return v
	case []any:
		for i, e := range v {
			v[i] = normalizeNumbers(e)
		}
		return v
	case float64:
		if v == float64(int(v)) {
			return int(v)
		}
		return v
	default:
		return v
	}
}

type sliceIter struct {
	vs []any
	i  int
}

func (s *sliceIter) Next() (any, bool) {
	if s.i >= len(s.vs) {
		return nil, false
	}
	v := s.vs[s.i]
	s.i++
	return v, true
}

// one evaluation of compiled code
func refRun(code *gojq.Code, input any, vars []any) outcome {
	var oc outcome
	it := code.Run(input, vars...)
	for n := 0; ; n++ {
		v, ok := it.Next()
		if !ok {
			break
		}
		if e, ok := v.(error); ok {
			oc.err = goErrDesc(e)
			break
		}
		oc.outs = append(oc.outs, canonValue(v))
		if n > 2000 {
			oc.err = "too-many-outputs"
			break
		}
	}
	return oc
}

// refCompileQuery compiles a parsed program directly with the library.  jq semantics for a program without
// a main expression (empty, or only definitions): identity.  `tovalue` (fq: decode value -> plain JSON) is
// the identity on the reference side, whose inputs are plain JSON already.
func refCompileQuery(q *gojq.Query, inputs gojq.Iter, varNames []string) (*gojq.Code, string) {
	if q.Term == nil && q.Right == nil {
		q.Term = &gojq.Term{Type: gojq.TermTypeIdentity}
	}
	opts := []gojq.CompilerOption{
		gojq.WithEnvironLoader(func() []string { return theEnviron }),
		gojq.WithVariables(varNames),
		gojq.WithFunction("tovalue", 0, 0, func(v any, _ []any) any { return v }),
		// fq's slurp/repl outside the last position of a pipeline: an error (repl.jq:313-335)
		gojq.WithFunction("slurp", 0, 1, func(any, []any) any { return fmt.Errorf("slurp must be last in pipeline") }),
		gojq.WithFunction("repl", 0, 1, func(any, []any) any { return fmt.Errorf("repl must be last in pipeline") }),
	}
	if inputs != nil {
		opts = append(opts, gojq.WithInputIter(inputs))
	}
	code, err := gojq.Compile(q, opts...)
	if err != nil {
		return nil, "compile:compile"
	}
	return code, ""
}

func refCompile(prog string, inputs gojq.Iter, varNames []string) (*gojq.Code, string) {
	q, err := gojq.Parse(prog)
	if err != nil {
		return nil, "compile:parse"
	}
	return refCompileQuery(q, inputs, varNames)
}

type cliExpect struct {
	outs       []string
	errs       int  // number of evaluations that ended in an error
	compileErr bool // program does not parse/compile
}

// the program text given to fq: in the modes whose `.` is a decode value it is converted to plain JSON first
func cliProgText(mode, prog string) string {
	switch mode {
	case "f":
		return "tovalue | " + prog
	case "s":
		return "map(tovalue) | " + prog
	}
	return prog
}

// reference main loop (what jq / gojq's cli do with the same inputs)
func refCLI(mode, prog string) (exp cliExpect, panicMsg string) {
	msg, panicked := hlib.Catch(func() string {
		it := &sliceIter{vs: cliInputs()}
		code, cerr := refCompile(cliProgText(mode, prog), it, cliArgNames)
		if cerr != "" {
			exp.compileErr = true
			return ""
		}
		one := func(in any) {
			oc := refRun(code, in, cliArgValues)
			exp.outs = append(exp.outs, oc.outs...)
			if oc.err != "" {
				exp.errs++
			}
		}
		switch mode {
		case "n":
			one(nil)
		case "s":
			all := it.vs
			it.i = len(it.vs)
			one(append([]any{}, all...))
		default:
			for {
				v, ok := it.Next()
				if !ok {
					break
				}
				one(v)
			}
		}
		return ""
	})
	if panicked {
		return exp, msg
	}
	return exp, ""
}

// decodeStream splits captured output into JSON values and `error:` lines
func decodeStream(b []byte) (vals []string, errLines int, junk string) {
	var js bytes.Buffer
	for _, l := range strings.Split(string(b), "\n") {
		if strings.HasPrefix(l, "error:") {
			errLines++
			continue
		}
		js.WriteString(l)
		js.WriteByte('\n')
	}
	d := json.NewDecoder(&js)
	d.UseNumber()
	for {
		var v any
		if err := d.Decode(&v); err != nil {
			if err.Error() != "EOF" {
				junk = err.Error()
			}
			break
		}
		vals = append(vals, jsonText(canonNumbers(v)))
	}
	return vals, errLines, junk
}

func cliArgv(mode, prog string) []string {
	argv := []string{"-c", "-d", "json", "--arg", "opts", "OPTSVAL", "--arg", "q", "QVAL"}
	switch mode {
	case "n":
		argv = append(argv, "-n")
	case "s":
		argv = append(argv, "-s")
	}
	argv = append(argv, "--", cliProgText(mode, prog))
	for _, f := range cliFiles {
		argv = append(argv, f.name)
	}
	return argv
}

func cliVFS() vfs {
	files := vfs{}
	for _, f := range cliFiles {
		files[f.name] = []byte(f.data)
	}
	return files
}

func (rn *runner) semCli(mode, prog string) {
	op := "sem cli " + mode + " " + hx(prog)
	rn.o.N++
	rn.o.Stat("sem_cli", 1)
	rn.o.Stat("sem_cli_mode_"+mode, 1)
	exp, pmsg := refCLI(mode, prog)
	if pmsg != "" {
		rn.o.Verdict("BADOP", op+" :: reference engine panicked: "+pmsg)
		return
	}
	res := runMain(cliArgv(mode, prog), cliVFS(), nil)
	detail := func(why string) string {
		return fmt.Sprintf("%s :: program %s mode %s: %s; reference outs=%v errs=%d compile=%v; fq exit=%d stdout=%q stderr=%q",
			op, prog, mode, why, exp.outs, exp.errs, exp.compileErr, res.exit, clip(res.stdout), clip(res.stderr))
	}
	fail := func(why string) {
		rn.o.Verdict("PROPFAIL", detail(why))
	}
	switch {
	case res.panic != "":
		fail("fq panicked: " + res.panic)
		return
	case exp.compileErr:
		rn.o.Stat("sem_cli_compile_error", 1)
		if res.exit != 3 || len(bytes.TrimSpace(res.stdout)) != 0 {
			fail("reference rejects the program at compile time, fq does not (exit 3 expected)")
			return
		}
		rn.o.Verdict("OK", op)
		return
	}
	vals, _, junk := decodeStream(res.stdout)
	wantExit := 0
	if exp.errs > 0 {
		wantExit = 5
	}
	switch {
	case junk != "":
		fail("stdout is not a stream of JSON values: " + junk)
	case strings.Join(vals, "\n") != strings.Join(exp.outs, "\n"):
		fail("outputs differ")
	case res.exit != wantExit:
		fail(fmt.Sprintf("exit code %d, expected %d", res.exit, wantExit))
	case exp.errs != strings.Count(string(res.stderr), "error:"):
		fail(fmt.Sprintf("%d evaluations end in an error but %d error reports on stderr", exp.errs, strings.Count(string(res.stderr), "error:")))
	default:
		rn.o.Verdict("OK", op)
	}
	oc := outcome{outs: exp.outs}
	if exp.errs > 0 {
		oc.err = "runtime"
	}
	rn.semAccount("cli", mode+":"+prog, oc)
}

func clip(b []byte) string {
	if len(b) > 400 {
		return string(b[:400]) + "..."
	}
	return string(b)
}

// ---------------------------------------------------------------- sem repl

// independent re-implementation (on the library's AST) of "the last element of the pipeline is a call of
// slurp/1": follows `|` to the right and `as` bindings into their body (what query.jq:131-144 does on JSON)
func lastOfPipeline(q *gojq.Query) **gojq.Term {
	for {
		if q.Term != nil {
			t := q.Term
			if n := len(t.SuffixList); n > 0 {
				if b := t.SuffixList[n-1].Bind; b != nil {
					q = b.Body
					continue
				}
				return nil
			}
			return &q.Term
		}
		if q.Op == gojq.OpPipe {
			q = q.Right
			continue
		}
		return nil
	}
}

// `... | slurp("name")`: returns the name and rewrites the call to identity
func cutSlurp(q *gojq.Query) (string, bool) {
	pt := lastOfPipeline(q)
	if pt == nil {
		return "", false
	}
	t := *pt
	if t.Type != gojq.TermTypeFunc || t.Func == nil || t.Func.Name != "slurp" || len(t.Func.Args) != 1 {
		return "", false
	}
	a := t.Func.Args[0]
	if a.Term == nil || a.Term.Type != gojq.TermTypeString || a.Term.Str == nil || a.Term.Str.Queries != nil || len(a.Term.SuffixList) != 0 {
		return "", false
	}
	*pt = &gojq.Term{Type: gojq.TermTypeIdentity}
	return a.Term.Str.Str, true
}

const replInputsExpr = `{"a":1,"b":[1,2,3],"c":"x"}, [3,{"a":2},"s",null], 7`

func (rn *runner) semRepl(lines []string) {
	hs := make([]string, len(lines))
	for i, l := range lines {
		hs[i] = hx(l)
	}
	op := "sem repl " + strings.Join(hs, ",")
	rn.o.N++
	rn.o.Stat("sem_repl", 1)
	rn.o.Stat("sem_repl_lines", len(lines))
	// REPL inputs: `fq -n -i 'A, B, C'` -> the three documents as plain JSON values
	inputs := cliInputs()
	type lineExp struct {
		outs       []string
		errs       int
		compileErr bool
	}
	exps := make([]lineExp, len(lines))
	slurped := map[string]any{} // name -> array (set by `EXPR | slurp("name")`)
	var pmsg string
	for i, l := range lines {
		var names []string
		var values []any
		for k, v := range slurped {
			names = append(names, "$"+k)
			values = append(values, v)
		}
		msg, panicked := hlib.Catch(func() string {
			q, err := gojq.Parse(l)
			if err != nil {
				exps[i].compileErr = true
				return ""
			}
			slurpName, isSlurp := cutSlurp(q)
			code, cerr := refCompileQuery(q, nil, names)
			if cerr != "" {
				exps[i].compileErr = true
				return ""
			}
			all := []any{}
			for _, in := range inputs {
				it := code.Run(in, values...)
				for n := 0; n < 2000; n++ {
					v, ok := it.Next()
					if !ok {
						break
					}
					if _, ok := v.(error); ok {
						exps[i].errs++
						break
					}
					all = append(all, v)
					exps[i].outs = append(exps[i].outs, canonValue(v))
				}
			}
			if isSlurp {
				// the values go to the variable, nothing is displayed; errors are reported per input
				exps[i].outs = nil
				slurped[slurpName] = all
			}
			return ""
		})
		if panicked {
			pmsg = msg
		}
	}
	if pmsg != "" {
		rn.o.Verdict("BADOP", op+" :: reference engine panicked: "+pmsg)
		return
	}
	res := runMain([]string{"-n", "-i", "-c", replInputsExpr}, cliVFS(), lines)
	segs := bytes.Split(res.stdout, []byte("\x00LINE\n"))
	if res.panic != "" || len(segs) != len(lines)+1 {
		rn.o.Verdict("PROPFAIL", fmt.Sprintf("%s :: fq -i: panic=%q, %d output segments for %d lines; stdout=%q stderr=%q", op, res.panic, len(segs)-1, len(lines), clip(res.stdout), clip(res.stderr)))
		return
	}
	for i, l := range lines {
		vals, errLines, junk := decodeStream(segs[i+1])
		e := exps[i]
		why := ""
		switch {
		case e.compileErr:
			if len(vals) != 0 {
				why = "reference rejects the line, fq prints values"
			}
		case junk != "":
			why = "output is not a stream of JSON values: " + junk
		case strings.Join(vals, "\n") != strings.Join(e.outs, "\n"):
			why = "outputs differ"
		case errLines != e.errs:
			why = fmt.Sprintf("%d evaluations end in an error but %d error lines", e.errs, errLines)
		}
		if why != "" {
			rn.o.Verdict("PROPFAIL", fmt.Sprintf("%s :: line %d %q: %s; reference outs=%v errs=%d; fq segment=%q", op, i, l, why, e.outs, e.errs, clip(segs[i+1])))
			return
		}
		oc := outcome{outs: e.outs}
		if e.compileErr {
			oc.err = "compile:"
		} else if e.errs > 0 {
			oc.err = "runtime"
		}
		rn.semAccount("repl", l, oc)
	}
	rn.o.Verdict("OK", op)
}

// ---------------------------------------------------------------- program generator (runnable programs)

type sgen struct {
	r      *hlib.Rand
	vars   []string
	labels []string
	funcs  []sfn
	budget int
	cli    bool // may use input/inputs, $opts/$q (--arg)
	noAlt  bool // no `?//` (several evaluations in one run: see assumptions)
}

type semFlavour int

const (
	semEv       semFlavour = iota // one evaluation, any construct
	semCli                        // command line, one evaluation (-n, -s): input/inputs, --arg variables
	semCliMulti                   // command line, one evaluation per input
	semRepl                       // REPL line: one evaluation per REPL input, no input/inputs
)

type sfn struct {
	name  string
	arity int
}

func (g *sgen) n(k int) int       { return g.r.Intn(k) }
func (g *sgen) chance(p int) bool { return g.r.Intn(100) < p }
func (g *sgen) pick(ss ...string) string {
	return ss[g.r.Intn(len(ss))]
}

func (g *sgen) num() string {
	g.budget--
	switch g.n(14) {
	case 0:
		return g.pick("0x10", "0b101", "0o17", "0xff", "0x1_0")
	case 1:
		return g.pick("1.5", "0.5", "2.25", "1e2", ".5")
	case 2:
		return "10"
	case 3:
		return g.pick(".a", ".a", ".b[0]", ".b[1]", ".[0]", ".c", ".x", "(.a // 4)")
	case 4:
		if len(g.vars) > 0 {
			return g.vars[g.n(len(g.vars))]
		}
		return "3"
	default:
		return g.pick("0", "1", "2", "3", "4", "5", "6", "7", "8", "9")
	}
}

func (g *sgen) strLit(d int) string {
	g.budget--
	switch g.n(8) {
	case 0:
		return "`r\\n\"`"
	case 1:
		if d > 0 {
			return `"a\(` + g.q(d-1) + `)b"`
		}
		return `"ab"`
	case 2:
		if d > 0 {
			return `@base64 "x\(` + g.expr(d-1) + `)"`
		}
		return `"x"`
	case 3:
		if d > 0 {
			return `@json "v=\(` + g.q(d-1) + `)"`
		}
		return `"é\n\t"`
	default:
		return g.pick(`"a"`, `"b"`, `"x"`, `""`, `"a b"`, `"é"`)
	}
}

var arith = []string{"+", "+", "-", "-", "-", "*", "*", "/", "%"}
var cmps = []string{"==", "!=", "<", "<=", ">", ">="}

func (g *sgen) pattern(d int, bound *[]string) string {
	fresh := func() string {
		v := g.pick("$x", "$y", "$z", "$opts", "$q", "$orig_query", "$last", "$slurp", "$_args", "$c", "$err", "$a1")
		*bound = append(*bound, v)
		return v
	}
	if d <= 0 || g.chance(55) {
		return fresh()
	}
	if g.chance(50) {
		n := 1 + g.n(2)
		ps := make([]string, n)
		for i := range ps {
			ps[i] = g.pattern(d-1, bound)
		}
		return "[" + strings.Join(ps, ", ") + "]"
	}
	switch g.n(4) {
	case 0:
		return "{" + fresh() + "}"
	case 1:
		return `{"a": ` + g.pattern(d-1, bound) + "}"
	case 2:
		return `{("a" + ""): ` + g.pattern(d-1, bound) + ", b: " + g.pattern(d-1, bound) + "}"
	default:
		return "{a: " + g.pattern(d-1, bound) + "}"
	}
}

func (g *sgen) term(d int) string {
	if d <= 0 || g.budget <= 0 {
		if g.chance(85) {
			return g.num()
		}
		return g.pick(`"a"`, "null", "true", "false", ".", "[]", "{}")
	}
	g.budget--
	switch g.n(40) {
	case 0, 1, 2:
		return "(" + g.q(d-1) + ")"
	case 3, 4:
		return "-" + g.term(d-1)
	case 5:
		return "[" + g.q(d-1) + "]"
	case 6:
		return "{a: " + g.expr(d-1) + `, "b": ` + g.expr(d-1) + " | " + g.expr(d-1) + "}"
	case 7:
		return "{(" + g.strLit(d-1) + "): " + g.term(d-1) + ", c: 1}"
	case 8:
		s := "if " + g.q(d-1) + " then " + g.q(d-1)
		if g.chance(30) {
			s += " elif " + g.q(d-1) + " then " + g.q(d-1)
		}
		if g.chance(70) {
			s += " else " + g.q(d-1)
		}
		return s + " end"
	case 9, 10:
		s := "try " + g.term(d-1)
		if g.chance(65) {
			s += " catch " + g.term(d-1)
		}
		return s
	case 11:
		return g.term(d-1) + "?"
	case 12, 13:
		v := g.pick("$i", "$x", "$opts", "$last")
		g.vars = append(g.vars, v)
		s := "reduce " + g.stream(d-1) + " as " + v + " (" + g.q(d-1) + "; " + g.q(d-1) + ")"
		g.vars = g.vars[:len(g.vars)-1]
		return s
	case 14:
		v := g.pick("$i", "$x", "$slurp")
		g.vars = append(g.vars, v)
		s := "foreach " + g.stream(d-1) + " as " + v + " (" + g.q(d-1) + "; " + g.q(d-1)
		if g.chance(50) {
			s += "; " + g.q(d-1)
		}
		g.vars = g.vars[:len(g.vars)-1]
		return s + ")"
	case 15:
		if len(g.labels) > 0 {
			return "break " + g.labels[g.n(len(g.labels))]
		}
		return "empty"
	case 16, 17:
		if len(g.funcs) > 0 {
			f := g.funcs[g.n(len(g.funcs))]
			if f.arity == 0 {
				return f.name
			}
			as := make([]string, f.arity)
			for i := range as {
				as[i] = g.q(d - 1)
			}
			return f.name + "(" + strings.Join(as, "; ") + ")"
		}
		return "length"
	case 18:
		return "error(" + g.strLit(0) + ")"
	case 19:
		return g.pick("empty", "error", "error(null)", "error({a: 1})", "error([1])", "error({})", "error(.)")
	case 20:
		return "limit(" + g.pick("0", "1", "2", "3") + "; " + g.q(d-1) + ")"
	case 21:
		return "first(" + g.q(d-1) + ")"
	case 22:
		return "[" + g.stream(d-1) + "] | " + g.pick("length", "add", "reverse", "map(. + 1)", "map(select(. > 1))", "first", "last", "tojson", "sort", "min", "max")
	case 23:
		return g.strLit(d)
	case 24:
		return g.pick("length", "not", "tostring", "tojson", "type", "keys?", "floor?", ".[]?", "..", "path(..)", "[paths]", "to_entries?")
	case 25:
		if g.cli {
			return g.pick("(input | tovalue)", "(inputs | tovalue)", "[inputs | tovalue]", "first(inputs | tovalue)", "limit(1; inputs | tovalue)", "[limit(2; inputs) | tovalue]",
				"(input | tovalue | length)", "[., (input | tovalue)]", "[inputs] | length", "(input | tojson)")
		}
		return g.num()
	case 26:
		if g.cli {
			return g.pick("$ENV.VERIF_C11", "env.VERIF_C11", "$opts", "$q", "($ENV | has(\"NO_COLOR\"))", "$__loc__", "$__prog_args", "$_args", "$ENV.CONFIG_DIR")
		}
		return g.pick("$__loc__", "$ENV.VERIF_C11", "env.VERIF_C11", g.num())
	case 27:
		return g.pick(".a", ".b", ".b[1:]", ".b[:2]", ".[1]?", ".c", ".a?", `."a"`, `.["a"]?`, ".b[]", ".[]?")
	case 28:
		return g.pick(".a", ".b[0]", ".c") + " " + g.pick("|=", "+=", "-=", "*=", "//=", "=") + " " + g.term(d-1)
	default:
		return g.num()
	}
}

func (g *sgen) stream(d int) string {
	switch g.n(6) {
	case 0:
		return "range(" + g.pick("0", "1", "2", "3", "4") + ")"
	case 1:
		return "range(1; " + g.pick("3", "4", "5") + ")"
	case 2:
		return "(" + g.num() + ", " + g.num() + ", " + g.num() + ")"
	case 3:
		return ".b[]?"
	case 4:
		if g.cli {
			return "(inputs | tovalue)"
		}
		return "(1, 2)"
	default:
		return "(" + g.q(d) + ")"
	}
}

// operator chains WITHOUT parentheses: precedence and associativity are the parser's business
func (g *sgen) expr(d int) string {
	s := g.term(d)
	for g.budget > 0 && g.chance(55) {
		var op string
		switch g.n(12) {
		case 0:
			op = "//"
		case 1:
			op = g.pick("and", "or")
		case 2:
			op = cmps[g.n(len(cmps))]
		default:
			op = arith[g.n(len(arith))]
		}
		s += " " + op + " " + g.term(d-1)
		g.budget--
	}
	return s
}

var defNames = []string{"f", "g", "h", "_cli_display", "_repl_display", "inputs", "input", "_cli_eval_on_expr_error", "_repl_on_expr_error",
	"display", "error", "_query_query", "map", "eval", "_eval_query_rewrite", "d", "tojson", "repl", "slurp"}

func (g *sgen) q(d int) string {
	if d <= 0 || g.budget <= 0 {
		return g.expr(0)
	}
	g.budget--
	switch g.n(20) {
	case 0, 1, 2:
		return g.q(d-1) + " | " + g.q(d-1)
	case 3, 4, 5:
		return g.q(d-1) + ", " + g.q(d-1)
	case 6, 7, 8:
		var bound []string
		p := g.pattern(2, &bound)
		for !g.noAlt && g.chance(20) {
			p += " ?// " + g.pattern(1, &bound)
		}
		src := g.term(d - 1)
		if g.chance(40) {
			src = g.pick(".", ".b", "[1, 2]", "{a: 3, b: 4}", "[[1, 2], {a: 5}]")
		}
		n := len(g.vars)
		g.vars = append(g.vars, bound...)
		body := g.q(d - 1)
		g.vars = g.vars[:n]
		return src + " as " + p + " | " + body
	case 9:
		l := g.pick("$out", "$l", "$opts")
		g.labels = append(g.labels, l)
		body := g.q(d - 1)
		g.labels = g.labels[:len(g.labels)-1]
		return "label " + l + " | " + body
	case 10, 11:
		name := defNames[g.n(len(defNames))]
		var s string
		var f sfn
		switch g.n(4) {
		case 0:
			f = sfn{name, 1}
			g.funcs = append(g.funcs, sfn{"a", 0})
			body := g.q(d - 1)
			g.funcs = g.funcs[:len(g.funcs)-1]
			s = "def " + name + "(a): " + body + "; "
		case 1:
			f = sfn{name, 1}
			g.vars = append(g.vars, "$p")
			body := g.q(d - 1)
			g.vars = g.vars[:len(g.vars)-1]
			s = "def " + name + "($p): " + body + "; "
		default:
			f = sfn{name, 0}
			s = "def " + name + ": " + g.q(d-1) + "; "
		}
		g.funcs = append(g.funcs, f)
		rest := g.q(d - 1)
		g.funcs = g.funcs[:len(g.funcs)-1]
		return s + rest
	default:
		return g.expr(d)
	}
}

func semProgram(r *hlib.Rand, fl semFlavour) string {
	g := &sgen{r: r, budget: 10 + r.Intn(30), cli: fl == semCli || fl == semCliMulti, noAlt: fl == semCliMulti || fl == semRepl}
	return g.q(1 + g.n(4))
}

var evInputs = []string{`{"a":1,"b":[1,2,3],"c":"x"}`, `[3,{"a":2},"s",null]`, `7`, `null`, `{"a":{"a":5},"b":[[1],[2]]}`}

// fixed semantic programs: the cases named in the property statement
var semFixed = []string{
	`1, 2`, `10 - 3 - 2`, `2 * 3 + 4`, `2 + 3 * 4`, `100 / 10 / 2`, `7 % 4 % 2`, `null // false // 3`, `1 // 2 // 3`, `-1`, `-.a`, `- 1 - -2`, `.a?`, `.x?.y?`,
	`true or false and false`, `false and true or true`, `1 < 2 == true`, `(1, 2) + (10, 20)`, `1, 2 | . * 2`, `1 | 2, 3 | . + 1`,
	`. as [$x, {b: $y}] ?// $z | [$x, $y, $z]`, `[[1, {"b": 2}]] | .[] as [$x, {b: $y}] ?// $z | [$x, $y, $z]`, `reduce range(5) as $x (0; . + $x)`,
	`foreach range(4) as $x (0; . + $x; [$x, .])`, `label $out | 1, 2, break $out, 3`, `label $out | foreach (1, 2, 3) as $i (0; . + $i; if . > 2 then ., break $out else . end)`,
	`def f: 1; f + 1`, `def f(g; $x): g + $x; f(10; 2)`, `def f: def g: 3; g * 2; f`, `def _cli_display: "captured"; def inputs: "captured"; def _cli_eval_on_expr_error: "captured"; 1, 2`,
	`def display: "captured"; def _repl_display: "captured"; [1]`, `def error(x): "shadowed"; error("e")`, `1 as $opts | 2 as $q | [$opts, $q]`, `. as $orig_query | 1 as $last | 2 as $slurp | [$last, $slurp]`,
	`"a\(1 + 2)b\("c" + "\(3)")"`, `@base64 "x\(1)y"`, `@json "v=\([1, "a"])"`, "`raw \\n \"q\"` | length", `"é\n\t\"\\" | length`, `0x1f, 0o17, 0b101, 0x1_000`,
	`$__loc__`, `$ENV.VERIF_C11`, `env.VERIF_C11`, `error("x")`, `1, error("x"), 2`, `error`, `error(null)`, `error({a: 1})`, `empty`, `1, empty, 2`, `limit(2; 1, 2, 3)`, `first(1, 2)`,
	`try error("x") catch .`, `try error("x")`, `(try error("x") catch .) + "y"`, `try (1, error("x"), 2) catch "c"`, `[.[]?]`, `.. | numbers`, `[paths]`,
	`{a: 1, "b": 2, ("c"): 3, "d\(1)": 4}`, `{a: 1 | 2}`, `{a: (1, 2)}`, `1 as $x | 2 as $y | $x - $y - 1`, `[1, 2 as $x | 3, $x]`, `if . then 1 elif 2 then 3 else 4 end`,
	`.a = 1 | .b |= 2`, `.a += 1 | .a`, `.x //= 3 | .x`, `[.[] | . as $v | try ($v + 1) catch "e"]`, `$opts`, `$q`, `$_args`, `$nope`, `nope`, `1 +`, `)`, ``, `.`,
	`try (1, error("x"), 2)`, `try error`, `label $out | 1, break $out, 2`, `try (try error("x"))`, `try error("x") | 1`, `(try error("x")), 2`,
	`def f: 1;`, `import "nonexistent" as x; 1`, `include "nonexistent"; 1`, `1 as $x | 2 | . + $x | -. - 1`, `-(1, 2)`, `[-(1, 2) | -.]`, `[1, 2] | -.[0] - .[1]`, `"\(1, 2)-\(3, 4)"`,
}

var semFixedCli = []string{
	`input`, `inputs`, `[inputs]`, `[., input]`, `first(inputs)`, `limit(2; inputs)`, `[limit(1; inputs)] | length`, `input, input, input, input`,
	`., (input | length)`, `reduce inputs as $x (0; . + 1)`, `[inputs | type]`, `. as $x | input as $y | [$x, $y] | length`, `$opts, $q`, `[$opts, $q, $ENV.VERIF_C11]`,
	`def inputs: "mine"; inputs`, `def input: "mine"; [input, input]`, `error("x"), 1`, `1, error({"k": 1})`, `.a`, `.b[0]`, `.[0]`, `length`, `tojson`,
}

func (rn *runner) semAll(r *hlib.Rand, nEv, nCli, nRepl int) {
	if nEv >= 0 {
		rn.semEvAll(r, nEv)
	}
	if nCli >= 0 {
		rn.semCliAll(r, nCli)
	}
	if nRepl >= 0 {
		rn.semReplAll(r, nRepl)
	}
}

func (rn *runner) semEvAll(r *hlib.Rand, nEv int) {
	var evs []evCase
	for _, p := range semFixed {
		for _, in := range evInputs[:3] {
			evs = append(evs, evCase{p, in})
		}
	}
	for i := 0; i < nEv; i++ {
		evs = append(evs, evCase{semProgram(r.Fork(), semEv), evInputs[r.Intn(len(evInputs))]})
	}
	// a slice of full-grammar programs too: mostly compile errors, but the error class must agree
	for i := 0; i < nEv/10; i++ {
		p := genProgram(r.Fork(), progFull, 6+r.Intn(20))
		if strings.Contains(p, "halt") { // halt_error cannot be caught by the batch evaluation
			continue
		}
		evs = append(evs, evCase{p, evInputs[r.Intn(len(evInputs))]})
	}
	chunk(evs, 200, rn.semEv)
}

// error values of every JSON type, in every mode (an error must be reported once per evaluation and the
// remaining inputs must still be processed: known finding cli-object-error-fatal, fixed)
var semFixedErr = []string{
	`1, error({"k": 1})`, `error({"k": 1})`, `1, error([1, {"a": 2}]), 2`, `error([])`, `1, error(null), 2`, `error(null)`, `error(1)`, `error(true)`,
	`error("x")`, `error({})`, `error({"error": "x"})`, `error({"error": {"what": "w", "error": "e"}})`, `., error({"in": .})`, `error`,
	`try error({"k": 1}) catch .k`, `(1, 2) | error({"v": .})`,
}

func (rn *runner) semCliAll(r *hlib.Rand, nCli int) {
	modes := []string{"n", "f", "s"}
	for _, p := range semFixedErr {
		for _, m := range modes {
			rn.semCli(m, p)
		}
	}
	for _, p := range append(append([]string{}, semFixedCli...), semFixed...) {
		for _, m := range modes {
			if m != "n" && r.Intn(100) < 60 {
				continue
			}
			if m == "f" && strings.Contains(p, "?//") {
				continue // library: stale variables of non-matching alternatives across iterations (see assumptions)
			}
			rn.semCli(m, p)
		}
	}
	for i := 0; i < nCli; i++ {
		m := modes[r.Intn(3)]
		fl := semCli
		if m == "f" {
			fl = semCliMulti
		}
		rn.semCli(m, semProgram(r.Fork(), fl))
	}
}

func (rn *runner) semReplAll(r *hlib.Rand, nRepl int) {
	var fixedLines []string
	for i, p := range semFixed {
		if p == "" || strings.Contains(p, "$opts") || strings.Contains(p, "$q") || strings.Contains(p, "?//") {
			continue
		}
		fixedLines = append(fixedLines, p)
		if i%7 == 0 {
			fixedLines = append(fixedLines, p+` | slurp("v`+fmt.Sprint(i)+`")`, `$v`+fmt.Sprint(i), `[$v`+fmt.Sprint(i)+`[]] | length`)
		}
	}
	// S-C11-2: a slurp call inside an `as` body, after other pipeline stages
	fixedLines = append(fixedLines, `5 as $x | $x + 1 | slurp("b1")`, `$b1`, `5 as $x | $x, 7 | slurp("b2")`, `$b2`,
		`1 as $x | 2 as $y | [$x, $y] | length | slurp("b3")`, `$b3`, `"abc" as $x | $x | slurp("b4")`, `$b4 | length`,
		`. as $x | 1 | 2 | slurp("b5")`, `$b5`)
	chunk(fixedLines, 12, rn.semRepl)
	for i := 0; i < nRepl; i++ {
		var lines []string
		for j, k := 0, 4+r.Intn(8); j < k; j++ {
			p := semProgram(r.Fork(), semRepl)
			if strings.TrimSpace(p) == "" {
				continue
			}
			if r.Intn(100) < 20 {
				name := fmt.Sprintf("s%d", j)
				lines = append(lines, p+` | slurp("`+name+`")`, "$"+name+" | length", "$"+name)
			} else {
				lines = append(lines, p)
			}
		}
		rn.semRepl(lines)
	}
}

func (rn *runner) semReplay(f []string, line string) {
	bad := func() { rn.o.Verdict("BADOP", line+" :: unparsable sem replay line") }
	switch {
	case f[0] == "ev" && len(f) == 3:
		p, err1 := unhx(f[1])
		in, err2 := unhx(f[2])
		if err1 != nil || err2 != nil {
			bad()
			return
		}
		rn.semEv([]evCase{{p, in}})
	case f[0] == "cli" && len(f) == 3:
		p, err := unhx(f[2])
		if err != nil {
			bad()
			return
		}
		rn.semCli(f[1], p)
	case f[0] == "repl" && len(f) == 2:
		var lines []string
		for _, h := range strings.Split(f[1], ",") {
			l, err := unhx(h)
			if err != nil {
				bad()
				return
			}
			lines = append(lines, l)
		}
		rn.semRepl(lines)
	default:
		bad()
	}
}
