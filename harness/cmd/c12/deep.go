//go:build verif

package main

import (
	"bytes"
	"fmt"
	"strings"

	"github.com/wader/fq/internal/verifharness/hlib"
	"github.com/wader/fq/pkg/decode"
	"github.com/wader/fq/pkg/interp"
)

// A second synthetic format for the DEPTH and WIDTH dimensions (the byte-programmed format of synth.go stops
// at 7 levels; the deepest tree of the repository's samples has 26). The input is a header plus per-level
// bytes; the decoder builds, through the public decode.D API, a chain of nested compounds — one decode.Value
// per level — so that valuePath / topath / getpath / _parent / parents / _root / buffer_root / format_root run
// on values that are 1 … several hundred levels below the root.
//
//	byte 0-1  D   depth of the deepest value (big endian, 1..deepMaxDepth)
//	byte 2    W   level whose compound gets N extra leaf children BEFORE the nested compound (255: none)
//	byte 3-4  N   (big endian, ..deepMaxWide)   -> structs with 31/32/33/64/65/256/257 fields, arrays of that length
//	byte 5-6  NL  when > 0: the name of the nested compound is padded/cut to NL characters at every level
//	byte 7..  per-level bytes, used cyclically (none: structs and arrays alternate, 0-2 siblings, names cycle)
//	          bits 0-2  how the compound of the NEXT level is made: 0,1 FieldStruct  2,3 FieldArray
//	                    4 FieldStructRootBitBufFn (nested IsRoot buffer)  5 FieldArrayRootBitBufFn
//	                    6 FieldFormatBitBuf (nested buffer with a format)  7 FieldFormatLen (nested format, same buffer)
//	          bits 3-4  number of leaf siblings before it (so that in an array it sits at a non-zero index)
//	          bit  5    the nested format (6,7) has an array root
//	          bit  6    one more leaf sibling after it
//	          bit  7    the first sibling is a real one-byte read (has a range) when input is left
//	          the name of the nested compound is deepNames[(byte>>3 + level) % len]: keys that need quoting
//	          appear at every depth
//
// All bytes are only peeked at by the root; what no field covers ends up in a gap field of the root.
var deepGroup = &decode.Group{Name: "verif_c12d"}
var deepInnerGroup = &decode.Group{Name: "verif_c12di"}
var deepInnerArrGroup = &decode.Group{Name: "verif_c12dia"}

const deepMaxDepth = 600
const deepMaxWide = 1200

// none of them is `s<digits>`, `t`, `gap<digits>` (the siblings) or starts with an underscore key of the interpreter
var deepNames = []string{
	"d", "a b", "k", "", "x\"y", "next", "b\\s", "1", "é", "and", ".", "[0]", "a\nb", "v_1", "\U0001F600", "..", "\\(x)", "A", " ", "\x00",
}

type deepState struct {
	depth, wideLevel, wideN, nameLen int
	spec                            []byte
	level                           int // level of the compound whose body runs next (nested formats continue from here)
}

var deepCur deepState

func (s *deepState) specByte(lvl int) byte {
	if len(s.spec) == 0 {
		k := byte(0)
		if lvl%2 == 0 {
			k = 2
		}
		return k | byte(lvl%3)<<3
	}
	return s.spec[lvl%len(s.spec)]
}

func (s *deepState) name(sb byte, lvl int) string {
	n := deepNames[(int(sb>>3)+lvl)%len(deepNames)]
	if s.nameLen > 0 {
		rs := []rune(n + strings.Repeat("n", s.nameLen))
		n = string(rs[:s.nameLen])
	}
	return n
}

// deepBody fills the compound at depth lvl: siblings, then the compound (or final leaf) of depth lvl+1
func deepBody(d *decode.D) {
	s := &deepCur
	lvl := s.level
	sb := s.specByte(lvl)
	nsib := int(sb>>3) & 3
	if lvl == s.wideLevel {
		nsib += s.wideN
	}
	for i := 0; i < nsib; i++ {
		name := fmt.Sprintf("s%d", i)
		if i == 0 && sb&0x80 != 0 && d.BitsLeft() >= 8 {
			d.FieldU8(name)
		} else {
			d.FieldValueUint(name, uint64(i))
		}
	}
	name := s.name(sb, lvl)
	s.level = lvl + 1
	switch {
	case lvl+1 >= s.depth:
		d.FieldValueUint(name, uint64(lvl+1))
	default:
		switch sb & 7 {
		case 0, 1:
			d.FieldStruct(name, deepBody)
		case 2, 3:
			d.FieldArray(name, deepBody)
		case 4:
			d.FieldStructRootBitBufFn(name, d.BitBufRange(d.Pos(), d.BitsLeft()), deepBody)
		case 5:
			d.FieldArrayRootBitBufFn(name, d.BitBufRange(d.Pos(), d.BitsLeft()), deepBody)
		case 6, 7:
			g := deepInnerGroup
			if sb&0x20 != 0 {
				g = deepInnerArrGroup
			}
			if sb&7 == 6 {
				d.FieldFormatBitBuf(name, d.BitBufRange(d.Pos(), d.BitsLeft()), g, nil)
			} else {
				d.FieldFormatLen(name, d.BitsLeft(), g, nil)
			}
		}
	}
	if sb&0x40 != 0 {
		d.FieldValueUint("t", 0)
	}
}

func deepRoot(d *decode.D) any {
	all := d.PeekBytes(int(d.BitsLeft() / 8))
	hdr := make([]byte, 7)
	copy(hdr, all)
	s := deepState{
		depth:     int(hdr[0])<<8 | int(hdr[1]),
		wideLevel: int(hdr[2]),
		wideN:     int(hdr[3])<<8 | int(hdr[4]),
		nameLen:   int(hdr[5])<<8 | int(hdr[6]),
	}
	s.depth = max(1, min(s.depth, deepMaxDepth))
	s.wideN = min(s.wideN, deepMaxWide)
	s.nameLen = min(s.nameLen, deepMaxWide)
	if s.wideLevel == 255 {
		s.wideLevel = -1
	}
	if len(all) > 7 {
		s.spec = bytes.Clone(all[7:])
	}
	deepCur = s
	deepBody(d)
	return nil
}

func deepInput(depth, wideLevel, wideN, nameLen int, spec []byte) []byte {
	b := []byte{byte(depth >> 8), byte(depth), byte(wideLevel), byte(wideN >> 8), byte(wideN), byte(nameLen >> 8), byte(nameLen)}
	return append(b, spec...)
}

var pow2Sizes = []int{31, 32, 33, 64, 65, 256, 257}

// deepCases: the generated inputs of the depth/width dimension (format, input)
func deepCases(r *hlib.Rand, thorough bool) []treeCase {
	var cs []treeCase
	add := func(b []byte) { cs = append(cs, treeCase{format: "verif_c12d", input: b}) }
	per := 1
	if thorough {
		per = 3
	}
	// every depth 1..80: alternating kinds (no per-level bytes) for every 4th, else a random period of 1..6 level bytes
	for depth := 1; depth <= 80; depth++ {
		for k := 0; k < per; k++ {
			if depth%4 == 0 && k == 0 {
				add(deepInput(depth, 255, 0, 0, nil))
				continue
			}
			add(deepInput(depth, 255, 0, 0, r.Bytes(r.Range(1, 6))))
		}
	}
	// a few very deep ones: plain alternation, nested roots/formats at every level kind, random
	for _, depth := range []int{130, 260} {
		add(deepInput(depth, 255, 0, 0, nil))
		add(deepInput(depth, 255, 0, 0, []byte{0x08, 0x12, 0x04, 0x4a, 0x05, 0x0e, 0x27, 0x90, 0x0f}))
		if thorough {
			add(deepInput(depth, 255, 0, 0, r.Bytes(r.Range(1, 9))))
		}
	}
	if thorough {
		add(deepInput(520, 255, 0, 0, r.Bytes(5)))
	}
	// width: a struct / an array / a nested root array with 31..257 children before the nested compound, at level 0..2
	for i, n := range pow2Sizes {
		add(deepInput(4, i%3, n, 0, []byte{0x00}))         // structs all the way
		add(deepInput(4, 1+i%2, n, 0, []byte{0x02}))       // arrays below the root
		add(deepInput(3+i%3, 1, n-1, 0, []byte{0x05, 0x44})) // nested root array, one trailing sibling
	}
	// wide AND deep: the wide compound sits at depth 40
	add(deepInput(45, 40, 257, 0, nil))
	// names of 31..257 characters at every level
	for i, n := range pow2Sizes {
		add(deepInput(3+i, 255, 0, n, nil))
	}
	add(deepInput(34, 255, 0, 33, []byte{0x00, 0x1a}))
	return cs
}

// documents of real serialisation formats nested to a given depth (their decoders build several decode values
// per nesting level of the document)
func deepDocs(thorough bool) []treeCase {
	rep := func(unit []byte, n int, tail ...byte) []byte {
		return append(bytes.Repeat(unit, n), tail...)
	}
	depths := []int{12, 45}
	if thorough {
		depths = []int{12, 33, 45, 90}
	}
	var cs []treeCase
	for _, n := range depths {
		cs = append(cs,
			treeCase{format: "cbor", input: rep([]byte{0x82, 0x01}, n, 0x00)},                // [1,[1,[… 0]]]: the nested array at index 1
			treeCase{format: "cbor", input: rep([]byte{0xa1, 0x63, 'a', ' ', 'b'}, n, 0x00)}, // {"a b":{"a b":… 0}}
			treeCase{format: "msgpack", input: rep([]byte{0x92, 0x01}, n, 0x00)},
			treeCase{format: "msgpack", input: rep([]byte{0x81, 0xa1, 'k'}, n, 0x00)},
			treeCase{format: "bencode", input: append(rep([]byte("l"), n), rep([]byte("e"), n)...)},
		)
	}
	return cs
}

func init() {
	interp.RegisterFormat(deepGroup, &decode.Format{
		Description: "verification harness C12: chain of nested compounds of a given depth / width",
		DecodeFn:    deepRoot,
	})
	interp.RegisterFormat(deepInnerGroup, &decode.Format{
		Description: "verification harness C12: continuation of verif_c12d inside a nested format (struct root)",
		DecodeFn:    func(d *decode.D) any { deepBody(d); return nil },
	})
	interp.RegisterFormat(deepInnerArrGroup, &decode.Format{
		Description: "verification harness C12: continuation of verif_c12d inside a nested format (array root)",
		RootArray:   true,
		RootName:    "items",
		DecodeFn:    func(d *decode.D) any { deepBody(d); return nil },
	})
}
