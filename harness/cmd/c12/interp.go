//go:build verif

package main

import (
	"bytes"
	"context"
	"fmt"
	"io"
	"io/fs"
	"time"

	_ "github.com/wader/fq/format/all"
	"github.com/wader/fq/pkg/interp"
)

// virtual OS for an in-process interpreter (no files, no terminal), after format/fuzz_test.go
type vfs struct{}

func (vfs) Open(name string) (fs.File, error) { return nil, fmt.Errorf("%s: file not found", name) }

type vin struct {
	interp.FileReader
	io.Writer
}

func (vin) IsTerminal() bool { return false }
func (vin) Size() (int, int) { return 120, 25 }

type vout struct{ io.Writer }

func (vout) Size() (int, int) { return 120, 25 }
func (vout) IsTerminal() bool { return false }

type vos struct{}

func (vos) Platform() interp.Platform { return interp.Platform{} }
func (vos) Stdin() interp.Input {
	return vin{FileReader: interp.FileReader{R: bytes.NewBuffer(nil)}}
}
func (vos) Stdout() interp.Output                             { return vout{io.Discard} }
func (vos) Stderr() interp.Output                             { return vout{io.Discard} }
func (vos) InterruptChan() chan struct{}                      { return nil }
func (vos) Environ() []string                                 { return nil }
func (vos) Args() []string                                    { return []string{"fq", "-n", "."} }
func (vos) ConfigDir() (string, error)                        { return "/config", nil }
func (vos) FS() fs.FS                                         { return vfs{} }
func (vos) History() ([]string, error)                        { return nil, nil }
func (vos) Readline(opts interp.ReadlineOpts) (string, error) { return "", io.EOF }

var theInterp *interp.Interp

// generous: a normal batch takes seconds; the limit only has to end a navigation loop. (On a machine
// with a load average of 200 a 60 s limit was hit by ordinary batches.)
const evalTimeout = 15 * time.Minute

func getInterp() *interp.Interp {
	if theInterp == nil {
		i, err := interp.New(vos{}, interp.DefaultRegistry)
		if err != nil {
			panic(err)
		}
		theInterp = i
		// what `fq` without options does before it evaluates the user's program (init.jq:186): the
		// default options, so that tovalue/decode see the same options as on the command line
		if _, err := evalAll(nil, `_options_stack([_opt_build_default_fixed]) | empty`); err != nil {
			panic(err)
		}
	}
	return theInterp
}

// evalAll evaluates one jq program on input c with the real interpreter (one interpreter per
// process, one Eval per batch) and returns all outputs; an error output ends the stream.
func evalAll(c any, prog string) (vs []any, err error) {
	defer func() {
		if r := recover(); r != nil {
			err = fmt.Errorf("panic: %v", r)
		}
	}()
	// a navigation loop (a field that shadows `_parent`) must end as an error, not as an OOM kill
	ctx, cancel := context.WithTimeout(context.Background(), evalTimeout)
	defer cancel()
	it, err := getInterp().Eval(ctx, c, prog, interp.EvalOpts{})
	if err != nil {
		return nil, err
	}
	for {
		v, ok := it.Next()
		if !ok {
			break
		}
		if e, ok := v.(error); ok {
			return vs, e
		}
		vs = append(vs, v)
	}
	return vs, nil
}
