//go:build verif

package main

import (
	"sort"
	"unicode"
)

// Code points that are NOT ASCII but that some notion of case mapping, folding, compatibility or
// "digit"/"letter" class relates to [A-Za-z0-9_]: a `_is_ident` that is anything but the exact ASCII
// predicate (case-insensitive regexp flag, \w, \d, \pL, unicode.IsLetter, NFKC, ToLower before the test …)
// accepts a key containing one of them, path_to_expr then prints it unquoted and jq's lexer rejects it.

func asciiWord(r rune) bool {
	return r == '_' || r >= '0' && r <= '9' || r >= 'a' && r <= 'z' || r >= 'A' && r <= 'Z'
}

// foldCore: every non-ASCII code point whose simple case folding orbit, upper, lower or title mapping
// (Go's unicode tables = what RE2's (?i) uses) contains an ASCII word character — computed, not listed:
// U+212A KELVIN SIGN, U+017F LONG S, U+0130 / U+0131 dotted/dotless I …; plus the code points whose FULL
// case folding / special casing (not in Go's tables) lands in ASCII letters.
func foldCore() []rune {
	set := map[rune]bool{}
	for r := rune(0x80); r <= unicode.MaxRune; r++ {
		if r >= 0xD800 && r <= 0xDFFF {
			continue
		}
		hit := asciiWord(unicode.ToUpper(r)) || asciiWord(unicode.ToLower(r)) || asciiWord(unicode.ToTitle(r))
		for f := unicode.SimpleFold(r); f != r && !hit; f = unicode.SimpleFold(f) {
			hit = asciiWord(f)
		}
		if hit {
			set[r] = true
		}
	}
	// full case folding (CaseFolding.txt status F) / SpecialCasing.txt into ASCII letters (+ combining marks)
	for _, r := range []rune{0x00DF, 0x1E9E, 0x0149, 0x01F0, 0x1E96, 0x1E97, 0x1E98, 0x1E99, 0x1E9A,
		0xFB00, 0xFB01, 0xFB02, 0xFB03, 0xFB04, 0xFB05, 0xFB06} {
		set[r] = true
	}
	var rs []rune
	for r := range set {
		rs = append(rs, r)
	}
	sort.Slice(rs, func(i, j int) bool { return rs[i] < rs[j] })
	return rs
}

// lookalikeAll: foldCore + fullwidth forms, digits of every script, compatibility letters/digits, joiners,
// combining marks, modifier letters
func lookalikeAll() []rune {
	set := map[rune]bool{}
	for _, r := range foldCore() {
		set[r] = true
	}
	for r := rune(0xFF10); r <= 0xFF19; r++ { // fullwidth digits
		set[r] = true
	}
	for r := rune(0xFF21); r <= 0xFF3A; r++ { // fullwidth A-Z
		set[r] = true
	}
	for r := rune(0xFF41); r <= 0xFF5A; r++ { // fullwidth a-z
		set[r] = true
	}
	set[0xFF3F] = true // fullwidth low line
	// decimal digits (Nd) of every script: the 0, 1 and 9 of every block of ten
	for _, rg := range unicode.Nd.R16 {
		for r := rune(rg.Lo); r <= rune(rg.Hi); r += rune(rg.Stride) {
			if r >= 0x80 && ((r-rune(rg.Lo))%10 == 0 || (r-rune(rg.Lo))%10 == 1 || (r-rune(rg.Lo))%10 == 9) {
				set[r] = true
			}
		}
	}
	for _, rg := range unicode.Nd.R32 {
		for r := rune(rg.Lo); r <= rune(rg.Hi); r += rune(rg.Stride) {
			if (r-rune(rg.Lo))%10 == 0 || (r-rune(rg.Lo))%10 == 9 {
				set[r] = true
			}
		}
	}
	for _, r := range []rune{
		0x200C, 0x200D, 0x2060, 0x00AD, 0x200B, 0xFE0F, 0x180E, // ZWNJ ZWJ WJ SHY ZWSP VS16 MVS
		0x0300, 0x0301, 0x0308, 0x0327, 0x0338, 0x20DD, 0x20E3, // combining marks (after an ASCII letter)
		0x00AA, 0x00BA, 0x00B2, 0x00B3, 0x00B9, 0x2070, 0x2074, 0x2080, 0x2081, 0x207F, // ª º ² ³ ¹ ⁰ ⁴ ₀ ₁ ⁿ
		0x2102, 0x210A, 0x210E, 0x2113, 0x2115, 0x2124, 0x2126, 0x212B, 0x212C, 0x2139, 0x2146, // letterlike
		0x2160, 0x2170, 0x216C, 0x217F, 0x24B6, 0x24D0, 0x2460, 0x24EA, 0x1F130, 0x1F1E6, // roman, circled, squared, regional
		0x1D400, 0x1D41A, 0x1D7CE, 0x1D7D8, 0x1D7FF, 0x1D552, // mathematical alphanumerics
		0x02B0, 0x1D2C, 0x1D43, 0x1D62, 0x2090, 0xA7F8, // modifier / subscript letters
		0x0410, 0x0430, 0x0391, 0x03B1, 0x0555, 0x13A0, 0x0405, 0x0455, 0x0406, 0x0456, 0x0458, 0x04CF, // homoglyphs
		0x203F, 0x2040, 0x2054, 0xFE33, 0xFE34, 0xFE4D, 0xFE4F, 0x005F + 0x0300, // connector punctuation (Pc, \w in some engines)
		0x00B5, 0x00C0, 0x00E0, 0x00C5, 0x00E5, 0x0100, 0x1E00, // letters with an ASCII base after decomposition
	} {
		set[r] = true
	}
	var rs []rune
	for r := range set {
		if r >= 0x80 && !(r >= 0xD800 && r <= 0xDFFF) {
			rs = append(rs, r)
		}
	}
	sort.Slice(rs, func(i, j int) bool { return rs[i] < rs[j] })
	return rs
}

var lookalikeTemplates = []string{"a", "ab", "K", "_x", "a1", "id_9z", "Kelvin"}

// lookalikeKeys: ASCII identifiers with ONE such character at every position (substituted and inserted)
func lookalikeKeys(rs []rune, templates []string) []string {
	seen := map[string]bool{}
	var ks []string
	add := func(s string) {
		if !seen[s] {
			seen[s] = true
			ks = append(ks, s)
		}
	}
	for _, r := range rs {
		add(string(r))
		for _, t := range templates {
			for i := 0; i <= len(t); i++ {
				add(t[:i] + string(r) + t[i:]) // inserted
				if i < len(t) {
					add(t[:i] + string(r) + t[i+1:]) // substituted
				}
			}
		}
	}
	return ks
}
