//go:build verif

// C12 harness: paths and tree navigation through the real interpreter, in-process.
//
//	run "tree":  tree <format> <hex input> <dump of the real tree shape> | <probe paths>
//	             TAB per node (pre-order): <topath> <id of root|getpath(topath)> <parent> <root> <buffer_root>
//	                 <format_root> <parents ids> <(_start,_stop,_name,_index) of v> <… of the getpath result>
//	                 <hash of v|tovalue> <hash of result|tovalue>  joined by " ; ", then " | " and the id each probe
//	                 path resolved to. ids are pre-order numbers of the walked tree (pointer identity),
//	                 null | err | x (not a decode value) | ? (a decode value that is not in the tree).
//	run "expr":  expr <path items>  TAB  <hex of path_to_expr> ok <items of (path_to_expr | expr_to_path)> | … err
//
// A tree is ONE case line (all nodes of it), so that the line replays alone.
package main

import (
	"encoding/hex"
	"fmt"
	"math/big"
	"os"
	"path/filepath"
	"runtime"
	"sort"
	"strings"
	"time"

	"github.com/wader/fq/internal/verifharness/hlib"
)

// ---------------------------------------------------------------- expr run

var strPool = []string{
	"a", "b", "abc", "foo_bar", "_", "_a1", "A", "Z9", "a1", "x",
	"", " ", "1", "1a", "0x", "9_", "-", "-1", "a-b", "a b", "a.b", ".", "..", "[", "]", "[0]", "a[0]",
	"\"", "\\", "\\\"", "a\"b", "a\\b", "\\(", "\\(x)", "\\u0041", "\\n", "\"\"", "\\\\", "$", "$a", "@a", "#", "# c", "`", "'",
	"\n", "\r", "\t", "\x00", "\x01", "\x1f", "\x7f", "a\nb", "a\x00b", "\n\"", "\\\n",
	"\u00e9", "\u00df", "\u03a9", "\u65e5\u672c", "\u2028", "\ufeff", "\ufffd", "\U0001F600", "\U00010000", "\U0010FFFF", "a\u0301", "\u00a0",
	"and", "or", "not", "if", "then", "else", "elif", "end", "as", "def", "reduce", "foreach", "try", "catch", "label",
	"import", "include", "null", "true", "false", "__loc__", "module", "break", "input", "path", "limit",
	"_parent", "_root", "_path",
}

var bigInts = []string{
	"9223372036854775807", "9223372036854775808", "-9223372036854775808", "-9223372036854775809",
	"18446744073709551616", "100000000000000000000000", "-100000000000000000000000", "4294967296", "-4294967296",
	"2147483648", "9007199254740993", "-9007199254740993",
}

var lookalikes = lookalikeAll()

func randString(r *hlib.Rand) string {
	if r.Intn(6) == 0 {
		// an ASCII identifier with one look-alike code point somewhere
		t := lookalikeTemplates[r.Intn(len(lookalikeTemplates))]
		c := string(lookalikes[r.Intn(len(lookalikes))])
		i := r.Intn(len(t) + 1)
		if i < len(t) && r.Bool() {
			return t[:i] + c + t[i+1:]
		}
		return t[:i] + c + t[i:]
	}
	switch r.Intn(10) {
	case 0, 1, 2, 3:
		return strPool[r.Intn(len(strPool))]
	case 4, 5:
		return strPool[r.Intn(len(strPool))] + strPool[r.Intn(len(strPool))]
	case 6:
		return strPool[r.Intn(len(strPool))] + strPool[r.Intn(len(strPool))] + strPool[r.Intn(len(strPool))]
	case 7:
		// random code points (no surrogates)
		n := r.Range(1, 4)
		var sb strings.Builder
		for i := 0; i < n; i++ {
			var c rune
			switch r.Intn(4) {
			case 0:
				c = rune(r.Intn(0x80))
			case 1:
				c = rune(r.Intn(0x800))
			case 2:
				c = rune(r.Intn(0x10000))
			default:
				c = rune(0x10000 + r.Intn(0x100000))
			}
			if c >= 0xD800 && c <= 0xDFFF {
				c = 0xFFFD
			}
			sb.WriteRune(c)
		}
		return sb.String()
	case 8:
		// identifier-like
		const first = "abcxyzABCXYZ_"
		const tail = "abcxyzABCXYZ_0189"
		n := r.Range(1, 6)
		b := []byte{first[r.Intn(len(first))]}
		for i := 1; i < n; i++ {
			b = append(b, tail[r.Intn(len(tail))])
		}
		return string(b)
	default:
		// almost an identifier
		const all = "ab_09 .\"\\-"
		n := r.Range(1, 5)
		b := []byte{}
		for i := 0; i < n; i++ {
			b = append(b, all[r.Intn(len(all))])
		}
		return string(b)
	}
}

func randInt(r *hlib.Rand) any {
	switch r.Intn(6) {
	case 0:
		return r.Range(0, 3)
	case 1:
		return -r.Range(1, 3)
	case 2:
		return r.Range(-1000, 1000)
	case 3:
		return int(int64(r.U64()))
	case 4:
		bi, _ := new(big.Int).SetString(bigInts[r.Intn(len(bigInts))], 10)
		if bi.IsInt64() {
			return int(bi.Int64())
		}
		return bi
	default:
		return int(int32(r.U64()))
	}
}

func randPath(r *hlib.Rand) []any {
	n := r.Intn(6)
	if r.Intn(20) == 0 {
		n = r.Range(6, 12)
	}
	p := make([]any, n)
	for i := range p {
		if r.Intn(3) == 0 {
			p[i] = randInt(r)
		} else {
			p[i] = randString(r)
		}
	}
	return p
}

const exprProg = `
.[] | . as $p
| (try ["ok", path_to_expr] catch ["err", .]) as $e
| if $e[0] != "ok" or ($e[1] | type) != "string" then ["perr"]
  else [ $e[1], [try ($e[1] | expr_to_path) catch "\u0001err"] ]
  end
`

func runExprBatch(o *hlib.Out, paths [][]any) {
	in := make([]any, len(paths))
	for i, p := range paths {
		in[i] = p
	}
	outs, err := evalAll(in, exprProg)
	if err != nil || len(outs) != len(paths) {
		// fall back to one by one so that a single bad case does not hide the others
		if len(paths) == 1 {
			fmt.Fprintf(os.Stderr, "expr %s: eval error %v (outputs %d)\n", fmtPath(paths[0]), err, len(outs))
			o.Case("expr "+fmtPath(paths[0]), "evalerr")
			return
		}
		for _, p := range paths {
			runExprBatch(o, [][]any{p})
		}
		return
	}
	for i, p := range paths {
		op := "expr " + fmtPath(p)
		a, _ := outs[i].([]any)
		obs := "bad"
		switch {
		case len(a) == 1:
			obs = "perr" // path_to_expr itself failed
		case len(a) == 2:
			e, _ := a[0].(string)
			rs, _ := a[1].([]any)
			obs = hlib.Hex([]byte(e))
			switch {
			case len(rs) != 1:
				obs += fmt.Sprintf(" err:outputs=%d", len(rs))
			default:
				if rp, isA := rs[0].([]any); isA {
					obs += " ok " + fmtPath(rp)
				} else {
					obs += " err"
				}
			}
		}
		o.Case(op, obs)
		nonIdent := 0
		for _, x := range p {
			if s, isS := x.(string); isS {
				id := s != ""
				for j, c := range s {
					if !(c == '_' || c >= 'a' && c <= 'z' || c >= 'A' && c <= 'Z' || (j > 0 && c >= '0' && c <= '9')) {
						id = false
					}
				}
				if !id {
					nonIdent++
				}
			}
		}
		// non-trivial: the path has a key that is not an identifier, or starts with an index, or is empty
		lead := len(p) == 0
		if len(p) > 0 {
			_, isS := p[0].(string)
			lead = !isS
		}
		if nonIdent > 0 || lead {
			o.Class(op)
		}
	}
}

func exprFixed(thorough bool) [][]any {
	big1, _ := new(big.Int).SetString("100000000000000000000000", 10)
	ps := [][]any{
		{}, {""}, {"a", "", "b"}, {"", ""}, {0}, {-1}, {0, "a"}, {-1, -2}, {"a", 0}, {"a", -1, "b"}, {big1}, {"a", big1},
		{"a"}, {"a", "b"}, {"1a"}, {"a\"b"}, {"a\\b"}, {"\\"}, {"\""}, {"\\("}, {"\n"}, {"\x00"}, {"\x7f"}, {"\U0001F600"},
		{"and"}, {"if"}, {"__loc__"}, {"a b"}, {"."}, {".."}, {"[0]"}, {"$x"},
	}
	// every pool string alone, after a key, after an index
	for _, s := range strPool {
		ps = append(ps, []any{s}, []any{"k", s}, []any{3, s}, []any{s, s})
	}
	// every single ASCII character and a sample of others as a key
	for c := rune(0); c < 0x80; c++ {
		ps = append(ps, []any{string(c)}, []any{"a" + string(c)}, []any{string(c) + "a"})
	}
	// look-alikes of ASCII word characters: the case-folding ones at every position of every template,
	// the whole set alone and inside "a?b" (quick) / at every position of every template (thorough)
	for _, k := range lookalikeKeys(foldCore(), lookalikeTemplates) {
		ps = append(ps, []any{k})
	}
	ps = append(ps, []any{"a\u017fb", 1}, []any{0, "\u212a"}, []any{"\u212a", "\u017f", "\u0131", "\u0130"})
	if thorough {
		for _, k := range lookalikeKeys(lookalikes, []string{"ab", "_x", "a1"}) {
			ps = append(ps, []any{k})
		}
	} else {
		for _, c := range lookalikes {
			ps = append(ps, []any{string(c)}, []any{"a" + string(c) + "b"})
		}
	}
	return ps
}

func runExpr(o *hlib.Out, r *hlib.Rand, cfg hlib.Config) {
	n := 800
	if cfg.Thorough() {
		n = 8000
	}
	ps := exprFixed(cfg.Thorough())
	o.Stat("lookalike_code_points", len(lookalikes))
	o.Stat("casefold_to_ascii_code_points", len(foldCore()))
	for i := 0; i < n; i++ {
		ps = append(ps, randPath(r))
	}
	for i := 0; i < 3 && i < len(ps); i++ {
		o.Sample("expr " + fmtPath(ps[40+i*7]))
	}
	const batch = 250
	for i := 0; i < len(ps); i += batch {
		j := min(i+batch, len(ps))
		runExprBatch(o, ps[i:j])
	}
	o.Stat("expr_paths", len(ps))
}

// ---------------------------------------------------------------- tree run

type sample struct {
	path   string
	format string
	data   []byte
}

// testdata files of the repository (small ones), each decoded with the format fq probes for it
func collectSamples(repo string, maxSize int64) []sample {
	var files []string
	_ = filepath.Walk(filepath.Join(repo, "format"), func(p string, info os.FileInfo, err error) error {
		if err != nil || info.IsDir() {
			return nil
		}
		if !strings.Contains(p, "/testdata/") {
			return nil
		}
		switch filepath.Ext(p) {
		case ".fqtest", ".jq", ".md", ".sh", ".go", ".txt", ".py", ".json", ".yml", ".yaml", ".toml", ".xml", ".html", ".csv":
			return nil
		}
		if info.Size() == 0 || info.Size() > maxSize {
			return nil
		}
		if strings.Contains(filepath.Base(p), "bigzero") {
			// a decompression bomb (the repository's own test decodes it with -o uncompress=false)
			return nil
		}
		files = append(files, p)
		return nil
	})
	sort.Strings(files)
	var ss []sample
	for _, f := range files {
		b, err := os.ReadFile(f)
		if err != nil {
			continue
		}
		ss = append(ss, sample{path: f, data: b})
	}
	return ss
}

func probeFormat(b []byte) string {
	vs, err := evalAll(hex.EncodeToString(b), `from_hex | decode("probe") | format`)
	if os.Getenv("VERIF_DEBUG") != "" && err != nil {
		fmt.Fprintf(os.Stderr, "  probe err %v\n", err)
	}
	if len(vs) == 1 {
		if s, ok := vs[0].(string); ok {
			return s
		}
	}
	return ""
}

func runTrees(o *hlib.Out, r *hlib.Rand, cfg hlib.Config) {
	repo := os.Getenv("VERIF_REPO")
	if repo == "" {
		repo = "/repo"
	}
	maxSize, maxNodes, perFormat, nSynth, nTrunc := int64(6000), 2500, 3, 250, 2
	if cfg.Thorough() {
		maxSize, maxNodes, perFormat, nSynth, nTrunc = 40000, 8000, 8, 2500, 4
	}
	ss := collectSamples(repo, maxSize)
	// deterministic shuffle, then at most perFormat files per probed format
	for i := len(ss) - 1; i > 0; i-- {
		j := r.Intn(i + 1)
		ss[i], ss[j] = ss[j], ss[i]
	}
	// files that exercise nested buffers first (the property names them)
	prio := func(s sample) int {
		for _, k := range []string{"/gzip/", "/zip/", "/pcap/", "/tar/", "/mp4/", "/matroska/", "/tls/", "/bzip2/", "/zstd/"} {
			if strings.Contains(s.path, k) {
				return 0
			}
		}
		return 1
	}
	sort.SliceStable(ss, func(i, j int) bool { return prio(ss[i]) < prio(ss[j]) })
	seen := map[string]int{}
	seenDir := map[string]int{}
	nFiles := 0
	for _, s := range ss {
		dir := strings.SplitN(strings.TrimPrefix(s.path, filepath.Join(repo, "format")+"/"), "/", 2)[0]
		if seenDir[dir] >= perFormat+2 {
			continue // enough files of this format directory were tried (probing is what costs)
		}
		seenDir[dir]++
		if os.Getenv("VERIF_DEBUG") != "" {
			fmt.Fprintf(os.Stderr, "file %s %d\n", s.path, len(s.data))
		}
		t0 := time.Now()
		f := probeFormat(s.data)
		if os.Getenv("VERIF_DEBUG") != "" {
			fmt.Fprintf(os.Stderr, "  probed %q in %v\n", f, time.Since(t0))
		}
		if f == "" {
			// not probeable (bare frames, sub-formats): try the format named like the directory
			if vs, _ := evalAll(hex.EncodeToString(s.data), fmt.Sprintf("from_hex | decode(%q) | format", dir)); len(vs) == 1 {
				if fs, ok := vs[0].(string); ok {
					f = fs
				}
			}
		}
		if f == "" {
			o.Stat("files_not_probed", 1)
			continue
		}
		if seen[f] >= perFormat {
			continue
		}
		fr := r.Fork()
		if !runTree(o, fr, treeCase{format: f, input: s.data}, maxNodes, s.path) {
			continue
		}
		seen[f]++
		nFiles++
		if nFiles <= 2 {
			o.Sample(fmt.Sprintf("tree %s <%s, %d bytes>", f, strings.TrimPrefix(s.path, repo+"/"), len(s.data)))
		}
		// truncated inputs: partial trees, gap fields
		for k := 0; k < nTrunc; k++ {
			cut := 1 + fr.Intn(len(s.data))
			if k == 0 {
				cut = len(s.data) - 1 - fr.Intn(min(8, len(s.data)))
				if cut < 1 {
					cut = 1
				}
			}
			if runTree(o, fr, treeCase{format: f, input: s.data[:cut]}, maxNodes, s.path) {
				o.Stat("truncated_inputs", 1)
			}
		}
	}
	o.Stat("testdata_files", nFiles)
	o.Stat("formats_covered", len(seen))

	// depth and width: generated chains of 1..80 (130, 260) nested compounds, compounds with 31..257 children,
	// names of 31..257 characters (deep.go), and documents of real formats nested to a given depth
	for _, tc := range append(deepCases(r.Fork(), cfg.Thorough()), deepDocs(cfg.Thorough())...) {
		if runTree(o, r.Fork(), tc, 1<<20, "deep") {
			o.Stat("deep_or_wide_generated_trees", 1)
		} else {
			// these inputs are made by the harness itself: a decode that gives no tree is a harness error
			o.Case(fmt.Sprintf("tree %s %s x | -", tc.format, hlib.Hex(tc.input)), "evalerr no-tree")
		}
	}
	defer func() { o.Stat("max_tree_depth", maxDepthSeen) }()

	// the synthetic format: random programs
	for i := 0; i < nSynth; i++ {
		fr := r.Fork()
		n := fr.Range(1, 48)
		if fr.Intn(5) == 0 {
			n = fr.Range(48, 160)
		}
		b := fr.Bytes(n)
		// bias the op bytes towards compounds and nested roots
		for j := range b {
			if fr.Intn(3) == 0 {
				b[j] = byte(fr.Intn(256))&0xf8 | byte(3+fr.Intn(5))
			}
		}
		// every third program: decode errors on purpose after fields were added (repeated field name,
		// Fatalf mid-compound, d.Format merge) somewhere — inside structs, arrays, nested formats, nested roots
		if i%3 == 0 {
			for h := fr.Range(1, 3); h > 0 && len(b) >= 4; h-- {
				j := 2 + fr.Intn(len(b)-3)
				switch fr.Intn(4) {
				case 0, 1:
					b[j] = []byte{0xe1, 0xe9, 0xf1, 0xf9}[fr.Intn(4)] // repeat the last field name
				case 2:
					b[j] = 0xf8 // Fatalf
				case 3:
					b[j] = byte(fr.Intn(32))<<3 | 6 // nested format …
					b[j+1] = 0xc0 | byte(fr.Intn(64)) // … merged with d.Format
				}
			}
		}
		f := "verif_c12"
		if fr.Intn(3) == 0 {
			f = "verif_c12a"
		}
		synthHazards = 0
		if runTree(o, fr, treeCase{format: f, input: b}, maxNodes, "synthetic") {
			o.Stat("synthetic_trees", 1)
			if synthHazards > 0 {
				o.Stat("synthetic_trees_with_provoked_decode_error", 1)
			}
		}
	}
}

// ---------------------------------------------------------------- replay

func replay(o *hlib.Out, r *hlib.Rand, file string) {
	for _, l := range hlib.ReplayLines(file) {
		ws := strings.Fields(l)
		if len(ws) == 0 {
			continue
		}
		switch ws[0] {
		case "expr":
			if len(ws) != 2 {
				o.Case(l, "badreplay")
				continue
			}
			p, err := parsePath(ws[1])
			if err != nil {
				o.Case(l, "badreplay")
				continue
			}
			runExprBatch(o, [][]any{p})
		case "tree":
			if len(ws) < 3 {
				o.Case(l, "badreplay")
				continue
			}
			tc := treeCase{format: ws[1], input: hlib.UnHex(ws[2]), probes: [][]any{}}
			bar := -1
			for i, w := range ws {
				if w == "|" {
					bar = i
				}
			}
			bad := false
			if bar >= 0 {
				for _, w := range ws[bar+1:] {
					p, err := parsePath(w)
					if err != nil {
						bad = true
						break
					}
					tc.probes = append(tc.probes, p)
				}
			}
			if bad || !runTree(o, r, tc, 1<<20, "replay") {
				o.Case(l, "badreplay")
			}
		}
	}
}

// memGuard ends the process with a visible harness error before a runaway evaluation or a
// decompression bomb makes the kernel's OOM killer choose a victim (other checks share the machine)
func memGuard(limit uint64) {
	go func() {
		var ms runtime.MemStats
		for {
			time.Sleep(500 * time.Millisecond)
			runtime.ReadMemStats(&ms)
			if ms.HeapAlloc > limit {
				fmt.Fprintf(os.Stderr, "c12 harness: heap %d MB exceeds the guard, giving up\n", ms.HeapAlloc>>20)
				os.Exit(3)
			}
		}
	}()
}

func main() {
	memGuard(8 << 30)
	cfg := hlib.ParseFlags()
	o := hlib.NewOut(cfg.Out)
	defer o.Close()
	r := hlib.NewRand(cfg.Seed)
	if cfg.Replay != "" {
		replay(o, r, cfg.Replay)
		return
	}
	mode := "all"
	if len(cfg.Args) > 0 {
		mode = cfg.Args[0]
	}
	if mode == "expr" || mode == "all" {
		runExpr(o, r.Fork(), cfg)
	}
	if mode == "tree" || mode == "all" {
		runTrees(o, r.Fork(), cfg)
	}
}
