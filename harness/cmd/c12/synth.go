//go:build verif

package main

import (
	"fmt"

	"github.com/wader/fq/pkg/decode"
	"github.com/wader/fq/pkg/interp"
)

// A synthetic, data-driven format: the input bytes are a little program that builds a decode
// tree through the public decode.D API — structs, arrays, leaves with unusual names, fields
// decoded out of order (so that postProcess's sort moves them), unread bytes (gap fields, which
// FillGaps appends to the root struct OR root array), nested buffers (IsRoot) with and without a
// format, nested formats in the same buffer (Format set, IsRoot false), and input that ends in
// the middle (partial trees). Registered only in the harness binary (the overlay adds this
// package; nothing in /repo changes).
//
//   verif_c12   root is a struct      verif_c12a  root is an array
var synthGroup = &decode.Group{Name: "verif_c12"}
var synthArrGroup = &decode.Group{Name: "verif_c12a"}

// names a format author could pass to Field*: identifiers, jq keywords, non-identifiers, quotes,
// backslashes, control characters, the empty string, astral. NOT the interpreter's own `_`-keys
// (`_parent`, `_name`, …): a struct field with such a name shadows the key (valueOrFallbackKey asks
// the struct first), `parents` then never terminates; no format of /repo names a field like that
// (assumption recorded in lib/props/C12.json).
var synthNames = []string{
	"a", "b", "len", "data", "x1", "foo_bar", "A", "_", "gap0", "gap1",
	"_x", "_parent_", "__", "parent", "root",
	"and", "if", "null", "1a", "0", "-1", "a b", "a.b", "a[0]", "a\"q", "b\\s", "\\(x)",
	"", "\u00e9", "\U0001F600", "a\nb", "\x00", "\x7f", " ", ".", "..", "[", "\"",
}

var synthDepth int

const synthMaxDepth = 7

type namer struct {
	used map[string]int
	last string
}

func (nm *namer) pick(b uint64) string {
	n := synthNames[int(b)%len(synthNames)]
	nm.used[n]++
	if c := nm.used[n]; c > 1 {
		// struct names must be unique (AddChild is fatal otherwise)
		n = fmt.Sprintf("%s_%d", n, c)
	}
	nm.last = n
	return n
}

var synthHazards int // decode errors raised on purpose in the current decode (for the statistics)

func synthBody(d *decode.D) {
	synthDepth++
	defer func() { synthDepth-- }()
	nm := &namer{used: map[string]int{}}
	for d.BitsLeft() >= 8 {
		op := d.U8() // an unnamed read: these bytes end up in gap fields
		if synthDepth >= synthMaxDepth && op&7 >= 3 {
			op = 1
		}
		switch op & 7 {
		case 0:
			if op == 0xf8 {
				// a decode error in the middle of a compound, after fields were added: the partial tree is kept
				synthHazards++
				d.Fatalf("synthetic failure")
			}
			if synthDepth > 1 && op&0x30 == 0 {
				return
			}
			d.FieldValueUint(nm.pick(op>>3), 0) // synthetic value (no range)
		case 1:
			if op&0xe0 == 0xe0 && nm.last != "" {
				// a data-driven field name that repeats: in a struct AddChild raises `"x" already exist in
				// struct` (the decode stops, the partial tree is kept); in an array duplicates are normal
				synthHazards++
				d.FieldU8(nm.last)
				break
			}
			d.FieldU8(nm.pick(op >> 3))
		case 2:
			k := d.U8()
			name := nm.pick(k)
			if op&0x80 != 0 && d.Pos() >= 24 {
				// decoded at an earlier position: the stable sort by range start moves it
				d.SeekRel(-24, func(d *decode.D) { d.FieldU8(name) })
			} else {
				d.FieldRawLen(name, int64(op>>3)%19)
			}
		case 3:
			d.FieldStruct(nm.pick(op>>3), synthBody)
		case 4:
			d.FieldArray(nm.pick(op>>3), synthBody)
		case 5:
			k := int64(d.U8()%12) * 8
			br := d.BitBufRange(d.Pos(), k)
			name := nm.pick(op >> 3)
			if op&0x80 != 0 {
				d.FieldArrayRootBitBufFn(name, br, synthBody)
			} else {
				d.FieldStructRootBitBufFn(name, br, synthBody)
			}
			d.SeekRel(k)
		case 6:
			kb := d.U8()
			k := int64(kb%12) * 8
			g := synthGroup
			if op&0x80 != 0 {
				g = synthArrGroup
			}
			if kb >= 0xc0 {
				// d.Format merges the children of a nested decode of the REST of the buffer into this
				// compound: in a struct a name that is already there collides (`already exist` error)
				synthHazards++
				d.Format(g, nil)
				break
			}
			d.FieldFormatLen(nm.pick(op>>3), k, g, nil)
		case 7:
			k := int64(d.U8()%12) * 8
			br := d.BitBufRange(d.Pos(), k)
			g := synthGroup
			if op&0x80 != 0 {
				g = synthArrGroup
			}
			name := nm.pick(op >> 3)
			if op&0x40 != 0 {
				d.FieldRootBitBuf(name, br)
			} else {
				d.FieldFormatBitBuf(name, br, g, nil)
			}
			d.SeekRel(k)
		}
	}
}

func init() {
	interp.RegisterFormat(synthGroup, &decode.Format{
		Description: "verification harness C12: byte-programmed tree, struct root",
		DecodeFn:    func(d *decode.D) any { synthBody(d); return nil },
	})
	interp.RegisterFormat(synthArrGroup, &decode.Format{
		Description: "verification harness C12: byte-programmed tree, array root",
		RootArray:   true,
		RootName:    "items",
		DecodeFn:    func(d *decode.D) any { synthBody(d); return nil },
	})
}
