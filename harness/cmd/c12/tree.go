//go:build verif

package main

import (
	"crypto/sha1"
	"encoding/hex"
	"fmt"
	"math/big"
	"os"
	"sort"
	"strconv"
	"strings"
	"time"

	"github.com/wader/fq/internal/verifharness/hlib"
	"github.com/wader/fq/pkg/decode"
	"github.com/wader/fq/pkg/interp"
)

// node of the REAL tree shape, obtained by walking Compound.Children (not through jq)
type node struct {
	id     int
	dv     *decode.Value
	parent *node
	pos    int // position in parent's Children
	kids   []*node
	size   int // nodes in the subtree
}

type tree struct {
	nodes []*node // pre-order, nodes[0] is the root
	ids   map[*decode.Value]int
}

func walkTree(root *decode.Value, limit int) (*tree, bool) {
	t := &tree{ids: map[*decode.Value]int{}}
	ok := true
	var rec func(dv *decode.Value, parent *node, pos int) *node
	rec = func(dv *decode.Value, parent *node, pos int) *node {
		n := &node{id: len(t.nodes), dv: dv, parent: parent, pos: pos, size: 1}
		t.nodes = append(t.nodes, n)
		if _, dup := t.ids[dv]; dup {
			ok = false // a value reachable twice: not a tree (would be a C03 finding); refuse
			return n
		}
		t.ids[dv] = n.id
		if len(t.nodes) > limit {
			ok = false
			return n
		}
		if c, isC := dv.V.(*decode.Compound); isC {
			for i, k := range c.Children {
				if !ok {
					break
				}
				kn := rec(k, n, i)
				n.kids = append(n.kids, kn)
				n.size += kn.size
			}
		}
		return n
	}
	rec(root, nil, 0)
	return t, ok
}

func hexName(s string) string {
	if s == "" {
		return "-"
	}
	return hex.EncodeToString([]byte(s))
}

func b01(b bool) string {
	if b {
		return "1"
	}
	return "0"
}

// dump: pre-order, one token per node  K,isRoot,hasFormat,hex(name),Index,nkids
// (Index is the Go field: -1 for everything that is not an array element)
func (t *tree) dump() string {
	var sb strings.Builder
	for i, n := range t.nodes {
		if i > 0 {
			sb.WriteByte(' ')
		}
		k := "L"
		if c, isC := n.dv.V.(*decode.Compound); isC {
			k = "S"
			if c.IsArray {
				k = "A"
			}
		}
		fmt.Fprintf(&sb, "%s,%s,%s,%s,%d,%d", k, b01(n.dv.IsRoot), b01(n.dv.Format != nil), hexName(n.dv.Name), n.dv.Index, len(n.kids))
	}
	return sb.String()
}

// ---------------------------------------------------------------- paths as text

func fmtPath(p []any) string {
	if len(p) == 0 {
		return "-"
	}
	ss := make([]string, len(p))
	for i, x := range p {
		switch x := x.(type) {
		case string:
			ss[i] = "s" + hex.EncodeToString([]byte(x))
		case int:
			ss[i] = "i" + strconv.Itoa(x)
		case *big.Int:
			ss[i] = "i" + x.String()
		default:
			ss[i] = "?"
		}
	}
	return strings.Join(ss, ",")
}

func parsePath(s string) ([]any, error) {
	if s == "-" {
		return []any{}, nil
	}
	var p []any
	for _, w := range strings.Split(s, ",") {
		if w == "" {
			return nil, fmt.Errorf("empty path item")
		}
		switch w[0] {
		case 's':
			b, err := hex.DecodeString(w[1:])
			if err != nil {
				return nil, err
			}
			p = append(p, string(b))
		case 'i':
			bi, ok := new(big.Int).SetString(w[1:], 10)
			if !ok {
				return nil, fmt.Errorf("bad int %q", w)
			}
			if bi.IsInt64() {
				p = append(p, int(bi.Int64()))
			} else {
				p = append(p, bi)
			}
		default:
			return nil, fmt.Errorf("bad path item %q", w)
		}
	}
	return p, nil
}

// ---------------------------------------------------------------- the jq side

const errMark = "\x01err"

// one program per tree: input {nodes: [[decode value, small?] …], probes: [path …]}
const treeProg = `
def t(f): try f catch "\u0001err";
def tup: if _is_decode_value then [._start, ._stop, ._name, ._index] else null end;
def tv($small): if $small and _is_decode_value then t(tovalue | tojson) else null end;
.nodes as $ns | .probes as $ps | $ns[0][0] as $r
| ( $ns[] | .[0] as $v | .[1] as $small | .[2] as $compound
  | t($v | topath) as $p
  | t($r | getpath($p)) as $g
  | [ $p, $g, t($v | parent), t($v | root), t($v | buffer_root), t($v | format_root), t([$v | parents])
    , t($v | tup), t($g | tup), ($v | tv($small)), ($g | tv($small))
    , t($v | if $compound then [keys, [keys[] as $k | .[$k]], length] else null end) ]
  )
, ( $ps[] | . as $p | [ t($r | getpath($p)) ] )
`

func (t *tree) idOf(v any) string {
	switch v := v.(type) {
	case nil:
		return "null"
	case string:
		if v == errMark {
			return "err"
		}
		return "x"
	case interp.DecodeValue:
		if id, ok := t.ids[v.DecodeValue()]; ok {
			return strconv.Itoa(id)
		}
		return "?" // a decode value that is not a node of the walked tree
	}
	return "x"
}

func fmtTup(v any) string {
	a, ok := v.([]any)
	if !ok || len(a) != 4 {
		if v == nil {
			return "null"
		}
		return "err"
	}
	name, _ := a[2].(string)
	idx := "n"
	if a[3] != nil {
		idx = fmt.Sprint(a[3])
	}
	return fmt.Sprintf("%v.%v.%s.%s", a[0], a[1], hexName(name), idx)
}

func fmtHash(v any) string {
	s, ok := v.(string)
	if !ok {
		return "-"
	}
	if s == errMark {
		return "err"
	}
	h := sha1.Sum([]byte(s))
	return hex.EncodeToString(h[:6])
}

// ownPath: the path of a node from the walked shape (names of struct children, POSITIONS of
// array children) — used only to build probe paths, never compared with fq's topath
func ownPath(n *node) []any {
	var p []any
	for ; n.parent != nil; n = n.parent {
		if n.parent.dv.V.(*decode.Compound).IsArray {
			p = append([]any{n.pos}, p...)
		} else {
			p = append([]any{n.dv.Name}, p...)
		}
	}
	return p
}

var extKeys = []string{"_parent", "_root", "_buffer_root", "_format_root"}

// probes: perturbed paths for the getpath/resolve correspondence (negative and out-of-range
// indices, missing keys, the navigation keys used as path elements, paths through leaves,
// names that are in a struct's ByName map but not among its children)
func (t *tree) probes(r *hlib.Rand, n int) [][]any {
	var ps [][]any
	for _, nd := range t.nodes {
		c, isC := nd.dv.V.(*decode.Compound)
		if !isC || c.IsArray || c.ByName == nil {
			continue
		}
		have := map[string]bool{}
		for _, k := range c.Children {
			have[k.Name] = true
		}
		var stale []string
		for name := range c.ByName {
			if !have[name] {
				stale = append(stale, name)
			}
		}
		sort.Strings(stale)
		for _, name := range stale {
			ps = append(ps, append(ownPath(nd), name))
		}
	}
	for i := 0; i < n; i++ {
		nd := t.nodes[r.Intn(len(t.nodes))]
		p := ownPath(nd)
		switch r.Intn(8) {
		case 0:
			p = append(p, extKeys[r.Intn(len(extKeys))])
		case 1:
			p = append(p, extKeys[r.Intn(len(extKeys))], extKeys[r.Intn(len(extKeys))])
		case 2, 3:
			if nd.parent != nil && nd.parent.dv.V.(*decode.Compound).IsArray {
				l := len(nd.parent.kids)
				switch r.Intn(4) {
				case 0:
					p[len(p)-1] = nd.pos - l
				case 1:
					p[len(p)-1] = l
				case 2:
					p[len(p)-1] = -l - 1
				case 3:
					p[len(p)-1] = nd.pos - l
					p = append(p, "_parent")
				}
			} else {
				p = append(p, r.Range(-3, 3))
			}
		case 4:
			p = append(p, synthNames[r.Intn(len(synthNames))])
		case 5:
			if len(p) > 0 {
				if _, isS := p[len(p)-1].(string); isS {
					p[len(p)-1] = "no_such_field"
				}
			}
			p = append(p, "_root")
		case 6:
			p = append(p, "_parent")
			if nd.parent != nil {
				if nd.parent.dv.V.(*decode.Compound).IsArray {
					p = append(p, nd.pos)
				} else {
					p = append(p, nd.dv.Name)
				}
			}
		case 7:
			// cut somewhere and continue with a sibling-ish step
			if len(p) > 0 {
				p = p[:r.Intn(len(p))]
			}
			p = append(p, r.Range(-2, 4))
		}
		ps = append(ps, p)
	}
	return ps
}

var maxDepthSeen int

// indices around the powers of two where an index type could wrap (int32, uint32, float64 mantissa, int64):
// jq gives null (or an error for what is not an int) for all of them on every array of a decode tree
var hugeIdx = func() []any {
	var xs []any
	for _, s := range []string{
		"2147483647", "2147483648", "-2147483648", "-2147483649", "4294967295", "4294967296", "4294967297", "-4294967296",
		"9007199254740991", "9007199254740992", "9007199254740993", "-9007199254740993",
		"9223372036854775807", "-9223372036854775808", "18446744073709551616", "18446744073709551617", "-18446744073709551616",
	} {
		bi, _ := new(big.Int).SetString(s, 10)
		if bi.IsInt64() {
			xs = append(xs, int(bi.Int64()))
		} else {
			xs = append(xs, bi)
		}
	}
	return xs
}()

// hugeProbes: for up to n arrays of the tree, the array's path + an index near 2^31 / 2^32 / 2^53 / 2^63 / 2^64,
// also 2^32+k and 2^64+k for an existing position k (what a truncating conversion would map onto a real element)
func (t *tree) hugeProbes(r *hlib.Rand, n int) [][]any {
	var arrs []*node
	for _, nd := range t.nodes {
		if c, isC := nd.dv.V.(*decode.Compound); isC && c.IsArray && len(nd.kids) > 0 {
			arrs = append(arrs, nd)
		}
	}
	var ps [][]any
	for i := 0; i < n && len(arrs) > 0; i++ {
		nd := arrs[r.Intn(len(arrs))]
		k := r.Intn(len(nd.kids))
		var ix any
		switch r.Intn(4) {
		case 0:
			ix = 1<<32 + k
		case 1:
			ix = new(big.Int).Add(new(big.Int).Lsh(big.NewInt(1), 64), big.NewInt(int64(k)))
		case 2:
			ix = -(1 << 32) + k - len(nd.kids)
		default:
			ix = hugeIdx[r.Intn(len(hugeIdx))]
		}
		ps = append(ps, append(ownPath(nd), ix))
	}
	return ps
}

type treeCase struct {
	format string
	input  []byte
	probes [][]any // nil: generate
}

// runTree decodes input with format through the real interpreter, dumps the real tree shape and
// asks the interpreter for the path and the navigation results of every node.
func runTree(o *hlib.Out, r *hlib.Rand, tc treeCase, maxNodes int, note string) bool {
	prog := fmt.Sprintf("from_hex | decode(%q)", tc.format)
	if os.Getenv("VERIF_DEBUG") != "" {
		fmt.Fprintf(os.Stderr, "  decode %s %s\n", tc.format, hex.EncodeToString(tc.input))
	}
	vs, err := evalAll(hex.EncodeToString(tc.input), prog)
	if os.Getenv("VERIF_DEBUG") != "" && err != nil {
		fmt.Fprintf(os.Stderr, "  decode err %v\n", err)
	}
	if len(vs) != 1 {
		_ = err
		o.Stat("tree_decode_failed", 1)
		return false
	}
	dvv, ok := vs[0].(interp.DecodeValue)
	if !ok {
		o.Stat("tree_decode_failed", 1)
		return false
	}
	t, ok := walkTree(dvv.DecodeValue(), maxNodes)
	if !ok {
		o.Stat("tree_too_large_or_not_a_tree", 1)
		return false
	}
	ps := tc.probes
	if ps == nil {
		ps = t.probes(r, 12)
		ps = append(ps, t.hugeProbes(r, 4)...)
	}
	nodes := make([]any, len(t.nodes))
	for i, n := range t.nodes {
		// tovalue|tojson of both sides is hashed for small values only (cost), in large trees for every 4th node
		small := n.size <= smallSubtree && n.dv.Range.Len <= 2048 && (len(t.nodes) <= 150 || i%4 == 0)
		// keys/length are asked of struct and array values only (a leaf of a value format — xml, json, toml —
		// is a scalar whose jq value may itself be an object; that is not tree navigation)
		_, isCompound := n.dv.V.(*decode.Compound)
		nodes[i] = []any{interp.VerifC12Wrap(n.dv), small, isCompound}
	}
	pany := make([]any, len(ps))
	pss := make([]string, len(ps))
	for i, p := range ps {
		pany[i] = p
		pss[i] = fmtPath(p)
	}
	op := fmt.Sprintf("tree %s %s %s | %s", tc.format, hlib.Hex(tc.input), t.dump(), strings.Join(pss, " "))
	t0 := time.Now()
	outs, err := evalAll(map[string]any{"nodes": nodes, "probes": pany}, treeProg)
	if os.Getenv("VERIF_DEBUG") != "" {
		fmt.Fprintf(os.Stderr, "  tree %s %d bytes %d nodes eval %v\n", tc.format, len(tc.input), len(t.nodes), time.Since(t0))
	}
	if err != nil || len(outs) != len(nodes)+len(ps) {
		fmt.Fprintf(os.Stderr, "tree %s (%d bytes): eval error %v (outputs %d)\n", tc.format, len(tc.input), err, len(outs))
		o.Case(op, fmt.Sprintf("evalerr outputs=%d want=%d", len(outs), len(nodes)+len(ps)))
		return true
	}
	var sb strings.Builder
	for i := range t.nodes {
		a, _ := outs[i].([]any)
		if i > 0 {
			sb.WriteString(" ; ")
		}
		if len(a) != 12 {
			sb.WriteString("bad")
			continue
		}
		path := "err"
		if pa, isA := a[0].([]any); isA {
			path = fmtPath(pa)
		}
		parents := "err"
		if pa, isA := a[6].([]any); isA {
			if len(pa) == 0 {
				parents = "-"
			} else {
				ids := make([]string, len(pa))
				for j, x := range pa {
					ids[j] = t.idOf(x)
				}
				parents = strings.Join(ids, ",")
			}
		}
		// keys / the value under each key / length of a compound: `n` for a leaf, else <keys>=<ids>=<length>
		keys := "err"
		switch ka := a[11].(type) {
		case nil:
			keys = "n"
		case []any:
			if len(ka) == 3 {
				kl, ok1 := ka[0].([]any)
				vl, ok2 := ka[1].([]any)
				if ok1 && ok2 {
					ids := make([]string, len(vl))
					for j, x := range vl {
						ids[j] = t.idOf(x)
					}
					idss := "-"
					if len(ids) > 0 {
						idss = strings.Join(ids, ",")
					}
					keys = fmt.Sprintf("%s=%s=%v", fmtPath(kl), idss, ka[2])
				}
			}
		}
		fmt.Fprintf(&sb, "%s %s %s %s %s %s %s %s %s %s %s %s", path, t.idOf(a[1]), t.idOf(a[2]), t.idOf(a[3]), t.idOf(a[4]),
			t.idOf(a[5]), parents, fmtTup(a[7]), fmtTup(a[8]), fmtHash(a[9]), fmtHash(a[10]), keys)
	}
	sb.WriteString(" |")
	if len(ps) == 0 {
		sb.WriteString(" -")
	}
	for i := range ps {
		a, _ := outs[len(nodes)+i].([]any)
		if len(a) != 1 {
			sb.WriteString(" bad")
			continue
		}
		sb.WriteByte(' ')
		sb.WriteString(t.idOf(a[0]))
	}
	o.Case(op, sb.String())
	o.Stat("tree_nodes", len(t.nodes))
	o.Stat("tree_probes", len(ps))
	nRoots, nFmt, nGapInArr, depth := 0, 0, 0, 0
	for _, n := range t.nodes {
		if n.parent != nil && n.dv.IsRoot {
			nRoots++
		}
		if n.parent != nil && n.dv.Format != nil {
			nFmt++
		}
		if n.parent != nil && n.parent.dv.V.(*decode.Compound).IsArray && strings.HasPrefix(n.dv.Name, "gap") {
			if _, isC := n.dv.V.(*decode.Compound); !isC {
				nGapInArr++
			}
		}
		d := 0
		for q := n; q.parent != nil; q = q.parent {
			d++
		}
		if d > depth {
			depth = d
		}
	}
	if depth > maxDepthSeen {
		maxDepthSeen = depth
	}
	if depth >= 33 {
		o.Stat("trees_with_depth_ge_33", 1)
	}
	if depth >= 65 {
		o.Stat("trees_with_depth_ge_65", 1)
	}
	maxKids := 0
	for _, n := range t.nodes {
		maxKids = max(maxKids, len(n.kids))
	}
	if maxKids >= 31 {
		o.Stat("trees_with_a_compound_of_31_or_more_children", 1)
	}
	o.Stat("nested_buffer_roots", nRoots)
	o.Stat("nested_formats", nFmt)
	o.Stat("gap_fields_in_arrays", nGapInArr)
	if t.nodes[0].dv.Err != nil {
		if strings.Contains(t.nodes[0].dv.Err.Error(), "already exist") {
			o.Stat("partial_trees_duplicate_field_name_error", 1)
		}
		o.Stat("partial_trees", 1)
	}
	// non-trivial: at least one compound below the root (depth >= 2); class = format + shape
	if depth >= 2 {
		h := sha1.Sum([]byte(t.dump()))
		o.Class("tree " + tc.format + " " + hex.EncodeToString(h[:8]))
	}
	_ = note
	return true
}

// tovalue|tojson is hashed for values whose subtree has at most this many nodes
var smallSubtree = func() int {
	if s := os.Getenv("VERIF_C12_SMALL"); s != "" {
		n, _ := strconv.Atoi(s)
		return n
	}
	return 8
}()
