//go:build verif

package main

import (
	"fmt"
	"strings"
	"time"

	"github.com/wader/fq/internal/pos"
	"github.com/wader/fq/internal/verifharness/hlib"
)

// ---- directed cases for the second batch of modelled functions (FqModel/Total2.lean) -------------
//
// The boundary pool reaches these functions only as far as their argument casts; what lies behind
// (hex digits, '%' escapes, '&' / ';' / '=' separators, 00 00 03 sequences, delimiter bytes, hash /
// encoding / fd names, read lengths, newline positions) needs values of the function's own
// alphabet. Every group is the full product inputs x arguments; both tiers.

func st(s string) string { return "s:" + hexOrDash([]byte(s)) }

func sts(ss ...string) []string {
	out := make([]string, len(ss))
	for i, s := range ss {
		out[i] = st(s)
	}
	return out
}

func optTok(key string, vals ...string) []string {
	out := []string{"null", "O()", "n:1", st("x"), "A()", "O(" + key + "=null)", "O(" + key + "=n:1)", "O(" + key + "=A())", "O(" + key + "=true)",
		"O(" + key + "=b:18446744073709551616)", "b:18446744073709551616"}
	for _, v := range vals {
		out = append(out, "O("+key+"="+st(v)+")")
	}
	return out
}

// values of every kind ToBitReader distinguishes (binary.go:42-150)
var bitReaderInputs = []string{
	"null", "true", "O()", "n:0", "n:1", "n:255", "n:256", "n:-1", "n:-256", "n:9223372036854775807", "n:-9223372036854775808",
	"b:18446744073709551616", "b:-18446744073709551615", "f:1p-1", "f:-1p-1", "f:nan", "f:+inf", "f:-inf", "f:255p0", "f:511p-1",
	"s:-", "s:616263", "s:000003", "s:fffe00", "S:600:00",
	"A()", "A(n:0;n:0;n:3;n:1)", "A(n:255)", "A(n:256)", "A(n:-1)", "A(f:1p-1)", "A(f:-1p-1)", "A(f:511p-1)", "A(f:nan)", "A(f:+inf)", "A(b:18446744073709551616)",
	"A(s:6162;n:1)", "A(A(n:1);A())", "A(A(n:256))", "A(A(A(s:00;n:0;n:3)))", "A(null)", "A(true)", "A(O())", "A(s:-)", "A(bin:fffe00/24/8;n:1)", "A(bin:a8/5/1)",
	"A(dv:png_len=b:13)", "A(n:1;dv:png=O())",
	"bin:fffe00/24/8", "bin:a8/5/1", "bin:-/0/8", "bin:000003000003/48/8", "dv:png=O()", "dv:png_len=b:13", "dv:png_sig=s:efbfbd504e470d0a1a0a", "dv:cbor_raw=" + "",
}

var hexStrings = sts("", "4", "g", "41", "4162", "416", "41g", "4g", "g4", "zz", "41 62", "ABCDEF", "abcdef0", "abcdef01", "0x41", "41\n", "\xff\xff", "4\x00",
	strings.Repeat("4a", 40), strings.Repeat("4a", 40)+"4", strings.Repeat("4a", 40)+"x")

var urlStrings = sts("", "a", "+", "a+b", "%", "%4", "%41", "%4g", "%g4", "%zz", "a%", "a%4", "a%41", "%41%", "%41%4", "%41%42", "%%", "%25", "%2", "%+1", "é%c3%a9",
	"a=1&a=2&b", "a;b", "a=1;b=2", "&&", "=", "==", "a=", "=a", "a=%zz", "%zz=1", "k=v;", "a=1&&b=2&a=3", "%41=%42", "a=1&a=%", "a=%&a=1", "a&a&a", "x=%00&x=+",
	"http://u:p@h:1/p%41?q=1&q=2#f", "//h", "::", "%gg://", "a b", "\x7f", "\xff%ff")

var nalStrings = sts("\x00\x00\x03", "\x00\x00\x03\x00\x00\x03\x01", "\x00\x00\x00\x03", "\x03\x03", "\x00\x03", "\x00\x00", "\x00\x00\x03\x03", "\x00\x00\x03\x00\x03",
	strings.Repeat("\x00\x00\x03", 200), strings.Repeat("\x00", 511)+"\x00\x03\x00\x00\x03", strings.Repeat("\x00\x00\x03", 11000))

var queryStrings = sts("", ".", ".a\n.b |", "\n\n(", "1 +\n", "(", "\n", ".[", "\"abc", "1 as $x |\n\n", "{a:", ". |\n. |\n. |", "\n\n\n", ".a\n", "def f:\n .;\n f(", "\"\\(\n", "é\n(", "1\n2\n3 4 5 +",
	"\xff\n(", "try", "if 1 then", ".. |= \n", "@base64 \"\n")

var csvInputs = []string{"A()", "A(A(n:1;s:61))", "A(A(s:6122;s:0a))", "A(null)", "A(A();A())", "A(A(A()))", "A(A(O()))", "A(n:1)", "A(s:61)", "A(A(null;true;f:1p-1;b:18446744073709551616;f:nan))",
	"A(A(bin:fffe00/24/8))", "A(A(dv:png_len=b:13))", "A(A(dv:png=O()))", "A(dv:png_chunks=A())", "A(A(s:61);n:1)", "A(A(s:61);A(A()))", "null", "O()", "s:61", "n:1", "dv:png_chunks=A()", "dv:png=O()",
	"A(A(s:2c;s:3b;s:09;s:22))", "A(A(S:70:61))"}

var csvCommas = []string{",", ";", "\t", "", "\"", "\n", "\r", "\x00", "\xff", "ab", "\xc3\xa5", " ", "\x00,", ",\x00"}

var fdNames = []string{"stdin", "stdout", "stderr", "", "stdinx", "STDIN", "std", "stdin\x00"}

var readLengths = []string{"n:0", "n:1", "n:16", "n:-1", "n:1073741824", "n:1073741825", "n:9223372036854775807", "n:-9223372036854775808", "f:nan", "f:1p-1", "f:-1p-1", "f:48828125p11",
	"f:+inf", "f:-inf", "b:18446744073709551616", "b:-18446744073709551616", "null", "s:31", "true", "A()", "dv:png_len=b:13"}

var hashNameVals = []string{"md4", "md5", "sha1", "sha256", "sha512", "sha3_224", "sha3_256", "sha3_384", "sha3_512", "md6", "", "MD5", "sha3-256", "sha", "md5\x00"}

var encNameVals = []string{"UTF8", "UTF16", "UTF16LE", "UTF16BE", "ISO8859_1", "ISO8859_6E", "ISO8859_16", "CodePage037", "CodePage437", "CodePage1140", "KOI8R", "Macintosh",
	"Windows874", "Windows1252", "Windows1258", "XUserDefined", "utf8", "", "UTF-8", "ISO8859_11", "UTF32", "Windows1259"}

var encStrings = sts("", "abc", "\u00e5", "\u20ac", "\U0001F600", "\xff\xfe\x00", "a\x00b", "\xe2\x82", "\ufeffa", "\ufffe", "\ud7ff", strings.Repeat("\u00e5", 40))

var b64EncVals = []string{"std", "url", "rawstd", "rawurl", "x", "", "STD"}

func directedCases(byKey map[string]int) []pcase {
	var cases []pcase
	add := func(key string, inputs []string, args ...[]string) {
		fi, ok := byKey[key]
		if !ok {
			// the function is not registered any more: report through BADOP
			cases = append(cases, pcase{fn: -1, toks: []string{key, "directed-function-missing"}})
			return
		}
		var rec func(toks []string, d int)
		rec = func(toks []string, d int) {
			if d == len(args) {
				cases = append(cases, pcase{fn: fi, toks: append([]string(nil), toks...)})
				return
			}
			for _, a := range args[d] {
				rec(append(toks, a), d+1)
			}
		}
		for _, in := range inputs {
			if strings.HasSuffix(in, "=") {
				continue
			}
			rec([]string{in}, 0)
		}
	}
	null := []string{"null"}
	add("from_hex/0", append(append([]string{}, hexStrings...), "bin:34316a/24/8", "bin:3431/16/8", "bin:a8/5/1", "dv:png_type=s:49484452", "n:41", "null", "A(s:3431)"))
	add("to_hex/0", bitReaderInputs)
	add("nal_unescape/0", append(append([]string{}, bitReaderInputs...), nalStrings...))
	add("_to_base64/1", bitReaderInputs, optTok("encoding", b64EncVals...))
	add("to_base64/1", bitReaderInputs[:24], optTok("encoding", b64EncVals...))
	add("to_base64/0", bitReaderInputs)
	add("_to_hash/1", bitReaderInputs, optTok("name", hashNameVals...))
	for _, h := range []string{"md4", "md5", "sha1", "sha256", "sha512", "sha3_224", "sha3_256", "sha3_384", "sha3_512"} {
		add("to_"+h+"/0", bitReaderInputs)
	}
	add("_to_strencoding/1", append(append([]string{}, encStrings...), "n:1", "null", "bin:fffe00/24/8", "dv:png_type=s:49484452"), optTok("encoding", encNameVals...))
	add("_from_strencoding/1", append(append([]string{}, bitReaderInputs...), encStrings...), optTok("encoding", encNameVals...))
	for _, e := range []string{"iso8859_1", "utf8", "utf16", "utf16le", "utf16be"} {
		add("to_"+e+"/0", append(append([]string{}, encStrings...), "n:1", "null", "bin:fffe00/24/8"))
		add("from_"+e+"/0", append(append([]string{}, bitReaderInputs...), encStrings...))
	}
	add("_query_fromstring/0", append(append([]string{}, queryStrings...), "n:1", "null", "bin:2e0a28/24/8", "dv:png_type=s:49484452"))
	for _, f := range []string{"from_urlencode/0", "from_urlpath/0", "from_urlquery/0", "to_urlencode/0", "to_urlpath/0", "from_xmlentities/0", "to_xmlentities/0"} {
		add(f, append(append([]string{}, urlStrings...), "n:1", "null", "bin:2541/16/8", "bin:a8/5/1", "dv:png_type=s:49484452", "A(s:2541)"))
	}
	urlObjs := []string{"O()", "null", "O(a=s:31)", "O(a=A(s:31;n:2;null;A();O()))", "O(a=n:1;b=null;c=true;d=f:1p-1;e=b:18446744073709551616)", "O(a=O(b=s:31))", "O(a=A())",
		"O(a=bin:fffe00/24/8)", "O(a=dv:png_len=b:13)", "O(a=dv:png=O())", "dv:png=O()", "dv:png_chunks=A()", "A()", "s:61", "n:1",
		"O(host=s:68;path=s:2f70;scheme=s:68747470)", "O(scheme=n:1;host=A();path=O();fragment=null)", "O(user=O(username=s:75;password=s:70))", "O(user=O(username=s:-;password=s:70))",
		"O(user=O(username=n:1))", "O(user=s:75)", "O(user=A())", "O(rawquery=s:613d31;query=O(b=A(s:32;s:33)))", "O(query=A())", "O(query=s:71)", "O(query=O(a=O()))", "O(rawquery=n:1)",
		"O(host=s:5b3a3a315d;path=s:2e2e2f2561)"}
	add("to_urlquery/0", urlObjs)
	add("to_url/0", urlObjs)
	add("_to_csv/1", csvInputs, optTok("comma", csvCommas...))
	add("to_csv/1", csvInputs, optTok("comma", csvCommas...))
	add("to_csv/0", csvInputs)
	add("_stdio_read/2", null, append(sts(fdNames...), "n:0", "null", "A()"), readLengths)
	add("_stdio_write/1", []string{"null", "s:616263", "n:1", "A(n:1)", "O()", "bin:fffe00/24/8", "dv:png_len=b:13"}, append(sts(fdNames...), "n:0", "null", "A()", "O()", "true"))
	add("_stdio_info/1", []string{"null", "s:616263"}, append(sts(fdNames...), "n:0", "null", "A()", "O()", "true"))
	return cases
}

// linecol: internal/pos.NewFromOffset (the line:column of a query parse error, query.go:18) driven
// directly: every string of queryStrings x every offset from -2 to len+2 and a few huge ones.
// Observation: `ok line column`, `panic`, or `hang` (no answer within 2 s).
func linecolOps(o *hlib.Out) {
	strs := append([]string{"a\nbc\nd", "\n", "\n\n", "ab", "a\n", "\na"}, func() []string {
		var out []string
		for _, t := range queryStrings {
			v, _ := parseTok(t, poolT{})
			out = append(out, v.(string))
		}
		return out
	}()...)
	for _, s := range strs {
		offs := []int{-9223372036854775808, -1000, 1000, 9223372036854775807}
		for i := -2; i <= len(s)+2; i++ {
			offs = append(offs, i)
		}
		for _, off := range offs {
			done := make(chan string, 1)
			go func() {
				obs, panicked := hlib.Catch(func() string {
					p := pos.NewFromOffset(s, off)
					return fmt.Sprintf("ok %d %d", p.Line, p.Column)
				})
				if panicked {
					obs = "panic"
				}
				done <- obs
			}()
			var obs string
			select {
			case obs = <-done:
			case <-time.After(2 * time.Second):
				obs = "hang"
			}
			op := fmt.Sprintf("linecol %s n:%d", st(s), off)
			o.Case(op, obs)
			o.Class(fmt.Sprintf("linecol nl=%d %s", strings.Count(s, "\n"), obs))
			o.Stat("direct_linecol_cases", 1)
		}
	}
}
