//go:build verif

package main

import (
	"fmt"
	"os"
	"sort"
	"strings"

	"github.com/wader/fq/internal/ansi"

	"github.com/wader/fq/internal/verifharness/hlib"
)

// witness cases that are always run first (the defects of DESIGN §1.8 #3, #4 and the
// boundary cases of the modelled functions), as explicit token lists: F/k IN ARGS…
var witnessCases = [][]string{
	{"bsl/2", "null", "n:1", "n:-1"},
	{"bsr/2", "null", "n:1", "n:-1"},
	{"bsl/2", "null", "n:1", "b:9223372036854775808"},
	{"bsl/2", "null", "n:1", "f:390625p8"},
	{"bsl/2", "null", "f:3p-1", "f:nan"},
	{"bsl/2", "null", "n:1", "n:63"},
	{"bsl/2", "null", "n:1", "n:64"},
	{"bsl/2", "null", "n:-1", "n:200"},
	{"bsl/2", "null", "n:1", "n:2147483647"},
	{"bsl/2", "null", "n:0", "n:2147483647"},
	{"bsl/2", "null", "b:18446744073709551616", "n:3"},
	{"bsr/2", "null", "b:18446744073709551616", "n:3"},
	{"bsr/2", "null", "n:-9223372036854775808", "n:70"},
	{"bsr/2", "null", "f:-3p-1", "f:1p-1"},
	{"band/2", "null", "n:-1", "b:18446744073709551616"},
	{"bor/2", "null", "b:-18446744073709551616", "n:5"},
	{"bxor/2", "null", "f:9007199254740991p971", "n:1"},
	{"bnot/0", "b:18446744073709551616"},
	{"bnot/0", "f:1p-1"},
	{"to_toml/1", "O(a=n:1)", "O(indent=n:-1)"},
	{"to_toml/1", "O(a=O(b=n:1))", "O(indent=n:1025)"},
	{"to_toml/1", "O(a=O(b=n:1))", "O(indent=n:1024)"},
	{"to_xml/1", "O(a=O(b=n:1))", "O(indent=n:-3)"},
	{"to_xml/1", "A(s:61;null;A(A(s:62)))", "O(indent=n:-3)"},
	{"to_xml/1", "O(a=O(b=n:1))", "O(indent=n:1000000000000)"},
	{"tojson/1", "O(a=A(A(n:1)))", "O(indent=n:1000000000000)"},
	{"tojson/1", "O(a=A(A(n:1)))", "O(indent=n:-1)"},
	{"tojson/1", "O(a=A(A(n:1)))", "O(indent=n:-4611686018427387905)"},
	{"tojson/1", "A(A(n:1))", "O(indent=n:-4611686018427387905)"},
	{"tojson/1", "O(a=A(A(n:1)))", "O(indent=n:1024)"},
	{"to_yaml/1", "O(a=A(A(n:1)))", "O(indent=n:-1)"},
	{"to_yaml/1", "O(a=A(A(n:1)))", "O(indent=n:1000000000000)"},
	{"_tobits/1", "s:616263", "O(unit=n:0)"},
	{"_tobits/1", "s:616263", "O(unit=n:8;pad_to_units=n:-1)"},
	{"_tobits/1", "s:616263", "O(unit=n:-8;pad_to_units=n:3)"},
	{"tobytes/1", "s:616263", "n:-1"},
	{"tobytes/1", "n:1", "b:18446744073709551616"},
	{"tobits/1", "s:616263", "f:nan"},
	{"to_radix/1", "n:255", "n:1"},
	{"to_radix/1", "n:255", "n:0"},
	{"to_radix/1", "n:255", "n:-1"},
	{"to_radix/1", "n:255", "n:2"},
	{"to_radix/1", "n:255", "n:64"},
	{"to_radix/1", "n:255", "n:65"},
	{"to_radix/1", "b:18446744073709551616", "n:16"},
	{"to_radix/1", "n:-255", "n:16"},
	{"from_radix/1", "s:7a7a", "n:1"},
	{"from_radix/1", "s:2d31", "n:10"},
	{"from_radix/1", "s:6666", "n:16"},
	{"from_radix/1", "s:6666", "n:-16"},
	{"from_radix/1", "s:6666", "b:18446744073709551616"},
	{"d/1", "bin:fffe00/24/8", "O(line_bytes=n:0)"},
	{"d/1", "dv:png=O()", "O(line_bytes=n:0)"},
	{"hexdump/1", "s:616263646566", "O(addrbase=n:99;line_bytes=n:-7;sizebase=n:1)"},
	{"d/1", "dv:png=O()", "O(display_bytes=n:1;line_bytes=n:2305843009213693952)"},
	{"dv/1", "bin:fffe00/24/8", "O(display_bytes=n:1;line_bytes=n:1000000)"},
	{"protobuf_widevine/0", "A(n:16;n:0)"},
	{"from_protobuf_widevine/0", "bin:1000/16/8"},
	{"to_xml/1", "O(=s:78)", "O(attribute_prefix=s:-)"},
	{"to_xml/1", "O(a=O(=s:78;@=s:79))", "O(attribute_prefix=s:-)"},
	{"to_xml/1", "O(a=O(@@b=s:78))", "O(attribute_prefix=s:4040)"},
	{"from_radix/1", "s:39", "n:2"},
	{"from_radix/1", "s:6666", "n:10"},
	{"from_radix/1", "s:-", "n:10"},
	{"to_radix/1", "n:0", "n:1"},
	{"to_radix/1", "n:5", "f:1p-1"},
	{"to_radix/1", "n:5", "null"},
	{"tovalue/1", "bin:fffe00/24/8", "O(bits_format=s:736e6970706574;sizebase=n:-1)"},
	{"tovalue/1", "bin:fffe00/24/8", "O(bits_format=s:736e6970706574;sizebase=n:37)"},
	{"tovalue/1", "dv:png=O()", "O(addrbase=n:0;bits_format=s:736e6970706574;sizebase=n:0)"},
	{"tojson/1", "dv:png_sig=s:efbfbd504e470d0a1a0a", "O(bits_format=s:736e6970706574;sizebase=n:1)"},
	{"_tovalue/1", "bin:fffe00/24/8", "O(bits_format=s:736e6970706574;sizebase=n:9223372036854775807)"},
	{"hexdump/1", "bin:414263646566/48/8", "O(byte_colors=A(O(ranges=A(A(n:0;n:255));value=s:6267627269676874726564));color=true;line_bytes=n:2)"},
	{"_stdio_read/2", "null", "s:737464696e", "n:0"},
	{"_stdio_read/2", "null", "s:737464696e", "n:16"},
	{"_stdio_read/2", "null", "s:737464696e", "n:-1"},
	{"_stdio_read/2", "null", "s:737464696e", "n:9223372036854775807"},
	{"_stdio_read/2", "null", "s:737464696e", "f:390625p8"},
	{"_stdio_read/2", "null", "s:7374646f7574", "n:-1"},
	{"_stdio_info/1", "null", "s:737464696e"},
	{"_stdio_write/1", "s:616263", "s:7374646f7574"},
	{"intdiv/2", "null", "n:7", "n:0"},
	{"intdiv/2", "null", "n:7", "n:-1"},
	{"intdiv/2", "null", "n:-7", "n:2"},
	{"@index/1", "bin:fffe00/24/8", "n:9223372036854775807"},
	{"@index/1", "bin:a8/5/1", "n:-6"},
	{"@slice/2", "bin:fffe00/24/8", "n:-9223372036854775808", "b:18446744073709551616"},
	{"@slice/2", "bin:a8/5/1", "n:4", "n:2"},
}

// ---- option objects that combine two members -------------------------------------------------
//
// every bits_format x every numeric display option x boundary values: the pool's option objects
// each probe one concern; a fault that needs two cooperating members (the bits format renderer
// using an option that another statement clamps) needs the product.

var bitsFormats = []string{"string", "md5", "hex", "base64", "truncate", "snippet", "byte_array"}
var optMembers = []string{"addrbase", "array_truncate", "depth", "display_bytes", "line_bytes", "sizebase", "string_truncate"}
var optMemberValues = []string{"n:-1", "n:0", "n:1", "n:16", "n:37", "n:9223372036854775807", "n:-9223372036854775808", "b:9223372036854775808", "f:nan"}

func comboOptionTokens() []string {
	var ts []string
	for _, bf := range bitsFormats {
		for _, m := range optMembers {
			for _, v := range optMemberValues {
				// keys sorted: every member except "addrbase", "array_truncate" sorts after "bits_format"
				kv := []string{"bits_format=s:" + hexOrDash([]byte(bf)), m + "=" + v}
				if m < "bits_format" {
					kv[0], kv[1] = kv[1], kv[0]
				}
				ts = append(ts, "O("+strings.Join(kv, ";")+")")
			}
		}
	}
	return ts
}

// truncation limits around the sizes of the multi-byte strings / arrays of the cbor decode value
var truncMembers = []string{"array_truncate", "depth", "string_truncate"}
var truncValues = []string{"n:0", "n:1", "n:2", "n:12", "n:13", "n:16", "n:17", "n:29", "n:30", "n:31", "n:49", "n:50", "n:51", "n:52", "n:60", "n:2147483648"}

func truncOptionTokens() []string {
	var ts []string
	for _, m := range truncMembers {
		for _, v := range truncValues {
			ts = append(ts, "O("+m+"="+v+")")
		}
	}
	ts = append(ts, "O(color=true)", "O(color=true;verbose=true)", "O(color=true;unicode=true)", "O(color=true;depth=n:1)",
		"O(color=true;raw_string=true)", "O(color=true;colors=O())", "O(color=true;colors=O(number=s:726564;string=n:1))")
	// both truncations at once
	for _, v := range []string{"n:1", "n:30", "n:50"} {
		for _, w := range []string{"n:1", "n:17", "n:50", "n:51"} {
			ts = append(ts, "O(array_truncate="+v+";string_truncate="+w+")")
		}
	}
	return ts
}

// the functions that show a decode value as a tree (previewValue / dump.go)
var displayFns = map[string]bool{
	"display/1": true, "display_implicit/1": true, "d/1": true, "da/1": true, "dd/1": true, "dv/1": true, "ddv/1": true,
	"_display/1": true, "hexdump/1": true, "hd/1": true, "tovalue/1": true,
}
var truncInputs = []string{"dv:cbor=O()", "dv:cbor_arr51=O()"}

// ---- the colour / line geometry dimension of the dump options -----------------------------------
//
// color on, line_bytes around the powers of two, byte_colors with every colour name fq knows
// (taken from ansi.StringToCode at run time), compound `a+b` names of growing length, unknown
// names and partial / empty / reversed / out-of-byte ranges — crossed with binaries whose size
// sits around the line boundaries. The formatted length of a byte in the dump's hex and ascii
// columns is a function of exactly these members.

func strTok(s string) string { return "s:" + hexOrDash([]byte(s)) }

func byteColorsTok(entries ...[2]string) string {
	// entry = {ranges token, value}
	es := make([]string, len(entries))
	for i, e := range entries {
		es[i] = "O(ranges=" + e[0] + ";value=" + strTok(e[1]) + ")"
	}
	return "A(" + strings.Join(es, ";") + ")"
}

const allBytes = "A(A(n:0;n:255))"

func byteColorShapes() []string {
	names := make([]string, 0, len(ansi.StringToCode))
	for n := range ansi.StringToCode {
		names = append(names, n)
	}
	sort.Strings(names)
	var shapes []string
	for _, n := range names {
		shapes = append(shapes, byteColorsTok([2]string{allBytes, n}))
	}
	for _, v := range []string{"red+underline", "bgbrightred+bold", "bold+italic+underline+inverse", "bgbrightwhite+brightwhite",
		strings.Repeat("bgbrightred+", 8) + "bold", strings.Repeat("bgbrightred+", 39) + "bgbrightred", "unknown", "", "red+unknown+bold"} {
		shapes = append(shapes, byteColorsTok([2]string{allBytes, v}))
	}
	shapes = append(shapes,
		byteColorsTok([2]string{allBytes, "red"}, [2]string{"A(A(n:65;n:66))", "bgbrightred"}),
		byteColorsTok([2]string{allBytes, "red"}, [2]string{"A(A(n:65;n:65))", "bgbrightred"}, [2]string{"A(A(n:99;n:99))", "bgbrightblue"}),
		byteColorsTok([2]string{"A(A(n:0;n:127))", "bgbrightblue"}),
		byteColorsTok([2]string{"A(A(n:97;n:97);A(n:99;n:101))", "bgbrightwhite+underline"}),
		byteColorsTok([2]string{"A()", "red"}),
		byteColorsTok([2]string{"A(A(n:255;n:0))", "red"}),
		byteColorsTok([2]string{"A(A(n:-1;n:300))", "bggreen"}),
		byteColorsTok([2]string{"A(A(n:0;n:9223372036854775807))", "red"}),
		byteColorsTok([2]string{"A(A(n:-9223372036854775808;n:66))", "bgbrightred"}),
		"A()", "n:1", strTok("0-255=bgbrightred"),
	)
	return shapes
}

var dumpLineBytes = []int{1, 2, 3, 7, 8, 15, 16, 17, 31, 32, 33, 63, 64}

// extra members, one of which is added to a colour object in the thorough tier
var dumpExtraMembers = []string{"display_bytes=n:0", "display_bytes=n:1", "display_bytes=n:17", "addrbase=n:2", "addrbase=n:36",
	"sizebase=n:2", "sizebase=n:16", "unicode=true", "raw_string=true", "depth=n:1", "array_truncate=n:1", "string_truncate=n:1",
	"verbose=true", "bits_format=s:736e6970706574", "color=false", "width=n:40"}

func objTok(members ...string) string {
	sort.Strings(members)
	return "O(" + strings.Join(members, ";") + ")"
}

// dumpBinaryTok: n bytes "ABcdefgh…" as a byte binary (the partial ranges above pick out A, B, a, c, d, e)
func dumpBinaryTok(n int) string {
	b := make([]byte, n)
	for i := range b {
		switch {
		case i < 2:
			b[i] = byte('A' + i)
		default:
			b[i] = byte('a' + (i % 26))
		}
	}
	return fmt.Sprintf("bin:%s/%d/8", hexOrDash(b), n*8)
}

var dumpFnsQuick = map[string]bool{"hexdump/1": true, "d/1": true}

// functions that take display / format options as their only argument
var optionFns = map[string]bool{
	"tovalue/1": true, "toactual/1": true, "tosym/1": true, "display/1": true, "display_implicit/1": true,
	"d/1": true, "da/1": true, "dd/1": true, "dv/1": true, "ddv/1": true, "hexdump/1": true, "hd/1": true,
	"tojson/1": true, "to_jq/1": true, "to_toml/1": true, "to_yaml/1": true, "to_csv/1": true, "to_xml/1": true,
	"_tovalue/1": true, "_display/1": true, "_hexdump/1": true, "_print_color_json/1": true, "_to_json/1": true,
	"options/1": true,
}

// inputs that reach the bits format renderer / the dump code
var optionInputs = []string{"bin:fffe00/24/8", "bin:a8/5/1", "dv:png_sig=s:efbfbd504e470d0a1a0a", "dv:png=O()", "dv:cbor=O()"}

// ---- second order: results of fq functions as inputs of the generic jq value methods ----------
//
// producers return fq's special values (open-file value, binaries with pad / range / odd unit,
// decode values of every kind, the registry, options, …); consumers are the methods every jq
// value must answer (gojq calls JQValueLength / Index / Slice / Keys / Has / Each / ToGoJQ …).

var soProducers = []string{
	`"test.png"|open`, `"test.png"|open|tobytesrange`, `"test.png"|open|decode`, `"nofile"|open`,
	`"abc"|tobytes`, `"abc"|tobits`, `"abc"|tobytes(5)`, `"abc"|tobits(-3)`, `1|tobits(13)`, `"abc"|tobytesrange`, `"abc"|tobitsrange`,
	`"abcdef"|tobytes[1:3]`, `"abcdef"|tobits[3:7]`, `"abcdef"|tobytes[2:2]`, `[1,2,"a",[3]]|tobytes`, `0|tobytes`, `""|tobytes`,
	`"abc"|tobytes|.bits`, `"abc"|tobits|.bytes`, `"test.png"|open|.[0:4]`,
	`"test.png"|open|decode|.chunks`, `"test.png"|open|decode|.chunks[0]`, `"test.png"|open|decode|.signature`,
	`"test.png"|open|decode|.chunks[0].length`, `"test.png"|open|decode|.chunks[0].type`, `"test.png"|open|decode|.chunks[0].crc`,
	`"test.png"|open|decode|.chunks[1].data`, `"test.png"|open|decode|tobytesrange`, `"test.png"|open|decode|._error`,
	`"abc"|tobytes|decode("png")`, `"abc"|tobytes|decode("png")|._error`, `[255]|tobytes|cbor`, `[27,255,255,255,255,255,255,255,255]|tobytes|cbor|.value`,
	`[194,73,1,0,0,0,0,0,0,0,0]|tobytes|cbor|.value`, `[59,255,255,255,255,255,255,255,255]|tobytes|cbor|.value`, `[251,127,248,0,0,0,0,0,0]|tobytes|cbor|.value`,
	`"{}"|json`, `"[1,{}]"|json`, `"null"|json`, `_registry`, `_registry.formats.png`, `formats`, `options`, `options({depth:-1})`, `input_filename`, `history`,
	`stdin_tty`, `stdout_tty`, `_global_state`, `".a[0]"|_query_fromstring`, `"1+"|try _query_fromstring catch .`, `"abc"|tobytes|tovalue`, `"abc"|tobytes|tojson`,
	`"abc"|tobytes|match("b")`, `"abc"|tobytes|[splits("b")]`, `"test.png"|open|decode|[paths]|.[3]`, `"test.png"|open|decode|[grep_by(format)]`,
	`"test.png"|open|decode|root`, `"test.png"|open|decode|.chunks[0]|parent`, `"test.png"|open|decode|.chunks[0].type|topath`,
	`"test.png"|open|decode|torepr`, `"a,b\n1,2"|csv`, `"<a b=\"1\">c</a>"|xml`, `"a: [1]"|yaml`, `"test.png"|open|decode|to_entries`,
}

var soCore = map[string]bool{"length": true, ".[0]": true, ".[-1]": true, ".[0:1]": true, ".[1:]": true, "keys": true, "has(0)": true,
	"has(\"a\")": true, "tostring": true, "tojson": true, "type": true, ".[]": true, ".==.": true, ".+.": true, "test(\"a\")": true, "d": true, "display({color:true})": true}

var soConsumers = []string{
	`length`, `.[0]`, `.[-1]`, `.[1000000000000]`, `.[0:1]`, `.[1:]`, `.[:-1]`, `.[2:1]`, `.[null:null]`, `.[0.5:1.5]`, `keys`, `has(0)`, `has("a")`, `has(null)`,
	`tostring`, `tojson`, `tonumber`, `type`, `.[]`, `.[]?`, `..`, `.==.`, `.<.`, `.+.`, `.+1`, `.+""`, `.+[]`, `.+{}`, `.-.`, `.*2`, `./.`, `.%3`, `test("a")`, `test(.)`,
	`to_entries`, `map(.)`, `map_values(.)`, `add`, `any`, `sort`, `unique`, `reverse`, `first`, `last`, `min`, `group_by(.)`, `flatten`, `join(",")`, `.a`, `.size`, `._format`, `.["x"]`,
	`explode`, `implode`, `ltrimstr("a")`, `ascii_downcase`, `@base64`, `@json`, `@text`, `@uri`, `tovalue`, `toactual`, `not`, `select(.)`, `[paths]`, `getpath(["a",0])`, `path(..)`,
	`index("a")`, `indices(.)`, `contains(.)`, `inside(.)`, `splits("a")`, `sub("a";"b")`, `isempty(.)`, `env`, `tojson|fromjson`, `[.]|tobytes`, `{a:.}|tojson`,
	`d`, `dv`, `hexdump`, `tobytes`, `tobits`, `tobytesrange`, `format`, `topath`, `root`, `parent`, `torepr`, `display({color:true})`, `delpaths([[0]])`, `setpath([0];1)`, `.[0]=1`, `del(.[0])`,
	`to_hex`, `to_base64`, `to_md5`, `from_hex`, `bnot`, `band(.;1)`, `to_radix(2)`, `splits(.)`, `ltrimstr(.)`, `startswith(.)`, `tostream`, `getpath([])`, `limit(1;.[])`, `@sh`, `min_by(.)`,
}

// generate: quick = a seeded sample per function, thorough = exhaustive for arity <= 2
// (arity >= 3 pairwise covering), over all pool values in every position.
func generate(fns []fnInfo, p poolT, cfg hlib.Config, rnd *hlib.Rand) []pcase {
	var cases []pcase
	byKey := map[string]int{}
	for i, f := range fns {
		byKey[f.key()] = i
	}
	for _, w := range witnessCases {
		if fi, ok := byKey[w[0]]; ok {
			cases = append(cases, pcase{fn: fi, toks: w[1:]})
		} else {
			// the witness names a function that is not registered any more: report through BADOP
			cases = append(cases, pcase{fn: -1, toks: w})
		}
	}
	cases = append(cases, directedCases(byKey)...)
	cases = append(cases, wrapCases(byKey)...)
	P := len(p.vals)
	// pool subsets for the syntax ops: binaries as input, numbers as arguments
	var bins, nums []int
	for i, pv := range p.vals {
		switch {
		case strings.HasPrefix(pv.tok, "bin:"), strings.HasPrefix(pv.tok, "dv:png_sig"):
			bins = append(bins, i)
		case strings.HasPrefix(pv.tok, "n:"), strings.HasPrefix(pv.tok, "b:"), strings.HasPrefix(pv.tok, "f:"), pv.tok == "null":
			nums = append(nums, i)
		}
	}
	only := os.Getenv("VERIF_C13_ONLY") // developer option: restrict the generated cases to one function key
	combos := comboOptionTokens()
	for fi, f := range fns {
		if _, skip := skipFns[f.key()]; skip {
			continue
		}
		if only != "" && f.key() != only {
			continue
		}
		if displayFns[f.key()] && (cfg.Thorough() || dumpFnsQuick[f.key()]) {
			// colour x line geometry: quick = hexdump and d, every (line_bytes, byte_colors) pair on a
			// binary of two lines and one byte; thorough = every tree / dump function, five sizes
			// around the line boundaries, plus one more option member
			shapes := byteColorShapes()
			for _, lb := range dumpLineBytes {
				sizes := []int{2*lb + 1}
				if cfg.Thorough() {
					sizes = []int{lb, lb + 1, 2 * lb, 2*lb + 1, 3*lb + 1}
				}
				for si, sh := range shapes {
					for zi, n := range sizes {
						members := []string{"byte_colors=" + sh, "color=true", fmt.Sprintf("line_bytes=n:%d", lb)}
						if cfg.Thorough() && (si+zi)%2 == 1 {
							members = append(members, dumpExtraMembers[rnd.Intn(len(dumpExtraMembers))])
						}
						cases = append(cases, pcase{fn: fi, toks: []string{dumpBinaryTok(n), objTok(members...)}})
					}
				}
			}
			// decode values as well (tree + hex columns; the cbor one holds every scalar kind incl.
			// numbers beyond int64, which the value colouring must know)
			for _, dvTok := range []string{"dv:png=O()", "dv:cbor=O()"} {
				if _, ok := p.byTok(dvTok); !ok {
					continue
				}
				for _, lb := range []int{1, 2, 16, 17} {
					for _, sh := range shapes {
						if dvTok != "dv:png=O()" && !cfg.Thorough() && rnd.Intn(6) != 0 {
							continue
						}
						cases = append(cases, pcase{fn: fi, toks: []string{dvTok,
							objTok("byte_colors="+sh, "color=true", fmt.Sprintf("line_bytes=n:%d", lb))}})
					}
				}
			}
		}
		if displayFns[f.key()] {
			// every truncation limit on the decode values with multi-byte strings: both tiers
			for _, in := range truncInputs {
				if _, ok := p.byTok(in); !ok {
					cases = append(cases, pcase{fn: -1, toks: []string{f.key(), in, "pool-value-missing"}})
					continue
				}
				for _, ot := range truncOptionTokens() {
					cases = append(cases, pcase{fn: fi, toks: []string{in, ot}})
				}
			}
		}
		if optionFns[f.key()] {
			// thorough: every combined option object on every renderer-reaching input;
			// quick: a seeded tenth of them
			for _, in := range optionInputs {
				if _, ok := p.byTok(in); !ok {
					cases = append(cases, pcase{fn: -1, toks: []string{f.key(), in, "pool-value-missing"}})
					continue
				}
				for _, ot := range combos {
					if !cfg.Thorough() && rnd.Intn(10) != 0 {
						continue
					}
					cases = append(cases, pcase{fn: fi, toks: []string{in, ot}})
				}
			}
		}
		k := f.arity + 1
		if f.key() == "@so/1" {
			// quick: the dozen methods every value must answer for every producer, a seeded third of the rest
			for _, pr := range soProducers {
				for ci, co := range soConsumers {
					if !cfg.Thorough() && !soCore[co] && rnd.Intn(3) != 0 {
						_ = ci
						continue
					}
					cases = append(cases, pcase{fn: fi, toks: []string{"x:" + pr, "x:" + co}})
				}
			}
			continue
		}
		if f.src == "direct" {
			// @bytecolor: every pair of boundary range ends, one and two entries, on four bytes
			ends := []string{"n:-9223372036854775808", "n:-1", "n:0", "n:1", "n:65", "n:255", "n:256", "n:300", "n:9223372036854775807"}
			bytes4 := []string{"n:0", "n:44", "n:65", "n:255"}
			for _, lo := range ends {
				for _, hi := range ends {
					r := "A(A(" + lo + ";" + hi + "))"
					one := byteColorsTok([2]string{r, "red"})
					two := byteColorsTok([2]string{allBytes, "bold"}, [2]string{r, "bgbrightred"})
					for _, b := range bytes4 {
						cases = append(cases, pcase{fn: fi, toks: []string{one, b}}, pcase{fn: fi, toks: []string{two, b}})
					}
				}
			}
			cases = append(cases, pcase{fn: fi, toks: []string{"A()", "n:7"}}, pcase{fn: fi, toks: []string{byteColorsTok([2]string{"A()", "red"}), "n:7"}},
				pcase{fn: fi, toks: []string{byteColorsTok([2]string{"A(A(n:0;n:10);A(n:200;n:255))", "red"}), "n:7"}},
				pcase{fn: fi, toks: []string{byteColorsTok([2]string{"A(A(n:0;n:10);A(n:200;n:255))", "red"}), "n:100"}})
			continue
		}
		if f.src == "syntax" {
			var rec func(pos []int)
			rec = func(pos []int) {
				if len(pos) == k {
					cases = append(cases, pcase{fn: fi, pos: append([]int(nil), pos...)})
					return
				}
				for _, n := range nums {
					rec(append(pos, n))
				}
			}
			for _, b := range bins {
				rec([]int{b})
			}
			continue
		}
		isFormat := strings.HasPrefix(f.src, "jq:format_decode")
		budget := 0 // 0 = exhaustive
		switch {
		case cfg.Thorough():
			switch {
			case isFormat && k == 2:
				budget = 400 // ~500 generated decode functions share one implementation (decode/2)
			case k <= 3 && !isFormat:
				budget = 0
			case k <= 2:
				budget = 0
			}
		default:
			switch {
			case modelledFns[f.key()]:
				budget = 1200
			case isFormat && k == 1:
				budget = 12
			case isFormat:
				budget = 10
			case k == 1:
				budget = 0
			case k == 2:
				budget = 150
			default:
				budget = 200
			}
		}
		total := 1
		for i := 0; i < k; i++ {
			total *= P
			if total > 1<<30 {
				break
			}
		}
		switch {
		case k >= 4 || (budget == 0 && k > 3):
			// pairwise covering: every pair of positions sees every pair of values
			n := 0
			for a := 0; a < k; a++ {
				for b := a + 1; b < k; b++ {
					for va := 0; va < P; va++ {
						for vb := 0; vb < P; vb++ {
							if !cfg.Thorough() && rnd.Intn(P*P*k*(k-1)/2) >= 300 {
								continue
							}
							pos := make([]int, k)
							for i := range pos {
								pos[i] = rnd.Intn(P)
							}
							pos[a], pos[b] = va, vb
							cases = append(cases, pcase{fn: fi, pos: pos})
							n++
						}
					}
				}
			}
		case cfg.Thorough() && k == 3 && budget == 0:
			// arity 2: exhaustive over the core pool in all three positions …
			var core []int
			for i, pv := range p.vals {
				if pv.core {
					core = append(core, i)
				}
			}
			for _, a := range core {
				for _, b := range core {
					for _, c := range core {
						cases = append(cases, pcase{fn: fi, pos: []int{a, b, c}})
					}
				}
			}
			// … and every pair of values of the whole pool in every pair of positions
			for a := 0; a < k; a++ {
				for b := a + 1; b < k; b++ {
					for va := 0; va < P; va++ {
						for vb := 0; vb < P; vb++ {
							if p.vals[va].core && p.vals[vb].core {
								continue
							}
							pos := []int{core[rnd.Intn(len(core))], core[rnd.Intn(len(core))], core[rnd.Intn(len(core))]}
							pos[a], pos[b] = va, vb
							cases = append(cases, pcase{fn: fi, pos: pos})
						}
					}
				}
			}
		case budget == 0 || budget >= total:
			pos := make([]int, k)
			var rec func(d int)
			rec = func(d int) {
				if d == k {
					cases = append(cases, pcase{fn: fi, pos: append([]int(nil), pos...)})
					return
				}
				for v := 0; v < P; v++ {
					pos[d] = v
					rec(d + 1)
				}
			}
			rec(0)
		default:
			for n := 0; n < budget; n++ {
				pos := make([]int, k)
				for i := range pos {
					pos[i] = rnd.Intn(P)
				}
				cases = append(cases, pcase{fn: fi, pos: pos})
			}
		}
	}
	return cases
}
