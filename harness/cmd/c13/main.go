//go:build verif

// C13 harness: every function fq adds to jq is total over jq values.
//
// parent:  enumerates the function registry AT RUN TIME (Go: interp.DefaultRegistry.EnvFuncFns,
//          jq: the top-level defs of every source the interpreter has loaded, including the
//          generated per-format includes), generates (function, input, args) cases over a pool of
//          boundary values, has them evaluated by worker sub-processes (crash isolation) and
//          writes `call F/k IN A0 … TAB class` lines for the Lean driver (Drv/C13.lean).
// worker:  `-worker IN OUT` evaluates `IN | try F(ARGS) catch .` inside the real interpreter
//          on a virtual OS (worker.go).
//
// classes: ok N [V] | err | halt | panic:<frame> | panic@force:<frame> | crash:<frame> |
//          resource:timeout | resource:hang | resource:mem
package main

import (
	"bufio"
	"bytes"
	"context"
	"fmt"
	"math/big"
	"os"
	"os/exec"
	"path/filepath"
	"runtime"
	"sort"
	"strconv"
	"strings"
	"sync"
	"time"

	"github.com/wader/fq/internal/asciiwriter"
	"github.com/wader/fq/internal/gojqx"
	"github.com/wader/fq/internal/hexpairwriter"
	"github.com/wader/fq/internal/mapstruct"
	"github.com/wader/fq/internal/verifharness/hlib"
	"github.com/wader/fq/pkg/interp"
	"github.com/wader/gojq"
)

// ---- registry enumeration ----------------------------------------------------------------

type fnInfo struct {
	name  string
	arity int
	src   string // "go" or the jq file that defines it (last definition wins)
	iter  bool
}

func (f fnInfo) key() string { return f.name + "/" + strconv.Itoa(f.arity) }

// functions whose exact class (and value) the Lean driver predicts (FqModel/Total.lean);
// must agree with `modelled` in Drv/C13.lean (a mismatch shows as BADOP / DIVERGE).
var modelledFns = map[string]bool{
	"bnot/0": true, "bsl/2": true, "bsr/2": true, "band/2": true, "bor/2": true, "bxor/2": true,
	"to_radix/1": true, "from_radix/1": true,
	"_tobits/1": true, "tobits/1": true, "tobytes/1": true,
	"_to_toml/1": true, "to_toml/1": true, "to_xml/1": true, "_to_json/1": true, "tojson/1": true,
	"_to_yaml/1": true, "to_yaml/1": true,
	"intdiv/2": true,
	"@index/1": true, "@slice/2": true, "@bytecolor/1": true,
	// second batch (FqModel/Total2.lean, `modelled2` in Drv/C13.lean)
	"from_hex/0": true, "to_hex/0": true, "_to_base64/1": true, "to_base64/0": true, "to_base64/1": true,
	"_to_hash/1": true, "_to_strencoding/1": true, "_from_strencoding/1": true, "nal_unescape/0": true,
	"_query_fromstring/0": true, "from_urlencode/0": true, "from_urlpath/0": true, "from_urlquery/0": true,
	"to_urlquery/0": true, "to_url/0": true, "to_urlencode/0": true, "to_urlpath/0": true,
	"from_xmlentities/0": true, "to_xmlentities/0": true,
	"_to_csv/1": true, "to_csv/0": true, "to_csv/1": true,
	"_stdio_read/2": true, "_stdio_write/1": true, "_stdio_info/1": true,
	"to_md4/0": true, "to_md5/0": true, "to_sha1/0": true, "to_sha256/0": true, "to_sha512/0": true,
	"to_sha3_224/0": true, "to_sha3_256/0": true, "to_sha3_384/0": true, "to_sha3_512/0": true,
	"to_iso8859_1/0": true, "to_utf8/0": true, "to_utf16/0": true, "to_utf16le/0": true, "to_utf16be/0": true,
	"from_iso8859_1/0": true, "from_utf8/0": true, "from_utf16/0": true, "from_utf16le/0": true, "from_utf16be/0": true,
}

// functions that cannot be run meaningfully even on the virtual OS (none crash; they are
// listed with the reason and counted in #stat skipped_functions)
var skipFns = map[string]string{}

func enumerate(ev *evaluator) []fnInfo {
	seen := map[string]int{}
	var fns []fnInfo
	add := func(f fnInfo) {
		if i, ok := seen[f.key()]; ok {
			fns[i] = f
			return
		}
		seen[f.key()] = len(fns)
		fns = append(fns, f)
	}
	// jq sources: load everything (the init include chain), then read the include cache
	ev.evalValues(nil, ".")
	cache := interp.VerifC13IncludeCache(ev.q)
	files := make([]string, 0, len(cache))
	for fn := range cache {
		files = append(files, fn)
	}
	sort.Strings(files)
	for _, file := range files {
		for _, fd := range cache[file].FuncDefs {
			if strings.HasPrefix(fd.Name, "_") {
				continue
			}
			add(fnInfo{name: fd.Name, arity: len(fd.Args), src: "jq:" + strings.TrimPrefix(file, "@builtin/")})
		}
	}
	// Go registry: every RegisterFunc*/RegisterIter* (names with _ included)
	for _, efn := range interp.DefaultRegistry.EnvFuncFns {
		f := efn(ev.q)
		for a := f.MinArity; a <= f.MaxArity; a++ {
			add(fnInfo{name: f.Name, arity: a, src: "go", iter: f.IterFn != nil})
		}
	}
	sort.Slice(fns, func(i, j int) bool {
		if fns[i].name != fns[j].name {
			return fns[i].name < fns[j].name
		}
		return fns[i].arity < fns[j].arity
	})
	return fns
}

// ---- cases -------------------------------------------------------------------------------

type pcase struct {
	fn   int   // index into fns
	pos  []int // pool indices: input, args…  (nil when toks is set)
	toks []string
	obs  string
}

func (c pcase) tokens(p poolT) []string {
	if c.toks != nil {
		return c.toks
	}
	ts := make([]string, len(c.pos))
	for i, ix := range c.pos {
		ts[i] = p.vals[ix].tok
	}
	return ts
}

func typeWord(tok string) string {
	switch {
	case tok == "null", tok == "true", tok == "false":
		return tok
	case strings.HasPrefix(tok, "O(indent"), strings.HasPrefix(tok, "O(unit"), strings.HasPrefix(tok, "O(line_bytes"), strings.HasPrefix(tok, "O(comma"),
		strings.HasPrefix(tok, "O(display_bytes"), strings.HasPrefix(tok, "O(addrbase"), strings.HasPrefix(tok, "O(attribute_prefix"), strings.HasPrefix(tok, "O(keep_range"),
		strings.HasPrefix(tok, "O(bits_format"), strings.HasPrefix(tok, "O(byte_colors"), strings.HasPrefix(tok, "O(array_truncate"),
		strings.HasPrefix(tok, "O(string_truncate"), strings.HasPrefix(tok, "O(depth"):
		return "opts"
	}
	if i := strings.IndexAny(tok, ":("); i > 0 {
		return tok[:i]
	}
	return tok
}

// ---- worker management -------------------------------------------------------------------

type runner struct {
	self    string
	workDir string
	timeout time.Duration
	memMB   int
	mu      sync.Mutex
	nChunk  int
	stats   map[string]int

	hangCount map[string]int
	slow      map[string]bool // learnt by the workers: fn \x00 pos \x00 token
}

func hangKeys(fns []fnInfo, p poolT, c pcase) []string {
	f := fns[c.fn]
	toks := c.tokens(p)
	ks := make([]string, 0, len(toks))
	for i, t := range toks {
		// only composite / large values are taken for the cause of a hang
		if strings.HasPrefix(t, "O(") || strings.HasPrefix(t, "A(") || strings.HasPrefix(t, "S:") ||
			strings.HasPrefix(t, "dv:") || strings.HasPrefix(t, "bin:") {
			ks = append(ks, f.key()+"\x00"+strconv.Itoa(i)+"\x00"+t)
		}
	}
	return ks
}

func (r *runner) noteHang(fns []fnInfo, p poolT, cases []pcase, id int) {
	r.mu.Lock()
	for _, k := range hangKeys(fns, p, cases[id]) {
		r.hangCount[k]++
	}
	r.mu.Unlock()
}

func (r *runner) hangs(fns []fnInfo, p poolT, cases []pcase, id int) bool {
	r.mu.Lock()
	defer r.mu.Unlock()
	f := fns[cases[id].fn]
	for i, t := range cases[id].tokens(p) {
		if r.slow[f.key()+"\x00"+strconv.Itoa(i)+"\x00"+t] {
			return true
		}
	}
	for _, k := range hangKeys(fns, p, cases[id]) {
		if r.hangCount[k] >= 2 {
			return true
		}
	}
	return false
}

func (r *runner) stat(k string, n int) {
	r.mu.Lock()
	r.stats[k] += n
	r.mu.Unlock()
}

// runChunk evaluates cases[ids] in worker processes until every id has an observation.
func (r *runner) runChunk(fns []fnInfo, p poolT, cases []pcase, ids []int) {
	todo := ids
	for len(todo) > 0 {
		// combinations that made this function hang twice already are not evaluated again
		// (each hang costs the grace period and a worker): `resource:skipped`
		var keep []int
		for _, id := range todo {
			if r.hangs(fns, p, cases, id) {
				cases[id].obs = "resource:skipped"
			} else {
				keep = append(keep, id)
			}
		}
		todo = keep
		if len(todo) == 0 {
			return
		}
		done, crashInfo := r.spawn(fns, p, cases, todo, false)
		var rest []int
		for _, id := range todo {
			if obs, ok := done[id]; ok {
				cases[id].obs = obs
				if obs == "resource:hang" || obs == "resource:mem" {
					r.noteHang(fns, p, cases, id)
				}
			} else {
				rest = append(rest, id)
			}
		}
		if len(rest) == 0 {
			return
		}
		r.stat("worker_restarts", 1)
		if crashInfo == "orderly" {
			// the worker gave the running case its class (resource:hang / resource:mem) and left
			todo = rest
			continue
		}
		// the worker died: the first case without a result was running. Re-run it alone.
		r.stat("worker_deaths", 1)
		culprit := rest[0]
		solo, info2 := r.spawn(fns, p, cases, []int{culprit}, true)
		if obs, ok := solo[culprit]; ok && (obs == crashInfo || (strings.HasPrefix(obs, "resource:") && strings.HasPrefix(crashInfo, "resource:"))) {
			// same class alone (the worker classified it itself this time)
			cases[culprit].obs = obs
		} else if ok {
			// it does not die alone: a crash that needs the batch's history. Reported as a
			// crash (the driver flags it) with the solo observation appended.
			cases[culprit].obs = crashInfo + " @batch-only solo=" + strings.ReplaceAll(obs, " ", "_")
			r.stat("batch_only_crash", 1)
		} else {
			cases[culprit].obs = info2
		}
		todo = rest[1:]
	}
}

// spawn runs one worker on ids; returns the observations it wrote and, if it died, the class
// of the death (from its stderr).
func (r *runner) spawn(fns []fnInfo, p poolT, cases []pcase, ids []int, solo bool) (map[int]string, string) {
	r.mu.Lock()
	r.nChunk++
	n := r.nChunk
	r.mu.Unlock()
	in := filepath.Join(r.workDir, fmt.Sprintf("w%06d.in", n))
	out := filepath.Join(r.workDir, fmt.Sprintf("w%06d.out", n))
	var b bytes.Buffer
	r.mu.Lock()
	for k := range r.slow {
		ps := strings.Split(k, "\x00")
		fmt.Fprintf(&b, "#slow\t%s\t%s\t%s\n", ps[0], ps[1], ps[2])
	}
	r.mu.Unlock()
	for _, id := range ids {
		c := cases[id]
		f := fns[c.fn]
		val := "0"
		if modelledFns[f.key()] {
			val = "1"
		}
		fmt.Fprintf(&b, "%d\t%s\t%d\t%s\t%s\n", id, f.name, f.arity, val, strings.Join(c.tokens(p), "\t"))
	}
	if err := os.WriteFile(in, b.Bytes(), 0o644); err != nil {
		panic(err)
	}
	// backstop: the worker enforces the per-case timeout itself
	budget := time.Duration(len(ids))*r.timeout + 120*time.Second
	if budget > 40*time.Minute {
		budget = 40 * time.Minute
	}
	ctx, cancel := context.WithTimeout(context.Background(), budget)
	defer cancel()
	cmd := exec.CommandContext(ctx, r.self, "-worker", in, out,
		"-case-timeout", r.timeout.String(), "-mem-mb", strconv.Itoa(r.memMB))
	cmd.Env = append(os.Environ(), fmt.Sprintf("GOMEMLIMIT=%dMiB", r.memMB*3/4), "GOMAXPROCS=2", "GOTRACEBACK=all")
	var stderr bytes.Buffer
	cmd.Stderr = &limitedWriter{w: &stderr, n: 1 << 20}
	cmd.Stdout = nil
	err := cmd.Run()
	done := map[int]string{}
	if f, ferr := os.Open(out); ferr == nil {
		sc := bufio.NewScanner(f)
		sc.Buffer(make([]byte, 1<<20), 1<<26)
		for sc.Scan() {
			l := sc.Text()
			if strings.HasPrefix(l, "#slow\t") {
				if ps := strings.Split(l, "\t"); len(ps) == 4 {
					r.mu.Lock()
					r.slow[ps[1]+"\x00"+ps[2]+"\x00"+ps[3]] = true
					r.mu.Unlock()
				}
				continue
			}
			if i := strings.IndexByte(l, '\t'); i > 0 {
				if id, e := strconv.Atoi(l[:i]); e == nil {
					done[id] = l[i+1:]
				}
			}
		}
		f.Close()
	}
	info := ""
	if err != nil {
		st := stderr.String()
		code := -1
		if ee, ok := err.(*exec.ExitError); ok {
			code = ee.ExitCode()
		}
		switch {
		case code == 3 || code == 4:
			info = "orderly"
		case ctx.Err() != nil:
			info = "resource:hang"
		case strings.Contains(err.Error(), "signal: killed"):
			// SIGKILL without our timeout: the kernel's OOM killer
			info = "resource:mem"
		case strings.Contains(st, "fatal error: runtime: out of memory") || strings.Contains(st, "cannot allocate memory") ||
			strings.Contains(st, "fatal error: out of memory"):
			info = "resource:mem"
		case strings.Contains(st, "fatal error: stack overflow") || strings.Contains(st, "goroutine stack exceeds"):
			info = "crash:stack-overflow<" + crashFrame(st)
		case strings.Contains(st, "fatal error:") || strings.Contains(st, "\npanic: ") || strings.HasPrefix(st, "panic: "):
			info = "crash:" + crashFrame(st)
		default:
			info = fmt.Sprintf("crash:exit(%v)", err)
		}
		if solo || os.Getenv("VERIF_C13_KEEP") != "" {
			_ = os.WriteFile(out+".stderr", []byte(st), 0o644)
		}
	}
	if os.Getenv("VERIF_C13_KEEP") == "" {
		os.Remove(in)
		os.Remove(out)
	}
	return done, info
}

type limitedWriter struct {
	w *bytes.Buffer
	n int
}

func (l *limitedWriter) Write(p []byte) (int, error) {
	if l.w.Len() < l.n {
		l.w.Write(p)
	}
	return len(p), nil
}

// crashFrame: the panicking goroutine's top frame in an unrecovered panic / fatal error dump
func crashFrame(st string) string {
	i := strings.Index(st, "\ngoroutine ")
	if i < 0 {
		return "?"
	}
	// the last "panic: " or "fatal error: " block precedes the running goroutine's trace
	if j := strings.LastIndex(st[:i+1], "panic: "); j >= 0 {
		st = st[j:]
	} else if j := strings.LastIndex(st[:i+1], "fatal error: "); j >= 0 {
		st = st[j:]
	}
	k := strings.Index(st, "\ngoroutine ")
	if k < 0 {
		return "?"
	}
	blk := st[k+1:]
	if e := strings.Index(blk, "\n\n"); e > 0 {
		blk = blk[:e]
	}
	return topFrame(blk)
}

// ---- main --------------------------------------------------------------------------------

func main() {
	if len(os.Args) > 1 && os.Args[1] == "-worker" {
		if len(os.Args) < 4 {
			panic("usage: -worker IN OUT [-case-timeout D] [-mem-mb N]")
		}
		to, mem := 3*time.Second, 3072
		for i := 4; i+1 < len(os.Args); i += 2 {
			switch os.Args[i] {
			case "-case-timeout":
				to, _ = time.ParseDuration(os.Args[i+1])
			case "-mem-mb":
				mem, _ = strconv.Atoi(os.Args[i+1])
			}
		}
		workerMain(os.Args[2], os.Args[3], to, uint64(mem)<<20)
		return
	}

	cfg := hlib.ParseFlags()
	o := hlib.NewOut(cfg.Out)
	defer o.Close()
	rnd := hlib.NewRand(cfg.Seed)

	ev := newEvaluator()
	pool := buildPool(ev)
	fns := enumerate(ev)

	workDir := os.Getenv("VERIF_WORK")
	if workDir == "" {
		workDir, _ = os.MkdirTemp("", "c13")
	}
	workDir = filepath.Join(workDir, "workers")
	os.MkdirAll(workDir, 0o755)
	self, err := os.Executable()
	if err != nil {
		panic(err)
	}
	caseTimeout := 2 * time.Second
	if cfg.Thorough() {
		caseTimeout = 3 * time.Second
	}
	r := &runner{self: self, workDir: workDir, timeout: caseTimeout, memMB: 3072, stats: map[string]int{}, hangCount: map[string]int{}, slow: map[string]bool{}}

	// direct (in-process) correspondence lines of the modelled helpers
	directOps(o, pool)
	optsfmtOps(o, pool)
	previewOps(o)
	linecolOps(o)
	writerOps(o, cfg, hlib.NewRand(cfg.Seed^0x5eed))
	// in replay mode only when the file holds a direct op line (they are re-run in full)
	wantDirect := cfg.Replay == ""
	if !wantDirect {
		for _, l := range hlib.ReplayLines(cfg.Replay) {
			if ws := strings.Fields(l); len(ws) > 0 && ws[0] != "call" && ws[0] != "asciiw" && ws[0] != "hexpw" {
				wantDirect = true
			}
		}
	}
	if wantDirect {
		t0 := time.Now()
		wrapDirectOps(o, pool)
		o.Stat("wrap_direct_ms", int(time.Since(t0).Milliseconds()))
		t0 = time.Now()
		dumprangeOps(o, pool, cfg)
		o.Stat("dumprange_ms", int(time.Since(t0).Milliseconds()))
	}

	// the pseudo functions for the index / slice syntax on binaries
	fns = append(fns, fnInfo{name: "@index", arity: 1, src: "syntax"}, fnInfo{name: "@slice", arity: 2, src: "syntax"},
		fnInfo{name: "@bytecolor", arity: 1, src: "direct"}, fnInfo{name: "@so", arity: 1, src: "direct"})

	var cases []pcase
	if cfg.Replay != "" {
		byKey := map[string]int{}
		for i, f := range fns {
			byKey[f.key()] = i
		}
		for _, l := range hlib.ReplayLines(cfg.Replay) {
			ws := strings.Fields(l)
			if len(ws) == 4 && (ws[0] == "asciiw" || ws[0] == "hexpw") {
				// a column writer witness: re-run exactly this one
				width, e1 := strconv.Atoi(ws[1])
				start, e2 := strconv.Atoi(ws[2])
				var chunks [][]int
				ok := e1 == nil && e2 == nil
				for _, ch := range strings.Split(ws[3], "|") {
					var c []int
					for _, x := range strings.Split(ch, ",") {
						n, e := strconv.Atoi(x)
						ok = ok && e == nil && n >= 0 && n < 1<<20
						c = append(c, n)
					}
					chunks = append(chunks, c)
				}
				if ok {
					writerCase(o, ws[0], width, start, chunks)
				} else {
					o.Case(l, "badcase")
				}
				continue
			}
			if len(ws) < 3 || ws[0] != "call" {
				continue // the other direct ops are always re-run in full above
			}
			fi, ok := byKey[ws[1]]
			if !ok {
				// a function that no longer exists: report, never ignore
				o.Case(l, "nofunction")
				continue
			}
			cases = append(cases, pcase{fn: fi, toks: ws[2:]})
		}
	} else {
		cases = generate(fns, pool, cfg, rnd)
		cases = append(cases, malformedCases(fns, ev, pool, cfg, rnd)...)
	}

	// chunks of consecutive cases (same function where possible)
	chunkSize := 1500
	var chunks [][]int
	for i := 0; i < len(cases); {
		if cases[i].fn < 0 {
			cases[i].obs = "nofunction"
			i++
			continue
		}
		j := i
		for j < len(cases) && cases[j].fn >= 0 && j-i < chunkSize && (cases[j].fn == cases[i].fn || j-i < 200) {
			j++
		}
		ids := make([]int, 0, j-i)
		for k := i; k < j; k++ {
			ids = append(ids, k)
		}
		chunks = append(chunks, ids)
		i = j
	}
	nw := runtime.NumCPU() / 2
	if v, e := strconv.Atoi(os.Getenv("VERIF_C13_WORKERS")); e == nil && v > 0 {
		nw = v
	}
	if nw < 1 {
		nw = 1
	}
	if nw > 12 {
		nw = 12
	}
	ch := make(chan []int)
	var wg sync.WaitGroup
	for w := 0; w < nw; w++ {
		wg.Add(1)
		go func() {
			defer wg.Done()
			for ids := range ch {
				r.runChunk(fns, pool, cases, ids)
			}
		}()
	}
	for _, ids := range chunks {
		ch <- ids
	}
	close(ch)
	wg.Wait()

	// output, in generation order
	perFn := make([]int, len(fns))
	samples := 0
	for _, c := range cases {
		if c.fn < 0 {
			o.Case("call "+strings.Join(c.toks, " "), c.obs)
			continue
		}
		f := fns[c.fn]
		toks := c.tokens(pool)
		op := "call " + f.key() + " " + strings.Join(toks, " ")
		o.Case(op, c.obs)
		perFn[c.fn]++
		for _, t := range toks {
			switch {
			case strings.HasPrefix(t, "O(byte_colors"):
				o.Stat("dim_colour_line_geometry_cases", 1)
			case strings.HasPrefix(t, "O(bits_format") || strings.Contains(t, ";bits_format="):
				o.Stat("dim_bits_format_x_member_cases", 1)
			case strings.HasPrefix(t, "O(string_truncate") || strings.HasPrefix(t, "O(array_truncate") || strings.HasPrefix(t, "O(depth="):
				o.Stat("dim_truncation_cases", 1)
			}
		}
		cls := c.obs
		if i := strings.IndexByte(cls, ' '); i > 0 {
			cls = cls[:i]
		}
		if i := strings.IndexByte(cls, ':'); i > 0 && !strings.HasPrefix(cls, "resource") {
			cls = cls[:i]
		}
		o.Stat("class_"+cls, 1)
		tw := make([]string, len(toks))
		for i, t := range toks {
			tw[i] = typeWord(t)
		}
		o.Class(f.key() + " " + strings.Join(tw, " ") + " " + cls)
		if samples < 5 && len(toks) > 1 && cls == "ok" && rnd.Intn(200) == 0 {
			o.Sample(op + " => " + c.obs)
			samples++
		}
	}
	nGo, nJq, nMod := 0, 0, 0
	for i, f := range fns {
		m := "u"
		if modelledFns[f.key()] {
			m = "m"
			nMod++
		}
		src := f.src
		switch {
		case src == "go":
			nGo++
		case strings.HasPrefix(src, "jq:"):
			nJq++
			src = "jq"
		}
		if cfg.Replay == "" {
			// the registry listing, with the modelled flag and the number of cases run
			o.Stat("fn/"+f.key()+"/"+src+"/"+m, perFn[i])
		}
	}
	if cfg.Replay == "" {
		o.Stat("functions_go", nGo)
		o.Stat("functions_jq_public", nJq)
		o.Stat("functions_modelled", nMod)
		o.Stat("functions_skipped", len(skipFns))
		o.Stat("pool_values", len(pool.vals))
		nc := 0
		for _, pv := range pool.vals {
			if pv.core {
				nc++
			}
		}
		o.Stat("pool_core_values", nc)
		o.Sample(fmt.Sprintf("registry: %d Go-registered + %d public jq-defined functions (+2 syntax ops), %d with an exact model; listing in #stat fn/<name>/<arity>/<go|jq>/<m|u>", nGo, nJq, nMod))
	}
	for k, v := range r.stats {
		o.Stat(k, v)
	}
}

// ---- direct ops: the modelled helpers called without the interpreter ----------------------

func directOps(o *hlib.Out, p poolT) {
	for _, pv := range p.vals {
		castOps(o, pv.tok, pv.v)
		castIndentOp(o, pv.tok, pv.v)
		optsOp(o, pv.tok, pv.v)
	}
}

// gojqx.CastFn (types.go:20-160): the argument casts of the FuncN/IterN wrappers
func castOp(o *hlib.Out, kind, tok string, f func() (string, bool)) {
	obs, panicked := hlib.Catch(func() string {
		s, ok := f()
		if !ok {
			return "fail"
		}
		return "ok " + s
	})
	if panicked {
		obs = "panic"
	}
	o.Case("cast "+kind+" "+tok, obs)
	o.Class("cast " + kind + " " + typeWord(tok))
}

func castOps(o *hlib.Out, tok string, v any) {
	castOp(o, "int", tok, func() (string, bool) { x, ok := gojqx.CastFn[int](v, mapstruct.ToStruct); return tokOf(x), ok })
	castOp(o, "float", tok, func() (string, bool) { x, ok := gojqx.CastFn[float64](v, mapstruct.ToStruct); return tokOf(x), ok })
	castOp(o, "big", tok, func() (string, bool) {
		x, ok := gojqx.CastFn[*big.Int](v, mapstruct.ToStruct)
		if !ok {
			return "", false
		}
		return tokOf(x), ok
	})
	castOp(o, "bool", tok, func() (string, bool) { x, ok := gojqx.CastFn[bool](v, mapstruct.ToStruct); return tokOf(x), ok })
	castOp(o, "string", tok, func() (string, bool) {
		x, ok := gojqx.CastFn[string](v, mapstruct.ToStruct)
		if !ok {
			return "", false
		}
		_ = x
		return "str", ok
	})
}

func castIndentOp(o *hlib.Out, tok string, v any) {
	castOp(o, "indent", tok, func() (string, bool) {
		x, ok := gojqx.CastFn[indentOpts](cloneVal(v), mapstruct.ToStruct)
		return tokOf(x.Indent), ok
	})
}

// OptionsFromValue (interp.go:1059): clamps of the display options
func optsOp(o *hlib.Out, tok string, v any) {
	obs, panicked := hlib.Catch(func() string {
		var plain any = v
		if jv, ok := v.(gojq.JQValue); ok {
			plain = jv.JQValueToGoJQ()
		}
		// fq always passes its option object, which has a valid bits_format
		if m, ok := plain.(map[string]any); ok {
			if _, has := m["bits_format"]; !has {
				c := cloneVal(m).(map[string]any)
				c["bits_format"] = "string"
				plain = c
			}
		}
		x, err := interp.VerifC13OptionsFromValue(plain)
		if err != nil {
			return "err"
		}
		return fmt.Sprintf("ok depth=%d array_truncate=%d string_truncate=%d line_bytes=%d display_bytes=%d addrbase=%d sizebase=%d",
			x.Depth, x.ArrayTruncate, x.StringTruncate, x.LineBytes, x.DisplayBytes, x.Addrbase, x.Sizebase)
	})
	if panicked {
		obs = "panic"
	}
	o.Case("opts "+tok, obs)
	o.Class("opts " + typeWord(tok))
}

// optsfmt: the bits format function OptionsFromValue returns, run on 1000 zero bytes, for the
// pool's option objects and every combined (bits_format, member) object. For "snippet" the
// observation carries the size prefix, which shows the sizebase the closure captured.
func optsfmtOps(o *hlib.Out, p poolT) {
	var toks []string
	for _, pv := range p.vals {
		if strings.HasPrefix(pv.tok, "O(") {
			toks = append(toks, pv.tok)
		}
	}
	toks = append(toks, comboOptionTokens()...)
	for _, t := range toks {
		v, err := parseTok(t, p)
		if err != nil {
			o.Case("optsfmt "+t, "badtoken")
			continue
		}
		optsfmtOp(o, t, v)
		o.Class("optsfmt " + t)
	}
}

func optsfmtOp(o *hlib.Out, t string, v any) {
	obs, panicked := hlib.Catch(func() string {
		s, err := interp.VerifC13BitsFormat(cloneVal(v), 1000)
		if err != nil {
			return "err"
		}
		if i, j := strings.IndexByte(s, '<'), strings.IndexByte(s, '>'); i == 0 && j > 0 {
			return "ok " + s[1:j]
		}
		return "ok -"
	})
	if panicked {
		obs = "panic"
	}
	o.Case("optsfmt "+t, obs)
}

// preview: the real previewValue on every multi-byte string x every truncation limit; the
// observation is the number of runes the preview kept
func previewOps(o *hlib.Out) {
	limits := []int{0, 1, 2, 12, 13, 14, 16, 17, 18, 29, 30, 31, 49, 50, 51, 52, 59, 60, 61, 1 << 31}
	strs := append([]string{"", "abc"}, truncStrings...)
	for _, s := range strs {
		for _, st := range limits {
			previewOp(o, s, st)
			o.Class(fmt.Sprintf("preview s:%s n:%d", hexOrDash([]byte(s)), st))
		}
	}
}

func previewOp(o *hlib.Out, s string, st int) {
	obs, panicked := hlib.Catch(func() string {
		q := interp.VerifC13PreviewString(s, st)
		u, err := strconv.Unquote(q)
		if err != nil {
			return "badquote"
		}
		return fmt.Sprintf("ok %d", len([]rune(u)))
	})
	if panicked {
		obs = "panic"
	}
	op := fmt.Sprintf("preview s:%s n:%d", hexOrDash([]byte(s)), st)
	o.Case(op, obs)
}

// ---- the column writers of the hex dump, driven directly ----------------------------------
//
// `asciiw W S L1,L2,…|L…` / `hexpw …`: a writer of width W and start offset S gets one Write per
// `|`-separated chunk; byte i of the data is formatted to a string of Li bytes (what a byte colour
// of that length does). Observation: bytes that reached the underlying writer and the final
// buffer length, or `panic`.

type countWriter struct{ n int }

func (c *countWriter) Write(p []byte) (int, error) { c.n += len(p); return len(p), nil }

func writerCase(o *hlib.Out, kind string, width, start int, chunks [][]int) {
	var parts []string
	for _, ch := range chunks {
		ss := make([]string, len(ch))
		for i, l := range ch {
			ss[i] = strconv.Itoa(l)
		}
		parts = append(parts, strings.Join(ss, ","))
	}
	op := fmt.Sprintf("%s %d %d %s", kind, width, start, strings.Join(parts, "|"))
	obs, panicked := hlib.Catch(func() string {
		cw := &countWriter{}
		// the data byte is the index into lens: at most 256 bytes per case
		var lens []int
		fn := func(b byte) string { return strings.Repeat("x", lens[int(b)]) }
		k := 0
		if kind == "asciiw" {
			w := asciiwriter.New(cw, width, start, fn)
			for _, ch := range chunks {
				p := make([]byte, len(ch))
				for i, l := range ch {
					lens = append(lens, l)
					p[i] = byte(k)
					k++
				}
				if _, err := w.Write(p); err != nil {
					return "err"
				}
			}
			return fmt.Sprintf("ok %d %d", cw.n, asciiwriter.VerifC13BufLen(w))
		}
		w := hexpairwriter.New(cw, width, start, fn)
		for _, ch := range chunks {
			p := make([]byte, len(ch))
			for i, l := range ch {
				lens = append(lens, l)
				p[i] = byte(k)
				k++
			}
			if _, err := w.Write(p); err != nil {
				return "err"
			}
		}
		return fmt.Sprintf("ok %d %d", cw.n, hexpairwriter.VerifC13BufLen(w))
	})
	if panicked {
		obs = "panic"
	}
	o.Case(op, obs)
	o.Stat("direct_"+kind+"_cases", 1)
	o.Class(fmt.Sprintf("%s %d %d %d", kind, width, start, len(chunks)))
}

// writerOps: exhaustive small domain (widths 1..3, every sequence of up to 2*width+1 formatted
// lengths from a set around the buffer arithmetic's constants, split into one or two Writes)
// and seeded random larger ones (widths up to 64, lengths up to 300).
func writerOps(o *hlib.Out, cfg hlib.Config, rnd *hlib.Rand) {
	// fixed witnesses: a line that fills the initial buffer (width*11+2) exactly
	l16 := append([]int{12, 12}, make([]int, 15)...)
	for i := 2; i < len(l16); i++ {
		l16[i] = 11
	}
	for _, kind := range []string{"asciiw", "hexpw"} {
		writerCase(o, kind, 2, 0, [][]int{{12, 12, 12}})
		writerCase(o, kind, 16, 0, [][]int{l16})
		writerCase(o, kind, 16, 3, [][]int{l16[:9], l16[9:]})
		writerCase(o, kind, 4, 0, [][]int{{16, 16, 16, 16, 16, 16}})
		writerCase(o, kind, 2, 0, [][]int{{199, 199, 199}})
	}
	lensA := []int{1, 11, 12, 13}
	for _, kind := range []string{"asciiw", "hexpw"} {
		for width := 1; width <= 3; width++ {
			maxN := 2*width + 1
			if !cfg.Thorough() && width == 3 {
				maxN = 4
			}
			for start := 0; start <= 1; start++ {
				var rec func(seq []int)
				rec = func(seq []int) {
					if len(seq) > 0 {
						writerCase(o, kind, width, start, [][]int{seq})
						if len(seq) > 1 {
							cut := (len(seq) + 1) / 2
							writerCase(o, kind, width, start, [][]int{seq[:cut], seq[cut:]})
						}
					}
					if len(seq) == maxN {
						return
					}
					for _, l := range lensA {
						rec(append(append([]int(nil), seq...), l))
					}
				}
				rec(nil)
			}
		}
		n := 400
		if cfg.Thorough() {
			n = 6000
		}
		pick := []int{0, 1, 2, 3, 10, 11, 11, 11, 12, 12, 13, 16, 22, 23, 24, 150, 199, 200, 201, 285}
		for i := 0; i < n; i++ {
			width := []int{1, 2, 3, 4, 7, 8, 15, 16, 17, 32, 64}[rnd.Intn(11)]
			start := rnd.Intn(width + 1)
			total := rnd.Range(1, 3*width+2)
			if total > 250 {
				total = 250
			}
			// mostly 11 with a few 12: lines that fill the buffer exactly
			var chunks [][]int
			var cur []int
			for j := 0; j < total; j++ {
				l := 11
				switch rnd.Intn(6) {
				case 0:
					l = 12
				case 1:
					l = pick[rnd.Intn(len(pick))]
				}
				if kind == "asciiw" && rnd.Intn(3) == 0 && j < 2 {
					l = 12
				}
				cur = append(cur, l)
				if rnd.Intn(2*width+1) == 0 {
					chunks = append(chunks, cur)
					cur = nil
				}
			}
			if len(cur) > 0 {
				chunks = append(chunks, cur)
			}
			writerCase(o, kind, width, start, chunks)
		}
	}
}

type indentOpts struct {
	Indent int `default:"2"`
}
