//go:build verif

package main

import (
	"fmt"
	"sort"
	"strings"

	"github.com/wader/fq/internal/verifharness/hlib"
)

// ---- malformed structured arguments ---------------------------------------------------------------
//
// Functions that take a query / option / AST object get objects of the right outer shape whose
// inner members are missing, null or of the wrong type: every single-member mutation (delete,
// null, and retag to number / string / bool / array / object / negative / huge) of VALID objects
// obtained from fq itself (`_query_fromstring` of a set of programs, `options`, small option
// objects of the Go-registered functions).

var queryPrograms = []string{
	`.`, `.a`, `.[0]`, `.a[1:2]`, `f(1;2)`, `1+2`, `def f: .; f`, `def f(g; $x): g; f(.;1)`, `if . then 1 elif 2 then 3 else 4 end`,
	`try . catch .`, `reduce .[] as $x (0; .+$x)`, `foreach .[] as [$a,{b:$c}] (0; .+1; .)`, `"a\\(1)b"`, `{a:1,"b":2,(.c):3,$d}`, `[1,2]`,
	`.a as $x | $x`, `label $f | break $f`, `..`, `.a?`, `-1`, `@base64 "x\\(.)"`, `.a.b.c`, `."a"`, `.[]?`, `1 as $x | 2`, `.. |= 1`, `a::b`, `$__loc__`, `import "a" as b; .`,
}

// mutate returns every single-member mutation of v (a tree of maps / slices / scalars)
func mutations(v any) []any {
	var out []any
	var walk func(cur any, rebuild func(any) any)
	repl := []any{nil, 1, -1, "x", true, []any{}, map[string]any{}, 9223372036854775807, []any{nil}, map[string]any{"type": "TermTypeFunc"}}
	walk = func(cur any, rebuild func(any) any) {
		switch c := cur.(type) {
		case map[string]any:
			keys := make([]string, 0, len(c))
			for k := range c {
				keys = append(keys, k)
			}
			sort.Strings(keys)
			for _, k := range keys {
				// delete
				d := map[string]any{}
				for k2, v2 := range c {
					if k2 != k {
						d[k2] = v2
					}
				}
				out = append(out, rebuild(d))
				for _, r := range repl {
					m := map[string]any{}
					for k2, v2 := range c {
						m[k2] = v2
					}
					m[k] = r
					out = append(out, rebuild(m))
				}
				k := k
				walk(c[k], func(n any) any {
					m := map[string]any{}
					for k2, v2 := range c {
						m[k2] = v2
					}
					m[k] = n
					return rebuild(m)
				})
			}
		case []any:
			for i := range c {
				i := i
				// drop the element, null it
				d := append(append([]any{}, c[:i]...), c[i+1:]...)
				out = append(out, rebuild(d))
				n := append([]any{}, c...)
				n[i] = nil
				out = append(out, rebuild(n))
				walk(c[i], func(x any) any {
					m := append([]any{}, c...)
					m[i] = x
					return rebuild(m)
				})
			}
		}
	}
	walk(v, func(n any) any { return n })
	return out
}

type structTarget struct {
	fn     string   // function key; the mutated object is the INPUT when argPos < 0, else argument argPos
	argPos int
	input  string   // input token when the object is an argument
	others []string // the other argument tokens, in order (nil entries = the mutated object's place)
	base   any
	quick  int // cases in the quick tier (0 = all)
}

func malformedCases(fns []fnInfo, ev *evaluator, p poolT, cfg hlib.Config, rnd *hlib.Rand) []pcase {
	byKey := map[string]int{}
	for i, f := range fns {
		byKey[f.key()] = i
	}
	var targets []structTarget
	// queries
	for _, prog := range queryPrograms {
		vs := ev.evalValues(prog, `try _query_fromstring catch null`)
		if len(vs) != 1 || vs[0] == nil {
			continue
		}
		targets = append(targets, structTarget{fn: "_query_tostring/0", argPos: -1, base: vs[0], quick: 40})
	}
	// the full option object fq builds, for the functions that take it whole
	if ov := ev.evalValues(nil, initStateExpr+` as $st | null | _global_state($st) | options`); len(ov) == 1 {
		for _, fn := range []string{"_display/1", "_hexdump/1", "_tovalue/1", "_print_color_json/1"} {
			for _, in := range []string{"bin:fffe00/24/8", "dv:png=O()"} {
				targets = append(targets, structTarget{fn: fn, argPos: 0, input: in, base: ov[0], quick: 60})
			}
		}
		targets = append(targets, structTarget{fn: "options/1", argPos: 0, input: "null", base: ov[0], quick: 60})
	}
	// small option objects of the Go-registered functions
	small := []structTarget{
		{fn: "_decode/2", argPos: 1, input: "bin:fffe00/24/8", others: []string{"s:706e67", ""}, base: obj("force", true, "_progress", "x", "remain_group", "probe", "name", obj("a", 1))},
		{fn: "_to_hash/1", argPos: 0, input: "s:616263", base: obj("name", "md5")},
		{fn: "_to_base64/1", argPos: 0, input: "s:616263", base: obj("encoding", "std")},
		{fn: "_from_base64/1", argPos: 0, input: "s:59574a6a", base: obj("encoding", "std")},
		{fn: "_to_strencoding/1", argPos: 0, input: "s:616263", base: obj("encoding", "UTF16")},
		{fn: "_from_strencoding/1", argPos: 0, input: "s:616263", base: obj("encoding", "UTF16")},
		{fn: "_to_csv/1", argPos: 0, input: "A(A(s:61;n:1))", base: obj("comma", ";")},
		{fn: "to_xml/1", argPos: 0, input: "O(a=O(@b=s:31;#text=s:78))", base: obj("indent", 2, "attribute_prefix", "@")},
		{fn: "_readline/1", argPos: 0, input: "null", base: obj("prompt", "> ", "complete", "x", "timeout", 1)},
		{fn: "_eval/2", argPos: 1, input: "null", others: []string{"s:2e", ""}, base: obj("filename", "x", "output", "x", "is_completing", true)},
		{fn: "_tobits/1", argPos: 0, input: "s:616263", base: obj("unit", 8, "keep_range", true, "pad_to_units", 2)},
		{fn: "_to_json/1", argPos: 0, input: "O(a=A(n:1))", base: obj("indent", 2)},
		{fn: "_to_yaml/1", argPos: 0, input: "O(a=A(n:1))", base: obj("indent", 2)},
		{fn: "_to_toml/1", argPos: 0, input: "O(a=A(n:1))", base: obj("indent", 2)},
		{fn: "_match_binary/2", argPos: 0, input: "bin:fffe00/24/8", others: []string{"", "s:67"}, base: []any{255, "a", []any{1}}},
	}
	targets = append(targets, small...)

	var cases []pcase
	seen := map[string]bool{}
	for _, t := range targets {
		fi, ok := byKey[t.fn]
		if !ok {
			cases = append(cases, pcase{fn: -1, toks: []string{t.fn, "malformed-target-not-registered"}})
			continue
		}
		ms := mutations(t.base)
		for mi, m := range ms {
			if !cfg.Thorough() && t.quick > 0 && len(ms) > t.quick && rnd.Intn(len(ms)) >= t.quick {
				_ = mi
				continue
			}
			mt := tokOf(m)
			if strings.Contains(mt, "?") || len(mt) > 20000 {
				continue // a value the token grammar cannot carry
			}
			var toks []string
			if t.argPos < 0 {
				toks = []string{mt}
			} else {
				toks = []string{t.input}
				if t.others == nil {
					toks = append(toks, mt)
				} else {
					for _, o := range t.others {
						if o == "" {
							toks = append(toks, mt)
						} else {
							toks = append(toks, o)
						}
					}
				}
			}
			key := t.fn + " " + strings.Join(toks, " ")
			if seen[key] {
				continue
			}
			seen[key] = true
			cases = append(cases, pcase{fn: fi, toks: toks})
		}
	}
	// the minimal witnesses
	for _, w := range [][]string{
		{"_query_tostring/0", "O(term=O(type=s:5465726d5479706546756e63))"},
		{"_query_tostring/0", "O(term=O(type=s:5465726d547970654f626a656374))"},
		{"_query_tostring/0", "O(func_defs=A(null))"},
		{"_query_tostring/0", "O(term=O(type=s:5465726d54797065496e646578;index=null))"},
	} {
		if fi, ok := byKey[w[0]]; ok {
			cases = append(cases, pcase{fn: fi, toks: w[1:]})
		}
	}
	_ = fmt.Sprint
	return cases
}
