//go:build verif

package main

import (
	"bytes"
	"encoding/hex"
	"fmt"
	"math"
	"math/big"
	"runtime/debug"
	"sort"
	"strings"

	"github.com/wader/fq/pkg/bitio"
	"github.com/wader/fq/pkg/interp"
	"github.com/wader/gojq"
)

// ---- value tokens ------------------------------------------------------------------------
//
//	V ::= null | true | false
//	    | n:<int>                     Go int
//	    | b:<int>                     *big.Int (whatever its magnitude)
//	    | f:nan | f:+inf | f:-inf | f:<m>p<e>       float64, finite ones exactly as m * 2^e (m odd, or 0p0)
//	    | s:<hex|->                   string (bytes)
//	    | S:<len>:<hh>                string of <len> copies of byte <hh>
//	    | bin:<hex|->/<nbits>/<unit>  interp.Binary
//	    | bin:<hex>/<nbits>/<unit>@<s>:<e>   the slice .[s:e] of that binary (made by Binary.JQValueSlice): a
//	                                  binary of (e-s)*unit bits whose range starts at bit s*unit (directed cases only)
//	    | A(V;V;…)  | O(key=V;…)      array / object (keys [a-z_0-9@]*, sorted)
//	    | dv:<name>=V                 decode value <name> whose JQValueToGoJQ is V (O() for compounds)
//
// The Lean driver (Drv/C13.lean) parses exactly this grammar.

func tokFloat(f float64) string {
	switch {
	case math.IsNaN(f):
		return "f:nan"
	case math.IsInf(f, 1):
		return "f:+inf"
	case math.IsInf(f, -1):
		return "f:-inf"
	case f == 0:
		return "f:0p0"
	}
	// exact: odd mantissa times a power of two
	fr, e := math.Frexp(f) // f = fr * 2^e, 0.5 <= |fr| < 1
	m := int64(fr * (1 << 53))
	e -= 53
	for m%2 == 0 {
		m /= 2
		e++
	}
	return fmt.Sprintf("f:%dp%d", m, e)
}

func hexOrDash(b []byte) string {
	if len(b) == 0 {
		return "-"
	}
	return hex.EncodeToString(b)
}

// tokOf renders a plain jq value (what the harness builds, and results of modelled functions).
// Values it cannot render exactly get a type word (never parsed as a V by the driver).
func tokOf(v any) string {
	switch v := v.(type) {
	case nil:
		return "null"
	case bool:
		if v {
			return "true"
		}
		return "false"
	case int:
		return fmt.Sprintf("n:%d", v)
	case *big.Int:
		if v.BitLen() > 2048 {
			// digest of a huge integer: sign, bit length, top and low 64 bits of |v|
			a := new(big.Int).Abs(v)
			low := new(big.Int).And(a, new(big.Int).SetUint64(math.MaxUint64))
			top := new(big.Int).Rsh(a, uint(a.BitLen()-64))
			t := fmt.Sprintf("B:%d:%d:%s:%s", v.Sign(), a.BitLen(), top.Text(16), low.Text(16))
			if a.BitLen() > 1<<24 {
				// a multi-megabyte integer (and the copies made for its digest): give the memory back
				// now, so that a series of such results is not mistaken for unbounded allocation
				a, low, top = nil, nil, nil
				debug.FreeOSMemory()
			}
			return t
		}
		return "b:" + v.String()
	case float64:
		return tokFloat(v)
	case string:
		if len(v) > 64 {
			same := true
			for i := 1; i < len(v); i++ {
				if v[i] != v[0] {
					same = false
					break
				}
			}
			if same {
				return fmt.Sprintf("S:%d:%02x", len(v), v[0])
			}
			if len(v) > 4096 {
				return fmt.Sprintf("?string[%d]", len(v))
			}
		}
		return "s:" + hexOrDash([]byte(v))
	case []any:
		ss := make([]string, len(v))
		for i, e := range v {
			ss[i] = tokOf(e)
		}
		return "A(" + strings.Join(ss, ";") + ")"
	case map[string]any:
		ks := make([]string, 0, len(v))
		for k := range v {
			ks = append(ks, k)
		}
		sort.Strings(ks)
		ss := make([]string, len(ks))
		for i, k := range ks {
			ss[i] = tokKey(k) + "=" + tokOf(v[k])
		}
		return "O(" + strings.Join(ss, ";") + ")"
	case gojq.JQValue:
		if _, l, unit, _, ok := interp.VerifC13BinaryFields(v); ok {
			return fmt.Sprintf("?binary[%d/%d]", l, unit)
		}
		return "?" + v.JQValueType()
	case error:
		return "?error"
	default:
		return fmt.Sprintf("?%T", v)
	}
}

// tokKey: object keys of RESULTS may hold any byte (from_urlquery, from_url …): everything outside
// the printable, non-separator ASCII range is written as %xx so that a line stays one line
func tokKey(k string) string {
	clean := true
	for i := 0; i < len(k); i++ {
		if c := k[i]; c <= ' ' || c >= 0x7f || c == '%' {
			clean = false
			break
		}
	}
	if clean {
		return k
	}
	var b strings.Builder
	for i := 0; i < len(k); i++ {
		if c := k[i]; c <= ' ' || c >= 0x7f || c == '%' {
			fmt.Fprintf(&b, "%%%02x", c)
		} else {
			b.WriteByte(c)
		}
	}
	return b.String()
}

func mkBinary(b []byte, nbits int, unit int) any {
	bin, err := interp.NewBinaryFromBitReader(bitio.NewBitReader(b, int64(nbits)), unit, 0)
	if err != nil {
		panic(err)
	}
	return bin
}

func tokBinary(b []byte, nbits int, unit int) string {
	return fmt.Sprintf("bin:%s/%d/%d", hexOrDash(b), nbits, unit)
}

// a 1x1 PNG (67 bytes): the decode value of the pool
var tinyPNG = func() []byte {
	b, err := hex.DecodeString("89504e470d0a1a0a0000000d4948445200000001000000010802000000907753de" +
		"0000000c4944415408d763f8cfc000000301010018dd8db00000000049454e44ae426082")
	if err != nil {
		panic(err)
	}
	return b
}()

// ---- multi-byte strings sized around the truncation defaults (string_truncate 50, array_truncate 50)
//
// byte length above a limit while the rune count is below it, with 2-, 3- and 4-byte code points,
// at the limit and one off, plus invalid UTF-8; the same contents as DECODE values (a CBOR document
// built here: text strings, a byte string, arrays of 49/50/51 elements, a map).

func rep(s string, n int) string { return strings.Repeat(s, n) }

var truncStrings = []string{
	rep("\u00e5", 30),     // 60 bytes, 30 runes
	rep("\u20ac", 17),     // 51 bytes, 17 runes
	rep("\U0001F600", 13), // 52 bytes, 13 runes
	rep("\u00e5", 49), rep("\u00e5", 50), rep("\u00e5", 51),
	rep("a", 49) + "\u00e5", rep("a", 50), rep("a", 51),
	rep("\xff", 51), "a" + rep("\u20ac", 16) + "\xe2\x82", // invalid UTF-8
}

func cborHead(major byte, n int) []byte {
	switch {
	case n < 24:
		return []byte{major<<5 | byte(n)}
	case n < 256:
		return []byte{major<<5 | 24, byte(n)}
	default:
		return []byte{major<<5 | 25, byte(n >> 8), byte(n)}
	}
}

func cborText(s string) []byte  { return append(cborHead(3, len(s)), s...) }
func cborBytes(b []byte) []byte { return append(cborHead(2, len(b)), b...) }
func cborArray(items ...[]byte) []byte {
	out := cborHead(4, len(items))
	for _, it := range items {
		out = append(out, it...)
	}
	return out
}
func cborInts(n int) [][]byte {
	out := make([][]byte, n)
	for i := range out {
		out[i] = cborHead(0, i%20)
	}
	return out
}

// cborDoc: [ text strings…, bytes(51), [49 ints], [50 ints], [51 ints], {"\u00e5"x30: "\u20ac"x17}, big numbers… ]
var cborDoc = func() []byte {
	var items [][]byte
	for _, s := range truncStrings {
		items = append(items, cborText(s))
	}
	items = append(items, cborBytes(bytes.Repeat([]byte{0xc3}, 51)))
	items = append(items, cborArray(cborInts(49)...), cborArray(cborInts(50)...), cborArray(cborInts(51)...))
	m := append(cborHead(5, 1), cborText(truncStrings[0])...)
	m = append(m, cborText(truncStrings[1])...)
	items = append(items, m)
	// numbers beyond int64: uint64 2^64-1, -2^64, a tagged bignum 2^64, a NaN float, and 2^63
	ff := bytes.Repeat([]byte{0xff}, 8)
	items = append(items,
		append([]byte{0x1b}, ff...), append([]byte{0x3b}, ff...),
		[]byte{0xc2, 0x49, 1, 0, 0, 0, 0, 0, 0, 0, 0}, []byte{0xfb, 0x7f, 0xf8, 0, 0, 0, 0, 0, 0},
		[]byte{0x1b, 0x80, 0, 0, 0, 0, 0, 0, 0})
	return cborArray(items...)
}()

type pval struct {
	tok  string
	v    any
	core bool // member of the 40-value core pool (exhaustive for arity 2 in the thorough tier)
}

func bigOf(s string) *big.Int {
	b, ok := new(big.Int).SetString(s, 10)
	if !ok {
		panic(s)
	}
	return b
}

func obj(kv ...any) map[string]any {
	m := map[string]any{}
	for i := 0; i < len(kv); i += 2 {
		m[kv[i].(string)] = kv[i+1]
	}
	return m
}

// plainPool: the boundary values of the property statement that are plain jq values.
func plainPool() []any {
	return []any{
		nil, true, false,
		0, -1, 1, 3, 64, 255, 65536,
		math.MaxInt32, math.MaxInt32 + 1, math.MaxInt64, math.MinInt64,
		// products by 8 wrap here: 2^61 * 8 = 0, 2^60 * 8 = MinInt64 (the full set of such values is
		// given to the modelled functions by wrap.go)
		1 << 61, 1 << 60,
		bigOf("9223372036854775808"), bigOf("18446744073709551616"), bigOf("-18446744073709551616"),
		0.5, -1.5, 1e11, 1e308, -1e308, math.NaN(), math.Inf(1), math.Inf(-1),
		"", "abc", "10", "png", "test.png", ".", "stdin", truncStrings[0], "\xff\xfe\x00", strings.Repeat("a", 1<<20),
		[]any{}, []any{1, "a", nil}, []any{[]any{[]any{}}}, []any{255, 256, -1, 0.5},
		obj(), obj("a", []any{[]any{1}}), obj("a", obj("b", obj("c", nil))), obj("", "x", "@", "y"),
		// option objects with negative / huge / mistyped members
		obj("indent", -1),
		obj("indent", -3, "attribute_prefix", 1),
		obj("attribute_prefix", "", "comma", "", "prompt", "", "name", "", "encoding", ""),
		obj("indent", 1000000000000),
		obj("indent", -4611686018427387905),
		obj("indent", "x"),
		obj("indent", math.NaN()),
		obj("unit", 0),
		obj("unit", 8, "pad_to_units", -1, "keep_range", "yes"),
		obj("line_bytes", 0, "display_bytes", -1, "depth", -1, "addrbase", 99, "sizebase", -2,
			"array_truncate", -5, "string_truncate", -5, "width", -1),
		obj("line_bytes", bigOf("18446744073709551616"), "display_bytes", 1e308, "depth", "x", "width", math.MaxInt64,
			"bits_format", "nonsense", "color", 1, "colors", -1),
		obj("line_bytes", 1<<61, "display_bytes", 1),
		obj("name", "md5", "encoding", "std", "prompt", "> ", "timeout", -1),
		obj("comma", "", "comment", "\n", "encoding", -1, "force", nil, "remain_group", 0, "name", obj()),
	}
}

// values outside the core pool: near-duplicates of a core value's type and sign
var nonCore = map[string]bool{
	"n:3": true, "n:64": true, "n:65536": true, "n:2147483648": true, "b:-18446744073709551616": true,
	"n:2305843009213693952": true, "n:1152921504606846976": true,
	"f:-3p-1": true, "f:-inf": true, "s:3130": true, "s:2e": true, "s:746573742e706e67": true, "s:737464696e": true,
	"O(encoding=s:737464;name=s:6d6435;prompt=s:3e20;timeout=n:-1)": true,
	"A(n:255;n:256;n:-1;f:1p-1)": true, "O(a=O(b=O(c=null)))": true,
	"O(attribute_prefix=n:1;indent=n:-3)": true, "O(=s:78;@=s:79)": true,
	"s:c3a5c3a5c3a5c3a5c3a5c3a5c3a5c3a5c3a5c3a5c3a5c3a5c3a5c3a5c3a5c3a5c3a5c3a5c3a5c3a5c3a5c3a5c3a5c3a5c3a5c3a5c3a5c3a5c3a5c3a5": true,
	"O(attribute_prefix=s:-;comma=s:-;encoding=s:-;name=s:-;prompt=s:-)": true, "O(indent=s:78)": true, "O(indent=f:nan)": true,
	"O(keep_range=s:796573;pad_to_units=n:-1;unit=n:8)": true,
	"O(comma=s:-;comment=s:0a;encoding=n:-1;force=null;name=O();remain_group=n:0)": true,
}

type poolT struct {
	vals []pval
}

// buildPool = plain values + binaries + decode values (made by the interpreter itself).
func buildPool(ev *evaluator) poolT {
	var p poolT
	for _, v := range plainPool() {
		t := tokOf(v)
		p.vals = append(p.vals, pval{tok: t, v: v, core: !nonCore[t]})
	}
	p.vals = append(p.vals,
		pval{tok: tokBinary([]byte{0xff, 0xfe, 0x00}, 24, 8), v: mkBinary([]byte{0xff, 0xfe, 0x00}, 24, 8), core: true},
		pval{tok: tokBinary([]byte{0xa8}, 5, 1), v: mkBinary([]byte{0xa8}, 5, 1), core: true},
		pval{tok: tokBinary(nil, 0, 8), v: mkBinary(nil, 0, 8), core: true},
	)
	// decode values: evaluated once; tokens carry the plain value they convert to
	dvs := ev.evalValues(string(tinyPNG), `png | ., .chunks, .chunks[0].length, .chunks[0].type, .signature`)
	if len(dvs) != 5 {
		panic(fmt.Sprintf("decode value pool: got %d values: %v", len(dvs), dvs))
	}
	names := []string{"png", "png_chunks", "png_len", "png_type", "png_sig"}
	for i, dv := range dvs {
		jv, ok := dv.(gojq.JQValue)
		if !ok {
			panic(fmt.Sprintf("decode value pool: %s is %T", names[i], dv))
		}
		var under string
		switch jv.JQValueType() {
		case gojq.JQTypeObject:
			under = "O()"
		case gojq.JQTypeArray:
			under = "A()"
		default:
			under = tokOf(jv.JQValueToGoJQ())
		}
		p.vals = append(p.vals, pval{tok: "dv:" + names[i] + "=" + under, v: dv, core: names[i] != "png_chunks" && names[i] != "png_type"})
	}
	// decode values with multi-byte strings around the truncation limits
	cvs := ev.evalValues(string(cborDoc), `cbor | ., .elements[0].value, .elements[11].value, .elements[14]`)
	if len(cvs) != 4 {
		panic(fmt.Sprintf("cbor decode value pool: got %d values", len(cvs)))
	}
	cnames := []string{"cbor", "cbor_str", "cbor_raw", "cbor_arr51"}
	for i, dv := range cvs {
		jv, ok := dv.(gojq.JQValue)
		if !ok {
			panic(fmt.Sprintf("cbor decode value pool: %s is %T", cnames[i], dv))
		}
		var under string
		switch jv.JQValueType() {
		case gojq.JQTypeObject:
			under = "O()"
		case gojq.JQTypeArray:
			under = "A()"
		default:
			under = tokOf(jv.JQValueToGoJQ())
		}
		p.vals = append(p.vals, pval{tok: "dv:" + cnames[i] + "=" + under, v: dv, core: false})
	}
	return p
}

func (p poolT) byTok(tok string) (any, bool) {
	for _, pv := range p.vals {
		if pv.tok == tok {
			return pv.v, true
		}
	}
	return nil, false
}

// cloneVal: arrays and objects are copied per case (some Go functions normalise their input
// in place, e.g. gojqx.NormalizeFn), so that no case sees what an earlier one left behind.
func cloneVal(v any) any {
	switch v := v.(type) {
	case []any:
		o := make([]any, len(v))
		for i, e := range v {
			o[i] = cloneVal(e)
		}
		return o
	case map[string]any:
		o := make(map[string]any, len(v))
		for k, e := range v {
			o[k] = cloneVal(e)
		}
		return o
	default:
		return v
	}
}
