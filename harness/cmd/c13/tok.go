//go:build verif

package main

import (
	"encoding/hex"
	"fmt"
	"math"
	"math/big"
	"strconv"
	"strings"

	"github.com/wader/gojq"
)

// parseTok is the inverse of tokOf for the grammar in pool.go (used by the worker for values
// that are not pool members: corpus / replay lines). dv:… tokens resolve through the pool.
func parseTok(s string, p poolT) (any, error) {
	if v, ok := p.byTok(s); ok {
		return v, nil
	}
	v, rest, err := parseV(s, p)
	if err != nil {
		return nil, err
	}
	if rest != "" {
		return nil, fmt.Errorf("trailing %q", rest)
	}
	return v, nil
}

// scalarEnd: index of the first ';' or ')' at nesting depth 0 (end of a scalar token)
func scalarEnd(s string) int {
	for i := 0; i < len(s); i++ {
		if s[i] == ';' || s[i] == ')' {
			return i
		}
	}
	return len(s)
}

func parseV(s string, p poolT) (any, string, error) {
	switch {
	case strings.HasPrefix(s, "A("):
		rest := s[2:]
		out := []any{}
		if strings.HasPrefix(rest, ")") {
			return out, rest[1:], nil
		}
		for {
			v, r, err := parseV(rest, p)
			if err != nil {
				return nil, "", err
			}
			out = append(out, v)
			if strings.HasPrefix(r, ";") {
				rest = r[1:]
				continue
			}
			if strings.HasPrefix(r, ")") {
				return out, r[1:], nil
			}
			return nil, "", fmt.Errorf("array: unexpected %q", r)
		}
	case strings.HasPrefix(s, "O("):
		rest := s[2:]
		out := map[string]any{}
		if strings.HasPrefix(rest, ")") {
			return out, rest[1:], nil
		}
		for {
			eq := strings.IndexByte(rest, '=')
			if eq < 0 {
				return nil, "", fmt.Errorf("object: no key in %q", rest)
			}
			k := rest[:eq]
			v, r, err := parseV(rest[eq+1:], p)
			if err != nil {
				return nil, "", err
			}
			out[k] = v
			if strings.HasPrefix(r, ";") {
				rest = r[1:]
				continue
			}
			if strings.HasPrefix(r, ")") {
				return out, r[1:], nil
			}
			return nil, "", fmt.Errorf("object: unexpected %q", r)
		}
	case strings.HasPrefix(s, "dv:"):
		// dv:<name>=V : find the end by parsing V
		eq := strings.IndexByte(s, '=')
		if eq < 0 {
			return nil, "", fmt.Errorf("dv: no '=' in %q", s)
		}
		_, r, err := parseV(s[eq+1:], p)
		if err != nil {
			return nil, "", err
		}
		tok := s[:len(s)-len(r)]
		v, ok := p.byTok(tok)
		if !ok {
			return nil, "", fmt.Errorf("unknown decode value %q", tok)
		}
		return v, r, nil
	}
	e := scalarEnd(s)
	t, rest := s[:e], s[e:]
	switch {
	case t == "null":
		return nil, rest, nil
	case t == "true":
		return true, rest, nil
	case t == "false":
		return false, rest, nil
	case strings.HasPrefix(t, "n:"):
		n, err := strconv.ParseInt(t[2:], 10, 64)
		if err != nil {
			return nil, "", err
		}
		return int(n), rest, nil
	case strings.HasPrefix(t, "b:"):
		b, ok := new(big.Int).SetString(t[2:], 10)
		if !ok {
			return nil, "", fmt.Errorf("bad big %q", t)
		}
		return b, rest, nil
	case t == "f:nan":
		return math.NaN(), rest, nil
	case t == "f:+inf":
		return math.Inf(1), rest, nil
	case t == "f:-inf":
		return math.Inf(-1), rest, nil
	case strings.HasPrefix(t, "f:"):
		ps := strings.Split(t[2:], "p")
		if len(ps) != 2 {
			return nil, "", fmt.Errorf("bad float %q", t)
		}
		m, err1 := strconv.ParseInt(ps[0], 10, 64)
		e, err2 := strconv.Atoi(ps[1])
		if err1 != nil || err2 != nil || m > 1<<53 || m < -(1<<53) {
			return nil, "", fmt.Errorf("bad float %q", t)
		}
		return math.Ldexp(float64(m), e), rest, nil
	case strings.HasPrefix(t, "s:"):
		if t[2:] == "-" {
			return "", rest, nil
		}
		b, err := hex.DecodeString(t[2:])
		if err != nil {
			return nil, "", err
		}
		return string(b), rest, nil
	case strings.HasPrefix(t, "S:"):
		ps := strings.Split(t[2:], ":")
		if len(ps) != 2 {
			return nil, "", fmt.Errorf("bad S token %q", t)
		}
		n, err := strconv.Atoi(ps[0])
		if err != nil || n < 0 || n > 1<<26 {
			return nil, "", fmt.Errorf("bad S length %q", t)
		}
		b, err := hex.DecodeString(ps[1])
		if err != nil || len(b) != 1 {
			return nil, "", fmt.Errorf("bad S byte %q", t)
		}
		return strings.Repeat(string(b), n), rest, nil
	case strings.HasPrefix(t, "bin:"):
		ps := strings.Split(t[4:], "/")
		if len(ps) != 3 {
			return nil, "", fmt.Errorf("bad bin token %q", t)
		}
		var b []byte
		if ps[0] != "-" {
			var err error
			if b, err = hex.DecodeString(ps[0]); err != nil {
				return nil, "", err
			}
		}
		// bin:<hex>/<nbits>/<unit>@<s>:<e> = the binary .[s:e] of bin:<hex>/<nbits>/<unit> (made by
		// Binary.JQValueSlice itself): a binary whose range does not start at bit 0
		slice := ""
		if at := strings.IndexByte(ps[2], '@'); at >= 0 {
			ps[2], slice = ps[2][:at], ps[2][at+1:]
		}
		nbits, err1 := strconv.Atoi(ps[1])
		unit, err2 := strconv.Atoi(ps[2])
		if err1 != nil || err2 != nil || nbits < 0 || nbits > len(b)*8 || unit <= 0 {
			return nil, "", fmt.Errorf("bad bin token %q", t)
		}
		bin := mkBinary(b, nbits, unit)
		if slice != "" {
			se := strings.Split(slice, ":")
			if len(se) != 2 {
				return nil, "", fmt.Errorf("bad bin slice %q", t)
			}
			sa, err3 := strconv.Atoi(se[0])
			sb, err4 := strconv.Atoi(se[1])
			if err3 != nil || err4 != nil || sa < 0 || sb < sa || sb*unit > nbits {
				return nil, "", fmt.Errorf("bad bin slice %q", t)
			}
			bin = bin.(gojq.JQValue).JQValueSlice(sa, sb)
		}
		return bin, rest, nil
	}
	return nil, "", fmt.Errorf("bad token %q", t)
}
