//go:build verif

package main

import (
	"bytes"
	"fmt"
	"io"
	"io/fs"
	"time"

	"github.com/wader/fq/pkg/interp"
)

// A virtual OS for interp.New, shaped like the one fq's own tests use (internal/script
// CaseRun, format/fuzz_test.go): empty stdin, discarded stdout/stderr, no interrupt, a file
// system with exactly one small file (so that `open`, `input`, `inputs` have something
// real to read) and a Readline that reports end of input.

type memFile struct {
	*bytes.Reader
	name string
	size int64
}

func (f memFile) Stat() (fs.FileInfo, error) {
	return interp.FixedFileInfo{FName: f.name, FSize: f.size, FMode: 0o444, FModTime: time.Unix(0, 0)}, nil
}
func (memFile) Close() error { return nil }

type memFS struct{ files map[string][]byte }

func (m memFS) Open(name string) (fs.File, error) {
	b, ok := m.files[name]
	if !ok {
		return nil, &fs.PathError{Op: "open", Path: name, Err: fs.ErrNotExist}
	}
	return memFile{Reader: bytes.NewReader(b), name: name, size: int64(len(b))}, nil
}

type vin struct {
	interp.FileReader
	io.Writer
}

func (vin) IsTerminal() bool { return false }
func (vin) Size() (int, int) { return 120, 25 }

type vout struct{ io.Writer }

func (vout) Size() (int, int) { return 120, 25 }
func (vout) IsTerminal() bool { return false }

type vos struct{ fs memFS }

func (vos) Platform() interp.Platform { return interp.Platform{OS: "verif", Arch: "verif"} }
func (vos) Stdin() interp.Input {
	// stdin is writable in fq (an *os.File): give the virtual one a sink instead of a nil Writer
	return vin{FileReader: interp.FileReader{R: bytes.NewBuffer(nil), FileInfo: interp.FixedFileInfo{FName: "stdin"}}, Writer: io.Discard}
}
func (vos) Stdout() interp.Output        { return vout{io.Discard} }
func (vos) Stderr() interp.Output        { return vout{io.Discard} }
func (vos) InterruptChan() chan struct{} { return nil }
func (vos) Environ() []string            { return []string{"NO_COLOR=1"} }
func (vos) Args() []string               { return []string{"fq", "-n", "."} }
func (vos) ConfigDir() (string, error)   { return "/config", nil }
func (v vos) FS() fs.FS                  { return v.fs }
func (vos) History() ([]string, error)   { return []string{"1+1"}, nil }
func (vos) Readline(interp.ReadlineOpts) (string, error) {
	return "", io.EOF
}

func newInterp() *interp.Interp {
	q, err := interp.New(vos{fs: memFS{files: map[string][]byte{"test.png": tinyPNG, "/test.png": tinyPNG}}}, interp.DefaultRegistry)
	if err != nil {
		panic(fmt.Sprintf("interp.New: %v", err))
	}
	return q
}
