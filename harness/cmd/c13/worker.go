//go:build verif

package main

import (
	"bufio"
	"context"
	"fmt"
	"os"
	"regexp"
	"runtime/debug"
	"runtime/metrics"
	"strconv"
	"strings"
	"sync"
	"sync/atomic"
	"syscall"
	"time"

	_ "github.com/wader/fq/format/all"
	"github.com/wader/fq/pkg/interp"
	"github.com/wader/gojq"
)

// ---- evaluation of `INPUT | try F(ARGS) catch .` inside the real interpreter ---------------

type evaluator struct {
	q *interp.Interp
}

func newEvaluator() *evaluator { return &evaluator{q: newInterp()} }

// evalValues: helper to build pool values with the interpreter itself (panics on any error)
func (e *evaluator) evalValues(input any, expr string) []any {
	it, err := e.q.Eval(context.Background(), input, expr, interp.EvalOpts{})
	if err != nil {
		panic(err)
	}
	var vs []any
	for {
		v, ok := it.Next()
		if !ok {
			break
		}
		if err, isErr := v.(error); isErr {
			panic(err)
		}
		vs = append(vs, v)
	}
	return vs
}

type wcase struct {
	id    string
	name  string
	arity int
	val   bool // append the first result value to the observation (functions the driver models)
	toks  []string
	in    any
	args  []any
}

// initStateExpr builds the interpreter's global state the way `_main` (interp.jq) does before
// it evaluates the user's expression for `fq -n EXPR test.png`: the option stack with fq's
// defaults, no include paths, one input file (in the virtual file system), no slurps.
const initStateExpr = `null
| _options_stack([_opt_build_default_fixed + {null_input: true, expr_given: true, filenames: ["test.png"]}]) as $_
| _include_paths([]) as $_
| _input_filenames(["test.png"]) as $_
| _slurps({}) as $_
| _global_state`

// callExpr: one output per case object {i: INPUT, a: [ARGS]}: {r: [first results]} or {e: 1}.
// The global state (options stack, input file list …) is reset to the initial state before
// every case so that a case line replays alone. Special pseudo functions exercise the index/slice syntax.
func callExpr(name string, arity int) string {
	var call string
	switch {
	case name == "@index" && arity == 1:
		call = ".[$__a[0]]"
	case name == "@slice" && arity == 2:
		call = ".[$__a[0]:$__a[1]]"
	default:
		call = name
		if arity > 0 {
			as := make([]string, arity)
			for i := range as {
				as[i] = fmt.Sprintf("$__a[%d]", i)
			}
			call += "(" + strings.Join(as, ";") + ")"
		}
	}
	return wrapCall(call)
}

func wrapCall(call string) string {
	return `.st as $__st | .cs[] | . as {i: $__i, a: $__a} | (null | _global_state($__st)) as $__s | $__i | try {r: [limit(` +
		strconv.Itoa(resultLimit) + `; ` + call + `)]} catch {e: 1}`
}

// runSecondOrder: the pseudo function `@so/1`: tokens `x:<producer>` `x:<consumer>` are jq source
// (no spaces); the case evaluates `null | PRODUCER | CONSUMER` — the result of one fq function as
// the input of a generic jq value method. One Eval per case.
func (w *worker) runSecondOrder(cs []wcase) {
	for _, c := range cs {
		if len(c.toks) != 2 || !strings.HasPrefix(c.toks[0], "x:") || !strings.HasPrefix(c.toks[1], "x:") {
			w.emit(c.id, "badcase")
			continue
		}
		expr := wrapCall("(" + c.toks[0][2:] + ") | (" + c.toks[1][2:] + ")")
		one := []wcase{c}
		n := w.runFrom(expr, one, 0)
		if w.lastTimedOut && n >= 1 {
			w.retrying = true
			w.runFrom(expr, one, 0)
			w.retrying = false
		}
	}
}

const resultLimit = 8

// a case that ignores cancellation is given this long (the memory watchdog may fire meanwhile:
// an evaluation that neither stops nor stays within memory is `resource:mem`)
const hangGrace = 12 * time.Second

var frameRe = regexp.MustCompile(`^([^\s(][^\n]*?)(\(.*\))?$`)

// topFrame: "the function at the top of the stack" of a recovered panic: the first frame
// below the runtime's panic machinery; if a frame of fq itself exists further down and the
// top one is not fq's, both are given (`strings.Repeat<format/toml.toTOML`).
func topFrame(stack string) string {
	lines := strings.Split(stack, "\n")
	start := 0
	for i, l := range lines {
		if strings.HasPrefix(l, "panic(") || strings.HasPrefix(l, "runtime.sigpanic") {
			start = i + 1
		}
	}
	var first, firstFq string
	for i := start; i < len(lines); i++ {
		l := lines[i]
		if l == "" || l[0] == '\t' || strings.HasPrefix(l, "goroutine ") {
			continue
		}
		fn := l
		if j := strings.LastIndex(fn, "("); j > 0 {
			fn = fn[:j]
		}
		fn = strings.TrimSuffix(fn, "[...]")
		if strings.HasPrefix(fn, "runtime.") || strings.HasPrefix(fn, "runtime/") || strings.HasPrefix(fn, "panic") {
			continue
		}
		if strings.Contains(fn, "verifharness") {
			break
		}
		if first == "" {
			first = fn
		}
		if strings.HasPrefix(fn, "github.com/wader/fq/") {
			firstFq = fn
			break
		}
	}
	trim := func(s string) string {
		s = strings.TrimPrefix(s, "github.com/wader/fq/")
		s = strings.ReplaceAll(s, " ", "")
		return strings.ReplaceAll(s, "[...]", "")
	}
	switch {
	case first == "":
		return "?"
	case firstFq == "" || firstFq == first:
		return trim(first)
	default:
		return trim(first) + "<" + trim(firstFq)
	}
}

type watchdog struct {
	mu       sync.Mutex
	cancel   context.CancelFunc
	deadline time.Time
	armed    bool
	fired    atomic.Bool
	hang     func() // called when cancellation did not help
}

func (w *watchdog) arm(cancel context.CancelFunc, d time.Duration) {
	w.mu.Lock()
	w.cancel, w.deadline, w.armed = cancel, time.Now().Add(d), true
	w.fired.Store(false)
	w.mu.Unlock()
}
func (w *watchdog) kick(d time.Duration) {
	w.mu.Lock()
	w.deadline = time.Now().Add(d)
	w.mu.Unlock()
}
func (w *watchdog) disarm() {
	w.mu.Lock()
	w.armed = false
	w.mu.Unlock()
}
// memTotal: bytes of memory the Go runtime has mapped (runtime/metrics: no stop-the-world, so it
// also answers while a goroutine sits in a multi-gigabyte memmove)
func memTotal() uint64 {
	s := []metrics.Sample{{Name: "/memory/classes/total:bytes"}, {Name: "/memory/classes/heap/released:bytes"}}
	metrics.Read(s)
	if s[0].Value.Kind() != metrics.KindUint64 || s[1].Value.Kind() != metrics.KindUint64 {
		return 0
	}
	return s[0].Value.Uint64() - s[1].Value.Uint64()
}

func (w *watchdog) loop(grace time.Duration, memLimit uint64, onMem func()) {
	var memAtCancel uint64
	for {
		time.Sleep(20 * time.Millisecond)
		w.mu.Lock()
		armed, dl, cancel := w.armed, w.deadline, w.cancel
		w.mu.Unlock()
		if armed && time.Now().After(dl) {
			if !w.fired.Load() {
				w.fired.Store(true)
				memAtCancel = memTotal()
				cancel()
			} else if time.Now().After(dl.Add(grace)) {
				// neither finished nor cancellable. `resource:mem` if it kept allocating all the
				// while (above 1 GiB and at least 512 MiB more than when it was cancelled: on
				// its way to the limit, only slowly on a loaded machine), else `resource:hang`
				if m := memTotal(); m > 1<<30 && m > memAtCancel+(512<<20) {
					onMem()
				}
				w.hang()
			}
		}
		if memTotal() > memLimit {
			onMem()
		}
	}
}

// forceValue reads a result value the way a consumer (tojson, display) would: JQValues are
// converted with JQValueToGoJQ, recursively. Huge binaries are not materialised.
func forceValue(v any, depth int) {
	if depth > 6 {
		return
	}
	switch v := v.(type) {
	case []any:
		for i, e := range v {
			if i >= 64 {
				break
			}
			forceValue(e, depth+1)
		}
	case map[string]any:
		n := 0
		for _, e := range v {
			if n++; n > 64 {
				break
			}
			forceValue(e, depth+1)
		}
	case gojq.JQValue:
		if _, l, _, pad, ok := interp.VerifC13BinaryFields(v); ok && (l > 1<<26 || pad > 1<<26 || l < 0) {
			return
		}
		forceValue(v.JQValueToGoJQ(), depth+1)
	}
}

type worker struct {
	ev      *evaluator
	pool    poolT
	out     *bufio.Writer
	wd      *watchdog
	timeout time.Duration
	cur     atomic.Value // id of the case being evaluated

	state        any             // the global state every case starts from
	slow         map[string]bool // fn \x00 pos \x00 token: combinations not evaluated any more
	lastTimedOut bool
	retrying     bool
}

func (w *worker) emit(id, obs string) {
	fmt.Fprintf(w.out, "%s\t%s\n", id, obs)
	w.out.Flush()
}

// runGroup evaluates cases (all of the same function/arity) in as few Evals as possible:
// a Go panic, an escaped error (halt, cancellation) or a timeout ends one Eval; the case that
// was running gets its class and the rest continues in a new Eval.
// After slowLimit timeouts with the same value in the same position, the remaining cases of
// this group with that value there are not evaluated (`resource:skipped`, counted as such):
// quadratic jq code on the 1 MiB string would otherwise cost one timeout per combination.
// runByteColor: the pseudo function `@bytecolor/1` (input: a byte_colors array, argument: a byte)
// calls decoratorFromOptions directly, under the same watchdog as every other case
func (w *worker) runByteColor(cs []wcase) {
	for _, c := range cs {
		w.cur.Store(c.id)
		w.wd.arm(func() {}, w.timeout)
		obs := func() (obs string) {
			defer func() {
				if r := recover(); r != nil {
					obs = "panic:" + topFrame(string(debug.Stack()))
				}
			}()
			b, ok := c.args[0].(int)
			if !ok {
				return "err"
			}
			s, err := interp.VerifC13ByteColor(cloneVal(c.in), b)
			if err != nil {
				return "err"
			}
			return "ok 1 " + tokOf(s)
		}()
		w.wd.disarm()
		w.emit(c.id, obs)
	}
}

func (w *worker) runGroup(cs []wcase) {
	if cs[0].name == "@bytecolor" {
		w.runByteColor(cs)
		return
	}
	if cs[0].name == "@so" {
		w.runSecondOrder(cs)
		return
	}
	expr := callExpr(cs[0].name, cs[0].arity)
	fnKey := cs[0].name + "/" + strconv.Itoa(cs[0].arity)
	seen, timed := map[string]int{}, map[string]int{}
	key := func(i int, t string) string { return fnKey + "\x00" + strconv.Itoa(i) + "\x00" + t }
	note := func(c wcase, timedOut bool) {
		for i, t := range c.toks {
			k := key(i, t)
			seen[k]++
			if timedOut {
				timed[k]++
				// the value is taken for the cause when it timed out slowLimit times and is either
				// large / composite or times out in at least a quarter of the cases it occurs in
				if timed[k] >= slowLimit && (heavyTok(t) || timed[k]*4 >= seen[k]) && !w.slow[k] {
					w.slow[k] = true
					fmt.Fprintf(w.out, "#slow\t%s\t%d\t%s\n", fnKey, i, t)
					w.out.Flush()
				}
			}
		}
	}
	rest := cs
	for len(rest) > 0 {
		keep := rest[:0:0]
		for _, c := range rest {
			skip := false
			for i, t := range c.toks {
				if w.slow[key(i, t)] {
					skip = true
				}
			}
			if skip {
				w.emit(c.id, "resource:skipped")
			} else {
				keep = append(keep, c)
			}
		}
		rest = keep
		if len(rest) == 0 {
			break
		}
		n := w.runFrom(expr, rest, 0)
		last := n - 1
		if w.lastTimedOut && n >= 1 {
			w.retrying = true
			w.runFrom(expr, rest[last:n], 0)
			w.retrying = false
		}
		for i := 0; i < n; i++ {
			note(rest[i], i == last && w.lastTimedOut)
		}
		rest = rest[n:]
	}
}

func heavyTok(t string) bool {
	return strings.HasPrefix(t, "O(") || strings.HasPrefix(t, "A(") || strings.HasPrefix(t, "S:") ||
		strings.HasPrefix(t, "dv:") || strings.HasPrefix(t, "bin:")
}

const slowLimit = 4

func (w *worker) runFrom(expr string, cs []wcase, from int) (next int) {
	w.lastTimedOut = false
	idx := from
	phase := "eval"
	ctx, cancel := context.WithCancel(context.Background())
	defer cancel()
	defer w.wd.disarm()
	defer func() {
		if r := recover(); r != nil {
			st := string(debug.Stack())
			cls := "panic:"
			if phase == "force" {
				cls = "panic@force:"
			}
			if idx < len(cs) {
				w.emit(cs[idx].id, cls+topFrame(st))
				fmt.Fprintf(os.Stderr, "recovered panic in case %s %s %v: %v\n%s\n", cs[idx].id, cs[idx].name, cs[idx].toks, r, st)
			}
			next = idx + 1
		}
	}()
	inputs := make([]any, 0, len(cs)-from)
	for _, c := range cs[from:] {
		inputs = append(inputs, map[string]any{"i": cloneVal(c.in), "a": cloneVal(c.args)})
	}
	batch := map[string]any{"st": cloneVal(w.state), "cs": inputs}
	w.cur.Store(cs[idx].id)
	// the watchdog is armed after the compilation (which loads every bundled jq source)
	it, err := w.ev.q.Eval(ctx, batch, expr, interp.EvalOpts{})
	if err != nil {
		// the call does not compile: a harness error, reported for every case of the group
		for _, c := range cs[from:] {
			w.emit(c.id, "nocompile "+strings.ReplaceAll(strings.ReplaceAll(err.Error(), "\n", " "), "\t", " "))
		}
		fmt.Fprintf(os.Stderr, "does not compile: %s: %v\n", expr, err)
		return len(cs)
	}
	timeout := w.timeout
	if w.retrying {
		timeout *= 2
	}
	w.wd.arm(cancel, timeout)
	for idx < len(cs) {
		phase = "eval"
		w.cur.Store(cs[idx].id)
		v, ok := it.Next()
		if !ok {
			// fewer outputs than cases: cannot happen with the try/catch wrapper
			w.emit(cs[idx].id, "nooutput")
			return idx + 1
		}
		if verr, isErr := v.(error); isErr {
			switch {
			case w.wd.fired.Load() || ctx.Err() != nil:
				// a first timeout inside a batch is retried alone with three times the budget
				// (a loaded machine must not turn a fast case into a resource class)
				w.lastTimedOut = true
				if w.retrying {
					w.emit(cs[idx].id, "resource:timeout")
				}
			default:
				if _, isHalt := verr.(interface{ ExitCode() int }); isHalt {
					w.emit(cs[idx].id, "halt")
				} else {
					w.emit(cs[idx].id, "uncaught")
				}
			}
			return idx + 1
		}
		m, _ := v.(map[string]any)
		switch {
		case m == nil:
			w.emit(cs[idx].id, "badresult")
		case m["e"] != nil:
			w.emit(cs[idx].id, "err")
		default:
			rs, _ := m["r"].([]any)
			phase = "force"
			forceValue(rs, 0)
			obs := fmt.Sprintf("ok %d", len(rs))
			if cs[idx].val {
				if len(rs) > 0 {
					obs += " " + tokOf(rs[0])
				} else {
					obs += " -"
				}
			}
			w.emit(cs[idx].id, obs)
		}
		idx++
		w.wd.kick(timeout)
	}
	return idx
}

// workerMain: `-worker IN OUT`: IN has lines `id TAB name TAB arity TAB val(0/1) TAB tok…`,
// OUT gets `id TAB observation` as soon as a case is done (the parent finds the case a dead
// worker was on as the first id without a line).
func workerMain(inPath, outPath string, timeout time.Duration, memLimit uint64) {
	debug.SetTraceback("all")
	// hard address-space limit well above the watchdog's heap limit: one enormous allocation
	// fails inside this process ("fatal error: out of memory") instead of waking the kernel's
	// OOM killer for the whole machine
	as := memLimit*2 + (4 << 30)
	_ = syscall.Setrlimit(syscall.RLIMIT_AS, &syscall.Rlimit{Cur: as, Max: as})
	f, err := os.Open(inPath)
	if err != nil {
		panic(err)
	}
	of, err := os.Create(outPath)
	if err != nil {
		panic(err)
	}
	w := &worker{ev: newEvaluator(), out: bufio.NewWriter(of), timeout: timeout, slow: map[string]bool{}}
	w.pool = buildPool(w.ev)
	st := w.ev.evalValues(nil, initStateExpr)
	if len(st) != 1 {
		panic("initial state")
	}
	w.state = st[0]
	w.cur.Store("")
	w.wd = &watchdog{hang: func() {
		w.emit(w.cur.Load().(string), "resource:hang")
		os.Exit(3)
	}}
	go w.wd.loop(hangGrace, memLimit, func() {
		w.emit(w.cur.Load().(string), "resource:mem")
		os.Exit(4)
	})

	var cs []wcase
	sc := bufio.NewScanner(f)
	sc.Buffer(make([]byte, 1<<20), 1<<26)
	for sc.Scan() {
		ps := strings.Split(sc.Text(), "\t")
		if len(ps) == 4 && ps[0] == "#slow" {
			w.slow[ps[1]+"\x00"+ps[2]+"\x00"+ps[3]] = true
			continue
		}
		if len(ps) < 5 {
			continue
		}
		ar, _ := strconv.Atoi(ps[2])
		c := wcase{id: ps[0], name: ps[1], arity: ar, val: ps[3] == "1", toks: ps[4:]}
		if len(c.toks) != ar+1 {
			w.emit(c.id, "badcase")
			continue
		}
		bad := false
		for i, t := range c.toks {
			if strings.HasPrefix(t, "x:") {
				// jq source of a second-order case: not a value
				if i == 0 {
					c.in = nil
				} else {
					c.args = append(c.args, nil)
				}
				continue
			}
			v, err := parseTok(t, w.pool)
			if err != nil {
				w.emit(c.id, "badtoken")
				fmt.Fprintf(os.Stderr, "bad token %q: %v\n", t, err)
				bad = true
				break
			}
			if i == 0 {
				c.in = v
			} else {
				c.args = append(c.args, v)
			}
		}
		if !bad {
			cs = append(cs, c)
		}
	}
	for i := 0; i < len(cs); {
		j := i
		for j < len(cs) && cs[j].name == cs[i].name && cs[j].arity == cs[i].arity {
			j++
		}
		w.runGroup(cs[i:j])
		i = j
	}
	w.out.Flush()
	of.Close()
}
