//go:build verif

package main

import (
	"fmt"
	"math/big"
	"runtime"
	"strings"
	"sync"

	"github.com/wader/fq/internal/pos"
	"github.com/wader/fq/internal/verifharness/hlib"
	"github.com/wader/fq/pkg/interp"
)

// ---- the dimension "Go's int is 64 bit and wraps" (FqModel/Total3.lean) ----------------------------
//
// Wherever fq multiplies / adds / shifts a user-supplied integer in Go int arithmetic before using it
// as a divisor, a length, an index or an allocation size, the interesting values are the ones at
// which the operation wraps: a product by 8 vanishes at k*2^61, becomes MinInt64 at 2^60, a sum
// changes sign at 2^63. The boundary pool of pool.go has none of them. Here: every 2^k, 2^k-1,
// 2^k+1 for k = 0..64, every m*2^60 (m = 1..16, which contains every k*2^61) and its two
// neighbours, all with both signs, as Go ints (big ints beyond int64), and the powers of two and
// odd multiples of 2^60 / 2^61 as float64 — in every integer argument position of the modelled
// functions (directed, both tiers).

type bval struct {
	tok string
	v   *big.Int // the exact value (floats here are integers)
	flt bool
}

func boundaryValues() []bval {
	seen := map[string]bool{}
	var out []bval
	addInt := func(b *big.Int) {
		for _, sg := range []int64{1, -1} {
			v := new(big.Int).Mul(b, big.NewInt(sg))
			var tok string
			if v.IsInt64() {
				tok = "n:" + v.String()
			} else {
				tok = "b:" + v.String()
			}
			if !seen[tok] {
				seen[tok] = true
				out = append(out, bval{tok: tok, v: v})
			}
		}
	}
	one := big.NewInt(1)
	for k := uint(0); k <= 64; k++ {
		p := new(big.Int).Lsh(one, k)
		addInt(new(big.Int).Sub(p, one))
		addInt(p)
		addInt(new(big.Int).Add(p, one))
	}
	for m := int64(1); m <= 16; m++ {
		q := new(big.Int).Lsh(big.NewInt(m), 60)
		addInt(new(big.Int).Sub(q, one))
		addInt(q)
		addInt(new(big.Int).Add(q, one))
	}
	addFlt := func(m int64, e uint) {
		for _, sg := range []int64{1, -1} {
			tok := fmt.Sprintf("f:%dp%d", sg*m, e)
			if !seen[tok] {
				seen[tok] = true
				out = append(out, bval{tok: tok, v: new(big.Int).Lsh(big.NewInt(sg*m), e), flt: true})
			}
		}
	}
	for k := uint(0); k <= 64; k++ {
		addFlt(1, k)
	}
	for _, m := range []int64{3, 5, 7, 9, 11, 13, 15} {
		addFlt(m, 60)
	}
	for _, m := range []int64{3, 5, 7} {
		addFlt(m, 61)
	}
	return out
}

// between: lo < v < hi
func (b bval) between(lo, hi int64) bool {
	return b.v.Cmp(big.NewInt(lo)) > 0 && b.v.Cmp(big.NewInt(hi)) < 0
}

var wrapOptMembers = []string{"addrbase", "array_truncate", "depth", "display_bytes", "line_bytes", "sizebase", "string_truncate"}

// wrapCases: the boundary values in every integer position of the modelled functions
func wrapCases(byKey map[string]int) []pcase {
	var cases []pcase
	add := func(key string, toks ...string) {
		fi, ok := byKey[key]
		if !ok {
			cases = append(cases, pcase{fn: -1, toks: []string{key, "directed-function-missing"}})
			return
		}
		cases = append(cases, pcase{fn: fi, toks: append([]string(nil), toks...)})
	}
	vals := boundaryValues()
	stdin := st("stdin")
	nested := "O(a=A(A(n:1)))"
	bin40, bin300 := dumpBinaryTok(40), dumpBinaryTok(300)
	each := func(f func(b bval)) {
		for _, b := range vals {
			f(b)
		}
	}
	// _tobits and its wrappers: unit * pad_to_units, pad - len % pad, pad + len
	each(func(b bval) {
		for _, in := range []string{"s:616263", "bin:a8/5/1", "s:-", "n:1", "bin:a8f0/13/1@3:11"} {
			add("tobytes/1", in, b.tok)
		}
	})
	each(func(b bval) {
		for _, in := range []string{"s:616263", "bin:a8/5/1", "s:-", "n:1"} {
			add("tobits/1", in, b.tok)
		}
	})
	each(func(b bval) {
		for _, u := range []string{"n:1", "n:8"} {
			add("_tobits/1", "s:616263", "O(pad_to_units="+b.tok+";unit="+u+")")
			add("_tobits/1", "bin:a8/5/1", "O(keep_range=true;pad_to_units="+b.tok+";unit="+u+")")
		}
		add("_tobits/1", "s:616263", "O(pad_to_units=n:3;unit="+b.tok+")")
		add("_tobits/1", "s:616263", "O(pad_to_units=n:2305843009213693952;unit="+b.tok+")")
	})
	// Binary index / slice: index * unit, (end - start) * unit, start + …
	// the last two are slices of a binary: their range starts at bit 16 / bit 3 of the reader
	bins := []string{"bin:fffe00/24/8", "bin:a8/5/1", "bin:-/0/8", "bin:fffe00/24/1", "bin:000102030405060708090a0b/96/8@2:9", "bin:a8f0/13/1@3:11"}
	each(func(b bval) {
		for _, bn := range bins {
			add("@index/1", bn, b.tok)
		}
	})
	each(func(b bval) {
		// floats take the same path as ints after gojq's toInt: open-ended shapes on one binary only
		if b.flt {
			add("@slice/2", bins[0], b.tok, "null")
			add("@slice/2", bins[0], "null", b.tok)
			return
		}
		for _, bn := range []string{bins[0], bins[4]} {
			add("@slice/2", bn, b.tok, "null")
			add("@slice/2", bn, "null", b.tok)
			add("@slice/2", bn, b.tok, b.tok)
			add("@slice/2", bn, "n:1", b.tok)
			add("@slice/2", bn, b.tok, "n:-1")
		}
		add("@slice/2", bins[1], b.tok, "null")
		add("@slice/2", bins[1], "n:1", b.tok)
	})
	// _stdio_read: make([]byte, l); lengths between 16 MiB and 1 GiB are accepted and would each be
	// allocated: the two ends (2^24, 2^30 and neighbours) are kept
	each(func(b bval) {
		if b.between(1<<24+1, 1<<30-1) {
			return
		}
		add("_stdio_read/2", "null", stdin, b.tok)
	})
	// radix / integer division (jq code over gojq's exact arithmetic)
	each(func(b bval) {
		add("to_radix/1", "n:255", b.tok)
		if !b.flt {
			add("to_radix/1", "n:2305843009213693952", b.tok)
			add("to_radix/1", "b:18446744073709551616", b.tok)
			for _, base := range []string{"n:2", "n:16", "n:64"} {
				add("to_radix/1", b.tok, base)
			}
		}
	})
	each(func(b bval) {
		add("from_radix/1", "s:3130", b.tok)
		if !b.flt {
			add("from_radix/1", "s:7a7a", b.tok)
		}
	})
	each(func(b bval) {
		if b.flt {
			return
		}
		add("intdiv/2", "null", b.tok, "n:3")
		add("intdiv/2", "null", "n:7", b.tok)
		add("intdiv/2", "null", b.tok, b.tok)
	})
	// bit operations: shift counts and operands
	each(func(b bval) {
		add("bsr/2", "null", "n:-1", b.tok)
		if !b.flt {
			add("bsr/2", "null", b.tok, "n:1")
			add("bsr/2", "null", b.tok, "n:63")
			add("bsr/2", "null", "b:18446744073709551616", b.tok)
		}
	})
	each(func(b bval) {
		add("bsl/2", "null", "n:0", b.tok)
		// counts between 2^24 and 2^31 are honoured with a result of that many bits: only the ends
		if !b.between(1<<24+1, 1<<31-1) {
			add("bsl/2", "null", "n:1", b.tok)
			add("bsl/2", "null", "n:-1", b.tok)
		}
		if !b.flt {
			add("bsl/2", "null", b.tok, "n:1")
			add("bsl/2", "null", b.tok, "n:3")
			add("bsl/2", "null", b.tok, "n:63")
			add("bsl/2", "null", b.tok, "n:64")
		}
	})
	for _, f := range []string{"band/2", "bor/2", "bxor/2"} {
		each(func(b bval) {
			if !b.flt {
				add(f, "null", b.tok, "n:-1")
			}
		})
	}
	each(func(b bval) { add("bnot/0", b.tok) })
	// indent options
	for _, f := range []string{"tojson/1", "to_toml/1", "to_xml/1", "to_yaml/1"} {
		each(func(b bval) { add(f, nested, "O(indent="+b.tok+")") })
	}
	// display options: every numeric member on the hex dump of a binary and on a decode value
	geomMember := map[string]bool{"addrbase": true, "display_bytes": true, "line_bytes": true, "sizebase": true}
	for _, m := range wrapOptMembers {
		each(func(b bval) {
			if !b.flt || geomMember[m] {
				add("hexdump/1", bin40, "O("+m+"="+b.tok+")")
			}
		})
	}
	for _, m := range wrapOptMembers {
		each(func(b bval) {
			if !b.flt && geomMember[m] {
				add("d/1", "dv:png=O()", "O("+m+"="+b.tok+")")
			}
		})
	}
	each(func(b bval) {
		add("hexdump/1", bin300, "O(display_bytes="+b.tok+")")
		add("hexdump/1", bin300, "O(display_bytes="+b.tok+";line_bytes=n:3)")
	})
	// byte_colors range ends
	each(func(b bval) {
		if b.flt {
			return
		}
		add("@bytecolor/1", byteColorsTok([2]string{"A(A(" + b.tok + ";n:255))", "red"}), "n:65")
		add("@bytecolor/1", byteColorsTok([2]string{"A(A(n:0;" + b.tok + "))", "red"}), "n:65")
	})
	return cases
}

// wrapDirectOps: the in-process ops on the boundary values: argument casts, option clamps, the bits
// format closure, the preview truncation, the line/column of an offset
func wrapDirectOps(o *hlib.Out, p poolT) {
	vals := boundaryValues()
	for _, b := range vals {
		v, err := parseTok(b.tok, p)
		if err != nil {
			o.Case("cast int "+b.tok, "badtoken")
			continue
		}
		castOps(o, b.tok, v)
		iv, _ := parseTok("O(indent="+b.tok+")", p)
		castIndentOp(o, "O(indent="+b.tok+")", iv)
		for _, m := range wrapOptMembers {
			t := "O(" + m + "=" + b.tok + ")"
			ov, _ := parseTok(t, p)
			optsOp(o, t, ov)
		}
		for _, t := range []string{"O(bits_format=s:736e6970706574;sizebase=" + b.tok + ")", "O(addrbase=" + b.tok + ";bits_format=s:736e6970706574)"} {
			ov, _ := parseTok(t, p)
			optsfmtOp(o, t, ov)
		}
		o.Stat("dim_wrap_direct_values", 1)
		if b.flt || !b.v.IsInt64() {
			continue
		}
		n := int(b.v.Int64())
		if n >= 0 {
			// previewValue sees the CLAMPED string_truncate (max(0, …), interp.go:1079)
			for _, s := range []string{truncStrings[0], "abc"} {
				previewOp(o, s, n)
			}
		}
		for _, s := range []string{"a\nbc\nd", ".a\n.b |"} {
			linecolOp(o, s, n)
		}
	}
}

func linecolOp(o *hlib.Out, s string, off int) {
	obs, panicked := hlib.Catch(func() string {
		p := pos.NewFromOffset(s, off)
		return fmt.Sprintf("ok %d %d", p.Line, p.Column)
	})
	if panicked {
		obs = "panic"
	}
	o.Case(fmt.Sprintf("linecol %s n:%d", st(s), off), obs)
	o.Stat("direct_linecol_cases", 1)
}

// ---- dumprange: the real hexdump on a bit range of a buffer, observed through its text ------------
//
//	dumprange <nbytes> <startBit> <sizeBits> <V options>  TAB  ok <bytes shown> <address lines> <start offset> | err | panic
//
// buffer byte i = i % 100 (never '|'); the options go through the real OptionsFromValue. The text
// is read back: address lines are the lines with a non-empty first column other than `*`, the bytes shown
// are the two-digit fields of their hex column, the start offset is the number of blank byte
// positions before the first one.

func dumprangeObs(nbytes int, startBit, sizeBits int64, optv any) string {
	obs, panicked := hlib.Catch(func() string {
		data := make([]byte, nbytes)
		for i := range data {
			data[i] = byte(i % 100)
		}
		// fq always passes its option object, which has a valid bits_format
		ov := cloneVal(optv)
		if m, ok := ov.(map[string]any); ok {
			if _, has := m["bits_format"]; !has {
				m["bits_format"] = "string"
			}
		}
		text, err := interp.VerifC13Hexdump(data, startBit, sizeBits, ov)
		if err != nil {
			return "err"
		}
		pairs, lines, off := 0, 0, -1
		for _, l := range strings.Split(text, "\n") {
			cols := strings.Split(l, "|")
			// address lines: a non-empty first column that is not the `*` of the "until" line
			// (the header line has an empty one)
			if a := strings.TrimSpace(cols[0]); len(cols) < 3 || a == "" || a == "*" {
				continue
			}
			lines++
			hexcol := cols[1]
			if off < 0 {
				lead := len(hexcol) - len(strings.TrimLeft(hexcol, " "))
				if strings.TrimSpace(hexcol) != "" {
					off = lead / 3
				}
			}
			pairs += len(strings.Fields(hexcol))
		}
		if off < 0 {
			off = 0
		}
		return fmt.Sprintf("ok %d %d %d", pairs, lines, off)
	})
	if panicked {
		return "panic"
	}
	return obs
}

type dumpGeom struct {
	nbytes          int
	startBit, nBits int64
}

func dumprangeOps(o *hlib.Out, p poolT, cfg hlib.Config) {
	geoms := []dumpGeom{
		{3, 0, 24}, {20, 8, 152}, {20, 3, 13}, {100, 0, 800}, {100, 64, 736}, {300, 8 * 33, 8 * 200}, {300, 255, 1}, {40, 8 * 31, 8 * 9},
		{20, 0, 160}, {100, 136, 8}, {100, 17 * 8, 300}, {300, 0, 2400}, {300, 256, 2144}, {1, 0, 1}, {40, 8 * 32, 8 * 8},
	}
	widths := []string{"", ";line_bytes=n:3", ";line_bytes=n:1"}
	wrapD := []string{"n:0", "n:1", "n:17", "n:1152921504606846976", "n:2305843009213693952"}
	nLB := 6
	if !cfg.Thorough() {
		// quick: six geometries x two widths; four geometries x two display_bytes for the line_bytes sweep
		geoms, widths, wrapD, nLB = geoms[:6], widths[:2], []string{"n:1", "n:2305843009213693952"}, 4
	}
	type job struct {
		g   dumpGeom
		t   string
		v   any
		obs string
	}
	var jobs []*job
	run := func(g dumpGeom, t string) {
		v, err := parseTok(t, p)
		j := &job{g: g, t: t, v: v}
		if err != nil {
			j.obs = "badtoken"
		}
		jobs = append(jobs, j)
	}
	vals := boundaryValues()
	// display_bytes: every boundary value x every geometry x the line widths
	for _, b := range vals {
		for _, g := range geoms {
			for _, w := range widths {
				run(g, "O(display_bytes="+b.tok+w+")")
			}
		}
	}
	// line_bytes: every boundary value (everything above 4096 is clamped to it: a sample of those)
	// x small geometries x display_bytes that wrap
	big4096 := 0
	for _, b := range vals {
		if b.v.Cmp(big.NewInt(4096)) > 0 {
			big4096++
			if big4096%16 != 1 {
				continue
			}
		}
		for _, g := range geoms[:nLB] {
			if b.v.Cmp(big.NewInt(4096)) > 0 && g.nbytes > 20 {
				continue
			}
			for _, d := range wrapD {
				run(g, "O(display_bytes="+d+";line_bytes="+b.tok+")")
			}
		}
	}
	// small exhaustive block: display_bytes 0..40 x line_bytes 1..9 on the 40 and 20 byte buffers
	for d := 0; d <= 40; d++ {
		for lb := 1; lb <= 9; lb++ {
			for _, g := range []dumpGeom{{40, 0, 320}, {40, 8 * 5, 8 * 30}, {20, 3, 150}} {
				run(g, fmt.Sprintf("O(display_bytes=n:%d;line_bytes=n:%d)", d, lb))
			}
		}
	}
	// hexdump is a pure function of its arguments: evaluated by a few goroutines, written in order
	nw := runtime.NumCPU() / 2
	if nw < 1 {
		nw = 1
	}
	if nw > 8 {
		nw = 8
	}
	var wg sync.WaitGroup
	for w := 0; w < nw; w++ {
		wg.Add(1)
		go func(w int) {
			defer wg.Done()
			for i := w; i < len(jobs); i += nw {
				if j := jobs[i]; j.obs == "" {
					j.obs = dumprangeObs(j.g.nbytes, j.g.startBit, j.g.nBits, j.v)
				}
			}
		}(w)
	}
	wg.Wait()
	for _, j := range jobs {
		o.Case(fmt.Sprintf("dumprange %d %d %d %s", j.g.nbytes, j.g.startBit, j.g.nBits, j.t), j.obs)
		o.Stat("direct_dumprange_cases", 1)
		o.Class(fmt.Sprintf("dumprange %d %d %s", j.g.nbytes, j.g.startBit, strings.Fields(j.obs)[0]))
	}
}
