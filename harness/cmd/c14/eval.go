//go:build verif

package main

import (
	"bytes"
	"context"
	"fmt"
	"io"
	"io/fs"
	"math/big"
	"sort"
	"strings"
	"time"

	_ "github.com/wader/fq/format/all"
	"github.com/wader/fq/internal/bitiox"
	"github.com/wader/fq/internal/gojqx"
	"github.com/wader/fq/internal/verifharness/hlib"
	"github.com/wader/fq/pkg/bitio"
	"github.com/wader/fq/pkg/interp"
)

// ---- a virtual OS for interp.New (as format/fuzz_test.go does)

type nofs struct{}

func (nofs) Open(name string) (fs.File, error) { return nil, fmt.Errorf("%s: file not found", name) }

type vin struct {
	interp.FileReader
	io.Writer
}

func (vin) IsTerminal() bool { return false }
func (vin) Size() (int, int) { return 120, 25 }

type vout struct{ io.Writer }

func (vout) Size() (int, int) { return 120, 25 }
func (vout) IsTerminal() bool { return false }

type vos struct{}

func (vos) Platform() interp.Platform { return interp.Platform{} }
func (vos) Stdin() interp.Input {
	return vin{FileReader: interp.FileReader{R: bytes.NewBuffer(nil)}}
}
func (vos) Stdout() interp.Output                        { return vout{io.Discard} }
func (vos) Stderr() interp.Output                        { return vout{io.Discard} }
func (vos) InterruptChan() chan struct{}                 { return nil }
func (vos) Environ() []string                            { return nil }
func (vos) Args() []string                               { return []string{"fq", "-n", "."} }
func (vos) ConfigDir() (string, error)                   { return "/config", nil }
func (vos) FS() fs.FS                                    { return nofs{} }
func (vos) History() ([]string, error)                   { return nil, nil }
func (vos) Readline(interp.ReadlineOpts) (string, error) { return "", io.EOF }

type evaluator struct{ q *interp.Interp }

func newEvaluator() *evaluator {
	q, err := interp.New(vos{}, interp.DefaultRegistry)
	if err != nil {
		panic(err)
	}
	e := &evaluator{q: q}
	// what _main does before evaluating a program (pkg/interp/init.jq:178): push the default
	// options; `tovalue`, used to turn decode values into plain jq values, reads them.
	if r, st := e.tryRun("_options_stack([_opt_build_default_fixed]) | length", []any{nil}); st != runOK || len(r) != 1 {
		panic("cannot initialise the interpreter's option stack")
	}
	return e
}

// run evaluates `.[] | expr` over inputs; expr must emit exactly one value per input.
// A batch that panics, does not finish in time (a conversion function that never terminates, e.g.
// to_radix(1) before /repo 1a4271bf) or yields a wrong number of outputs is bisected until the
// offending inputs are isolated.
func (e *evaluator) run(expr string, inputs []any) []any {
	res, st := e.tryRun(expr, inputs)
	if st == runOK && len(res) == len(inputs) {
		return res
	}
	if len(inputs) == 1 {
		switch {
		case st == runPanic:
			return []any{panicMark{}}
		case st == runTimeout:
			return []any{timeoutMark{}}
		default:
			return []any{countMark{len(res)}}
		}
	}
	h := len(inputs) / 2
	return append(e.run(expr, inputs[:h]), e.run(expr, inputs[h:])...)
}

type panicMark struct{}
type timeoutMark struct{}
type countMark struct{ n int }

const (
	runOK = iota
	runPanic
	runTimeout
)

func (e *evaluator) tryRun(expr string, inputs []any) (res []any, st int) {
	defer func() {
		if r := recover(); r != nil {
			st = runPanic
		}
	}()
	ctx, cancel := context.WithTimeout(context.Background(), 5*time.Second+time.Duration(len(inputs))*20*time.Millisecond)
	defer cancel()
	it, err := e.q.Eval(ctx, inputs, ".[] | "+expr, interp.EvalOpts{})
	if err != nil {
		panic(fmt.Sprintf("harness expression does not compile: %s: %v", expr, err))
	}
	for {
		v, more := it.Next()
		if !more {
			break
		}
		if _, isErr := v.(error); isErr {
			// an error that escaped try/catch (a halt, or the deadline): the batch is cut short
			if ctx.Err() != nil {
				return res, runTimeout
			}
			return res, runOK
		}
		res = append(res, v)
	}
	if ctx.Err() != nil {
		return res, runTimeout
	}
	return res, runOK
}

// ---- value conversion

func mkBinary(b []byte, nbits int) any {
	unit := 8
	if nbits%8 != 0 {
		unit = 1
	}
	bin, err := interp.NewBinaryFromBitReader(bitio.NewBitReader(b, int64(nbits)), unit, 0)
	if err != nil {
		panic(err)
	}
	return bin
}

// obsOf renders a jq result value: string -> hex of its bytes, binary -> hex (with /nbits when
// not byte aligned), integer -> decimal.
func obsOf(v any) string {
	switch v := v.(type) {
	case string:
		return hlib.Hex([]byte(v))
	case int:
		return fmt.Sprintf("%d", v)
	case *big.Int:
		return v.String()
	case interp.Binary:
		br, err := interp.ToBitReader(v)
		if err != nil {
			return "?toBitReader"
		}
		n, err := bitiox.Len(br)
		if err != nil {
			return "?len"
		}
		b, err := io.ReadAll(bitio.NewIOReader(br))
		if err != nil {
			return "?read"
		}
		if n%8 != 0 {
			return fmt.Sprintf("%s/%d", hlib.Hex(b), n)
		}
		return hlib.Hex(b)
	case panicMark:
		return "panic"
	case timeoutMark:
		return "timeout"
	case countMark:
		return fmt.Sprintf("?outputs=%d", v.n)
	default:
		return fmt.Sprintf("?type=%T", v)
	}
}

// rtObs renders the result of rtExpr: [] = to_F failed, [t] = from_F failed, [t,d]
func rtObs(v any) string {
	a, ok := v.([]any)
	if !ok {
		return obsOf(v)
	}
	switch len(a) {
	case 0:
		return "err"
	case 1:
		return obsOf(a[0]) + " err"
	default:
		return obsOf(a[0]) + " " + obsOf(a[1])
	}
}

func decObs(v any) string {
	a, ok := v.([]any)
	if !ok {
		return obsOf(v)
	}
	if len(a) == 0 {
		return "err"
	}
	return obsOf(a[0])
}

func jsonRtObs(v any) string {
	a, ok := v.([]any)
	if !ok {
		return obsOf(v)
	}
	switch len(a) {
	case 0:
		return "err"
	case 1:
		return obsOf(a[0]) + " err"
	default:
		return obsOf(a[0]) + " " + wireOf(a[1])
	}
}

func jsonDecObs(v any) string {
	a, ok := v.([]any)
	if !ok {
		return obsOf(v)
	}
	if len(a) == 0 {
		return "err"
	}
	return wireOf(a[0])
}

// xmlSeqObs renders [object form with #seq, array form after to_xml] of <r>…</r> as
// `name:seq/text;seq/text|name:… name/text,name/text,…`
func xmlSeqObs(v any) string {
	a, ok := v.([]any)
	if !ok {
		return obsOf(v)
	}
	if len(a) != 2 {
		return "err"
	}
	str := func(v any) string {
		switch v := v.(type) {
		case string:
			return v
		case int:
			return fmt.Sprintf("%d", v)
		case nil:
			return "-"
		}
		return fmt.Sprintf("?%T", v)
	}
	one := func(c any) string { // a child value: "text" or {"#seq":i,"#text":"t"}
		switch c := c.(type) {
		case string:
			return "-/" + c
		case map[string]any:
			return str(c["#seq"]) + "/" + str(c["#text"])
		}
		return fmt.Sprintf("?%T", c)
	}
	groups := "-"
	if o, ok := a[0].(map[string]any); ok {
		if r, ok := o["r"].(map[string]any); ok {
			keys := make([]string, 0, len(r))
			for k := range r {
				keys = append(keys, k)
			}
			sort.Strings(keys)
			var gs []string
			for _, k := range keys {
				var items []string
				if arr, ok := r[k].([]any); ok {
					for _, c := range arr {
						items = append(items, one(c))
					}
				} else {
					items = append(items, one(r[k]))
				}
				gs = append(gs, k+":"+strings.Join(items, ";"))
			}
			groups = strings.Join(gs, "|")
		} else if s, ok := o["r"].(string); !ok || s != "" {
			groups = fmt.Sprintf("?r=%v", o["r"])
		}
	} else {
		groups = "?notobject"
	}
	order := "-"
	if arr, ok := a[1].([]any); ok && len(arr) == 3 {
		if cs, ok := arr[2].([]any); ok && len(cs) > 0 {
			var items []string
			for _, c := range cs {
				ce, _ := c.([]any)
				if len(ce) != 3 {
					items = append(items, "?")
					continue
				}
				txt := "-"
				if m, ok := ce[1].(map[string]any); ok {
					txt = str(m["#text"])
				}
				items = append(items, str(ce[0])+"/"+txt)
			}
			order = strings.Join(items, ",")
		}
	} else {
		order = "?notarray"
	}
	return groups + " " + order
}

func rtExpr(to, from string) string {
	return fmt.Sprintf("try ((%s) as $t | try [$t, ($t | %s)] catch [$t]) catch []", to, from)
}
func decExpr(from string) string { return fmt.Sprintf("try [%s] catch []", from) }

type codecDef struct {
	to, from string
	in       string // "bin" | "str"
}

var codecs = map[string]codecDef{
	"hex":       {"to_hex", "from_hex", "bin"},
	"b64std":    {"to_base64", "from_base64", "bin"},
	"b64url":    {`to_base64({encoding:"url"})`, `from_base64({encoding:"url"})`, "bin"},
	"b64rawstd": {`to_base64({encoding:"rawstd"})`, `from_base64({encoding:"rawstd"})`, "bin"},
	"b64rawurl": {`to_base64({encoding:"rawurl"})`, `from_base64({encoding:"rawurl"})`, "bin"},
	"urlq":      {"to_urlencode", "from_urlencode", "str"},
	"urlp":      {"to_urlpath", "from_urlpath", "str"},
	"latin1":    {"to_iso8859_1", "from_iso8859_1", "str"},
	"utf8":      {"to_utf8", "from_utf8", "str"},
	"utf16":     {"to_utf16", "from_utf16", "str"},
	"utf16le":   {"to_utf16le", "from_utf16le", "str"},
	"utf16be":   {"to_utf16be", "from_utf16be", "str"},
}

// codecs whose decoder takes a binary (the others take a string)
var decTakesBinary = map[string]bool{"latin1": true, "utf8": true, "utf16": true, "utf16le": true, "utf16be": true}

var hashes = map[string]string{"md4": "to_md4", "md5": "to_md5", "sha1": "to_sha1", "sha256": "to_sha256", "sha512": "to_sha512",
	"sha3_224": "to_sha3_224", "sha3_256": "to_sha3_256", "sha3_384": "to_sha3_384", "sha3_512": "to_sha3_512"}

func parseBin(s string) (any, error) {
	h, n, ok := strings.Cut(s, "/")
	if !ok {
		return nil, fmt.Errorf("bad bin %q", s)
	}
	b := hlib.UnHex(h)
	var nbits int
	if _, err := fmt.Sscanf(n, "%d", &nbits); err != nil || nbits > len(b)*8 || nbits+8 <= len(b)*8 {
		return nil, fmt.Errorf("bad bin %q", s)
	}
	return mkBinary(b, nbits), nil
}

func binOp(b []byte, nbits int) string { return fmt.Sprintf("%s/%d", hlib.Hex(b), nbits) }

func parseInt(s string) (any, error) {
	n, ok := new(big.Int).SetString(s, 10)
	if !ok {
		return nil, fmt.Errorf("bad int %q", s)
	}
	if n.IsInt64() {
		return int(n.Int64()), nil
	}
	return n, nil
}

type parsed struct {
	expr   string
	input  any
	render func(any) string
	direct func() string // evaluated by a direct Go call instead of a jq expression
}

// parseOp: op text -> jq expression (group key), Go input value, result renderer
func parseOp(op string) (p parsed, err error) {
	defer func() {
		if r := recover(); r != nil {
			err = fmt.Errorf("bad op %q: %v", op, r)
		}
	}()
	ws := strings.Fields(op)
	if len(ws) < 3 {
		return p, fmt.Errorf("bad op %q", op)
	}
	name, dir := ws[0], ws[1]
	if dir == "lrt" || dir == "lhash" {
		return parseLargeOp(ws)
	}
	if dir == "prt" && len(ws) == 4 {
		// <txt codec> prt <hex of string> <cuts|->: to_F, cut the bytes at `cuts` into an array binary, from_F
		c, ok := codecs[name]
		if !ok || !decTakesBinary[name] {
			return p, fmt.Errorf("bad prt codec in %q", op)
		}
		cuts := []any{}
		if ws[3] != "-" {
			for _, x := range strings.Split(ws[3], ",") {
				n, err := parseInt(x)
				if err != nil {
					return p, err
				}
				cuts = append(cuts, n)
			}
		}
		expr := `. as [$s,$cuts] | try [($s | ` + c.to + `) as $t | [range(($cuts|length)+1) as $i | $t[(if $i == 0 then 0 else $cuts[$i-1] end):(if $i == ($cuts|length) then ($t|length) else $cuts[$i] end)]] | ` + c.from + `] catch []`
		return parsed{expr: expr, input: []any{string(hlib.UnHex(ws[2])), cuts}, render: decObs}, nil
	}
	switch {
	case name == "radix" && dir == "rt" && len(ws) == 4:
		b, err1 := parseInt(ws[2])
		n, err2 := parseInt(ws[3])
		if err1 != nil || err2 != nil {
			return p, fmt.Errorf("bad op %q", op)
		}
		pre := `. as [$b,$n] | `
		if bi, ok := b.(int); !ok || bi < 2 {
			// to_radix with a base below 2 used not to terminate: keep these in a batch of their own
			pre = `. as [$b,$n] | "base<2" as $_ | `
		}
		return parsed{expr: pre + rtExpr("$n | to_radix($b)", "from_radix($b)"), input: []any{b, n}, render: rtObs}, nil
	case name == "radix" && dir == "dec" && len(ws) == 4:
		b, err1 := parseInt(ws[2])
		if err1 != nil {
			return p, err1
		}
		return parsed{expr: `. as [$b,$t] | ` + decExpr("$t | from_radix($b)"), input: []any{b, string(hlib.UnHex(ws[3]))}, render: decObs}, nil
	case name == "json" && dir == "rt" && len(ws) == 3:
		return parsed{expr: rtExpr("tojson", "fromjson | tovalue"), input: parseWire(ws[2]), render: jsonRtObs}, nil
	case (name == "jsonind" || name == "jqlitind") && dir == "rt" && len(ws) == 4:
		n, err1 := parseInt(ws[2])
		if err1 != nil {
			return p, err1
		}
		to, from := "$x | tojson({indent: $n})", "fromjson | tovalue"
		if name == "jqlitind" {
			to, from = "$x | to_jq({indent: $n})", "from_jq"
		}
		return parsed{expr: `. as [$n,$x] | ` + rtExpr(to, from), input: []any{n, parseWire(ws[3])}, render: jsonRtObs}, nil
	case name == "normint" && len(ws) == 3:
		// gojqx.ToGoJQValue on a Go integer of the given static type: `int:<v>` or `big:<v>`
		kind, dec := ws[1], ws[2]
		n, ok := new(big.Int).SetString(dec, 10)
		if !ok {
			return p, fmt.Errorf("bad op %q", op)
		}
		var in any
		switch kind {
		case "int":
			if !n.IsInt64() {
				return p, fmt.Errorf("bad op %q", op)
			}
			in = int(n.Int64())
		case "int64":
			if !n.IsInt64() {
				return p, fmt.Errorf("bad op %q", op)
			}
			in = n.Int64()
		case "uint64":
			if !n.IsUint64() {
				return p, fmt.Errorf("bad op %q", op)
			}
			in = n.Uint64()
		case "big":
			in = n
		default:
			return p, fmt.Errorf("bad op %q", op)
		}
		return parsed{direct: func() string {
			r, _ := hlib.Catch(func() string {
				v, err := gojqx.ToGoJQValue(in)
				if err != nil {
					return "err"
				}
				switch v := v.(type) {
				case int:
					return fmt.Sprintf("int:%d", v)
				case *big.Int:
					return "big:" + v.String()
				}
				return fmt.Sprintf("?%T", v)
			})
			return r
		}}, nil
	case name == "csvopt" && dir == "rt" && len(ws) == 4:
		return parsed{expr: `. as [$c,$x] | ` + rtExpr(`$x | to_csv({comma: $c})`, `from_csv({comma: $c}) | tovalue`),
			input: []any{string(hlib.UnHex(ws[2])), parseWire(ws[3])}, render: jsonRtObs}, nil
	case name == "csvdelim" && dir == "rt" && len(ws) == 3:
		return parsed{expr: `. as $c | ` + rtExpr(`[["a","b"]] | to_csv({comma: $c})`, `from_csv({comma: $c}) | tovalue`),
			input: string(hlib.UnHex(ws[2])), render: jsonRtObs}, nil
	case name == "csv" && dir == "rt" && len(ws) == 3:
		return parsed{expr: rtExpr("to_csv", "from_csv | tovalue"), input: parseWire(ws[2]), render: jsonRtObs}, nil
	case name == "csv" && dir == "dec" && len(ws) == 3:
		return parsed{expr: decExpr("from_csv | tovalue"), input: string(hlib.UnHex(ws[2])), render: jsonDecObs}, nil
	case name == "xmlarr" && dir == "rt" && len(ws) == 3:
		return parsed{expr: decExpr("to_xml | from_xml({array: true}) | tovalue"), input: parseWire(ws[2]), render: jsonDecObs}, nil
	case name == "xmlseq" && dir == "rt" && len(ws) == 3:
		var sb strings.Builder
		sb.WriteString("<r>")
		if ws[2] != "-" {
			for i, n := range strings.Split(ws[2], ",") {
				fmt.Fprintf(&sb, "<%s>%d</%s>", n, i, n)
			}
		}
		sb.WriteString("</r>")
		return parsed{expr: "try (from_xml({seq: true}) | tovalue | [., (to_xml | from_xml({array: true}) | tovalue)]) catch []", input: sb.String(), render: xmlSeqObs}, nil
	case name == "urlquery" && dir == "rt" && len(ws) == 3:
		return parsed{expr: rtExpr("to_urlquery", "from_urlquery"), input: parseWire(ws[2]), render: jsonRtObs}, nil
	case name == "urlquery" && dir == "dec" && len(ws) == 3:
		return parsed{expr: decExpr("from_urlquery"), input: string(hlib.UnHex(ws[2])), render: jsonDecObs}, nil
	case name == "jqlit" && dir == "rt" && len(ws) == 3:
		return parsed{expr: rtExpr("to_jq", "from_jq"), input: parseWire(ws[2]), render: jsonRtObs}, nil
	case name == "json" && dir == "dec" && len(ws) == 3:
		return parsed{expr: decExpr("fromjson | tovalue"), input: string(hlib.UnHex(ws[2])), render: jsonDecObs}, nil
	case dir == "hash" && len(ws) == 3:
		fn, ok := hashes[name]
		if !ok {
			return p, fmt.Errorf("unknown hash in %q", op)
		}
		in, err := parseBin(ws[2])
		if err != nil {
			return p, err
		}
		return parsed{expr: decExpr(fn), input: in, render: decObs}, nil
	}
	c, ok := codecs[name]
	if !ok || len(ws) != 3 {
		return p, fmt.Errorf("unknown codec in %q", op)
	}
	switch dir {
	case "rt":
		var in any
		if c.in == "bin" {
			in, err = parseBin(ws[2])
			if err != nil {
				return p, err
			}
		} else {
			in = string(hlib.UnHex(ws[2]))
		}
		return parsed{expr: rtExpr(c.to, c.from), input: in, render: rtObs}, nil
	case "dec":
		b := hlib.UnHex(ws[2])
		var in any = string(b)
		if decTakesBinary[name] {
			in = mkBinary(b, len(b)*8)
		}
		return parsed{expr: decExpr(c.from), input: in, render: decObs}, nil
	}
	return p, fmt.Errorf("bad op %q", op)
}

const batchSize = 20000

// evalOps evaluates all ops (grouped by expression, batched) and writes the case lines in
// the order given.
func (e *evaluator) evalOps(o *hlib.Out, ops []string) {
	type group struct {
		idx    []int
		inputs []any
	}
	groups := map[string]*group{}
	var order []string
	ps := make([]parsed, len(ops))
	obs := make([]string, len(ops))
	for i, op := range ops {
		p, err := parseOp(op)
		if err != nil {
			obs[i] = "?unparsable-op"
			continue
		}
		ps[i] = p
		if p.direct != nil {
			obs[i] = p.direct()
			continue
		}
		g := groups[p.expr]
		if g == nil {
			g = &group{}
			groups[p.expr] = g
			order = append(order, p.expr)
		}
		g.idx = append(g.idx, i)
		g.inputs = append(g.inputs, p.input)
	}
	for _, expr := range order {
		g := groups[expr]
		for s := 0; s < len(g.idx); s += batchSize {
			t := min(s+batchSize, len(g.idx))
			res := e.run(expr, g.inputs[s:t])
			for k, v := range res {
				i := g.idx[s+k]
				obs[i] = ps[i].render(v)
			}
		}
	}
	for i, op := range ops {
		o.Case(op, obs[i])
	}
}
