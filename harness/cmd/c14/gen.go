//go:build verif

package main

import (
	"fmt"
	"math/big"
	"unicode/utf8"

	"github.com/wader/fq/internal/verifharness/hlib"
)

var binCodecs = []string{"hex", "b64std", "b64url", "b64rawstd", "b64rawurl"}
var urlCodecs = []string{"urlq", "urlp"}
var txtCodecs = []string{"latin1", "utf8", "utf16", "utf16le", "utf16be"}
var hashNames = []string{"md4", "md5", "sha1", "sha256", "sha512", "sha3_224", "sha3_256", "sha3_384", "sha3_512"}

type gen struct {
	ops []string
	o   *hlib.Out
	r   *hlib.Rand
}

// add records an op; nontrivial ops are counted as distinct classes (rule in lib/props/C14.json:
// the input is non-empty).
func (g *gen) add(nontrivial bool, format string, a ...any) {
	op := fmt.Sprintf(format, a...)
	g.ops = append(g.ops, op)
	if nontrivial {
		g.o.Class(op)
	}
}

func hx(b []byte) string { return hlib.Hex(b) }

// random unicode string: mixes ASCII, Latin-1, BMP, astral, and code points next to the
// surrogate gap / encoding-length boundaries. Never contains surrogates (not a Go string rune).
func randRune(r *hlib.Rand, maxClass int) rune {
	switch r.Intn(maxClass) {
	case 0:
		return rune(r.Range(0x20, 0x7e))
	case 1:
		return rune(r.Range(0, 0xff))
	case 2:
		edges := []rune{0, 0x7f, 0x80, 0xff, 0x100, 0x7ff, 0x800, 0xd7ff, 0xe000, 0xfeff, 0xfffd, 0xfffe, 0xffff, 0x10000, 0x10ffff, '%', '+', ' ', '/', '"', '\\', '\n'}
		return edges[r.Intn(len(edges))]
	case 3:
		for {
			c := rune(r.Range(0x100, 0xffff))
			if c < 0xd800 || c > 0xdfff {
				return c
			}
		}
	default:
		return rune(r.Range(0x10000, 0x10ffff))
	}
}

func randString(r *hlib.Rand, n int, maxClass int) string {
	rs := make([]rune, n)
	for i := range rs {
		rs[i] = randRune(r, maxClass)
	}
	return string(rs)
}

func randLen(r *hlib.Rand) int {
	switch r.Intn(4) {
	case 0:
		return r.Range(0, 16)
	case 1:
		return r.Range(0, 100)
	case 2:
		return r.Range(0, 1000)
	default:
		return r.Range(0, 4096)
	}
}

// all strings over alphabet of length exactly n
func overAlphabet(alpha []byte, n int, f func([]byte)) {
	buf := make([]byte, n)
	var rec func(i int)
	rec = func(i int) {
		if i == n {
			f(buf)
			return
		}
		for _, c := range alpha {
			buf[i] = c
			rec(i + 1)
		}
	}
	rec(0)
}

func genCodecOps(cfg hlib.Config, part string, r *hlib.Rand, o *hlib.Out) []string {
	g := &gen{o: o, r: r}
	want := func(p string) bool { return part == "" || part == "codecs" || part == p }
	th := cfg.Thorough()
	scale := 1
	if th {
		scale = 5
	}
	for _, p := range []struct {
		name string
		f    func(g *gen, th bool, scale int)
	}{{"bin", genBin}, {"url", genURL}, {"url", genURLQuery}, {"txt", genTxt}, {"radix", genRadix}, {"hash", genHash}, {"json", genJSON}, {"xml", genXML}, {"csv", genCSV}} {
		if want(p.name) {
			p.f(g, th, scale)
		}
	}
	return g.ops
}

func genBin(g *gen, th bool, scale int) {
	r, o := g.r, g.o

	// ---------- binary -> text codecs: round trips
	for _, c := range binCodecs {
		g.add(false, "%s rt -/0", c)
		// all byte strings of length <= 2
		for a := 0; a < 256; a++ {
			g.add(true, "%s rt %s", c, binOp([]byte{byte(a)}, 8))
		}
		for a := 0; a < 65536; a++ {
			g.add(true, "%s rt %s", c, binOp([]byte{byte(a >> 8), byte(a)}, 16))
		}
		// all non-byte-aligned bit strings of length <= 11 (quick) / 15 (thorough)
		maxBits := 11
		if th {
			maxBits = 15
		}
		for n := 1; n <= maxBits; n++ {
			if n%8 == 0 {
				continue
			}
			for v := 0; v < 1<<n; v++ {
				w := v << (16 - n)
				b := []byte{byte(w >> 8), byte(w)}
				g.add(true, "%s rt %s", c, binOp(b[:(n+7)/8], n))
			}
		}
		// every length 3..70 (base64 mod 3 classes, the 8- and 4-symbol fast paths of Decode)
		for n := 3; n <= 70; n++ {
			for k := 0; k < 2*scale; k++ {
				g.add(true, "%s rt %s", c, binOp(r.Bytes(n), n*8))
			}
		}
		// random up to 4 KiB, byte aligned and not
		for k := 0; k < 150*scale; k++ {
			n := randLen(r)
			b := r.Bytes(n)
			nbits := n * 8
			if n > 0 && r.Intn(3) == 0 {
				nbits -= r.Range(1, 7)
				b[n-1] &= 0xff << (n*8 - nbits)
			}
			g.add(n > 0, "%s rt %s", c, binOp(b, nbits))
		}
		g.add(true, "%s rt %s", c, binOp(r.Bytes(4096), 4096*8))
	}
	o.Stat("exhaustive_small_domain", 1)
	genLargeBin(g, th)

	// ---------- binary -> text codecs: decoders on arbitrary / malformed text
	// alphabet for the exhaustive short texts: symbols, both special pairs, padding, newlines,
	// hex digits of both cases, a non-hex letter, space, a non-ASCII byte
	small := []byte("AQg=-_+/\n\r fF09%\x80")
	for _, c := range binCodecs {
		g.add(false, "%s dec -", c)
		for a := 0; a < 256; a++ {
			g.add(true, "%s dec %s", c, hx([]byte{byte(a)}))
		}
		for a := 0; a < 65536; a++ {
			g.add(true, "%s dec %s", c, hx([]byte{byte(a >> 8), byte(a)}))
		}
		for n := 3; n <= 4; n++ {
			alpha := small
			if n == 4 && !th {
				alpha = []byte("AQ=-_+/\n g") // quick tier: 11^4 instead of 18^4 texts
			}
			overAlphabet(alpha, n, func(b []byte) { g.add(true, "%s dec %s", c, hx(b)) })
		}
		// lengths 5..12 over a tiny alphabet: padding position rules across the 4/8-symbol fast paths
		tiny := []byte("AQ=\n-+")
		for k := 0; k < 3000*scale; k++ {
			n := r.Range(5, 12)
			b := make([]byte, n)
			for i := range b {
				b[i] = tiny[r.Intn(len(tiny))]
			}
			// bias: mostly symbols
			for i := range b {
				if r.Intn(3) != 0 {
					b[i] = "AQgw"[r.Intn(4)]
				}
			}
			g.add(true, "%s dec %s", c, hx(b))
		}
	}
	// mutations of valid encodings (computed with an independent encoder below): truncation at
	// every point, one substituted byte, inserted newline, padding removed/added, other alphabet
	for _, c := range binCodecs {
		for k := 0; k < 120*scale; k++ {
			n := r.Range(0, 40)
			if k%10 == 0 {
				n = r.Range(0, 600)
			}
			txt := refEncode(c, r.Bytes(n))
			g.add(true, "%s dec %s", c, hx(txt))
			if len(txt) == 0 {
				continue
			}
			if n <= 40 {
				for cut := 0; cut < len(txt); cut++ {
					g.add(true, "%s dec %s", c, hx(txt[:cut]))
				}
			}
			for m := 0; m < 6; m++ {
				b := append([]byte(nil), txt...)
				p := r.Intn(len(b))
				switch r.Intn(7) {
				case 0:
					b[p] = byte(r.U64())
				case 1:
					b = append(b[:p], append([]byte{"\n\r"[r.Intn(2)]}, b[p:]...)...)
				case 2:
					b = append(b, '=')
				case 3:
					for len(b) > 0 && b[len(b)-1] == '=' {
						b = b[:len(b)-1]
					}
				case 4:
					for i := range b {
						switch b[i] {
						case '+':
							b[i] = '-'
						case '/':
							b[i] = '_'
						case '-':
							b[i] = '+'
						case '_':
							b[i] = '/'
						}
					}
				case 5:
					b[p] = "=%gGzZ \t"[r.Intn(8)]
				case 6:
					if b[p] >= 'a' && b[p] <= 'z' {
						b[p] -= 32
					} else if b[p] >= 'A' && b[p] <= 'Z' {
						b[p] += 32
					}
				}
				g.add(true, "%s dec %s", c, hx(b))
			}
		}
	}

}

func genURL(g *gen, th bool, scale int) {
	r := g.r
	// ---------- URL escaping
	urlSmall := []byte("%+ aF4g/;,?@~\xc3\xa9")
	for _, c := range urlCodecs {
		g.add(false, "%s rt -", c)
		g.add(false, "%s dec -", c)
		for a := 0; a < 256; a++ {
			g.add(true, "%s rt %s", c, hx([]byte{byte(a)}))
			g.add(true, "%s dec %s", c, hx([]byte{byte(a)}))
		}
		for a := 0; a < 65536; a++ {
			g.add(true, "%s rt %s", c, hx([]byte{byte(a >> 8), byte(a)}))
			g.add(true, "%s dec %s", c, hx([]byte{byte(a >> 8), byte(a)}))
		}
		// all "%XY" for all bytes X, Y
		for a := 0; a < 65536; a++ {
			g.add(true, "%s dec %s", c, hx([]byte{'%', byte(a >> 8), byte(a)}))
		}
		for n := 3; n <= 4; n++ {
			overAlphabet(urlSmall, n, func(b []byte) { g.add(true, "%s dec %s", c, hx(b)) })
		}
		for k := 0; k < 300*scale; k++ {
			n := randLen(r) / 4
			s := randString(r, n, 5)
			g.add(n > 0, "%s rt %s", c, hx([]byte(s)))
			// arbitrary bytes too: a Go string need not be UTF-8
			b := r.Bytes(randLen(r) / 4)
			g.add(len(b) > 0, "%s rt %s", c, hx(b))
			m := make([]byte, r.Range(5, 30))
			for i := range m {
				m[i] = urlSmall[r.Intn(len(urlSmall))]
			}
			g.add(true, "%s dec %s", c, hx(m))
		}
	}

}

// URL query strings: to_urlquery | from_urlquery on objects string -> string | [>= 2 strings]
// (repeated keys), from_urlquery on arbitrary text
func genURLQuery(g *gen, th bool, scale int) {
	r := g.r
	g.add(false, "urlquery rt {}")
	g.add(false, "urlquery dec -")
	special := []string{"", "a", "&", "=", ";", "+", " ", "%", "%41", "a=b&c", "é", "\xff", "#", "?", "/"}
	// every key of <= 1 byte with special values, single and repeated
	for a := -1; a < 256; a++ {
		k := ""
		if a >= 0 {
			k = string([]byte{byte(a)})
		}
		for _, v := range special {
			g.add(true, "urlquery rt %s", wireOf(map[string]any{k: v}))
		}
		g.add(true, "urlquery rt %s", wireOf(map[string]any{k: []any{"1", k, ""}, "k" + k: []any{k, k}}))
	}
	for _, k := range special {
		for _, v := range special {
			g.add(true, "urlquery rt %s", wireOf(map[string]any{k: []any{v, k}, "z": v}))
		}
	}
	rs := func() string {
		switch r.Intn(3) {
		case 0:
			return special[r.Intn(len(special))]
		case 1:
			return randString(r, r.Range(0, 6), 5)
		default:
			return string(r.Bytes(r.Range(0, 4)))
		}
	}
	for k := 0; k < 3000*scale; k++ {
		q := map[string]any{}
		for i := r.Intn(5); i > 0; i-- {
			if r.Intn(2) == 0 {
				a := []any{}
				for j := r.Range(2, 5); j > 0; j-- {
					a = append(a, rs())
				}
				q[rs()] = a
			} else {
				q[rs()] = rs()
			}
		}
		g.add(len(q) > 0, "urlquery rt %s", wireOf(q))
	}
	// from_urlquery: all texts of <= 2 bytes, all texts of length 3..5 (thorough: 6) over a small alphabet
	for a := 0; a < 256; a++ {
		g.add(true, "urlquery dec %s", hx([]byte{byte(a)}))
	}
	for a := 0; a < 65536; a++ {
		g.add(true, "urlquery dec %s", hx([]byte{byte(a >> 8), byte(a)}))
	}
	alpha := []byte("&=;%+a1A")
	maxN := 5
	if th {
		maxN = 6
	}
	for n := 3; n <= maxN; n++ {
		overAlphabet(alpha, n, func(b []byte) { g.add(true, "urlquery dec %s", hx(b)) })
	}
	for k := 0; k < 2000*scale; k++ {
		n := r.Range(6, 40)
		b := make([]byte, n)
		for i := range b {
			switch r.Intn(4) {
			case 0:
				b[i] = "&=;%+"[r.Intn(5)]
			case 1:
				b[i] = byte(r.U64())
			default:
				b[i] = "abc012DEF"[r.Intn(9)]
			}
		}
		g.add(true, "urlquery dec %s", hx(b))
	}
}

func genTxt(g *gen, th bool, scale int) {
	r := g.r
	// ---------- text encodings
	for _, c := range txtCodecs {
		g.add(false, "%s rt -", c)
		g.add(false, "%s dec -", c)
		// every single code point up to U+08FF, around the surrogate gap, BMP end, astral samples
		for cp := rune(0); cp <= 0x8ff; cp++ {
			g.add(true, "%s rt %s", c, hx([]byte(string(cp))))
		}
		for _, cp := range []rune{0xd7ff, 0xe000, 0xfeff, 0xfffd, 0xfffe, 0xffff, 0x10000, 0x10001, 0x103ff, 0x10400, 0xfffff, 0x100000, 0x10fffe, 0x10ffff} {
			g.add(true, "%s rt %s", c, hx([]byte(string(cp))))
			g.add(true, "%s rt %s", c, hx([]byte("a"+string(cp)+"b")))
		}
		for k := 0; k < 300*scale; k++ {
			n := randLen(r) / 4
			maxClass := 5
			if c == "latin1" && k%4 != 0 {
				maxClass = 2 // mostly encodable strings
			}
			g.add(n > 0, "%s rt %s", c, hx([]byte(randString(r, n, maxClass))))
		}
		// decoders: all byte strings of length <= 2, structured 3..4, random
		for a := 0; a < 256; a++ {
			g.add(true, "%s dec %s", c, hx([]byte{byte(a)}))
		}
		for a := 0; a < 65536; a++ {
			g.add(true, "%s dec %s", c, hx([]byte{byte(a >> 8), byte(a)}))
		}
		// UTF-8 lead/continuation classes and UTF-16 surrogate/BOM bytes
		cls := []byte{0x00, 0x41, 0x7f, 0x80, 0x8f, 0x90, 0x9f, 0xa0, 0xbf, 0xc0, 0xc2, 0xdf, 0xe0, 0xe1, 0xed, 0xee, 0xef, 0xf0, 0xf1, 0xf4, 0xf5, 0xff, 0xfe, 0xd8, 0xdb, 0xdc}
		for n := 3; n <= 4; n++ {
			if n == 4 && !th {
				for k := 0; k < 40000; k++ {
					b := make([]byte, 4)
					for i := range b {
						b[i] = cls[r.Intn(len(cls))]
					}
					g.add(true, "%s dec %s", c, hx(b))
				}
				continue
			}
			overAlphabet(cls, n, func(b []byte) { g.add(true, "%s dec %s", c, hx(b)) })
		}
		for k := 0; k < 400*scale; k++ {
			n := randLen(r)
			if k%2 == 0 {
				n = r.Range(5, 12)
			}
			var b []byte
			switch r.Intn(3) {
			case 0:
				b = r.Bytes(n)
			case 1:
				b = make([]byte, n)
				for i := range b {
					b[i] = cls[r.Intn(len(cls))]
				}
			default:
				// valid text with a few damaged bytes
				b = []byte(randString(r, n/2, 5))
				for d := r.Intn(3); d > 0 && len(b) > 0; d-- {
					b[r.Intn(len(b))] = byte(r.U64())
				}
				if r.Bool() && len(b) > 0 {
					b = b[:r.Intn(len(b))]
				}
			}
			g.add(len(b) > 0, "%s dec %s", c, hx(b))
		}
	}
	genTxtPieces(g, th)
}

func genRadix(g *gen, th bool, scale int) {
	r := g.r
	// ---------- radix
	big300 := new(big.Int).Lsh(big.NewInt(1), 300)
	randBig := func() *big.Int {
		bits := r.Range(1, 300)
		n := new(big.Int).SetBytes(r.Bytes(38))
		n.Mod(n, new(big.Int).Lsh(big.NewInt(1), uint(bits)))
		return n
	}
	// bases outside 2..64: to_radix is an error ("base too small" / "base too large")
	for _, b := range []int{0, 1, 65, 100} {
		for _, n := range []string{"0", "5", "18446744073709551616"} {
			g.add(true, "radix rt %d %s", b, n)
		}
		for _, t := range []string{"0", "1", "10", "_"} {
			g.add(true, "radix dec %d %s", b, hx([]byte(t)))
		}
	}
	for b := 2; b <= 64; b++ {
		lim := 130
		if th {
			lim = 1100
		}
		for n := 0; n <= lim; n++ {
			g.add(n > 0, "radix rt %d %d", b, n)
		}
		// powers of the base and neighbours, 2^63 / 2^64 boundaries (int -> big.Int in gojq)
		p := big.NewInt(1)
		for e := 0; p.Cmp(big300) < 0; e++ {
			if e < 5 || e%7 == 0 || th {
				for d := int64(-1); d <= 1; d++ {
					g.add(true, "radix rt %d %s", b, new(big.Int).Add(p, big.NewInt(d)).String())
				}
			}
			p = new(big.Int).Mul(p, big.NewInt(int64(b)))
		}
		for _, s := range []string{"9223372036854775806", "9223372036854775807", "9223372036854775808", "18446744073709551615", "18446744073709551616", "9007199254740992", "9007199254740993"} {
			g.add(true, "radix rt %d %s", b, s)
		}
		for k := 0; k < 12*scale; k++ {
			g.add(true, "radix rt %d %s", b, randBig().String())
		}
		g.add(true, "radix rt %d %s", b, new(big.Int).Sub(big300, big.NewInt(1)).String())
		g.add(true, "radix rt %d %s", b, big300.String())
		// from_radix on arbitrary text: table characters (incl. digits >= base), leading zeros,
		// characters outside the table, empty
		table := "0123456789abcdefghijklmnopqrstuvwxyzABCDEFGHIJKLMNOPQRSTUVWXYZ@_"
		g.add(false, "radix dec %d -", b)
		for i := 0; i < len(table); i++ {
			g.add(true, "radix dec %d %s", b, hx([]byte{table[i]}))
			g.add(true, "radix dec %d %s", b, hx([]byte{'0', table[i]}))
			g.add(true, "radix dec %d %s", b, hx([]byte{'1', table[i]}))
		}
		for _, bad := range []string{"-", "-1", "+1", " ", "1 ", " 1", "1.5", "1e3", "0x10", "é", "1é", "!", "1,000", "\x00", "١"} {
			g.add(true, "radix dec %d %s", b, hx([]byte(bad)))
		}
		for k := 0; k < 40*scale; k++ {
			n := r.Range(1, 60)
			t := make([]byte, n)
			for i := range t {
				if r.Intn(20) == 0 {
					t[i] = "-+ .!é"[r.Intn(6)]
				} else if r.Intn(3) == 0 {
					t[i] = table[r.Intn(len(table))]
				} else {
					t[i] = table[r.Intn(b)]
				}
			}
			if !utf8.Valid(t) {
				t = []byte(string([]rune(string(t)))) // replace the lone 'é' byte by U+FFFD: jq strings are text
			}
			g.add(true, "radix dec %d %s", b, hx(t))
		}
	}

}

func genHash(g *gen, th bool, scale int) {
	r := g.r
	// ---------- hashes vs the Lean reference implementations
	for _, h := range hashNames {
		g.add(false, "%s hash -/0", h)
		// every length 0..300 (all padding/block-boundary cases of MD5/SHA-1/SHA-256: 55,56,63,64,…;
		// SHA-512: 111,112,127,128,…; SHA-3 rates 144,136,104,72 and their multiples)
		for n := 1; n <= 300; n++ {
			g.add(true, "%s hash %s", h, binOp(r.Bytes(n), n*8))
		}
		for a := 0; a < 256; a++ {
			g.add(true, "%s hash %s", h, binOp([]byte{byte(a)}, 8))
		}
		for k := 0; k < 40*scale; k++ {
			n := randLen(r)
			b := r.Bytes(n)
			nbits := n * 8
			if n > 0 && r.Intn(4) == 0 {
				nbits -= r.Range(1, 7)
				b[n-1] &= 0xff << (n*8 - nbits)
			}
			g.add(n > 0, "%s hash %s", h, binOp(b, nbits))
		}
	}
	genLargeHash(g, th)
}

func genJSON(g *gen, th bool, scale int) {
	r := g.r
	// ---------- gojqx.ToGoJQValue's integer demotion rule, on every static Go integer type
	for _, e := range intEdges {
		n, _ := new(big.Int).SetString(e, 10)
		for d := int64(-2); d <= 2; d++ {
			m := new(big.Int).Add(n, big.NewInt(d))
			g.add(true, "normint big %s", m)
			if m.IsInt64() {
				g.add(true, "normint int %s", m)
				g.add(true, "normint int64 %s", m)
			}
			if m.IsUint64() {
				g.add(true, "normint uint64 %s", m)
			}
		}
	}
	for k := 0; k < 300*scale; k++ {
		m := new(big.Int).SetBytes(r.Bytes(r.Range(1, 12)))
		if r.Bool() {
			m.Neg(m)
		}
		g.add(true, "normint big %s", m)
	}
	jg := &jsonGen{r: r, intBits: 300}
	// ---------- JSON text: tojson | fromjson on the int/string/array/object/bool/null fragment
	for _, w := range []string{"n", "t", "f", "i0", "i-1", "s-", "[]", "{}", "[[]]", "[{}]", "{s-:n}", "{s61:[i1,{s62:s63}]}"} {
		g.add(true, "json rt %s", w)
	}
	// every single code point up to U+0100 as a string and as a key (escaping rules)
	for cp := rune(0); cp <= 0x100; cp++ {
		g.add(true, "json rt %s", wireOf(string(cp)))
		g.add(true, "json rt %s", wireOf(map[string]any{string(cp): "x" + string(cp)}))
	}
	for _, s := range jsonStringPool {
		g.add(true, "json rt %s", wireOf(s))
		g.add(true, "json rt %s", wireOf([]any{s, map[string]any{s: s}}))
	}
	for k := 0; k < 3000*scale; k++ {
		g.add(true, "json rt %s", wireOf(jg.value(r.Range(0, 5))))
	}
	// ---------- jq literal: to_jq | from_jq (same values; keys of every shape: identifiers, jq
	// keywords, non-identifiers, empty)
	kg := &jsonGen{r: r, intBits: 300, keyFn: func(r *hlib.Rand) string {
		pool := []string{"", "a", "_", "_a1", "A9", "true", "false", "null", "and", "or", "not", "if", "then", "else", "end", "reduce", "foreach", "def", "as", "import", "include", "label", "try", "catch", "__loc__", "9a", "a-b", "a.b", "a b", "é", "a\n", "$a", "@a", "a:", "\"a\""}
		if r.Intn(3) == 0 {
			return identKey(r)
		}
		if r.Intn(4) == 0 {
			return defaultStr(r)
		}
		return pool[r.Intn(len(pool))]
	}}
	for _, w := range []string{"n", "t", "f", "i0", "i-1", "i-123456789012345678901234567890", "s-", "[]", "{}", "[s-]", "{s-:s-}", "{s-:i-1}", "{s61:[i1,{s62:s63}]}", "[i-1,[i-2,{s61:i-3}]]"} {
		g.add(true, "jqlit rt %s", w)
	}
	for cp := rune(0); cp <= 0x100; cp++ {
		g.add(true, "jqlit rt %s", wireOf(string(cp)))
		g.add(true, "jqlit rt %s", wireOf(map[string]any{string(cp): 1, "a" + string(cp): 2, string(cp) + "a": -3}))
	}
	for k := 0; k < 3000*scale; k++ {
		g.add(true, "jqlit rt %s", wireOf(kg.value(r.Range(0, 5))))
	}
	for k := 0; k < 300*scale; k++ {
		g.add(true, "json rt %s", wireOf(jg.integer()))
	}
	// arrays of objects nested in arrays of objects (depth <= 4), empty containers at every
	// position, keys that need quoting, integers at the int32 / 2^53 / int64 / uint64 edges
	for k := 0; k < 600*scale; k++ {
		v := wireOf(jg.aoo(r.Range(1, 4)))
		g.add(true, "json rt %s", v)
		g.add(true, "jqlit rt %s", v)
		g.add(true, "jsonind rt 2 %s", v)
		g.add(true, "jqlitind rt 2 %s", v)
	}
	for _, e := range intEdges {
		w := wireOf(map[string]any{"a": mustInt(e), "l": []any{mustInt(e), []any{map[string]any{"n": mustInt(e)}}}})
		g.add(true, "json rt %s", w)
		g.add(true, "jqlit rt %s", w)
	}
	// ---------- indented output: tojson({indent:n}) | fromjson, to_jq({indent:n}) | from_jq
	for _, w := range []string{"n", "i-1", "s-", "[]", "{}", "[[]]", "[{}]", "{s-:[]}", "[i1]", "[i1,i2]", "{s61:i1}", "{s61:i1,s62:[i2,{s63:n,s2d:[[]]}]}", "[[[[i1]]]]"} {
		for _, n := range []int{0, 1, 2, 3, 7} {
			g.add(true, "jsonind rt %d %s", n, w)
			g.add(true, "jqlitind rt %d %s", n, w)
		}
	}
	for k := 0; k < 1000*scale; k++ {
		n := []int{1, 2, 2, 3, 4, 8}[r.Intn(6)]
		g.add(true, "jsonind rt %d %s", n, wireOf(jg.value(r.Range(1, 5))))
		g.add(true, "jqlitind rt %d %s", n, wireOf(kg.value(r.Range(1, 5))))
	}
	// ---------- fromjson on handwritten and damaged texts
	hand := []string{
		"", " ", "null", " null ", "nul", "nulll", "null null", "null,", "true", "false", "tru", "True",
		"0", "-0", "1", "-1", "01", "-01", "00", "-", "+1", "--1", "1 2", "12345678901234567890123456789",
		"-12345678901234567890123456789", "9223372036854775807", "9223372036854775808", "-9223372036854775808", "-9223372036854775809",
		"0x10", "1a", "Infinity", "NaN",
		"1.5", "1.", "1e", "1e+", "1e3", "1E3", "1e+3", "1e-3", "-0.0", "0.5e-3", ".5", "1.e1", "1.5.5", "1e3e3", "[1.5,2]", "[1.,2]", "{\"a\":1e2}", "1e3\"", "-1.5e10 ",
		`""`, `"a"`, `"a`, `a"`, `'a'`, `"\""`, `"\\"`, `"\/"`, `"\b\f\n\r\t"`, `"\a"`, `"\"`, `"\u0041"`, `"\u004"`, `"\u00zz"`, `"\U0041"`,
		`"\ud83d\ude00"`, `"\uD83D\uDE00"`, `"\ud83d"`, `"\ude00"`, `"\ud83dx"`, `"\ud83d\u0041"`, `"\ud83d\ud83d\ude00"`, `"\ude00\ud83d"`, `"\ud83d\ude0"`,
		"\"\x00\"", "\"\x1f\"", "\"\n\"", "\"\t\"", "\"\x7f\"", `"é"`, `"\u00e9"`, "\"\U0001F600\"",
		"[]", "[ ]", "[", "]", "[,]", "[1]", "[1,]", "[,1]", "[1,2]", "[1 2]", "[1,,2]", "[[]]", "[[]", "[]]", "[1][2]", " [ 1 , 2 ] ", "\t[\n1\r,\n2]\n",
		"{}", "{ }", "{", "}", `{"a":1}`, `{"a":1,}`, `{,"a":1}`, `{"a"}`, `{"a":}`, `{"a" 1}`, `{a:1}`, `{1:1}`, `{"a":1 "b":2}`, `{"a":1,"b":2}`, `{"b":2,"a":1}`,
		`{"a":1,"a":2}`, `{"a":{"a":1,"a":[2]},"a":3}`, `{"":null}`, ` { "a" : [ { } ] } `, `{"a":1}}`, `{{}}`, `[{]}`,
		"\ufeffnull", "null\x00", "\x0cnull", "\u00a0null", "//c\n1", "/*c*/1",
	}
	for _, t := range hand {
		g.add(true, "json dec %s", hx([]byte(t)))
	}
	for k := 0; k < 400*scale; k++ {
		v := jg.value(r.Range(0, 4))
		txt := refJSON(v, r)
		g.add(true, "json dec %s", hx([]byte(txt)))
		if len(txt) <= 60 {
			for cut := 0; cut < len(txt); cut++ {
				t := txt[:cut]
				if utf8Valid(t) {
					g.add(true, "json dec %s", hx([]byte(t)))
				}
			}
		}
		for m := 0; m < 6 && len(txt) > 0; m++ {
			b := []byte(txt)
			p := r.Intn(len(b))
			switch r.Intn(4) {
			case 0:
				const sub = "[]{},:\"\\ \n01-tfnu'"
				b[p] = sub[r.Intn(len(sub))]
			case 1:
				b = append(b[:p], b[p+1:]...)
			case 2:
				b = append(b[:p], append([]byte{"[]{},:\" 0"[r.Intn(9)]}, b[p:]...)...)
			case 3:
				b = append(b, " ]}\"0,x"[r.Intn(7)])
			}
			if utf8Valid(string(b)) {
				g.add(true, "json dec %s", hx(b))
			}
		}
	}
}

// XML: array form through to_xml | from_xml({array:true}) (canonical trees and the shapes
// toXMLFromArray tolerates), and the #seq grouping / ordering rule of the object form
func genXML(g *gen, th bool, scale int) {
	r := g.r
	// ---------- array form: handwritten shapes
	for _, w := range []string{
		"[s61,n,[]]", "[s61]", "[s61,[]]", "[s61,{}]", "[s61,{},[]]", "[n,s61]", "[s-,s61,s62]", "[t]", "[]", "[s-]", "[{}]", "[[]]", "[n]",
		"[s61,{s6b:i1,s6c:n,s6d:t,s6e:[i1],s6f:{s61:i1}},[]]", "[s61,{s2374657874:i5},[]]", "[s61,{s2374657874:n},[]]", "[s61,{s2374657874:[i1]},[]]",
		"[s61,n,[[s62],s6a756e6b,i1,n,[s63,n,[]],[],[s-],{s61:i1}]]", "[s61,{s6b:s76},[[s62,n,[]]],{s7a:s79},[[s63,n,[]]]]",
		"[s61,{s2374657874:s20},[]]", "[s61,{s2374657874:s200a0920},[]]", "[s61,{s2374657874:s2078200a},[]]", "[s61,{s2374657874:sc2a0},[]]", "[s61,{s2374657874:sc2a078c2a0},[]]",
		"[s61,{s2374657874:s0b},[]]", "[s61,{s2374657874:s0c},[]]", "[s61,{s2374657874:s00},[]]", "[s61,{s2374657874:s61016200},[]]", "[s61,{s2374657874:se280a878e28080},[]]",
		"[s61,{s2374657874:s3c263e2227},[]]", "[s61,{s6b:s3c263e22270a090d20},[]]", "[s61,{s6b:s207820},[]]", "[s61,{s6b:s-,s2374657874:s-},[]]",
		"[s61,{s2374657874:s610d0a62},[]]", "[s61,{s2374657874:sefbfbe},[]]", "[s61,{s2374657874:sf09f9880},[]]", "[s412e62,{s612d62:s31,s5f63:s32},[]]",
		"[s61,{s2374657874:s74},[[s62,{s2374657874:s75},[]],[s62,n,[]]]]",
	} {
		g.add(true, "xmlarr rt %s", w)
	}
	// every code point up to U+0100 (and specials) as text and as attribute value
	cps := []rune{0x85, 0xa0, 0x1680, 0x2000, 0x200a, 0x2028, 0x2029, 0x202f, 0x205f, 0x3000, 0xd7ff, 0xe000, 0xfffd, 0xfffe, 0xffff, 0x10000, 0x10ffff, 0xfeff}
	for cp := rune(0); cp <= 0x100; cp++ {
		cps = append(cps, cp)
	}
	for _, cp := range cps {
		s := string(cp)
		g.add(true, "xmlarr rt %s", wireOf([]any{"a", map[string]any{"#text": s, "k": s}, []any{}}))
		g.add(true, "xmlarr rt %s", wireOf([]any{"a", map[string]any{"#text": "x" + s + "y", "k": s + "z" + s}, []any{}}))
		g.add(true, "xmlarr rt %s", wireOf([]any{"a", map[string]any{"#text": s + "x" + s}, []any{}}))
	}
	txt := func() string {
		switch r.Intn(4) {
		case 0:
			return xmlText(r)
		case 1:
			return defaultStr(r)
		case 2:
			return " \t\n"[r.Intn(3):][:1] + defaultStr(r) + "  "
		default:
			return ""
		}
	}
	xname := func() string {
		const a = "abcdefghijklmnopqrstuvwyzABC_"
		n := r.Range(1, 5)
		b := make([]byte, n)
		for i := range b {
			b[i] = a[r.Intn(len(a))]
			if i > 0 && r.Intn(5) == 0 {
				b[i] = "0123456789.-_"[r.Intn(13)]
			}
		}
		return string(b)
	}
	var tree func(depth int, sloppy bool) any
	tree = func(depth int, sloppy bool) any {
		var attrs any
		m := map[string]any{}
		for i := r.Intn(3); i > 0; i-- {
			var v any = txt()
			if sloppy {
				switch r.Intn(5) {
				case 0:
					v = r.Range(-3, 99999)
				case 1:
					v = nil
				case 2:
					v = r.Bool()
				}
			}
			m[xname()] = v
		}
		if r.Intn(2) == 0 {
			m["#text"] = txt()
		}
		if len(m) > 0 || (sloppy && r.Intn(4) == 0) {
			attrs = m
		}
		children := []any{}
		if depth > 0 {
			pool := []string{xname(), xname(), xname()}
			for i := r.Intn(5); i > 0; i-- {
				c := tree(depth-1, sloppy).([]any)
				c[0] = pool[r.Intn(3)]
				children = append(children, c)
				if sloppy && r.Intn(6) == 0 {
					children = append(children, []any{"junk", nil, 7}[r.Intn(3)])
				}
			}
		}
		e := []any{xname(), attrs, children}
		if sloppy {
			switch r.Intn(6) {
			case 0:
				e = []any{e[0], e[2], e[1]}
			case 1:
				e = []any{e[0], e[2]}
			case 2:
				e = append(e, "extra", map[string]any{"x": "y"}, []any{})
			}
		}
		return e
	}
	for k := 0; k < 1500*scale; k++ {
		g.add(true, "xmlarr rt %s", wireOf(tree(r.Range(0, 3), k%3 == 0)))
	}
	// ---------- #seq: every sequence of <= 6 children named a/b/c, random longer ones (> 12
	// children: the sort's non-insertion path) with 1..4 distinct names
	g.add(false, "xmlseq rt -")
	names := []string{"a", "b", "c"}
	var rec func(n int, cur []string)
	rec = func(n int, cur []string) {
		if len(cur) > 0 {
			g.add(true, "xmlseq rt %s", joinComma(cur))
		}
		if n == 0 {
			return
		}
		for _, x := range names {
			rec(n-1, append(append([]string(nil), cur...), x))
		}
	}
	rec(6, nil)
	pool := []string{"a", "b", "c", "d", "zz", "A"}
	for k := 0; k < 600*scale; k++ {
		n := r.Range(7, 60)
		p := pool[:r.Range(1, 4)]
		cur := make([]string, n)
		for i := range cur {
			cur[i] = p[r.Intn(len(p))]
		}
		g.add(true, "xmlseq rt %s", joinComma(cur))
	}
}

func joinComma(s []string) string {
	out := ""
	for i, x := range s {
		if i > 0 {
			out += ","
		}
		out += x
	}
	return out
}

// CSV: to_csv | from_csv on rectangular string tables, from_csv on arbitrary text
func genCSV(g *gen, th bool, scale int) {
	r := g.r
	g.add(false, "csv rt []")
	g.add(false, "csv dec -")
	alpha := []string{"a", ",", "\"", "\n", "\r", "#", " ", "\\", ".", "\t", "\u00a0", "\u2028", "é"}
	// every single field of <= 3 symbols, alone and next to others
	var fields []string
	var rec func(n int, cur string)
	rec = func(n int, cur string) {
		fields = append(fields, cur)
		if n == 0 {
			return
		}
		for _, x := range alpha {
			rec(n-1, cur+x)
		}
	}
	depth := 2
	if th {
		depth = 3
	}
	rec(depth, "")
	for _, f := range fields {
		g.add(true, "csv rt %s", wireOf([]any{[]any{f}}))
		g.add(true, "csv rt %s", wireOf([]any{[]any{"x", f}, []any{f, ""}}))
	}
	cell := func() string {
		switch r.Intn(4) {
		case 0:
			return fields[r.Intn(len(fields))]
		case 1:
			return defaultStr(r)
		case 2:
			return ""
		default:
			return randString(r, r.Range(0, 5), 1)
		}
	}
	for k := 0; k < 1500*scale; k++ {
		rows, cols := r.Range(0, 4), r.Range(1, 4)
		tbl := make([]any, rows)
		for i := range tbl {
			row := make([]any, cols)
			for j := range row {
				row[j] = cell()
			}
			tbl[i] = row
		}
		g.add(rows > 0, "csv rt %s", wireOf(tbl))
	}
	// tables through to_csv({comma:c}) | from_csv({comma:c}) for other delimiters, in particular white
	// space ones (tab, space) with EMPTY cells and cells that start with white space
	for _, c := range []string{"\t", " ", ";", "|", "x", "§", "\x0b", "\x0c"} {
		for _, t := range [][][]string{{{"", "a"}, {"", "b"}}, {{"a", ""}, {"", ""}}, {{"", "", "a"}}, {{" a", "\tb"}, {"c ", " "}}, {{"a" + c + "b", c}, {"", "\"" + c}}} {
			tbl := make([]any, len(t))
			for i, row := range t {
				rr := make([]any, len(row))
				for j, f := range row {
					rr[j] = f
				}
				tbl[i] = rr
			}
			g.add(true, "csvopt rt %s %s", hx([]byte(c)), wireOf(tbl))
		}
		for k := 0; k < 150*scale; k++ {
			rows, cols := r.Range(1, 4), r.Range(1, 4)
			tbl := make([]any, rows)
			for i := range tbl {
				row := make([]any, cols)
				for j := range row {
					row[j] = cell()
					if r.Intn(3) == 0 {
						row[j] = ""
					}
				}
				tbl[i] = row
			}
			g.add(true, "csvopt rt %s %s", hx([]byte(c)), wireOf(tbl))
		}
	}
	// the `comma` option: every single byte, and multi-byte characters, on both sides
	g.add(true, "csvdelim rt -")
	for a := 0; a < 256; a++ {
		if a == 'a' || a == 'b' {
			continue // the probe table is [["a","b"]]
		}
		g.add(true, "csvdelim rt %s", hx([]byte{byte(a)}))
	}
	for _, c := range []string{"§", "é", "→", "😀", "xy", ";;", "\u00a0", "Â", "\u2028", "é,", ",é"} {
		g.add(true, "csvdelim rt %s", hx([]byte(c)))
	}
	// from_csv: every text of <= 5 (thorough: 6) symbols over the structural alphabet
	dalpha := []byte("a,\"\n\r# ")
	maxN := 4
	if th {
		maxN = 6
	}
	for n := 1; n <= maxN; n++ {
		overAlphabet(dalpha, n, func(b []byte) { g.add(true, "csv dec %s", hx(b)) })
	}
	for k := 0; k < 2000*scale; k++ {
		n := r.Range(5, 40)
		var sb []byte
		for i := 0; i < n; i++ {
			switch r.Intn(5) {
			case 0:
				sb = append(sb, alpha[r.Intn(len(alpha))]...)
			case 1:
				sb = append(sb, "\"\",\n"[r.Intn(4)])
			default:
				sb = append(sb, dalpha[r.Intn(len(dalpha))])
			}
		}
		g.add(true, "csv dec %s", hx(sb))
	}
}

func mustInt(s string) any {
	v, err := parseInt(s)
	if err != nil {
		panic(err)
	}
	return v
}
