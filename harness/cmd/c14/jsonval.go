//go:build verif

package main

import (
	"fmt"
	"math"
	"math/big"
	"sort"
	"strings"

	"github.com/wader/fq/internal/verifharness/hlib"
)

// Compact wire syntax for JSON values (no spaces), shared with lean/FqModel/C14Json.lean:
//   n | t | f | i<decimal> | I<decimal> (same number held as *big.Int although it fits an int) | s<hex of bytes, - for empty> | [v,v,…] | {s<hex>:v,…}  (keys sorted)
// A float (only in harness-decided law lines; the Lean driver rejects it) is d<16 hex digits of its bits>.

func wireOf(v any) string {
	var sb strings.Builder
	writeWire(&sb, v)
	return sb.String()
}

func writeWire(sb *strings.Builder, v any) {
	switch v := v.(type) {
	case nil:
		sb.WriteByte('n')
	case bool:
		if v {
			sb.WriteByte('t')
		} else {
			sb.WriteByte('f')
		}
	case int:
		fmt.Fprintf(sb, "i%d", v)
	case *big.Int:
		// (interp.Eval normalises its input, so the Go-level representation of an integer that fits
		// an int cannot be chosen from outside; the laws re-create the big-integer representation
		// inside jq instead, see `reprExpr` in laws.go)
		sb.WriteByte('i')
		sb.WriteString(v.String())
	case float64:
		fmt.Fprintf(sb, "d%016x", math.Float64bits(v))
	case string:
		sb.WriteByte('s')
		sb.WriteString(hlib.Hex([]byte(v)))
	case []any:
		sb.WriteByte('[')
		for i, e := range v {
			if i > 0 {
				sb.WriteByte(',')
			}
			writeWire(sb, e)
		}
		sb.WriteByte(']')
	case map[string]any:
		keys := make([]string, 0, len(v))
		for k := range v {
			keys = append(keys, k)
		}
		sort.Strings(keys)
		sb.WriteByte('{')
		for i, k := range keys {
			if i > 0 {
				sb.WriteByte(',')
			}
			sb.WriteByte('s')
			sb.WriteString(hlib.Hex([]byte(k)))
			sb.WriteByte(':')
			writeWire(sb, v[k])
		}
		sb.WriteByte('}')
	default:
		fmt.Fprintf(sb, "?%T", v)
	}
}

type wireParser struct {
	s string
	i int
}

func (p *wireParser) fail(msg string) { panic(fmt.Sprintf("wire: %s at %d in %q", msg, p.i, p.s)) }

func (p *wireParser) hexStr() string {
	st := p.i
	for p.i < len(p.s) && (strings.IndexByte("0123456789abcdef-", p.s[p.i]) >= 0) {
		p.i++
	}
	return string(hlib.UnHex(p.s[st:p.i]))
}

func (p *wireParser) value() any {
	if p.i >= len(p.s) {
		p.fail("eof")
	}
	c := p.s[p.i]
	p.i++
	switch c {
	case 'n':
		return nil
	case 't':
		return true
	case 'f':
		return false
	case 'I':
		st := p.i
		if p.i < len(p.s) && p.s[p.i] == '-' {
			p.i++
		}
		for p.i < len(p.s) && p.s[p.i] >= '0' && p.s[p.i] <= '9' {
			p.i++
		}
		n, ok := new(big.Int).SetString(p.s[st:p.i], 10)
		if !ok {
			p.fail("bigint")
		}
		return n
	case 'i':
		st := p.i
		if p.i < len(p.s) && p.s[p.i] == '-' {
			p.i++
		}
		for p.i < len(p.s) && p.s[p.i] >= '0' && p.s[p.i] <= '9' {
			p.i++
		}
		v, err := parseInt(p.s[st:p.i])
		if err != nil {
			p.fail("int")
		}
		return v
	case 's':
		return p.hexStr()
	case 'd':
		var bits uint64
		if p.i+16 > len(p.s) {
			p.fail("float")
		}
		if _, err := fmt.Sscanf(p.s[p.i:p.i+16], "%016x", &bits); err != nil {
			p.fail("float")
		}
		p.i += 16
		return math.Float64frombits(bits)
	case '[':
		a := []any{}
		if p.i < len(p.s) && p.s[p.i] == ']' {
			p.i++
			return a
		}
		for {
			a = append(a, p.value())
			if p.i >= len(p.s) {
				p.fail("eof in array")
			}
			d := p.s[p.i]
			p.i++
			if d == ']' {
				return a
			}
			if d != ',' {
				p.fail("array sep")
			}
		}
	case '{':
		m := map[string]any{}
		if p.i < len(p.s) && p.s[p.i] == '}' {
			p.i++
			return m
		}
		for {
			if p.i >= len(p.s) || p.s[p.i] != 's' {
				p.fail("key")
			}
			p.i++
			k := p.hexStr()
			if p.i >= len(p.s) || p.s[p.i] != ':' {
				p.fail("colon")
			}
			p.i++
			m[k] = p.value()
			if p.i >= len(p.s) {
				p.fail("eof in object")
			}
			d := p.s[p.i]
			p.i++
			if d == '}' {
				return m
			}
			if d != ',' {
				p.fail("object sep")
			}
		}
	}
	p.fail("token")
	return nil
}

func parseWire(s string) any {
	p := &wireParser{s: s}
	v := p.value()
	if p.i != len(s) {
		p.fail("trailing")
	}
	return v
}

// ---- generators

type jsonGen struct {
	r       *hlib.Rand
	noNull  bool // TOML
	strOnly bool // leaf values are strings only
	intBits int  // max bit size of integers (0 = no integers)
	strFn   func(r *hlib.Rand) string
	keyFn   func(r *hlib.Rand) string
}

var jsonStringPool = []string{"", "a", " ", "\"", "\\", "/", "\b\f\n\r\t", "\x00", "\x1f", "\x7f", "é", "€", "\U0001F600", "\ufeff", " ", "null", "true", "1", "-1", "1e3", "0x10", "yes", "no", "~", "#a", "a,b", "a\"b", " a ", "a\nb", "[", "{}", "<a>", "&amp;", "'", "key: value", "- x", "2001-01-01", "日本語"}

func defaultStr(r *hlib.Rand) string {
	switch r.Intn(4) {
	case 0:
		return jsonStringPool[r.Intn(len(jsonStringPool))]
	case 1:
		return randString(r, r.Range(0, 8), 5)
	case 2:
		return randString(r, r.Range(0, 40), 1)
	default:
		return jsonStringPool[r.Intn(len(jsonStringPool))] + randString(r, r.Range(0, 3), 5)
	}
}

func (g *jsonGen) str() string {
	if g.strFn != nil {
		return g.strFn(g.r)
	}
	return defaultStr(g.r)
}

func (g *jsonGen) key() string {
	if g.keyFn != nil {
		return g.keyFn(g.r)
	}
	return g.str()
}

// ±2^31, ±2^53, 2^63−1, −2^63, 2^63, 2^64−1, −2^63−1, ±2^64, ±2^100 and neighbours
var intEdges = []string{"0", "-1", "2147483647", "2147483648", "-2147483648", "-2147483649", "4294967296",
	"9007199254740992", "9007199254740993", "-9007199254740992", "-9007199254740993",
	"9223372036854775806", "9223372036854775807", "-9223372036854775807", "-9223372036854775808",
	"9223372036854775808", "-9223372036854775809", "18446744073709551615", "18446744073709551616", "-18446744073709551616",
	"1267650600228229401496703205376", "-1267650600228229401496703205376"}

// arrays of objects nested in arrays of objects, empty containers at every position, keys that
// need quoting
func (g *jsonGen) aoo(depth int) any {
	r := g.r
	keys := []string{"a", "b", "k-1", "a b", "", "a.b", "\"q\"", "é", "0", "true", "#", "[x]"}
	key := func() string {
		for {
			k := keys[r.Intn(len(keys))]
			if g.keyFn != nil && k == "" && r.Bool() {
				continue
			}
			return k
		}
	}
	var obj func(d int) map[string]any
	obj = func(d int) map[string]any {
		m := map[string]any{}
		for i := r.Intn(4); i > 0; i-- {
			switch {
			case d > 0 && r.Intn(2) == 0:
				n := r.Range(0, 3)
				a := make([]any, n)
				for j := range a {
					a[j] = obj(d - 1)
				}
				m[key()] = a
			case d > 0 && r.Intn(4) == 0:
				m[key()] = obj(d - 1)
			case r.Intn(6) == 0:
				m[key()] = []any{}
			case r.Intn(6) == 0:
				m[key()] = map[string]any{}
			case r.Intn(5) == 0:
				m[key()] = []any{g.leaf(), g.leaf()}
			default:
				m[key()] = g.leaf()
			}
		}
		return m
	}
	return obj(depth)
}

func (g *jsonGen) integer() any {
	r := g.r
	var n *big.Int
	switch r.Intn(4) {
	case 0:
		n = big.NewInt(int64(r.Range(-10, 10)))
	case 1:
		n, _ = new(big.Int).SetString(intEdges[r.Intn(len(intEdges))], 10)
		if g.intBits <= 63 && !n.IsInt64() {
			n = big.NewInt(int64(r.Range(-3, 3)))
		}
		if n.IsInt64() {
			return int(n.Int64())
		}
		return n
	default:
		bits := r.Range(1, g.intBits)
		n = new(big.Int).SetBytes(r.Bytes(40))
		n.Mod(n, new(big.Int).Lsh(big.NewInt(1), uint(bits)))
		if r.Bool() {
			n.Neg(n)
		}
	}
	if g.intBits <= 63 {
		lim := new(big.Int).Lsh(big.NewInt(1), uint(g.intBits))
		n.Rem(n, lim)
	}
	if n.IsInt64() {
		return int(n.Int64())
	}
	return n
}

func (g *jsonGen) integerNonNeg() any {
	for {
		v := g.integer()
		switch n := v.(type) {
		case int:
			if n >= 0 {
				return n
			}
		case *big.Int:
			if n.Sign() >= 0 {
				return n
			}
		}
	}
}

func (g *jsonGen) leaf() any {
	if g.strOnly {
		return g.str()
	}
	for {
		switch g.r.Intn(5) {
		case 0:
			if g.noNull {
				continue
			}
			return nil
		case 1:
			return g.r.Bool()
		case 2:
			if g.intBits == 0 {
				continue
			}
			return g.integer()
		default:
			return g.str()
		}
	}
}

func (g *jsonGen) value(depth int) any {
	r := g.r
	if depth <= 0 || r.Intn(3) == 0 {
		return g.leaf()
	}
	if r.Bool() {
		return g.array(depth)
	}
	return g.object(depth)
}

func (g *jsonGen) array(depth int) any {
	n := g.r.Range(0, 4)
	a := make([]any, n)
	for i := range a {
		a[i] = g.value(depth - 1)
	}
	return a
}

func (g *jsonGen) object(depth int) any {
	n := g.r.Range(0, 4)
	m := map[string]any{}
	for i := 0; i < n; i++ {
		m[g.key()] = g.value(depth - 1)
	}
	return m
}

func utf8Valid(s string) bool { return strings.ToValidUTF8(s, "\x00") == s }

// refJSON: an independent JSON writer used to make valid texts (with random white space, random
// key order and \u escapes) that `fromjson` is then given, also after damaging them.
func refJSON(v any, r *hlib.Rand) string {
	var sb strings.Builder
	ws := func() {
		for r.Intn(4) == 0 {
			sb.WriteByte(" \t\n\r"[r.Intn(4)])
		}
	}
	var str func(s string)
	str = func(s string) {
		sb.WriteByte('"')
		for _, c := range s {
			switch {
			case c == '"' || c == '\\':
				sb.WriteByte('\\')
				sb.WriteRune(c)
			case c == '/' && r.Bool():
				sb.WriteString(`\/`)
			case c < 0x20:
				fmt.Fprintf(&sb, `\u%04x`, c)
			case c >= 0x10000 && r.Bool():
				c2 := c - 0x10000
				fmt.Fprintf(&sb, `\u%04X\u%04x`, 0xd800+(c2>>10), 0xdc00+(c2&0x3ff))
			case c >= 0x80 && c < 0x10000 && (c < 0xd800 || c > 0xdfff) && r.Intn(3) == 0:
				fmt.Fprintf(&sb, `\u%04x`, c)
			default:
				sb.WriteRune(c)
			}
		}
		sb.WriteByte('"')
	}
	var val func(v any)
	val = func(v any) {
		ws()
		switch v := v.(type) {
		case nil:
			sb.WriteString("null")
		case bool:
			fmt.Fprintf(&sb, "%v", v)
		case int:
			fmt.Fprintf(&sb, "%d", v)
		case *big.Int:
			sb.WriteString(v.String())
		case string:
			str(v)
		case []any:
			sb.WriteByte('[')
			for i, e := range v {
				if i > 0 {
					sb.WriteByte(',')
				}
				val(e)
			}
			ws()
			sb.WriteByte(']')
		case map[string]any:
			sb.WriteByte('{')
			i := 0
			keys := make([]string, 0, len(v))
			for k := range v {
				keys = append(keys, k)
			}
			sort.Strings(keys)
			for j := len(keys) - 1; j > 0; j-- { // key order in the text varies (seeded shuffle)
				k := r.Intn(j + 1)
				keys[j], keys[k] = keys[k], keys[j]
			}
			for _, k := range keys {
				e := v[k]
				if i > 0 {
					sb.WriteByte(',')
				}
				i++
				ws()
				str(k)
				ws()
				sb.WriteByte(':')
				val(e)
			}
			ws()
			sb.WriteByte('}')
		}
		ws()
	}
	val(v)
	return sb.String()
}
