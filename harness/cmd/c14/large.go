//go:build verif

// Large and composite inputs (ops `lrt`, `lhash`): the input of to_hex / to_base64 / to_<hash> is
// regenerated from (seed, nbytes) on both sides, optionally cut `trim` bits short, and handed to fq either
// as one binary or as an ARRAY binary whose members (binaries, strings, arrays of byte numbers) have the
// lengths listed in `pieces`; outputs are observed as `<nbytes> <fnv-1a-64 per 4096-byte block>`.
package main

import (
	"fmt"
	"hash/fnv"
	"io"
	"strconv"
	"strings"

	"github.com/wader/fq/internal/bitiox"
	"github.com/wader/fq/internal/verifharness/hlib"
	"github.com/wader/fq/pkg/bitio"
	"github.com/wader/fq/pkg/interp"
)

func blockHashes(b []byte) string {
	if len(b) == 0 {
		return "0 -"
	}
	var hs []string
	for o := 0; o < len(b); o += 4096 {
		h := fnv.New64a()
		h.Write(b[o:min(len(b), o+4096)])
		hs = append(hs, fmt.Sprintf("%016x", h.Sum64()))
	}
	return fmt.Sprintf("%d %s", len(b), strings.Join(hs, ","))
}

// largeInput builds the jq input value of an lrt/lhash op
func largeInput(seed uint64, n, trim int, pieces string) (any, error) {
	if trim < 0 || trim > 7 || (n == 0 && trim != 0) {
		return nil, fmt.Errorf("bad trim")
	}
	b := hlib.NewRand(seed).Bytes(n)
	if trim > 0 {
		b[n-1] &= 0xff << trim
	}
	nbits := n*8 - trim
	if pieces == "p" {
		return mkBinary(b, nbits), nil
	}
	// a:<kind><len>,<kind><len>,...   kinds: b binary, s string, n array of numbers; lengths in bytes, the
	// last member takes the trim (and must be a binary when trim > 0)
	spec, ok := strings.CutPrefix(pieces, "a:")
	if !ok {
		return nil, fmt.Errorf("bad pieces")
	}
	var arr []any
	off := 0
	ps := strings.Split(spec, ",")
	for i, p := range ps {
		if len(p) < 2 {
			return nil, fmt.Errorf("bad piece")
		}
		l, err := strconv.Atoi(p[1:])
		if err != nil || l < 0 || off+l > n {
			return nil, fmt.Errorf("bad piece length")
		}
		seg := b[off : off+l]
		last := i == len(ps)-1
		switch p[0] {
		case 'b':
			bits := l * 8
			if last {
				bits -= trim
			}
			arr = append(arr, mkBinary(append([]byte(nil), seg...), bits))
		case 's':
			if last && trim != 0 {
				return nil, fmt.Errorf("trim needs a binary member")
			}
			arr = append(arr, string(seg))
		case 'n':
			if last && trim != 0 {
				return nil, fmt.Errorf("trim needs a binary member")
			}
			ns := make([]any, l)
			for k, x := range seg {
				ns[k] = int(x)
			}
			arr = append(arr, ns)
		default:
			return nil, fmt.Errorf("bad piece kind")
		}
		off += l
	}
	if off != n {
		return nil, fmt.Errorf("pieces do not add up")
	}
	return arr, nil
}

func largeBytesOf(v any) ([]byte, bool) {
	switch v := v.(type) {
	case string:
		return []byte(v), true
	case interp.Binary:
		br, err := interp.ToBitReader(v)
		if err != nil {
			return nil, false
		}
		if n, err := bitiox.Len(br); err != nil || n%8 != 0 {
			return nil, false
		}
		b, err := io.ReadAll(bitio.NewIOReader(br))
		return b, err == nil
	}
	return nil, false
}

// largeRtObs renders the result of rtExpr: [] = to_F failed, [t] = from_F failed, [t,d]
func largeRtObs(v any) string {
	a, ok := v.([]any)
	if !ok {
		return obsOf(v)
	}
	if len(a) == 0 {
		return "err"
	}
	t, ok := largeBytesOf(a[0])
	if !ok {
		return "?text-type"
	}
	if len(a) == 1 {
		return blockHashes(t) + " err"
	}
	d, ok := largeBytesOf(a[1])
	if !ok {
		return blockHashes(t) + " err"
	}
	return blockHashes(t) + " " + blockHashes(d)
}

func parseLargeOp(ws []string) (p parsed, err error) {
	// <name> lrt|lhash <seed> <nbytes> <trim> <pieces>
	if len(ws) != 6 {
		return p, fmt.Errorf("bad large op")
	}
	seed, e1 := strconv.ParseUint(ws[2], 10, 64)
	n, e2 := strconv.Atoi(ws[3])
	trim, e3 := strconv.Atoi(ws[4])
	if e1 != nil || e2 != nil || e3 != nil || n < 0 || n > 8<<20 {
		return p, fmt.Errorf("bad large op")
	}
	in, err := largeInput(seed, n, trim, ws[5])
	if err != nil {
		return p, err
	}
	switch ws[1] {
	case "lrt":
		c, ok := codecs[ws[0]]
		if !ok || c.in != "bin" {
			return p, fmt.Errorf("bad large codec")
		}
		return parsed{expr: rtExpr(c.to, c.from), input: in, render: largeRtObs}, nil
	case "lhash":
		fn, ok := hashes[ws[0]]
		if !ok {
			return p, fmt.Errorf("bad large hash")
		}
		return parsed{expr: decExpr(fn), input: in, render: decObs}, nil
	}
	return p, fmt.Errorf("bad large op")
}

// randPieces cuts n bytes into k members at boundaries that are (mostly) not multiples of 3
func randPieces(r *hlib.Rand, n, k, trim int) string {
	if n == 0 || k <= 1 {
		return "a:b" + strconv.Itoa(n)
	}
	cuts := map[int]bool{}
	for len(cuts) < min(k-1, n-1) {
		cuts[r.Range(1, n-1)] = true
	}
	var ps []string
	prev := 0
	kinds := "bsn"
	for c := 1; c <= n; c++ {
		if cuts[c] || c == n {
			kind := kinds[r.Intn(3)]
			if c == n && trim != 0 {
				kind = 'b'
			}
			if kind == 'n' && c-prev > 5000 {
				kind = 'b'
			}
			ps = append(ps, fmt.Sprintf("%c%d", kind, c-prev))
			prev = c
		}
	}
	return "a:" + strings.Join(ps, ",")
}

// largeSizes: byte counts around the buffer sizes a streaming implementation would plausibly use
func largeSizes(th bool) []int {
	var out []int
	bases := []int{4096, 12288, 32768, 65536}
	ks := []int{1, 2}
	ds := []int{-1, 0, 1, 2}
	if th {
		bases = append(bases, 1024, 8192, 16384, 49152, 131072, 1<<20)
		ks = []int{1, 2, 3}
		ds = []int{-3, -2, -1, 0, 1, 2, 3}
	}
	seen := map[int]bool{}
	for _, b := range bases {
		for _, k := range ks {
			if b >= 1<<20 && k > 1 {
				continue
			}
			for _, d := range ds {
				n := b*k + d
				if !seen[n] {
					seen[n] = true
					out = append(out, n)
				}
			}
		}
	}
	return out
}

func genLargeBin(g *gen, th bool) {
	r := g.r
	for _, c := range binCodecs {
		// composite inputs, small: every 2-split of 1..9 bytes in every member-kind pair, and 3-splits
		for n := 1; n <= 9; n++ {
			seed := r.U64() >> 1
			for cut := 0; cut <= n; cut++ {
				for _, kk := range []string{"bb", "bs", "sb", "nb", "bn", "ss", "sn", "nn"} {
					g.add(true, "%s lrt %d %d 0 a:%c%d,%c%d", c, seed, n, kk[0], cut, kk[1], n-cut)
				}
				g.add(true, "%s lrt %d %d %d a:s%d,b%d", c, seed, n, r.Range(1, 7), cut, n-cut)
			}
			for k := 0; k < 6; k++ {
				g.add(true, "%s lrt %d %d 0 %s", c, seed, n, randPieces(r, n, 3+r.Intn(3), 0))
			}
		}
		// composite inputs, medium
		reps := 40
		if th {
			reps = 200
		}
		for k := 0; k < reps; k++ {
			n := r.Range(10, 3000)
			trim := 0
			if r.Intn(3) == 0 {
				trim = r.Range(1, 7)
			}
			g.add(true, "%s lrt %d %d %d %s", c, r.U64()>>1, n, trim, randPieces(r, n, r.Range(2, 9), trim))
		}
		// sizes around buffer sizes, plain and composite
		for _, n := range largeSizes(th) {
			seed := r.U64() >> 1
			trim := 0
			if r.Intn(4) == 0 {
				trim = r.Range(1, 7)
			}
			g.add(true, "%s lrt %d %d %d p", c, seed, n, trim)
			g.add(true, "%s lrt %d %d %d %s", c, seed, n, trim, randPieces(r, n, r.Range(2, 6), trim))
		}
	}
	g.o.Stat("large_sizes", len(largeSizes(th)))
}

func genLargeHash(g *gen, th bool) {
	r := g.r
	sizes := []int{4095, 4096, 4097, 32767, 32768, 32769, 65537}
	if th {
		sizes = append(sizes, 8191, 8192, 12288, 16385, 65535, 65536, 98304, 131073)
	}
	for _, h := range hashNames {
		for n := 1; n <= 9; n++ {
			seed := r.U64() >> 1
			for cut := 0; cut <= n; cut += 1 + r.Intn(2) {
				g.add(true, "%s lhash %d %d 0 a:b%d,s%d", h, seed, n, cut, n-cut)
				g.add(true, "%s lhash %d %d 0 a:n%d,b%d", h, seed, n, cut, n-cut)
			}
		}
		for k := 0; k < 12; k++ {
			n := r.Range(10, 1200)
			g.add(true, "%s lhash %d %d 0 %s", h, r.U64()>>1, n, randPieces(r, n, r.Range(2, 7), 0))
		}
		for _, n := range sizes {
			seed := r.U64() >> 1
			g.add(true, "%s lhash %d %d 0 p", h, seed, n)
			g.add(true, "%s lhash %d %d 0 %s", h, seed, n, randPieces(r, n, r.Range(2, 5), 0))
		}
	}
}

// genTxtPieces: to_F, then the encoded bytes cut into an array binary at positions that fall INSIDE multi-byte
// characters / surrogate pairs / between BOM bytes, then from_F (op `prt`); and long strings whose encodings
// cross 4096- and 32768-byte boundaries with a multi-byte character on the boundary.
func genTxtPieces(g *gen, th bool) {
	r := g.r
	for _, c := range txtCodecs {
		maxClass := 5
		if c == "latin1" {
			maxClass = 2
		}
		okLatin := func(s string) bool {
			for _, x := range s {
				if x > 0xff {
					return false
				}
			}
			return true
		}
		reps := 60
		if th {
			reps = 400
		}
		for k := 0; k < reps; k++ {
			s := randString(r, r.Range(1, 12), maxClass)
			if c == "latin1" && !okLatin(s) {
				continue
			}
			// every single cut of the (at most ~50 byte) encoding, and a few double cuts
			for cut := 1; cut <= 4*len([]rune(s))+2; cut++ {
				g.add(true, "%s prt %s %d", c, hx([]byte(s)), cut)
			}
			for j := 0; j < 4; j++ {
				a := r.Range(1, 20)
				g.add(true, "%s prt %s %d,%d", c, hx([]byte(s)), a, a+r.Range(0, 5))
			}
		}
		// long strings: a wide character straddling each boundary candidate
		bounds := []int{4096, 8192, 32768}
		if th {
			bounds = append(bounds, 12288, 16384, 65536, 98304)
		}
		wide := []string{"\u00e5", "\u20ac", "\U0001f600"}
		if c == "latin1" {
			wide = []string{"\u00e5", "\u00ff"}
		}
		for _, b := range bounds {
			for _, w := range wide {
				for _, d := range []int{1, 2, 3} {
					if b-d < 0 {
						continue
					}
					// ASCII filler so that the wide character starts d bytes before the boundary (in UTF-8 bytes; for
					// UTF-16 the same strings put code units on both sides of b/2 and b)
					for _, unit := range []int{1, 2} {
						n := (b - d) / unit
						s := strings.Repeat("a", n) + w + strings.Repeat("b", 40) + w
						g.add(true, "%s prt %s -", c, hx([]byte(s)))
						g.add(true, "%s prt %s %d,%d", c, hx([]byte(s)), n*unit+1, n*unit+2)
					}
				}
			}
		}
	}
}
