//go:build verif

package main

import (
	"encoding/base64"
	"encoding/hex"
	"fmt"
	"math"
	"math/big"
	"reflect"
	"sort"
	"strings"

	"github.com/wader/fq/internal/verifharness/hlib"
	"github.com/wader/fq/pkg/interp"
)

// refEncode is used only to manufacture well-formed texts that the generator then damages.
func refEncode(codec string, b []byte) []byte {
	switch codec {
	case "hex":
		return []byte(hex.EncodeToString(b))
	case "b64std":
		return []byte(base64.StdEncoding.EncodeToString(b))
	case "b64url":
		return []byte(base64.URLEncoding.EncodeToString(b))
	case "b64rawstd":
		return []byte(base64.RawStdEncoding.EncodeToString(b))
	case "b64rawurl":
		return []byte(base64.RawURLEncoding.EncodeToString(b))
	}
	panic("refEncode " + codec)
}

// ---------------------------------------------------------------------------------------------
// MONITORED part (no Lean model): the round-trip LAW  x | to_F | from_F == x  for the third-party
// serialisers (yaml.v3, BurntSushi/toml, encoding/xml, encoding/csv), url.Values and the
// jq-literal printer/parser, evaluated by this harness on generated values of each serialiser's
// domain.  One `!OK law …` / `!PROPFAIL law …` / `!KNOWN <key> law …` line per case.

type law struct {
	name string
	expr string // jq: to_F | from_F | tovalue
}

// every number n becomes the same number computed through the neighbouring big integer:
// n < 0: -((-(n+1))+1)  (for -2^63: -(2^63) is a *big.Int that fits an int);  n >= 0: n+1-1
const reprArith = `walk(if type == "number" then (if . < 0 then -((-(. + 1)) + 1) else . + 1 - 1 end) end)`

var laws = map[string]law{
	"yaml": {"yaml", "to_yaml | from_yaml | tovalue"},
	"toml": {"toml", "to_toml | from_toml | tovalue"},
	// the same with every number re-created inside jq so that it is held as a big integer even when
	// it fits an int — by arithmetic (reprArith) and as a jq literal (to_jq | from_jq: unary minus
	// of a big literal, e.g. -9223372036854775808)
	"yaml_arith":  {"yaml_arith", reprArith + " | to_yaml | from_yaml | tovalue"},
	"toml_arith":  {"toml_arith", reprArith + " | to_toml | from_toml | tovalue"},
	"yaml_lit":    {"yaml_lit", "to_jq | from_jq | to_yaml | from_yaml | tovalue"},
	"toml_lit":    {"toml_lit", "to_jq | from_jq | to_toml | from_toml | tovalue"},
	"json_arith":  {"json_arith", reprArith + " | tojson | fromjson | tovalue"},
	"jqlit_arith": {"jqlit_arith", reprArith + " | to_jq | from_jq"},
	"xml":         {"xml", "to_xml | from_xml({array: true}) | tovalue"},
	"xmlobj":      {"xmlobj", "to_xml | from_xml | tovalue"},
	// element ORDER through the object form: array-form tree -> text -> object form with #seq ->
	// text -> array-form tree must be the original tree (children with interleaved repeated names)
	"xmlseq":   {"xmlseq", "to_xml | from_xml({seq: true}) | tovalue | to_xml | from_xml({array: true}) | tovalue"},
	"csv":      {"csv", "to_csv | from_csv | tovalue"},
	"jqlit":    {"jqlit", "to_jq | from_jq"},
	"jqlit2":   {"jqlit2", "to_jq({indent: 2}) | from_jq"},
	"urlquery": {"urlquery", "to_urlquery | from_urlquery"},
	"jsonf":    {"jsonf", "tojson | fromjson | tovalue"},
	"jsonind":  {"jsonind", "tojson({indent: 3}) | fromjson | tovalue"},
}

// jqEqual: equality of jq values; numbers compare numerically (an integral float printed by
// tojson comes back as an int / big.Int of the same value)
func jqEqual(a, b any) bool {
	switch a := a.(type) {
	case []any:
		b, ok := b.([]any)
		if !ok || len(a) != len(b) {
			return false
		}
		for i := range a {
			if !jqEqual(a[i], b[i]) {
				return false
			}
		}
		return true
	case map[string]any:
		b, ok := b.(map[string]any)
		if !ok || len(a) != len(b) {
			return false
		}
		for k, e := range a {
			f, ok := b[k]
			if !ok || !jqEqual(e, f) {
				return false
			}
		}
		return true
	}
	na, oka := numOf(a)
	nb, okb := numOf(b)
	if oka || okb {
		if !(oka && okb) {
			return false
		}
		_, fa := a.(float64)
		_, fb := b.(float64)
		if fa || fb {
			x, _ := na.Float64()
			y, _ := nb.Float64()
			return x == y
		}
		return na.Cmp(nb) == 0
	}
	return reflect.DeepEqual(a, b)
}

func numOf(v any) (*big.Float, bool) {
	switch v := v.(type) {
	case int:
		return new(big.Float).SetPrec(2000).SetInt64(int64(v)), true
	case *big.Int:
		return new(big.Float).SetPrec(2000).SetInt(v), true
	case float64:
		return new(big.Float).SetPrec(2000).SetFloat64(v), true
	}
	return nil, false
}

// normalise Go values for comparison: *big.Int that fits -> int, nil slices -> empty
func norm(v any) any {
	switch v := v.(type) {
	case *big.Int:
		if v.IsInt64() {
			return int(v.Int64())
		}
		return v.String() + "n"
	case []any:
		o := make([]any, len(v))
		for i, e := range v {
			o[i] = norm(e)
		}
		return o
	case map[string]any:
		o := map[string]any{}
		for k, e := range v {
			o[k] = norm(e)
		}
		return o
	case float64:
		if v == math.Trunc(v) && math.Abs(v) < 1<<53 {
			return int(v)
		}
		return v
	}
	return v
}

// known defect classes of the current tree (see known_findings.json): the law is expected to
// fail for exactly these inputs
func anyString(v any, pred func(string) bool) bool {
	switch v := v.(type) {
	case string:
		return pred(v)
	case []any:
		for _, e := range v {
			if anyString(e, pred) {
				return true
			}
		}
	case map[string]any:
		for k, e := range v {
			if pred(k) || anyString(e, pred) {
				return true
			}
		}
	}
	return false
}

// (the former excuses jqlit-empty-string / jqlit-negative-number are gone: from_jq was repaired in
// /repo commit fc0fdced, a failure of that class is a PROPFAIL again)
func anyNumber(v any, pred func(neg bool) bool) bool {
	switch v := v.(type) {
	case int:
		return pred(v < 0)
	case *big.Int:
		return pred(v.Sign() < 0)
	case float64:
		return pred(v < 0)
	case []any:
		for _, e := range v {
			if anyNumber(e, pred) {
				return true
			}
		}
	case map[string]any:
		for _, e := range v {
			if anyNumber(e, pred) {
				return true
			}
		}
	}
	return false
}

func anyObject(v any, pred func(map[string]any) bool) bool {
	switch v := v.(type) {
	case []any:
		for _, e := range v {
			if anyObject(e, pred) {
				return true
			}
		}
	case map[string]any:
		if pred(v) {
			return true
		}
		for _, e := range v {
			if anyObject(e, pred) {
				return true
			}
		}
	}
	return false
}

func anyBigOutside64(v any) bool {
	switch v := v.(type) {
	case *big.Int:
		return !v.IsInt64()
	case []any:
		for _, e := range v {
			if anyBigOutside64(e) {
				return true
			}
		}
	case map[string]any:
		for _, e := range v {
			if anyBigOutside64(e) {
				return true
			}
		}
	}
	return false
}

func anyArray(v any, pred func([]any) bool) bool {
	switch v := v.(type) {
	case []any:
		if pred(v) {
			return true
		}
		for _, e := range v {
			if anyArray(e, pred) {
				return true
			}
		}
	case map[string]any:
		for _, e := range v {
			if anyArray(e, pred) {
				return true
			}
		}
	}
	return false
}

func knownLawFailure(name string, x any) string {
	switch name {
	case "yaml", "yaml_arith", "yaml_lit":
		// gopkg.in/yaml.v3 writes a multi-line string as a block scalar; when the string starts
		// with a line feed, a space or U+2028/U+2029 the block scalar reads back without its first line feed,
		// or (inside a sequence) does not parse at all
		if anyString(x, func(s string) bool {
			return strings.Contains(s, "\n") && (s[0] == '\n' || s[0] == ' ' ||
				strings.HasPrefix(s, "\u2028") || strings.HasPrefix(s, "\u2029"))
		}) {
			return "yaml-block-scalar-leading-blank"
		}
	}
	switch name {
	case "yaml", "toml", "yaml_arith", "toml_arith", "yaml_lit", "toml_lit":
		// an integer outside the int64 range is a *big.Int, which yaml.v3 / BurntSushi/toml marshal
		// through TextMarshaler as a quoted STRING: the number comes back as a string
		if anyBigOutside64(x) {
			return "serialiser-bigint-as-string"
		}
	}
	switch strings.TrimSuffix(strings.TrimSuffix(name, "_arith"), "_lit") {
	case "toml":
		// BurntSushi/toml writes an array that holds a table as an array of tables and silently
		// drops its non-table elements
		if anyArray(x, func(a []any) bool {
			tables, others := 0, 0
			for _, e := range a {
				if _, ok := e.(map[string]any); ok {
					tables++
				} else {
					others++
				}
			}
			return tables > 0 && others > 0
		}) {
			return "toml-mixed-array-with-table"
		}
	case "csv":
		// encoding/csv (documented): "\r\n" inside a quoted field is read back as "\n"
		if anyString(x, func(s string) bool { return strings.Contains(s, "\r\n") }) {
			return "csv-crlf-in-field"
		}
		rows, _ := x.([]any)
		for _, row := range rows {
			r, _ := row.([]any)
			if len(r) > 0 {
				if s, _ := r[0].(string); strings.HasPrefix(s, "#") {
					return "csv-comment-row"
				}
			}
			if len(r) == 1 {
				if s, _ := r[0].(string); s == "" {
					return "csv-single-empty-field"
				}
			}
		}
	}
	return ""
}

func runLaw(o *hlib.Out, ev *evaluator, name string, xs []any) {
	if strings.HasPrefix(name, "held:") {
		runHeld(o, ev, strings.TrimPrefix(name, "held:"), xs)
		return
	}
	if strings.HasPrefix(name, "opt:") {
		runOpt(o, ev, strings.TrimPrefix(name, "opt:"), xs)
		return
	}
	if strings.HasPrefix(name, "immut:") {
		runImmut(o, ev, strings.TrimPrefix(name, "immut:"), xs)
		return
	}
	l, ok := laws[name]
	if !ok {
		o.Verdict("BADOP", "law "+name)
		return
	}
	// fq's encoders normalise their input IN PLACE (gojqx.NormalizeFn writes into the caller's
	// maps and slices), so the op text is fixed before the call and the reference value for
	// the comparison is re-read from it afterwards
	ops := make([]string, len(xs))
	for i, x := range xs {
		ops[i] = fmt.Sprintf("law %s %s", name, wireOf(x))
	}
	res := ev.run(fmt.Sprintf("try [%s] catch {__err: (. | tostring)}", l.expr), xs)
	for i := range xs {
		op := ops[i]
		x := parseWire(strings.Fields(op)[2])
		var got string
		okv := false
		switch r := res[i].(type) {
		case []any:
			if len(r) == 1 {
				okv = jqEqual(r[0], x)
				got = wireOf(r[0])
			} else {
				got = fmt.Sprintf("outputs=%d", len(r))
			}
		case map[string]any:
			got = fmt.Sprintf("err:%v", r["__err"])
		case panicMark:
			got = "panic"
		case timeoutMark:
			got = "timeout"
		default:
			got = fmt.Sprintf("?%T", r)
		}
		o.Stat("law_"+name, 1)
		if okv {
			o.Verdict("OK", op)
			o.Class(op)
			continue
		}
		if len(got) > 300 {
			got = got[:300] + "…"
		}
		if key := knownLawFailure(name, x); key != "" {
			o.Verdict("KNOWN", key+" "+op+" got="+got)
		} else {
			o.Verdict("PROPFAIL", op+" got="+got)
		}
	}
}

// ---------------------------------------------------------------------------------------------
// Input immutability: no conversion function may change the value it is applied to
// (`X as $x | [($x | try F catch null), $x]` must leave $x == X).  fq's encoders used to
// normalise their argument in place (gojqx.NormalizeFn; repaired by /repo 295de0a0): to_xml
// turned null attributes into "", to_csv / to_urlquery / to_url turned numbers into strings.
// Checked for EVERY to_*/from_* function this harness exercises, on the generic shaped values
// below (null, numbers, nested arrays and objects) and on inputs of the function's own domain.

var immutFns = map[string]string{
	"to_hex": "to_hex", "from_hex": "from_hex",
	"to_base64": "to_base64", "from_base64": "from_base64",
	"to_base64_url": `to_base64({encoding:"url"})`, "from_base64_url": `from_base64({encoding:"url"})`,
	"to_base64_rawstd": `to_base64({encoding:"rawstd"})`, "from_base64_rawstd": `from_base64({encoding:"rawstd"})`,
	"to_base64_rawurl": `to_base64({encoding:"rawurl"})`, "from_base64_rawurl": `from_base64({encoding:"rawurl"})`,
	"to_urlencode": "to_urlencode", "from_urlencode": "from_urlencode",
	"to_urlpath": "to_urlpath", "from_urlpath": "from_urlpath",
	"to_urlquery": "to_urlquery", "from_urlquery": "from_urlquery",
	"to_url": "to_url", "from_url": "from_url",
	"to_iso8859_1": "to_iso8859_1", "from_iso8859_1": "from_iso8859_1",
	"to_utf8": "to_utf8", "from_utf8": "from_utf8",
	"to_utf16": "to_utf16", "from_utf16": "from_utf16",
	"to_utf16le": "to_utf16le", "from_utf16le": "from_utf16le",
	"to_utf16be": "to_utf16be", "from_utf16be": "from_utf16be",
	"to_radix": "to_radix(16)", "from_radix": "from_radix(16)",
	"to_md4": "to_md4", "to_md5": "to_md5", "to_sha3_224": "to_sha3_224", "to_sha3_256": "to_sha3_256", "to_sha3_384": "to_sha3_384", "to_sha3_512": "to_sha3_512", "to_sha1": "to_sha1", "to_sha256": "to_sha256", "to_sha512": "to_sha512",
	"tojson": "tojson", "tojson_indent": "tojson({indent: 2})", "fromjson": "fromjson | tovalue",
	"to_jq": "to_jq", "to_jq_indent": "to_jq({indent: 2})", "from_jq": "from_jq",
	"to_yaml": "to_yaml", "from_yaml": "from_yaml | tovalue",
	"to_toml": "to_toml", "from_toml": "from_toml | tovalue",
	"to_xml": "to_xml", "to_xml_indent": "to_xml({indent: 2})", "from_xml": "from_xml | tovalue", "from_xml_array": "from_xml({array: true}) | tovalue",
	"to_csv": "to_csv", "from_csv": "from_csv | tovalue",
}

func immutNames() []string {
	ns := make([]string, 0, len(immutFns))
	for n := range immutFns {
		ns = append(ns, n)
	}
	sort.Strings(ns)
	return ns
}

func runImmut(o *hlib.Out, ev *evaluator, fn string, xs []any) {
	f, ok := immutFns[fn]
	if !ok {
		o.Verdict("BADOP", "law immut:"+fn)
		return
	}
	ops := make([]string, len(xs))
	snap := make([]string, len(xs))
	for i, x := range xs {
		snap[i] = wireOf(x)
		ops[i] = fmt.Sprintf("law immut:%s %s", fn, snap[i])
	}
	res := ev.run(fmt.Sprintf(". as $x | [[$x | try (%s) catch null], $x]", f), xs)
	for i := range xs {
		o.Stat("law_immut", 1)
		var got string
		switch r := res[i].(type) {
		case []any:
			if len(r) == 2 {
				got = wireOf(r[1])
			} else {
				got = fmt.Sprintf("?len=%d", len(r))
			}
		case panicMark:
			got = "panic"
		default:
			got = fmt.Sprintf("?%T", r)
		}
		// both the value seen by jq as $x afterwards and the Go object that was passed in
		after := wireOf(xs[i])
		if got == snap[i] && after == snap[i] {
			o.Verdict("OK", ops[i])
			o.Class(ops[i])
			continue
		}
		if len(got) > 300 {
			got = got[:300] + "…"
		}
		if len(after) > 300 {
			after = after[:300] + "…"
		}
		o.Verdict("PROPFAIL", ops[i]+" got="+got+" input-object-after="+after)
	}
}

// values that a normalising encoder would rewrite: null, numbers, nested arrays and objects,
// in the shapes the structured encoders accept
func immutShaped() []any {
	big300, _ := new(big.Int).SetString("2037035976334486086268445688409378161051468393665936250636140449354381299763336706183397376", 10)
	return []any{
		nil, true, 1, -5, big300, "", "a b+c/é", "ff", "Zm9v", "%41+", "[1,null]", "{\"a\":null}", "a: [1, null]\n", "a = [1, 2]\n", "<a k=\"1\">t</a>", "1,2\n,x\n", "a=1&b=2&b=3", "http://u:p@h/p?a=1#f",
		[]any{}, map[string]any{},
		[]any{1, 2, 255}, []any{nil, 1, "x", []any{nil, 2}, map[string]any{"k": nil, "n": 3}},
		// xml, array form and object form
		[]any{"a", nil, []any{}},
		[]any{"a", map[string]any{"k": 1, "#text": nil, "b": true}, []any{[]any{"b", nil, []any{}}, []any{"c", map[string]any{"n": 2}, []any{}}}},
		map[string]any{"a": map[string]any{"@k": 1, "#text": nil, "b": []any{nil, 2, map[string]any{"@x": 3}}}},
		map[string]any{"a": nil},
		// csv
		[]any{[]any{1, 2}}, []any{[]any{nil, "x"}, []any{true, 3}}, []any{[]any{[]any{1}, map[string]any{"a": nil}}},
		// url query / url
		map[string]any{"a": 1, "b": []any{2, nil, "x"}, "c": nil},
		map[string]any{"scheme": "http", "host": "h", "path": "/p", "user": map[string]any{"username": "u", "password": nil}, "query": map[string]any{"a": 1, "b": []any{2, nil}}, "fragment": 3},
		// yaml / toml / json / jq
		map[string]any{"a": []any{1, nil, map[string]any{"b": []any{nil}}}, "n": nil, "i": -7},
		map[string]any{"t": map[string]any{"x": 1, "y": []any{1, 2}}, "arr": []any{map[string]any{"k": 1}, map[string]any{"k": 2}}},
	}
}

// ---------------------------------------------------------------------------------------------
// HELD RESULTS: the property is about values, so a result must not change after it has been
// returned.  k >= 2 values are encoded in ONE evaluation and only then used:
//     xs | map(to_F) | map(from_F) == xs              (the round-trip law itself, on held results)
//     xs | map(to_F) | map(to_hex) == xs | map(to_F | to_hex)   (a held result still has its bytes)
//     (xs[0]|to_F) as $a | (xs[-1]|to_F) as $b | [$a,$b] | map(from_F) == [xs[0], xs[-1]]
// (seeded change S3-C14-2: an encoder that hands out a pooled buffer is overwritten by the next call)

type heldDef struct {
	to, from string // from == "" : digest, only the "still has its bytes" law
}

var heldDefs = map[string]heldDef{
	"hex": {"to_hex", "from_hex"}, "b64std": {"to_base64", "from_base64"},
	"b64url":    {`to_base64({encoding:"url"})`, `from_base64({encoding:"url"})`},
	"b64rawstd": {`to_base64({encoding:"rawstd"})`, `from_base64({encoding:"rawstd"})`},
	"b64rawurl": {`to_base64({encoding:"rawurl"})`, `from_base64({encoding:"rawurl"})`},
	"urlq":      {"to_urlencode", "from_urlencode"}, "urlp": {"to_urlpath", "from_urlpath"},
	"latin1": {"to_iso8859_1", "from_iso8859_1"}, "utf8": {"to_utf8", "from_utf8"},
	"utf16": {"to_utf16", "from_utf16"}, "utf16le": {"to_utf16le", "from_utf16le"}, "utf16be": {"to_utf16be", "from_utf16be"},
	"radix": {"to_radix(36)", "from_radix(36)"},
	"json":  {"tojson", "fromjson | tovalue"}, "jqlit": {"to_jq", "from_jq"},
	"yaml": {"to_yaml", "from_yaml | tovalue"}, "toml": {"to_toml", "from_toml | tovalue"},
	"xml": {"to_xml", "from_xml({array: true}) | tovalue"}, "csv": {"to_csv", "from_csv | tovalue"},
	"urlquery": {"to_urlquery", "from_urlquery"},
	"md4":      {"to_md4", ""}, "md5": {"to_md5", ""}, "sha1": {"to_sha1", ""}, "sha256": {"to_sha256", ""}, "sha512": {"to_sha512", ""},
	"sha3_256": {"to_sha3_256", ""},
}

func heldNames() []string {
	ns := make([]string, 0, len(heldDefs))
	for n := range heldDefs {
		ns = append(ns, n)
	}
	sort.Strings(ns)
	return ns
}

// bytesOfValue: a binary or a string as bytes (from_hex gives a binary, the input was a string)
func bytesLike(v any) (string, bool) {
	switch v := v.(type) {
	case string:
		return v, true
	case interp.Binary:
		h := obsOf(v)
		if strings.ContainsAny(h, "?/") {
			return "", false
		}
		return string(hlib.UnHex(h)), true
	}
	return "", false
}

func heldEqual(got, want any) bool {
	if gb, ok := bytesLike(got); ok {
		if wb, ok2 := want.(string); ok2 {
			return gb == wb
		}
	}
	return jqEqual(got, want)
}

// each x is an ARRAY of >= 2 inputs of the codec's domain
func runHeld(o *hlib.Out, ev *evaluator, name string, xs []any) {
	d, ok := heldDefs[name]
	if !ok {
		o.Verdict("BADOP", "law held:"+name)
		return
	}
	ops := make([]string, len(xs))
	for i, x := range xs {
		ops[i] = fmt.Sprintf("law held:%s %s", name, wireOf(x))
	}
	from := d.from
	if from == "" {
		from = "to_hex"
	}
	expr := fmt.Sprintf(`. as $xs | try [($xs | map(%[1]s) | map(%[2]s)), ($xs | map(%[1]s) | map(to_hex)), ($xs | map(%[1]s | to_hex)), `+
		`(($xs[0] | %[1]s) as $a | ($xs[-1] | %[1]s) as $b | [$a, $b] | map(%[2]s))] catch {__err: (. | tostring)}`, d.to, from)
	res := ev.run(expr, xs)
	for i := range xs {
		o.Stat("law_held", 1)
		x := parseWire(strings.Fields(ops[i])[2]).([]any)
		fail := ""
		switch r := res[i].(type) {
		case []any:
			if len(r) != 4 {
				fail = fmt.Sprintf("outputs=%d", len(r))
				break
			}
			a, _ := r[0].([]any)
			b, _ := r[1].([]any)
			c, _ := r[2].([]any)
			e, _ := r[3].([]any)
			if len(a) != len(x) || len(b) != len(x) || len(c) != len(x) || len(e) != 2 {
				fail = "result-count"
				break
			}
			for j := range x {
				if !jqEqual(b[j], c[j]) {
					fail = fmt.Sprintf("held-result-changed index=%d map(%s)|map(to_hex)=%v but %s|to_hex=%v", j, d.to, b[j], d.to, c[j])
					break
				}
			}
			if fail == "" && d.from != "" {
				for j := range x {
					if !heldEqual(a[j], x[j]) {
						fail = fmt.Sprintf("map(%s)|map(%s) index=%d got=%s", d.to, d.from, j, wireOf(a[j]))
						break
					}
				}
				if fail == "" && (!heldEqual(e[0], x[0]) || !heldEqual(e[1], x[len(x)-1])) {
					fail = "results-held-in-variables got=" + wireOf(e)
				}
			}
		case map[string]any:
			fail = fmt.Sprintf("err:%v", r["__err"])
		case panicMark:
			fail = "panic"
		case timeoutMark:
			fail = "timeout"
		default:
			fail = fmt.Sprintf("?%T", r)
		}
		if fail == "" {
			o.Verdict("OK", ops[i])
			o.Class(ops[i])
			continue
		}
		if len(fail) > 300 {
			fail = fail[:300] + "…"
		}
		// the known classes of the single-value laws apply to each held value
		key := ""
		for _, e := range x {
			if k := knownLawFailure(name, e); k != "" {
				key = k
				break
			}
		}
		if key != "" {
			o.Verdict("KNOWN", key+" "+ops[i]+" got="+fail)
		} else {
			o.Verdict("PROPFAIL", ops[i]+" got="+fail)
		}
	}
}

// ---------------------------------------------------------------------------------------------
// OPTIONS: a codec pair that takes options must round-trip — or fail cleanly — when BOTH sides are
// given the same options:  x | to_F($o) | from_F($o) == x  or an error, never another value.
// (seeded change S3-C14-1: to_csv and from_csv read the `comma` option differently)

type optDef struct {
	to, from string // jq, with $o bound to the options object
}

var optDefs = map[string]optDef{
	"csv":    {"to_csv($o)", "from_csv($o) | tovalue"},
	"json":   {"tojson($o)", "fromjson | tovalue"},
	"jq":     {"to_jq($o)", "from_jq"},
	"yaml":   {"to_yaml($o)", "from_yaml | tovalue"},
	"toml":   {"to_toml($o)", "from_toml | tovalue"},
	"xmlarr": {"to_xml($o)", "from_xml({array: true}) | tovalue"},
	"xmlobj": {"to_xml($o)", "from_xml($o) | tovalue"},
	"base64": {"to_base64($o)", "from_base64($o)"},
}

// each x is [options object, value]
func runOpt(o *hlib.Out, ev *evaluator, name string, xs []any) {
	d, ok := optDefs[name]
	if !ok {
		o.Verdict("BADOP", "law opt:"+name)
		return
	}
	ops := make([]string, len(xs))
	for i, x := range xs {
		ops[i] = fmt.Sprintf("law opt:%s %s", name, wireOf(x))
	}
	expr := fmt.Sprintf(`. as [$o, $x] | try [$x | %s | %s] catch {__err: (. | tostring)}`, d.to, d.from)
	res := ev.run(expr, xs)
	for i := range xs {
		o.Stat("law_opt", 1)
		pair := parseWire(strings.Fields(ops[i])[2]).([]any)
		opts, x := pair[0], pair[1]
		fail := ""
		switch r := res[i].(type) {
		case []any:
			if len(r) != 1 {
				fail = fmt.Sprintf("outputs=%d", len(r))
			} else if !heldEqual(r[0], x) {
				fail = wireOf(r[0])
			}
		case map[string]any:
			// failing cleanly is allowed
			o.Stat("law_opt_clean_error", 1)
		case panicMark:
			fail = "panic"
		case timeoutMark:
			fail = "timeout"
		default:
			fail = fmt.Sprintf("?%T", r)
		}
		if fail == "" {
			o.Verdict("OK", ops[i])
			o.Class(ops[i])
			continue
		}
		if len(fail) > 300 {
			fail = fail[:300] + "…"
		}
		if key := knownOptFailure(name, opts, x); key != "" {
			o.Verdict("KNOWN", key+" "+ops[i]+" got="+fail)
		} else {
			o.Verdict("PROPFAIL", ops[i]+" got="+fail)
		}
	}
}

// the known csv classes, relative to the comment character in force ('#' unless the option names
// another one; the empty string switches comments off)
func knownOptFailure(name string, opts, x any) string {
	if name != "csv" {
		return knownLawFailure(strings.TrimSuffix(strings.TrimSuffix(name, "arr"), "obj"), x)
	}
	om, _ := opts.(map[string]any)
	comment := "#"
	if c, ok := om["comment"].(string); ok {
		comment = ""
		if c != "" {
			comment = c[:1]
		}
	}
	if anyString(x, func(s string) bool { return strings.Contains(s, "\r\n") }) {
		return "csv-crlf-in-field"
	}
	rows, _ := x.([]any)
	for _, row := range rows {
		r, _ := row.([]any)
		if len(r) > 0 && comment != "" {
			if s, _ := r[0].(string); strings.HasPrefix(s, comment) {
				return "csv-comment-row"
			}
		}
		if len(r) == 1 {
			if s, _ := r[0].(string); s == "" {
				return "csv-single-empty-field"
			}
		}
	}
	return ""
}

// runLawOp re-runs one law line of a replay file (`[VERDICT [key]] law <name> <wire> [got=…]`)
func runLawOp(o *hlib.Out, ev *evaluator, line string) {
	i := strings.Index(line, "law ")
	if i < 0 {
		return
	}
	ws := strings.Fields(line[i:])
	if len(ws) < 3 {
		o.Verdict("BADOP", line)
		return
	}
	defer func() {
		if r := recover(); r != nil {
			o.Verdict("BADOP", fmt.Sprintf("%s: %v", line, r))
		}
	}()
	runLaw(o, ev, ws[1], []any{parseWire(ws[2])})
}

// ---- domains

func identKey(r *hlib.Rand) string {
	const a = "abcdefghijklmnopqrstuvwxyz_ABCXYZ"
	n := r.Range(1, 6)
	b := make([]byte, n)
	for i := range b {
		b[i] = a[r.Intn(len(a))]
		if i > 0 && r.Intn(4) == 0 {
			b[i] = "0123456789-"[r.Intn(11)]
		}
	}
	return string(b)
}

// printable text without control characters (YAML/TOML/XML cannot carry most C0 controls)
func printable(r *hlib.Rand) string {
	for {
		s := defaultStr(r)
		ok := true
		for _, c := range s {
			if c < 0x20 && c != '\n' && c != '\t' || c == 0x7f || c == 0xfeff || c == 0xfffe || c == 0xffff || (c >= 0x80 && c < 0xa0) {
				ok = false
			}
		}
		if ok {
			return s
		}
	}
}

func xmlName(r *hlib.Rand) string {
	const a = "abcdefghijklmnopqrstuvwxyz"
	n := r.Range(1, 5)
	b := make([]byte, n)
	for i := range b {
		b[i] = a[r.Intn(len(a))]
	}
	return string(b)
}

func xmlText(r *hlib.Rand) string {
	for {
		s := strings.TrimSpace(printable(r))
		if s != "" && !strings.ContainsAny(s, "\n\t\r") {
			return s
		}
	}
}

// array form of format/xml: [name, {attrs… , "#text": text} | null, [children…]]
func xmlTree(r *hlib.Rand, depth int) any {
	var attrs any
	m := map[string]any{}
	for i := r.Intn(3); i > 0; i-- {
		m[xmlName(r)] = xmlText(r)
	}
	if r.Intn(2) == 0 {
		m["#text"] = xmlText(r)
	}
	if len(m) > 0 {
		attrs = m
	}
	children := []any{}
	if depth > 0 {
		for i := r.Intn(4); i > 0; i-- {
			children = append(children, xmlTree(r, depth-1))
		}
	}
	return []any{xmlName(r), attrs, children}
}

// xmlSeqTree: like xmlTree but child names come from a pool of three, so that siblings with the
// same name are frequent and interleave (<r><a/><b/><a/><b/></r>), incl. elements ALL of whose
// children belong to repeated names
func xmlSeqTree(r *hlib.Rand, depth int, name string) any {
	var attrs any
	m := map[string]any{}
	if r.Intn(3) == 0 {
		m[xmlName(r)] = xmlText(r)
	}
	if r.Intn(2) == 0 {
		m["#text"] = xmlText(r)
	}
	if len(m) > 0 {
		attrs = m
	}
	children := []any{}
	if depth > 0 {
		pool := []string{"a", "b", "c"}[:r.Range(1, 3)]
		for i := r.Range(0, 6); i > 0; i-- {
			children = append(children, xmlSeqTree(r, depth-1, pool[r.Intn(len(pool))]))
		}
	}
	return []any{name, attrs, children}
}

func genLaws(cfg hlib.Config, r *hlib.Rand, o *hlib.Out, ev *evaluator) {
	n := 400
	if cfg.Thorough() {
		n = 6000
	}
	batch := map[string][]any{}
	add := func(name string, x any) { batch[name] = append(batch[name], x) }

	yg := &jsonGen{r: r, intBits: 63, strFn: printable, keyFn: printable}
	tg := &jsonGen{r: r, intBits: 63, noNull: true, strFn: printable, keyFn: printable}
	eg := &jsonGen{r: r, intBits: 100} // edge integers incl. those outside int64
	jg := &jsonGen{r: r, intBits: 300}
	sg := &jsonGen{r: r, strOnly: true}
	for k := 0; k < n; k++ {
		// YAML: root object or array
		if r.Bool() {
			add("yaml", yg.object(r.Range(0, 3)))
		} else {
			add("yaml", yg.array(r.Range(0, 3)))
		}
		// TOML: non-empty root object, no null
		for {
			m := tg.object(r.Range(0, 3)).(map[string]any)
			if len(m) > 0 {
				add("toml", m)
				break
			}
		}
		// arrays of tables nested in arrays of tables (depth <= 4), empty containers, keys that
		// need quoting, integers at the edges of int32/2^53/int64/uint64 in both representations
		{
			yv := yg.aoo(r.Range(1, 4))
			add("yaml", yv)
			add("yaml_arith", parseWire(wireOf(yv)))
			add("yaml_lit", parseWire(wireOf(yv)))
			for {
				tv := tg.aoo(r.Range(1, 4)).(map[string]any)
				if len(tv) > 0 {
					add("toml", tv)
					add("toml_arith", parseWire(wireOf(tv)))
					add("toml_lit", parseWire(wireOf(tv)))
					break
				}
			}
			n := eg.integer()
			add("yaml", map[string]any{"a": n, "l": []any{n, map[string]any{"n": n}}})
			add("toml", map[string]any{"a": n, "l": []any{map[string]any{"n": n, "t": []any{map[string]any{"m": n}}}}})
			for _, nm := range []string{"yaml_arith", "toml_arith", "yaml_lit", "toml_lit", "json_arith", "jqlit_arith"} {
				add(nm, map[string]any{"a": n, "l": []any{n}})
			}
		}
		add("xml", xmlTree(r, r.Range(0, 3)))
		add("xmlseq", xmlSeqTree(r, r.Range(1, 3), "r"))
		// object form without #seq: children of one name keep their relative order (REQUIRED since
		// /repo 2017971e made toXMLFromObject's sorts stable; formerly known finding
		// xml-object-unstable-name-sort)
		{
			m := map[string]any{}
			pool := []string{"a", "b", "c", "d"}[:r.Range(1, 4)]
			for _, nm := range pool {
				cnt := r.Range(1, 3)
				if r.Intn(3) == 0 {
					cnt = r.Range(4, 20)
				}
				if cnt == 1 {
					m[nm] = fmt.Sprintf("%s0", nm)
					continue
				}
				a := make([]any, cnt)
				for i := range a {
					a[i] = fmt.Sprintf("%s%d", nm, i)
				}
				m[nm] = a
			}
			add("xmlobj", map[string]any{"r": m})
			// nested object form: elements holding arrays of elements holding arrays of elements
			var elt func(d int) any
			elt = func(d int) any {
				if d == 0 || r.Intn(3) == 0 {
					return xmlText(r)
				}
				o := map[string]any{}
				if r.Intn(3) == 0 {
					o["@k"] = xmlText(r)
				}
				for _, nm := range []string{"a", "b", "c"}[:r.Range(1, 3)] {
					if r.Bool() {
						a := make([]any, r.Range(2, 4))
						for i := range a {
							a[i] = elt(d - 1)
						}
						o[nm] = a
					} else {
						o[nm] = elt(d - 1)
					}
				}
				return o
			}
			add("xmlobj", map[string]any{"r": elt(r.Range(1, 4))})
		}
		if k%4 == 0 {
			add("xml", xmlSeqTree(r, r.Range(1, 3), "r"))
		}
		// CSV: rectangular rows of strings
		rows, cols := r.Range(0, 4), r.Range(1, 4)
		tbl := make([]any, rows)
		for i := range tbl {
			row := make([]any, cols)
			for j := range row {
				row[j] = sg.str()
			}
			tbl[i] = row
		}
		add("csv", tbl)
		// jq literal: every JSON value of the modelled fragment, keys of every shape
		v := jg.value(r.Range(0, 4))
		_ = v // to_jq / indented tojson are modelled now (json run: jqlit, jqlitind, jsonind)
		// url query: string -> string | [>= 2 strings]
		q := map[string]any{}
		for i := r.Intn(4); i > 0; i-- {
			if r.Intn(3) == 0 {
				a := []any{}
				for j := r.Range(2, 4); j > 0; j-- {
					a = append(a, sg.str())
				}
				q[sg.str()] = a
			} else {
				q[sg.str()] = sg.str()
			}
		}
		add("urlquery", q)
		// JSON with finite floats (outside the Lean fragment)
		var f float64
		for {
			f = math.Float64frombits(r.U64())
			if !math.IsNaN(f) && !math.IsInf(f, 0) {
				break
			}
		}
		if r.Intn(4) == 0 {
			f = float64(int64(r.U64())>>uint(r.Intn(64))) / float64(int64(1)<<uint(r.Intn(40)))
		}
		add("jsonf", []any{f, map[string]any{"k": f}})
	}
	// the pinned interleaving <r><a>1</a><b>2</b><a>3</a><b>4</b></r>
	add("xmlseq", parseWire("[s72,n,[[s61,{s2374657874:s31},[]],[s62,{s2374657874:s32},[]],[s61,{s2374657874:s33},[]],[s62,{s2374657874:s34},[]]]]"))
	for _, name := range []string{"yaml", "toml", "yaml_arith", "toml_arith", "yaml_lit", "toml_lit", "json_arith", "jqlit_arith", "xml", "xmlseq", "xmlobj", "jsonf"} {
		runLaw(o, ev, name, batch[name])
	}

	genHeldAndOpt(cfg, r, o, ev, batch)

	// input immutability of every conversion function: the shaped values, plus values of each
	// structured serialiser's domain and random JSON values
	nr := 40
	if cfg.Thorough() {
		nr = 400
	}
	ig := &jsonGen{r: r, intBits: 70}
	for _, fn := range immutNames() {
		xs := immutShaped()
		for k := 0; k < nr; k++ {
			xs = append(xs, ig.value(r.Range(0, 3)))
		}
		for _, dom := range []string{"xml", "csv", "urlquery", "yaml", "toml"} {
			b := batch[dom]
			for k := 0; k < nr/4 && len(b) > 0; k++ {
				// a fresh copy: the batch values were already passed to fq above
				xs = append(xs, parseWire(wireOf(b[r.Intn(len(b))])))
			}
		}
		runImmut(o, ev, fn, xs)
	}
}

// genHeldAndOpt: held-results laws for every codec and the options dimension of every codec pair
// that takes options
func genHeldAndOpt(cfg hlib.Config, r *hlib.Rand, o *hlib.Out, ev *evaluator, batch map[string][]any) {
	n := 25
	if cfg.Thorough() {
		n = 120
	}
	pick := func(name string) any {
		b := batch[name]
		return parseWire(wireOf(b[r.Intn(len(b))]))
	}
	jg := &jsonGen{r: r, intBits: 100}
	str := func(maxClass int) string {
		// lengths on both sides of bytes.Buffer's 64-byte small buffer and well beyond
		return randString(r, []int{0, 1, 3, 17, 63, 64, 65, 200, 1000}[r.Intn(9)], maxClass)
	}
	input := func(codec string) any {
		switch codec {
		case "latin1":
			return str(2)
		case "radix":
			return jg.integerNonNeg()
		case "json", "jqlit":
			return jg.value(r.Range(0, 3))
		case "yaml":
			return pick("yaml")
		case "toml":
			return pick("toml")
		case "xml":
			return pick("xml")
		case "csv":
			return pick("csv")
		case "urlquery":
			return pick("urlquery")
		case "hex", "b64std", "b64url", "b64rawstd", "b64rawurl", "md4", "md5", "sha1", "sha256", "sha512", "sha3_256", "urlq", "urlp":
			if r.Bool() {
				return string(r.Bytes([]int{0, 1, 2, 3, 31, 64, 65, 300}[r.Intn(8)]))
			}
			return str(5)
		default:
			return str(5)
		}
	}
	for _, codec := range heldNames() {
		var xs []any
		for k := 0; k < n; k++ {
			m := r.Range(2, 5)
			a := make([]any, m)
			for i := range a {
				a[i] = input(codec)
			}
			xs = append(xs, a)
		}
		runHeld(o, ev, codec, xs)
	}

	// ---- options
	var csvOpts, idxOpts []any
	for _, c := range []string{";", "|", ":", "x", "§", "é", "→", "😀", "ab", "\t", " ", "\"", "\n", "#", ","} {
		csvOpts = append(csvOpts, map[string]any{"comma": c})
	}
	csvOpts = append(csvOpts, map[string]any{"comment": ""}, map[string]any{"comment": "!"}, map[string]any{"comment": ";", "comma": "|"}, map[string]any{"comma": ";", "comment": "§"}, map[string]any{})
	for i := 0; i <= 8; i++ {
		idxOpts = append(idxOpts, map[string]any{"indent": i})
	}
	for k := 0; k < n*4; k++ {
		op := csvOpts[r.Intn(len(csvOpts))].(map[string]any)
		t := pick("csv")
		runOpt(o, ev, "csv", []any{[]any{parseWire(wireOf(op)), t}})
	}
	var batchOpt = map[string][]any{}
	for k := 0; k < n; k++ {
		io := idxOpts[r.Intn(len(idxOpts))]
		v := jg.value(r.Range(1, 4))
		batchOpt["json"] = append(batchOpt["json"], []any{io, v})
		batchOpt["jq"] = append(batchOpt["jq"], []any{io, parseWire(wireOf(v))})
		batchOpt["yaml"] = append(batchOpt["yaml"], []any{io, pick("yaml")})
		batchOpt["toml"] = append(batchOpt["toml"], []any{io, pick("toml")})
		batchOpt["xmlarr"] = append(batchOpt["xmlarr"], []any{io, pick("xml")})
		// object form with another attribute prefix on both sides
		pfx := []string{"@", "_", "attr-", "@@", "-"}[r.Intn(5)]
		ov := map[string]any{"r": map[string]any{pfx + "k": xmlText(r), "a": []any{xmlText(r), map[string]any{pfx + "x": xmlText(r), "#text": xmlText(r)}}, "b": xmlText(r)}}
		batchOpt["xmlobj"] = append(batchOpt["xmlobj"], []any{map[string]any{"attribute_prefix": pfx}, ov})
		enc := []string{"std", "url", "rawstd", "rawurl", "unknown", ""}[r.Intn(6)]
		batchOpt["base64"] = append(batchOpt["base64"], []any{map[string]any{"encoding": enc}, string(r.Bytes(r.Range(0, 40)))})
	}
	for _, name := range []string{"json", "jq", "yaml", "toml", "xmlarr", "xmlobj", "base64"} {
		runOpt(o, ev, name, batchOpt[name])
	}
}
