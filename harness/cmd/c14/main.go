//go:build verif

// C14 harness: evaluates fq's conversion functions in-process with the real interpreter
// (interp.Eval on Go values, many inputs per compiled query) and writes
//
//	<codec> rt  <input>  TAB <to_F output|err> [<from_F(to_F) output|err>]
//	<codec> dec <text>   TAB <from_F output|err>
//	<hash> hash <bin>    TAB <digest>
//
// for the Lean driver (lean/Drv/C14.lean).  Generators only produce op TEXTS; one pipeline
// (evalOps) parses an op text into a Go input value, so that a replayed line is evaluated
// exactly like a generated one.
package main

import (
	"fmt"
	"os"
	"strings"

	"github.com/wader/fq/internal/verifharness/hlib"
)

func main() {
	cfg := hlib.ParseFlags()
	o := hlib.NewOut(cfg.Out)
	defer o.Close()
	ev := newEvaluator()

	part := ""
	if len(cfg.Args) > 0 {
		part = cfg.Args[0]
	}

	if cfg.Replay != "" {
		// every configured run replays the file; the `laws` run (no Lean driver) takes the law
		// lines, the others take the modelled-codec lines
		ops := hlib.ReplayLines(cfg.Replay)
		var modelled []string
		for _, l := range ops {
			if strings.Contains(l, "law ") && !strings.Contains(l, "\t") && (strings.HasPrefix(l, "law ") || strings.Contains(l, " law ")) {
				if part == "laws" || part == "" {
					runLawOp(o, ev, l)
				}
			} else if part != "laws" {
				modelled = append(modelled, l)
			}
		}
		ev.evalOps(o, modelled)
		return
	}

	r := hlib.NewRand(cfg.Seed)
	switch part {
	case "", "codecs", "bin", "url", "txt", "radix", "hash", "json", "xml", "csv":
		ops := genCodecOps(cfg, part, r, o)
		ev.evalOps(o, ops)
	case "laws":
		genLaws(cfg, r, o, ev)
	default:
		fmt.Fprintf(os.Stderr, "unknown part %q\n", part)
		os.Exit(2)
	}
}
