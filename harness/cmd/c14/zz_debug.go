//go:build verif

package main

import (
	"context"
	"fmt"
	"os"

	"github.com/wader/fq/pkg/interp"
)

func init() {
	if e := os.Getenv("C14_DEBUG_EXPR"); e != "" {
		ev := newEvaluator()
		it, err := ev.q.Eval(context.Background(), nil, e, interp.EvalOpts{})
		if err != nil {
			fmt.Println("compile:", err)
			os.Exit(0)
		}
		for {
			v, ok := it.Next()
			if !ok {
				break
			}
			fmt.Printf("%T %v\n", v, v)
		}
		os.Exit(0)
	}
}
