//go:build verif

package main

import (
	"fmt"
	"sort"
	"strings"
)

// decodeBatch decodes every file with the real fq (`fq -r -d <format> '<projection>' files…`,
// in-process, one interpreter per batch) and returns the projection line of each file
// (without the file name token). A batch that makes fq panic or lose a line is re-run file by file;
// a single file that still fails yields "panic" / "noline".
func decodeBatch(format string, files map[string][]byte) map[string]string {
	return decodeBatchProg(format, projections[format], files)
}

// decodeBatchProg: like decodeBatch with an explicit jq program (nested containers: the projection of an inner
// format applied below a path of the outer tree).
func decodeBatchProg(format, prog string, files map[string][]byte) map[string]string {
	res := map[string]string{}
	names := make([]string, 0, len(files))
	for n := range files {
		names = append(names, n)
	}
	sort.Strings(names)
	const chunk = 200
	for i := 0; i < len(names); i += chunk {
		j := min(i+chunk, len(names))
		part := names[i:j]
		if !runPart(format, prog, files, part, res) {
			for _, n := range part {
				if _, ok := res[n]; ok {
					continue
				}
				if !runPart(format, prog, files, []string{n}, res) {
					if _, ok := res[n]; !ok {
						res[n] = "panic"
					}
				}
			}
		}
	}
	return res
}

func runPart(format, prog string, files map[string][]byte, names []string, res map[string]string) bool {
	fsys := memFS{}
	for _, n := range names {
		fsys[n] = files[n]
	}
	args := append([]string{"-r", "-d", format, prog}, names...)
	so, se, err := runFq(fsys, args...)
	ok := err == nil || !strings.HasPrefix(fmt.Sprint(err), "panic")
	got := 0
	for _, l := range strings.Split(so, "\n") {
		if l == "" {
			continue
		}
		sp := strings.IndexByte(l, ' ')
		if sp < 0 {
			continue
		}
		if _, want := fsys[l[:sp]]; want {
			res[l[:sp]] = l[sp+1:]
			got++
		}
	}
	if got != len(names) {
		ok = false
		if len(names) == 1 {
			e := strings.TrimSpace(se)
			if len(e) > 120 {
				e = e[:120]
			}
			res[names[0]] = "noline " + strings.ReplaceAll(strings.ReplaceAll(e, " ", "_"), "\n", "|")
		}
	}
	return ok
}
