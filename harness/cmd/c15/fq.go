//go:build verif

package main

import (
	"bytes"
	"context"
	"fmt"
	"io"
	"io/fs"
	"time"

	_ "github.com/wader/fq/format/all"
	"github.com/wader/fq/pkg/interp"
)

// virtual OS for an in-process fq (after format/fuzz_test.go): files come from a map,
// stdout is captured, no terminal.
type memFile struct {
	*bytes.Reader
	name string
	size int64
}

func (f *memFile) Stat() (fs.FileInfo, error) {
	return interp.FixedFileInfo{FName: f.name, FSize: f.size, FMode: 0o444, FModTime: time.Unix(0, 0)}, nil
}
func (f *memFile) Close() error { return nil }

type memFS map[string][]byte

func (m memFS) Open(name string) (fs.File, error) {
	b, ok := m[name]
	if !ok {
		return nil, &fs.PathError{Op: "open", Path: name, Err: fs.ErrNotExist}
	}
	return &memFile{Reader: bytes.NewReader(b), name: name, size: int64(len(b))}, nil
}

type vin struct {
	interp.FileReader
	io.Writer
}

func (vin) IsTerminal() bool { return false }
func (vin) Size() (int, int) { return 120, 25 }

type vout struct{ io.Writer }

func (vout) Size() (int, int) { return 120, 25 }
func (vout) IsTerminal() bool { return false }

type vos struct {
	args   []string
	files  fs.FS
	stdout *bytes.Buffer
	stderr *bytes.Buffer
}

func (o *vos) Platform() interp.Platform { return interp.Platform{} }
func (o *vos) Stdin() interp.Input {
	return vin{FileReader: interp.FileReader{R: bytes.NewBuffer(nil)}}
}
func (o *vos) Stdout() interp.Output                             { return vout{o.stdout} }
func (o *vos) Stderr() interp.Output                             { return vout{o.stderr} }
func (o *vos) InterruptChan() chan struct{}                      { return nil }
func (o *vos) Environ() []string                                 { return nil }
func (o *vos) Args() []string                                    { return o.args }
func (o *vos) ConfigDir() (string, error)                        { return "/config", nil }
func (o *vos) FS() fs.FS                                         { return o.files }
func (o *vos) History() ([]string, error)                        { return nil, nil }
func (o *vos) Readline(opts interp.ReadlineOpts) (string, error) { return "", io.EOF }

// runFq runs the real interpreter's Main with the given command line and returns stdout, stderr.
func runFq(files fs.FS, args ...string) (stdout string, stderr string, err error) {
	o := &vos{args: append([]string{"fq"}, args...), files: files, stdout: &bytes.Buffer{}, stderr: &bytes.Buffer{}}
	defer func() {
		if r := recover(); r != nil {
			err = fmt.Errorf("panic: %v", r)
			stdout, stderr = o.stdout.String(), o.stderr.String()
		}
	}()
	q, nerr := interp.New(o, interp.DefaultRegistry)
	if nerr != nil {
		return "", "", nerr
	}
	err = q.Main(context.Background(), o.Stdout(), "verif")
	return o.stdout.String(), o.stderr.String(), err
}
