//go:build verif

package main

import (
	"archive/tar"
	"archive/zip"
	"bytes"
	"compress/flate"
	"compress/gzip"
	"compress/zlib"
	"encoding/binary"
	"fmt"
	"hash/crc32"
	"image"
	"image/color"
	"image/color/palette"
	"image/gif"
	"image/png"
	"io"
	"io/fs"
	"os/exec"
	"strings"
	"time"

	"github.com/wader/fq/internal/verifharness/hlib"
)

// region of a file that a stored checksum covers.
//
//	kind d: covered directly (the checksum is over these file bytes, or they are the stored checksum itself):
//	        any change must give `invalid` or a decode error
//	kind z: covered through a compressed stream (the checksum is over the decompressed bytes):
//	        invalid, error, or a clean result whose whole projection equals the intact file's
//	kind a: like z, but the enclosing png chunk crc is re-computed after the change (reaches the zlib adler-32)
//	kind u: zip/tar bytes covered by a checksum that fq stores but never verifies
type region struct {
	start, end int
	kind       byte
}

type fcase struct {
	format  string
	file    []byte
	truth   []string
	regions []region
	class   string
}

func hx(b []byte) string       { return hlib.Hex(b) }
func hxs(s string) string      { return hlib.Hex([]byte(s)) }
func opt(s string) string      { return map[bool]string{true: "~", false: hxs(s)}[s == ""] }
func kv(k string, v any) string { return fmt.Sprintf("%s=%v", k, v) }

// ---------------------------------------------------------------- contents

var asciiNames = []string{"a", "a.txt", "dir/file.bin", "with space.txt", "UPPER.TXT", "dot.", ".hidden", "a/b/c/d/e/f.g", "x=y&z", "tilde~name"}
var unicodeNames = []string{"ünï.txt", "文件.txt", "папка/файл", "🙂.bin", "é.txt", "a b"}

func genName(r *hlib.Rand, kind int) string {
	switch kind {
	case 0:
		return asciiNames[r.Intn(len(asciiNames))]
	case 1:
		return unicodeNames[r.Intn(len(unicodeNames))]
	case 2: // long ascii, 90..260 chars, with directories
		n := r.Range(90, 260)
		var sb strings.Builder
		for sb.Len() < n {
			if sb.Len() > 0 && r.Intn(9) == 0 {
				sb.WriteByte('/')
			} else {
				sb.WriteByte(byte('a' + r.Intn(26)))
			}
		}
		s := strings.TrimRight(sb.String(), "/")
		return strings.ReplaceAll(s, "//", "/x")
	case 3: // boundary lengths
		n := []int{99, 100, 101, 155, 156, 255, 256, 257}[r.Intn(8)]
		return strings.Repeat("n", n)
	case 5: // around the 4096 byte block size (tar: pax / gnu long name records)
		return asciiOfLen(r, []int{1000, 4095, 4096, 4097, 8192}[r.Intn(5)])
	default: // long unicode
		return strings.Repeat("ж", r.Range(50, 130)) + ".txt"
	}
}

// header string / extra field sizes around internal block sizes (255/256 one length byte, 4096 a read block, 65535 the
// largest 16 bit length)
var hdrSizes = []int{1, 255, 256, 4095, 4096, 4097, 8192, 65535}

func asciiOfLen(r *hlib.Rand, n int) string {
	b := make([]byte, n)
	for i := range b {
		b[i] = byte('a' + r.Intn(26))
		if i%17 == 16 {
			b[i] = '/'
		}
	}
	if n > 0 {
		b[n-1] = 'z'
	}
	return string(b)
}

// payload kinds: 0 empty, 1 tiny, 2 random, 3 aaaa, 4 text, 5 > 64 KiB random, 6 > 64 KiB compressible
func genPayload(r *hlib.Rand, kind int) []byte {
	switch kind {
	case 0:
		return nil
	case 1:
		return r.Bytes(r.Range(1, 3))
	case 2:
		return r.Bytes(r.Range(4, 700))
	case 3:
		return bytes.Repeat([]byte("a"), r.Range(1, 3000))
	case 4:
		return []byte(strings.Repeat("the quick brown fox jumps over the lazy dog\n", r.Range(1, 30)))
	case 5:
		return r.Bytes(r.Range(65537, 70000))
	default:
		return bytes.Repeat([]byte("abcdefgh"), r.Range(8193, 9000))
	}
}

// ---------------------------------------------------------------- gzip

type gzMember struct {
	name, comment string
	extra         []byte
	mtime         uint32
	os            byte
	level         int
	data          []byte
}

func buildGzip(ms []gzMember) *fcase {
	var file bytes.Buffer
	c := &fcase{format: "gzip", truth: []string{kv("n", len(ms))}}
	for _, m := range ms {
		var b bytes.Buffer
		w, err := gzip.NewWriterLevel(&b, m.level)
		if err != nil {
			panic(err)
		}
		w.Name, w.Comment, w.Extra, w.OS = m.name, m.comment, m.extra, m.os
		if m.mtime != 0 {
			w.ModTime = time.Unix(int64(m.mtime), 0)
		}
		if _, err := w.Write(m.data); err != nil {
			panic(err)
		}
		if err := w.Close(); err != nil {
			panic(err)
		}
		hlen := 10
		flg := 0
		if m.extra != nil {
			hlen += 2 + len(m.extra)
			flg |= 4
		}
		if m.name != "" {
			hlen += len(m.name) + 1
			flg |= 8
		}
		if m.comment != "" {
			hlen += len(m.comment) + 1
			flg |= 16
		}
		clen := b.Len() - hlen - 8
		xfl := 0
		if m.level == gzip.BestCompression {
			xfl = 2
		} else if m.level == gzip.BestSpeed {
			xfl = 4
		}
		ex := "~"
		if m.extra != nil {
			ex = hx(m.extra)
		}
		base := file.Len()
		c.truth = append(c.truth, "M", kv("flg", flg), kv("name", opt(m.name)), kv("comment", opt(m.comment)), kv("extra", ex),
			kv("mtime", m.mtime), kv("mdesc", hxs(time.Unix(int64(m.mtime), 0).UTC().Format(time.RFC3339))), kv("xfl", xfl), kv("os", m.os), kv("hcrc", "~"), kv("hlen", hlen), kv("clen", clen), kv("data", hx(m.data)))
		// regions: compressed stream (z) or the verbatim payload of a single stored block (d); trailer crc (d)
		if m.level == gzip.NoCompression && len(m.data) > 0 && len(m.data) <= 65535 &&
			bytes.Equal(b.Bytes()[hlen+5:hlen+5+len(m.data)], m.data) {
			c.regions = append(c.regions, region{base + hlen + 5, base + hlen + 5 + len(m.data), 'd'})
		} else {
			c.regions = append(c.regions, region{base + hlen, base + hlen + clen, 'z'})
		}
		c.regions = append(c.regions, region{base + hlen + clen, base + hlen + clen + 4, 'd'})
		// ISIZE: stored, never verified by fq (kind u)
		c.regions = append(c.regions, region{base + hlen + clen + 4, base + hlen + clen + 8, 'u'})
		file.Write(b.Bytes())
	}
	c.file = file.Bytes()
	return c
}

// genGzipRaw: a hand-rolled RFC 1952 writer (deflate by compress/flate) so that every combination of the five
// FLG bits is produced, including FTEXT and FHCRC (CRC-16 = low half of the CRC-32 of the header so far),
// which compress/gzip never emits. i%32 = FLG.
func genGzipRaw(r *hlib.Rand, i int) *fcase {
	flg := i % 32
	m := gzMember{os: 3, mtime: uint32(r.U64()), level: []int{-1, 0, 1, 9}[(i/32)%4]}
	m.data = genPayload(r, []int{2, 3, 4, 1, 0}[(i/32)%5])
	var h bytes.Buffer
	xfl := 0
	if m.level == 9 {
		xfl = 2
	} else if m.level == 1 {
		xfl = 4
	}
	h.Write([]byte{0x1f, 0x8b, 8, byte(flg)})
	binary.Write(&h, binary.LittleEndian, m.mtime)
	h.Write([]byte{byte(xfl), m.os})
	ex, hc := "~", "~"
	if flg&4 != 0 {
		m.extra = r.Bytes([]int{0, 3, 40}[r.Intn(3)])
		binary.Write(&h, binary.LittleEndian, uint16(len(m.extra)))
		h.Write(m.extra)
		ex = hx(m.extra)
	}
	if flg&8 != 0 {
		m.name = genName(r, []int{0, 2}[r.Intn(2)])
		h.WriteString(m.name)
		h.WriteByte(0)
	}
	if flg&16 != 0 {
		m.comment = []string{"c", "a comment"}[r.Intn(2)]
		h.WriteString(m.comment)
		h.WriteByte(0)
	}
	if flg&2 != 0 {
		c16 := uint16(crc32.ChecksumIEEE(h.Bytes()))
		hb := []byte{byte(c16), byte(c16 >> 8)}
		h.Write(hb)
		hc = hx(hb)
	}
	hlen := h.Len()
	var z bytes.Buffer
	fw, _ := flate.NewWriter(&z, m.level)
	fw.Write(m.data)
	fw.Close()
	h.Write(z.Bytes())
	binary.Write(&h, binary.LittleEndian, crc32.ChecksumIEEE(m.data))
	binary.Write(&h, binary.LittleEndian, uint32(len(m.data)))
	c := &fcase{format: "gzip", file: h.Bytes(), class: fmt.Sprintf("gzipraw.f%d.l%d.%d", flg, m.level, (i/32)%5)}
	c.truth = []string{kv("n", 1), "M", kv("flg", flg), kv("name", opt(m.name)), kv("comment", opt(m.comment)), kv("extra", ex),
		kv("mtime", m.mtime), kv("mdesc", hxs(time.Unix(int64(m.mtime), 0).UTC().Format(time.RFC3339))), kv("xfl", xfl), kv("os", m.os),
		kv("hcrc", hc), kv("hlen", hlen), kv("clen", z.Len()), kv("data", hx(m.data))}
	return c
}

// genGzipLong: name AND comment present (FLG = 0x18, which the decoder's mis-ordered flag byte happens to read
// right, so these files are checked strictly), one of them of a boundary size.
func genGzipLong(r *hlib.Rand, i int) *fcase {
	sz := hdrSizes[(i/2)%len(hdrSizes)]
	m := gzMember{os: 3, level: []int{-1, 0, 9}[i%3], data: genPayload(r, []int{1, 2, 4}[i%3])}
	if i%2 == 0 {
		m.name, m.comment = asciiOfLen(r, sz), "c"
	} else {
		m.name, m.comment = "n.txt", strings.ReplaceAll(asciiOfLen(r, sz), "/", " ")
	}
	c := buildGzip([]gzMember{m})
	c.class = fmt.Sprintf("gziplong.%d.%d", i%2, sz)
	return c
}

var gzLevels = []int{gzip.NoCompression, 1, 2, 3, 4, 5, 6, 7, 8, 9, gzip.DefaultCompression, gzip.HuffmanOnly}

func genGzip(r *hlib.Rand, i int) *fcase {
	nm := 1
	if i%5 == 4 {
		nm = r.Range(2, 4)
	}
	var ms []gzMember
	cls := ""
	for k := 0; k < nm; k++ {
		m := gzMember{os: []byte{255, 3, 0, 11}[r.Intn(4)], level: gzLevels[(i+k)%len(gzLevels)]}
		pk := (i/len(gzLevels) + k + i) % 7
		if pk >= 5 && i%3 != 0 {
			pk = r.Intn(5)
		}
		m.data = genPayload(r, pk)
		// header variants cycle through all 8 combinations of name/comment/extra
		hv := (i / 2) % 8
		if i%2 == 0 {
			hv = 0 // half of the files have FLG=0 (the class checked strictly)
		}
		if hv&1 != 0 {
			m.name = genName(r, []int{0, 0, 2}[r.Intn(3)])
		}
		if hv&2 != 0 {
			m.comment = []string{"c", "a comment", strings.Repeat("long comment ", 20)}[r.Intn(3)]
		}
		if hv&4 != 0 {
			m.extra = r.Bytes([]int{0, 1, 4, 60}[r.Intn(4)])
		}
		if r.Bool() {
			m.mtime = uint32(r.U64())
		}
		ms = append(ms, m)
		cls += fmt.Sprintf("/h%d.l%d.p%d", hv, m.level, pk)
	}
	c := buildGzip(ms)
	c.class = fmt.Sprintf("gzip.n%d%s", nm, cls)
	return c
}

// ---------------------------------------------------------------- tar

type tarMember struct {
	hdr  tar.Header
	data []byte
}

func buildTar(ms []tarMember, format tar.Format) (*fcase, error) {
	var b bytes.Buffer
	w := tar.NewWriter(&b)
	c := &fcase{format: "tar", truth: []string{kv("n", len(ms))}}
	for _, m := range ms {
		h := m.hdr
		h.Format = format
		h.Size = int64(len(m.data))
		if err := w.WriteHeader(&h); err != nil {
			return nil, err
		}
		if _, err := w.Write(m.data); err != nil {
			return nil, err
		}
		c.truth = append(c.truth, "F", kv("name", hxs(h.Name)), kv("type", int(h.Typeflag)), kv("link", opt(h.Linkname)),
			kv("mode", h.Mode), kv("uid", h.Uid), kv("gid", h.Gid), kv("mtime", h.ModTime.Unix()),
			kv("mdesc", hxs(h.ModTime.UTC().Format(time.RFC3339))), kv("devmajor", h.Devmajor), kv("devminor", h.Devminor),
			kv("uname", opt(h.Uname)), kv("gname", opt(h.Gname)), kv("data", hx(m.data)))
	}
	if err := w.Close(); err != nil {
		return nil, err
	}
	c.file = b.Bytes()
	// every 512-byte header block is covered by its chksum field (never verified by fq): kind u.
	// Only the first header is offered for corruption (offset 0 is always a header).
	if len(ms) > 0 {
		c.regions = append(c.regions, region{0, 512, 'u'})
	}
	return c, nil
}

func genTar(r *hlib.Rand, i int) *fcase {
	for {
		n := []int{1, 1, 2, 3, 8, 0}[i%6]
		if n == 0 {
			n = r.Range(1, 8)
		}
		format := []tar.Format{tar.FormatUSTAR, tar.FormatPAX, tar.FormatGNU, tar.FormatUnknown}[(i/6)%4]
		var ms []tarMember
		cls := fmt.Sprintf("tar.f%d.n%d", format, n)
		for k := 0; k < n; k++ {
			nk := []int{0, 0, 1, 2, 3, 4}[r.Intn(6)]
			if format == tar.FormatUSTAR && nk == 1 {
				nk = 0
			}
			if format != tar.FormatUSTAR && k == 0 && i%4 == 3 {
				nk = 5
			}
			m := tarMember{hdr: tar.Header{Name: genName(r, nk), Mode: int64([]int{0o644, 0o755, 0o7777, 0}[r.Intn(4)]),
				Uid: r.Intn(70000), Gid: r.Intn(2000), ModTime: time.Unix(int64(r.Intn(1<<31)), 0), Typeflag: tar.TypeReg}}
			if r.Bool() {
				m.hdr.Uname, m.hdr.Gname = []string{"root", "user", "somebody-with-a-long-name"}[r.Intn(3)], []string{"wheel", "staff"}[r.Intn(2)]
			}
			pk := r.Intn(5)
			if k == 0 && i%9 == 8 {
				pk = 5 + r.Intn(2)
			}
			switch r.Intn(8) {
			case 0:
				m.hdr.Typeflag = tar.TypeDir
				m.hdr.Name += "/"
				pk = 0
			case 1:
				m.hdr.Typeflag = tar.TypeSymlink
				m.hdr.Linkname = genName(r, []int{0, 2}[r.Intn(2)])
				pk = 0
			case 2:
				if r.Bool() { // device node: devmajor / devminor carry values
					m.hdr.Typeflag = []byte{tar.TypeChar, tar.TypeBlock}[r.Intn(2)]
					m.hdr.Devmajor, m.hdr.Devminor = int64(r.Intn(4096)), int64(r.Intn(1<<20))
					pk = 0
				}
			}
			m.data = genPayload(r, pk)
			ms = append(ms, m)
			cls += fmt.Sprintf("/n%d.p%d.t%c", nk, pk, m.hdr.Typeflag)
		}
		c, err := buildTar(ms, format)
		if err != nil {
			continue // the chosen format cannot represent this member (e.g. USTAR with a 257-byte name): draw again
		}
		c.class = cls
		return c
	}
}

// ---------------------------------------------------------------- zip

type zipMember struct {
	name    string
	method  uint16
	dd      bool // streaming (data descriptor) or sizes in the local header (CreateRaw)
	comment string
	level   int
	data    []byte
	extra   []byte    // a well formed unknown extra field record (tag, size, data)
	mod     time.Time // zero: no modification time given
	mode    uint32    // 0: no unix mode given
}

// MS-DOS date/time words of t (UTC), computed here independently of the writer: seconds are halved (odd seconds round down)
func dosWords(t time.Time) (fdate, ftime int) {
	return t.Day() + int(t.Month())<<5 + (t.Year()-1980)<<9, t.Second()/2 + t.Minute()<<5 + t.Hour()<<11
}

var zipDates = []time.Time{
	time.Date(1980, 1, 1, 0, 0, 0, 0, time.UTC), time.Date(2107, 12, 31, 23, 59, 59, 0, time.UTC),
	time.Date(2043, 12, 31, 23, 59, 58, 0, time.UTC), time.Date(2044, 1, 1, 0, 0, 0, 0, time.UTC),
	time.Date(2050, 6, 15, 12, 30, 41, 0, time.UTC), time.Date(2000, 2, 29, 1, 2, 3, 0, time.UTC),
	time.Date(2100, 2, 28, 23, 0, 1, 0, time.UTC), time.Date(2099, 12, 31, 0, 0, 0, 0, time.UTC),
	time.Date(2038, 1, 19, 3, 14, 8, 0, time.UTC), time.Date(2106, 2, 7, 6, 28, 16, 0, time.UTC),
	time.Date(1999, 11, 30, 16, 31, 30, 0, time.UTC), time.Date(2021, 10, 1, 7, 59, 59, 0, time.UTC),
}

func buildZip(ms []zipMember, comment string) *fcase {
	var b bytes.Buffer
	w := zip.NewWriter(&b)
	c := &fcase{format: "zip", truth: []string{kv("n", len(ms)), kv("comment", opt(comment))}}
	var fhs []*zip.FileHeader
	var clenAt []int
	for _, m := range ms {
		level := m.level
		w.RegisterCompressor(zip.Deflate, func(out io.Writer) (io.WriteCloser, error) { return flate.NewWriter(out, level) })
		fh := &zip.FileHeader{Name: m.name, Method: m.method, Comment: m.comment, Extra: append([]byte{}, m.extra...)}
		if m.mode != 0 {
			fh.SetMode(fs.FileMode(m.mode))
		}
		fdate, ftime, xt, hl := 0, 0, "~", 30+len(m.name)+len(m.extra)
		xraw := "~"
		if len(m.extra) >= 4 {
			xraw = fmt.Sprintf("%d:%d", binary.LittleEndian.Uint16(m.extra), binary.LittleEndian.Uint16(m.extra[2:]))
		}
		guess := time.Date(1980, 0, 0, 0, 0, 0, 0, time.UTC) // what date/time words 0/0 denote
		if !m.mod.IsZero() {
			fdate, ftime = dosWords(m.mod)
			guess = m.mod.Truncate(2 * time.Second)
			if m.dd {
				fh.Modified = m.mod // the writer derives the words and adds an extended timestamp (9 bytes of extra)
				xt = fmt.Sprint(uint32(m.mod.Unix()))
				hl += 9
			} else {
				fh.ModifiedDate, fh.ModifiedTime = uint16(fdate), uint16(ftime)
			}
		}
		off := 0
		if m.dd {
			fw, err := w.CreateHeader(fh)
			if err != nil {
				panic(err)
			}
			w.Flush() // the descriptor of the previous member and this local header (30 + name + extra bytes) are out now
			off = b.Len() - hl
			fw.Write(m.data)
		} else {
			var comp bytes.Buffer
			if m.method == zip.Deflate {
				fw, _ := flate.NewWriter(&comp, level)
				fw.Write(m.data)
				fw.Close()
			} else {
				comp.Write(m.data)
			}
			fh.CRC32 = crc32.ChecksumIEEE(m.data)
			fh.CompressedSize64 = uint64(comp.Len())
			fh.UncompressedSize64 = uint64(len(m.data))
			fw, err := w.CreateRaw(fh)
			if err != nil {
				panic(err)
			}
			w.Flush()
			off = b.Len() - hl
			fw.Write(comp.Bytes())
		}
		w.Flush()
		dd := 0
		if m.dd {
			dd = 1
		}
		c.truth = append(c.truth, "F", kv("name", hxs(m.name)), kv("method", m.method), kv("dd", dd), kv("fcomment", opt(m.comment)),
			kv("off", off), kv("fdate", fdate), kv("ftime", ftime), kv("guess", guess.Unix()), kv("gdesc", hxs(guess.Format("2006-01-02T15:04:05"))),
			kv("xt", xt), kv("xraw", xraw), kv("ext", fh.ExternalAttrs), kv("utf8", fh.Flags>>11&1), "clen=?", kv("data", hx(m.data)))
		fhs = append(fhs, fh)
		clenAt = append(clenAt, len(c.truth)-2)
		// payload of a stored member without descriptor: covered by crc32_uncompressed, which fq never verifies
		if m.method == zip.Store && !m.dd && len(m.data) > 0 {
			st := off + hl
			if bytes.Equal(b.Bytes()[st:st+len(m.data)], m.data) {
				c.regions = append(c.regions, region{st, st + len(m.data), 'u'})
			}
		}
	}
	if comment != "" {
		w.SetComment(comment)
	}
	if err := w.Close(); err != nil {
		panic(err)
	}
	for k, fh := range fhs { // the compressed size of a streamed member is known once it is closed
		c.truth[clenAt[k]] = kv("clen", fh.CompressedSize64)
	}
	c.file = b.Bytes()
	return c
}

func genZip(r *hlib.Rand, i int) *fcase {
	n := []int{0, 1, 1, 2, 3, 8}[i%6]
	var ms []zipMember
	cls := fmt.Sprintf("zip.n%d", n)
	for k := 0; k < n; k++ {
		v := (i/6 + k) % 4
		m := zipMember{name: genName(r, []int{0, 0, 1, 2, 4}[r.Intn(5)]), method: []uint16{zip.Store, zip.Deflate}[v%2], dd: v >= 2,
			level: []int{-1, 0, 1, 6, 9, -2}[r.Intn(6)]}
		if r.Intn(4) == 0 {
			m.comment = "member comment"
		}
		pk := r.Intn(5)
		if k == 0 && i%9 == 8 {
			pk = 5 + r.Intn(2)
		}
		m.data = genPayload(r, pk)
		// modification time over the whole MS-DOS range 1980..2107: boundary dates, random dates, or none
		dk := (i + 2*k) % 4
		switch dk {
		case 0:
			m.mod = zipDates[(i/4+k)%len(zipDates)]
		case 1, 2:
			m.mod = time.Date(1980+r.Intn(128), time.Month(1+r.Intn(12)), 1+r.Intn(28), r.Intn(24), r.Intn(60), r.Intn(60), 0, time.UTC)
			if dk == 2 { // last day of a month
				m.mod = time.Date(m.mod.Year(), m.mod.Month()+1, 0, m.mod.Hour(), m.mod.Minute(), m.mod.Second(), 0, time.UTC)
			}
		}
		if r.Intn(3) == 0 {
			m.mode = []uint32{0o644, 0o755, 0o400, 0o777}[r.Intn(4)]
		}
		// header string / extra sizes around block sizes: one member of every 4th archive
		if k == 0 && i%4 == 3 {
			sz := hdrSizes[(i/4)%len(hdrSizes)]
			switch (i / 32) % 3 {
			case 0:
				m.name = asciiOfLen(r, sz)
			case 1:
				m.comment = strings.ReplaceAll(asciiOfLen(r, sz), "/", " ")
			default:
				if sz > 65535-13 { // the writer adds 9 bytes of extended timestamp to a streamed member
					sz = 65535 - 13
				}
				m.extra = append([]byte{0x99, 0x99, byte(sz), byte(sz >> 8)}, r.Bytes(sz)...)
			}
		}
		ms = append(ms, m)
		yc := 0
		if !m.mod.IsZero() {
			yc = 1 + (m.mod.Year()-1980)/32
		}
		cls += fmt.Sprintf("/m%d.d%v.p%d.y%d", m.method, m.dd, pk, yc)
	}
	comment := ""
	if i%3 == 1 {
		comment = "archive comment"
	}
	if i%12 == 7 { // up to the 106 bytes fq's 128 byte end-record search window allows
		comment = strings.ReplaceAll(asciiOfLen(r, []int{1, 105, 106}[(i/12)%3]), "/", " ")
	}
	c := buildZip(ms, comment)
	c.class = cls
	return c
}

// ---------------------------------------------------------------- png

func pngChunk(typ string, data []byte) []byte {
	var b bytes.Buffer
	binary.Write(&b, binary.BigEndian, uint32(len(data)))
	b.WriteString(typ)
	b.Write(data)
	binary.Write(&b, binary.BigEndian, crc32.ChecksumIEEE(b.Bytes()[4:]))
	return b.Bytes()
}

type pngText struct {
	kw, text string
	z        bool
	level    int
}

func makeImage(r *hlib.Rand, mode, w, h int) (image.Image, int, int) {
	rect := image.Rect(0, 0, w, h)
	fill := func(set func(x, y int)) {
		for y := 0; y < h; y++ {
			for x := 0; x < w; x++ {
				set(x, y)
			}
		}
	}
	switch mode {
	case 0:
		im := image.NewGray(rect)
		fill(func(x, y int) { im.SetGray(x, y, color.Gray{byte(r.U64())}) })
		return im, 8, 0
	case 1:
		im := image.NewGray16(rect)
		fill(func(x, y int) { im.SetGray16(x, y, color.Gray16{uint16(r.U64())}) })
		return im, 16, 0
	case 2:
		im := image.NewRGBA(rect)
		fill(func(x, y int) { im.SetRGBA(x, y, color.RGBA{byte(r.U64()), byte(r.U64()), byte(r.U64()), 255}) })
		return im, 8, 2 // opaque RGBA is written as colour type 2
	case 3:
		im := image.NewNRGBA(rect)
		fill(func(x, y int) { im.SetNRGBA(x, y, color.NRGBA{byte(r.U64()), byte(r.U64()), byte(r.U64()), byte(r.U64())}) })
		im.SetNRGBA(0, 0, color.NRGBA{1, 2, 3, 4})
		return im, 8, 6
	case 4:
		im := image.NewRGBA64(rect)
		fill(func(x, y int) {
			im.SetRGBA64(x, y, color.RGBA64{uint16(r.U64()), uint16(r.U64()), uint16(r.U64()), 0xffff})
		})
		return im, 16, 2
	case 5:
		im := image.NewNRGBA64(rect)
		fill(func(x, y int) {
			im.SetNRGBA64(x, y, color.NRGBA64{uint16(r.U64()), uint16(r.U64()), uint16(r.U64()), uint16(r.U64())})
		})
		im.SetNRGBA64(0, 0, color.NRGBA64{1, 2, 3, 4})
		return im, 16, 6
	case 6: // 2 colours -> 1 bit palette
		im := image.NewPaletted(rect, color.Palette{color.Black, color.White})
		fill(func(x, y int) { im.SetColorIndex(x, y, uint8(r.Intn(2))) })
		return im, 1, 3
	case 7: // 4 colours -> 2 bit
		im := image.NewPaletted(rect, color.Palette(palette.Plan9[:4]))
		fill(func(x, y int) { im.SetColorIndex(x, y, uint8(r.Intn(4))) })
		return im, 2, 3
	case 8: // 16 colours -> 4 bit
		im := image.NewPaletted(rect, color.Palette(palette.Plan9[:16]))
		fill(func(x, y int) { im.SetColorIndex(x, y, uint8(r.Intn(16))) })
		return im, 4, 3
	default: // 256 colours, flat (highly compressible)
		im := image.NewPaletted(rect, color.Palette(palette.WebSafe))
		fill(func(x, y int) { im.SetColorIndex(x, y, uint8(7)) })
		return im, 8, 3
	}
}

func buildPng(r *hlib.Rand, mode, w, h int, level png.CompressionLevel, texts []pngText, phys []uint32) *fcase {
	im, bd, ct := makeImage(r, mode, w, h)
	var b bytes.Buffer
	enc := png.Encoder{CompressionLevel: level}
	if err := enc.Encode(&b, im); err != nil {
		panic(err)
	}
	file := b.Bytes()
	c := &fcase{format: "png", truth: []string{kv("w", w), kv("h", h), kv("bd", bd), kv("ct", ct), kv("ntext", len(texts))}}
	palTruth := "~"
	if pi, ok := im.(*image.Paletted); ok {
		var pb []byte
		for _, cl := range pi.Palette {
			cr, cg, cb, _ := cl.RGBA()
			pb = append(pb, byte(cr>>8), byte(cg>>8), byte(cb>>8))
		}
		palTruth = hx(pb)
	}
	c.truth = append(c.truth, kv("pal", palTruth))
	// hand-made pHYs / text chunks are inserted after IHDR (8 + 25 bytes)
	var ins bytes.Buffer
	if phys != nil {
		var pd bytes.Buffer
		binary.Write(&pd, binary.BigEndian, phys[0])
		binary.Write(&pd, binary.BigEndian, phys[1])
		pd.WriteByte(byte(phys[2]))
		ins.Write(pngChunk("pHYs", pd.Bytes()))
		c.truth = append(c.truth, kv("phys", fmt.Sprintf("%d:%d:%d", phys[0], phys[1], phys[2])))
	}
	type zspan struct{ start, end int }
	var zs []zspan
	for _, t := range texts {
		if t.z {
			var zb bytes.Buffer
			zw, _ := zlib.NewWriterLevel(&zb, t.level)
			zw.Write([]byte(t.text))
			zw.Close()
			d := append(append([]byte(t.kw), 0, 0), zb.Bytes()...)
			st := 33 + ins.Len() + 8 + len(t.kw) + 2
			zs = append(zs, zspan{st, st + zb.Len()})
			ins.Write(pngChunk("zTXt", d))
			c.truth = append(c.truth, "T", kv("kw", hxs(t.kw)), kv("z", 1), kv("text", hxs(t.text)))
		} else {
			ins.Write(pngChunk("tEXt", append(append([]byte(t.kw), 0), t.text...)))
			c.truth = append(c.truth, "T", kv("kw", hxs(t.kw)), kv("z", 0), kv("text", hxs(t.text)))
		}
	}
	out := append(append(append([]byte{}, file[:33]...), ins.Bytes()...), file[33:]...)
	c.file = out
	nid, zs0, raw := pngIdatTruth(out)
	c.truth = append(c.truth, kv("nidat", nid), kv("idat", hx(zs0)), kv("raw", hx(raw)))
	// regions: type+data+crc of every chunk (d); zlib streams of zTXt chunks with re-computed chunk crc (a)
	for p := 8; p+12 <= len(out); {
		l := int(binary.BigEndian.Uint32(out[p:]))
		c.regions = append(c.regions, region{p + 4, p + 12 + l, 'd'})
		p += 12 + l
	}
	for _, z := range zs {
		c.regions = append(c.regions, region{z.start, z.end, 'a'})
	}
	return c
}

func genPng(r *hlib.Rand, i int) *fcase {
	mode := i % 10
	sizes := [][2]int{{1, 1}, {2, 1}, {1, 2}, {3, 2}, {8, 8}, {9, 7}, {16, 16}, {31, 17}, {67, 31}, {67, 1}, {1, 31}, {33, 5}}
	sz := sizes[(i/10)%len(sizes)]
	if i%7 == 6 {
		sz = [2]int{r.Range(1, 67), r.Range(1, 31)}
	}
	level := []png.CompressionLevel{png.DefaultCompression, png.NoCompression, png.BestSpeed, png.BestCompression}[(i/3)%4]
	var texts []pngText
	for k := 0; k < (i/2)%3; k++ {
		t := pngText{kw: []string{"Title", "Author", "Comment", "k"}[r.Intn(4)], z: r.Bool(), level: []int{-1, 0, 1, 9}[r.Intn(4)]}
		switch r.Intn(4) {
		case 0:
			t.text = ""
		case 1:
			t.text = "short"
		case 2:
			t.text = strings.Repeat("compressible text ", r.Range(2, 200))
		default:
			t.text = strings.Repeat("ab", r.Range(1, 40))
		}
		if i%9 == 8 { // the longest keyword the specification allows and a text around / beyond the block sizes
			t.kw = strings.Repeat("K", 79)
			t.text = strings.ReplaceAll(asciiOfLen(r, []int{4095, 4096, 4097, 65535, 100000}[(i/9)%5]), "/", " ")
		}
		texts = append(texts, t)
	}
	var phys []uint32
	if i%4 == 1 {
		phys = []uint32{uint32(r.U64()), uint32(r.U64()), uint32(r.Intn(2))}
		if i%8 == 1 {
			phys = []uint32{2835, 2835, 1}
		}
	}
	c := buildPng(r, mode, sz[0], sz[1], level, texts, phys)
	c.class = fmt.Sprintf("png.m%d.%dx%d.l%d.t%d", mode, sz[0], sz[1], level, len(texts))
	return c
}

// ---------------------------------------------------------------- gif

func genGif(r *hlib.Rand, i int) *fcase {
	nframes := []int{1, 1, 2, 3}[i%4]
	ncol := []int{2, 4, 16, 256, 5}[(i/4)%5]
	sizes := [][2]int{{1, 1}, {3, 2}, {16, 16}, {67, 31}, {40, 9}}
	sz := sizes[(i/2)%len(sizes)]
	pal := color.Palette(palette.Plan9[:ncol])
	g := &gif.GIF{LoopCount: []int{0, -1, 3}[i%3]}
	gct := 0
	if (i/3)%2 == 1 { // one global colour table instead of a local table per image
		gct = 1
		g.Config = image.Config{ColorModel: pal, Width: sz[0], Height: sz[1]}
		g.BackgroundIndex = byte(r.Intn(ncol))
	}
	lbits := 1
	for 1<<uint(lbits) < ncol {
		lbits++
	}
	var pix [][]byte
	for f := 0; f < nframes; f++ {
		rect := image.Rect(0, 0, sz[0], sz[1])
		if f > 0 {
			x0, y0 := r.Intn(sz[0]), r.Intn(sz[1])
			rect = image.Rect(x0, y0, x0+r.Range(1, sz[0]-x0), y0+r.Range(1, sz[1]-y0))
		}
		im := image.NewPaletted(rect, pal)
		flat := r.Intn(3) == 0
		for k := range im.Pix {
			if flat {
				im.Pix[k] = 1
			} else {
				im.Pix[k] = uint8(r.Intn(ncol))
			}
		}
		g.Image = append(g.Image, im)
		g.Delay = append(g.Delay, r.Intn(50))
		g.Disposal = append(g.Disposal, byte(r.Intn(4)))
		pix = append(pix, append([]byte{}, im.Pix...))
	}
	var b bytes.Buffer
	if err := gif.EncodeAll(&b, g); err != nil {
		panic(err)
	}
	file := b.Bytes()
	// hand-made blocks without any sub-block (a lone terminator), inserted before the trailer: empty comment /
	// application extensions and an image descriptor with empty data (all valid per the GIF89a grammar)
	var extra []byte
	xe := "~"
	var jt []string
	if i%5 == 2 || i%5 == 4 {
		var codes []string
		for _, code := range [][]byte{{0xfe}, {0xff}, {0xfe, 0xff}, {0x01}}[r.Intn(4)] {
			extra = append(extra, 0x21, code, 0x00)
			codes = append(codes, fmt.Sprint(code))
		}
		xe = strings.Join(codes, ",")
	}
	if i%5 == 4 {
		x, y, w, h, cs := r.Intn(sz[0]), r.Intn(sz[1]), 1, 1, 2+r.Intn(7)
		extra = append(extra, 0x2c, byte(x), 0, byte(y), 0, byte(w), 0, byte(h), 0, 0x00, byte(cs), 0x00)
		jt = []string{"J", kv("x", x), kv("y", y), kv("w", w), kv("h", h), kv("cs", cs)}
	}
	cmt := "~"
	if i%5 == 1 || i%5 == 3 { // a comment extension whose data spans several 255 byte sub-blocks
		data := r.Bytes([]int{1, 255, 256, 510, 4096, 65535}[(i/5)%6])
		extra = append(extra, 0x21, 0xfe)
		for p := 0; p < len(data); p += 255 {
			e := min(p+255, len(data))
			extra = append(extra, byte(e-p))
			extra = append(extra, data[p:e]...)
		}
		extra = append(extra, 0x00)
		cmt = hx(data)
	}
	if len(extra) > 0 && file[len(file)-1] == 0x3b {
		file = append(append(append([]byte{}, file[:len(file)-1]...), extra...), 0x3b)
	}
	c := &fcase{format: "gif", file: file, truth: []string{kv("w", sz[0]), kv("h", sz[1]), kv("ncol", ncol), kv("n", nframes), kv("xe", xe), kv("cmt", cmt), kv("gct", gct), kv("lbits", lbits), kv("bg", g.BackgroundIndex), kv("loop", g.LoopCount)}}
	var palb []byte
	for _, cl := range pal {
		cr, cg, cb, _ := cl.RGBA()
		palb = append(palb, byte(cr>>8), byte(cg>>8), byte(cb>>8))
	}
	c.truth = append(c.truth, kv("pal", hx(palb)))
	for f, im := range g.Image {
		bd := im.Bounds()
		c.truth = append(c.truth, "I", kv("x", bd.Min.X), kv("y", bd.Min.Y), kv("w", bd.Dx()), kv("h", bd.Dy()), kv("delay", g.Delay[f]), kv("disp", g.Disposal[f]), kv("pix", hx(pix[f])))
	}
	c.truth = append(c.truth, jt...)
	c.class = fmt.Sprintf("gif.f%d.c%d.%dx%d.l%d.g%d.x%s.j%d", nframes, ncol, sz[0], sz[1], g.LoopCount, gct, xe, len(jt))
	return c
}

// ---------------------------------------------------------------- wav (hand-rolled writer)

func riffChunk(id string, data []byte) []byte {
	var b bytes.Buffer
	b.WriteString(id)
	binary.Write(&b, binary.LittleEndian, uint32(len(data)))
	b.Write(data)
	if len(data)%2 == 1 {
		b.WriteByte(0)
	}
	return b.Bytes()
}

func genWav(r *hlib.Rand, i int) *fcase {
	ch := []int{1, 2, 6}[i%3]
	bits := []int{8, 16, 24, 32}[(i/3)%4]
	rate := []int{8000, 44100, 48000, 96000}[r.Intn(4)]
	fv := (i / 12) % 3 // 0 plain 16-byte fmt, 1 with cb_size (+ extra bytes), 2 extensible
	nsamp := []int{0, 1, 3, 100, 1001}[r.Intn(5)]
	if i%17 == 16 {
		nsamp = 70000 / (ch * bits / 8)
	}
	blockAlign := ch * bits / 8
	samples := r.Bytes(nsamp * blockAlign)
	if i%5 == 0 && len(samples) > 0 && len(samples)%2 == 0 && bits == 8 {
		samples = samples[:len(samples)-1] // odd data size -> pad byte
	}
	var f bytes.Buffer
	af := 1
	if fv == 2 {
		af = 0xfffe
	} else if i%4 == 3 {
		af = 3
	}
	le := func(v any) { binary.Write(&f, binary.LittleEndian, v) }
	le(uint16(af))
	le(uint16(ch))
	le(uint32(rate))
	le(uint32(rate * blockAlign))
	le(uint16(blockAlign))
	le(uint16(bits))
	truth := []string{kv("af", af), kv("ch", ch), kv("rate", rate), kv("brate", rate*blockAlign), kv("align", blockAlign), kv("bits", bits), kv("fv", fv)}
	switch fv {
	case 1:
		ex := r.Bytes([]int{0, 2, 5}[r.Intn(3)])
		le(uint16(len(ex)))
		f.Write(ex)
		truth = append(truth, kv("cb", len(ex)), kv("ex", hx(ex)))
	case 2:
		le(uint16(22))
		le(uint16(bits))
		mask := uint32(1)<<uint(ch) - 1
		le(mask)
		f.Write([]byte{0x01, 0x00, 0x00, 0x00, 0x00, 0x00, 0x10, 0x00, 0x80, 0x00, 0x00, 0xaa, 0x00, 0x38, 0x9b, 0x71})
		truth = append(truth, kv("vb", bits), kv("mask", mask))
	}
	var body bytes.Buffer
	body.WriteString("WAVE")
	body.Write(riffChunk("fmt ", f.Bytes()))
	info := ""
	if i%3 == 1 {
		info = []string{"Artist Name", "x", "odd"}[r.Intn(3)]
		var l bytes.Buffer
		l.WriteString("INFO")
		l.Write(riffChunk("IART", append([]byte(info), 0)))
		body.Write(riffChunk("LIST", l.Bytes()))
	}
	if i%4 == 2 {
		var fa bytes.Buffer
		binary.Write(&fa, binary.LittleEndian, uint32(nsamp))
		body.Write(riffChunk("fact", fa.Bytes()))
		truth = append(truth, kv("fact", nsamp))
	}
	body.Write(riffChunk("data", samples))
	junk := "~"
	if i%6 == 5 {
		jb := r.Bytes(r.Range(0, 9))
		body.Write(riffChunk("junk", jb))
		junk = hx(jb)
	}
	truth = append(truth, kv("junk", junk))
	truth = append(truth, kv("info", opt(info)), kv("samples", hx(samples)))
	file := riffChunk("RIFF", body.Bytes())
	return &fcase{format: "wav", file: file, truth: truth,
		class: fmt.Sprintf("wav.c%d.b%d.f%d.n%d.i%v.%d", ch, bits, fv, nsamp, info != "", i%6)}
}

// ---------------------------------------------------------------- ogg page (hand-rolled writer, own bitwise crc)

// crc-32 with polynomial 0x04c11db7, msb first, init 0, no final xor (RFC 3533) — bit by bit,
// independent of fq's table.
func oggCRC(data []byte) uint32 {
	var c uint32
	for _, b := range data {
		c ^= uint32(b) << 24
		for k := 0; k < 8; k++ {
			if c&0x80000000 != 0 {
				c = c<<1 ^ 0x04c11db7
			} else {
				c <<= 1
			}
		}
	}
	return c
}

func genOgg(r *hlib.Rand, i int) *fcase {
	nseg := []int{0, 1, 2, 5, 255}[i%5]
	var segs [][]byte
	for k := 0; k < nseg; k++ {
		l := r.Intn(256)
		if nseg == 255 {
			l = r.Intn(8)
		}
		if i%7 == 0 {
			l = 255
		}
		segs = append(segs, r.Bytes(l))
	}
	flags := byte(r.Intn(8))
	var b bytes.Buffer
	b.WriteString("OggS")
	b.WriteByte(0)
	b.WriteByte(flags)
	gp, sn, seq := r.U64(), uint32(r.U64()), uint32(r.U64())
	binary.Write(&b, binary.LittleEndian, gp)
	binary.Write(&b, binary.LittleEndian, sn)
	binary.Write(&b, binary.LittleEndian, seq)
	b.Write([]byte{0, 0, 0, 0})
	b.WriteByte(byte(nseg))
	for _, s := range segs {
		b.WriteByte(byte(len(s)))
	}
	var all []byte
	for _, s := range segs {
		b.Write(s)
		all = append(all, s...)
	}
	file := b.Bytes()
	crc := oggCRC(file)
	if i%11 == 10 { // a page whose crc is stored wrong on purpose: must read `invalid`
		crc ^= 1 << uint(r.Intn(32))
	}
	binary.LittleEndian.PutUint32(file[22:], crc)
	good := 1
	if i%11 == 10 {
		good = 0
	}
	return &fcase{format: "ogg_page", file: file,
		truth:   []string{kv("flags", flags), kv("gp", gp), kv("sn", sn), kv("seq", seq), kv("nseg", nseg), kv("data", hx(all)), kv("good", good)},
		regions: []region{{0, len(file), 'd'}},
		class:   fmt.Sprintf("ogg.s%d.f%d.g%d.%d", nseg, flags, good, len(all))}
}

// ---------------------------------------------------------------- bzip2 (external writer: /usr/bin/bzip2, when installed)

var bzip2Path, _ = exec.LookPath("bzip2")

// blocks: 1 = the payload certainly fits one block, 2 = certainly more than one, 0 = no block at all (empty input)
func genBzip2(r *hlib.Rand, i int) *fcase {
	if bzip2Path == "" {
		return nil
	}
	level := 1 + i%9
	var data []byte
	blocks := 1
	switch {
	case i%13 == 12:
		blocks = 0
	case i%10 == 9: // more than one block: level 1 (100k blocks) and > 120000 incompressible bytes
		level = 1
		data = r.Bytes(r.Range(120000, 160000))
		blocks = 2
	default:
		pk := 1 + (i/2)%6
		data = genPayload(r, pk)
	}
	cmd := exec.Command(bzip2Path, "-c", fmt.Sprintf("-%d", level))
	cmd.Stdin = bytes.NewReader(data)
	out, err := cmd.Output()
	if err != nil {
		return nil
	}
	c := &fcase{format: "bzip2", file: out, truth: []string{kv("level", level), kv("blocks", blocks), kv("data", hx(data))},
		class: fmt.Sprintf("bzip2.l%d.b%d.%d", level, blocks, len(data))}
	if blocks == 1 && len(out) > 14 {
		c.regions = []region{{10, 14, 'd'}, {14, len(out) - 4, 'z'}} // stored block crc; the rest (bit stream, stream crc)
	}
	return c
}
