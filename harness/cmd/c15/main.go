//go:build verif

// C15 harness: container files are produced by writers that are independent of fq (Go's
// archive/tar, compress/gzip, archive/zip, compress/zlib, image/png, image/gif; hand-rolled
// WAV and Ogg-page writers), decoded by the real fq in-process (interp.Main with a virtual OS,
// `fq -r -d <format> '<jq projection>' files…`) and written as case lines for the Lean driver:
//
//	dec <format> <hex of the file> <ground truth tokens…>	<projection tokens of fq>
//	cor <format> <hex of the intact file> <pos>:<xor>:<kind>…	<result code per corruption>
//	crc <table> <bits> <init> <hex data>	<hex of checksum.CRC.Sum>
//
// result codes of a corruption: E decode error, I some checksum reads `invalid`, N (bzip2) neither but the payload is absent,
// C= clean and the projection equals the intact file's, C! clean with a different projection.
package main

import (
	"bytes"
	"compress/zlib"
	"encoding/binary"
	"fmt"
	"compress/lzw"
	"hash/crc32"
	"io"
	"strconv"
	"strings"

	"github.com/wader/fq/internal/verifharness/hlib"
	"github.com/wader/fq/pkg/checksum"
)

var _ = zlib.NewReader

// gifPost appends to every image block of a gif projection the token pair `P <hex>`: the LZW
// expansion (Go's compress/lzw, the code size fq reports) of the sub-block bytes fq reports.
func gifPost(obs string) string {
	ws := strings.Fields(obs)
	var out []string
	for i := 0; i < len(ws); i++ {
		out = append(out, ws[i])
		// I left top width height lcm interlaced bit_depth code_size lmap nsub bytes
		if ws[i] == "I" && i+11 < len(ws) && i > 10 {
			out = append(out, ws[i+1:i+12]...)
			cs, err := strconv.Atoi(ws[i+8])
			// known finding gif-local-color-map-order: with a local colour table fq's code_size is the first
			// colour byte and the real LZW code size is the last byte of what it shows as the table
			if ws[i+5] == "1" && len(ws[i+9]) >= 2 {
				if v, e := strconv.ParseUint(ws[i+9][len(ws[i+9])-2:], 16, 8); e == nil {
					cs = int(v)
				}
			}
			pix := "?"
			if ws[i+11] == "-" {
				pix = "-" // no image data at all
			} else if err == nil && cs >= 2 && cs <= 8 && ws[i+11] != "~" {
				func() {
					defer func() { _ = recover() }()
					rd := lzw.NewReader(bytes.NewReader(hlib.UnHex(ws[i+11])), lzw.LSB, cs)
					b, e := io.ReadAll(rd)
					if e == nil {
						pix = hlib.Hex(b)
					} else {
						pix = "lzwerr"
					}
				}()
			}
			out = append(out, "P", pix)
			i += 11
		}
	}
	return strings.Join(out, " ")
}

func post(format, obs string) string {
	if format == "gif" {
		return gifPost(obs)
	}
	return obs
}

// view is the part of a projection that carries contents (what a `clean` result is compared on):
// for png the chunk specific fields (IHDR, text chunks), otherwise the whole line.
func view(format, obs string) string {
	if format != "png" {
		return obs
	}
	ws := strings.Fields(obs)
	var out []string
	keep := false
	for _, w := range ws {
		switch w {
		case "C":
			keep = false
		case "I", "T", "Z", "P", "R":
			keep = true
		}
		if keep {
			out = append(out, w)
		}
	}
	return strings.Join(out, " ")
}

// ---------------------------------------------------------------- direct CRC (pkg/checksum/crc.go)

var crcTables = map[string]struct {
	t    checksum.Table
	bits int
}{
	"ATM8": {checksum.ATM8Table, 8}, "ANSI16": {checksum.ANSI16Table, 16},
	"Poly04c11db7": {checksum.Poly04c11db7Table, 32}, "IEEELE": {checksum.IEEELETable, 32},
}

func crcCase(o *hlib.Out, table string, init uint64, data []byte) {
	t := crcTables[table]
	op := fmt.Sprintf("crc %s %d %d %s", table, t.bits, init, hlib.Hex(data))
	obs, _ := hlib.Catch(func() string {
		c := &checksum.CRC{Bits: t.bits, Current: uint(init), Table: t.t}
		// split writes must not matter
		k := len(data) / 2
		c.Write(data[:k])
		c.Write(data[k:])
		return hlib.Hex(c.Sum(nil))
	})
	o.Case(op, obs)
	if len(data) >= 2 {
		o.Class(fmt.Sprintf("crc.%s.%d.%d", table, init, len(data)))
	}
}

// ---------------------------------------------------------------- decode cases

func decCases(o *hlib.Out, format string, cases []*fcase) map[*fcase]string {
	files := map[string][]byte{}
	for i, c := range cases {
		files[fmt.Sprintf("f%05d", i)] = c.file
	}
	res := decodeBatch(format, files)
	base := map[*fcase]string{}
	for i, c := range cases {
		obs := post(format, res[fmt.Sprintf("f%05d", i)])
		base[c] = obs
		o.Case(fmt.Sprintf("dec %s %s %s", format, hlib.Hex(c.file), strings.Join(c.truth, " ")), obs)
		if c.class != "" {
			o.Class(c.class)
		}
		o.Stat("dec_"+format, 1)
		if i == 1 {
			tr := strings.Join(c.truth, " ")
			if len(tr) > 160 {
				tr = tr[:160] + "…"
			}
			ob := obs
			if len(ob) > 200 {
				ob = ob[:200] + "…"
			}
			o.Sample(fmt.Sprintf("dec %s <%d bytes> %s => %s", format, len(c.file), tr, ob))
		}
	}
	return base
}

// ---------------------------------------------------------------- corruption cases

type corr struct {
	pos  int
	xor  byte
	kind byte
}

func classify(format, obs, base string) string {
	ws := strings.Fields(obs)
	if len(ws) == 0 || ws[0] == "panic" || ws[0] == "noline" {
		return "P"
	}
	if ws[0] == "err" {
		return "E"
	}
	for _, w := range ws {
		if w == "invalid" {
			return "I"
		}
		if w == "JQERR" {
			return "J"
		}
	}
	if format == "bzip2" && ws[len(ws)-1] == "~" {
		return "N" // no error, no `invalid`, but no uncompressed payload either
	}
	if view(format, obs) == view(format, base) {
		return "C="
	}
	return "C!"
}

// fixPngCRC re-computes the crc of the png chunk that contains pos.
func fixPngCRC(f []byte, pos int) {
	for p := 8; p+12 <= len(f); {
		l := int(binary.BigEndian.Uint32(f[p:]))
		if p+12+l > len(f) {
			return
		}
		if pos >= p && pos < p+12+l {
			binary.BigEndian.PutUint32(f[p+8+l:], crc32.ChecksumIEEE(f[p+4:p+8+l]))
			return
		}
		p += 12 + l
	}
}

func applyCorr(format string, file []byte, c corr) []byte {
	f := append([]byte{}, file...)
	if c.pos < len(f) {
		f[c.pos] ^= c.xor
	}
	if c.kind == 'a' && format == "png" {
		fixPngCRC(f, c.pos)
	}
	return f
}

func corCase(o *hlib.Out, format string, file []byte, cs []corr) {
	if len(cs) == 0 {
		return
	}
	files := map[string][]byte{"base": file}
	for i, c := range cs {
		files[fmt.Sprintf("c%05d", i)] = applyCorr(format, file, c)
	}
	res := decodeBatch(format, files)
	var ops, obs []string
	for i, c := range cs {
		ops = append(ops, fmt.Sprintf("%d:%02x:%c", c.pos, c.xor, c.kind))
		code := classify(format, res[fmt.Sprintf("c%05d", i)], res["base"])
		obs = append(obs, code)
		o.Stat("cor_"+format+"_"+string(c.kind)+"_"+strings.NewReplacer("=", "same", "!", "diff").Replace(code), 1)
	}
	o.Case(fmt.Sprintf("cor %s %s %s", format, hlib.Hex(file), strings.Join(ops, " ")), strings.Join(obs, " "))
	o.Stat("corruptions", len(cs))
}

// positions: every byte of a region of <= 512 bytes, otherwise `want` positions spread over it
// (always including the first and the last byte); one xor mask per position.
func pickCorr(r *hlib.Rand, regs []region, want int) []corr {
	var cs []corr
	for _, g := range regs {
		n := g.end - g.start
		if n <= 0 {
			continue
		}
		var ps []int
		if n <= 512 && (want >= 512 || n <= want) {
			for p := g.start; p < g.end; p++ {
				ps = append(ps, p)
			}
		} else {
			k := min(want, n)
			for j := 0; j < k; j++ {
				ps = append(ps, g.start+j*(n-1)/max(k-1, 1))
			}
		}
		last := -1
		for _, p := range ps {
			if p == last {
				continue
			}
			last = p
			x := byte(1) << uint(r.Intn(8))
			if r.Intn(3) == 0 {
				x = byte(r.Range(1, 255))
			}
			cs = append(cs, corr{p, x, g.kind})
		}
	}
	return cs
}

// ---------------------------------------------------------------- replay

func replay(o *hlib.Out, path string) {
	for _, l := range hlib.ReplayLines(path) {
		ws := strings.Fields(l)
		if len(ws) < 3 {
			o.Case(l, "badreplay")
			continue
		}
		if len(ws) >= 5 && (ws[0] == "PROPFAIL" || ws[0] == "OK") && ws[1] == "big" {
			ws = ws[1:]
		}
		switch ws[0] {
		case "big":
			sd, e1 := strconv.ParseUint(ws[2], 10, 64)
			v, e2 := strconv.Atoi(strings.TrimSuffix(ws[3], ":"))
			if e1 != nil || e2 != nil {
				o.Case(l, "badreplay")
				continue
			}
			bigRun(o, sd, v)
		case "swp":
			if !swpReplay(o, ws) {
				o.Case(l, "badreplay")
			}
		case "nst":
			if len(ws) < 5 {
				o.Case(l, "badreplay")
				continue
			}
			nstCase(o, ws[1], hlib.UnHex(ws[2]), ws[3], hlib.UnHex(ws[4]), strings.Join(ws[5:], " "))
		case "mdl":
			v, err := strconv.Atoi(ws[2])
			if len(ws) < 4 || ws[1] != "tar" || err != nil {
				o.Case(l, "badreplay")
				continue
			}
			mdlTarRun(o, []mdlTar{{v, hlib.UnHex(ws[3]), strings.Join(ws[4:], " "), "mdltar.replay"}})
		case "zlb":
			if len(ws) != 5 {
				o.Case(l, "badreplay")
				continue
			}
			v, _ := strconv.Atoi(ws[1])
			cl, err := strconv.Atoi(ws[3])
			if err != nil {
				cl = -1
			}
			zlbRun(o, []zlbCase{{v, hlib.UnHex(ws[2]), cl, hlib.UnHex(ws[4]), "zlb.replay"}})
		case "crc":
			if len(ws) != 5 {
				o.Case(l, "badreplay")
				continue
			}
			init, _ := strconv.ParseUint(ws[3], 10, 64)
			crcCase(o, ws[1], init, hlib.UnHex(ws[4]))
		case "dec":
			res := decodeBatch(ws[1], map[string][]byte{"f": hlib.UnHex(ws[2])})
			o.Case(l, post(ws[1], res["f"]))
		case "cor":
			var cs []corr
			for _, w := range ws[3:] {
				ps := strings.Split(w, ":")
				if len(ps) != 3 || len(ps[2]) != 1 {
					continue
				}
				p, _ := strconv.Atoi(ps[0])
				x, _ := strconv.ParseUint(ps[1], 16, 8)
				cs = append(cs, corr{p, byte(x), ps[2][0]})
			}
			corCase(o, ws[1], hlib.UnHex(ws[2]), cs)
		default:
			o.Case(l, "badreplay")
		}
	}
}

func main() {
	cfg := hlib.ParseFlags()
	o := hlib.NewOut(cfg.Out)
	defer o.Close()
	r := hlib.NewRand(cfg.Seed)
	if cfg.Replay != "" {
		replay(o, cfg.Replay)
		return
	}
	th := cfg.Thorough()
	pick := func(q, t int) int {
		if th {
			return t
		}
		return q
	}

	// 1. fq's own table-driven CRC, directly
	for _, tn := range []string{"ATM8", "ANSI16", "Poly04c11db7", "IEEELE"} {
		bits := crcTables[tn].bits
		crcCase(o, tn, 0, nil)
		for b := 0; b < 256; b++ { // every table entry: one byte from state 0
			crcCase(o, tn, 0, []byte{byte(b)})
		}
		for k := 0; k < pick(60, 600); k++ {
			init := uint64(0)
			if r.Bool() {
				init = r.U64() & (1<<uint(bits) - 1)
			}
			crcCase(o, tn, init, r.Bytes(r.Range(2, 300)))
		}
	}

	// 2. decode cases
	gens := []struct {
		format string
		gen    func(*hlib.Rand, int) *fcase
		n      int
		ncor   int // files offered for corruption
		want   int // positions per large region
		fixed  bool // the whole index space is enumerated from 0 (no seed dependent offset)
	}{
		{"gzip", genGzip, pick(96, 480), pick(10, 36), pick(24, 64), false},
		{"gzip", genGzipRaw, pick(64, 320), 0, 0, true}, // hand-rolled writer: every FLG value 0..31 at least twice
		{"gzip", genGzipLong, pick(16, 48), 0, 0, true},  // name / comment of 1 … 65535 bytes (both present: FLG 0x18)
		{"tar", genTar, pick(72, 360), pick(2, 6), pick(16, 128), false},
		{"zip", genZip, pick(72, 360), pick(2, 6), pick(8, 32), false},
		{"png", genPng, pick(120, 480), pick(8, 20), pick(24, 128), false},
		// hand-rolled png: 15 legal colour type / depth pairs x interlace, PLTE / tRNS shapes, IDAT cut into pieces (180 = one period)
		{"png", genPngRaw, pick(180, 720), pick(3, 10), pick(24, 128), true},
		{"gif", genGif, pick(40, 240), 0, 0, false},
		{"wav", genWav, pick(72, 288), 0, 0, false},
		{"ogg_page", genOgg, pick(44, 220), pick(6, 16), pick(40, 256), false},
		{"bzip2", genBzip2, pick(39, 117), pick(3, 8), pick(24, 64), false},
	}
	off := int(r.U64() % 1000)
	pool := map[string][]*fcase{}
	for _, g := range gens {
		var cases []*fcase
		for i := 0; i < g.n; i++ {
			idx := i
			if i >= g.n/2 && !g.fixed {
				idx = i + off // second half: seed dependent part of the index space
			}
			if c := g.gen(r.Fork(), idx); c != nil {
				cases = append(cases, c)
			}
		}
		if len(cases) == 0 {
			o.Stat("skipped_"+g.format+"_no_writer", 1)
			continue
		}
		pool[g.format] = append(pool[g.format], cases...)
		base := decCases(o, g.format, cases)
		// corruption: files with regions, smallest first so that whole regions are enumerated
		done := 0
		for _, c := range cases {
			if done >= g.ncor {
				break
			}
			if len(c.regions) == 0 || len(c.file) > 4000 && done < g.ncor-2 || classify(g.format, base[c], base[c]) != "C=" {
				continue
			}
			cs := pickCorr(r, c.regions, g.want)
			corCase(o, g.format, c.file, cs)
			done++
		}
	}
	// 2b. zlib framing directly (streams inside a zTXt chunk): 840 = one period of texts x variants x levels
	{
		var zs []zlbCase
		for i := 0; i < pick(840, 3360); i++ {
			zs = append(zs, genZlb(r.Fork(), i))
		}
		zlbRun(o, zs)
	}
	// 2c. tar headers with base-256 numbers: model comparison only
	mdlTarCases(o, r)
	// 3. containers inside containers (reached by fq's probing), one and two levels deep
	nestedCases(o, r, pool, pick(9, 30))
	// … and split over the members of a multi-member gzip (field reads that straddle a member boundary)
	multiGzipCases(o, r, pool, pick(4, 1), pick(1, 3))

	// 3b. (inflated size x compressibility class x method / level) sweep of one member
	swpCases(o, r.Fork(), th)

	// 4. multi-MiB files on disk through the CLI's open stack (read-ahead cache)
	for v := 0; v < pick(6, 18); v++ {
		bigRun(o, r.U64(), v)
	}
	_ = bytes.Equal
}
