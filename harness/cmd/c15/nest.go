//go:build verif

package main

import (
	"archive/tar"
	"archive/zip"
	"bytes"
	"compress/gzip"
	"crypto/sha256"
	"fmt"
	"hash/crc32"
	"io/fs"
	"os"
	"path/filepath"
	"sort"
	"strconv"
	"strings"
	"time"

	"github.com/wader/fq/internal/verifharness/hlib"
)

// ---------------------------------------------------------------- nested containers
//
//	nst <path> <hex of the OUTER file> <inner format> <hex of the inner file> <ground truth of the inner file…>	<projection>
//
// path = steps joined by "/": tar.K (member K of a tar: .files[K].data), zip.K (.local_files[K].uncompressed),
// gzip (.uncompressed); the first step names the outer format. The inner file is reached by fq's own PROBING of
// the member / decompressed payload; its projection is the inner format's, evaluated below the path, and the
// driver judges it exactly like a top level `dec` line.

func filler(r *hlib.Rand) []byte { return genPayload(r, []int{1, 2, 4}[r.Intn(3)]) }

// wrap puts inner into a new outer container; returns the outer file and the path step.
func wrap(kind string, r *hlib.Rand, inner []byte) ([]byte, string) {
	var b bytes.Buffer
	n := r.Range(1, 3)
	k := r.Intn(n)
	switch kind {
	case "tar":
		w := tar.NewWriter(&b)
		for j := 0; j < n; j++ {
			d := filler(r)
			if j == k {
				d = inner
			}
			w.WriteHeader(&tar.Header{Name: fmt.Sprintf("m%d.bin", j), Mode: 0o644, Size: int64(len(d)), Format: tar.FormatUSTAR, ModTime: time.Unix(1700000000, 0)})
			w.Write(d)
		}
		w.Close()
		return b.Bytes(), fmt.Sprintf("tar.%d", k)
	case "zips", "zipd": // stored with sizes in the header / deflated through the streaming writer
		w := zip.NewWriter(&b)
		for j := 0; j < n; j++ {
			d := filler(r)
			if j == k {
				d = inner
			}
			if kind == "zipd" {
				fw, _ := w.CreateHeader(&zip.FileHeader{Name: fmt.Sprintf("m%d.bin", j), Method: zip.Deflate})
				fw.Write(d)
			} else {
				fh := &zip.FileHeader{Name: fmt.Sprintf("m%d.bin", j), Method: zip.Store, CRC32: crc32.ChecksumIEEE(d),
					CompressedSize64: uint64(len(d)), UncompressedSize64: uint64(len(d))}
				fw, _ := w.CreateRaw(fh)
				fw.Write(d)
			}
		}
		w.Close()
		return b.Bytes(), fmt.Sprintf("zip.%d", k)
	default: // gzip, FLG = 0
		w, _ := gzip.NewWriterLevel(&b, []int{-1, 0, 9}[r.Intn(3)])
		w.Write(inner)
		w.Close()
		return b.Bytes(), "gzip"
	}
}

func jqPath(path string) (outerFormat, jq string, ok bool) {
	for i, st := range strings.Split(path, "/") {
		f, idx, _ := strings.Cut(st, ".")
		if i == 0 {
			outerFormat = f
		}
		k, err := strconv.Atoi(idx)
		switch {
		case f == "tar" && err == nil:
			jq += fmt.Sprintf(".files[%d].data", k)
		case f == "zip" && err == nil:
			jq += fmt.Sprintf(".local_files[%d].uncompressed", k)
		case f == "gzip" && idx == "":
			jq += ".uncompressed"
		default:
			return "", "", false
		}
	}
	return outerFormat, jq, jq != ""
}

// nestedProg = the inner format's projection, evaluated below the path
func nestedProg(innerFormat, jq string) string {
	p := projections[innerFormat]
	i := strings.LastIndex(p, "\nline(")
	return p[:i] + "\n" + jq + " | " + p[i+1:]
}

type nstItem struct {
	path        string
	outer       []byte
	innerFormat string
	inner       []byte
	truth       string
}

// nstFlush decodes the items (one interpreter per group with the same outer format / path / inner format) and
// writes their case lines in order.
func nstFlush(o *hlib.Out, items []nstItem) {
	type key struct{ path, inner string }
	groups := map[key][]int{}
	var order []key
	for i, it := range items {
		k := key{it.path, it.innerFormat}
		if _, ok := groups[k]; !ok {
			order = append(order, k)
		}
		groups[k] = append(groups[k], i)
	}
	obs := make([]string, len(items))
	for _, k := range order {
		outerFormat, jq, ok := jqPath(k.path)
		if !ok || projections[k.inner] == "" {
			for _, i := range groups[k] {
				obs[i] = "badpath"
			}
			continue
		}
		files := map[string][]byte{}
		for _, i := range groups[k] {
			files[fmt.Sprintf("n%05d", i)] = items[i].outer
		}
		res := decodeBatchProg(outerFormat, nestedProg(k.inner, jq), files)
		for _, i := range groups[k] {
			obs[i] = post(k.inner, res[fmt.Sprintf("n%05d", i)])
		}
	}
	for i, it := range items {
		o.Case(fmt.Sprintf("nst %s %s %s %s %s", it.path, hlib.Hex(it.outer), it.innerFormat, hlib.Hex(it.inner), it.truth), obs[i])
		o.Stat("nst_"+it.innerFormat, 1)
	}
}

func nstCase(o *hlib.Out, path string, outer []byte, innerFormat string, inner []byte, truth string) {
	nstFlush(o, []nstItem{{path, outer, innerFormat, inner, truth}})
}

// gzipMembers: the payload cut at the given offsets, every piece its own gzip member (FLG = 0), concatenated
// (`cat a.gz b.gz`): fq exposes the concatenation as the root `uncompressed` through a MultiReader and probes it.
func gzipMembers(r *hlib.Rand, payload []byte, cuts []int) []byte {
	var out bytes.Buffer
	prev := 0
	for _, c := range append(append([]int{}, cuts...), len(payload)) {
		w, _ := gzip.NewWriterLevel(&out, []int{-1, 0, 1, 9}[r.Intn(4)])
		w.Write(payload[prev:c])
		w.Close()
		prev = c
	}
	return out.Bytes()
}

// boundaries of the fixed fields of a tar header block (name, mode, uid, gid, size, mtime, chksum, typeflag,
// linkname, magic, version, uname, gname, devmajor, devminor, prefix, padding)
var tarFieldEnds = []int{100, 108, 116, 124, 136, 148, 156, 157, 257, 263, 265, 297, 329, 337, 345, 500, 512}

// multiGzipCases: an inner container split over 2..4 gzip members, cut inside and at the edges of its header
// fields, so that single field reads of the inner decode straddle a member boundary.
func multiGzipCases(o *hlib.Out, r *hlib.Rand, pool map[string][]*fcase, step int, perFormat int) {
	var items []nstItem
	for _, f := range []string{"tar", "zip", "png", "gif", "wav"} {
		var small []*fcase
		for _, c := range pool[f] {
			if len(c.file) >= 64 && len(c.file) <= 3200 {
				small = append(small, c)
			}
		}
		for j := 0; j < perFormat && j < len(small); j++ {
			c := small[(j*5+r.Intn(2))%len(small)]
			n := len(c.file)
			truth := strings.Join(c.truth, " ")
			cutSet := map[int]bool{}
			for x := 1; x < n && x <= 64; x += step { // the leading header
				cutSet[x] = true
			}
			for x := n - 64; x < n; x += step { // the trailing records (zip end record, IEND, gif trailer)
				if x > 0 {
					cutSet[x] = true
				}
			}
			if f == "tar" {
				for _, e := range tarFieldEnds {
					for _, x := range []int{e - 1, e, e + 1, e - 3} {
						if x > 0 && x < n {
							cutSet[x] = true
						}
					}
				}
				for x := 3; x < 512 && x < n; x += 4 * step { // inside every field
					cutSet[x] = true
				}
			}
			for k := 0; k < 6; k++ {
				cutSet[r.Range(1, n-1)] = true
			}
			var cuts []int
			for x := range cutSet {
				cuts = append(cuts, x)
			}
			sort.Ints(cuts)
			for _, x := range cuts {
				items = append(items, nstItem{"gzip", gzipMembers(r, c.file, []int{x}), f, c.file, truth})
			}
			for k := 0; k < 4; k++ { // three and four members
				m := r.Range(2, 3)
				cs := map[int]bool{}
				for len(cs) < m {
					cs[r.Range(1, n-1)] = true
				}
				var cl []int
				for x := range cs {
					cl = append(cl, x)
				}
				sort.Ints(cl)
				items = append(items, nstItem{"gzip", gzipMembers(r, c.file, cl), f, c.file, truth})
			}
			o.Class(fmt.Sprintf("nstm.%s.%s.%d", f, c.class, len(cuts)))
		}
	}
	nstFlush(o, items)
	o.Stat("nst_multi_member_gzip", len(items))
}

// nestedCases: small files of every probe-able format as members of tar and zip (stored and deflated), inside gzip,
// and two levels deep.
func nestedCases(o *hlib.Out, r *hlib.Rand, pool map[string][]*fcase, perFormat int) {
	kinds := []string{"tar", "zips", "zipd", "gzip"}
	two := [][2]string{{"zipd", "tar"}, {"tar", "gzip"}, {"gzip", "zips"}, {"zips", "zipd"}, {"gzip", "gzip"}, {"tar", "tar"}}
	for _, f := range []string{"zip", "gzip", "tar", "png", "gif", "wav", "bzip2"} {
		var small []*fcase
		for _, c := range pool[f] {
			if len(c.file) <= 6000 {
				small = append(small, c)
			}
		}
		if len(small) == 0 {
			continue
		}
		for j := 0; j < perFormat; j++ {
			c := small[(j*7+r.Intn(3))%len(small)]
			truth := strings.Join(c.truth, " ")
			if j%3 != 2 {
				outer, step := wrap(kinds[j%len(kinds)], r, c.file)
				nstCase(o, step, outer, f, c.file, truth)
				o.Class("nst." + f + "." + kinds[j%len(kinds)] + "." + c.class)
			} else {
				t := two[(j/3)%len(two)]
				mid, s2 := wrap(t[0], r, c.file)
				outer, s1 := wrap(t[1], r, mid)
				nstCase(o, s1+"/"+s2, outer, f, c.file, truth)
				o.Class("nst2." + f + "." + t[1] + "." + t[0] + "." + c.class)
			}
		}
	}
}

// ---------------------------------------------------------------- large files on disk
//
// `!OK big …` / `!PROPFAIL big …` (decided here: the Lean driver's byte lists are not meant for multi-MiB inputs).
// The files are written under $VERIF_WORK/big and opened through the real file system (os.File), i.e. through the
// stack the CLI uses: bitio <- aheadreadseeker (512 KiB read-ahead) <- progressreadseeker <- ctxreadseeker <- file.
// Check: no decode error, every checksum description `valid` (as many as expected), and every expected token
// (names, payload hex, text) present in the projection — payload equality is checked on the full hex.

type diskFS struct{ dir string }

func (d diskFS) Open(name string) (fs.File, error) { return os.Open(filepath.Join(d.dir, name)) }

type bigCase struct {
	format string
	file   []byte
	expect []string
	valid  int
}

func genBig(r *hlib.Rand, variant int) bigCase {
	mib := func(lo, hi int) int { return r.Range(lo*1024*1024/10, hi*1024*1024/10) } // tenths of MiB
	switch variant % 6 {
	case 0: // the layout of S2-C15-1: small IHDR, a text chunk > 1 MiB read in one piece, a large IDAT, IEND
		text := bytes.Repeat([]byte("large text chunk "), mib(10, 20)/17)
		idat := r.Bytes(mib(7, 14))
		var b bytes.Buffer
		b.Write([]byte("\x89PNG\r\n\x1a\n"))
		b.Write(pngChunk("IHDR", []byte{0, 0, 0, 1, 0, 0, 0, 1, 8, 0, 0, 0, 0}))
		b.Write(pngChunk("tEXt", append([]byte("Comment\x00"), text...)))
		b.Write(pngChunk("IDAT", idat))
		b.Write(pngChunk("IEND", nil))
		return bigCase{"png", b.Bytes(), []string{hx(text), hx(pngChunk("IDAT", idat))}, 4}
	case 1:
		d1, d2 := r.Bytes(mib(6, 12)), bytes.Repeat([]byte("compressible "), mib(10, 30)/13)
		c := buildGzip([]gzMember{{os: 3, level: 0, data: d1}, {os: 3, level: 6, data: d2}})
		return bigCase{"gzip", c.file, []string{hx(d1), hx(d2), hx(append(append([]byte{}, d1...), d2...))}, 2}
	case 2:
		d1, d2 := r.Bytes(mib(7, 15)), r.Bytes(mib(6, 9))
		c, err := buildTar([]tarMember{{hdr: tar.Header{Name: "big1.bin", Mode: 0o644, ModTime: time.Unix(1, 0), Typeflag: tar.TypeReg}, data: d1},
			{hdr: tar.Header{Name: "small.txt", Mode: 0o644, ModTime: time.Unix(1, 0), Typeflag: tar.TypeReg}, data: []byte("x")},
			{hdr: tar.Header{Name: "big2.bin", Mode: 0o644, ModTime: time.Unix(1, 0), Typeflag: tar.TypeReg}, data: d2}}, tar.FormatUSTAR)
		if err != nil {
			panic(err)
		}
		return bigCase{"tar", c.file, []string{hx(d1), hx(d2), hxs("big1.bin"), hxs("big2.bin")}, 0}
	case 3:
		d1, d2 := r.Bytes(mib(6, 12)), bytes.Repeat([]byte("zip member text "), mib(8, 20)/16)
		c := buildZip([]zipMember{{name: "stored.bin", method: zip.Store, data: d1, level: -1}, {name: "deflated.txt", method: zip.Deflate, dd: true, data: d2, level: 6}}, "")
		return bigCase{"zip", c.file, []string{hx(d1), hx(d2), hxs("stored.bin"), hxs("deflated.txt")}, 0}
	case 4:
		samples := r.Bytes(mib(12, 25) &^ 1)
		var f bytes.Buffer
		f.Write([]byte{1, 0, 2, 0, 0x44, 0xac, 0, 0, 0x10, 0xb1, 2, 0, 4, 0, 16, 0})
		body := append([]byte("WAVE"), riffChunk("fmt ", f.Bytes())...)
		body = append(body, riffChunk("data", samples)...)
		return bigCase{"wav", riffChunk("RIFF", body), []string{hx(samples)}, 0}
	default: // several > 512 KiB chunks one after the other
		var b bytes.Buffer
		b.Write([]byte("\x89PNG\r\n\x1a\n"))
		b.Write(pngChunk("IHDR", []byte{0, 0, 0, 1, 0, 0, 0, 1, 8, 0, 0, 0, 0}))
		var exp []string
		for k := 0; k < 3; k++ {
			ch := pngChunk("IDAT", r.Bytes(mib(6, 11)))
			b.Write(ch)
			exp = append(exp, hx(ch))
		}
		b.Write(pngChunk("IEND", nil))
		return bigCase{"png", b.Bytes(), exp, 5}
	}
}

func bigRun(o *hlib.Out, caseSeed uint64, variant int) {
	c := genBig(hlib.NewRand(caseSeed), variant)
	id := fmt.Sprintf("big %s %d %d", c.format, caseSeed, variant)
	dir := filepath.Join(os.Getenv("VERIF_WORK"), "big")
	if os.Getenv("VERIF_WORK") == "" {
		dir = filepath.Join(os.TempDir(), "c15big")
	}
	os.MkdirAll(dir, 0o755)
	name := fmt.Sprintf("v%d.%s", variant, c.format)
	if err := os.WriteFile(filepath.Join(dir, name), c.file, 0o644); err != nil {
		o.Verdict("BADOP", id+" cannot write the file: "+err.Error())
		return
	}
	defer os.Remove(filepath.Join(dir, name))
	so, _, err := runFq(diskFS{dir}, "-r", "-d", c.format, projections[c.format], name)
	line := strings.TrimSpace(so)
	ws := strings.Fields(line)
	have := map[string]bool{}
	valid, invalid := 0, 0
	for _, w := range ws {
		have[w] = true
		if w == "valid" {
			valid++
		}
		if w == "invalid" {
			invalid++
		}
	}
	why := ""
	switch {
	case err != nil && strings.HasPrefix(fmt.Sprint(err), "panic"):
		why = "fq panicked"
	case len(ws) < 2 || ws[1] != "ok":
		why = "decode error on an intact file"
	case invalid > 0:
		why = fmt.Sprintf("%d checksum(s) of an intact file shown as invalid", invalid)
	case valid != c.valid:
		why = fmt.Sprintf("%d checksums shown as valid, %d expected", valid, c.valid)
	default:
		for _, e := range c.expect {
			if !have[e] {
				why = fmt.Sprintf("a name/payload that was written is not reported (sha256 of its hex %x…)", sha256.Sum256([]byte(e)))[:110]
				break
			}
		}
	}
	o.N++
	if why == "" {
		o.Verdict("OK", id)
	} else {
		o.Verdict("PROPFAIL", fmt.Sprintf("%s: %d bytes on disk through the read-ahead stack: %s", id, len(c.file), why))
	}
	o.Stat("big_"+c.format, 1)
	o.Class(id)
}
