//go:build verif

package main

// Hand-rolled PNG writer (variants image/png cannot write) and a direct zlib framing dimension.
//
//   genPngRaw: every legal (colour type, bit depth) pair x interlace none/Adam7, PLTE of 1..2^depth entries (also the optional
//   suggested palette of RGB images), tRNS in its three shapes, the zlib stream of the scanlines (compress/zlib, all levels) cut
//   into 1..9 IDAT chunks at arbitrary places incl. EMPTY chunks and one-byte chunks around the 2 byte zlib header and the 4 byte
//   Adler-32 trailer. Every file is first read by Go's image/png decoder (an independent READER: a file it rejects is a bug of
//   this writer and panics).
//
//   zlbCases: RFC 1950 streams put into the zTXt chunk of a small png: compress/zlib at every level, hand-made headers with every
//   CINFO 0..7 x FLEVEL 0..3, preset dictionary (empty: the library accepts DICTID 1; non-empty: unknown to fq's reader), and broken
//   streams (FCHECK, CM, CINFO 8, Adler-32, cut trailer, empty / one byte stream), plus bytes after the trailer.

import (
	"bytes"
	"compress/flate"
	"compress/zlib"
	"encoding/binary"
	"fmt"
	"hash/adler32"
	"image/png"
	"strings"

	"github.com/wader/fq/internal/verifharness/hlib"
)

var pngLegal = [][2]int{{0, 1}, {0, 2}, {0, 4}, {0, 8}, {0, 16}, {2, 8}, {2, 16}, {3, 1}, {3, 2}, {3, 4}, {3, 8}, {4, 8}, {4, 16}, {6, 8}, {6, 16}}

func pngChannels(ct int) int { return map[int]int{0: 1, 2: 3, 3: 1, 4: 2, 6: 4}[ct] }

// scanlines: filter byte 0 + random samples per row; Adam7 = seven reduced images, empty passes omitted.
func pngScanlines(r *hlib.Rand, w, h, ct, bd int, interlace bool, zeroSamples bool) []byte {
	var out []byte
	pass := func(pw, ph int) {
		if pw == 0 || ph == 0 {
			return
		}
		rowBytes := (pw*pngChannels(ct)*bd + 7) / 8
		for y := 0; y < ph; y++ {
			out = append(out, 0)
			row := r.Bytes(rowBytes)
			if zeroSamples {
				row = make([]byte, rowBytes)
			}
			out = append(out, row...)
		}
	}
	if !interlace {
		pass(w, h)
		return out
	}
	for _, p := range [][4]int{{0, 0, 8, 8}, {4, 0, 8, 8}, {0, 4, 4, 8}, {2, 0, 4, 4}, {0, 2, 2, 4}, {1, 0, 2, 2}, {0, 1, 1, 2}} {
		pw := (w - p[0] + p[2] - 1) / p[2]
		ph := (h - p[1] + p[3] - 1) / p[3]
		if w <= p[0] {
			pw = 0
		}
		if h <= p[1] {
			ph = 0
		}
		pass(pw, ph)
	}
	return out
}

// cutStream cuts z into pieces by the scheme k (always concatenating back to z).
func cutStream(r *hlib.Rand, z []byte, k int) [][]byte {
	switch k % 6 {
	case 0:
		return [][]byte{z}
	case 1: // empty chunks before, between and after
		m := len(z) / 2
		return [][]byte{{}, z[:m], {}, {}, z[m:], {}}
	case 2: // zlib header split: 1 byte + 1 byte + rest
		if len(z) < 3 {
			return [][]byte{z}
		}
		return [][]byte{z[:1], z[1:2], z[2:]}
	case 3: // Adler-32 trailer split byte by byte
		if len(z) < 6 {
			return [][]byte{z}
		}
		n := len(z)
		return [][]byte{z[:n-4], z[n-4 : n-3], z[n-3 : n-2], {}, z[n-2 : n-1], z[n-1:]}
	case 4: // one byte per chunk (short streams) or 8 random cuts
		if len(z) <= 12 {
			var ps [][]byte
			for i := range z {
				ps = append(ps, z[i:i+1])
			}
			return ps
		}
		fallthrough
	default:
		n := r.Range(2, 9)
		var ps [][]byte
		pos := 0
		for i := 0; i < n-1; i++ {
			q := pos + r.Intn(len(z)-pos+1)
			ps = append(ps, z[pos:q])
			pos = q
		}
		return append(ps, z[pos:])
	}
}

func genPngRaw(r *hlib.Rand, i int) *fcase {
	lg := pngLegal[i%len(pngLegal)]
	ct, bd := lg[0], lg[1]
	interlace := (i/len(pngLegal))%2 == 1
	sizes := [][2]int{{1, 1}, {2, 3}, {5, 5}, {8, 8}, {9, 9}, {13, 4}, {3, 17}, {32, 2}}
	sz := sizes[(i/3)%len(sizes)]
	w, h := sz[0], sz[1]
	level := []int{-1, 0, 1, 9, -2, 5}[(i/5)%6]

	var ihdr bytes.Buffer
	binary.Write(&ihdr, binary.BigEndian, uint32(w))
	binary.Write(&ihdr, binary.BigEndian, uint32(h))
	il := 0
	if interlace {
		il = 1
	}
	ihdr.Write([]byte{byte(bd), byte(ct), 0, 0, byte(il)})

	var file bytes.Buffer
	file.WriteString("\x89PNG\r\n\x1a\n")
	file.Write(pngChunk("IHDR", ihdr.Bytes()))
	c := &fcase{format: "png", truth: []string{kv("w", w), kv("h", h), kv("bd", bd), kv("ct", ct), kv("il", il), kv("ntext", 0)}}

	// PLTE: required for colour type 3 (1 .. 2^depth entries), optional for 2 and 6
	npal := 0
	switch {
	case ct == 3:
		npal = []int{1 << uint(bd), 1, r.Range(1, 1<<uint(bd))}[(i/7)%3]
	case (ct == 2 || ct == 6) && i%4 == 0:
		npal = []int{1, 256, r.Range(1, 256)}[(i/4)%3]
	}
	palTruth := "~"
	if npal > 0 {
		pal := r.Bytes(3 * npal)
		file.Write(pngChunk("PLTE", pal))
		palTruth = hx(pal)
	}
	c.truth = append(c.truth, kv("pal", palTruth))
	// tRNS: grey sample / rgb sample / up to npal alphas (also zero alphas: an empty chunk)
	trns := ""
	if i%3 != 2 {
		switch ct {
		case 0:
			v := uint16(r.U64()) & (1<<uint(bd) - 1)
			file.Write(pngChunk("tRNS", []byte{byte(v >> 8), byte(v)}))
			trns = fmt.Sprintf("%d:~:~:~:~", v)
		case 2:
			var vs [3]uint16
			var d []byte
			for k := range vs {
				vs[k] = uint16(r.U64()) & (1<<uint(bd) - 1)
				d = append(d, byte(vs[k]>>8), byte(vs[k]))
			}
			file.Write(pngChunk("tRNS", d))
			trns = fmt.Sprintf("~:%d:%d:%d:~", vs[0], vs[1], vs[2])
		case 3:
			al := r.Bytes([]int{npal, 0, r.Intn(npal + 1)}[(i/9)%3])
			file.Write(pngChunk("tRNS", al))
			h := hx(al)
			if len(al) == 0 {
				h = "-"
			}
			trns = "~:~:~:~:" + h
		}
	}
	if trns != "" {
		c.truth = append(c.truth, kv("trns", trns))
	}
	// samples of a palette image index the palette: all zero when the palette is smaller than 2^depth
	raw := pngScanlines(r, w, h, ct, bd, interlace, ct == 3 && npal < 1<<uint(bd))
	var zb bytes.Buffer
	zw, err := zlib.NewWriterLevel(&zb, level)
	if err != nil {
		panic(err)
	}
	zw.Write(raw)
	zw.Close()
	parts := cutStream(r, zb.Bytes(), i/2)
	for _, p := range parts {
		file.Write(pngChunk("IDAT", p))
	}
	file.Write(pngChunk("IEND", nil))
	c.file = file.Bytes()
	c.truth = append(c.truth, kv("nidat", len(parts)), kv("idat", hx(zb.Bytes())), kv("raw", hx(raw)))
	if _, err := png.Decode(bytes.NewReader(c.file)); err != nil {
		panic(fmt.Sprintf("genPngRaw %d: image/png rejects the hand-made file: %v", i, err))
	}
	for p := 8; p+12 <= len(c.file); {
		l := int(binary.BigEndian.Uint32(c.file[p:]))
		c.regions = append(c.regions, region{p + 4, p + 12 + l, 'd'})
		p += 12 + l
	}
	c.class = fmt.Sprintf("pngraw.ct%d.bd%d.il%d.%dx%d.l%d.pal%d.trns%v.cut%d", ct, bd, il, w, h, level, npal, trns != "", (i/2)%6)
	return c
}

// pngIdatTruth: for a file of image/png, the concatenated IDAT data and its inflation (by this harness' own chunk walk
// and compress/zlib), added to the truth so that the same IDAT predicate applies.
func pngIdatTruth(file []byte) (n int, z, raw []byte) {
	for p := 8; p+12 <= len(file); {
		l := int(binary.BigEndian.Uint32(file[p:]))
		if string(file[p+4:p+8]) == "IDAT" {
			z = append(z, file[p+8:p+8+l]...)
			n++
		}
		p += 12 + l
	}
	zr, err := zlib.NewReader(bytes.NewReader(z))
	if err != nil {
		panic(err)
	}
	var b bytes.Buffer
	if _, err := b.ReadFrom(zr); err != nil {
		panic(err)
	}
	return n, z, b.Bytes()
}

// ---------------------------------------------------------------- zlib framing, directly

type zlbCase struct {
	valid  int
	stream []byte
	clen   int // -1: flate fails
	data   []byte
	class  string
}

func zlibHeader(cinfo, flevel int, fdict bool) []byte {
	cmf := cinfo<<4 | 8
	flg := flevel << 6
	if fdict {
		flg |= 0x20
	}
	flg += (31 - (cmf*256+flg)%31) % 31
	return []byte{byte(cmf), byte(flg)}
}

func be32(v uint32) []byte { return []byte{byte(v >> 24), byte(v >> 16), byte(v >> 8), byte(v)} }

func deflateBytes(data []byte, level int) []byte {
	var z bytes.Buffer
	fw, _ := flate.NewWriter(&z, level)
	fw.Write(data)
	fw.Close()
	return z.Bytes()
}

func genZlb(r *hlib.Rand, i int) zlbCase {
	texts := []string{"", "a", "short text", strings.Repeat("compressible text ", r.Range(2, 60)), strings.Repeat("ab", r.Range(1, 300))}
	data := []byte(texts[i%len(texts)])
	variant := (i / len(texts)) % 14
	switch variant {
	case 0: // compress/zlib, every level
		level := []int{-2, -1, 0, 1, 2, 3, 4, 5, 6, 7, 8, 9}[(i/70)%12]
		var zb bytes.Buffer
		zw, _ := zlib.NewWriterLevel(&zb, level)
		zw.Write(data)
		zw.Close()
		return zlbCase{1, zb.Bytes(), zb.Len() - 6, data, fmt.Sprintf("zlb.go.l%d.t%d", level, i%len(texts))}
	case 1, 2: // every CINFO x FLEVEL header over a stored deflate stream (no distances: legal for any window)
		cinfo, flevel := (i/70)%8, (i/7)%4
		z := deflateBytes(data, 0)
		s := append(append(zlibHeader(cinfo, flevel, false), z...), be32(adler32.Checksum(data))...)
		return zlbCase{1, s, len(z), data, fmt.Sprintf("zlb.hdr.c%d.f%d", cinfo, flevel)}
	case 3: // empty preset dictionary (DICTID = 1): compress/zlib writes it, the reader accepts it
		var zb bytes.Buffer
		zw, _ := zlib.NewWriterLevelDict(&zb, 6, []byte{})
		zw.Write(data)
		zw.Close()
		return zlbCase{1, zb.Bytes(), zb.Len() - 10, data, "zlb.dict.empty"}
	case 4: // a real preset dictionary: fq's reader has none -> must not be a clean result
		var zb bytes.Buffer
		zw, _ := zlib.NewWriterLevelDict(&zb, 6, []byte("compressible text ab"))
		zw.Write(data)
		zw.Close()
		return zlbCase{0, zb.Bytes(), zb.Len() - 10, data, "zlb.dict.unknown"}
	}
	z := deflateBytes(data, []int{-1, 0, 9}[i%3])
	good := append(append(zlibHeader(7, 2, false), z...), be32(adler32.Checksum(data))...)
	s := append([]byte{}, good...)
	switch variant {
	case 5: // FCHECK off by 1..30
		s[1] = s[1]&0xe0 | byte((int(s[1]&0x1f)+r.Range(1, 30))%31)
		if (int(s[0])*256+int(s[1]))%31 == 0 {
			s[1] ^= 1
		}
		return zlbCase{0, s, len(z), data, "zlb.bad.fcheck"}
	case 6: // CM != 8, FCHECK consistent
		cm := []int{0, 7, 9, 15}[r.Intn(4)]
		cmf := 7<<4 | cm
		flg := 2 << 6
		flg += (31 - (cmf*256+flg)%31) % 31
		s[0], s[1] = byte(cmf), byte(flg)
		return zlbCase{0, s, len(z), data, "zlb.bad.cm"}
	case 7: // window above 32 KiB, FCHECK consistent
		cmf := r.Range(8, 15)<<4 | 8
		flg := (31 - (cmf*256)%31) % 31
		s[0], s[1] = byte(cmf), byte(flg)
		return zlbCase{0, s, len(z), data, "zlb.bad.cinfo"}
	case 8: // Adler-32 altered
		s[len(s)-1-r.Intn(4)] ^= byte(1 << uint(r.Intn(8)))
		return zlbCase{0, s, len(z), data, "zlb.bad.adler"}
	case 9: // trailer cut by 1..4 bytes
		return zlbCase{0, s[:len(s)-r.Range(1, 4)], len(z), data, "zlb.cut.trailer"}
	case 10: // nothing / one byte
		return zlbCase{0, s[:i%2], -1, data, "zlb.cut.header"}
	case 11: // payload byte altered in a stored stream, Adler-32 kept: checksum error
		if len(data) == 0 {
			return zlbCase{1, good, len(z), data, "zlb.good"}
		}
		z0 := deflateBytes(data, 0)
		d2 := append([]byte{}, data...)
		d2[r.Intn(len(d2))] ^= byte(1 << uint(r.Intn(8)))
		z2 := deflateBytes(d2, 0)
		s = append(append(zlibHeader(7, 0, false), z2...), be32(adler32.Checksum(data))...)
		_ = z0
		return zlbCase{0, s, len(z2), d2, "zlb.bad.payload"}
	case 12: // bytes after the trailer (inside the chunk): ignored by the reader; model comparison only
		return zlbCase{2, append(s, r.Bytes(r.Range(1, 9))...), len(z), data, "zlb.trailing"}
	default:
		return zlbCase{1, good, len(z), data, "zlb.good"}
	}
}

// zlbRun decodes every stream inside the zTXt chunk of a 1x1 png and writes the case lines.
func zlbRun(o *hlib.Out, cs []zlbCase) {
	idat := func() []byte {
		var zb bytes.Buffer
		zw := zlib.NewWriter(&zb)
		zw.Write([]byte{0, 0})
		zw.Close()
		return zb.Bytes()
	}()
	files := map[string][]byte{}
	for i, c := range cs {
		var f bytes.Buffer
		f.WriteString("\x89PNG\r\n\x1a\n")
		f.Write(pngChunk("IHDR", []byte{0, 0, 0, 1, 0, 0, 0, 1, 8, 0, 0, 0, 0}))
		f.Write(pngChunk("zTXt", append([]byte{'k', 0, 0}, c.stream...)))
		f.Write(pngChunk("IDAT", idat))
		f.Write(pngChunk("IEND", nil))
		files[fmt.Sprintf("z%05d", i)] = f.Bytes()
	}
	res := decodeBatch("png", files)
	for i, c := range cs {
		ws := strings.Fields(res[fmt.Sprintf("z%05d", i)])
		obs := "noline"
		if len(ws) >= 1 {
			obs = ws[0]
		}
		if obs == "ok" {
			obs = "ok ?"
			for k, w := range ws {
				if w == "Z" && k+3 < len(ws) {
					obs = "ok " + ws[k+3]
				}
			}
		}
		cl := "x"
		if c.clen >= 0 {
			cl = fmt.Sprint(c.clen)
		}
		dh := hx(c.data)
		if len(c.data) == 0 {
			dh = "-"
		}
		sh := hx(c.stream)
		if len(c.stream) == 0 {
			sh = "-"
		}
		o.Case(fmt.Sprintf("zlb %d %s %s %s", c.valid, sh, cl, dh), obs)
		o.Class(c.class)
		o.Stat("zlb_"+strings.SplitN(c.class, ".", 3)[1], 1)
	}
}
