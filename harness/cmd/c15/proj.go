//go:build verif

package main

// jq projections: one line of space separated tokens per input file.
//   strings  -> hex of the string's bytes ("-" empty, "~" absent)
//   raw bits -> hex of the bytes           ("-" empty, "~" absent)
//   numbers  -> decimal (actual value unless said otherwise), "~" absent
// The first token of every line is the virtual file name (so that a batch of files can be
// told apart), the second `ok` | `err` (root ._error).

const jqDefs = `
def nn(f): if . == null then "~" else f end;
def hx: tobytes | to_hex | if . == "" then "-" else . end;
def hb: nn(hx);
def hs: nn(tovalue | if type == "string" then hx else "?" end);
def num: nn(toactual | tostring);
def sym: nn(tosym | nn(tostring));
def desc: nn(todescription | nn(.));
def blen: nn(tobytes | length | tostring);
def bit: nn(if tovalue then "1" else "0" end);
def err: if ._error == null then "ok" else "err" end;
def dsc: nn(todescription | nn(hx));
def line(f): [input_filename, err] + (try f catch ["JQERR", (tostring | hx)]) | join(" ");
`

const jqGzip = jqDefs + `
def member:
  ["M", (.compression_method|num),
   (.flags | [(.text|bit), (.header_crc|bit), (.extra|bit), (.name|bit), (.comment|bit)] | join("")),
   (.flags.reserved|num), (.mtime|num), (.mtime|dsc), (.extra_flags|num), (.os|num),
   (.xlen|num), (.extra_fields|hb), (.name|hs), (.comment|hs), (.header_crc|hb),
   "B", (.compressed|blen), (.crc32|num), (.crc32|desc), (.isize|num), (.uncompressed|hb)];
line([(.members|length|tostring)] + ([.members[] | member] | add // []) + ["U", (.uncompressed|hb)])
`

const jqTar = jqDefs + `
def file:
  ["F", (.name|hs), (.mode|sym), (.uid|sym), (.gid|sym), (.size|sym), (.mtime|sym), (.mtime|dsc), (.chksum|sym),
   (.typeflag|hs), (.linkname|hs), (.magic|hs), (.version|sym), (.uname|hs), (.gname|hs),
   (.devmajor|sym), (.devminor|sym), (.prefix|hs), (.header_block_padding|blen), (.data|hb), (.data_block_padding|blen)];
line([(.files|length|tostring)] + ([.files[] | file] | add // []) + ["E", (.end_marker|blen)])
`

const jqPng = jqDefs + `
def chunk:
  ["C", (.length|num), (.type|hs), ([(.ancillary|bit), (.private|bit), (.reserved|bit), (.safe_to_copy|bit)]|join("")),
   (.crc|num), (.crc|desc), hx]
  + (if (.type|tovalue) == "IHDR" then ["I", (.width|num), (.height|num), (.bit_depth|num), (.color_type|num),
        (.compression_method|num), (.filter_method|num), (.interlace_method|num)]
     elif (.type|tovalue) == "tEXt" then ["T", (.keyword|hs), (.text|hs)]
     elif (.type|tovalue) == "zTXt" then ["Z", (.keyword|hs), (.compression_method|num), (.uncompressed.text|hs)]
     elif (.type|tovalue) == "PLTE" then ["P", (.palette|length|tostring), ([.palette[] | (.r, .g, .b) | tovalue] | tobytes | hx)]
     elif (.type|tovalue) == "tRNS" then ["R", (.alpha|num), (.r|num), (.g|num), (.b|num), (.alphas|nn([.[] | tovalue] | tobytes | hx))]
     elif (.type|tovalue) == "pHYs" then ["Y", (.x_pixels_per_unit|num), (.y_pixels_per_unit|num), (.unit|num)]
     else [] end);
line([(.signature|hb), (.chunks|nn(length|tostring))] + ([.chunks[]? | chunk] | add // []))
`

const jqZip = jqDefs + `
def flagsdd: (.flags.data_descriptor|bit) + (.flags.language_encoding|bit);
def lm: .last_modification | ["T", (.fat_time|num), (.fat_date|num), (.second|num), (.second|sym), (.minute|num), (.hour|num),
   (.day|num), (.month|num), (.year|num), (.year|sym), (.unix_guess|num), (.unix_guess|nn(todescription|nn(hx)))];
def xf: ["X", (.extra_fields | nn(map((.tag|num) + ":" + (.size|num) + ":" + (.modification_time|num)) | join(",") | if . == "" then "-" else . end))];
def cd:
  ["D", (.file_name|hs), (.compression_method|num), flagsdd, (.crc32_uncompressed|num), (.compressed_size|num),
   (.uncompressed_size|num), (.relative_offset_of_local_file_header|num), (.file_comment|hs), (.extra_fields|nn(length|tostring)),
   (.external_file_attributes|num)] + lm + xf;
def lf:
  ["L", (.file_name|hs), (.compression_method|num), flagsdd, (.crc32_uncompressed|num), (.compressed_size|num),
   (.uncompressed_size|num), (.uncompressed|hb), (.compressed|blen),
   (.data_indicator|nn("1")), (.data_indicator|nn(.signature|hb)), (.data_indicator|nn(.crc32_uncompressed|num)),
   (.data_indicator|nn(.compressed_size|num)), (.data_indicator|nn(.uncompressed_size|num))] + lm + xf;
line((.end_of_central_directory_record | ["E", (.disk_nr|num), (.nr_of_central_directory_records_on_disk|num), (.nr_of_central_directory_records|num),
        (.size_of_central_directory|num), (.offset_of_start_of_central_directory|num), (.comment|hs)])
     + [(.central_directories|nn(length|tostring))] + ([.central_directories[]? | cd] | add // [])
     + [(.local_files|nn(length|tostring))] + ([.local_files[]? | lf] | add // []))
`

const jqGif = jqDefs + `
def cmap: nn([.[][] | tovalue] | tobytes | hx);
def subs: [.[] | select(type == "object") | .data | tobytes] | tobytes | hx;
def blk:
  if .separator_character != null then
    ["I", (.left|num), (.top|num), (.width|num), (.height|num), (.local_color_map_follows|bit), (.image_interlaced|bit),
     (.bit_depth|num), (.code_size|num), (.local_color_map|cmap), (.image_bytes|nn(length|tostring)), (.image_bytes|nn(subs))]
  else
    ["X", (.function_code|num), (.func_data_bytes|nn(length|tostring)), (.func_data_bytes|nn(subs))]
  end;
line([(.header|hs), (.width|num), (.height|num), (.gcp_follows|bit), (.color_resolution|num), (.zero|num), (.bit_depth|num),
      (.black_color|num), (.pixel_aspect_ratio|num), (.global_color_map|cmap), (.blocks|nn(length|tostring))]
     + ([.blocks[]? | blk] | add // []) + ["T", (.terminator|num)])
`

const jqWav = jqDefs + `
def chunk:
  ["(", (.id|hs), (.size|num)]
  + (if .format != null then ["R", (.format|hs)] else [] end)
  + (if .type != null then ["Y", (.type|hs)] else [] end)
  + (if .audio_format != null then ["F", (.audio_format|num), (.num_channels|num), (.sample_rate|num), (.byte_rate|num),
        (.block_align|num), (.bits_per_sample|num), (.cb_size|num), (.unknown|hb), (.extension_size|num),
        (.valid_bits_per_sample|num), (.channel_mask|num), (.sub_format|hb)] else [] end)
  + (if .samples != null then ["S", (.samples|hb)] else [] end)
  + (if .sample_length != null then ["A", (.sample_length|num)] else [] end)
  + (if .value != null then ["V", (.value|hs)] else [] end)
  + (if .data != null then ["D", (.data|hb)] else [] end)
  + (if .chunks != null then ([.chunks[] | chunk] | add // []) else [] end)
  + [")", (.align|blen)];
line(chunk)
`

const jqOgg = jqDefs + `
line([(.capture_pattern|hs), (.version|num), (.unused_flags|num), (.last_page|bit), (.first_page|bit), (.continued_packet|bit),
      (.granule_position|num), (.bitstream_serial_number|num), (.page_sequence_no|num), (.crc|num), (.crc|desc),
      (.page_segments|num), (.segments|nn(length|tostring)), (.segments|nn([.[]|tobytes]|tobytes|hx))])
`

const jqBzip2 = jqDefs + `
line([(.magic|hs), (.version|num), (.hundred_k_blocksize|num), (.block.crc|num), (.block.crc|desc),
      (.footer.crc|num), (.footer.crc|desc), (.uncompressed|hb)])
`

var projections = map[string]string{
	"gzip": jqGzip, "tar": jqTar, "png": jqPng, "zip": jqZip, "gif": jqGif, "wav": jqWav, "ogg_page": jqOgg, "bzip2": jqBzip2,
}
