//go:build verif

// `swp` lines: the dimension (inflated size x compressibility class x method / level) of ONE member, swept through the
// independent writers (Go compress/gzip, compress/flate, archive/zip, compress/zlib) and observed through the real decoders
// in-process.  The payloads are up to 16 MiB, so the line carries lengths and hashes only:
//
//	swp <kind> <variant> <class> <size> <level> <seed> m <v> <len> <crc32> <md5> <clen> … u <len> <md5>	<fq's report>
//
// The line is replayed from its parameters (the file is rebuilt deterministically).  The verdict is the Lean driver's
// (`stepSwp`: expected report `swpExpect` = what the writer stored).
package main

import (
	"archive/zip"
	"bytes"
	"compress/flate"
	"compress/gzip"
	"compress/zlib"
	"crypto/md5"
	"fmt"
	"hash/crc32"
	"io"
	"strconv"
	"strings"

	"github.com/wader/fq/internal/verifharness/hlib"
)

const jqSwpDefs = jqDefs + `
def pl: if . == null then "~ ~" else (tobytes | [(length|tostring), (to_md5|to_hex)] | join(" ")) end;
`

var swpProj = map[string]string{
	"gzip": jqSwpDefs + `line([(.members|length|tostring)] + ([.members[] | ["M", (.compressed|blen), (.crc32|num), (.crc32|desc), (.isize|num), (.uncompressed|pl)]] | add // []) + ["U", (.uncompressed|pl)])`,
	"zip": jqSwpDefs + `line([(.local_files|nn(length|tostring))] + ([.local_files[]? | ["L", (.compression_method|num), (.flags.data_descriptor|bit), (.crc32_uncompressed|num), (.compressed_size|num), (.uncompressed_size|num), (.uncompressed|pl), (.compressed|blen), (.data_indicator|nn(.crc32_uncompressed|num)), (.data_indicator|nn(.compressed_size|num)), (.data_indicator|nn(.uncompressed_size|num))]] | add // []) + ([.central_directories[]? | ["D", (.crc32_uncompressed|num), (.compressed_size|num), (.uncompressed_size|num)]] | add // []))`,
	"png": jqSwpDefs + `line([.chunks[]? | select((.type|tovalue) == "zTXt") | ["Z", (.crc|desc), (.compressed|blen), (.uncompressed|pl)]] | add // [])`,
}

// swpPayload: the compressibility classes. ascii = only printable bytes (png zTXt text is shown as a string).
func swpPayload(r *hlib.Rand, class string, size int, ascii bool) []byte {
	b := make([]byte, size)
	pr := func(x byte) byte {
		if ascii {
			return 0x20 + x%95
		}
		return x
	}
	switch class {
	case "eq": // one long run of a single byte value: the extreme of DEFLATE (ratio up to ~1030)
		v := pr([]byte{0, 0xff, 'a', 0x55}[r.Intn(4)])
		for i := range b {
			b[i] = v
		}
	case "per": // short period
		p := r.Bytes(r.Range(2, 7))
		for i := range b {
			b[i] = pr(p[i%len(p)])
		}
	case "txt":
		words := []string{"the ", "container ", "decoder ", "reports ", "what ", "writers ", "stored\n", "fq ", "payload ", "0123456789 "}
		for i := 0; i < size; {
			i += copy(b[i:], words[r.Intn(len(words))])
		}
	case "rnd":
		copy(b, r.Bytes(size))
		if ascii {
			for i := range b {
				b[i] = pr(b[i])
			}
		}
	default: // mix: runs, random and text segments of 1..64 KiB
		for i := 0; i < size; {
			n := min(r.Range(1, 65536), size-i)
			copy(b[i:i+n], swpPayload(r, []string{"eq", "rnd", "txt", "per"}[r.Intn(4)], n, ascii))
			i += n
		}
	}
	return b
}

func deflateRaw(data []byte, level int) []byte {
	var b bytes.Buffer
	w, err := flate.NewWriter(&b, level)
	if err != nil {
		panic(err)
	}
	w.Write(data)
	w.Close()
	return b.Bytes()
}

func swpTruthM(v string, data []byte, clen int) string {
	return fmt.Sprintf("m %s %d %d %x %d", v, len(data), crc32.ChecksumIEEE(data), md5.Sum(data), clen)
}

// swpBuild returns the container format, the file and the truth tokens.
func swpBuild(variant, class string, size, level int, seed uint64) (string, []byte, string) {
	r := hlib.NewRand(seed)
	tail := []byte("tail member after the swept one\n")
	switch variant {
	case "gz1", "gzm": // compress/gzip, one member / three members (swept, small, swept again) = `cat a.gz b.gz c.gz`
		data := swpPayload(r, class, size, false)
		parts := [][]byte{data}
		if variant == "gzm" {
			parts = [][]byte{data, tail, data}
		}
		var file, all bytes.Buffer
		var truth []string
		for _, p := range parts {
			var b bytes.Buffer
			w, err := gzip.NewWriterLevel(&b, level)
			if err != nil {
				panic(err)
			}
			w.Write(p)
			w.Close()
			truth = append(truth, swpTruthM("g", p, b.Len()-18))
			file.Write(b.Bytes())
			all.Write(p)
		}
		truth = append(truth, fmt.Sprintf("u %d %x", all.Len(), md5.Sum(all.Bytes())))
		return "gzip", file.Bytes(), strings.Join(truth, " ")
	case "zh", "zd", "zs": // archive/zip: sizes in the local header (CreateRaw over compress/flate) / streamed with data descriptor / stored
		data := swpPayload(r, class, size, false)
		var file bytes.Buffer
		w := zip.NewWriter(&file)
		w.RegisterCompressor(zip.Deflate, func(out io.Writer) (io.WriteCloser, error) { return flate.NewWriter(out, level) })
		var truth []string
		for i, p := range [][]byte{data, tail} {
			name := fmt.Sprintf("m%d.bin", i)
			switch variant {
			case "zd":
				fw, err := w.CreateHeader(&zip.FileHeader{Name: name, Method: zip.Deflate})
				if err != nil {
					panic(err)
				}
				fw.Write(p)
				truth = append(truth, "") // compressed length known after Close (read back by archive/zip)
			default:
				z, method, v := p, zip.Store, "s"
				if variant == "zh" {
					z, method, v = deflateRaw(p, level), zip.Deflate, "h"
				}
				fw, err := w.CreateRaw(&zip.FileHeader{Name: name, Method: method, CRC32: crc32.ChecksumIEEE(p),
					CompressedSize64: uint64(len(z)), UncompressedSize64: uint64(len(p))})
				if err != nil {
					panic(err)
				}
				fw.Write(z)
				truth = append(truth, swpTruthM(v, p, len(z)))
			}
		}
		w.Close()
		if variant == "zd" {
			zr, err := zip.NewReader(bytes.NewReader(file.Bytes()), int64(file.Len()))
			if err != nil {
				panic(err)
			}
			for i, p := range [][]byte{data, tail} {
				truth[i] = swpTruthM("d", p, int(zr.File[i].CompressedSize64))
			}
		}
		truth = append(truth, "u 0 -")
		return "zip", file.Bytes(), strings.Join(truth, " ")
	case "pz": // compress/zlib inside a png zTXt chunk
		data := swpPayload(r, class, size, true)
		var z bytes.Buffer
		w, err := zlib.NewWriterLevel(&z, level)
		if err != nil {
			panic(err)
		}
		w.Write(data)
		w.Close()
		var b bytes.Buffer
		b.Write([]byte("\x89PNG\r\n\x1a\n"))
		b.Write(pngChunk("IHDR", []byte{0, 0, 0, 1, 0, 0, 0, 1, 8, 0, 0, 0, 0}))
		b.Write(pngChunk("zTXt", append([]byte("Comment\x00\x00"), z.Bytes()...)))
		b.Write(pngChunk("IDAT", []byte{0x78, 0x9c, 0x63, 0x60, 0x00, 0x00, 0x00, 0x02, 0x00, 0x01}))
		b.Write(pngChunk("IEND", nil))
		return "png", b.Bytes(), swpTruthM("z", data, z.Len()) + " u 0 -"
	}
	panic("swp variant " + variant)
}

func swpCase(o *hlib.Out, variant, class string, size, level int, seed uint64) {
	format, file, truth := swpBuild(variant, class, size, level, seed)
	res := decodeBatchProg(format, swpProj[format], map[string][]byte{"f": file})
	o.Case(fmt.Sprintf("swp %s %s %s %d %d %d %s", format, variant, class, size, level, seed, truth), res["f"])
	o.Stat("swp_"+variant, 1)
	o.Stat("swp_ratio_over_1000", b2i(variant != "zs" && swpRatioOver(truth)))
	o.Class(fmt.Sprintf("swp.%s.%s.%d.%d", variant, class, size, level))
}

func b2i(b bool) int {
	if b {
		return 1
	}
	return 0
}

// swpRatioOver: the first member's payload is more than 1000 times its compressed stream (the assumption DeflateRatioExceeds)
func swpRatioOver(truth string) bool {
	ws := strings.Fields(truth)
	if len(ws) < 6 {
		return false
	}
	l, _ := strconv.Atoi(ws[2])
	c, _ := strconv.Atoi(ws[5])
	return c > 0 && l > 1000*c
}

func swpReplay(o *hlib.Out, ws []string) bool {
	if len(ws) < 7 {
		return false
	}
	size, e1 := strconv.Atoi(ws[4])
	level, e2 := strconv.Atoi(ws[5])
	seed, e3 := strconv.ParseUint(ws[6], 10, 64)
	if e1 != nil || e2 != nil || e3 != nil || size < 0 || size > 1<<25 {
		return false
	}
	switch ws[2] {
	case "gz1", "gzm", "zh", "zd", "zs", "pz":
	default:
		return false
	}
	swpCase(o, ws[2], ws[3], size, level, seed)
	return true
}

func swpCases(o *hlib.Out, r *hlib.Rand, thorough bool) {
	runs := []string{"eq", "per"}
	others := []string{"txt", "rnd", "mix"}
	if !thorough {
		for _, cl := range runs {
			for _, size := range []int{1 << 16, 1<<20 + 1, 1 << 21, 3 << 20} {
				for _, v := range []string{"gz1", "zh", "zd", "pz"} {
					swpCase(o, v, cl, size, 6, r.U64())
				}
			}
			for _, level := range []int{1, 9} {
				swpCase(o, "gz1", cl, 1<<21, level, r.U64())
				swpCase(o, "zh", cl, 1<<21, level, r.U64())
			}
			swpCase(o, "gzm", cl, 1<<20+1, 6, r.U64())
			swpCase(o, "zs", cl, 1<<16, 0, r.U64())
		}
		for _, cl := range others {
			for _, v := range []string{"gz1", "zh", "zd", "pz"} {
				swpCase(o, v, cl, 1<<20, []int{1, 6, 9}[r.Intn(3)], r.U64())
			}
		}
		swpCase(o, "gz1", "rnd", 1<<20, 0, r.U64()) // level 0: stored deflate blocks
		return
	}
	levels := []int{0, 1, 6, 9, -2} // -2 = huffman only
	kinds := []string{"gz1", "gzm", "zh", "zd", "zs", "pz"}
	for ci, cl := range append(runs, others...) {
		for k := 10; k <= 23; k++ {
			for ki, v := range kinds {
				size := 1<<k + []int{0, 1, -1}[r.Intn(3)]
				if v == "gzm" && k > 22 {
					continue
				}
				swpCase(o, v, cl, size, levels[(k+ki+ci+r.Intn(2))%len(levels)], r.U64())
			}
		}
	}
	for _, cl := range runs { // streamed zip members of >= 8 MiB (the window is the rest of the file), 3 * 2^20 steps in between
		for _, size := range []int{1 << 24, 3 << 22, 9 << 20, 1<<23 + 1} {
			swpCase(o, "zd", cl, size, []int{1, 6, 9}[r.Intn(3)], r.U64())
			swpCase(o, "zh", cl, size, []int{1, 6, 9}[r.Intn(3)], r.U64())
		}
		swpCase(o, "gz1", cl, 1<<24, 6, r.U64())
		swpCase(o, "pz", cl, 1<<24, 9, r.U64())
	}
}
