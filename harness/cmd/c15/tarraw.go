//go:build verif

package main

// Hand-made tar headers with numeric fields in base-256 (GNU extension; what writers emit for members >= 8 GiB, legal for any
// value). `mdl tar <hex>` lines compare only fq's outcome (ok | err) with the Lean parser's: the files are intact for GNU tar
// but fq has no base-256 reader (reported finding), so no property predicate is applied to them.

import (
	"bytes"
	"fmt"
	"strings"

	"github.com/wader/fq/internal/verifharness/hlib"
)

func tarOct(w int, n uint64) []byte { return append([]byte(fmt.Sprintf("%0*o", w-1, n)), 0) }

func tarB256(w int, n uint64) []byte {
	b := make([]byte, w)
	b[0] = 0x80
	for i := w - 1; i > 0 && n > 0; i-- {
		b[i] = byte(n)
		n >>= 8
	}
	return b
}

type rawTar struct {
	size, uid, gid, mode, mtime, devmajor, devminor []byte
}

func tarRawHeader(name string, f rawTar) []byte {
	var h bytes.Buffer
	pad := func(s string, w int) { h.WriteString(s); h.Write(make([]byte, w-len(s))) }
	pad(name, 100)
	h.Write(f.mode)
	h.Write(f.uid)
	h.Write(f.gid)
	h.Write(f.size)
	h.Write(f.mtime)
	h.WriteString("        ")
	h.WriteByte('0')
	pad("", 100)
	h.WriteString("ustar\x0000")
	pad("", 32)
	pad("", 32)
	h.Write(f.devmajor)
	h.Write(f.devminor)
	pad("", 155)
	pad("", 12)
	b := h.Bytes()
	sum := 0
	for _, c := range b {
		sum += int(c)
	}
	copy(b[148:], fmt.Sprintf("%06o\x00 ", sum))
	return b
}

type mdlTar struct {
	valid int
	file  []byte
	truth string
	class string
}

func mdlTarRun(o *hlib.Out, cs []mdlTar) {
	fm := map[string][]byte{}
	for i, c := range cs {
		fm[fmt.Sprintf("t%05d", i)] = c.file
	}
	res := decodeBatch("tar", fm)
	for i, c := range cs {
		obs := res[fmt.Sprintf("t%05d", i)]
		if obs == "" {
			obs = "noline"
		}
		o.Case(fmt.Sprintf("mdl tar %d %s %s", c.valid, hlib.Hex(c.file), c.truth), obs)
		o.Class(c.class)
		o.Stat("mdl_tar_"+strings.Fields(obs)[0], 1)
	}
}

func mdlTarCases(o *hlib.Out, r *hlib.Rand) {
	var cs []mdlTar
	epoch := hxs("1970-01-01T00:00:00Z")
	for i, n := range []int{0, 1, 3, 511, 512, 600} {
		data := r.Bytes(n)
		body := append(append([]byte{}, data...), make([]byte, (512-n%512)%512)...)
		end := make([]byte, 1024)
		for v := 0; v < 9; v++ {
			f := rawTar{tarOct(12, uint64(n)), tarOct(8, 1000), tarOct(8, 0), tarOct(8, 0o644), tarOct(12, 0), tarOct(8, 0), tarOct(8, 0)}
			uid, gid, mode, dmaj, dmin := uint64(1000), uint64(0), uint64(0o644), uint64(0), uint64(0)
			valid := 1
			mdesc := epoch
			mtime := uint64(0)
			switch v {
			case 1: // size in base-256
				f.size = tarB256(12, uint64(n))
			case 2: // uid beyond the octal range
				uid = uint64(3000000 + i)
				f.uid = tarB256(8, uid)
			case 3: // every other 8 byte number in base-256, and the size
				gid, mode, dmaj, dmin = r.U64()>>9, uint64(0o755), r.U64()>>9, uint64(7)
				f.gid, f.mode, f.devmajor, f.devminor, f.size = tarB256(8, gid), tarB256(8, mode), tarB256(8, dmaj), tarB256(8, dmin), tarB256(12, uint64(n))
			case 4: // mtime in base-256: fq shows the number without a date description (model comparison only)
				mtime = uint64(1700000000 + i)
				f.mtime = tarB256(12, mtime)
				valid, mdesc = 2, "~"
			case 5: // size 2^63 + n: not a 63 bit number
				f.size = tarB256(12, uint64(n))
				f.size[4] |= 0x80
				valid = 0
			case 6: // a non-zero byte above the low eight
				f.size = tarB256(12, uint64(n))
				f.size[1+r.Intn(3)] = byte(r.Range(1, 255))
				valid = 0
			case 7: // 0xff prefix: negative number
				f.size = tarB256(12, uint64(n))
				for k := 0; k < 4; k++ {
					f.size[k] = 0xff
				}
				valid = 0
			case 8: // first byte 0x80 | 0x40: bits above the low eight bytes
				f.size = tarB256(12, uint64(n))
				f.size[0] = 0xc0
				valid = 0
			}
			file := append(append(tarRawHeader("a.txt", f), body...), end...)
			truth := strings.Join([]string{kv("n", 1), "F", kv("name", hxs("a.txt")), kv("type", int('0')), kv("link", "~"), kv("mode", mode), kv("uid", uid),
				kv("gid", gid), kv("mtime", mtime), kv("mdesc", mdesc), kv("devmajor", dmaj), kv("devminor", dmin), kv("uname", "~"), kv("gname", "~"),
				kv("data", hx(data))}, " ")
			cs = append(cs, mdlTar{valid, file, truth, fmt.Sprintf("mdltar.n%d.v%d", n, v)})
		}
	}
	mdlTarRun(o, cs)
}
