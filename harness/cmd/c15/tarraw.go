//go:build verif

package main

// Hand-made tar headers with numeric fields in base-256 (GNU extension; what writers emit for members >= 8 GiB, legal for any
// value). `mdl tar <hex>` lines compare only fq's outcome (ok | err) with the Lean parser's: the files are intact for GNU tar
// but fq has no base-256 reader (reported finding), so no property predicate is applied to them.

import (
	"bytes"
	"fmt"
	"strings"

	"github.com/wader/fq/internal/verifharness/hlib"
)

func tarOct(w int, n uint64) []byte { return append([]byte(fmt.Sprintf("%0*o", w-1, n)), 0) }

func tarB256(w int, n uint64) []byte {
	b := make([]byte, w)
	b[0] = 0x80
	for i := w - 1; i > 0 && n > 0; i-- {
		b[i] = byte(n)
		n >>= 8
	}
	return b
}

func tarRawHeader(name string, size, uid []byte) []byte {
	var h bytes.Buffer
	pad := func(s string, w int) { h.WriteString(s); h.Write(make([]byte, w-len(s))) }
	pad(name, 100)
	h.Write(tarOct(8, 0o644))
	h.Write(uid)
	h.Write(tarOct(8, 0))
	h.Write(size)
	h.Write(tarOct(12, 0))
	h.WriteString("        ")
	h.WriteByte('0')
	pad("", 100)
	h.WriteString("ustar\x0000")
	pad("", 32)
	pad("", 32)
	h.Write(tarOct(8, 0))
	h.Write(tarOct(8, 0))
	pad("", 155)
	pad("", 12)
	b := h.Bytes()
	sum := 0
	for _, c := range b {
		sum += int(c)
	}
	copy(b[148:], fmt.Sprintf("%06o\x00 ", sum))
	return b
}

func mdlTarRun(o *hlib.Out, files [][]byte, classes []string) {
	fm := map[string][]byte{}
	for i, f := range files {
		fm[fmt.Sprintf("t%05d", i)] = f
	}
	res := decodeBatch("tar", fm)
	for i, f := range files {
		ws := strings.Fields(res[fmt.Sprintf("t%05d", i)])
		obs := "noline"
		if len(ws) > 0 {
			obs = ws[0]
		}
		o.Case("mdl tar "+hlib.Hex(f), obs)
		o.Class(classes[i])
		o.Stat("mdl_tar_"+obs, 1)
	}
}

func mdlTarCases(o *hlib.Out, r *hlib.Rand) {
	var files [][]byte
	var classes []string
	for i, n := range []int{0, 1, 3, 511, 512, 600} {
		data := r.Bytes(n)
		body := append(append([]byte{}, data...), make([]byte, (512-n%512)%512)...)
		end := make([]byte, 1024)
		for v := 0; v < 3; v++ {
			size, uid := tarOct(12, uint64(n)), tarOct(8, 1000)
			switch v {
			case 1:
				size = tarB256(12, uint64(n))
			case 2:
				uid = tarB256(8, uint64(3000000+i))
			}
			f := append(append(tarRawHeader("a.txt", size, uid), body...), end...)
			files = append(files, f)
			classes = append(classes, fmt.Sprintf("mdltar.n%d.v%d", n, v))
		}
	}
	mdlTarRun(o, files, classes)
}
