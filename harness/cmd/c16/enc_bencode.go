//go:build verif

package main

import (
	"strconv"
	"strings"
)

// ---- bencode, hand-written; alternative spellings the format's integer syntax admits within
// fq's 21-byte window: optional '+', "-0", leading zeros (integers and string lengths).

func benDigits(out []byte, s string, room int, p *picker) []byte {
	// up to `room` leading zeros (total text must stay <= 20 bytes)
	z := 0
	if room > 0 && p.pick(4) == 3 {
		z = 1 + p.pick(room)
	}
	out = append(out, strings.Repeat("0", z)...)
	return append(out, s...)
}

func encBencode(out []byte, v *val, p *picker) []byte {
	switch v.k {
	case kInt:
		out = append(out, 'i')
		mag := v.i.String()
		sign := ""
		if v.i.Sign() < 0 {
			mag = mag[1:]
			sign = "-"
		} else {
			switch p.pick(6) {
			case 4:
				sign = "+"
			case 5:
				if v.i.Sign() == 0 {
					sign = "-"
				}
			}
		}
		out = append(out, sign...)
		out = benDigits(out, mag, 20-len(sign)-len(mag), p)
		return append(out, 'e')
	case kStr:
		l := strconv.Itoa(len(v.s))
		out = benDigits(out, l, 20-len(l), p)
		out = append(out, ':')
		return append(out, v.s...)
	case kArr:
		out = append(out, 'l')
		for _, x := range v.arr {
			out = encBencode(out, x, p)
		}
		return append(out, 'e')
	case kMap:
		out = append(out, 'd')
		for i := range v.keys {
			out = encBencode(out, v.keys[i], p)
			out = encBencode(out, v.vals[i], p)
		}
		return append(out, 'e')
	default:
		panic("bencode: value outside the format's domain")
	}
}
