//go:build verif

package main

import (
	"math/big"
)

// ---- ASN.1 BER (X.690), hand-written.  Wire alternatives: short / long length octets (also non-minimal,
// 1..8 octets), definite or indefinite length for constructed values, redundant sign octets of INTEGER, any
// non-zero octet for TRUE, SEQUENCE or SET or a constructed context/application/private tag for arrays, the
// string types fq reads with FieldUTF8 for strings.  A definite length of ZERO is only produced when
// `zeroLen` is set (known finding asn1-ber-zero-length).

var berStrTags = []byte{0x0c, 0x12, 0x13, 0x14, 0x16, 0x17, 0x1a, 0x1b}

func berLen(out []byte, n int, p *picker) []byte {
	var fs []int
	if n < 128 {
		fs = append(fs, 0)
	}
	min := 1
	for x := n >> 8; x > 0; x >>= 8 {
		min++
	}
	fs = append(fs, min, min+1, 8)
	switch m := fs[p.pick(len(fs))]; m {
	case 0:
		return append(out, byte(n))
	default:
		return append(append(out, 0x80|byte(m)), be(m, uint64(n))...)
	}
}

func berInt(i *big.Int, extra int) []byte {
	// minimal two's complement, then `extra` redundant sign octets in front
	var b []byte
	if i.Sign() >= 0 {
		b = i.Bytes()
		if len(b) == 0 || b[0]&0x80 != 0 {
			b = append([]byte{0}, b...)
		}
	} else {
		n := (i.BitLen() + 8) / 8
		m := new(big.Int).Lsh(big.NewInt(1), uint(8*n))
		m.Add(m, i)
		b = m.Bytes()
		for len(b) < n {
			b = append([]byte{0xff}, b...)
		}
		for len(b) > 1 && b[0] == 0xff && b[1]&0x80 != 0 {
			b = b[1:]
		}
	}
	pad := byte(0)
	if i.Sign() < 0 {
		pad = 0xff
	}
	for ; extra > 0; extra-- {
		b = append([]byte{pad}, b...)
	}
	return b
}

func encBer(out []byte, v *val, p *picker) []byte { return encBerZ(out, v, p, false) }

func encBerZ(out []byte, v *val, p *picker, zeroLen bool) []byte {
	prim := func(tag byte, content []byte) []byte {
		out = append(out, tag)
		out = berLen(out, len(content), p)
		return append(out, content...)
	}
	switch v.k {
	case kNull:
		return prim(0x05, nil)
	case kBool:
		if v.b {
			return prim(0x01, []byte{[]byte{0xff, 1, 0x80}[p.pick(3)]})
		}
		return prim(0x01, []byte{0})
	case kInt:
		return prim(0x02, berInt(v.i, []int{0, 0, 1, 3}[p.pick(4)]))
	case kBytes:
		return prim(0x04, v.s)
	case kStr:
		return prim(berStrTags[p.pick(len(berStrTags))], v.s)
	default: // kArr
		var content []byte
		for _, x := range v.arr {
			content = encBerZ(content, x, p, zeroLen)
		}
		id := []byte{0x30, 0x31, 0xa0, 0xa3, 0x7e, 0xe1}[p.pick(6)]
		indef := p.pick(3) == 2
		if len(content) == 0 && !zeroLen {
			indef = true
		}
		out = append(out, id)
		if indef {
			out = append(out, 0x80)
			out = append(out, content...)
			return append(out, 0, 0)
		}
		out = berLen(out, len(content), p)
		return append(out, content...)
	}
}

// berDomain: arrays for maps, no empty strings / byte strings (zero-length primitives are the known finding),
// byte strings come back raw
func berDomain(v *val) *val {
	switch v.k {
	case kStr:
		if len(v.s) == 0 {
			return vStr("x")
		}
		return v
	case kBytes:
		s := v.s
		if len(s) == 0 {
			s = []byte{0}
		}
		return &val{k: kBytes, s: s, raw: true}
	case kFloat:
		return vI(int64(v.f >> 40))
	case kArr:
		o := &val{k: kArr}
		for _, x := range v.arr {
			o.arr = append(o.arr, berDomain(x))
		}
		return o
	case kMap:
		o := &val{k: kArr}
		for _, x := range v.vals {
			o.arr = append(o.arr, berDomain(x))
		}
		return o
	}
	return v
}
