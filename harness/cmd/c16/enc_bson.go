//go:build verif

package main

import (
	"bytes"
	"strconv"
)

// ---- bson (bsonspec.org), hand-written, little endian.  Wire alternatives per value:
// integer: int32 / int64 / datetime / timestamp (>= 0); null: null / undefined / minkey / maxkey;
// string: string / javascript / regexp (any options); bytes: binary (any subtype) / objectid (12 bytes) /
// decimal128 (16 bytes); bool true: any non-zero byte; array element names: "0","1",… or arbitrary.

func bsonCString(out []byte, s []byte) []byte { return append(append(out, s...), 0) }

func bsonString(out []byte, s []byte) []byte {
	out = append(out, le(4, uint64(len(s)+1))...)
	return append(append(out, s...), 0)
}

func bsonElems(keys [][]byte, vals []*val, p *picker) []byte {
	var body []byte
	for i, v := range vals {
		var t byte
		var pl []byte
		switch v.k {
		case kNull:
			t = []byte{0x0a, 0x06, 0xff, 0x7f}[p.pick(4)]
		case kBool:
			t = 0x08
			if v.b {
				pl = []byte{[]byte{1, 2, 0x80, 0xff}[p.pick(4)]}
			} else {
				pl = []byte{0}
			}
		case kInt:
			type f struct {
				t byte
				n int
			}
			var fs []f
			if inRange(v.i, -1<<31, 1<<31-1) {
				fs = append(fs, f{0x10, 4})
			}
			if v.i.IsInt64() {
				fs = append(fs, f{0x12, 8}, f{0x09, 8})
			}
			if v.i.Sign() >= 0 && v.i.IsUint64() {
				fs = append(fs, f{0x11, 8})
			}
			c := fs[p.pick(len(fs))]
			t = c.t
			if v.i.Sign() >= 0 {
				pl = le(c.n, v.i.Uint64())
			} else {
				pl = le(c.n, uint64(v.i.Int64()))
			}
		case kFloat:
			t, pl = 0x01, le(8, v.f)
		case kStr:
			switch p.pick(3) {
			case 0:
				t, pl = 0x02, bsonString(nil, v.s)
			case 1:
				t, pl = 0x0d, bsonString(nil, v.s)
			default:
				t = 0x0b
				pl = bsonCString(bsonCString(nil, v.s), []byte([]string{"", "i", "imsx"}[p.pick(3)]))
			}
		case kBytes:
			t = 0x05
			if len(v.s) == 12 && p.pick(2) == 1 {
				t, pl = 0x07, v.s
			} else if len(v.s) == 16 && p.pick(2) == 1 {
				t, pl = 0x13, v.s
			} else {
				pl = append(append(le(4, uint64(len(v.s))), []byte{0, 1, 4, 0x80}[p.pick(4)]), v.s...)
			}
		case kArr:
			t = 0x04
			ks := make([][]byte, len(v.arr))
			named := p.pick(3) == 2
			for j := range ks {
				ks[j] = []byte(strconv.Itoa(j))
				if named {
					ks[j] = []byte("x")
				}
			}
			pl = bsonDocBytes(ks, v.arr, p)
		case kMap:
			t = 0x03
			ks := make([][]byte, len(v.keys))
			for j, k := range v.keys {
				ks[j] = k.s
			}
			pl = bsonDocBytes(ks, v.vals, p)
		}
		body = append(body, t)
		body = bsonCString(body, keys[i])
		body = append(body, pl...)
	}
	return body
}

func bsonDocBytes(keys [][]byte, vals []*val, p *picker) []byte {
	body := bsonElems(keys, vals, p)
	return append(append(le(4, uint64(len(body)+5)), body...), 0)
}

// top level must be a document
func encBson(out []byte, v *val, p *picker) []byte {
	if v.k != kMap {
		panic("bson: top-level value must be a map")
	}
	ks := make([][]byte, len(v.keys))
	for j, k := range v.keys {
		ks[j] = k.s
	}
	return append(out, bsonDocBytes(ks, v.vals, p)...)
}

// bsonDomain maps a generated value into bson's domain: no NUL in strings and names, string keys only,
// a document at the top
func bsonDomain(v *val) *val {
	switch v.k {
	case kBytes:
		return &val{k: kBytes, s: v.s, raw: true}
	case kStr:
		return &val{k: kStr, s: bytes.ReplaceAll(v.s, []byte{0}, []byte("0"))}
	case kArr:
		o := &val{k: kArr}
		for _, x := range v.arr {
			o.arr = append(o.arr, bsonDomain(x))
		}
		return o
	case kMap:
		o := &val{k: kMap}
		seen := map[string]bool{}
		for i, k := range v.keys {
			kk := bytes.ReplaceAll(k.s, []byte{0}, []byte("0"))
			if k.k != kStr || seen[string(kk)] {
				continue
			}
			seen[string(kk)] = true
			o.keys = append(o.keys, &val{k: kStr, s: kk})
			o.vals = append(o.vals, bsonDomain(v.vals[i]))
		}
		return o
	}
	return v
}
