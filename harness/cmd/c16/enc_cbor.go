//go:build verif

package main

import (
	"math"
	"math/big"
	"unicode/utf8"
)

// ---- cbor (RFC 8949), hand-written; every admissible wire form of each node:
// argument in the initial byte / 1 / 2 / 4 / 8 bytes, definite or indefinite length with
// arbitrary chunking (text chunks are cut at character boundaries, as the RFC requires),
// float16/32/64 whenever exact.

func cbHead(out []byte, major byte, n uint64, p *picker) []byte {
	var fs []int
	if n < 24 {
		fs = append(fs, 0)
	}
	if n < 1<<8 {
		fs = append(fs, 1)
	}
	if n < 1<<16 {
		fs = append(fs, 2)
	}
	if n < 1<<32 {
		fs = append(fs, 4)
	}
	fs = append(fs, 8)
	switch f := fs[p.pick(len(fs))]; f {
	case 0:
		return append(out, major<<5|byte(n))
	case 1:
		return append(out, major<<5|24, byte(n))
	case 2:
		return append(append(out, major<<5|25), be(2, n)...)
	case 4:
		return append(append(out, major<<5|26), be(4, n)...)
	default:
		return append(append(out, major<<5|27), be(8, n)...)
	}
}

// f16Exact: a binary16 pattern whose widening is exactly bits
func f16Exact(bits uint64) (uint16, bool) {
	// search by construction: sign, then try to narrow via float32 -> half by hand
	f := math.Float64frombits(bits)
	s := uint16(bits>>63) << 15
	switch {
	case f != f:
		// NaN: payload must fit in the top 10 fraction bits and the quiet bit must be set
		frac := bits & 0x000fffffffffffff
		if frac&((1<<42)-1) != 0 || frac>>51 != 1 {
			return 0, false
		}
		return s | 0x7c00 | uint16(frac>>42), true
	case math.IsInf(f, 0):
		return s | 0x7c00, true
	case f == 0:
		return s, true
	}
	fr, ex := math.Frexp(math.Abs(f)) // abs = fr * 2^ex, fr in [0.5,1)
	// normal half: 1.m * 2^(e-15), e in 1..30 ; ex-1 = e-15
	e := ex - 1 + 15
	if e >= 1 && e <= 30 {
		m := fr*2 - 1 // in [0,1)
		mm := m * 1024
		if mm != math.Trunc(mm) {
			return 0, false
		}
		return s | uint16(e)<<10 | uint16(mm), true
	}
	if e <= 0 {
		mm := math.Abs(f) * math.Pow(2, 24)
		if mm != math.Trunc(mm) || mm < 1 || mm > 1023 {
			return 0, false
		}
		return s | uint16(mm), true
	}
	return 0, false
}

// cut b into chunks; text is cut at rune boundaries only
func chunk(b []byte, text bool, p *picker) [][]byte {
	var cs [][]byte
	if len(b) == 0 {
		// zero, one or two empty chunks
		for n := p.pick(3); n > 0; n-- {
			cs = append(cs, nil)
		}
		return cs
	}
	for len(b) > 0 {
		n := 1 + p.pick(len(b))
		if p.r == nil {
			n = (len(b) + 1) / 2 // deterministic mode: two chunks
		}
		if p.r != nil && p.pick(4) == 0 {
			n = 0 // an empty chunk in between
		}
		if text {
			for n < len(b) && n > 0 && !utf8.RuneStart(b[n]) {
				n++
			}
		}
		cs = append(cs, b[:n])
		b = b[n:]
	}
	return cs
}

func encCbor(out []byte, v *val, p *picker) []byte {
	switch v.k {
	case kNull:
		// null, undefined, an unassigned simple value 0..19: torepr gives null for all of them
		return append(out, []byte{0xf6, 0xf7, 0xe0, 0xe7, 0xf3}[p.pick(5)])
	case kBool:
		if v.b {
			return append(out, 0xf5)
		}
		return append(out, 0xf4)
	case kInt:
		if v.i.Sign() >= 0 {
			return cbHead(out, 0, v.i.Uint64(), p)
		}
		n := new(big.Int).Neg(v.i)
		n.Sub(n, big.NewInt(1))
		return cbHead(out, 1, n.Uint64(), p)
	case kFloat:
		type ff struct {
			t byte
			n int
			u uint64
		}
		fs := []ff{{0xfb, 8, v.f}}
		if p32, ok := f32Exact(v.f); ok {
			fs = append(fs, ff{0xfa, 4, uint64(p32)})
		}
		if p16, ok := f16Exact(v.f); ok && widen16(p16) == v.f {
			fs = append(fs, ff{0xf9, 2, uint64(p16)})
		}
		f := fs[p.pick(len(fs))]
		return append(append(out, f.t), be(f.n, f.u)...)
	case kStr, kBytes:
		major := byte(3)
		if v.k == kBytes {
			major = 2
		}
		if p.pick(3) == 2 && !p.noIndefStr {
			out = append(out, major<<5|31)
			for _, c := range chunk(v.s, v.k == kStr, p) {
				out = cbHead(out, major, uint64(len(c)), p)
				out = append(out, c...)
			}
			return append(out, 0xff)
		}
		out = cbHead(out, major, uint64(len(v.s)), p)
		return append(out, v.s...)
	case kArr:
		if p.pick(3) == 2 {
			out = append(out, 0x9f)
			for _, x := range v.arr {
				out = encCbor(out, x, p)
			}
			return append(out, 0xff)
		}
		out = cbHead(out, 4, uint64(len(v.arr)), p)
		for _, x := range v.arr {
			out = encCbor(out, x, p)
		}
		return out
	default:
		if p.pick(3) == 2 {
			out = append(out, 0xbf)
			for i := range v.keys {
				out = encCbor(out, v.keys[i], p)
				out = encCbor(out, v.vals[i], p)
			}
			return append(out, 0xff)
		}
		out = cbHead(out, 5, uint64(len(v.keys)), p)
		for i := range v.keys {
			out = encCbor(out, v.keys[i], p)
			out = encCbor(out, v.vals[i], p)
		}
		return out
	}
}
