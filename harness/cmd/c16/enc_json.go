//go:build verif

package main

import (
	"bytes"
	"encoding/json"
	"fmt"
	"strings"

	"github.com/wader/fq/internal/verifharness/hlib"
)

// ---- json / jsonl for the Lean-decided runs: documents from encoding/json (compact, indented, HTML-escaped or
// not, with trailing white space) for values of the modelled fragment (no floats), every strict prefix of a
// self-delimiting document, trailing garbage, and hand-written documents for the escapes and error rules.

func valToAny(v *val) any {
	switch v.k {
	case kNull:
		return nil
	case kBool:
		return v.b
	case kInt:
		return json.Number(v.i.String())
	case kStr:
		return string(v.s)
	case kArr:
		o := make([]any, len(v.arr))
		for i, x := range v.arr {
			o[i] = valToAny(x)
		}
		return o
	case kMap:
		o := map[string]any{}
		for i, k := range v.keys {
			o[string(k.s)] = valToAny(v.vals[i])
		}
		return o
	}
	panic("json: value outside the fragment")
}

func jsonForms(v *val, r *hlib.Rand) [][]byte {
	a := valToAny(v)
	var out [][]byte
	for _, esc := range []bool{false, true} {
		var b bytes.Buffer
		e := json.NewEncoder(&b)
		e.SetEscapeHTML(esc)
		if err := e.Encode(a); err != nil {
			panic(err)
		}
		out = append(out, bytes.TrimRight(b.Bytes(), "\n"))
	}
	for _, ind := range []string{" ", "\t", "\r\n  "} {
		var b bytes.Buffer
		if err := json.Indent(&b, out[0], "", ind); err == nil {
			out = append(out, b.Bytes())
		}
	}
	return out
}

type jsonDirected struct {
	doc  string
	src  string // value syntax of the line protocol; "" = must be a decode error
	kind string
}

var jsonSpecial = []jsonDirected{
	{`"😀"`, "sf09f9880", "full"}, {`"éé"`, "sc3a9c3a9", "full"}, {`"\/\b\f\n\r\t\"\\"`, "s2f080c0a0d09225c", "full"},
	{`"\ud800x"`, "sefbfbd78", "full"}, {`"\udc00"`, "sefbfbd", "full"}, {`"\ud800A"`, "sefbfbd41", "full"},
	{"\"\xff\xe2\x82a\"", "sefbfbdefbfbdefbfbd61", "full"}, {`"\u0000"`, "s00", "full"}, {"\"\uffff\"", "sefbfbf", "full"},
	{`-0`, "i0", "full"}, {`0`, "i0", "full"}, {`-12345678901234567890123`, "i-12345678901234567890123", "full"},
	{" [1 ,\t2\n,\r3 ] ", "A3,i1,i2,i3", "full"}, {`{"a":1,"a":2}`, "M1,s61,i2", "full"}, {`{"":{"":[]}}`, "M1,s-,M1,s-,A0", "full"},
	{`[ ]`, "A0", "full"}, {`{ }`, "M0", "full"}, {"\ufefftrue", "", "bad"},
	{``, "", "bad"}, {` `, "", "bad"}, {`01`, "", "bad"}, {`-`, "", "bad"}, {`+1`, "", "bad"}, {`[1,]`, "", "bad"}, {`[,1]`, "", "bad"},
	{`{"a"}`, "", "bad"}, {`{"a":}`, "", "bad"}, {`{"a":1,}`, "", "bad"}, {`{a:1}`, "", "bad"}, {`{1:2}`, "", "bad"}, {`[1 2]`, "", "bad"},
	{`"\x"`, "", "bad"}, {`"\u12"`, "", "bad"}, {`"\u12g4"`, "", "bad"}, {"\"a\nb\"", "", "bad"}, {"\"a\x01b\"", "", "bad"}, {`"abc`, "", "bad"},
	{`tru`, "", "bad"}, {`truE`, "", "bad"}, {`nul`, "", "bad"}, {`nulll`, "", "bad"}, {`falsee`, "", "bad"}, {`True`, "", "bad"},
	{`1 2`, "", "bad"}, {`[] []`, "", "bad"}, {`{}x`, "", "bad"}, {`"a""b"`, "", "bad"}, {`1,`, "", "bad"}, {`]`, "", "bad"}, {`12x`, "", "bad"},
}

func jsonCases(r *hlib.Rand, n int, want map[string]bool, truncLimit int) []*tcase {
	var cs []*tcase
	caps := caps{null: true, boolean: true, intMin: new(bigInt).Neg(twoPow70), intMax: twoPow70, maxDepth: 4}
	if want["json"] {
		for _, d := range jsonSpecial {
			src := d.src
			if src == "" {
				src = "n"
			}
			cs = append(cs, &tcase{format: "json", in: []byte(d.doc), kind: d.kind, src: src})
		}
		seen := map[string]bool{}
		var vs []*val
		for _, s := range intBoundaries {
			vs = append(vs, vInt(bi(s)))
		}
		for _, s := range unicodePool {
			vs = append(vs, vStr(s), vArr(vStr(s)), vMap(vStr(s), vStr(s)))
		}
		vs = append(vs, vNull(), vBool(true), vBool(false), vArr(), vMap(), vArr(vArr(vArr())), vStr("<a href=\"x\">&amp;</a>  "),
			vStr(strOfLen(300)), arrOfLen(40), mapOfLen(40))
		for i := 0; i < n; i++ {
			vs = append(vs, genValue(r.Fork(), caps, 0))
		}
		for _, v := range vs {
			src := v.String()
			for _, doc := range jsonForms(v, r) {
				if seen[string(doc)] {
					continue
				}
				seen[string(doc)] = true
				cs = append(cs, &tcase{format: "json", in: doc, kind: "full", src: src})
				cs = append(cs, &tcase{format: "json", in: append(append([]byte{}, doc...), []byte(" \n\t\r")[:1+r.Intn(4)]...), kind: "full", src: src})
				for _, g := range []string{" x", "]", " 1", "{}", ","} {
					cs = append(cs, &tcase{format: "json", in: append(append([]byte{}, doc...), g...), kind: "bad", src: src})
				}
				if v.k != kInt { // a strict prefix of a bare number is a number
					step := 1
					if len(doc) > truncLimit {
						step = len(doc)/truncLimit + 1
					}
					for k := 0; k < len(doc); k += step {
						cs = append(cs, &tcase{format: "json", in: doc[:k], kind: "trunc", src: src})
					}
				}
			}
		}
	}
	if want["json"] {
		// trailing data right after a value whose length sits at a read-buffer boundary of encoding/json's
		// Decoder (512·(2^k−1) bytes): the "exactly one top-level value" rule must not depend on buffering
		for _, c := range []int{512, 1536, 3584, 7680, 15872} {
			for L := c - 2; L <= c+2; L++ {
				for kind := 0; kind < 2; kind++ {
					var doc []byte
					var src string
					if kind == 0 {
						doc = []byte("\"" + strOfLen(L-2) + "\"")
						src = vStr(strOfLen(L - 2)).String()
					} else {
						n := (L - 1) / 2 // [1,1,…,1] has 2n+1 bytes
						doc = []byte("[" + strings.Repeat("1,", n-1) + "1]")
						for len(doc) < L {
							doc = append([]byte{'['}, append(doc, ']')...)
							if len(doc) > L {
								doc = []byte(" " + string(doc[1:len(doc)-1]))
							}
						}
						src = ""
					}
					if src != "" {
						cs = append(cs, &tcase{format: "json", in: doc, kind: "full", src: src})
					}
					for _, g := range []string{"x", " x", "]", "1", "\n{}", "\"a\""} {
						s2 := src
						if s2 == "" {
							s2 = "n"
						}
						cs = append(cs, &tcase{format: "json", in: append(append([]byte{}, doc...), g...), kind: "bad", src: s2})
					}
				}
			}
		}
	}
	if want["jsonl"] {
		for i := 0; i < n; i++ {
			vr := r.Fork()
			m := 1 + vr.Intn(4)
			lines := &val{k: kArr}
			var doc []byte
			for j := 0; j < m; j++ {
				v := genValue(vr, caps, 1)
				forms := jsonForms(v, vr)
				doc = append(doc, forms[vr.Intn(2)]...)
				doc = append(doc, []string{"\n", "\r\n", " ", "\n\n"}[vr.Intn(4)]...)
				lines.arr = append(lines.arr, v)
			}
			src := lines.String()
			cs = append(cs, &tcase{format: "jsonl", in: doc, kind: "full", src: src})
			cs = append(cs, &tcase{format: "jsonl", in: bytes.TrimRight(doc, "\r\n "), kind: "full", src: src})
			for _, g := range []string{"x\n", "{\n", "[1,\n", "\"a"} {
				cs = append(cs, &tcase{format: "jsonl", in: append(append([]byte{}, doc...), g...), kind: "bad", src: src})
			}
		}
		for _, d := range []string{"", " ", "\n\n", "nul", "1 2 x"} {
			cs = append(cs, &tcase{format: "jsonl", in: []byte(d), kind: "bad", src: "n"})
		}
		cs = append(cs, &tcase{format: "jsonl", in: []byte("1 2\n[3]{\"a\":null}"), kind: "full", src: "A4,i1,i2,A1,i3,M1,s61,n"})
	}
	_ = fmt.Sprint
	_ = strings.TrimSpace
	return cs
}
