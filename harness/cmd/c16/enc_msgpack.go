//go:build verif

package main

import (
	"math"
	"math/big"

	"github.com/wader/fq/internal/verifharness/hlib"
)

// picker selects a wire form among n admissible ones: the first choice may be forced (directed
// cases), every further choice is random (or the smallest form when r == nil).
type picker struct {
	r     *hlib.Rand
	first int
	// cbor: never choose the indefinite-length form of a byte/text string (known finding cbor-indef-string-break)
	noIndefStr bool
}

func (p *picker) pick(n int) int {
	if p.first >= 0 {
		f := p.first
		p.first = -1
		if f < n {
			return f
		}
		return n - 1
	}
	if p.r == nil {
		return 0
	}
	return p.r.Intn(n)
}

func be(n int, u uint64) []byte {
	b := make([]byte, n)
	for i := n - 1; i >= 0; i-- {
		b[i] = byte(u)
		u >>= 8
	}
	return b
}

func inRange(i *big.Int, lo, hi int64) bool {
	return i.IsInt64() && i.Int64() >= lo && i.Int64() <= hi
}

// f32Exact: a binary32 pattern whose widening is exactly bits (nil if none)
func f32Exact(bits uint64) (uint32, bool) {
	f := math.Float64frombits(bits)
	p := math.Float32bits(float32(f))
	if math.Float64bits(float64(math.Float32frombits(p))) == bits {
		return p, true
	}
	return 0, false
}

// ---- msgpack (spec.md), hand-written; every admissible wire form of each node

func mpLenForms(n int, fixMax int, has8 bool) []int { // 0 = fix, 1 = 8, 2 = 16, 4 = 32
	var fs []int
	if fixMax >= 0 && n <= fixMax {
		fs = append(fs, 0)
	}
	if has8 && n < 1<<8 {
		fs = append(fs, 1)
	}
	if n < 1<<16 {
		fs = append(fs, 2)
	}
	fs = append(fs, 4)
	return fs
}

func mpHead(out []byte, form int, n int, fixBase, t8, t16, t32 byte) []byte {
	switch form {
	case 0:
		return append(out, fixBase+byte(n))
	case 1:
		return append(out, t8, byte(n))
	case 2:
		return append(append(out, t16), be(2, uint64(n))...)
	default:
		return append(append(out, t32), be(4, uint64(n))...)
	}
}

func encMsgpack(out []byte, v *val, p *picker) []byte {
	switch v.k {
	case kNull:
		return append(out, 0xc0)
	case kBool:
		if v.b {
			return append(out, 0xc3)
		}
		return append(out, 0xc2)
	case kInt:
		type form struct {
			t byte
			n int
		}
		var fs []form
		if inRange(v.i, -32, 127) {
			fs = append(fs, form{0, 0})
		}
		if v.i.Sign() >= 0 {
			for _, w := range []struct {
				t byte
				n int
			}{{0xcc, 1}, {0xcd, 2}, {0xce, 4}, {0xcf, 8}} {
				if v.i.BitLen() <= 8*w.n {
					fs = append(fs, form{w.t, w.n})
				}
			}
		}
		for _, w := range []struct {
			t byte
			n int
		}{{0xd0, 1}, {0xd1, 2}, {0xd2, 4}, {0xd3, 8}} {
			lim := int64(1) << (8*w.n - 1)
			if w.n == 8 && v.i.IsInt64() || w.n < 8 && inRange(v.i, -lim, lim-1) {
				fs = append(fs, form{w.t, w.n})
			}
		}
		f := fs[p.pick(len(fs))]
		if f.n == 0 {
			return append(out, byte(v.i.Int64()))
		}
		var u uint64
		if v.i.Sign() >= 0 {
			u = v.i.Uint64()
		} else {
			u = uint64(v.i.Int64())
		}
		return append(append(out, f.t), be(f.n, u)...)
	case kFloat:
		if p32, ok := f32Exact(v.f); ok && p.pick(2) == 1 {
			return append(append(out, 0xca), be(4, uint64(p32))...)
		}
		return append(append(out, 0xcb), be(8, v.f)...)
	case kStr:
		fs := mpLenForms(len(v.s), 31, true)
		out = mpHead(out, fs[p.pick(len(fs))], len(v.s), 0xa0, 0xd9, 0xda, 0xdb)
		return append(out, v.s...)
	case kBytes:
		if v.raw {
			// ext types: torepr returns the payload as the raw byte string; ext8/16/32 or fixext
			ty := []byte{0, 5, 0x7f, 0x80, 0xff}[p.pick(5)]
			switch n := len(v.s); {
			case (n == 1 || n == 2 || n == 4 || n == 8 || n == 16) && p.pick(2) == 0:
				t := map[int]byte{1: 0xd4, 2: 0xd5, 4: 0xd6, 8: 0xd7, 16: 0xd8}[n]
				return append(append(out, t, ty), v.s...)
			default:
				fs := mpLenForms(n, -1, true)
				out = mpHead(out, fs[p.pick(len(fs))], n, 0, 0xc7, 0xc8, 0xc9)
				return append(append(out, ty), v.s...)
			}
		}
		fs := mpLenForms(len(v.s), -1, true)
		out = mpHead(out, fs[p.pick(len(fs))], len(v.s), 0, 0xc4, 0xc5, 0xc6)
		return append(out, v.s...)
	case kArr:
		fs := mpLenForms(len(v.arr), 15, false)
		out = mpHead(out, fs[p.pick(len(fs))], len(v.arr), 0x90, 0, 0xdc, 0xdd)
		for _, x := range v.arr {
			out = encMsgpack(out, x, p)
		}
		return out
	default:
		fs := mpLenForms(len(v.keys), 15, false)
		out = mpHead(out, fs[p.pick(len(fs))], len(v.keys), 0x80, 0, 0xde, 0xdf)
		for i := range v.keys {
			out = encMsgpack(out, v.keys[i], p)
			out = encMsgpack(out, v.vals[i], p)
		}
		return out
	}
}
