//go:build verif

package main

import "math/big"

func hx(s string) string { return hexOrDash([]byte(s)) }

func bi(s string) *big.Int {
	x, ok := new(big.Int).SetString(s, 10)
	if !ok {
		panic(s)
	}
	return x
}

var intBoundaries = []string{
	"0", "1", "23", "24", "127", "128", "255", "256", "32767", "32768", "65535", "65536", "2147483647", "2147483648",
	"4294967295", "4294967296", "9223372036854775807", "9223372036854775808", "18446744073709551615",
	"-1", "-24", "-25", "-32", "-33", "-128", "-129", "-256", "-257", "-32768", "-32769", "-65536", "-65537", "-2147483648", "-2147483649",
	"-4294967296", "-4294967297", "-9223372036854775808", "-9223372036854775809", "-18446744073709551616",
}

func strOfLen(n int) string {
	b := make([]byte, n)
	for i := range b {
		b[i] = byte('a' + i%26)
	}
	return string(b)
}

func arrOfLen(n int) *val {
	xs := make([]*val, n)
	for i := range xs {
		xs[i] = vI(int64(i % 100))
	}
	return vArr(xs...)
}

func mapOfLen(n int) *val {
	m := &val{k: kMap}
	for i := 0; i < n; i++ {
		m.keys = append(m.keys, vStr("k"+big.NewInt(int64(i)).String()))
		m.vals = append(m.vals, vI(int64(i%100)))
	}
	return m
}

func directedCommon(c caps, lens []int, bigLens []int) []*val {
	var vs []*val
	for _, s := range intBoundaries {
		x := bi(s)
		if x.Cmp(c.intMin) >= 0 && x.Cmp(c.intMax) <= 0 {
			vs = append(vs, vInt(x))
		}
	}
	if c.null {
		vs = append(vs, vNull())
	}
	if c.boolean {
		vs = append(vs, vBool(false), vBool(true))
	}
	if c.float {
		for _, f := range floatSpecials {
			vs = append(vs, vFloat(f))
		}
	}
	for _, s := range unicodePool {
		vs = append(vs, vStr(s))
	}
	if !thorough && len(bigLens) > 1 {
		bigLens = bigLens[len(bigLens)-1:]
	}
	for _, n := range append(append([]int{}, lens...), bigLens...) {
		vs = append(vs, vStr(strOfLen(n)))
		if c.bytes {
			b := []byte(strOfLen(n))
			for i := range b {
				b[i] = byte(i*37 + 0x80)
			}
			vs = append(vs, vBytes(b))
		}
	}
	for _, n := range lens {
		vs = append(vs, arrOfLen(n), mapOfLen(n))
	}
	vs = append(vs,
		vArr(), vMap(), vArr(vArr(vArr(vArr(vArr())))), vMap(vStr("a"), vMap(vStr("b"), vMap(vStr(""), vArr(vMap())))),
		vArr(vStr(""), vStr("x"), vI(-1), vArr(vI(1), vStr("é")), vMap(vStr("k"), vI(7))))
	return vs
}

func modelledFormats() []fmtDef {
	mp := caps{null: true, boolean: true, float: true, bytes: true, intMin: minI64, intMax: maxU64, maxDepth: 4}
	cb := caps{null: true, boolean: true, float: true, bytes: true, intMin: negTwo64, intMax: maxU64, maxDepth: 4}
	bc := caps{intMin: minI64, intMax: maxI64, maxDepth: 4}
	bs := caps{null: true, boolean: true, float: true, bytes: true, intMin: minI64, intMax: maxU64, maxDepth: 4}
	br := caps{null: true, boolean: true, bytes: true, intMin: new(big.Int).Neg(twoPow70), intMax: twoPow70, maxDepth: 4}
	return []fmtDef{
		{name: "asn1_ber", caps: br, enc: encBer, domain: berDomain, directed: func() []*val {
			vs := directedCommon(br, []int{0, 1, 2, 126, 127, 128, 129, 255, 256}, []int{65536})
			for _, s := range []string{"36893488147419103232", "-36893488147419103233", "-1180591620717411303424"} {
				vs = append(vs, vInt(bi(s)))
			}
			return vs
		}, bad: []string{
			"", "30", "3080", "308000", "30800201", "0201", "02", "30ff00", "3089000000000000000000", // truncated / reserved / too long length-of-length
			"0400", "0c00", "0100", "0200", "1f", "1f81", // zero-length primitives (as it is); unfinished high tag number
			"308002010500", "3080020105", // one byte of the end marker / none
		}},
		{name: "bson", caps: bs, enc: encBson, domain: func(v *val) *val {
			v = bsonDomain(v)
			if v.k != kMap {
				v = vMap(vStr("v"), v)
			}
			return v
		}, directed: func() []*val {
			vs := directedCommon(bs, []int{0, 1, 2, 11, 12, 13, 15, 16, 17, 255, 256}, []int{65536})
			vs = append(vs, vBytes([]byte("0123456789ab")), vBytes([]byte("0123456789abcdef")))
			return vs
		}, bad: []string{
			"", "05", "0500", "04000000" + "00", "0400000000", "00000000", "ffffffff00", // size too small / negative / frame without terminator
			"0c000000106100010000", "0d000000106100010000000000", // truncated int32 / size beyond the buffer
			"0a000000" + "02" + "6100" + "05000000" + "00", // string longer than the frame
			"0b000000" + "05" + "6100" + "ffffffff" + "00" + "00", // binary with negative length
			"08000000" + "10" + "61" + "6200", // name without NUL inside the frame
			"09000000" + "20" + "6100" + "0100" + "", // unknown element type swallows the frame
		}},
		{name: "msgpack", caps: mp, enc: encMsgpack, directed: func() []*val {
			vs := directedCommon(mp, []int{0, 1, 15, 16, 17, 31, 32, 33, 255, 256, 257}, []int{65535, 65536})
			for _, n := range []int{0, 1, 2, 3, 4, 8, 9, 16, 17, 255, 256, 65535, 65536} {
				b := make([]byte, n)
				for i := range b {
					b[i] = byte(0xe2 - i*7)
				}
				vs = append(vs, &val{k: kBytes, s: b, raw: true}, vArr(&val{k: kBytes, s: b, raw: true}, vI(1)))
			}
			return vs
		}, bad: []string{"c1", "91c1", "81a161c1", "dc0001c1"}},
		{name: "cbor", caps: cb, enc: encCbor, directed: func() []*val {
			vs := directedCommon(cb, []int{0, 1, 23, 24, 25, 31, 32, 40, 255, 256, 257}, []int{65535, 65536})
			// every binary16 pattern class: all exponents x a few fractions, both signs
			for e := 0; e < 32; e++ {
				if !thorough && e > 1 && e != 15 && e < 30 {
					continue
				}
				for _, f := range []uint16{0, 1, 2, 0x155, 0x200, 0x201, 0x3fe, 0x3ff} {
					vs = append(vs, vFloat(widen16(uint16(e)<<10|f)), vFloat(widen16(0x8000|uint16(e)<<10|f)))
				}
			}
			return vs
		}, bad: []string{
			"1c", "1d", "1e", "3c", "5c", "7d", "9e", "bc", "dc", // short counts 28..30
			"5f6161ff", "7f4161ff", "5f01ff", "7ff6ff", // chunk of another major type
			"5f5f4100ffff", "7f7f6161ffff", // nested indefinite chunk
			"9f", "bf", "9f01", "bf616101", "bf6161ff", // no break / odd number of items before the break
		}},
		{name: "bencode", caps: bc, enc: encBencode, directed: func() []*val {
			return directedCommon(bc, []int{0, 1, 9, 10, 11, 99, 100, 101}, nil)
		}, bad: []string{
			hx("x"), hx("n"), hx("ie"), hx("i-e"), hx("i+e"), hx("i--1e"), hx("i1-e"), hx("i 1e"), hx("i1_0e"), hx("i0x1e"), hx("i1.0e"),
			hx("i9223372036854775808e"), hx("i-9223372036854775809e"), hx("i99999999999999999999e"),
			hx("i000000000000000000001e"),                // 21 characters before the 'e'
			hx("i1234567890123456789012e"),               // no 'e' within 21 bytes
			hx("5abcdefghijklmnopqrstuvwxyz"),            // no ':' within 21 bytes
			hx("1x:a"), hx("1-1:a"), hx("1 :a"), hx("+1:a"), hx("-1:a"), hx("000000000000000000001:a"),
			hx("9223372036854775808:a"),
			hx("l"), hx("d"), hx("li1e"), hx("d1:a"), hx("d1:ai1e"), hx("lx"), hx("d1:ae"), hx("l1:"), hx("2:a"),
		}},
	}
}
