//go:build verif

// C16 harness: independent encoders (all wire forms) x generated values x all truncation points
// x trailing data, decoded IN-PROCESS by fq (`decode($format)` then `torepr`), one case per line
//   <format> <hex> <kind> <source value> TAB <observation>
// for the Lean driver (lean/Drv/C16.lean).  Text formats and the binary formats without a Lean
// model are decided by the harness itself (`!OK` / `!PROPFAIL` lines).
package main

import (
	"fmt"
	"math/big"
	"os"
	"regexp"
	"runtime"
	"strings"
	"sync"

	"github.com/wader/fq/internal/verifharness/hlib"
)

type tcase struct {
	format string
	in     []byte
	kind   string // full | trunc | trail:<n> | bad | any
	src    string
	obs    string
}

// what fq is asked, per input [format, binary]
const fqExpr = `. as [$f, $b]
| try
    ( $b | decode($f) | . as $r
    | if $r._error != null then "err"
      else
        [ (try [$r | if $f == "json" or $f == "jsonl" then tovalue else torepr end] catch "reprerr")
        , if $f == "json" or $f == "jsonl" then []   # the value is the whole input: no gap fields
          else [ $r | keys[] | select(startswith("gap")) as $k | $r[$k] | [._start, (tobytes | tohex)] ] end
        ]
      end
    )
  catch "decodeerr"`

func obsOf(v any) string {
	switch v := v.(type) {
	case string:
		if v == "err" || v == "decodeerr" {
			return "err"
		}
		return "?" + v
	case panicMark:
		return "panic:" + strings.ReplaceAll(v.why, " ", "_")
	case countMark:
		return fmt.Sprintf("?outputs=%d", v.n)
	case []any:
		if len(v) != 2 {
			return "?shape"
		}
		var val string
		switch t := v[0].(type) {
		case string:
			return t // reprerr
		case []any:
			if len(t) != 1 {
				return "?shape"
			}
			var sb strings.Builder
			renderJQ(&sb, t[0])
			val = sb.String()
		default:
			return "?shape"
		}
		gs, _ := v[1].([]any)
		var gaps []string
		for _, g := range gs {
			ga, _ := g.([]any)
			if len(ga) != 2 {
				return "?gap"
			}
			var startBits int64
			switch s := ga[0].(type) {
			case int:
				startBits = int64(s)
			case *big.Int:
				startBits = s.Int64()
			default:
				return "?gapstart"
			}
			hx, _ := ga[1].(string)
			if startBits%8 != 0 {
				return "?gapbits"
			}
			gaps = append(gaps, fmt.Sprintf("g%d:%s", startBits/8, hx))
		}
		if len(gaps) == 0 {
			return "ok " + val + " -"
		}
		return "ok " + val + " " + strings.Join(gaps, "+")
	default:
		return fmt.Sprintf("?%T", v)
	}
}

var nanRE = regexp.MustCompile(`d[7f]ff[0-9a-f]{13}`)

func evalAll(cases []*tcase) { evalAllExpr(cases, fqExpr) }

// evalAllExpr fills in obs for every case, in parallel batches, order preserved.
func evalAllExpr(cases []*tcase, expr string) {
	const batch = 128
	nw := runtime.NumCPU()
	if nw > 8 {
		nw = 8
	}
	if e := os.Getenv("C16_WORKERS"); e != "" {
		fmt.Sscan(e, &nw)
	}
	type job struct{ lo, hi int }
	jobs := make(chan job, 64)
	var wg sync.WaitGroup
	for w := 0; w < nw; w++ {
		wg.Add(1)
		go func() {
			defer wg.Done()
			ev := newEvaluator()
			for j := range jobs {
				ins := make([]any, 0, j.hi-j.lo)
				for _, c := range cases[j.lo:j.hi] {
					ins = append(ins, []any{c.format, mkBinary(c.in)})
				}
				res := ev.run(expr, ins)
				for i, r := range res {
					cases[j.lo+i].obs = obsOf(r)
				}
			}
		}()
	}
	for lo := 0; lo < len(cases); lo += batch {
		hi := lo + batch
		if hi > len(cases) {
			hi = len(cases)
		}
		jobs <- job{lo, hi}
	}
	close(jobs)
	wg.Wait()
}

var thorough bool

type fmtDef struct {
	name     string
	caps     caps
	enc      func(out []byte, v *val, p *picker) []byte
	directed func() []*val
	bad      []string
	domain   func(*val) *val // maps a generated value into the format's domain (nil: identity)
}

// addEncoding adds the full case, the truncations and trailing-data cases of one encoding
func addEncoding(cs *[]*tcase, r *hlib.Rand, format string, v *val, enc []byte, allTruncLimit int) {
	src := v.String()
	*cs = append(*cs, &tcase{format: format, in: enc, kind: "full", src: src})
	if len(enc) <= allTruncLimit {
		for k := 0; k < len(enc); k++ {
			*cs = append(*cs, &tcase{format: format, in: enc[:k], kind: "trunc", src: src})
		}
	} else {
		seen := map[int]bool{}
		add := func(k int) {
			if k >= 0 && k < len(enc) && !seen[k] {
				seen[k] = true
				*cs = append(*cs, &tcase{format: format, in: enc[:k], kind: "trunc", src: src})
			}
		}
		nEnds, nRand := 24, 16
		if len(enc) > 4096 {
			nEnds, nRand = 3, 2
		}
		for k := 0; k < nEnds; k++ {
			add(k)
			add(len(enc) - 1 - k)
		}
		for i := 0; i < nRand; i++ {
			add(r.Intn(len(enc)))
		}
	}
	nt := r.Range(1, 5)
	tr := r.Bytes(nt)
	if format == "cbor" {
		// the as-is cbor decoder (known finding cbor-indef-string-break) may run on into the trailing bytes;
		// semantic tags (initial bytes 0xc0..0xdf) are outside the model, so keep them out of the garbage
		for i := range tr {
			if tr[i] >= 0xc0 && tr[i] <= 0xdf {
				tr[i] &= 0x3f
			}
		}
	}
	*cs = append(*cs, &tcase{format: format, in: append(append([]byte{}, enc...), tr...), kind: fmt.Sprintf("trail:%d", nt), src: src})
}

func main() {
	cfg := hlib.ParseFlags()
	o := hlib.NewOut(cfg.Out)
	defer o.Close()
	r := hlib.NewRand(cfg.Seed)

	if cfg.Replay != "" {
		var cs []*tcase
		for _, l := range hlib.ReplayLines(cfg.Replay) {
			ws := strings.Fields(l)
			if len(ws) != 4 {
				continue
			}
			cs = append(cs, &tcase{format: ws[0], in: hlib.UnHex(ws[1]), kind: ws[2], src: ws[3]})
		}
		evalAll(cs)
		for _, c := range cs {
			o.Case(fmt.Sprintf("%s %s %s %s", c.format, hlib.Hex(c.in), c.kind, c.src), c.obs)
		}
		return
	}

	nRandom, truncLimit := 60, 40
	if cfg.Thorough() {
		nRandom, truncLimit = 1500, 200
	}
	ties := readTies()
	deepOf := func(f string) bool { t := ties[tieFormat(f)]; return !(t.facts && t.text) }
	want := map[string]bool{}
	for _, a := range cfg.Args {
		want[a] = true
	}
	var cs []*tcase
	for _, f := range modelledFormats() {
		if len(want) > 0 && !want[f.name] {
			continue
		}
		// the tie of this format's model to the source of this run (ties.go)
		deep := deepOf(f.name)
		if deep {
			o.Stat("tie_correspondence_only_"+f.name, 1)
		} else {
			o.Stat("tie_regenerated_"+f.name, 1)
		}
		thorough = cfg.Thorough() || deep
		nRandom, truncLimit := nRandom, truncLimit
		if thorough {
			nRandom, truncLimit = 1500, 200
		}
		cs = append(cs, sweepCases(f.name)...)
		if f.name == "asn1_ber" {
			cs = append(cs, berConsCases(r.Fork(), nRandom/4+10, truncLimit)...)
		}
		// inputs that are not an encoding of anything: must be a decode error
		for _, b := range f.bad {
			cs = append(cs, &tcase{format: f.name, in: hlib.UnHex(b), kind: "bad", src: "n"})
		}
		seenEnc := map[string]bool{}
		// directed: every admissible form of the top node (inner nodes: smallest, then random)
		for _, v := range f.directed() {
			if f.domain != nil {
				v = f.domain(v)
			}
			for first := 0; first < 12; first++ {
				for pass, rr := range []*hlib.Rand{nil, r.Fork()} {
					if pass == 1 && !thorough && first != 0 {
						continue // quick: one random-inner-forms pass per value only
					}
					enc := f.enc(nil, v, &picker{r: rr, first: first})
					if seenEnc[string(enc)] || (len(enc) > 4096 && rr != nil) {
						continue
					}
					seenEnc[string(enc)] = true
					addEncoding(&cs, r, f.name, v, enc, truncLimit)
				}
			}
		}
		o.Stat("directed_encodings_"+f.name, len(seenEnc))
		for i := 0; i < nRandom; i++ {
			vr := r.Fork()
			v := genValue(vr, f.caps, 0)
			if f.domain != nil {
				v = f.domain(v)
			}
			for j := 0; j < 2; j++ {
				enc := f.enc(nil, v, &picker{r: vr, first: -1})
				if seenEnc[string(enc)] {
					continue
				}
				seenEnc[string(enc)] = true
				addEncoding(&cs, r, f.name, v, enc, truncLimit)
			}
		}
		o.Stat("random_values_"+f.name, nRandom)
		if f.name == "cbor" {
			// semantic tags: `torepr` of a tagged item is the decode tree (outside the value model), so only the
			// truncation rule is checked: every strict prefix of tag(s) + value must be a decode error
			for i := 0; i < nRandom/3+8; i++ {
				vr := r.Fork()
				v := genValue(vr, f.caps, 1)
				enc := f.enc(nil, v, &picker{r: vr, first: -1, noIndefStr: true})
				for j := vr.Range(1, 3); j > 0; j-- {
					tag := []uint64{0, 1, 2, 23, 24, 55799, 1 << 40}[vr.Intn(7)]
					enc = append(cbHead(nil, 6, tag, &picker{r: vr, first: -1}), enc...)
				}
				src := v.String()
				for k := 0; k < len(enc) && k < truncLimit; k++ {
					cs = append(cs, &tcase{format: "cbor", in: enc[:k], kind: "trunc", src: src})
				}
			}
		}
	}
	if len(want) == 0 || want["json"] || want["jsonl"] {
		w2 := want
		if len(want) == 0 {
			w2 = map[string]bool{"json": true, "jsonl": true}
		}
		nj, tl := 60, truncLimit
		if deepOf("json") {
			o.Stat("tie_correspondence_only_json", 1)
		} else {
			o.Stat("tie_regenerated_json", 1)
		}
		if cfg.Thorough() || deepOf("json") {
			nj, tl = 1500, 200
		}
		cs = append(cs, jsonCases(r, nj, w2, tl)...)
	}
	evalAll(cs)
	nText := 40
	if cfg.Thorough() {
		nText = 600
	}
	textWanted := len(want) == 0
	for _, f := range []string{"text", "json", "jsonl", "yaml", "toml", "xml", "csv"} {
		if want[f] {
			textWanted = true
		}
	}
	if textWanted {
		runText(o, r, nText, want)
	}
	samples := 0
	for _, c := range cs {
		op := fmt.Sprintf("%s %s %s %s", c.format, hlib.Hex(c.in), c.kind, c.src)
		o.Case(op, c.obs)
		o.Stat("kind_"+strings.SplitN(c.kind, ":", 2)[0]+"_"+c.format, 1)
		// non-trivial: an input of at least two bytes; distinct by (format, bytes)
		if len(c.in) >= 2 {
			o.Class(c.format + " " + hlib.Hex(c.in))
		}
		if c.kind == "full" && len(c.in) > 6 && len(c.in) < 40 && samples < 6 {
			samples++
			o.Sample(op + " => " + c.obs)
		}
	}
}
