//go:build verif

package main

// Text formats (json, jsonl, yaml, toml, xml, csv) and bson: no Lean model; the harness decides itself
// (`!OK` / `!PROPFAIL` lines).  Values are encoded by Go's / third-party encoders (bson: a
// hand-written encoder), decoded by fq (`decode($f) | tovalue`, bson: `torepr`) and compared with the source.
// Trailing garbage must be a decode error; every sampled strict prefix must be an error whenever the
// reference decoder of the same library rejects it (and must not be an error when it accepts it).

import (
	"bytes"
	"encoding/csv"
	"encoding/json"
	"encoding/xml"
	"errors"
	"fmt"
	"io"
	"math"
	"math/big"
	"sort"
	"strings"

	"github.com/BurntSushi/toml"
	"github.com/wader/fq/internal/verifharness/hlib"
	"gopkg.in/yaml.v3"
)

const textExpr = `. as [$f, $b]
| try
    ( $b | (if $f == "xml_array" then decode("xml"; {array: true}) else decode($f) end) | . as $r
    | if $r._error != null then "err"
      else [ (try [$r | if $f == "bson" then torepr else tovalue end] catch "reprerr"), [] ]
      end
    )
  catch "decodeerr"`

// ---- source values as plain Go trees: nil, bool, *big.Int, float64, string, []any, map[string]any

func renderAny(sb *strings.Builder, v any) {
	switch v := v.(type) {
	case nil:
		sb.WriteString("n")
	case bool:
		if v {
			sb.WriteString("t")
		} else {
			sb.WriteString("f")
		}
	case *big.Int:
		sb.WriteString("i" + v.String())
	case float64:
		if v != v {
			sb.WriteString("dNaN")
		} else {
			fmt.Fprintf(sb, "d%016x", math.Float64bits(v))
		}
	case string:
		sb.WriteString("s" + hexOrDash([]byte(v)))
	case []any:
		fmt.Fprintf(sb, "A%d", len(v))
		for _, x := range v {
			sb.WriteByte(',')
			renderAny(sb, x)
		}
	case map[string]any:
		ks := make([]string, 0, len(v))
		for k := range v {
			ks = append(ks, k)
		}
		sort.Strings(ks)
		fmt.Fprintf(sb, "M%d", len(v))
		for _, k := range ks {
			sb.WriteString(",s" + hexOrDash([]byte(k)) + ",")
			renderAny(sb, v[k])
		}
	default:
		fmt.Fprintf(sb, "?%T", v)
	}
}

func anyString(v any) string {
	var sb strings.Builder
	renderAny(&sb, v)
	return sb.String()
}

type textCaps struct {
	null, topScalar, bigInts, infNaN, floats bool
	depth                                   int
}

func genTextFloat(r *hlib.Rand, c textCaps) float64 {
	if c.infNaN && r.Intn(8) == 0 {
		return []float64{math.Inf(1), math.Inf(-1), math.NaN()}[r.Intn(3)]
	}
	for {
		f := math.Float64frombits(r.U64())
		if r.Bool() {
			f = float64(r.Range(-100000, 100000)) / 64
		}
		// integral floats print like integers in every text format: outside the domain
		if f != f || math.IsInf(f, 0) || f == math.Trunc(f) {
			continue
		}
		return f
	}
}

func genTextValue(r *hlib.Rand, c textCaps, depth int, container bool) any {
	for {
		k := r.Intn(8)
		if container {
			k = 6 + r.Intn(2)
		}
		switch k {
		case 0:
			if c.null {
				return nil
			}
		case 1:
			return r.Bool()
		case 2:
			if c.bigInts {
				return genIntIn(r, new(big.Int).Lsh(big.NewInt(-1), 70), new(big.Int).Lsh(big.NewInt(1), 70))
			}
			return genIntIn(r, minI64, maxI64)
		case 3:
			if c.floats {
				return genTextFloat(r, c)
			}
		case 4, 5:
			return genString(r)
		case 6:
			if depth >= c.depth {
				continue
			}
			n := r.Intn(4)
			xs := make([]any, n)
			for i := range xs {
				xs[i] = genTextValue(r, c, depth+1, false)
			}
			return xs
		case 7:
			if depth >= c.depth {
				continue
			}
			n := r.Intn(4)
			m := map[string]any{}
			for i := 0; i < n; i++ {
				m[genString(r)] = genTextValue(r, c, depth+1, false)
			}
			return m
		}
	}
}

// to what the third-party encoders want (numbers as json.Number / int64 / uint64)
func forJSON(v any) any {
	switch v := v.(type) {
	case *big.Int:
		return json.Number(v.String())
	case []any:
		o := make([]any, len(v))
		for i, x := range v {
			o[i] = forJSON(x)
		}
		return o
	case map[string]any:
		o := map[string]any{}
		for k, x := range v {
			o[k] = forJSON(x)
		}
		return o
	}
	return v
}

func forNative(v any) any {
	switch v := v.(type) {
	case *big.Int:
		return v.Int64()
	case []any:
		o := make([]any, len(v))
		for i, x := range v {
			o[i] = forNative(x)
		}
		return o
	case map[string]any:
		o := map[string]any{}
		for k, x := range v {
			o[k] = forNative(x)
		}
		return o
	}
	return v
}

func jsonEnc(v any) ([]byte, error) {
	var b bytes.Buffer
	e := json.NewEncoder(&b)
	e.SetEscapeHTML(false)
	if err := e.Encode(forJSON(v)); err != nil {
		return nil, err
	}
	return b.Bytes(), nil
}

// ---- xml: element trees and fq's documented object mapping (format/xml/xml.md)

type xelem struct {
	name     string
	attrs    [][2]string
	text     string
	children []*xelem
}

func genXML(r *hlib.Rand, depth int) *xelem {
	e := &xelem{name: []string{"a", "b", "c", "item", "x-y", "n1"}[r.Intn(6)]}
	seen := map[string]bool{}
	for i := r.Intn(3); i > 0; i-- {
		k := []string{"id", "k", "lang", "v"}[r.Intn(4)]
		if !seen[k] {
			seen[k] = true
			e.attrs = append(e.attrs, [2]string{k, strings.TrimSpace(genString(r))})
		}
	}
	if depth < 3 && r.Intn(2) == 0 {
		for i := r.Intn(4); i > 0; i-- {
			e.children = append(e.children, genXML(r, depth+1))
		}
	}
	if len(e.children) == 0 && r.Bool() {
		e.text = strings.TrimSpace(genString(r))
	}
	return e
}

func xmlOK(s string) bool { // characters encoding/xml can carry
	for _, c := range s {
		if c == 0xfffd || c < 0x20 && c != '\t' && c != '\n' || c == '\r' || c == 0xfffe || c == 0xffff {
			return false
		}
	}
	return true
}

func (e *xelem) ok() bool {
	if !xmlOK(e.text) {
		return false
	}
	for _, a := range e.attrs {
		if !xmlOK(a[1]) {
			return false
		}
	}
	for _, c := range e.children {
		if !c.ok() {
			return false
		}
	}
	return true
}

func (e *xelem) encode(enc *xml.Encoder) error {
	st := xml.StartElement{Name: xml.Name{Local: e.name}}
	for _, a := range e.attrs {
		st.Attr = append(st.Attr, xml.Attr{Name: xml.Name{Local: a[0]}, Value: a[1]})
	}
	if err := enc.EncodeToken(st); err != nil {
		return err
	}
	if e.text != "" {
		if err := enc.EncodeToken(xml.CharData(e.text)); err != nil {
			return err
		}
	}
	for _, c := range e.children {
		if err := c.encode(enc); err != nil {
			return err
		}
	}
	return enc.EncodeToken(st.End())
}

func (e *xelem) toObj() any {
	if len(e.attrs) == 0 && len(e.children) == 0 {
		return e.text
	}
	o := map[string]any{}
	if e.text != "" {
		o["#text"] = e.text
	}
	for _, a := range e.attrs {
		o["@"+a[0]] = a[1]
	}
	var order []string
	groups := map[string][]any{}
	for _, c := range e.children {
		if _, ok := groups[c.name]; !ok {
			order = append(order, c.name)
		}
		groups[c.name] = append(groups[c.name], c.toObj())
	}
	for _, n := range order {
		if len(groups[n]) == 1 {
			o[n] = groups[n][0]
		} else {
			o[n] = groups[n]
		}
	}
	return o
}

// ---- bson (bsonspec.org), hand-written, little endian; int32/int64 wire variants

func le(n int, u uint64) []byte {
	b := make([]byte, n)
	for i := 0; i < n; i++ {
		b[i] = byte(u)
		u >>= 8
	}
	return b
}

type bsonBin []byte

func bsonDoc(keys []string, vals []any, r *hlib.Rand) []byte {
	var body []byte
	for i, k := range keys {
		var t byte
		var p []byte
		switch v := vals[i].(type) {
		case nil:
			t = 0x0a
		case bool:
			t = 0x08
			if v {
				p = []byte{1}
			} else {
				p = []byte{0}
			}
		case *big.Int:
			if v.IsInt64() && v.Int64() >= math.MinInt32 && v.Int64() <= math.MaxInt32 && r.Bool() {
				t, p = 0x10, le(4, uint64(v.Int64()))
			} else {
				t, p = 0x12, le(8, uint64(v.Int64()))
			}
		case float64:
			t, p = 0x01, le(8, math.Float64bits(v))
		case string:
			t = 0x02
			p = append(le(4, uint64(len(v)+1)), append([]byte(v), 0)...)
		case bsonBin:
			t = 0x05
			p = append(append(le(4, uint64(len(v))), 0), v...)
		case []any:
			t = 0x04
			ks := make([]string, len(v))
			for j := range v {
				ks[j] = fmt.Sprint(j)
			}
			p = bsonDoc(ks, v, r)
		case map[string]any:
			t = 0x03
			ks := make([]string, 0, len(v))
			for k := range v {
				ks = append(ks, k)
			}
			sort.Strings(ks)
			vs := make([]any, len(ks))
			for j, k := range ks {
				vs[j] = v[k]
			}
			p = bsonDoc(ks, vs, r)
		}
		body = append(body, t)
		body = append(body, k...)
		body = append(body, 0)
		body = append(body, p...)
	}
	return append(append(le(4, uint64(len(body)+5)), body...), 0)
}

func bsonClean(v any, r *hlib.Rand) any { // bson's domain: no NUL in keys/strings, ints in int64, floats any bits
	switch v := v.(type) {
	case string:
		return strings.ReplaceAll(v, "\x00", "0")
	case []any:
		o := make([]any, len(v))
		for i, x := range v {
			o[i] = bsonClean(x, r)
		}
		return o
	case map[string]any:
		o := map[string]any{}
		for k, x := range v {
			o[strings.ReplaceAll(k, "\x00", "0")] = bsonClean(x, r)
		}
		return o
	}
	return v
}

func bsonExpected(v any) any {
	switch v := v.(type) {
	case bsonBin:
		return string(v)
	case []any:
		o := make([]any, len(v))
		for i, x := range v {
			o[i] = bsonExpected(x)
		}
		return o
	case map[string]any:
		o := map[string]any{}
		for k, x := range v {
			o[k] = bsonExpected(x)
		}
		return o
	}
	return v
}

// ---- the runs

type tdoc struct {
	format   string
	doc      []byte
	expected string             // rendering of the source value
	ref      func([]byte) error // reference decoder of the encoder's library (nil: prefixes must all fail)
	garbage  [][]byte           // appended: must be a decode error
	trailOK  bool               // binary: trailing bytes must not change the value
	val      any                // bson: the source value (after bsonExpected)
}

func csvRef(b []byte) error {
	rd := csv.NewReader(bytes.NewReader(b))
	rd.TrimLeadingSpace = true
	rd.LazyQuotes = true
	rd.Comment = '#'
	for {
		_, err := rd.Read()
		if errors.Is(err, io.EOF) {
			return nil
		} else if err != nil {
			return err
		}
	}
}

func genDocs(r *hlib.Rand, n int, want map[string]bool) []*tdoc {
	var ds []*tdoc
	on := func(f string) bool { return len(want) == 0 || want[f] || want["text"] }
	jc := textCaps{null: true, topScalar: true, bigInts: true, floats: true, depth: 4}
	for i := 0; i < n; i++ {
		vr := r.Fork()
		if on("json") {
			v := genTextValue(vr, jc, 0, false)
			if b, err := jsonEnc(v); err == nil {
				ds = append(ds, &tdoc{format: "json", doc: b, expected: anyString(v),
					ref:     func(b []byte) error { var x any; d := json.NewDecoder(bytes.NewReader(b)); d.UseNumber(); if err := d.Decode(&x); err != nil { return err }; if d.More() { return errors.New("trailing") }; _, err := d.Token(); if err == io.EOF { return nil }; return errors.New("trailing") },
					garbage: [][]byte{[]byte(" x"), []byte("]"), []byte(" 1"), []byte("{}")}})
			}
		}
		if on("jsonl") {
			m := 1 + vr.Intn(4)
			var vs []any
			var doc []byte
			for j := 0; j < m; j++ {
				v := genTextValue(vr, jc, 1, false)
				b, _ := jsonEnc(v)
				vs = append(vs, v)
				doc = append(doc, b...)
			}
			ds = append(ds, &tdoc{format: "jsonl", doc: doc, expected: anyString(vs), garbage: [][]byte{[]byte("x\n"), []byte("{\n")},
				ref: func(b []byte) error { d := json.NewDecoder(bytes.NewReader(b)); n := 0; for { var x any; err := d.Decode(&x); if err == io.EOF { if n == 0 { return errors.New("no lines") }; return nil }; if err != nil { return err }; n++ } }})
		}
		if on("yaml") {
			v := genTextValue(vr, textCaps{null: true, floats: true, infNaN: true, depth: 4}, 0, true)
			if b, err := yaml.Marshal(forNative(v)); err == nil {
				ds = append(ds, &tdoc{format: "yaml", doc: b, expected: anyString(v),
					ref:     func(b []byte) error { var x any; d := yaml.NewDecoder(bytes.NewReader(b)); if err := d.Decode(&x); err != nil { return err }; switch x.(type) { case map[string]any, map[any]any, []any: default: return errors.New("root") }; if err := d.Decode(new(any)); !errors.Is(err, io.EOF) { return errors.New("trailing") }; return nil },
					garbage: [][]byte{[]byte("---\na: 1\n"), []byte("\t}\n")}})
			}
		}
		if on("toml") {
			v := genTextValue(vr, textCaps{floats: true, infNaN: true, depth: 4}, 0, true)
			if m, ok := v.(map[string]any); ok && len(m) > 0 {
				var b bytes.Buffer
				if err := toml.NewEncoder(&b).Encode(forNative(m)); err == nil {
					ds = append(ds, &tdoc{format: "toml", doc: b.Bytes(), expected: anyString(v),
						ref:     func(b []byte) error { var x any; if _, err := toml.NewDecoder(bytes.NewReader(b)).Decode(&x); err != nil { return err }; if m, ok := x.(map[string]any); ok && len(m) == 0 { return errors.New("empty") }; return nil },
						garbage: [][]byte{[]byte("\n= 1\n"), []byte("\n[[\n")}})
				}
			}
		}
		if on("xml") {
			e := genXML(vr, 0)
			if e.ok() {
				var b bytes.Buffer
				enc := xml.NewEncoder(&b)
				if err := e.encode(enc); err == nil && enc.Flush() == nil {
					ds = append(ds, &tdoc{format: "xml", doc: b.Bytes(), expected: anyString(map[string]any{e.name: e.toObj()}),
						garbage: [][]byte{[]byte("x"), []byte("<z/>"), []byte("</a>")}})
				}
			}
		}
		if on("xml") {
			// namespace-using documents, hand-serialised; object form and array form
			var e *nsElem
			if ds := nsDirected(); i < len(ds) {
				e = ds[i]
			} else {
				e = genNSElem(vr, nil, 0)
			}
			var sb strings.Builder
			e.write(&sb)
			doc := []byte(sb.String())
			ds = append(ds, &tdoc{format: "xml", doc: doc, expected: anyString(map[string]any{e.qname(): e.toObj()}),
				garbage: [][]byte{[]byte("x"), []byte("<z/>")}})
			ds = append(ds, &tdoc{format: "xml_array", doc: doc, expected: anyString(e.toArr()),
				garbage: [][]byte{[]byte("x")}})
		}
		if on("csv") {
			rows, cols := 1+vr.Intn(4), 1+vr.Intn(4)
			var recs [][]string
			var exp []any
			okDoc := true
			for y := 0; y < rows; y++ {
				rec := make([]string, cols)
				row := make([]any, cols)
				for x := range rec {
					rec[x] = strings.ReplaceAll(genString(vr), "\r", "")
					row[x] = rec[x]
				}
				// outside csv's domain with fq's defaults: a comment line, an empty line
				if strings.HasPrefix(rec[0], "#") || cols == 1 && rec[0] == "" {
					okDoc = false
				}
				recs = append(recs, rec)
				exp = append(exp, row)
			}
			var b bytes.Buffer
			w := csv.NewWriter(&b)
			if okDoc && w.WriteAll(recs) == nil {
				ds = append(ds, &tdoc{format: "csv", doc: b.Bytes(), expected: anyString(exp), ref: csvRef,
					garbage: [][]byte{[]byte("\"unterminated\n"), []byte(strings.Repeat("z,", cols+1) + "z\n")}})
			}
		}
	}
	return ds
}

// stripBOM: what d.FieldUTF8 makes of the strings and names of a bson document
func stripBOM(v any) any {
	switch v := v.(type) {
	case string:
		return strings.TrimPrefix(v, "\ufeff")
	case []any:
		o := make([]any, len(v))
		for i, x := range v {
			o[i] = stripBOM(x)
		}
		return o
	case map[string]any:
		o := map[string]any{}
		for k, x := range v {
			o[strings.TrimPrefix(k, "\ufeff")] = stripBOM(x)
		}
		return o
	}
	return v
}

func runText(o *hlib.Out, r *hlib.Rand, n int, want map[string]bool) {
	type probe struct {
		d    *tdoc
		kind string // full | garbage | prefix
		in   []byte
	}
	var ps []probe
	for _, d := range genDocs(r, n, want) {
		if d.ref != nil && d.ref(d.doc) != nil {
			// the encoder's own library cannot read its output back (e.g. yaml.v3 block scalars of
			// whitespace-only strings): not a statement about fq
			o.Stat("text_skipped_encoder_output_unreadable_"+d.format, 1)
			continue
		}
		ps = append(ps, probe{d, "full", d.doc})
		for _, g := range d.garbage {
			ps = append(ps, probe{d, "garbage", append(append([]byte{}, d.doc...), g...)})
		}
		if d.trailOK {
			ps = append(ps, probe{d, "trail", append(append([]byte{}, d.doc...), r.Bytes(r.Range(1, 4))...)})
		}
		seen := map[int]bool{}
		for i := 0; i < 12 && i < len(d.doc); i++ {
			k := r.Intn(len(d.doc))
			if i == 0 {
				k = len(d.doc) - 1
			}
			if !seen[k] {
				seen[k] = true
				ps = append(ps, probe{d, "prefix", d.doc[:k]})
			}
		}
	}
	// directed inputs that must be reported as decode errors (corpus of past findings first)
	mustErr := []struct{ f, in string }{
		{"csv", "a,b\nc\n"}, {"csv", "a,b\n\"c\n"}, // csv-error-not-reported (fixed 9e1007fc)
		{"json", "{\"a\":"}, {"json", "[1,2"}, {"json", "{\"a\":1} x"}, {"json", "1 2"}, {"json", ""},
		{"jsonl", "{\"a\":1}\n{\n"}, {"yaml", "a: [1, 2"}, {"yaml", "a: 1\n---\nb: 2\n"}, {"yaml", "1"},
		{"toml", "a = [1, 2"}, {"toml", "a = 1\nb"}, {"toml", ""},
		{"xml", "<a><b>1</b>"}, {"xml", "<a></a>x"}, {"xml", "<a></a><b/>"}, {"xml", "<a"},
		{"bson", "\x05\x00\x00\x00"}, {"bson", "\x0c\x00\x00\x00\x10a\x00\x01\x00\x00"},
	}
	for _, m := range mustErr {
		if len(want) == 0 || want[m.f] || want["text"] {
			ps = append(ps, probe{&tdoc{format: m.f}, "musterr", []byte(m.in)})
		}
	}
	cs := make([]*tcase, len(ps))
	for i, p := range ps {
		cs[i] = &tcase{format: p.d.format, in: p.in}
	}
	evalAllExpr(cs, textExpr)
	for i, p := range ps {
		obs := cs[i].obs
		// NaN renders as dNaN on the source side: compare after mapping fq's NaN patterns
		obsN := obs
		if strings.Contains(p.d.expected, "dNaN") {
			obsN = nanRE.ReplaceAllStringFunc(obs, func(t string) string {
				if strings.HasSuffix(t, "ff0000000000000") { // +-inf
					return t
				}
				return "dNaN"
			})
		}
		op := fmt.Sprintf("%s %s %s", p.d.format, p.kind, hlib.Hex(p.in))
		verdict, why := "OK", ""
		// known finding utf8-bom-stripped: bson names and strings are read with d.FieldUTF8, which drops a
		// leading U+FEFF; excused only when fq's result is the source with exactly those marks removed
		bomStripped := func() bool {
			if p.d.format != "bson" || !strings.Contains(p.d.expected, "sefbbbf") {
				return false
			}
			e := anyString(stripBOM(p.d.val))
			if strings.Contains(e, "dNaN") {
				return nanRE.ReplaceAllStringFunc(obs, func(t string) string {
					if strings.HasSuffix(t, "ff0000000000000") {
						return t
					}
					return "dNaN"
				}) == "ok "+e+" -"
			}
			return obs == "ok "+e+" -"
		}
		switch p.kind {
		case "full":
			if obsN != "ok "+p.d.expected+" -" {
				if bomStripped() {
					verdict, why = "KNOWN", "utf8-bom-stripped"
				} else {
					verdict, why = "PROPFAIL", "expected=ok "+p.d.expected+" got="+obs
				}
			}
		case "trail":
			if obsN != "ok "+p.d.expected+" -" {
				if bomStripped() {
					verdict, why = "KNOWN", "utf8-bom-stripped"
				} else {
					verdict, why = "PROPFAIL", "trailing data changed the value: expected=ok "+p.d.expected+" got="+obs
				}
			}
		case "musterr":
			if obs != "err" {
				verdict, why = "PROPFAIL", "malformed input not reported as a decode error: got="+obs
			}
		case "garbage":
			if obs != "err" {
				if p.d.format == "csv" && csvRef(p.in) == nil {
					verdict = "OK" // more records are not garbage for csv
				} else {
					verdict, why = "PROPFAIL", "trailing garbage accepted: got="+obs
				}
			}
		case "prefix":
			var refErr error
			if p.d.ref != nil {
				refErr = p.d.ref(p.in)
			} else {
				refErr = errors.New("strict prefix of a self-delimiting document")
			}
			switch {
			case refErr != nil && obs != "err":
				verdict, why = "PROPFAIL", "truncated input not reported as an error ("+refErr.Error()+"): got="+obs
			case refErr == nil && obs == "err":
				verdict, why = "PROPFAIL", "prefix accepted by the reference decoder is rejected"
			}
		}
		o.Stat("text_"+p.kind+"_"+p.d.format, 1)
		if len(p.in) >= 2 {
			o.Class(p.d.format + " " + hlib.Hex(p.in))
		}
		if verdict == "OK" {
			o.Verdict("OK", op)
		} else {
			o.Verdict(verdict, why+" "+op)
		}
	}
}
