//go:build verif

package main

import (
	"os"
	"os/exec"
	"path/filepath"
	"strings"

	"github.com/wader/fq/internal/verifharness/hlib"
)

// ---- how each format's Lean model is tied to the source of THIS run.
//
// `drv_c16 --ties` evaluates (compiled, from the regenerated lean/FqModel/Gen/SerialTables.lean) two Booleans
// per format: `facts` - the regenerated semantic facts (msgpack rows with their kinds, cbor / bson constants by
// role) equal the model's; `text` - the normalised source text of the decode functions is the text the model
// was written against.  Neither of them fails the Lean build.  A format with both is `tie_regenerated`; a format
// where one of them is false is `tie_correspondence_only` in this run: nothing about its source is assumed,
// and its generators run at thorough size (plus the always-on sweeps below), so model and implementation are
// compared on every wire form, all truncation points, all first bytes and every width boundary.

type tie struct{ facts, text bool }

func readTies() map[string]tie {
	m := map[string]tie{}
	bin := filepath.Join(os.Getenv("VERIF_DIR"), "lean", ".lake", "build", "bin", "drv_c16")
	out, err := exec.Command(bin, "--ties").Output()
	if err != nil {
		return m // no answer: every format is correspondence-only
	}
	for _, l := range strings.Split(string(out), "\n") {
		ws := strings.Fields(l)
		if len(ws) == 3 {
			m[ws[0]] = tie{facts: ws[1] == "facts", text: ws[2] == "text"}
		}
	}
	return m
}

func tieFormat(f string) string {
	if f == "jsonl" {
		return "json"
	}
	return f
}

// ---- arbitrary inputs (kind `any`): there is no source value, the model alone says what fq must answer.
// Every first byte, alone and followed by a few fixed tails, so that every row of a dispatch table / every
// initial byte is exercised with enough data to complete, to run out of data and to meet a wrong byte.

func sweepTails(format string) [][]byte {
	rep := func(b byte, n int) []byte {
		o := make([]byte, n)
		for i := range o {
			o[i] = b
		}
		return o
	}
	switch format {
	case "msgpack":
		return [][]byte{nil, rep(0, 16), rep(1, 40), append([]byte{0, 0, 0, 2}, rep(0xa1, 12)...)}
	case "cbor":
		return [][]byte{nil, rep(0, 16), rep(1, 40), {0, 0, 0, 0, 0, 0, 0, 2, 0x61, 0x62, 0xff, 0xff}, {0x02, 0x41, 0x42, 0xff}}
	case "bencode":
		return [][]byte{nil, []byte("e"), []byte(":abc"), []byte("1e"), []byte("1:ai2ee"), []byte("3:abce")}
	case "asn1_ber":
		return [][]byte{nil, rep(0, 16), {0x02, 0x00, 0x05}, {0x80, 0x02, 0x01, 0x07, 0x00, 0x00}, {0x81, 0x03, 0x00, 0x41, 0x42},
			{0x06, 0x04, 0x01, 0x61, 0x04, 0x01, 0x62}, {0x80, 0x04, 0x01, 0x61, 0x00, 0x00}}
	}
	return nil
}

func sweepCases(format string) []*tcase {
	var cs []*tcase
	tails := sweepTails(format)
	for b := 0; b < 256; b++ {
		if format == "cbor" && b >= 0xc0 && b <= 0xdf {
			continue // semantic tags: torepr is the decode tree, outside the value model
		}
		for _, t := range tails {
			cs = append(cs, &tcase{format: format, in: append([]byte{byte(b)}, t...), kind: "any", src: "n"})
		}
	}
	if format == "bson" {
		// every element type byte inside a well-formed frame, with payloads that do / do not fit
		for t := 0; t < 256; t++ {
			for _, pl := range [][]byte{
				{0x02, 0, 0, 0, 0x41, 0, 0, 0, 0, 0, 0, 0, 0, 0, 0, 0, 0, 0, 0, 0},
				{0x05, 0, 0, 0, 0, 0x41, 0x42, 0x43, 0x44, 0x45, 0, 0, 0},
				{0x01}, nil,
			} {
				body := append([]byte{byte(t), 0x61, 0}, pl...)
				body = append(body, 0)
				n := len(body) + 4
				in := append([]byte{byte(n), byte(n >> 8), 0, 0}, body...)
				cs = append(cs, &tcase{format: format, in: in, kind: "any", src: "n"})
			}
		}
	}
	return cs
}

// ---- asn1_ber: constructed strings (X.690 8.7.3): OCTET STRING, BIT STRING (no unused bits) and a character
// string whose segments are primitive or again constructed, definite or indefinite, at any position, at top
// level and inside a SEQUENCE.  The value is the concatenation of the primitive segments in order.

type seg struct {
	leaf  []byte
	kids  []*seg
	indef bool
}

func (s *seg) value(out []byte) []byte {
	if s.kids == nil {
		return append(out, s.leaf...)
	}
	for _, k := range s.kids {
		out = k.value(out)
	}
	return out
}

func (s *seg) enc(out []byte, tag byte, p *picker) []byte {
	if s.kids == nil {
		c := s.leaf
		if tag == 0x03 {
			c = append([]byte{0}, c...)
		}
		out = append(out, tag)
		out = berLen(out, len(c), p)
		return append(out, c...)
	}
	var c []byte
	for _, k := range s.kids {
		c = k.enc(c, tag, p)
	}
	out = append(out, tag|0x20)
	if s.indef {
		out = append(out, 0x80)
		out = append(out, c...)
		return append(out, 0, 0)
	}
	out = berLen(out, len(c), p)
	return append(out, c...)
}

func lf(s string) *seg            { return &seg{leaf: []byte(s)} }
func cons(indef bool, k ...*seg) *seg { return &seg{kids: k, indef: indef} }

func genSeg(r *hlib.Rand, depth int) *seg {
	if depth >= 3 || r.Intn(3) != 0 {
		n := r.Range(1, 4)
		if r.Intn(12) == 0 {
			n = r.Range(120, 135)
		}
		b := make([]byte, n)
		for i := range b {
			b[i] = byte(r.Range(0x20, 0x7e))
		}
		return &seg{leaf: b}
	}
	s := &seg{indef: r.Intn(2) == 0}
	for n := r.Range(1, 4); n > 0; n-- {
		s.kids = append(s.kids, genSeg(r, depth+1))
	}
	return s
}

func berConsCases(r *hlib.Rand, nRandom, truncLimit int) []*tcase {
	var cs []*tcase
	var trees []*seg
	for _, oi := range []bool{false, true} {
		for _, ii := range []bool{false, true} {
			trees = append(trees,
				cons(oi, lf("ab"), cons(ii, lf("cd"), lf("ef")), lf("gh")), // nested segment in the middle
				cons(oi, cons(ii, lf("ab")), lf("cd")),                       // first
				cons(oi, lf("ab"), cons(ii, lf("cd"))),                       // last
				cons(oi, cons(ii, lf("ab"), lf("cd"))),                       // only
				cons(oi, cons(ii, lf("a")), cons(!ii, lf("b")), cons(ii, lf("c"))),
				cons(oi, lf("a"), cons(ii, lf("b"), cons(!ii, lf("c"), cons(ii, lf("d")), lf("e")), lf("f")), lf("g")), // three levels
			)
		}
		trees = append(trees, cons(oi, lf("ab")), cons(oi, lf("ab"), lf("cd"), lf("ef")))
	}
	for i := 0; i < nRandom; i++ {
		s := genSeg(r, 0)
		if s.kids == nil {
			s = cons(r.Intn(2) == 0, s, genSeg(r, 1))
		}
		trees = append(trees, s)
	}
	for i, t := range trees {
		for _, tag := range []byte{0x04, 0x03, berStrTags[i%len(berStrTags)]} {
			p := &picker{r: r.Fork(), first: -1}
			if i < 40 {
				p = &picker{first: -1} // directed ones: also with the smallest length forms
			}
			enc := t.enc(nil, tag, p)
			v := &val{k: kBytes, s: t.value(nil), raw: true}
			addEncoding(&cs, r, "asn1_ber", v, enc, truncLimit)
			// inside a SEQUENCE, between other elements, and two constructed strings side by side
			t2 := trees[(i*7+3)%len(trees)]
			var c []byte
			c = append(c, 0x02, 0x01, 0x05)
			c = t.enc(c, tag, p)
			c = append(c, 0x04, 0x01, 0x41)
			c = t2.enc(c, tag, p)
			sq := []byte{0x30}
			if i%2 == 0 {
				sq = append(append(append(sq, 0x80), c...), 0, 0)
			} else {
				sq = append(berLen(sq, len(c), p), c...)
			}
			sv := vArr(vI(5), v, &val{k: kBytes, s: []byte("A"), raw: true}, &val{k: kBytes, s: t2.value(nil), raw: true})
			addEncoding(&cs, r, "asn1_ber", sv, sq, truncLimit)
		}
	}
	// a constructed string without segments has no value (indefinite form; a definite zero length is the known finding)
	for _, tag := range []byte{0x24, 0x23, 0x2c} {
		cs = append(cs, &tcase{format: "asn1_ber", in: []byte{tag, 0x80, 0, 0}, kind: "full", src: "n"})
	}
	return cs
}
