//go:build verif

package main

import (
	"encoding/hex"
	"fmt"
	"math"
	"math/big"
	"sort"
	"strings"

	"github.com/wader/fq/internal/verifharness/hlib"
)

// ---- source values (the harness' own representation; nothing of fq is used here)

type kind int

const (
	kNull kind = iota
	kBool
	kInt
	kFloat
	kStr
	kBytes
	kArr
	kMap
)

type val struct {
	k    kind
	b    bool
	i    *big.Int
	f    uint64 // binary64 pattern
	s    []byte // string (UTF-8) or byte string
	arr  []*val
	keys []*val // kStr or kBytes
	raw  bool   // kBytes that the format's torepr returns as the raw byte string (bson): rendered as `s`
	vals []*val
}

func vNull() *val           { return &val{k: kNull} }
func vBool(b bool) *val     { return &val{k: kBool, b: b} }
func vInt(i *big.Int) *val  { return &val{k: kInt, i: i} }
func vI(i int64) *val       { return &val{k: kInt, i: big.NewInt(i)} }
func vU(u uint64) *val      { return &val{k: kInt, i: new(big.Int).SetUint64(u)} }
func vFloat(b uint64) *val  { return &val{k: kFloat, f: b} }
func vStr(s string) *val    { return &val{k: kStr, s: []byte(s)} }
func vBytes(b []byte) *val  { return &val{k: kBytes, s: b} }
func vArr(xs ...*val) *val  { return &val{k: kArr, arr: xs} }
func vMap(kv ...*val) *val {
	m := &val{k: kMap}
	for i := 0; i+1 < len(kv); i += 2 {
		m.keys = append(m.keys, kv[i])
		m.vals = append(m.vals, kv[i+1])
	}
	return m
}

func hexOrDash(b []byte) string {
	if len(b) == 0 {
		return "-"
	}
	return hex.EncodeToString(b)
}

// render: the value syntax of the line protocol (source order kept; the driver normalises)
func (v *val) render(sb *strings.Builder) {
	switch v.k {
	case kNull:
		sb.WriteString("n")
	case kBool:
		if v.b {
			sb.WriteString("t")
		} else {
			sb.WriteString("f")
		}
	case kInt:
		sb.WriteString("i" + v.i.String())
	case kFloat:
		fmt.Fprintf(sb, "d%016x", v.f)
	case kStr:
		sb.WriteString("s" + hexOrDash(v.s))
	case kBytes:
		if v.raw {
			sb.WriteString("s" + hexOrDash(v.s))
		} else {
			sb.WriteString("b" + hexOrDash(v.s))
		}
	case kArr:
		fmt.Fprintf(sb, "A%d", len(v.arr))
		for _, x := range v.arr {
			sb.WriteByte(',')
			x.render(sb)
		}
	case kMap:
		fmt.Fprintf(sb, "M%d", len(v.keys))
		for i := range v.keys {
			sb.WriteByte(',')
			v.keys[i].render(sb)
			sb.WriteByte(',')
			v.vals[i].render(sb)
		}
	}
}

func (v *val) String() string {
	var sb strings.Builder
	v.render(&sb)
	return sb.String()
}

// ---- canonical rendering of what fq returned (Go values from the interpreter)

func renderJQ(sb *strings.Builder, v any) {
	switch v := v.(type) {
	case nil:
		sb.WriteString("n")
	case bool:
		if v {
			sb.WriteString("t")
		} else {
			sb.WriteString("f")
		}
	case int:
		fmt.Fprintf(sb, "i%d", v)
	case *big.Int:
		sb.WriteString("i" + v.String())
	case float64:
		fmt.Fprintf(sb, "d%016x", math.Float64bits(v))
	case string:
		sb.WriteString("s" + hexOrDash([]byte(v)))
	case []any:
		fmt.Fprintf(sb, "A%d", len(v))
		for _, x := range v {
			sb.WriteByte(',')
			renderJQ(sb, x)
		}
	case map[string]any:
		ks := make([]string, 0, len(v))
		for k := range v {
			ks = append(ks, k)
		}
		sort.Strings(ks) // bytewise
		fmt.Fprintf(sb, "M%d", len(v))
		for _, k := range ks {
			sb.WriteString(",s" + hexOrDash([]byte(k)) + ",")
			renderJQ(sb, v[k])
		}
	default:
		fmt.Fprintf(sb, "?%T", v)
	}
}

// ---- generators

type bigInt = big.Int

type caps struct {
	null, boolean, float, bytes bool
	intMin, intMax               *big.Int
	maxDepth                     int
}

var (
	two63    = new(big.Int).Lsh(big.NewInt(1), 63)
	two64    = new(big.Int).Lsh(big.NewInt(1), 64)
	minI64   = new(big.Int).Neg(two63)
	maxI64   = new(big.Int).Sub(two63, big.NewInt(1))
	maxU64   = new(big.Int).Sub(two64, big.NewInt(1))
	negTwo64 = new(big.Int).Neg(two64)
	twoPow70 = new(big.Int).Lsh(big.NewInt(1), 70)
)

var unicodePool = []string{"", "a", "key", "é", "日本語", "𝄞", "\u0000", "a\"b\\c", " ", " \t\n", "ÿ", "\U0010ffff", "ascii only text", "ñandú", "\ufeffbom first", "bom \ufeff inside"}

func genString(r *hlib.Rand) string {
	switch r.Intn(4) {
	case 0:
		return unicodePool[r.Intn(len(unicodePool))]
	case 1:
		n := r.Intn(40)
		var sb strings.Builder
		for i := 0; i < n; i++ {
			sb.WriteByte(byte('a' + r.Intn(26)))
		}
		return sb.String()
	default:
		n := r.Intn(12)
		var sb strings.Builder
		for i := 0; i < n; i++ {
			var c rune
			switch r.Intn(5) {
			case 0:
				c = rune(r.Intn(0x80))
			case 1:
				c = rune(0x80 + r.Intn(0x780))
			case 2:
				c = rune(0x800 + r.Intn(0xd000-0x800))
			case 3:
				c = rune(0xe000 + r.Intn(0x2000))
			default:
				c = rune(0x10000 + r.Intn(0x100000))
			}
			sb.WriteRune(c)
		}
		return sb.String()
	}
}

func genIntIn(r *hlib.Rand, lo, hi *big.Int) *big.Int {
	// boundary-biased: powers of two +-1, small, uniform by bit length
	var x *big.Int
	switch r.Intn(4) {
	case 0:
		x = big.NewInt(int64(r.Range(-40, 300)))
	case 1:
		k := uint(r.Intn(65))
		x = new(big.Int).Lsh(big.NewInt(1), k)
		x.Add(x, big.NewInt(int64(r.Range(-2, 1))))
		if r.Bool() {
			x.Neg(x)
			x.Add(x, big.NewInt(int64(r.Range(-1, 1))))
		}
	default:
		bits := uint(r.Intn(65))
		x = new(big.Int).SetUint64(r.U64())
		if bits < 64 {
			x.Rsh(x, 64-bits)
		}
		if r.Bool() {
			x.Neg(x)
			x.Sub(x, big.NewInt(1))
		}
	}
	if x.Cmp(lo) < 0 {
		return new(big.Int).Set(lo)
	}
	if x.Cmp(hi) > 0 {
		return new(big.Int).Set(hi)
	}
	return x
}

var floatSpecials = []uint64{
	0, 1 << 63, 1, 0x000fffffffffffff, 0x0010000000000000, 0x7fefffffffffffff, 0x7ff0000000000000, 0xfff0000000000000,
	0x7ff8000000000000, 0x7ff8000000000001, 0xfff8000000000000, 0x7ff0000000000001, 0x3ff0000000000000, 0xbff0000000000000,
	0x4000000000000000, 0x3fb999999999999a, 0x36a0000000000000 /* smallest f32 subnormal */, 0x3e70000000000000, /* smallest f16 subnormal */
	0x40effc0000000000 /* max f16 */, 0x47efffffe0000000 /* max f32 */, 0x4340000000000000, /* 2^53 */
}

func genFloat(r *hlib.Rand) uint64 {
	switch r.Intn(5) {
	case 0:
		return floatSpecials[r.Intn(len(floatSpecials))]
	case 1: // exactly a binary32 (not a signalling NaN: the hardware widening quiets it, which the model mirrors; covered by the directed cases)
		p := uint32(r.U64())
		return math.Float64bits(float64(math.Float32frombits(p)))
	case 2: // exactly a binary16
		return widen16(uint16(r.U64()))
	case 3:
		return math.Float64bits(float64(r.Range(-1000, 1000)) / 8)
	default:
		return r.U64()
	}
}

// widen16 is the harness' own binary16 -> binary64 conversion (value-exact; NaN: payload kept, quiet bit set)
func widen16(p uint16) uint64 {
	s := uint64(p>>15) << 63
	e := int((p >> 10) & 0x1f)
	f := uint64(p & 0x3ff)
	switch {
	case e == 31 && f == 0:
		return s | 0x7ff0000000000000
	case e == 31:
		return s | 0x7ff8000000000000 | f<<42
	case e == 0 && f == 0:
		return s
	case e == 0:
		return s | math.Float64bits(float64(f)*math.Pow(2, -24))
	default:
		return s | math.Float64bits(math.Ldexp(float64(f|0x400), e-15-10))
	}
}

func genValue(r *hlib.Rand, c caps, depth int) *val {
	// leaves more likely deeper down
	n := 8
	if depth >= c.maxDepth {
		n = 6
	}
	for {
		switch r.Intn(n) {
		case 0:
			if c.null {
				return vNull()
			}
		case 1:
			if c.boolean {
				return vBool(r.Bool())
			}
		case 2:
			return vInt(genIntIn(r, c.intMin, c.intMax))
		case 3:
			if c.float {
				return vFloat(genFloat(r))
			}
		case 4:
			return vStr(genString(r))
		case 5:
			if c.bytes {
				return vBytes(r.Bytes(r.Intn(20)))
			}
		case 6:
			m := r.Intn(5)
			if r.Intn(8) == 0 {
				m = r.Range(14, 26)
			}
			xs := make([]*val, m)
			for i := range xs {
				xs[i] = genValue(r, c, depth+1)
			}
			return vArr(xs...)
		case 7:
			m := r.Intn(5)
			if r.Intn(8) == 0 {
				m = r.Range(14, 26)
			}
			v := &val{k: kMap}
			seen := map[string]bool{}
			for i := 0; i < m; i++ {
				var k *val
				if c.bytes && r.Intn(6) == 0 {
					k = vBytes(r.Bytes(r.Intn(6)))
				} else {
					k = vStr(genString(r))
				}
				// torepr turns a byte-string key into a string with every ill-formed byte replaced by
				// U+FFFD; "duplicate-free" is meant after that conversion
				ks := string([]rune(string(k.s)))
				if seen[ks] {
					continue
				}
				seen[ks] = true
				v.keys = append(v.keys, k)
				v.vals = append(v.vals, genValue(r, c, depth+1))
			}
			return v
		}
	}
}
