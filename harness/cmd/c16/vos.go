//go:build verif

package main

import (
	"bytes"
	"context"
	"fmt"
	"io"
	"io/fs"

	_ "github.com/wader/fq/format/all"
	"github.com/wader/fq/pkg/bitio"
	"github.com/wader/fq/pkg/interp"
)

// ---- a virtual OS for interp.New (as format/fuzz_test.go does)

type nofs struct{}

func (nofs) Open(name string) (fs.File, error) { return nil, fmt.Errorf("%s: file not found", name) }

type vin struct {
	interp.FileReader
	io.Writer
}

func (vin) IsTerminal() bool { return false }
func (vin) Size() (int, int) { return 120, 25 }

type vout struct{ io.Writer }

func (vout) Size() (int, int) { return 120, 25 }
func (vout) IsTerminal() bool { return false }

type vos struct{}

func (vos) Platform() interp.Platform { return interp.Platform{} }
func (vos) Stdin() interp.Input {
	return vin{FileReader: interp.FileReader{R: bytes.NewBuffer(nil)}}
}
func (vos) Stdout() interp.Output                        { return vout{io.Discard} }
func (vos) Stderr() interp.Output                        { return vout{io.Discard} }
func (vos) InterruptChan() chan struct{}                 { return nil }
func (vos) Environ() []string                            { return nil }
func (vos) Args() []string                               { return []string{"fq", "-n", "."} }
func (vos) ConfigDir() (string, error)                   { return "/config", nil }
func (vos) FS() fs.FS                                    { return nofs{} }
func (vos) History() ([]string, error)                   { return nil, nil }
func (vos) Readline(interp.ReadlineOpts) (string, error) { return "", io.EOF }

type evaluator struct{ q *interp.Interp }

func newEvaluator() *evaluator {
	q, err := interp.New(vos{}, interp.DefaultRegistry)
	if err != nil {
		panic(err)
	}
	e := &evaluator{q: q}
	// interp.Main normally pushes the default options (bits_format, …) that tovalue/torepr read;
	// do the same once for this interpreter instance
	it, err := q.Eval(context.Background(), nil, `_options_stack([_opt_build_default_fixed]) | empty`, interp.EvalOpts{})
	if err != nil {
		panic(err)
	}
	for {
		v, more := it.Next()
		if !more {
			break
		}
		if err, ok := v.(error); ok {
			panic(err)
		}
	}
	return e
}

type panicMark struct{ why string }
type countMark struct{ n int }

// run evaluates `.[] | expr` over inputs; expr must emit exactly one value per input.
// A Go panic inside fq is isolated by re-running the batch one input at a time.
func (e *evaluator) run(expr string, inputs []any) []any {
	res, ok, _ := e.tryRun(expr, inputs)
	if ok && len(res) == len(inputs) {
		return res
	}
	out := make([]any, len(inputs))
	for i, in := range inputs {
		r, ok, why := e.tryRun(expr, []any{in})
		switch {
		case !ok:
			out[i] = panicMark{why}
		case len(r) != 1:
			out[i] = countMark{len(r)}
		default:
			out[i] = r[0]
		}
	}
	return out
}

func (e *evaluator) tryRun(expr string, inputs []any) (res []any, ok bool, why string) {
	defer func() {
		if r := recover(); r != nil {
			ok = false
			why = fmt.Sprint(r)
		}
	}()
	it, err := e.q.Eval(context.Background(), inputs, ".[] | "+expr, interp.EvalOpts{})
	if err != nil {
		panic(fmt.Sprintf("harness expression does not compile: %s: %v", expr, err))
	}
	for {
		v, more := it.Next()
		if !more {
			break
		}
		if _, isErr := v.(error); isErr {
			return res, true, ""
		}
		res = append(res, v)
	}
	return res, true, ""
}

func mkBinary(b []byte) any {
	bin, err := interp.NewBinaryFromBitReader(bitio.NewBitReader(b, int64(len(b))*8), 8, 0)
	if err != nil {
		panic(err)
	}
	return bin
}
