//go:build verif

package main

import (
	"fmt"
	"strings"

	"github.com/wader/fq/internal/verifharness/hlib"
)

// ---- XML documents WITH namespaces, serialised by hand (encoding/xml's encoder invents prefixes, so it cannot
// write a chosen lexical form).  fq documents that element and attribute names keep their source prefix; the
// expected value is therefore built from the LEXICAL qualified names, for the object form and for `array=true`.
//
// fq recovers the prefix from the namespace URL that encoding/xml resolved, by looking for the innermost
// in-scope binding of that URL (and an unprefixed name if the URL is also bound as a default namespace).  The
// generator keeps to the documents for which that is the lexical prefix: a name uses a prefix only if it is the
// innermost in-scope binding of its URL, and default-namespace URLs are never bound to a prefix.  Within that
// domain it produces: default namespaces and their undeclaration (xmlns=""), several prefixes, the same URL
// under two prefixes in nested scopes (and on the same element), prefixes rebound to another URL, prefixed
// attributes.

type nsBind struct{ prefix, url string }

type nsElem struct {
	prefix, local string
	decls         []nsBind    // xmlns / xmlns:p on this element, in attribute order
	attrs         [][3]string // prefix, local, value
	text          string
	children      []*nsElem
}

func (e *nsElem) qname() string {
	if e.prefix == "" {
		return e.local
	}
	return e.prefix + ":" + e.local
}

var (
	nsPrefixedURLs = []string{"urn:svc", "urn:a", "urn:b"}
	nsDefaultURLs  = []string{"urn:d1", "urn:d2"}
	nsPrefixes     = []string{"p", "q", "ns1", "ns2"}
)

func nsResolve(scope []nsBind, prefix string) (string, bool) {
	for i := len(scope) - 1; i >= 0; i-- {
		if scope[i].prefix == prefix {
			return scope[i].url, true
		}
	}
	return "", false
}

// usable prefixes: bound, and the prefix of the innermost DECLARATION of their URL — also when that declaration
// has meanwhile been shadowed (fq's lookup does not notice that `p` was rebound further in: with
// <x xmlns:ns2="urn:svc"><y xmlns:p="urn:svc"><z xmlns:p="urn:a" ns2:k="">  the attribute comes out as `p:k`;
// reported as an observation, such documents are outside the compared domain)
func nsUsable(scope []nsBind) []string {
	var out []string
	for _, p := range nsPrefixes {
		u, ok := nsResolve(scope, p)
		if !ok {
			continue
		}
		for i := len(scope) - 1; i >= 0; i-- {
			if scope[i].url == u && scope[i].prefix != "" {
				if scope[i].prefix == p {
					out = append(out, p)
				}
				break
			}
		}
	}
	return out
}

func xmlText(r *hlib.Rand) string {
	for {
		s := strings.TrimSpace(genString(r))
		if xmlOK(s) {
			return s
		}
	}
}

func genNSElem(r *hlib.Rand, scope []nsBind, depth int) *nsElem {
	e := &nsElem{local: []string{"op", "arg", "item", "c", "d"}[r.Intn(5)]}
	scope = append([]nsBind{}, scope...)
	// declarations
	seen := map[string]bool{}
	for i := r.Intn(3); i > 0; i-- {
		var b nsBind
		switch r.Intn(4) {
		case 0:
			b = nsBind{"", nsDefaultURLs[r.Intn(len(nsDefaultURLs))]}
			if r.Intn(4) == 0 {
				b.url = "" // undeclare the default namespace
			}
		default:
			b = nsBind{nsPrefixes[r.Intn(len(nsPrefixes))], nsPrefixedURLs[r.Intn(len(nsPrefixedURLs))]}
		}
		if seen[b.prefix] {
			continue
		}
		seen[b.prefix] = true
		e.decls = append(e.decls, b)
		scope = append(scope, b)
	}
	us := nsUsable(scope)
	if len(us) > 0 && r.Intn(3) != 0 {
		e.prefix = us[r.Intn(len(us))]
	}
	names := map[string]bool{}
	for i := r.Intn(3); i > 0; i-- {
		a := [3]string{"", []string{"id", "k", "lang", "v"}[r.Intn(4)], xmlText(r)}
		if len(us) > 0 && r.Bool() {
			a[0] = us[r.Intn(len(us))]
		}
		if names[a[1]] {
			continue
		}
		names[a[1]] = true
		e.attrs = append(e.attrs, a)
	}
	if depth < 3 && r.Intn(3) != 0 {
		for i := r.Intn(4); i > 0; i-- {
			e.children = append(e.children, genNSElem(r, scope, depth+1))
		}
	}
	if len(e.children) == 0 && r.Bool() {
		e.text = xmlText(r)
	}
	return e
}

func xmlEsc(s string, attr bool) string {
	s = strings.ReplaceAll(s, "&", "&amp;")
	s = strings.ReplaceAll(s, "<", "&lt;")
	s = strings.ReplaceAll(s, ">", "&gt;")
	if attr {
		s = strings.ReplaceAll(s, "\"", "&quot;")
		s = strings.ReplaceAll(s, "\t", "&#x9;")
		s = strings.ReplaceAll(s, "\n", "&#xA;")
	}
	return s
}

func (e *nsElem) write(sb *strings.Builder) {
	sb.WriteString("<" + e.qname())
	for _, d := range e.decls {
		if d.prefix == "" {
			fmt.Fprintf(sb, " xmlns=\"%s\"", d.url)
		} else {
			fmt.Fprintf(sb, " xmlns:%s=\"%s\"", d.prefix, d.url)
		}
	}
	for _, a := range e.attrs {
		n := a[1]
		if a[0] != "" {
			n = a[0] + ":" + a[1]
		}
		fmt.Fprintf(sb, " %s=\"%s\"", n, xmlEsc(a[2], true))
	}
	if e.text == "" && len(e.children) == 0 {
		sb.WriteString("/>")
		return
	}
	sb.WriteString(">")
	sb.WriteString(xmlEsc(e.text, false))
	for _, c := range e.children {
		c.write(sb)
	}
	sb.WriteString("</" + e.qname() + ">")
}

func (e *nsElem) attrMap(at string) map[string]any {
	o := map[string]any{}
	for _, d := range e.decls {
		if d.prefix == "" {
			o[at+"xmlns"] = d.url
		} else {
			o[at+"xmlns:"+d.prefix] = d.url
		}
	}
	for _, a := range e.attrs {
		n := a[1]
		if a[0] != "" {
			n = a[0] + ":" + a[1]
		}
		o[at+n] = a[2]
	}
	if e.text != "" {
		o["#text"] = e.text
	}
	return o
}

// object form (format/xml/xml.md "Elements as object")
func (e *nsElem) toObj() any {
	o := e.attrMap("@")
	if len(o) == 0 && len(e.children) == 0 {
		return ""
	}
	if len(o) == 1 && e.text != "" && len(e.children) == 0 {
		return e.text
	}
	var order []string
	groups := map[string][]any{}
	for _, c := range e.children {
		n := c.qname()
		if _, ok := groups[n]; !ok {
			order = append(order, n)
		}
		groups[n] = append(groups[n], c.toObj())
	}
	for _, n := range order {
		if len(groups[n]) == 1 {
			o[n] = groups[n][0]
		} else {
			o[n] = groups[n]
		}
	}
	return o
}

// array form: [name, {attributes and #text} | null, [children]]
func (e *nsElem) toArr() any {
	var attrs any
	if m := e.attrMap(""); len(m) > 0 {
		attrs = m
	}
	cs := []any{}
	for _, c := range e.children {
		cs = append(cs, c.toArr())
	}
	return []any{e.qname(), attrs, cs}
}

// hand-written documents for the shapes named in the property of the seeded change
func nsDirected() []*nsElem {
	el := func(prefix, local string, decls []nsBind, attrs [][3]string, text string, cs ...*nsElem) *nsElem {
		return &nsElem{prefix: prefix, local: local, decls: decls, attrs: attrs, text: text, children: cs}
	}
	return []*nsElem{
		// the same URL under two prefixes in nested scopes
		el("ns1", "op", []nsBind{{"ns1", "urn:svc"}}, nil, "",
			el("ns2", "arg", []nsBind{{"ns2", "urn:svc"}}, [][3]string{{"ns2", "k", "v"}}, "x")),
		// a prefix rebound in between: q is the innermost binding of urn:a, p now means urn:b
		el("p", "a", []nsBind{{"p", "urn:a"}}, nil, "",
			el("", "x", []nsBind{{"p", "urn:b"}, {"q", "urn:a"}}, nil, "",
				el("q", "c", nil, [][3]string{{"q", "id", "1"}, {"p", "v", "2"}}, ""), el("p", "d", nil, nil, "t"))),
		// default namespace, undeclared again further in
		el("", "a", []nsBind{{"", "urn:d1"}}, [][3]string{{"", "k", "v"}}, "",
			el("", "b", []nsBind{{"", ""}}, nil, "", el("", "c", nil, nil, "")), el("", "b", nil, nil, "t")),
		// several prefixes, two of them for one URL on the same element (the later one is the innermost)
		el("q", "a", []nsBind{{"p", "urn:svc"}, {"q", "urn:svc"}, {"ns1", "urn:a"}}, [][3]string{{"ns1", "lang", "en"}, {"q", "id", "7"}}, "",
			el("ns1", "item", nil, nil, "1"), el("ns1", "item", nil, nil, "2"), el("q", "item", nil, nil, "")),
		// a default namespace and prefixes side by side
		el("", "op", []nsBind{{"", "urn:d2"}, {"p", "urn:a"}}, nil, "",
			el("p", "arg", nil, [][3]string{{"", "k", "1"}, {"p", "k2", "2"}}, ""), el("", "arg", nil, nil, "y")),
	}
}
