//go:build verif

package main

// exhaustive small domain: every list of 0..L input files over the file kinds × programs that
// succeed / fail on numbers / fail always / do not compile — all subsets and orders of the failure
// classes io, decode, expr (and compile) occur.
func (rn *runner) matrix(maxLen int, withBin bool) {
	kinds := []string{"a.json", "n.json", "u1.bin", "miss1", "dir1", "fifo_a.json"}
	if withBin {
		kinds = append(kinds, "img.png", "fifo_u.bin")
	}
	progs := []string{".", progFnum2, progFall, "("}
	var rec func(files []string)
	rec = func(files []string) {
		for _, p := range progs {
			if p == "(" && len(files) > 1 {
				continue
			}
			argv := append([]string{"-c", p}, files...)
			marks := make([]bool, len(argv))
			for i := 2; i < len(argv); i++ {
				marks[i] = true
			}
			rn.runCase(argv, marks, "u")
		}
		if len(files) == maxLen {
			return
		}
		for _, k := range kinds {
			rec(append(append([]string{}, files...), k))
		}
	}
	rec(nil)
	rn.o.Stat("exhaustive_small_domain", 1)
	rn.o.Stat("matrix_max_files", maxLen)
}

// hand-written command lines (documented behaviours and the quirks the model keeps)
func (rn *runner) fixedCases() {
	for _, av := range [][]string{
		{}, {"--"}, {"-1"}, {"-nr"}, {"-n", "-r"}, {"--=x", "-n"}, {"-=x"}, {"=x"}, {"-d"}, {"-dn"}, {"-nd", "mp3"}, {"-nd=mp3"},
		{"--arg", "a"}, {"--arg=z", "a", "b"}, {"-o", "a=b", "-o=c=d=e", "--option", "a=z"}, {"-o", "nokv"}, {"-o", "a\nb=c"},
		{"-h"}, {"-h", "x"}, {"-h=x", "y"}, {"-hn"}, {"-nh"}, {"--raw-file", "a", "b"}, {"--decode-file", "a", "b"}, {"--nul-output"},
		{"-L", "a", "-L=b", "--include-path", "c"}, {"--décode=x"}, {"-é"}, {"-né"}, {"--slurp=1"}, {"-n=1"}, {"-nr=1"},
		{"-d", "--", "x"}, {"--", "--", "-n"}, {"-n", "--", "-r"}, {"-", "--1", "-9"}, {"---"}, {"-n-"},
	} {
		rn.parseCase(av)
	}
	// a combined group that ends in a value option keeps an attached =VALUE (seeded change S2-C17-2)
	rn.metaCase("same", []string{"-cVd=json"}, []string{"-c", "-V", "-d=json"})
	rn.metaCase("same", []string{"-cVd=json"}, []string{"-c", "-V", "-d", "json"})
	rn.metaCase("same", []string{"-cVd", "json"}, []string{"-c", "-V", "-d", "json"})
	rn.metaCase("same", []string{"-nro=a=b=c", "x"}, []string{"-n", "-r", "-o", "a=b=c", "x"})
	m := func(argv []string, fileIdx ...int) {
		marks := make([]bool, len(argv))
		for _, i := range fileIdx {
			marks[i] = true
		}
		rn.runCase(argv, marks, "u")
	}
	m([]string{"-c", ".", "a.json", "n.json"}, 2, 3)
	m([]string{".", "miss1", "a.json"}, 1, 2)
	m([]string{".", "miss1", "dir1", "img.png", "a.json"}, 1, 2, 3, 4) // two open failures before a value: re-decode quirk
	m([]string{"-d", "mp3", ".", "u1.bin"}, 3)
	m([]string{"-d", "nosuch", ".", "a.json"}, 3)
	m([]string{"(", "miss1"}, 1)
	m([]string{"--nosuch", ".", "a.json"}, 2)
	m([]string{"-c", ".", "--", "-n", "a.json"}, 3, 4)
	m([]string{"-c", "--", "-1", "a.json"}, 3)
	m([]string{"-f", "p_fnum.jq", "a.json", "n.json"}, 2, 3)
	m([]string{"-f", "p_miss.jq", "a.json"}, 2)
	m([]string{"-nc", progFall, "miss1"}, 2)
	m([]string{"-sc", progFnum, "n.json", "miss1", "u1.bin"}, 2, 3, 4)
	m([]string{"-Rc", progFall, "a.json", "dir1", "u1.bin"}, 2, 3, 4)
	m([]string{"-Rsc", ".", "miss1"}, 2)
	m([]string{"--argjson", "x", "{", ".", "a.json"}, 4)
	m([]string{"--argdecode", "x", "rf.bin", ".", "a.json"}, 4)
	// error values of every JSON type, failing input first / middle / last, and as the only failure
	for _, v := range errValues {
		pr := failOnNumber(v)
		m([]string{"-c", pr, "n.json", "a.json", "b.json"}, 2, 3, 4)
		m([]string{"-c", pr, "a.json", "n.json", "b.json"}, 2, 3, 4)
		m([]string{"-c", pr, "a.json", "b.json", "n.json"}, 2, 3, 4)
		m([]string{"-c", pr, "n.json", "a.json", "m.json"}, 2, 3, 4)
		m([]string{"-c", "error(" + v + ")", "a.json"}, 2)
	}
	m([]string{"-c", "null|error", "a.json", "n.json"}, 2, 3)
	m([]string{"-c", "(.missing? // null)|error", "a.json"}, 2)
	m([]string{"-c", "., (false|error)", "n.json", "a.json"}, 2, 3)
	m([]string{"-c", failOnNumber(`"s"`), "a.json", "n.json", "b.json", "m.json"}, 2, 3, 4, 5) // string error, then …
	// degenerate but valid programs (identity), as argument and as -f file
	for _, pr := range []string{"def f: 1;", "", "# c", "def f: 1; # c", "def f: 1; def g: f;", " "} {
		m([]string{"-c", pr, "a.json", "n.json"}, 2, 3)
	}
	for _, pf := range []string{"p_defs.jq", "p_empty.jq", "p_comment.jq", "p_defs_comment.jq", "p_ok.fifo"} {
		m([]string{"-c", "-f", pf, "a.json", "n.json"}, 3, 4)
	}
	// non-regular inputs in every position
	for _, nr := range []string{"fifo_a.json", "fifo_n.json", "fifo.png", "fifo_u.bin", "cdev_a.json"} {
		m([]string{"-c", ".", nr}, 2)
		m([]string{"-c", ".", nr, "a.json", "n.json"}, 2, 3, 4)
		m([]string{"-c", ".", "a.json", nr, "n.json"}, 2, 3, 4)
		m([]string{"-c", ".", "a.json", "miss1", nr}, 2, 3, 4)
	}
	m([]string{"-c", progFnum, "fifo_n.json", "fifo_a.json"}, 2, 3)
	m([]string{"-sc", ".", "a.json", "fifo_a.json"}, 2, 3)
	m([]string{"-Rc", ".", "fifo_a.json"}, 2)
	// `--` placement: positionals before it are kept
	m([]string{".a?", "--", "a.json"}, 2)
	m([]string{"-c", ".a?", "a.json", "--", "n.json", "-n"}, 2, 4, 5)
	m([]string{"--", ".a?", "a.json"}, 2)
	m([]string{".a?", "a.json", "--"}, 1)
	// --repl x -f x number of input files (no file = null input)
	for _, fl := range [][]string{{"-i"}, {"-i", "-f", "p_fnum.jq"}, {"-f", "p_fnum.jq", "--repl"}, {"-i", progFnum}, {"-i", "-n", progFall}, {"-is", progFnum}, {"-i", "("}} {
		for _, files := range [][]string{{}, {"n.json"}, {"miss1"}, {"n.json", "a.json"}, {"a.json", "miss1", "n.json", "u1.bin"}} {
			if len(fl) == 1 && len(files) > 0 {
				continue // `-i FILE`: the file would be the program
			}
			argv := append(append([]string{}, fl...), files...)
			var idx []int
			for k := range files {
				idx = append(idx, len(fl)+k)
			}
			m(argv, idx...)
		}
	}
	// help / version short-circuit and what comes before it (init.jq:184-216)
	m([]string{"-f", "p_miss.jq", "-h"})                                      // the program file error comes first: 2
	m([]string{"-h", "-f", "p_miss.jq"})                                      // `-f` is the help TOPIC: 0
	m([]string{"--version", "--argdecode", "x", "rf_miss", ".", "a.json"}, 5) // the decode-file path is never opened: 0
	m([]string{"--argdecode", "x", "rf_miss", ".", "a.json", "miss1"}, 4, 5)  // decode-file failure: 2, no input touched
	m([]string{"--help", "--nosuch"})                                         // topic
	m([]string{"--nosuch", "--help"})                                         // argument error first: 2
	m([]string{"--raw-file", "x", "rf_miss", "--version"})
	m([]string{"--slurpfile", "x", "rf.json", ".", "a.json"}, 4) // not an fq flag
	// the option merge: -o beats the flag wherever it stands, mistyped / unknown -o entries are dropped silently, quirks
	P := optsProg()
	for _, av := range [][]string{
		{"-n", "-o", "null_input=false", P, "a.json"}, {"-o", "null_input=false", "-n", P, "a.json"}, {"-o", "null_input=true", P, "a.json"},
		{"-o", "slurp=yes", P, "a.json"}, {"-o", "unknownkey=1", P, "a.json"}, {"-o", "show_version=1", P, "a.json"},
		{"-o", "show_help=formats", P, "a.json"}, {"-o", "show_help=true", P, "a.json"}, {"-o", "include_path=dir1", P, "a.json"},
		{"-L", "dir1", "-L=rf_dir", P, "a.json"}, {"-o", `filenames=["n.json"]`, P, "a.json"}, {"-o", `filenames=["n.json"]`, "--repl", P},
		{"-o", "expr_file=p_opts.jq", "a.json", "n.json"}, {"-f", "p_opts.jq", "a.json"}, {"-i", P}, {"-i", P, "a.json"},
		{"-C", "-M", P, "a.json"}, {"-o", "color_output=true", P, "a.json"}, {"-o", "color_output=1", P, "a.json"}, {"-j", P, "a.json"},
		{"-o", "join_output=1", P, "a.json"}, {"--raw-output0", "-r", P, "a.json"}, {"-d", "mp3", "--decode=json", "-d=probe", P, "a.json"},
		{"-o", "decode_group=json", "-d", "mp3", P, "a.json"}, {"-o", "compact=@rf_miss", P, "a.json"}, {"-o", "unknownkey=@rf_miss", P, "a.json"},
	} {
		rn.optCase(av, "j")
	}
	rn.ometaCase([]string{"-c", P, "a.json"}, []string{"-o", "compact=true", P, "a.json"}, "j")
	rn.ometaCase([]string{"-C", P, "a.json"}, []string{"-o", "color_output=true", P, "a.json"}, "j")
	rn.ometaCase([]string{"-o", "slurp=1", "-o", "slurp=0", P, "a.json"}, []string{"--option=slurp=0", P, "a.json"}, "j")
	// named arguments: later wins within a kind; decode-file > raw-file > JSON > string between kinds
	B := bindProg()
	for _, av := range [][]string{
		{"-n", "--arg", "a", "A1", "--arg", "a", "A2", "--arg", "b", "A3", B},
		{"-n", "--argjson", "a", "101", "--arg", "a", "A2", "--arg", "b", "A3", "--argjson", "b", `"J4"`, B},
		{"-n", "--argdecode", "a", "bd1.json", "--raw-file", "a", "br1.txt", "--argjson", "a", "101", "--arg", "a", "A1", "--decode-file", "b", "bd2.json", B},
		{"-n", "--raw-file", "a", "br1.txt", "--raw-file", "a", "br2.txt", "--arg", "b", "A1", B},
		{"-n", "--arg", "a", "A1", "--arg", "b", "A2", "-o", `arg=[["a","A7"],["b","A8"]]`, B},
		{"-n", "--arg", "a", "A1", "--arg", "b", B},
		{"-n", "--arg", "a", "A1", "--argjson", "b", "{", B},
		{"-n", "--arg", "a", "A1", "--argdecode", "b", "rf.bin", B},
	} {
		rn.bindCase(av)
	}
	m([]string{})
	m([]string{"-v", "(", "miss1"}, 2)
	m([]string{"-h", "nosuchtopic"})
}
