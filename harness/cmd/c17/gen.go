//go:build verif

package main

import (
	"strings"

	"github.com/wader/fq/internal/verifharness/hlib"
)

// generators: every random choice comes from g.r

type gen struct {
	r    *hlib.Rand
	f    facts
	p    *pool
	real *realTree // non-nil: file names of the real tree (real.go)
}

func (g *gen) pick(ss []string) string { return ss[g.r.Intn(len(ss))] }

func (g *gen) chance(pct int) bool { return g.r.Intn(100) < pct }

func (o optEntry) forms() []string {
	var fs []string
	if o.hasShort {
		fs = append(fs, o.short)
	}
	if o.hasLong {
		fs = append(fs, o.long)
	}
	return append(fs, o.aliases...)
}

func (o optEntry) pureBool() bool { return o.kinds == "b" }
func (o optEntry) valued() bool   { return strings.ContainsAny(o.kinds, "sao") }
func (o optEntry) isPairs() bool  { return strings.Contains(o.kinds, "p") && !o.valued() }

func (g *gen) optsWhere(pred func(optEntry) bool) []optEntry {
	var os []optEntry
	for _, o := range g.f.opts {
		if pred(o) {
			os = append(os, o)
		}
	}
	return os
}

func (g *gen) pickOpt(pred func(optEntry) bool) optEntry {
	os := g.optsWhere(pred)
	return os[g.r.Intn(len(os))]
}

func (g *gen) boolShorts() []string {
	var cs []string
	for _, o := range g.f.opts {
		if o.pureBool() && o.hasShort && len([]rune(o.short)) == 2 {
			cs = append(cs, string([]rune(o.short)[1:]))
		}
	}
	return cs
}

var soupValues = []string{"mp3", "probe", "a=b", "k=v=w", "", "=", "-n", "--", "x y", "é=ü", "@f", "a\nb=c", "k=", "=v", "1", "a.json"}
var soupPositionals = []string{".", "a.json", "-1", "-", "", "=x", "a=b", "-=x", "--1", "-9x", "n.json", "é"}
var soupUnknown = []string{"--nosuch", "-X", "--nosuch=v", "-é", "--décode=x", "-X=1", "---", "--x-", "-nX", "-Xn", "-n-"}

// one complete unit (never leaves an option without its value)
func (g *gen) completeUnit() []string {
	switch g.r.Intn(10) {
	case 0, 1, 2:
		return []string{g.pick(g.pickOpt(optEntry.pureBool).forms())}
	case 3:
		cs := g.boolShorts()
		n := g.r.Range(2, 4)
		s := "-"
		for i := 0; i < n; i++ {
			s += g.pick(cs)
		}
		return []string{s}
	case 4, 5:
		o := g.pickOpt(optEntry.valued)
		k, v := g.pick(o.forms()), g.pick(soupValues)
		if strings.Contains(o.kinds, "o") && g.chance(70) {
			v = g.pick([]string{"a=b", "k=v=w", "k=", "é=ü", "compact=true", "=v"})
		}
		if g.chance(40) {
			return []string{k + "=" + v}
		}
		return []string{k, v}
	case 6:
		o := g.pickOpt(optEntry.isPairs)
		return []string{g.pick(o.forms()), g.pick([]string{"x", "y", "é"}), g.pick(soupValues)}
	default:
		return []string{g.pick(soupPositionals)}
	}
}

// argument soup for the parser: complete and broken units in any order
func (g *gen) parseArgv() []string {
	var av []string
	n := g.r.Range(0, 7)
	for i := 0; i < n; i++ {
		switch g.r.Intn(14) {
		case 0:
			av = append(av, g.pick(soupUnknown))
		case 1: // valued option, value possibly missing
			av = append(av, g.pick(g.pickOpt(func(o optEntry) bool { return o.valued() || o.isPairs() }).forms()))
		case 2: // boolean flag with a value
			av = append(av, g.pick(g.pickOpt(optEntry.pureBool).forms())+"="+g.pick(soupValues))
		case 3:
			av = append(av, g.pick([]string{"--", "--", "--=x", "--=x=y"}))
		case 4: // combined shorts with arbitrary members
			cs := append(g.boolShorts(), "d", "f", "L", "o", "h", "X", "é", "1", "-", "=", "=v")
			s := "-"
			for k := g.r.Range(1, 4); k > 0; k-- {
				s += g.pick(cs)
			}
			av = append(av, s)
		case 5: // pairs option with `=`
			o := g.pickOpt(optEntry.isPairs)
			av = append(av, g.pick(o.forms())+"=z")
		default:
			av = append(av, g.completeUnit()...)
		}
	}
	return av
}

func (g *gen) completeUnits(lo, hi int) []string {
	var av []string
	for n := g.r.Range(lo, hi); n > 0; n-- {
		av = append(av, g.completeUnit()...)
	}
	return av
}

func cat(parts ...[]string) []string {
	var out []string
	for _, p := range parts {
		out = append(out, p...)
	}
	return out
}

// two command lines that a theorem of Props.C17 equates
func (g *gen) metaPair() (kind string, a, b []string) {
	pre, suf := g.completeUnits(0, 3), g.completeUnits(0, 3)
	switch g.r.Intn(4) {
	case 0: // combined_short
		cs := g.boolShorts()
		n := g.r.Range(2, 5)
		comb, var1 := "-", []string{}
		for i := 0; i < n; i++ {
			c := g.pick(cs)
			comb += c
			var1 = append(var1, "-"+c)
		}
		if g.chance(50) {
			// … ending in a value option: -abX=v ≡ -a -b -X=v ≡ -a -b -X v
			var xs []string
			for _, o := range g.optsWhere(func(o optEntry) bool { return o.valued() && o.hasShort && len([]rune(o.short)) == 2 }) {
				xs = append(xs, string([]rune(o.short)[1:]))
			}
			x, v := g.pick(xs), g.pick([]string{"json", "a=b", "k=v=w", "", "=", "mp3"})
			switch g.r.Intn(3) {
			case 0:
				return "same", cat(pre, []string{comb + x + "=" + v}, suf), cat(pre, var1, []string{"-" + x + "=" + v}, suf)
			case 1:
				return "same", cat(pre, []string{comb + x + "=" + v}, suf), cat(pre, var1, []string{"-" + x, v}, suf)
			default:
				return "same", cat(pre, []string{comb + x, v}, suf), cat(pre, var1, []string{"-" + x, v}, suf)
			}
		}
		return "same", cat(pre, []string{comb}, suf), cat(pre, var1, suf)
	case 1: // eq_form
		o := g.pickOpt(optEntry.valued)
		k, v := g.pick(o.forms()), g.pick(soupValues)
		return "same", cat(pre, []string{k + "=" + v}, suf), cat(pre, []string{k, v}, suf)
	case 2: // dashdash_stops
		var post []string
		for n := g.r.Range(0, 4); n > 0; n-- {
			post = append(post, g.pick(cat(soupUnknown, soupPositionals, []string{"-n", "--slurp", "-d", "--arg", "--"})))
		}
		return "dd:" + itoa(len(post)), cat(pre, []string{"--"}, post), pre
	default: // bool_flags_commute
		f1 := g.pick(g.pickOpt(optEntry.pureBool).forms())
		f2 := g.pick(g.pickOpt(optEntry.pureBool).forms())
		mid := g.completeUnits(0, 2)
		return "same", cat(pre, []string{f1}, mid, []string{f2}, suf), cat(pre, []string{f2}, mid, []string{f1}, suf)
	}
}

func itoa(n int) string {
	if n == 0 {
		return "0"
	}
	s := ""
	for n > 0 {
		s = string(rune('0'+n%10)) + s
		n /= 10
	}
	return s
}

// ---------------------------------------------------------------- command lines for interp.Main

type unit struct {
	toks       []string
	positional bool // program or file
	exprFile   bool // -f unit: all positionals are files
}

func (g *gen) formOf(name string) string {
	for _, o := range g.f.opts {
		if o.name == name {
			return g.pick(o.forms())
		}
	}
	panic("option table has no " + name)
}

func (g *gen) weighted(ws []int) int {
	t := 0
	for _, w := range ws {
		t += w
	}
	x := g.r.Intn(t)
	for i, w := range ws {
		if x < w {
			return i
		}
		x -= w
	}
	return 0
}

var outputFlagNames = []string{"compact", "raw_string", "join_output", "null_output", "color_output", "monochrome_output", "unicode_output", "value_output"}

func (g *gen) pickFile() string {
	if g.real != nil {
		return g.pickRealFile()
	}
	if g.chance(15) {
		return g.pick([]string{"fifo_a.json", "fifo_n.json", "fifo.png", "fifo_u.bin", "cdev_a.json"})
	}
	switch g.weighted([]int{30, 20, 15, 12, 12, 8}) {
	case 0:
		return g.pick([]string{"a.json", "b.json"})
	case 1:
		return g.pick([]string{"n.json", "m.json"})
	case 2:
		return g.pick([]string{"img.png", "snd.mp3"})
	case 3:
		return g.pick([]string{"u1.bin", "u2.bin"})
	case 4:
		return g.pick(missingNames)
	default:
		return g.pick([]string{"dir1", "."})
	}
}

func (g *gen) pickProg() string {
	switch g.weighted([]int{45, 20, 10, 10, 5}) {
	case 0:
		if g.chance(20) {
			return g.pick([]string{"def f: 1;", "", "# c", "def f: 1; # c", "def f: 1; def g: f;", "def f: .; f", " "})
		}
		return g.pick([]string{".", ".", ".a?", ".,.", "empty", "-1", "type", "[.]"})
	case 1:
		// (real file system: only failures that carry the marker text — there the classifier has no marker for io errors)
		if g.real == nil && g.chance(50) {
			return failOnNumber(g.pick(errValues))
		}
		return g.pick([]string{progFnum, progFnum2})
	case 2:
		if g.real == nil && g.chance(50) {
			return g.pick([]string{"error(" + g.pick(errValues) + ")", "null|error", "(.missing? // null)|error", "., (false|error)"})
		}
		return g.pick([]string{progFall, progFall2})
	case 3:
		return g.pick([]string{"(", ".a.", "nosuchfunc", "$nosuchvar"})
	default:
		return progVarX
	}
}

// runArgv builds a command line from units in jq-style free order; marks = the tokens that are input
// files BY CONSTRUCTION (documented CLI: first positional is the program unless -f/--from-file is
// given, the other positionals are files, everything after `--` is positional).
func (g *gen) runArgv() (argv []string, marks []bool, stdin string) {
	var flags []unit
	addFlag := func(toks ...string) { flags = append(flags, unit{toks: toks}) }
	// output flags
	for n := g.weighted([]int{30, 40, 20, 10}); n > 0; n-- {
		if g.chance(25) { // combined short flags
			cs := []string{"c", "r", "j", "C", "M", "U", "V"}
			s := "-"
			for k := g.r.Range(2, 3); k > 0; k-- {
				s += g.pick(cs)
			}
			addFlag(s)
		} else {
			addFlag(g.formOf(g.pick(outputFlagNames)))
		}
	}
	// input modes
	if g.chance(12) {
		addFlag(g.formOf("null_input"))
	}
	if g.chance(12) {
		addFlag(g.formOf("slurp"))
	}
	if g.chance(12) {
		addFlag(g.formOf("string_input"))
	}
	if g.chance(5) {
		addFlag(g.pick([]string{"-ns", "-sR", "-Rc", "-nr", "-sc"}))
	}
	// --repl: the virtual terminal is at EOF, so the run is "read the inputs, run the program on each, leave"
	if g.chance(8) {
		addFlag(g.pick([]string{"-i", "--repl", "-ic", "-in"}))
	}
	valued := func(name, v string) {
		k := g.formOf(name)
		if g.chance(40) {
			addFlag(k + "=" + v)
		} else {
			addFlag(k, v)
		}
	}
	if g.chance(25) {
		valued("decode_group", g.pick([]string{"probe", "mp3", "png", "nosuch"}))
	}
	if g.chance(5) {
		valued("include_path", "dir1")
	}
	if g.chance(15) {
		valued("option", g.pick([]string{"slurp=true", "null_input=1", "null_input=0", "compact=true", "color=false", "depth=1",
			"string_input=true", "slurp=yes", "decode_group=mp3", "nokv", "raw_string=@rf_miss", "slurp=false", "null_input=false",
			"x=@rf_miss", "bits_format=@rf_dir", "unknownkey=1", "slurp=@rf_miss"}))
	}
	if g.chance(10) {
		addFlag(g.formOf("arg"), "x", g.pick([]string{"1", "a b", ""}))
	}
	if g.chance(10) {
		addFlag(g.formOf("argjson"), "x", g.pick([]string{"2", `{"k":1}`, `"s"`, "{", "nope"}))
	}
	if g.chance(5) {
		addFlag(g.formOf("raw_file"), "x", g.pick([]string{"rf.json", "rf.bin", "rf_miss", "rf_dir"}))
	}
	if g.chance(6) {
		addFlag(g.formOf("argdecode"), "x", g.pick([]string{"rf.json", "rf.png", "rf_miss", "rf.bin", "rf_dir"}))
	}
	// broken command lines
	if g.chance(6) {
		// unknown flags proper (`---` is a positional, `-n-` is `-n --`: parser soup only)
		addFlag(g.pick([]string{"--nosuch", "-X", "--nosuch=v", "-é", "--décode=x", "-X=1", "--x-", "-nX", "-Xn"}))
	}
	if g.chance(3) {
		addFlag(g.formOf(g.pick(outputFlagNames)) + "=1")
	}
	if g.chance(3) {
		addFlag(g.formOf("show_help"), g.pick([]string{"formats", "nosuchtopic"}))
	}
	if g.chance(2) {
		addFlag(g.formOf("show_version"))
	}

	// program and files
	var pos []unit
	hasExprFile := false
	switch {
	case g.chance(10):
		hasExprFile = true
		k := g.formOf("expr_file")
		v := g.pick([]string{"p_ok.jq", "p_ok.jq", "p_fnum.jq", "p_fall.jq", "p_nc.jq", "p_miss.jq", "a.json",
			"p_defs.jq", "p_empty.jq", "p_comment.jq", "p_defs_comment.jq", "p_ok.fifo"})
		if g.chance(40) {
			flags = append(flags, unit{toks: []string{k + "=" + v}, exprFile: true})
		} else {
			flags = append(flags, unit{toks: []string{k, v}, exprFile: true})
		}
	case g.chance(3):
		// neither program nor files: `.` on stdin
	default:
		pos = append(pos, unit{toks: []string{g.pickProg()}, positional: true})
	}
	if hasExprFile || len(pos) > 0 {
		for n := g.weighted([]int{8, 22, 30, 25, 15}); n > 0; n-- {
			pos = append(pos, unit{toks: []string{g.pickFile()}, positional: true})
		}
	}
	if hasExprFile && g.chance(20) {
		addFlag(g.pick([]string{"-i", "--repl"})) // --repl x -f x number of files
	}
	// free order: flags shuffled, positionals keep their relative order
	for i := len(flags) - 1; i > 0; i-- {
		j := g.r.Intn(i + 1)
		flags[i], flags[j] = flags[j], flags[i]
	}
	var units []unit
	fi, pi := 0, 0
	for fi < len(flags) || pi < len(pos) {
		takeFlag := pi >= len(pos) || (fi < len(flags) && g.r.Intn(len(flags)-fi+len(pos)-pi) < len(flags)-fi)
		if takeFlag {
			units = append(units, flags[fi])
			fi++
		} else {
			units = append(units, pos[pi])
			pi++
		}
	}
	// a valued option without its value, last
	missingLast := g.chance(4)
	// `--`
	// `--` only where the roles after it are known by construction: at or after the program unit
	// (so that no flag token becomes the program); after the -f unit when -f supplies the program
	dd := -1
	if !missingLast && g.chance(14) {
		progAt := -1
		for i, u := range units {
			if u.positional {
				progAt = i
				break
			}
		}
		exprAt := -1
		for i, u := range units {
			if u.exprFile {
				exprAt = i
			}
		}
		switch {
		case hasExprFile:
			dd = g.r.Range(exprAt+1, len(units)) // after the -f unit: every positional is a file
		case progAt >= 0:
			dd = g.r.Range(progAt, len(units))
		default:
			dd = len(units)
		}
	}
	exprFileSeen := false
	var isPos []bool
	for i, u := range units {
		if dd == i {
			argv = append(argv, "--")
			isPos = append(isPos, false)
		}
		for _, t := range u.toks {
			argv = append(argv, t)
			isPos = append(isPos, u.positional || (dd >= 0 && i >= dd))
		}
		if u.exprFile && !(dd >= 0 && i >= dd) {
			exprFileSeen = true
		}
	}
	if dd == len(units) {
		argv = append(argv, "--")
		isPos = append(isPos, false)
	}
	if missingLast {
		argv = append(argv, g.formOf(g.pick([]string{"decode_group", "arg", "expr_file", "option"})))
		isPos = append(isPos, false)
	}
	marks = make([]bool, len(argv))
	first := !exprFileSeen
	for i := range argv {
		if isPos[i] {
			if first {
				first = false
				continue
			}
			marks[i] = true
		}
	}
	return argv, marks, g.pick([]string{"j", "n", "u"})
}
