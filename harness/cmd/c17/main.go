//go:build verif

// C17 harness: fq's command line contract.
//
//	hdr   … the option table (`_opt_cli_opts | to_entries`) and `_exit_code_*`, evaluated inside fq
//	parse … the real `_args_parse($argv; _opt_cli_opts)` on generated argument vectors
//	meta  … two command lines a theorem equates (combined short flags, --k=v, `--`, flag order), both parsed by fq
//	run   … in-process `interp.Main` with a virtual OS on (argv, files, program), plus the same command
//	        once per input file alone (the independence predicate is relative to these single runs)
//	!…    … jq-compatible modes against a direct gojq evaluation (modes.go)
//
// Line formats are documented in /verif/lean/Drv/C17.lean.
package main

import (
	"encoding/hex"
	"encoding/json"
	"fmt"
	"io/fs"
	"math/bits"
	"os"
	"path/filepath"
	"sort"
	"strings"

	"github.com/wader/fq/internal/verifharness/hlib"
)

const progErrText = "verif-expr"

// ---------------------------------------------------------------- canonical encodings

func hx(s string) string { return hlib.Hex([]byte(s)) }

func unhx(s string) string { return string(hlib.UnHex(s)) }

func hxList(ss []string) string {
	if len(ss) == 0 {
		return "."
	}
	out := make([]string, len(ss))
	for i, s := range ss {
		out[i] = hx(s)
	}
	return strings.Join(out, ",")
}

func argvText(argv []string, marks []bool) string {
	if len(argv) == 0 {
		return "."
	}
	out := make([]string, len(argv))
	for i, s := range argv {
		out[i] = hx(s)
		if marks != nil && marks[i] {
			out[i] += "*"
		}
	}
	return strings.Join(out, ",")
}

func parseArgvText(s string) (argv []string, marks []bool) {
	if s == "." {
		return nil, nil
	}
	for _, it := range strings.Split(s, ",") {
		m := strings.HasSuffix(it, "*")
		it = strings.TrimSuffix(it, "*")
		argv = append(argv, unhx(it))
		marks = append(marks, m)
	}
	return
}

// readable rendering for samples / notes (no spaces, tabs)
func note(argv []string) string {
	q := make([]string, len(argv))
	for i, a := range argv {
		q[i] = strings.NewReplacer(" ", "%20", "\t", "%09", "\n", "%0a", "\x00", "%00").Replace(a)
		if q[i] == "" {
			q[i] = "''"
		}
	}
	return "@fq_" + strings.Join(q, "_")
}

const hashP = (1 << 61) - 1
const hashB = 1000003

func mulmod(a, b uint64) uint64 {
	hi, lo := bits.Mul64(a, b)
	_, r := bits.Div64(hi%hashP, lo, hashP)
	return r
}

func polyHash(b []byte) uint64 {
	var h uint64
	for _, c := range b {
		h = (mulmod(h, hashB) + uint64(c)) % hashP
	}
	return h
}

// ---------------------------------------------------------------- facts taken from fq at run time

type optEntry struct {
	name, short, long string
	hasShort, hasLong bool
	aliases           []string
	kinds             string
}

type facts struct {
	opts     []optEntry
	codes    [5]int
	defaults int
	groups   map[string]int // decode group name -> number of formats
	otypes   [][2]string    // _opt_options: key, type
	dflt     [][2]string    // _opt_build_default_fixed on the virtual OS: key, encoded value
}

// encJV: the flat value codec of Drv/C17.lean (N null, T/F, I<int>, S<hex>, A<hex+hex…|.>, P<hex~hex+…|.>, Z = [null], X = other)
func encJV(v any) string {
	switch x := v.(type) {
	case nil:
		return "N"
	case bool:
		if x {
			return "T"
		}
		return "F"
	case int:
		return fmt.Sprintf("I%d", x)
	case string:
		return "S" + hx(x)
	case []any:
		if len(x) == 0 {
			return "A." // the empty array is both the empty string list and the empty pair list (the driver treats them alike)
		}
		if len(x) == 1 && x[0] == nil {
			return "Z"
		}
		allStr, allPair := true, true
		for _, e := range x {
			if _, ok := e.(string); !ok {
				allStr = false
			}
			p, ok := e.([]any)
			if !ok || len(p) != 2 {
				allPair = false
			} else {
				_, ok1 := p[0].(string)
				_, ok2 := p[1].(string)
				if !ok1 || !ok2 {
					allPair = false
				}
			}
		}
		if allStr {
			out := make([]string, len(x))
			for i, e := range x {
				out[i] = hx(e.(string))
			}
			return "A" + strings.Join(out, "+")
		}
		if allPair {
			out := make([]string, len(x))
			for i, e := range x {
				p := e.([]any)
				out[i] = hx(p[0].(string)) + "~" + hx(p[1].(string))
			}
			return "P" + strings.Join(out, "+")
		}
	}
	return "X"
}

func encObj(m map[string]any, keys []string) string {
	if keys == nil {
		for k := range m {
			keys = append(keys, k)
		}
		sort.Strings(keys)
	}
	out := make([]string, 0, len(keys))
	for _, k := range keys {
		out = append(out, hx(k)+":"+encJV(m[k]))
	}
	if len(out) == 0 {
		return "."
	}
	return strings.Join(out, ",")
}

func truthy(v any) bool {
	switch x := v.(type) {
	case nil:
		return false
	case bool:
		return x
	}
	return true
}

func loadFacts() facts {
	var f facts
	vs, err := evalJQ(`_opt_cli_opts | to_entries | map({key, short: .value.short, long: .value.long, aliases: .value.aliases, b: .value.bool, s: .value.string, a: .value.array, o: .value.object, p: .value.pairs, q: .value.optional, d: .value.default})`, nil)
	if err != nil || len(vs) != 1 {
		panic(fmt.Sprintf("cannot evaluate _opt_cli_opts: %v", err))
	}
	for _, e := range vs[0].([]any) {
		m := e.(map[string]any)
		var o optEntry
		o.name = m["key"].(string)
		if truthy(m["short"]) {
			o.short, o.hasShort = m["short"].(string), true
		}
		if truthy(m["long"]) {
			o.long, o.hasLong = m["long"].(string), true
		}
		if as, ok := m["aliases"].([]any); ok {
			for _, a := range as {
				o.aliases = append(o.aliases, a.(string))
			}
		}
		for _, k := range [][2]string{{"b", "b"}, {"s", "s"}, {"a", "a"}, {"o", "o"}, {"p", "p"}, {"q", "?"}} {
			if truthy(m[k[0]]) {
				o.kinds += k[1]
			}
		}
		if o.kinds == "" {
			o.kinds = "-"
		}
		if truthy(m["d"]) {
			f.defaults++
		}
		f.opts = append(f.opts, o)
	}
	vs, err = evalJQ(`[_exit_code_args_error,_exit_code_input_io_error,_exit_code_compile_error,_exit_code_input_decode_error,_exit_code_expr_error]`, nil)
	if err != nil || len(vs) != 1 {
		panic(fmt.Sprintf("cannot evaluate _exit_code_*: %v", err))
	}
	for i, c := range vs[0].([]any) {
		f.codes[i] = c.(int)
	}
	vs, err = evalJQ(`_opt_options | to_entries | map([.key, .value])`, nil)
	if err != nil || len(vs) != 1 {
		panic(fmt.Sprintf("cannot evaluate _opt_options: %v", err))
	}
	for _, e := range vs[0].([]any) {
		kv := e.([]any)
		f.otypes = append(f.otypes, [2]string{kv[0].(string), kv[1].(string)})
	}
	vs, err = evalJQ(`_opt_build_default_fixed`, nil)
	if err != nil || len(vs) != 1 {
		panic(fmt.Sprintf("cannot evaluate _opt_build_default_fixed: %v", err))
	}
	{
		m := vs[0].(map[string]any)
		ks := make([]string, 0, len(m))
		for k := range m {
			ks = append(ks, k)
		}
		sort.Strings(ks)
		for _, k := range ks {
			f.dflt = append(f.dflt, [2]string{k, encJV(m[k])})
		}
	}
	vs, err = evalJQ(`_registry.groups | map_values(length)`, nil)
	if err != nil || len(vs) != 1 {
		panic(fmt.Sprintf("cannot evaluate _registry.groups: %v", err))
	}
	f.groups = map[string]int{}
	for k, v := range vs[0].(map[string]any) {
		f.groups[k] = v.(int)
	}
	return f
}

func (f facts) header() string {
	es := make([]string, len(f.opts))
	for i, o := range f.opts {
		sh, lo, al := "~", "~", "~"
		if o.hasShort {
			sh = hx(o.short)
		}
		if o.hasLong {
			lo = hx(o.long)
		}
		if len(o.aliases) > 0 {
			hs := make([]string, len(o.aliases))
			for j, a := range o.aliases {
				hs[j] = hx(a)
			}
			al = strings.Join(hs, ",")
		}
		es[i] = strings.Join([]string{hx(o.name), sh, lo, al, o.kinds}, "|")
	}
	ots := make([]string, len(f.otypes))
	for i, kv := range f.otypes {
		ots[i] = hx(kv[0]) + ":" + kv[1]
	}
	ds := make([]string, len(f.dflt))
	for i, kv := range f.dflt {
		ds[i] = hx(kv[0]) + ":" + kv[1]
	}
	return fmt.Sprintf("hdr codes=%d,%d,%d,%d,%d defaults=%d opts=%s otypes=%s dflt=%s", f.codes[0], f.codes[1], f.codes[2], f.codes[3], f.codes[4], f.defaults,
		strings.Join(es, ";"), strings.Join(ots, ","), strings.Join(ds, ","))
}

// ---------------------------------------------------------------- the real _args_parse

func canonPV(v any) string {
	switch x := v.(type) {
	case bool:
		if x {
			return "T"
		}
	case string:
		return "S:" + hx(x)
	case []any:
		if len(x) > 0 {
			if _, isPair := x[0].([]any); isPair {
				ps := make([]string, len(x))
				for i, p := range x {
					pp := p.([]any)
					ps[i] = hx(pp[0].(string)) + "+" + hx(pp[1].(string))
				}
				return "P:" + strings.Join(ps, ",")
			}
		}
		ss := make([]string, len(x))
		for i, s := range x {
			ss[i] = s.(string)
		}
		return "A:" + hxList(ss)
	case map[string]any:
		ks := make([]string, 0, len(x))
		for k := range x {
			ks = append(ks, k)
		}
		sort.Strings(ks)
		ps := make([]string, len(ks))
		for i, k := range ks {
			ps[i] = hx(k) + "=" + hx(x[k].(string))
		}
		return "O:" + strings.Join(ps, ",")
	}
	return fmt.Sprintf("?%T", v)
}

// realParseBatch runs the real `_args_parse` on many argument vectors in one evaluation
func realParseBatch(argvs [][]string) []string {
	out := make([]string, 0, len(argvs))
	for len(argvs) > 0 {
		n := min(len(argvs), 400)
		in := make([]any, n)
		for k, argv := range argvs[:n] {
			a := make([]any, len(argv))
			for i, s := range argv {
				a[i] = s
			}
			in[k] = a
		}
		argvs = argvs[n:]
		vs, err := evalJQShared(`_opt_cli_opts as $o | map(. as $a | try (_args_parse($a; $o) | {ok: .}) catch {err: .})`, in)
		if err != nil || len(vs) != 1 {
			panic(fmt.Sprintf("cannot evaluate _args_parse: %v", err))
		}
		for _, v := range vs[0].([]any) {
			out = append(out, canonParse(v.(map[string]any)))
		}
	}
	return out
}

func canonParse(m map[string]any) string {
	if e, isErr := m["err"]; isErr {
		// The TEXT of an error message is not an observation: the class is an advisory statistic derived from the
		// current wording (`other` if it is not recognised), the message travels along only so that the driver can
		// check that the offending argument is mentioned in it.
		msg, isStr := e.(string)
		if !isStr {
			msg = fmt.Sprint(e)
		}
		class := "other"
		for _, p := range [][2]string{{": no such argument", "nosuch"}, {": needs an argument", "needsarg"}, {": needs two argument", "needstwo"},
			{": takes no argument", "takesno"}, {": should be key=value", "keyvalue"}} {
			if strings.HasSuffix(msg, p[0]) {
				class = p[1]
			}
		}
		return "err:" + class + ":" + hx(msg)
	}
	ok := m["ok"].(map[string]any)
	var rest []string
	for _, r := range ok["rest"].([]any) {
		rest = append(rest, r.(string))
	}
	parsed := "null"
	if pm, isMap := ok["parsed"].(map[string]any); isMap {
		ks := make([]string, 0, len(pm))
		for k := range pm {
			ks = append(ks, k)
		}
		sort.Strings(ks)
		ps := make([]string, len(ks))
		for i, k := range ks {
			ps[i] = k + "=" + canonPV(pm[k])
		}
		parsed = strings.Join(ps, ";")
	}
	return fmt.Sprintf("ok rest=%s parsed=%s", hxList(rest), parsed)
}

// ---------------------------------------------------------------- the world: files and programs

type pool struct {
	real  bool // the files are on disk (real.go)
	files vfs
	fkind map[string]string // name -> j n b u d x ; absent = missing
	progs map[string]string // program text -> class (ok fnum fall nc), "$x" programs handled in pcOf
	pfile map[string]string // program file name -> class of its content
}

func undecBytes(name string) []byte {
	r := hlib.NewRand(uint64(polyHash([]byte(name))) + 17)
	b := r.Bytes(40 + r.Intn(120))
	b[0] = 0 // no text format, no JSON value
	return b
}

func repoFile(rel string) []byte {
	root := os.Getenv("VERIF_REPO")
	if root == "" {
		root = "/repo"
	}
	b, err := os.ReadFile(filepath.Join(root, rel))
	if err != nil {
		panic(err)
	}
	return b
}

const (
	progFnum  = `if type=="number" then error("` + progErrText + `") else . end`
	progFnum2 = `., if type=="number" then error("` + progErrText + `") else empty end`
	progFall  = `error("` + progErrText + `")`
	progFall2 = `., error("` + progErrText + `")`
	progVarX  = `[$x]`
)

var errValues = []string{"null", "false", "true", "0", `""`, "[]", "{}", `{"error":null}`, `{"error":false}`, `{"error":"x"}`, `{"a":1}`, `"` + progErrText + `"`}

// how init.jq:121-129 prints the pool's error values (`.error` of an object if truthy, strings as they are, else JSON)
var errRenderings = map[string]bool{"null": true, "false": true, "true": true, "0": true, "": true, "[]": true, "{}": true,
	`{"error":null}`: true, `{"error":false}`: true, "x": true, `{"a":1}`: true, "s": true}

func failOnNumber(v string) string { return "if type==\"number\" then error(" + v + ") else . end" }

func newPool() *pool {
	p := &pool{files: vfs{}, fkind: map[string]string{}, progs: map[string]string{}, pfile: map[string]string{}}
	add := func(name, kind string, data []byte) {
		p.files[name] = vfile{data: data}
		p.fkind[name] = kind
	}
	add("a.json", "j", []byte("{\"a\":{\"b\":1}}\n"))
	add("b.json", "j", []byte("{\"a\":{\"b\":2},\"c\":[1,2]}"))
	add("n.json", "n", []byte("3\n"))
	add("m.json", "n", []byte("42"))
	add("img.png", "b", repoFile("format/png/testdata/4x4_palette.png"))
	add("snd.mp3", "b", repoFile("format/mp3/testdata/headerfooter.mp3"))
	// non-regular inputs (fifo, character device): have a Seek method that fails; fq must read them through
	addNR := func(name, kind string, data []byte, mode fs.FileMode) {
		p.files[name] = vfile{data: data, mode: mode}
		p.fkind[name] = kind
	}
	addNR("fifo_a.json", "j", []byte("{\"a\":{\"b\":7}}\n"), fs.ModeNamedPipe)
	addNR("fifo_n.json", "n", []byte("5\n"), fs.ModeNamedPipe)
	addNR("fifo.png", "b", repoFile("format/png/testdata/4x4_palette.png"), fs.ModeNamedPipe)
	addNR("fifo_u.bin", "u", undecBytes("fifo_u.bin"), fs.ModeNamedPipe)
	addNR("cdev_a.json", "j", []byte("{\"a\":{\"b\":8}}"), fs.ModeDevice|fs.ModeCharDevice)
	add("u1.bin", "u", undecBytes("u1.bin"))
	add("u2.bin", "u", undecBytes("u2.bin"))
	// paths for --raw-file / --argdecode / -o k=@path: never also input files, so that the fatal error
	// `error: <path>: …` is not mistaken for an input's io error
	add("rf.json", "j", []byte("{\"r\":1}\n"))
	add("rf.png", "b", repoFile("format/png/testdata/4x4_palette.png"))
	add("rf.bin", "u", undecBytes("rf.bin"))
	for _, d := range []string{".", "dir1", "rf_dir"} {
		p.files[d] = vfile{isDir: true}
		p.fkind[d] = "d"
	}
	for text, cls := range map[string]string{
		".": "ok", ".a?": "ok", ".,.": "ok", "empty": "okq", "-1": "ok", "type": "ok", "[.]": "ok",
		// degenerate but valid programs: no root expression = identity (jq)
		"def f: 1;": "ok", "": "ok", "# c": "ok", "def f: 1; # c": "ok", "def f: 1; def g: f;": "ok", "def f: .; f": "ok", " ": "ok",
		progFnum: "fnum", progFnum2: "fnum", progFall: "fall", progFall2: "fall",
		"(": "nc", ".a.": "nc", "nosuchfunc": "nc", "$nosuchvar": "nc",
	} {
		p.progs[text] = cls
	}
	// run-time failures carrying every JSON type as error value (falsy ones included): the exit status must
	// not depend on the value (Props.C17.exit_ignores_error_value)
	for _, v := range errValues {
		p.progs[failOnNumber(v)] = "fnum"
		p.progs["error("+v+")"] = "fall"
	}
	p.progs[failOnNumber(`"s"`)] = "fnum"
	p.progs["null|error"] = "fall"
	p.progs["(.missing? // null)|error"] = "fall"
	p.progs["., (false|error)"] = "fall"
	for name, text := range map[string]string{"p_ok.jq": ".a?", "p_fnum.jq": progFnum, "p_fall.jq": progFall2, "p_nc.jq": "(\n",
		"p_defs.jq": "def f: 1;\ndef g: f;\n", "p_empty.jq": "", "p_comment.jq": "# only a comment\n", "p_defs_comment.jq": "# lib\ndef f: 1;\n"} {
		p.files[name] = vfile{data: []byte(text)}
		p.fkind[name] = "x"
		if c, ok := p.progs[strings.TrimSpace(text)]; ok {
			p.pfile[name] = c
		} else {
			p.pfile[name] = "ok" // the definition / comment only files
		}
	}
	// a program file that is a fifo
	p.files["p_ok.fifo"] = vfile{data: []byte(".a?"), mode: fs.ModeNamedPipe}
	p.fkind["p_ok.fifo"] = "x"
	p.pfile["p_ok.fifo"] = "ok"
	return p
}

var missingNames = []string{"miss1", "miss2.json"}

var compileCache = map[string]bool{}

func compiles(prog string) bool {
	if v, ok := compileCache[prog]; ok {
		return v
	}
	_, err := evalJQCompileOnly(prog)
	compileCache[prog] = err == nil
	return err == nil
}

// is $x defined by a named-argument unit before `--` (generator shapes only)
func definesX(argv []string) bool {
	for i, a := range argv {
		if a == "--" {
			return false
		}
		switch a {
		case "--arg", "--argjson", "--raw-file", "--argdecode", "--decode-file":
			if i+1 < len(argv) && argv[i+1] == "x" {
				return true
			}
		}
	}
	return false
}

func (p *pool) fk(name string) string {
	if k, ok := p.fkind[name]; ok {
		return k
	}
	return "m"
}

func (p *pool) pc(s string, argv []string) string {
	if s == progVarX {
		if definesX(argv) {
			return "ok"
		}
		return "nc"
	}
	if c, ok := p.progs[s]; ok {
		return c
	}
	if !compiles(s) {
		return "nc"
	}
	return "x"
}

func (p *pool) cc(name string) string {
	if c, ok := p.pfile[name]; ok {
		return c
	}
	switch p.fk(name) {
	case "j", "n":
		return "ok" // a JSON text is a constant jq program
	case "b", "u":
		if !compiles(string(p.files[name].data)) {
			return "nc"
		}
	}
	return "x"
}

func (f facts) fmtKind(s string) string {
	n, ok := f.groups[s]
	switch {
	case !ok:
		return "-"
	case n == 1:
		return "f"
	default:
		return "p"
	}
}

// every string the model may have to look up: the tokens, and what follows `=` / `@` inside them
func worldNames(argv []string) []string {
	seen := map[string]bool{}
	var out []string
	var add func(s string)
	add = func(s string) {
		if !seen[s] {
			seen[s] = true
			out = append(out, s)
		}
		if i := strings.IndexByte(s, '='); i >= 0 {
			add(s[i+1:])
		}
		if strings.HasPrefix(s, "@") {
			add(s[1:])
		}
		// strings inside a JSON text (`-o filenames=["a.json"]`)
		if strings.Contains(s, `"`) && (strings.HasPrefix(s, "[") || strings.Contains(s, "=[")) {
			for i, part := range strings.Split(s, `"`) {
				if i%2 == 1 {
					add(part)
				}
			}
		}
	}
	for _, a := range argv {
		add(a)
	}
	return out
}

func (p *pool) worldText(f facts, argv []string) string {
	names := worldNames(argv)
	if len(names) == 0 {
		return "."
	}
	es := make([]string, len(names))
	for i, n := range names {
		j := "0"
		if json.Valid([]byte(n)) {
			j = "1"
		}
		es[i] = strings.Join([]string{hx(n), p.fk(n), p.pc(n, argv), p.cc(n), j, f.fmtKind(n)}, ":")
		if p.real {
			// what os.Open / Stat / Seek / ReadAll say about the name on the real file system (real.go)
			es[i] += ":" + measure(n)
		}
	}
	return strings.Join(es, ",")
}

func stdinBytes(kind string) []byte {
	switch kind {
	case "j":
		return []byte("{\"s\":1}\n")
	case "n":
		return []byte("7\n")
	}
	return undecBytes("<stdin>")
}

// ---------------------------------------------------------------- run cases

func collapseExpr(cs []string) []string {
	var out []string
	for _, c := range cs {
		if c == "expr" && len(out) > 0 && out[len(out)-1] == "expr" {
			continue
		}
		out = append(out, c)
	}
	return out
}

// classifyStderr maps stderr to the canonical class list.  Lines of the input loop are `error: <name>: <text>`
// (init.jq:36,49,119), fatal errors `error: <text>` (internal.jq:29).  A decode error's text starts with the
// decode group (init.jq:42), which is `probe` or a string of the command line (`groups`).
//
// real = the run used the real file system: an io error then carries the operating system's text, not a marker of the
// virtual OS; every report about an input that is neither the program's (marker text) nor a decode error is io.
func classifyStderr(stderr []byte, inputs map[string]bool, groups map[string]bool, real bool) []string {
	var out []string
	for _, l := range strings.Split(string(stderr), "\n") {
		if l == "" {
			continue
		}
		if !strings.HasPrefix(l, "error: ") {
			out = append(out, "other")
			continue
		}
		rest := l[len("error: "):]
		name, isInput, isDec := "", false, false
		if i := strings.Index(rest, ": "); i >= 0 && inputs[rest[:i]] {
			name, isInput = rest[:i], true
			if j := strings.Index(rest[i+2:], ": "); j >= 0 && groups[rest[i+2:i+2+j]] {
				isDec = true
			}
		}
		switch {
		case strings.Contains(rest, progErrText) || errRenderings[rest]:
			// the marker text, or (no input name: null input) exactly the rendering of a pool error value
			out = append(out, "expr")
		case isInput && (strings.Contains(rest, errTextMissing) || strings.Contains(rest, errTextIsDir)):
			out = append(out, "io:"+hx(name))
		case isInput && isDec:
			out = append(out, "dec:"+hx(name))
		case isInput && real:
			out = append(out, "io:"+hx(name))
		case isInput:
			out = append(out, "expr") // an error raised by the program without the marker text
		default:
			out = append(out, "fatal")
		}
	}
	return collapseExpr(out)
}

func obsText(r runResult, inputs, groups map[string]bool, real bool) string {
	if r.panic != "" {
		return "panic:" + hx(r.panic)
	}
	errs := classifyStderr(r.stderr, inputs, groups, real)
	e := "-"
	if len(errs) > 0 {
		e = strings.Join(errs, ",")
	}
	return fmt.Sprintf("%d/%d:%d/%s", r.exit, len(r.stdout), polyHash(r.stdout), e)
}

type runner struct {
	o       *hlib.Out
	f       facts
	p       *pool
	pending []pendingParse
	real    *realTree // non-nil: run cases go to the real file system (real.go)
}

func (rn *runner) runCase(argv []string, marks []bool, stdinKind string) {
	inputs := map[string]bool{"<stdin>": true}
	groups := map[string]bool{"probe": true}
	for _, n := range worldNames(argv) {
		groups[n] = true
	}
	var marked []int
	for i, m := range marks {
		if m {
			inputs[argv[i]] = true
			marked = append(marked, i)
		}
	}
	stdin := stdinBytes(stdinKind)
	real := rn.real != nil
	all := rn.mainRun(argv, stdin)
	var singles []string
	for _, keep := range marked {
		var av []string
		for i, a := range argv {
			if marks[i] && i != keep {
				continue
			}
			av = append(av, a)
		}
		singles = append(singles, obsText(rn.mainRun(av, stdin), inputs, groups, real))
	}
	s := "."
	if len(singles) > 0 {
		s = strings.Join(singles, ";")
	}
	op := fmt.Sprintf("run argv=%s stdin=%s world=%s %s", argvText(argv, marks), stdinKind, rn.p.worldText(rn.f, argv), note(argv))
	if real {
		op = strings.Replace(op, "run argv=", "run fs=real argv=", 1)
		rn.o.Stat("real_fs_cases", 1)
	}
	obs := fmt.Sprintf("all=%s singles=%s", obsText(all, inputs, groups, real), s)
	nruns := 1 + len(singles)
	if av, has := withoutRepl(argv); has {
		obs += " norepl=" + obsText(rn.mainRun(av, stdin), inputs, groups, real)
		nruns++
		rn.o.Stat("repl_cases", 1)
	}
	rn.o.Case(op, obs)
	rn.o.Stat("runs_of_main", nruns)
	rn.o.Stat(fmt.Sprintf("exit_%d", all.exit), 1)
	// non-trivial: at least two input files, or a failure of any class
	if len(marked) >= 2 || all.exit != 0 {
		rn.o.Class(op)
	}
}

// withoutRepl removes -i / --repl (also inside a combined short group) from a command line of the generator's
// shapes (tokens before `--` only)
func withoutRepl(argv []string) ([]string, bool) {
	var out []string
	has := false
	for i, a := range argv {
		if a == "--" {
			out = append(out, argv[i:]...)
			break
		}
		switch {
		case a == "-i" || a == "--repl":
			has = true
			continue
		case len(a) > 2 && a[0] == '-' && a[1] != '-' && !strings.Contains(a, "=") && strings.Contains(a[1:], "i") &&
			strings.Trim(a[1:], "nrcjCMUVsRi") == "":
			has = true
			a = "-" + strings.ReplaceAll(a[1:], "i", "")
		}
		out = append(out, a)
	}
	return out, has
}

type pendingParse struct {
	kind string // "" = parse
	a, b []string
}

func (rn *runner) parseCase(argv []string) { rn.pending = append(rn.pending, pendingParse{a: argv}) }

func (rn *runner) metaCase(kind string, a, b []string) {
	rn.pending = append(rn.pending, pendingParse{kind: kind, a: a, b: b})
}

// flush evaluates the queued parse/meta cases in batches and writes their case lines
func (rn *runner) flush() {
	var argvs [][]string
	for _, p := range rn.pending {
		argvs = append(argvs, p.a)
		if p.kind != "" {
			argvs = append(argvs, p.b)
		}
	}
	res := realParseBatch(argvs)
	i := 0
	for _, p := range rn.pending {
		if p.kind == "" {
			rn.o.Case("parse "+argvText(p.a, nil)+" "+note(p.a), res[i])
			i++
			if len(p.a) >= 2 {
				rn.o.Class("parse " + argvText(p.a, nil))
			}
			continue
		}
		rn.o.Case(fmt.Sprintf("meta %s %s %s %s", p.kind, argvText(p.a, nil), argvText(p.b, nil), note(p.a)), res[i]+" | "+res[i+1])
		i += 2
		rn.o.Class("meta " + argvText(p.a, nil))
		rn.o.Stat("meta_"+strings.SplitN(p.kind, ":", 2)[0], 1)
	}
	rn.pending = nil
}

// ---------------------------------------------------------------- replay

func (rn *runner) replay(path string) {
	for _, l := range hlib.ReplayLines(path) {
		ws := strings.Fields(l)
		if len(ws) == 0 {
			continue
		}
		get := func(key string) string {
			for _, w := range ws {
				if strings.HasPrefix(w, key+"=") {
					return w[len(key)+1:]
				}
			}
			return ""
		}
		isMode := false
		for _, w := range ws {
			if w == "mode" {
				isMode = true
			}
		}
		if isMode { // also `PROPFAIL mode argv=…` / `KNOWN <key> mode argv=…` lines of a replay file
			rn.modeReplay(ws)
			continue
		}
		switch ws[0] {
		case "hdr":
			// always re-emitted from the current tree (main)
		case "parse":
			av, _ := parseArgvText(ws[1])
			rn.parseCase(av)
		case "meta":
			a, _ := parseArgvText(ws[2])
			b, _ := parseArgvText(ws[3])
			rn.metaCase(ws[1], a, b)
		case "run":
			av, marks := parseArgvText(get("argv"))
			if get("fs") == "real" {
				rn.realRunner().runCase(av, marks, get("stdin"))
			} else {
				rn.runCase(av, marks, get("stdin"))
			}
		case "raw":
			rn.rawReplay(get("form"), get("files"), get("stdin"))
		case "opt":
			av, _ := parseArgvText(get("argv"))
			rn.optCase(av, get("stdin"))
		case "ometa":
			a, _ := parseArgvText(ws[2])
			b, _ := parseArgvText(ws[3])
			rn.ometaCase(a, b, get("stdin"))
		case "bind":
			av, _ := parseArgvText(get("argv"))
			rn.bindCase(av)
		}
	}
}

func main() {
	cfg := hlib.ParseFlags()
	o := hlib.NewOut(cfg.Out)
	defer o.Close()
	defer cleanupRealTree()
	f := loadFacts()
	rn := &runner{o: o, f: f, p: newPool()}
	rn.p.addOptFiles()
	// the header is a case line: the driver validates it and keeps the table
	o.Case(f.header(), "")
	if cfg.Replay != "" {
		rn.replay(cfg.Replay)
		rn.flush()
		return
	}
	r := hlib.NewRand(cfg.Seed)
	g := &gen{r: r, f: f, p: rn.p}
	if len(cfg.Args) > 0 && cfg.Args[0] == "matrix" {
		rn.fixedCases()
		rn.flush()
		if cfg.Thorough() {
			rn.matrix(3, true)
		} else {
			rn.matrix(2, false)
		}
		return
	}

	if len(cfg.Args) > 0 && cfg.Args[0] == "real" {
		// the real file system family (real.go): hand-written lines, the exhaustive small domain, random command lines
		rr := rn.realRunner()
		rr.realFixed()
		rr.realMatrix(cfg.Thorough())
		nReal := 80
		if cfg.Thorough() {
			nReal = 800
		}
		gr := &gen{r: r, f: f, p: rr.p, real: rr.real}
		for i := 0; i < nReal; i++ {
			argv, marks, stdin := gr.runArgv()
			rr.runCase(argv, marks, stdin)
			if i < 3 {
				o.Sample("real fs: fq " + strings.Join(argv, " "))
			}
		}
		o.Stat("run_cases", nReal)
		return
	}
	if len(cfg.Args) > 0 && cfg.Args[0] == "raw" {
		// raw input at byte level (raw.go)
		nRaw := 260
		if cfg.Thorough() {
			nRaw = 2500
		}
		rn.rawFixed()
		rn.rawRandom(g, nRaw)
		return
	}

	nParse, nMeta, nRun, nMode := 1500, 600, 170, 120
	if cfg.Thorough() {
		nParse, nMeta, nRun, nMode = 20000, 6000, 1500, 800
	}
	for i := 0; i < nParse; i++ {
		rn.parseCase(g.parseArgv())
	}
	for i := 0; i < nMeta; i++ {
		kind, a, b := g.metaPair()
		rn.metaCase(kind, a, b)
	}
	rn.flush()
	for i := 0; i < nRun; i++ {
		argv, marks, stdin := g.runArgv()
		rn.runCase(argv, marks, stdin)
		if i < 4 {
			o.Sample("fq " + strings.Join(argv, " "))
		}
	}
	rn.modeCases(g, nMode)
	nOpt, nOmeta, nBind := 90, 50, 70
	if cfg.Thorough() {
		nOpt, nOmeta, nBind = 900, 500, 600
	}
	for i := 0; i < nOpt; i++ {
		av, stdin := g.optArgv()
		rn.optCase(av, stdin)
	}
	for i := 0; i < nOmeta; i++ {
		a, b := g.ometaPair()
		rn.ometaCase(a, b, "j")
	}
	for i := 0; i < nBind; i++ {
		rn.bindCase(g.bindArgv())
	}
	o.Stat("parse_cases", nParse)
	o.Stat("run_cases", nRun)
}

var _ = hex.EncodeToString
