//go:build verif

package main

import (
	"bytes"
	"encoding/json"
	"fmt"
	"sort"
	"strings"

	"github.com/wader/gojq"
)

// jq-compatible modes (null input, slurp, raw input, raw / joined / NUL-separated / compact output,
// named string / JSON / file arguments, `--`, combined short flags) against a DIRECT gojq evaluation:
// the harness constructs the inputs the way jq documents them, runs the program with the gojq
// library fq embeds, renders the outputs the way jq does, and compares stdout and exit status with
// the in-process `interp.Main`.  There is no Lean oracle here: verdicts are `!OK` / `!PROPFAIL` lines.

var modeFiles = map[string]string{
	"a.json":    "{\"a\":{\"b\":1}}\n",
	"b.json":    "{\"a\":{\"b\":2},\"c\":[1,2]}",
	"n.json":    "3\n",
	"arr.json":  `[1,"x",null,[],{},{"k":[1.5,{"z":"q\t"}]}]`,
	"str.json":  `"he\"llo"`,
	"t1.txt":    "a\nb",
	"t2.txt":    "c\n",
	"t3.txt":    "x\n\ny\n\n",
	"empty.txt": "",
	"nl.txt":    "\n",
	// jq splits raw input on \n ONLY: a carriage return is content
	"crlf.txt": "a\r\nb\r\n",
	"cr.txt":   "x\r",
	"crs.txt":  "\r\r\n\n\ry",
}

var modeJSONFiles = []string{"a.json", "b.json", "n.json", "arr.json", "str.json"}
var modeTextFiles = []string{"t1.txt", "t2.txt", "t3.txt", "empty.txt", "nl.txt", "a.json", "n.json", "crlf.txt", "cr.txt", "crs.txt"}

// total jq programs that behave the same on fq's JSON decode values and on plain JSON
// (not `.[]` on objects: gojqx.Object.JQValueEach iterates in Go map order — reported, outside C17)
var modeProgs = []string{"def f: 1;", "", "# c", "def f: 1; # c", "def f: [.]; def g: f;", "def f: [.]; f", ".", "[.]", "type", "length", "tojson", ".,.", "[.,1]", "{v:.}", "empty", "1,\"s\",null",
	"if type==\"number\" then error(\"" + progErrText + "\") else . end", "[$x,.]", "$x", "[$x,$y]", "tostring", "[.[0]?]",
	"., if type==\"string\" then error(\"" + progErrText + "\") else empty end"}

type modeSpec struct {
	null, slurp, raw                bool
	rawOut, join, nul, compact      bool
	vars                            map[string]any
	prog                            string
	files                           []string
	invalid                         string // non-empty: the spec cannot be evaluated by the reference
}

// readSpec derives the mode from a command line of the generator's shapes (documented CLI):
// bool flags short/long/combined, --arg/--argjson/--raw-file NAME VALUE, `--`, program, files.
func readSpec(argv []string) modeSpec {
	s := modeSpec{vars: map[string]any{}}
	var pos []string
	setShort := func(c rune) bool {
		switch c {
		case 'n':
			s.null = true
		case 's':
			s.slurp = true
		case 'R':
			s.raw = true
		case 'r':
			s.rawOut = true
		case 'j':
			s.join = true
		case 'c':
			s.compact = true
		default:
			return false
		}
		return true
	}
	for i := 0; i < len(argv); i++ {
		a := argv[i]
		switch {
		case a == "--":
			pos = append(pos, argv[i+1:]...)
			i = len(argv)
		case a == "--null-input":
			s.null = true
		case a == "--slurp":
			s.slurp = true
		case a == "--raw-input":
			s.raw = true
		case a == "--raw-output":
			s.rawOut = true
		case a == "--join-output":
			s.join = true
		case a == "--compact-output":
			s.compact = true
		case a == "--raw-output0" || a == "--nul-output":
			s.nul = true
		case a == "--arg" && i+2 < len(argv):
			s.vars[argv[i+1]] = argv[i+2]
			i += 2
		case a == "--argjson" && i+2 < len(argv):
			var v any
			d := json.NewDecoder(strings.NewReader(argv[i+2]))
			d.UseNumber()
			if err := d.Decode(&v); err != nil {
				s.invalid = "argjson"
			}
			s.vars[argv[i+1]] = normalizeJSON(v)
			i += 2
		case a == "--raw-file" && i+2 < len(argv):
			s.vars[argv[i+1]] = modeFiles[argv[i+2]]
			i += 2
		case len(a) >= 2 && a[0] == '-' && a[1] != '-' && (a[1] < '0' || a[1] > '9'):
			for _, c := range a[1:] {
				if !setShort(c) {
					s.invalid = "flag " + a
				}
			}
		default:
			pos = append(pos, a)
		}
	}
	if len(pos) == 0 {
		s.invalid = "no program"
		return s
	}
	s.prog, s.files = pos[0], pos[1:]
	return s
}

func normalizeJSON(v any) any {
	switch x := v.(type) {
	case json.Number:
		if i, err := x.Int64(); err == nil {
			return int(i)
		}
		f, _ := x.Float64()
		return f
	case []any:
		for i := range x {
			x[i] = normalizeJSON(x[i])
		}
	case map[string]any:
		for k := range x {
			x[k] = normalizeJSON(x[k])
		}
	}
	return v
}

func parseJSONText(s string) (any, error) {
	var v any
	d := json.NewDecoder(strings.NewReader(s))
	d.UseNumber()
	if err := d.Decode(&v); err != nil {
		return nil, err
	}
	return normalizeJSON(v), nil
}

// jq -R: lines of the concatenated text; a final line without newline counts; no text, no line
func jqLines(text string) []any {
	if text == "" {
		return nil
	}
	text = strings.TrimSuffix(text, "\n")
	var out []any
	for _, l := range strings.Split(text, "\n") {
		out = append(out, l)
	}
	return out
}

func pretty(buf *bytes.Buffer, v any, indent int) {
	pad := func(n int) { buf.WriteString(strings.Repeat("  ", n)) }
	switch x := v.(type) {
	case []any:
		if len(x) == 0 {
			buf.WriteString("[]")
			return
		}
		buf.WriteString("[\n")
		for i, e := range x {
			pad(indent + 1)
			pretty(buf, e, indent+1)
			if i < len(x)-1 {
				buf.WriteByte(',')
			}
			buf.WriteByte('\n')
		}
		pad(indent)
		buf.WriteByte(']')
	case map[string]any:
		if len(x) == 0 {
			buf.WriteString("{}")
			return
		}
		ks := make([]string, 0, len(x))
		for k := range x {
			ks = append(ks, k)
		}
		sort.Strings(ks)
		buf.WriteString("{\n")
		for i, k := range ks {
			pad(indent + 1)
			kb, _ := gojq.Marshal(k)
			buf.Write(kb)
			buf.WriteString(": ")
			pretty(buf, x[k], indent+1)
			if i < len(ks)-1 {
				buf.WriteByte(',')
			}
			buf.WriteByte('\n')
		}
		pad(indent)
		buf.WriteByte('}')
	default:
		b, _ := gojq.Marshal(v)
		buf.Write(b)
	}
}

// reference: (stdout, exit) by direct gojq evaluation; lines = the raw-input line rule to use
func (s modeSpec) reference() (string, int, error) {
	var inputs []any
	switch {
	case s.null:
		inputs = []any{nil}
	case s.raw:
		text := ""
		for _, f := range s.files {
			text += modeFiles[f]
		}
		if s.slurp {
			inputs = []any{text}
		} else {
			inputs = jqLines(text)
		}
	default:
		var vs []any
		for _, f := range s.files {
			v, err := parseJSONText(modeFiles[f])
			if err != nil {
				return "", 0, err
			}
			vs = append(vs, v)
		}
		if s.slurp {
			if vs == nil {
				vs = []any{}
			}
			inputs = []any{vs}
		} else {
			inputs = vs
		}
	}
	q, err := gojq.Parse(s.prog)
	if err != nil {
		return "", 0, err
	}
	if q.Term == nil && q.Left == nil && q.Right == nil && q.Func == "" {
		// jq: a program without a root expression (empty, comments, definitions only) is the identity
		if q, err = gojq.Parse(s.prog + "\n."); err != nil {
			return "", 0, err
		}
	}
	names := make([]string, 0, len(s.vars))
	for k := range s.vars {
		names = append(names, "$"+k)
	}
	sort.Strings(names)
	vals := make([]any, len(names))
	for i, n := range names {
		vals[i] = s.vars[n[1:]]
	}
	code, err := gojq.Compile(q, gojq.WithVariables(names))
	if err != nil {
		return "", 0, err
	}
	var out bytes.Buffer
	exit := 0
	for _, in := range inputs {
		it := code.Run(in, vals...)
		for {
			v, ok := it.Next()
			if !ok {
				break
			}
			if _, isErr := v.(error); isErr {
				exit = 5
				break
			}
			if str, isStr := v.(string); isStr && (s.rawOut || s.join || s.nul) {
				out.WriteString(str)
			} else if s.compact {
				b, _ := gojq.Marshal(v)
				out.Write(b)
			} else {
				pretty(&out, v, 0)
			}
			switch {
			case s.join:
			case s.nul:
				out.WriteByte(0)
			default:
				out.WriteByte('\n')
			}
		}
	}
	return out.String(), exit, nil
}

func (rn *runner) modeCase(argv []string) {
	spec := readSpec(argv)
	text := fmt.Sprintf("mode argv=%s %s", argvText(argv, nil), note(argv))
	if spec.invalid != "" {
		rn.o.Verdict("BADOP", text+" :: reference cannot evaluate: "+spec.invalid)
		return
	}
	files := vfs{}
	for n, c := range modeFiles {
		files[n] = vfile{data: []byte(c)}
	}
	got := runMain(argv, files, nil)
	rn.o.Stat("runs_of_main", 1)
	want, wantExit, err := spec.reference()
	if err != nil {
		rn.o.Verdict("BADOP", text+" :: reference failed: "+err.Error())
		return
	}
	rn.o.Stat("mode_cases", 1)
	rn.o.Class(text)
	if got.panic == "" && string(got.stdout) == want && got.exit == wantExit {
		rn.o.Verdict("OK", text)
		return
	}
	rn.o.Verdict("PROPFAIL", fmt.Sprintf("%s :: exit %d stdout %q, gojq reference: exit %d stdout %q", text, got.exit, clip(string(got.stdout)), wantExit, clip(want)))
}

func clip(s string) string {
	if len(s) > 160 {
		return s[:160] + "…"
	}
	return s
}

func (g *gen) modeArgv() []string {
	var flags [][]string
	add := func(t ...string) { flags = append(flags, t) }
	mode := g.r.Intn(6) // 0,1 default 2 null 3 slurp 4 raw 5 raw+slurp
	short := g.chance(50)
	pickForm := func(sh, lo string) string {
		if short {
			return sh
		}
		return lo
	}
	var shorts string
	flag := func(sh, lo string) {
		if short && g.chance(60) {
			shorts += sh[1:]
		} else {
			add(pickForm(sh, lo))
		}
	}
	switch mode {
	case 2:
		flag("-n", "--null-input")
	case 3:
		flag("-s", "--slurp")
	case 4:
		flag("-R", "--raw-input")
	case 5:
		flag("-R", "--raw-input")
		flag("-s", "--slurp")
	}
	if g.chance(50) {
		flag("-c", "--compact-output")
	}
	switch g.r.Intn(6) {
	case 0:
		flag("-r", "--raw-output")
	case 1:
		flag("-j", "--join-output")
	case 2:
		add(g.pick([]string{"--raw-output0", "--nul-output"}))
	case 3:
		flag("-r", "--raw-output")
		flag("-j", "--join-output")
	}
	if shorts != "" {
		// combined short flags in random order
		rs := []rune(shorts)
		for i := len(rs) - 1; i > 0; i-- {
			j := g.r.Intn(i + 1)
			rs[i], rs[j] = rs[j], rs[i]
		}
		add("-" + string(rs))
	}
	prog := g.pick(modeProgs)
	if strings.Contains(prog, "$x") {
		switch g.r.Intn(3) {
		case 0:
			add("--arg", "x", g.pick([]string{"1", "a b", "", "é"}))
		case 1:
			add("--argjson", "x", g.pick([]string{"2", `{"k":[1,2]}`, `"s"`, "null", "1.5"}))
		default:
			add("--raw-file", "x", g.pick([]string{"t1.txt", "a.json", "empty.txt"}))
		}
	}
	if strings.Contains(prog, "$y") {
		add("--argjson", "y", g.pick([]string{"[]", "true"}))
	}
	var files []string
	pool := modeJSONFiles
	if mode >= 4 {
		pool = modeTextFiles
	}
	for n := g.r.Range(0, 3); n > 0; n-- {
		files = append(files, g.pick(pool))
	}
	if len(files) == 0 && mode != 2 {
		files = []string{g.pick(pool)} // no stdin in mode cases
	}
	// free order of flags and positionals, optional `--` before the remaining positionals
	for i := len(flags) - 1; i > 0; i-- {
		j := g.r.Intn(i + 1)
		flags[i], flags[j] = flags[j], flags[i]
	}
	pos := append([]string{prog}, files...)
	var argv []string
	fi, pi := 0, 0
	ddAt := -1
	if g.chance(20) {
		ddAt = g.r.Intn(len(pos) + 1)
	}
	ddDone := false
	for fi < len(flags) || pi < len(pos) {
		if pi == ddAt {
			ddDone = true
			// everything still pending must be positional: flush the flags first
			for ; fi < len(flags); fi++ {
				argv = append(argv, flags[fi]...)
			}
			argv = append(argv, "--")
			argv = append(argv, pos[pi:]...)
			pi = len(pos)
			break
		}
		if pi >= len(pos) || (fi < len(flags) && g.chance(50)) {
			argv = append(argv, flags[fi]...)
			fi++
		} else {
			argv = append(argv, pos[pi])
			pi++
		}
	}
	if ddAt == len(pos) && !ddDone {
		argv = append(argv, "--")
	}
	return argv
}

func (rn *runner) modeCases(g *gen, n int) {
	for _, av := range [][]string{
		{"-n", "1"}, {"-nr", "\"a\""}, {"-nj", "1,\"s\""}, {"-n", "--raw-output0", "\"a\",1"}, {"-s", ".", "a.json", "n.json"},
		{"-R", ".", "t1.txt", "t2.txt"}, {"-Rs", ".", "t1.txt", "t2.txt"}, {"-R", ".", "empty.txt"}, {"-R", ".", "nl.txt"}, {"-R", ".", "t3.txt"},
		{"-Rs", ".", "empty.txt"}, {"-s", ".", "arr.json"}, {"-c", "--arg", "x", "v", "[$x,.]", "--", "a.json"}, {"-nc", "--argjson", "x", "{\"k\":1}", "$x"},
		{"-rc", "--raw-file", "x", "t1.txt", "$x", "n.json"}, {"-cs", "length", "--", "a.json", "b.json", "n.json"}, {".", "arr.json"}, {"-n", "[.]"},
		{"-R", "-s", "-c", "length", "t1.txt"}, {"-rj", ".", "str.json", "n.json"},
		{"-Rc", ".", "crlf.txt"}, {"-Rc", "length", "crlf.txt", "cr.txt"}, {"-Rr", ".", "cr.txt", "crs.txt"}, {"-Rsc", ".", "crlf.txt", "cr.txt"},
		{"-c", "def f: 1;", "a.json", "n.json"}, {"-c", "", "a.json"}, {"-c", "# c", "a.json"}, {"-nc", "def f: 1;"}, {"-sc", "def f: 1; # c", "a.json", "n.json"},
	} {
		rn.modeCase(av)
	}
	for i := 0; i < n; i++ {
		rn.modeCase(g.modeArgv())
	}
}

func (rn *runner) modeReplay(ws []string) {
	for _, w := range ws {
		if strings.HasPrefix(w, "argv=") {
			av, _ := parseArgvText(w[5:])
			rn.modeCase(av)
			return
		}
	}
}
