//go:build verif

package main

// opt / ometa / bind cases: how fq arrives at the options `_main` works with (init.jq:188-195) and at the named
// arguments (init.jq:233-241), observed THROUGH a real `interp.Main` run: the program given on the command line prints
// `options` (resp. the variables) to stderr, so the observation is what a user's program sees.
//
//	opt   argv=… stdin=… world=… keys=<hexkey,…>   TAB  exit=<n> opts=<hexkey:V,…|none>
//	ometa same <argvA> <argvB> stdin=… world=… keys=…   TAB  <obsA> | <obsB>     two command lines a theorem equates
//	bind  argv=… stdin=… world=… names=<hex,…> prog=<hex>   TAB  exit=<n> vals=<hexname:K:hexpayload,…|none>
//	      K = a (string of the arg flag), j (JSON text), r (raw-file path), d (decode-file path), u (unrecognised value)

import (
	"encoding/json"
	"fmt"
	"sort"
	"strings"
)

// the option keys the opt cases observe (simple values only)
var optKeys = []string{"color", "color_output", "compact", "decode_group", "depth", "expr_eval_path", "expr_file", "expr_given",
	"filenames", "include_path", "join_output", "join_string", "monochrome_output", "null_input", "null_output", "raw_string",
	"repl", "show_help", "show_version", "slurp", "string_input", "unicode", "unicode_output", "value_output", "verbose", "unknownkey"}

const optsMarker = "verif_opts"

func optsProg() string {
	ks := make([]string, len(optKeys))
	for i, k := range optKeys {
		ks[i] = fmt.Sprintf("%q: $o[%q]", k, k)
	}
	return `(options as $o | {"` + optsMarker + `": {` + strings.Join(ks, ", ") + `}} | tojson | printerrln) | empty`
}

const bindMarker = "verif_bind"

var bindNames = []string{"a", "b"}

func bindProg() string {
	return `({"` + bindMarker + `": {a: $a, b: $b}} | tojson | printerrln) | empty`
}

func keysText(ks []string) string {
	out := make([]string, len(ks))
	for i, k := range ks {
		out[i] = hx(k)
	}
	return strings.Join(out, ",")
}

// markerLine finds the (identical) JSON lines the program printed; ok=false if they differ between inputs
func markerLine(stderr []byte, marker string) (map[string]any, bool, bool) {
	var first string
	for _, l := range strings.Split(string(stderr), "\n") {
		if strings.HasPrefix(l, `{"`+marker+`":`) {
			if first == "" {
				first = l
			} else if l != first {
				return nil, true, false
			}
		}
	}
	if first == "" {
		return nil, false, true
	}
	var m map[string]map[string]any
	if err := json.Unmarshal([]byte(first), &m); err != nil {
		return nil, true, false
	}
	return m[marker], true, true
}

func normJSON(v any) any {
	switch x := v.(type) {
	case float64:
		if x == float64(int(x)) {
			return int(x)
		}
	case []any:
		for i := range x {
			x[i] = normJSON(x[i])
		}
	case map[string]any:
		for k := range x {
			x[k] = normJSON(x[k])
		}
	}
	return v
}

func (rn *runner) optObs(argv []string, stdinKind string) string {
	r := runMain(argv, rn.p.files, stdinBytes(stdinKind))
	if r.panic != "" {
		return "panic:" + hx(r.panic)
	}
	m, found, same := markerLine(r.stderr, optsMarker)
	switch {
	case !same:
		return fmt.Sprintf("exit=%d opts=differ-between-inputs", r.exit)
	case !found:
		return fmt.Sprintf("exit=%d opts=none", r.exit)
	}
	for k := range m {
		m[k] = normJSON(m[k])
	}
	return fmt.Sprintf("exit=%d opts=%s", r.exit, encObj(m, optKeys))
}

func (rn *runner) optCase(argv []string, stdinKind string) {
	op := fmt.Sprintf("opt argv=%s stdin=%s world=%s keys=%s %s", argvText(argv, nil), stdinKind, rn.p.worldText(rn.f, argv), keysText(optKeys), note(argv))
	rn.o.Case(op, rn.optObs(argv, stdinKind))
	rn.o.Class(op)
	rn.o.Stat("opt_cases", 1)
}

func (rn *runner) ometaCase(a, b []string, stdinKind string) {
	op := fmt.Sprintf("ometa same %s %s stdin=%s world=%s keys=%s %s", argvText(a, nil), argvText(b, nil), stdinKind,
		rn.p.worldText(rn.f, cat(a, b)), keysText(optKeys), note(a))
	rn.o.Case(op, rn.optObs(a, stdinKind)+" | "+rn.optObs(b, stdinKind))
	rn.o.Class(op)
	rn.o.Stat("ometa_cases", 1)
}

// which source does a printed value come from (by the construction of the generator's values)
func classifyBound(v any) string {
	switch x := v.(type) {
	case string:
		switch {
		case strings.HasPrefix(x, "A"):
			return "a:" + hx(x)
		case strings.HasPrefix(x, "R:"):
			return "r:" + hx(strings.TrimSuffix(x[2:], "\n"))
		case strings.HasPrefix(x, "J"):
			return "j:" + hx(`"`+x+`"`)
		}
	case float64:
		return "j:" + hx(fmt.Sprintf("%d", int(x)))
	case map[string]any:
		if d, ok := x["d"].(string); ok {
			return "d:" + hx(d)
		}
	}
	return "u:-"
}

func (rn *runner) bindCase(argv []string) {
	r := runMain(argv, rn.p.files, stdinBytes("j"))
	obs := ""
	if r.panic != "" {
		obs = "panic:" + hx(r.panic)
	} else {
		m, found, same := markerLine(r.stderr, bindMarker)
		switch {
		case !same:
			obs = fmt.Sprintf("exit=%d vals=differ", r.exit)
		case !found:
			obs = fmt.Sprintf("exit=%d vals=none", r.exit)
		default:
			ks := make([]string, 0, len(m))
			for k := range m {
				ks = append(ks, k)
			}
			sort.Strings(ks)
			vs := make([]string, len(ks))
			for i, k := range ks {
				vs[i] = hx(k) + ":" + classifyBound(m[k])
			}
			obs = fmt.Sprintf("exit=%d vals=%s", r.exit, strings.Join(vs, ","))
		}
	}
	op := fmt.Sprintf("bind argv=%s stdin=j world=%s names=%s prog=%s %s", argvText(argv, nil), rn.p.worldText(rn.f, argv), keysText(bindNames), hx(bindProg()), note(argv))
	rn.o.Case(op, obs)
	rn.o.Class(op)
	rn.o.Stat("bind_cases", 1)
}

func (p *pool) addOptFiles() {
	p.files["p_opts.jq"] = vfile{data: []byte(optsProg())}
	p.fkind["p_opts.jq"] = "x"
	p.pfile["p_opts.jq"] = "okq"
	p.progs[optsProg()] = "okq"
	p.progs[bindProg()] = "okq"
	for _, n := range []string{"br1.txt", "br2.txt"} {
		p.files[n] = vfile{data: []byte("R:" + n + "\n")}
		p.fkind[n] = "u" // readable; not an input file of any case
	}
	for _, n := range []string{"bd1.json", "bd2.json"} {
		p.files[n] = vfile{data: []byte(`{"d":"` + n + `"}`)}
		p.fkind[n] = "j"
	}
}

// ---------------------------------------------------------------- generators

// a flag in one of its two forms: dedicated flag or `-o name=true`
func (g *gen) oForm(kv string) []string {
	k := g.formOf("option")
	if g.chance(40) {
		return []string{k + "=" + kv}
	}
	return []string{k, kv}
}

func (g *gen) valuedUnit(name, v string) []string {
	k := g.formOf(name)
	if g.chance(40) {
		return []string{k + "=" + v}
	}
	return []string{k, v}
}

var boolValues = []string{"true", "false", "1", "0", "yes", "2"}

// optUnits: flags that feed the option merge, in both forms, repeated and conflicting
func (g *gen) optUnit() []string {
	bools := g.optsWhere(func(o optEntry) bool { return o.pureBool() && o.name != "show_version" && o.name != "repl" })
	switch g.weighted([]int{25, 25, 10, 8, 8, 6, 6, 4, 4, 4}) {
	case 0: // dedicated boolean flag
		return []string{g.pick(bools[g.r.Intn(len(bools))].forms())}
	case 1: // the same through -o, any boolean text
		return g.oForm(bools[g.r.Intn(len(bools))].name + "=" + g.pick(boolValues))
	case 2:
		return g.valuedUnit("decode_group", g.pick([]string{"probe", "json", "mp3"}))
	case 3:
		return g.oForm("decode_group=" + g.pick([]string{"probe", "json", "mp3"}))
	case 4:
		return g.oForm(g.pick([]string{"depth=3", "depth=x", "depth=-1", "verbose=true", "unknownkey=1", "unknownkey=abc", "unknownkey=true",
			"unknownkey=null", "compact=@rf_miss", "depth=@rf_miss", "unknownkey=@rf_miss", "decode_group=@rf_miss", "color=true", "unicode=true"}))
	case 5:
		return g.valuedUnit("include_path", g.pick([]string{"dir1", "rf_dir"}))
	case 6:
		return g.oForm(g.pick([]string{"include_path=dir1", `filenames=["a.json"]`, `filenames=["n.json","a.json"]`, "filenames=[]", "filenames=x",
			"expr_given=true", "expr_eval_path=zz", "null_input=false", "repl=false"}))
	case 7:
		return []string{g.pick([]string{"-i", "--repl"})}
	case 8:
		return g.oForm(g.pick([]string{"repl=true", "show_help=false", "show_version=false", "show_help=formats"}))
	default:
		return []string{g.pick([]string{"-cr", "-sn", "-jC", "-MV", "-nR"})}
	}
}

func (g *gen) optArgv() (argv []string, stdin string) {
	var units [][]string
	for n := g.r.Range(0, 5); n > 0; n-- {
		units = append(units, g.optUnit())
	}
	// the program: positional, -f, or -o expr_file=
	progFirst := true
	switch g.weighted([]int{70, 15, 15}) {
	case 1:
		units = append(units, g.valuedUnit("expr_file", "p_opts.jq"))
		progFirst = false
	case 2:
		units = append(units, g.oForm("expr_file=p_opts.jq"))
		progFirst = false
	}
	for i := len(units) - 1; i > 0; i-- {
		j := g.r.Intn(i + 1)
		units[i], units[j] = units[j], units[i]
	}
	var pos []string
	if progFirst {
		pos = append(pos, optsProg())
	}
	for n := g.weighted([]int{25, 50, 25}); n > 0; n-- {
		pos = append(pos, g.pick([]string{"a.json", "b.json", "n.json", "a.json", "miss1"}))
	}
	// positionals keep their order, interleaved with the flag units
	for len(units) > 0 || len(pos) > 0 {
		if len(pos) == 0 || (len(units) > 0 && g.chance(60)) {
			argv = append(argv, units[0]...)
			units = units[1:]
		} else {
			argv = append(argv, pos[0])
			pos = pos[1:]
		}
	}
	return argv, g.pick([]string{"j", "n"})
}

// two command lines the merge laws equate
func (g *gen) ometaPair() (a, b []string) {
	pre, suf := [][]string{}, [][]string{}
	for n := g.r.Range(0, 2); n > 0; n-- {
		pre = append(pre, g.optUnit())
	}
	for n := g.r.Range(0, 2); n > 0; n-- {
		suf = append(suf, g.optUnit())
	}
	flat := func(us [][]string) []string { return cat(us...) }
	tail := []string{optsProg(), "a.json"}
	bools := g.optsWhere(func(o optEntry) bool { return o.pureBool() && o.name != "show_version" && o.name != "repl" })
	mentions := func(us []string, name string) bool {
		for _, t := range us {
			if strings.Contains(t, name+"=") {
				return true
			}
		}
		return false
	}
	switch g.r.Intn(4) {
	case 0: // flag_eq_option: dedicated flag ≡ -o name=true, when no other -o names it
		o := bools[g.r.Intn(len(bools))]
		if mentions(cat(flat(pre), flat(suf)), o.name) {
			pre, suf = nil, nil
		}
		return cat(flat(pre), []string{g.pick(o.forms())}, flat(suf), tail), cat(flat(pre), g.oForm(o.name+"=true"), flat(suf), tail)
	case 1: // later -o of a key wins: `-o k=v1 … -o k=v2` ≡ `… -o k=v2`
		o := bools[g.r.Intn(len(bools))]
		v1, v2 := g.pick(boolValues), g.pick([]string{"true", "false", "1", "0"})
		if mentions(flat(suf), o.name) {
			suf = nil
		}
		return cat(flat(pre), g.oForm(o.name+"="+v1), flat(suf), g.oForm(o.name+"="+v2), tail), cat(flat(pre), flat(suf), g.oForm(o.name+"="+v2), tail)
	case 2: // -o beats the dedicated flag wherever it stands
		o := bools[g.r.Intn(len(bools))]
		v := g.pick([]string{"true", "false", "0", "1"})
		if mentions(cat(flat(pre), flat(suf)), o.name) {
			pre, suf = nil, nil
		}
		return cat(flat(pre), []string{g.pick(o.forms())}, g.oForm(o.name+"="+v), flat(suf), tail), cat(flat(pre), g.oForm(o.name+"="+v), flat(suf), []string{g.pick(o.forms())}, tail)
	default: // later value flag wins, either form
		v1, v2 := g.pick([]string{"probe", "json", "mp3"}), g.pick([]string{"probe", "json"})
		if mentions(cat(flat(pre), flat(suf)), "decode_group") {
			pre, suf = nil, nil
		}
		noD := func(us [][]string) []string {
			var out []string
			for _, u := range us {
				if len(u) > 0 && (u[0] == "-d" || strings.HasPrefix(u[0], "--decode") || strings.HasPrefix(u[0], "-d=")) {
					continue
				}
				out = append(out, u...)
			}
			return out
		}
		return cat(noD(pre), g.valuedUnit("decode_group", v1), noD(suf), g.valuedUnit("decode_group", v2), tail), cat(noD(pre), noD(suf), g.valuedUnit("decode_group", v2), tail)
	}
}

// named arguments: every kind, repeated and conflicting; both names are always bound at least once
func (g *gen) bindArgv() []string {
	var units [][]string
	n := 0
	one := func(name string) []string {
		n++
		switch g.weighted([]int{35, 30, 16, 17, 2}) {
		case 0:
			return []string{g.formOf("arg"), name, fmt.Sprintf("A%d", n)}
		case 1:
			if g.chance(4) {
				return []string{g.formOf("argjson"), name, g.pick([]string{"{", "nope"})}
			}
			if g.chance(30) {
				return []string{g.formOf("argjson"), name, fmt.Sprintf(`"J%d"`, n)}
			}
			return []string{g.formOf("argjson"), name, fmt.Sprintf("%d", 100+n)}
		case 2:
			return []string{g.formOf("raw_file"), name, g.pick([]string{"br1.txt", "br2.txt", "br1.txt", "br2.txt", "br1.txt", "br2.txt", "rf_miss"})}
		case 3:
			return []string{g.formOf("argdecode"), name, g.pick([]string{"bd1.json", "bd2.json", "bd1.json", "bd2.json", "bd1.json", "bd2.json", "bd1.json", "rf_miss", "rf.bin"})}
		default:
			return []string{"--slurpfile", name, "br1.txt"} // not an fq flag: argument error
		}
	}
	for _, name := range bindNames {
		for k := g.r.Range(1, 3); k > 0; k-- {
			units = append(units, one(name))
		}
	}
	if g.chance(10) {
		units = append(units, g.oForm(fmt.Sprintf(`arg=[["a","A%d"],["b","A%d"]]`, 50+n, 60+n)))
	}
	if g.chance(5) {
		units = append(units, []string{g.pick([]string{"-h", "--version", "-v"})})
	}
	for i := len(units) - 1; i > 0; i-- {
		j := g.r.Intn(i + 1)
		units[i], units[j] = units[j], units[i]
	}
	argv := []string{"-n"}
	argv = append(argv, cat(units...)...)
	if g.chance(4) {
		return append(argv, bindProg(), g.formOf("arg"), "a") // missing value, last
	}
	return append(argv, bindProg())
}
