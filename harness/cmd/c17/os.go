//go:build verif

package main

import (
	"bytes"
	"context"
	"errors"
	"io"
	"io/fs"

	_ "github.com/wader/fq/format/all"
	"github.com/wader/fq/internal/verifharness/hlib"
	"github.com/wader/fq/pkg/interp"
)

// Virtual OS for an in-process `interp.Main`, modelled on internal/script's CaseRun (the OS
// fq's own CLI tests use): virtual files, captured stdout/stderr, exit code from the error
// returned by Main exactly as pkg/cli/cli.go:273-280 maps it.

// distinctive io error texts so that stderr lines can be classified without depending on wording
const (
	errTextMissing = "verif-io-missing"
	errTextIsDir   = "verif-io-isdir"
)

type vfile struct {
	data  []byte
	isDir bool
	mode  fs.FileMode // 0 = regular; fs.ModeNamedPipe / fs.ModeCharDevice = not seekable
}

// pipeFile is what os.Open returns for a fifo or a character device: it HAS a Seek method (every *os.File
// does) but seeking fails; reading works.
type pipeFile struct {
	r    *bytes.Reader
	name string
	mode fs.FileMode
}

func (p *pipeFile) Stat() (fs.FileInfo, error) {
	return interp.FixedFileInfo{FName: p.name, FMode: p.mode}, nil
}
func (p *pipeFile) Read(b []byte) (int, error) { return p.r.Read(b) }
func (p *pipeFile) Seek(int64, int) (int64, error) {
	return 0, &fs.PathError{Op: "seek", Path: p.name, Err: errors.New("illegal seek")}
}
func (p *pipeFile) Close() error { return nil }

type vfs map[string]vfile

type dirFile struct{ name string }

func (d dirFile) Stat() (fs.FileInfo, error) {
	return interp.FixedFileInfo{FName: d.name, FMode: fs.ModeDir, FIsDir: true}, nil
}
func (d dirFile) Read([]byte) (int, error) {
	return 0, &fs.PathError{Op: "read", Path: d.name, Err: errors.New(errTextIsDir)}
}
func (dirFile) Close() error { return nil }

func (v vfs) Open(name string) (fs.File, error) {
	f, ok := v[name]
	if !ok {
		return nil, &fs.PathError{Op: "open", Path: name, Err: errors.New(errTextMissing)}
	}
	if f.isDir {
		return dirFile{name}, nil
	}
	if f.mode != 0 {
		return &pipeFile{r: bytes.NewReader(f.data), name: name, mode: f.mode}, nil
	}
	// like internal/script: a seekable reader, mode 0 (regular)
	return interp.FileReader{
		R:        io.NewSectionReader(bytes.NewReader(f.data), 0, int64(len(f.data))),
		FileInfo: interp.FixedFileInfo{FName: name, FSize: int64(len(f.data))},
	}, nil
}

type vin struct {
	interp.FileReader
}

func (vin) IsTerminal() bool { return false }
func (vin) Size() (int, int) { return 135, 25 }

type vout struct{ io.Writer }

func (vout) Size() (int, int) { return 135, 25 }
func (vout) IsTerminal() bool  { return false }

type vos struct {
	args   []string
	files  vfs
	fsys   fs.FS  // non-nil: the file system to use instead of `files` (real.go: cmd/fq's own os.Open file system)
	config string // ConfigDir, "/config" if empty
	stdin  []byte
	stdout *bytes.Buffer
	stderr *bytes.Buffer
}

func (o *vos) Platform() interp.Platform {
	return interp.Platform{OS: "verifos", Arch: "verifarch", GoVersion: "verifgo"}
}
func (o *vos) Stdin() interp.Input {
	return vin{FileReader: interp.FileReader{R: bytes.NewReader(o.stdin), FileInfo: interp.FixedFileInfo{FName: "stdin", FMode: fs.ModeIrregular}}}
}
func (o *vos) Stdout() interp.Output        { return vout{o.stdout} }
func (o *vos) Stderr() interp.Output        { return vout{o.stderr} }
func (o *vos) InterruptChan() chan struct{} { return nil }
func (o *vos) Environ() []string {
	return []string{"NO_COLOR=1", "NO_DECODE_PROGRESS=1", "CONFIG_DIR=/config"}
}
func (o *vos) Args() []string                                   { return o.args }
func (o *vos) ConfigDir() (string, error) {
	if o.config != "" {
		return o.config, nil
	}
	return "/config", nil
}
func (o *vos) FS() fs.FS {
	if o.fsys != nil {
		return o.fsys
	}
	return o.files
}
func (o *vos) History() ([]string, error)                       { return nil, nil }
func (o *vos) Readline(opts interp.ReadlineOpts) (string, error) { return "", io.EOF }

type runResult struct {
	exit   int
	stdout []byte
	stderr []byte
	panic  string
}

// runMain = pkg/cli/cli.go Main with the virtual OS: exit code 0 on nil, Exiter's code, else 1.
func runMain(argv []string, files vfs, stdin []byte) runResult {
	return runMainOn(argv, files, nil, "", stdin)
}

// runMainOn: fsys != nil replaces the virtual files (everything else of the OS stays virtual: stdin, stdout, stderr,
// environment, terminal)
func runMainOn(argv []string, files vfs, fsys fs.FS, config string, stdin []byte) runResult {
	o := &vos{args: append([]string{"fq"}, argv...), files: files, fsys: fsys, config: config, stdin: stdin, stdout: &bytes.Buffer{}, stderr: &bytes.Buffer{}}
	var res runResult
	msg, panicked := hlib.Catch(func() string {
		i, err := interp.New(o, interp.DefaultRegistry)
		if err != nil {
			res.exit = 1
			return ""
		}
		defer i.Stop()
		if err := i.Main(context.Background(), o.Stdout(), "verif"); err != nil {
			if ex, ok := err.(interp.Exiter); ok {
				res.exit = ex.ExitCode()
			} else {
				res.exit = 1
			}
			return ""
		}
		res.exit = 0
		return ""
	})
	if panicked {
		res.panic = msg
		res.exit = -1
	}
	res.stdout = o.stdout.Bytes()
	res.stderr = o.stderr.Bytes()
	return res
}

// evalJQ evaluates a jq expression inside fq's interpreter (not through the CLI) and returns
// the outputs; used to take the option table / exit codes / `_args_parse` results from fq itself.
func evalJQ(expr string, input any) ([]any, error) {
	o := &vos{args: []string{"fq"}, files: vfs{}, stdout: &bytes.Buffer{}, stderr: &bytes.Buffer{}}
	i, err := interp.New(o, interp.DefaultRegistry)
	if err != nil {
		return nil, err
	}
	defer i.Stop()
	it, err := i.Eval(context.Background(), input, expr, interp.EvalOpts{})
	if err != nil {
		return nil, err
	}
	var vs []any
	for {
		v, ok := it.Next()
		if !ok {
			break
		}
		if e, ok := v.(error); ok {
			return vs, e
		}
		vs = append(vs, v)
	}
	return vs, nil
}

var sharedInterp *interp.Interp

func shared() *interp.Interp {
	if sharedInterp == nil {
		o := &vos{args: []string{"fq"}, files: vfs{}, stdout: &bytes.Buffer{}, stderr: &bytes.Buffer{}}
		i, err := interp.New(o, interp.DefaultRegistry)
		if err != nil {
			panic(err)
		}
		sharedInterp = i
	}
	return sharedInterp
}

// evalJQShared: like evalJQ on one long-lived interpreter (pure expressions only)
func evalJQShared(expr string, input any) ([]any, error) {
	it, err := shared().Eval(context.Background(), input, expr, interp.EvalOpts{})
	if err != nil {
		return nil, err
	}
	var vs []any
	for {
		v, ok := it.Next()
		if !ok {
			break
		}
		if e, ok := v.(error); ok {
			return vs, e
		}
		vs = append(vs, v)
	}
	return vs, nil
}

// evalJQCompileOnly parses and compiles a program with fq's builtins, without running it
func evalJQCompileOnly(prog string) (bool, error) {
	_, err := shared().Eval(context.Background(), nil, prog, interp.EvalOpts{})
	return err == nil, err
}
