//go:build verif

package main

// raw cases: raw input mode (-R / --raw-input, init.jq:63-105) at BYTE level through the real interp.Main.
//
//	raw form=<n> files=<spec;…|.> stdin=<hex>   TAB   R=<exit>/<vals>/<errs> Rs=<exit>/<vals>/<errs>
//
// spec = f<hex> regular file, p<hex> fifo (not seekable), m missing, d directory; the files are named r<i>.txt by
// position; no file = the text comes from stdin.  Two runs on the same inputs: `R` with raw input, `Rs` with raw input
// and slurp.  The program frames every input value as <utf8bytelength>:<bytes> and the output is joined (-j), so the
// harness reads back the exact byte strings the program saw — no JSON escaping, no line separator that a value
// containing \n, \r or NUL could imitate.  The driver compares both with Cli.rawLinesG / rawSlurpG over bytes and
// judges, on the observations alone: the values of -R contain no \n and, joined with \n (plus the final \n of the
// text), reproduce the string of -Rs, which is the concatenation of the readable inputs (Props.C17.raw_judge_iff:
// exactly jq's lines satisfy that).

import (
	"bytes"
	"fmt"
	"io/fs"
	"strconv"
	"strings"
	"unicode/utf8"
)

const rawFrameProg = `"\(utf8bytelength):", .`

type rawSpec struct {
	kind byte // f p m d
	data []byte
}

func rawName(i int) string { return fmt.Sprintf("r%d.txt", i) }

// the spellings of "raw input" (and, for the Rs run, "slurp") the cases go through
const rawForms = 6

func rawArgv(form int, slurp bool, files []string) []string {
	var pre, post []string
	switch form {
	case 0:
		pre = []string{"-R", "-j"}
		if slurp {
			pre = []string{"-R", "-s", "-j"}
		}
	case 1:
		pre = []string{"--raw-input", "--join-output"}
		if slurp {
			pre = []string{"--slurp", "--raw-input", "--join-output"}
		}
	case 2:
		pre = []string{"-Rj"}
		if slurp {
			pre = []string{"-Rsj"}
		}
	case 3:
		pre = []string{"-jR"}
		if slurp {
			pre = []string{"-jsR"}
		}
	case 4: // flags after the files
		pre = []string{"-j"}
		post = []string{"-R"}
		if slurp {
			post = []string{"-R", "--slurp"}
		}
	default: // as -o options
		pre = []string{"-j", "-o", "string_input=true"}
		if slurp {
			pre = []string{"-j", "-o", "string_input=true", "-o", "slurp=true"}
		}
	}
	av := append(append([]string{}, pre...), rawFrameProg)
	av = append(av, files...)
	return append(av, post...)
}

// readFrames parses <decimal length>:<bytes> …; ok=false if the stream is not of that shape
func readFrames(b []byte) (vals [][]byte, ok bool) {
	for len(b) > 0 {
		i := bytes.IndexByte(b, ':')
		if i <= 0 || i > 12 {
			return nil, false
		}
		n, err := strconv.Atoi(string(b[:i]))
		if err != nil || n < 0 || i+1+n > len(b) {
			return nil, false
		}
		vals = append(vals, b[i+1:i+1+n])
		b = b[i+1+n:]
	}
	return vals, true
}

func rawObs(r runResult, nfiles int) string {
	if r.panic != "" {
		return "0/?/other"
	}
	vals, ok := readFrames(r.stdout)
	vs := "?"
	if ok {
		if len(vals) == 0 {
			vs = "."
		} else {
			hs := make([]string, len(vals))
			for i, v := range vals {
				hs[i] = hx(string(v))
			}
			vs = strings.Join(hs, ",")
		}
	}
	var errs []string
	for _, l := range strings.Split(string(r.stderr), "\n") {
		if l == "" {
			continue
		}
		cls := "other"
		for i := 0; i < nfiles; i++ {
			if strings.HasPrefix(l, "error: "+rawName(i)+": ") {
				cls = fmt.Sprintf("io:%d", i)
			}
		}
		errs = append(errs, cls)
	}
	e := "-"
	if len(errs) > 0 {
		e = strings.Join(errs, ",")
	}
	return fmt.Sprintf("%d/%s/%s", r.exit, vs, e)
}

func (rn *runner) rawCase(form int, specs []rawSpec, stdin []byte) {
	files := vfs{}
	var names, texts []string
	text := stdin
	if len(specs) > 0 {
		text = nil
	}
	for i, sp := range specs {
		n := rawName(i)
		names = append(names, n)
		switch sp.kind {
		case 'f':
			files[n] = vfile{data: sp.data}
			text = append(text, sp.data...)
			texts = append(texts, "f"+hx(string(sp.data)))
		case 'p':
			files[n] = vfile{data: sp.data, mode: fs.ModeNamedPipe}
			text = append(text, sp.data...)
			texts = append(texts, "p"+hx(string(sp.data)))
		case 'd':
			files[n] = vfile{isDir: true}
			texts = append(texts, "d")
		default:
			texts = append(texts, "m")
		}
	}
	fl := "."
	if len(texts) > 0 {
		fl = strings.Join(texts, ";")
	}
	r := runMain(rawArgv(form, false, names), files, stdin)
	rs := runMain(rawArgv(form, true, names), files, stdin)
	op := fmt.Sprintf("raw form=%d files=%s stdin=%s %s", form, fl, hx(string(stdin)), note(rawArgv(form, false, names)))
	rn.o.Case(op, "R="+rawObs(r, len(specs))+" Rs="+rawObs(rs, len(specs)))
	rn.o.Stat("runs_of_main", 2)
	rn.o.Stat("raw_cases", 1)
	if bytes.IndexByte(text, '\r') >= 0 {
		rn.o.Stat("raw_cases_with_cr", 1)
	}
	if !utf8.Valid(text) {
		rn.o.Stat("raw_cases_invalid_utf8", 1)
	}
	if bytes.IndexByte(text, 0) >= 0 {
		rn.o.Stat("raw_cases_with_nul", 1)
	}
	if len(text) > 0 {
		rn.o.Class(op)
	}
}

// hand-written texts: every line-ending shape the property's "behaves as in jq" has to survive
var rawFixedTexts = []string{
	"", "\n", "\r", "\r\n", "\n\r", "a", "a\n", "a\r", "a\r\n", "a\r\nb\r\n", "a\r\nb", "a\r\nb\r", "a\n\rb", "\r\r\n", "\r\n\r\n", "\n\n", "\n\n\n",
	"a\n\nb", "a\n\nb\n\n", " \n\t\n", "a\x00b\n\x00\n", "\x00", "\xff\n\xfe\r\n", "\xc3\n\xa9\n", "é\r\nü\r", "a b c\n", "a\u0085b\n", "a\x0bb\x0cc\n",
	"\xef\xbb\xbfa\r\n", "a\rb\rc", "\n\r\n\r", "x\r\n\r\n\r\ny",
}

// texts split over several files: a line continues in the next file, \r and \n in different files, a UTF-8 sequence
// cut by the file boundary
var rawFixedChunks = [][]string{
	{"a\nb", "c\n"}, {"a\r", "\nb"}, {"a\r\n", "b\r\n"}, {"a", "", "b\n"}, {"", ""}, {"\n", "\n"}, {"a\r\n", ""}, {"\xc3", "\xa9\n"}, {"x\r", "\r", "\n"},
	{"a\n", "\r"}, {"\r", "a"},
}

func (rn *runner) rawFixed() {
	for i, t := range rawFixedTexts {
		rn.rawCase(i%rawForms, []rawSpec{{kind: 'f', data: []byte(t)}}, nil)
	}
	for i, cs := range rawFixedChunks {
		var sp []rawSpec
		for _, c := range cs {
			sp = append(sp, rawSpec{kind: 'f', data: []byte(c)})
		}
		rn.rawCase(i%rawForms, sp, nil)
	}
	// from stdin, from a fifo, with unreadable inputs between the readable ones
	rn.rawCase(0, nil, []byte("a\r\nb\r\n"))
	rn.rawCase(2, nil, []byte("x\r"))
	rn.rawCase(1, nil, nil)
	rn.rawCase(0, []rawSpec{{kind: 'p', data: []byte("a\r\nb")}, {kind: 'f', data: []byte("\r\nc\r\n")}}, nil)
	rn.rawCase(3, []rawSpec{{kind: 'm'}, {kind: 'f', data: []byte("a\r\n")}, {kind: 'd'}, {kind: 'f', data: []byte("b\r")}}, nil)
	rn.rawCase(4, []rawSpec{{kind: 'd'}}, nil)
	rn.rawCase(5, []rawSpec{{kind: 'f', data: []byte("a\r\n\r\n")}, {kind: 'm'}}, nil)
}

var rawPieces = []string{"a", "b", "xyz", " ", "\t", "\r", "\r", "\n", "\n", "\r\n", "\r\n", "\n\n", "\n\r", "\r\r", "\x00", "\xff", "\xc3", "\xa9", "é", "€", "\U0001f600",
	" ", "\u0085", "\x0b", "\x0c", "\x1a", "\"", "\\", "\\n", "0", "7:", ":"}

func (g *gen) rawText() []byte {
	var b []byte
	for n := g.r.Range(0, 9); n > 0; n-- {
		b = append(b, g.pick(rawPieces)...)
	}
	return b
}

func (rn *runner) rawRandom(g *gen, n int) {
	for i := 0; i < n; i++ {
		var sp []rawSpec
		for k := g.weighted([]int{8, 40, 30, 15, 7}); k > 0; k-- {
			switch {
			case g.chance(6):
				sp = append(sp, rawSpec{kind: 'm'})
			case g.chance(4):
				sp = append(sp, rawSpec{kind: 'd'})
			case g.chance(12):
				sp = append(sp, rawSpec{kind: 'p', data: g.rawText()})
			default:
				sp = append(sp, rawSpec{kind: 'f', data: g.rawText()})
			}
		}
		rn.rawCase(g.r.Intn(rawForms), sp, g.rawText())
	}
}

func parseRawSpecs(s string) ([]rawSpec, bool) {
	if s == "." {
		return nil, true
	}
	var out []rawSpec
	for _, it := range strings.Split(s, ";") {
		if it == "" {
			return nil, false
		}
		switch it[0] {
		case 'm', 'd':
			out = append(out, rawSpec{kind: it[0]})
		case 'f', 'p':
			out = append(out, rawSpec{kind: it[0], data: []byte(unhx(it[1:]))})
		default:
			return nil, false
		}
	}
	return out, true
}

func (rn *runner) rawReplay(form, files, stdin string) {
	f, err := strconv.Atoi(form)
	sp, ok := parseRawSpecs(files)
	if err != nil || !ok {
		rn.o.Case("raw form="+form+" files="+files+" stdin="+stdin, "unreadable-replay-line")
		return
	}
	rn.rawCase(f, sp, []byte(unhx(stdin)))
}
