//go:build verif

package main

// The REAL file system family: the same `run` cases (exit-status classes, their precedence, "every failed input is
// reported", independence relative to the single runs) with interp.Main running on cmd/fq's own file system
// ((*stdOS).FS() of pkg/cli: os.Open behind fs.FS) against a real directory tree on disk.  The virtual OS of os.go
// decides by construction what a directory or a device is; here the operating system does: a directory opens with
// os.Open and its descriptor is SEEKABLE (ext4 / overlayfs answer SEEK_END with 2^63-1), /dev/null is a seekable
// character device, a symlink to a directory is a directory, a procfs file is "regular" with stat size 0 and refuses SEEK_END.
//
// The tree is created under the check's own scratch directory ($VERIF_WORK, i.e. /verif/.build/run/…; never /tmp),
// the process changes into it so that the case lines carry relative names (they replay anywhere), and it is removed
// at the end.  For every name of a case line the harness MEASURES what os.Open / Stat / Seek(0,SeekEnd) / ReadAll
// say (the 7th field of a world entry); the driver checks the stated kind against Cli.openModel on these facts.

import (
	"errors"
	"fmt"
	"io"
	"io/fs"
	"os"
	"path/filepath"
	"sort"
	"strings"

	"github.com/wader/fq/pkg/cli"
)

type realTree struct {
	root    string
	oldwd   string
	only    []string // names that exist only in this family (kinds the virtual OS cannot have)
	core    []string // the kinds of the exhaustive matrix
	extra   []string
	skipped []string
	chmods  []string
}

func scratchBase() string {
	if w := os.Getenv("VERIF_WORK"); w != "" {
		return w
	}
	d := os.Getenv("VERIF_DIR")
	if d == "" {
		d = "/verif"
	}
	return filepath.Join(d, ".build", fmt.Sprintf("c17real_p%d", os.Getpid()))
}

// measure: what the calls of binary.go `_open` would see for this path
func measure(name string) string {
	f, err := os.Open(name)
	if err != nil {
		return "0.0.0.0.e.e"
	}
	defer f.Close()
	fi, err := f.Stat()
	if err != nil {
		return "0.0.0.0.e.e"
	}
	b := func(x bool) string {
		if x {
			return "1"
		}
		return "0"
	}
	se := "e"
	if e, err := f.Seek(0, io.SeekEnd); err == nil {
		se = fmt.Sprint(uint64(e))
	}
	ra := "e"
	if _, err := f.Seek(0, io.SeekStart); err == nil || !fi.Mode().IsRegular() {
		if fi.Mode()&fs.ModeNamedPipe == 0 { // never block on a fifo
			if data, err := io.ReadAll(io.LimitReader(f, 1<<22)); err == nil {
				ra = fmt.Sprint(len(data))
			}
		}
	}
	var rs io.ReadSeeker = f // every *os.File is one: binary.go:258
	return fmt.Sprintf("1.%s.%s.%d.%s.%s", b(fi.Mode().IsRegular()), b(rs != nil), fi.Size(), se, ra)
}

// kindOfMeasure mirrors Cli.openModel on the measured facts, only to decide whether an intended kind is available in
// this environment (the driver re-checks with the Lean function)
func openOutcome(m string) string {
	p := strings.Split(m, ".")
	switch {
	case p[0] == "0":
		return "err"
	case p[1] == "1" && p[2] == "1" && p[3] != "0": // regular, positive size, a ReadSeeker: used in place (binary.go:258)
		if p[4] == "e" {
			return "ghost"
		}
		return "data"
	case p[5] == "e":
		return "err"
	case p[5] == "0":
		return "empty"
	}
	return "data"
}

func newRealTree(p *pool) *realTree {
	t := &realTree{root: filepath.Join(scratchBase(), "c17real")}
	must := func(err error) {
		if err != nil {
			panic(fmt.Sprintf("real tree under %s: %v", t.root, err))
		}
	}
	t.cleanup()
	must(os.MkdirAll(t.root, 0o755))
	wd, err := os.Getwd()
	must(err)
	t.oldwd = wd
	must(os.Chdir(t.root))
	// 1. the pool of the virtual OS, on disk: regular files and directories (a fifo would block: those names do not exist
	//    here and are therefore `missing`, also for the model)
	names := make([]string, 0, len(p.files))
	for n := range p.files {
		names = append(names, n)
	}
	sort.Strings(names)
	for _, n := range names {
		f := p.files[n]
		switch {
		case n == ".":
		case f.isDir:
			must(os.MkdirAll(n, 0o755))
		case f.mode != 0:
			delete(p.files, n)
			delete(p.fkind, n)
			delete(p.pfile, n)
		default:
			must(os.WriteFile(n, f.data, 0o644))
		}
	}
	// 2. what only a real file system has.  intended kind -> registered only if the measured facts give that outcome
	add := func(name, kind string, data []byte) bool {
		want := map[string]string{"j": "data", "n": "data", "b": "data", "u": "data", "e": "empty", "d": "err", "m": "err", "o": "err", "g": "ghost"}[kind]
		if got := openOutcome(measure(name)); got != want {
			t.skipped = append(t.skipped, fmt.Sprintf("%s(%s:%s)", name, kind, got))
			return false
		}
		p.fkind[name] = kind
		if data != nil {
			p.files[name] = vfile{data: data}
		}
		t.only = append(t.only, name)
		return true
	}
	must(os.MkdirAll("rdir/sub", 0o755))
	must(os.WriteFile("rdir/in.json", []byte("{\"in\":1}\n"), 0o644))
	must(os.WriteFile("rempty", nil, 0o644))
	must(os.Symlink("rdir", "rlnkdir"))
	must(os.Symlink("a.json", "rlnk.json"))
	must(os.Symlink("rloop", "rloop"))
	must(os.Symlink("rnowhere", "rdangling"))
	must(os.WriteFile("r000.json", []byte("{\"a\":0}\n"), 0o644))
	must(os.Chmod("r000.json", 0))
	must(os.Mkdir("rd000", 0o755))
	must(os.Chmod("rd000", 0))
	t.chmods = []string{"r000.json", "rd000"}
	add("rdir", "d", nil)
	add("rdir/", "d", nil)
	add("rdir/sub", "d", nil)
	add("rdir/in.json", "j", []byte("{\"in\":1}\n"))
	add("./a.json", "j", p.files["a.json"].data)
	add("rempty", "e", []byte{})
	add("rlnkdir", "d", nil)
	add("rlnk.json", "j", p.files["a.json"].data)
	add("rloop", "o", nil)
	add("rdangling", "m", nil)
	add("a.json/x", "o", nil)
	add("rmiss", "m", nil)
	add("rdir/miss", "m", nil)
	// mode 000: unreadable unless the process may override permissions (root): then the file is ordinary and the case
	// is skipped; the directory is an error either way (EACCES, or EISDIR when it can be opened)
	add("r000.json", "o", nil)
	if openOutcome(measure("rd000")) == "err" {
		if measure("rd000")[0] == '0' {
			add("rd000", "o", nil)
		} else {
			add("rd000", "d", nil)
		}
	}
	add("/dev/null", "e", []byte{})
	// a procfs seq file: regular by Stat, size 0, SEEK_END refused.  Finding procfs-input-silently-dropped (fixed by /repo
	// 013f25c7): it was skipped without a report; now it is read into memory — text no probed format accepts
	add("/proc/version", "u", nil)
	t.core = nil
	for _, n := range []string{"a.json", "n.json", "u1.bin", "rmiss", "rdir", "rempty", "rlnkdir", "/dev/null"} {
		if _, ok := p.fkind[n]; ok || n == "rmiss" {
			t.core = append(t.core, n)
		}
	}
	for _, n := range []string{"r000.json", "rd000", "rloop", "rdangling", "a.json/x", "rdir/in.json", "rlnk.json", "rdir/", "img.png", "/proc/version"} {
		if _, ok := p.fkind[n]; ok {
			t.extra = append(t.extra, n)
		}
	}
	return t
}

func (t *realTree) cleanup() {
	if t.oldwd != "" {
		_ = os.Chdir(t.oldwd)
	}
	for _, n := range []string{"r000.json", "rd000"} {
		_ = os.Chmod(filepath.Join(t.root, n), 0o755)
	}
	_ = os.RemoveAll(t.root)
}

var theRealRunner *runner

// the real runner (created on first use, its tree removed by main): its own pool — what exists on disk —, interp.Main
// on cmd/fq's file system
func (rn *runner) realRunner() *runner {
	if theRealRunner != nil {
		return theRealRunner
	}
	p := newPool()
	p.addOptFiles()
	p.real = true
	t := newRealTree(p)
	rr := &runner{o: rn.o, f: rn.f, p: p, real: t}
	for _, s := range t.skipped {
		rr.o.Sample("real file system: kind not available here, skipped: " + s)
	}
	rr.o.Stat("real_kinds_skipped", len(t.skipped))
	rr.o.Stat("real_kinds", len(t.core)+len(t.extra))
	theRealRunner = rr
	return rr
}

func cleanupRealTree() {
	if theRealRunner != nil {
		theRealRunner.real.cleanup()
	}
}

func (rn *runner) mainRun(argv []string, stdin []byte) runResult {
	if rn.real != nil {
		return runMainOn(argv, nil, cli.VerifC17StdOSFS(), filepath.Join(rn.real.root, "noconfig"), stdin)
	}
	return runMain(argv, rn.p.files, stdin)
}

func marksFrom(argv []string, from int) []bool {
	m := make([]bool, len(argv))
	for i := from; i < len(argv); i++ {
		m[i] = true
	}
	return m
}

// exhaustive small domain on the real file system: every list of <= 1 file over all kinds, every ordered pair over the
// core kinds, every other kind beside a good file in both orders (thorough: every triple over the core kinds)
// x programs that succeed / fail on numbers / fail always / do not compile
func (rn *runner) realMatrix(thorough bool) {
	t := rn.real
	progs := []string{".", progFnum2, progFall, "("}
	var lists [][]string
	lists = append(lists, nil)
	all := append(append([]string{}, t.core...), t.extra...)
	for _, a := range all {
		lists = append(lists, []string{a})
	}
	for _, a := range t.core {
		for _, b := range t.core {
			lists = append(lists, []string{a, b})
			if thorough {
				for _, c := range t.core {
					lists = append(lists, []string{a, b, c})
				}
			}
		}
	}
	for _, x := range t.extra {
		lists = append(lists, []string{x, "a.json"}, []string{"u1.bin", x})
		if thorough {
			lists = append(lists, []string{"a.json", x}, []string{x, "n.json"})
		}
	}
	for _, files := range lists {
		for _, pr := range progs {
			if (pr == "(" || (pr == progFall && !thorough)) && len(files) > 1 {
				continue
			}
			argv := append([]string{"-c", pr}, files...)
			rn.runCase(argv, marksFrom(argv, 2), "u")
		}
	}
	rn.o.Stat("real_matrix_lists", len(lists))
}

// hand-written command lines on the real tree: the modes that read every input first, program / named-argument files
// that are directories, precedence 2 over 4 over 5 with all three classes present
func (rn *runner) realFixed() {
	m := func(argv []string, fileIdx ...int) {
		marks := make([]bool, len(argv))
		for _, i := range fileIdx {
			marks[i] = true
		}
		rn.runCase(argv, marks, "u")
	}
	has := func(n string) bool { _, ok := rn.p.fkind[n]; return ok }
	m([]string{"-c", ".", "rdir"}, 2)
	m([]string{"-c", ".", "u1.bin", "rdir"}, 2, 3)                        // 2 over 4
	m([]string{"-c", progFnum2, "n.json", "rdir"}, 2, 3)                  // 2 over 5
	m([]string{"-c", progFnum2, "n.json", "u1.bin", "rdir", "a.json"}, 2, 3, 4, 5) // 2 over 4 over 5
	m([]string{"-c", progFnum2, "n.json", "u1.bin", "a.json"}, 2, 3, 4)   // 4 over 5
	m([]string{"-c", ".", "rdir", "rlnkdir", "rdir/sub", "rdir/"}, 2, 3, 4, 5)
	m([]string{"-c", ".", "rempty", "/dev/null", "a.json"}, 2, 3, 4)
	m([]string{"-sc", ".", "a.json", "rdir", "n.json"}, 2, 3, 4)
	m([]string{"-sc", ".", "rdir"}, 2)
	m([]string{"-Rc", ".", "a.json", "rdir", "n.json"}, 2, 3, 4)
	m([]string{"-Rc", ".", "rdir"}, 2)
	m([]string{"-Rc", ".", "rempty", "/dev/null"}, 2, 3) // no text: no line
	m([]string{"-Rsc", ".", "rempty", "rdir"}, 2, 3)
	m([]string{"-nc", ".", "rdir"}, 2) // null input: never opened
	m([]string{"-c", "-d", "mp3", ".", "rempty", "rdir"}, 4, 5)
	m([]string{"-c", "-f", "rdir", "a.json"}, 3)          // the program file is a directory: 2, nothing read
	m([]string{"-c", "-f", "p_ok.jq", "a.json", "rdir"}, 3, 4)
	m([]string{"-c", "--raw-file", "x", "rf_dir", ".", "a.json"}, 5)
	m([]string{"-c", "--argdecode", "x", "rf_dir", ".", "a.json"}, 5)
	m([]string{"-c", "--argdecode", "x", "rf.json", "[$x]", "a.json", "rdir"}, 5, 6)
	m([]string{"-c", "-i", ".", "a.json", "rdir"}, 3, 4)
	m([]string{"-c", ".", "--", "rdir", "-n"}, 3, 4)
	if has("r000.json") {
		m([]string{"-c", ".", "r000.json", "a.json", "u1.bin"}, 2, 3, 4)
	}
	if has("/proc/version") {
		m([]string{"-c", ".", "/proc/version"}, 2)
		m([]string{"-c", ".", "a.json", "/proc/version", "rdir"}, 2, 3, 4)
	}
}

// random command lines of the run generator with the file pool of the real tree
func (g *gen) pickRealFile() string {
	t := g.real
	if g.chance(55) {
		return g.pick(append(append([]string{}, t.only...), "rdir", "rdir", "rlnkdir", "rempty", "/dev/null"))
	}
	return g.pick([]string{"a.json", "b.json", "n.json", "m.json", "img.png", "snd.mp3", "u1.bin", "u2.bin", "miss1", "dir1", "."})
}

var _ = errors.Is
