//go:build verif

package main

import (
	"fmt"
	"os"
	"path/filepath"
	"reflect"
	"sort"
	"strconv"
	"strings"

	"github.com/wader/fq/internal/mapstruct"
	"github.com/wader/fq/internal/verifharness/hlib"
	"github.com/wader/fq/pkg/interp"
)

// job = (file [truncated to N bytes], format or "probe", per-format options, rendering)
//
//	text:  <path relative to the repository>[@N]|<format>|<k=v;k=v or ->|<dv|json|d>
type job struct {
	path   string
	mutPos int // byte mutPos set to mutVal when mutPos >= 0 (`path~P:V`, used by the directed search)
	mutVal byte
	hasMut bool
	trunc  int // -1 = whole file
	format string
	opts   []string // "k=v", sorted
	render string
}

var renders = map[string]string{
	"dv":   "dv",
	"json": "tovalue|tojson",
	"d":    ".",
}

func (j job) String() string {
	p := j.path
	if j.hasMut {
		p += fmt.Sprintf("~%d:%d", j.mutPos, j.mutVal)
	}
	if j.trunc >= 0 {
		p += "@" + strconv.Itoa(j.trunc)
	}
	o := "-"
	if len(j.opts) > 0 {
		o = strings.Join(j.opts, ";")
	}
	return p + "|" + j.format + "|" + o + "|" + j.render
}

func parseJob(s string) (job, error) {
	fs := strings.Split(s, "|")
	if len(fs) != 4 {
		return job{}, fmt.Errorf("job %q: want 4 fields", s)
	}
	j := job{path: fs[0], trunc: -1, format: fs[1], render: fs[3]}
	if i := strings.LastIndexByte(fs[0], '@'); i >= 0 {
		n, err := strconv.Atoi(fs[0][i+1:])
		if err != nil || n < 0 {
			return job{}, fmt.Errorf("job %q: bad truncation", s)
		}
		j.path, j.trunc = fs[0][:i], n
	}
	if i := strings.LastIndexByte(j.path, '~'); i >= 0 {
		var pos, val int
		if _, err := fmt.Sscanf(j.path[i+1:], "%d:%d", &pos, &val); err != nil || pos < 0 || val < 0 || val > 255 {
			return job{}, fmt.Errorf("job %q: bad mutation", s)
		}
		j.path, j.mutPos, j.mutVal, j.hasMut = j.path[:i], pos, byte(val), true
	}
	if fs[2] != "-" {
		j.opts = strings.Split(fs[2], ";")
		for _, o := range j.opts {
			if !strings.Contains(o, "=") {
				return job{}, fmt.Errorf("job %q: bad option %q", s, o)
			}
		}
	}
	if _, ok := renders[j.render]; !ok {
		return job{}, fmt.Errorf("job %q: unknown rendering", s)
	}
	if j.format == "" || strings.ContainsAny(j.path, " \t") || strings.Contains(j.path, "..") || filepath.IsAbs(j.path) {
		return job{}, fmt.Errorf("job %q: bad path or format", s)
	}
	return j, nil
}

func (j job) vname() string { return strings.ReplaceAll(j.path, "/", "_") }

func (j job) args() []string {
	var a []string
	if j.format != "probe" {
		a = append(a, "-d", j.format)
	}
	for _, o := range j.opts {
		a = append(a, "-o", o)
	}
	return append(a, renders[j.render], j.vname())
}

func repoDir() string {
	if d := os.Getenv("VERIF_REPO"); d != "" {
		return d
	}
	return "/repo"
}

func (j job) load() ([]byte, error) {
	b, err := os.ReadFile(filepath.Join(repoDir(), j.path))
	if err != nil {
		return nil, err
	}
	if j.hasMut && j.mutPos < len(b) {
		b[j.mutPos] = j.mutVal
	}
	if j.trunc >= 0 && j.trunc < len(b) {
		b = b[:j.trunc]
	}
	return b, nil
}

// ---------------------------------------------------------------- corpus

type cfile struct {
	path   string // relative to the repository
	size   int
	native string // format to decode it with ("probe" if the directory names none)
}

const maxFileSize = 12 * 1024

var skipExt = map[string]bool{".fqtest": true, ".md": true, ".sh": true, ".go": true, ".jq": true, ".py": true,
	".c": true, ".h": true, ".mod": true, ".sum": true, ".lua": true, ".rb": true, ".pl": true}

func formatNames() map[string]bool {
	m := map[string]bool{}
	for _, f := range interp.DefaultRegistry.MustAll().Formats {
		m[f.Name] = true
	}
	return m
}

// corpus: up to perDir small files of every format directory (first, middle, last by size) so that
// no single directory (wasm: 1578 files) dominates.  Independent of the seed.
func corpus(perDir int) []cfile {
	names := formatNames()
	root := filepath.Join(repoDir(), "format")
	byDir := map[string][]cfile{}
	_ = filepath.Walk(root, func(p string, info os.FileInfo, err error) error {
		if err != nil || info.IsDir() {
			return nil
		}
		rel, _ := filepath.Rel(repoDir(), p)
		rel = filepath.ToSlash(rel)
		parts := strings.Split(rel, "/")
		ti := -1
		for i, c := range parts {
			if c == "testdata" {
				ti = i
				break
			}
		}
		if ti < 2 || skipExt[strings.ToLower(filepath.Ext(p))] || strings.HasPrefix(info.Name(), ".") ||
			info.Name() == "Makefile" || strings.HasPrefix(info.Name(), "README") ||
			strings.Contains(info.Name(), "bigzero") || // decompression bomb (the suite decodes it with uncompress=false only)
			strings.ContainsAny(rel, " \t|@,;") || info.Size() == 0 || info.Size() > maxFileSize || !info.Mode().IsRegular() {
			return nil
		}
		native := "probe"
		if e := strings.TrimPrefix(strings.ToLower(filepath.Ext(p)), "."); names[e] {
			native = e
		} else {
			for i := ti - 1; i >= 1; i-- {
				if names[parts[i]] {
					native = parts[i]
					break
				}
			}
		}
		byDir[parts[1]] = append(byDir[parts[1]], cfile{path: rel, size: int(info.Size()), native: native})
		return nil
	})
	var dirs []string
	for d := range byDir {
		dirs = append(dirs, d)
	}
	sort.Strings(dirs)
	var out []cfile
	for _, d := range dirs {
		fs := byDir[d]
		sort.Slice(fs, func(i, j int) bool {
			if fs[i].size != fs[j].size {
				return fs[i].size < fs[j].size
			}
			return fs[i].path < fs[j].path
		})
		if len(fs) <= perDir {
			out = append(out, fs...)
			continue
		}
		for k := 0; k < perDir; k++ {
			out = append(out, fs[k*(len(fs)-1)/(perDir-1)])
		}
	}
	return out
}

// ---------------------------------------------------------------- per-format options

type fopt struct {
	format, key string
	kind        reflect.Kind
	def         any
}

// formatOptions reflects over the DefaultInArg of every registered format (what `-o name=value`
// can set for a decode, pkg/interp/decode.go:242-260).
func formatOptions() []fopt {
	var out []fopt
	for _, f := range interp.DefaultRegistry.MustAll().Formats {
		if f.DefaultInArg == nil {
			continue
		}
		v := reflect.ValueOf(f.DefaultInArg)
		if v.Kind() != reflect.Struct {
			continue
		}
		t := v.Type()
		for i := 0; i < t.NumField(); i++ {
			sf := t.Field(i)
			if _, ok := sf.Tag.Lookup("doc"); !ok || !sf.IsExported() {
				continue
			}
			switch sf.Type.Kind() {
			case reflect.Bool, reflect.Int, reflect.Int64, reflect.Uint, reflect.Uint64, reflect.String, reflect.Float64:
				out = append(out, fopt{format: f.Name, key: mapstruct.CamelToSnake(sf.Name), kind: sf.Type.Kind(), def: v.Field(i).Interface()})
			}
		}
	}
	sort.Slice(out, func(i, j int) bool {
		if out[i].format != out[j].format {
			return out[i].format < out[j].format
		}
		return out[i].key < out[j].key
	})
	return out
}

// display options (pkg/interp options that only influence rendering): part of every job's option space —
// colour tables, number bases, truncation.  Values chosen so that two jobs differ (a partial byte_colors
// after a full one, …).
var displayOptions = [][]string{
	{"color=true"},
	{"color=true", "byte_colors=65-90=red"},
	{"color=true", "byte_colors=0-31=blue,128-255=green"},
	{"color=true", "unicode=true"},
	{"color=true", "colors=null=red,number=blue,string=yellow"},
	{"unicode=true"},
	{"line_bytes=8"},
	{"line_bytes=20", "display_bytes=4"},
	{"addrbase=10", "sizebase=16"},
	{"array_truncate=2", "string_truncate=5"},
	{"verbose=true"},
	{"depth=2"},
	{"bits_format=hex"},
	{"bits_format=base64"},
	{"skip_gaps=true"},
	{"compact=true"},
}

func (o fopt) pick(r *hlib.Rand) string {
	switch o.kind {
	case reflect.Bool:
		return fmt.Sprintf("%s=%v", o.key, !o.def.(bool))
	case reflect.String:
		return o.key + "=" + []string{"x", "_", "postgres11", "#"}[r.Intn(4)]
	default:
		return fmt.Sprintf("%s=%d", o.key, []int{0, 1, 2, 3, 7, 100}[r.Intn(6)])
	}
}

// ---------------------------------------------------------------- generator

type gen struct {
	r       *hlib.Rand
	files   []cfile
	formats []string
	opts    []fopt
}

func newGen(r *hlib.Rand) *gen {
	g := &gen{r: r, files: corpus(3), opts: formatOptions()}
	for n := range formatNames() {
		g.formats = append(g.formats, n)
	}
	sort.Strings(g.formats)
	return g
}

func (g *gen) optsFor(formats ...string) []string {
	var cand []fopt
	for _, o := range g.opts {
		for _, f := range formats {
			if o.format == f {
				cand = append(cand, o)
			}
		}
	}
	if len(cand) == 0 || g.r.Intn(5) == 0 {
		cand = g.opts // an option of an unrelated format: must have no effect, must not leak
	}
	n := 1 + g.r.Intn(2)
	set := map[string]string{}
	for i := 0; i < n; i++ {
		o := cand[g.r.Intn(len(cand))]
		set[o.key] = o.pick(g.r)
	}
	var out []string
	for _, v := range set {
		out = append(out, v)
	}
	sort.Strings(out)
	return out
}

// job on a given file: native format / probe / a wrong format (failing decode) / truncated input,
// options set or unset, one of the renderings
func (g *gen) jobOn(f cfile) job {
	j := job{path: f.path, trunc: -1, format: f.native, render: []string{"dv", "json", "d", "dv"}[g.r.Intn(4)]}
	switch g.r.Intn(10) {
	case 0, 1:
		j.format = "probe"
	case 2, 3:
		j.format = g.formats[g.r.Intn(len(g.formats))] // mostly a failing decode
	case 4:
		j.trunc = g.r.Intn(f.size + 1) // truncated: failing or partial decode
	case 5:
		j.trunc = f.size - 1 - g.r.Intn(min(f.size, 8))
		if j.trunc < 0 {
			j.trunc = 0
		}
	}
	if g.r.Intn(5) < 2 {
		j.opts = g.optsFor(j.format, f.native)
	}
	if g.r.Intn(4) == 0 {
		j.opts = append(j.opts, displayOptions[g.r.Intn(len(displayOptions))]...)
		sort.Strings(j.opts)
	}
	return j
}

// pool of distinct jobs for one shard
func (g *gen) pool(n int) []job {
	seen := map[string]bool{}
	var out []job
	for tries := 0; len(out) < n && tries < 50*n; tries++ {
		f := g.files[g.r.Intn(len(g.files))]
		j := g.jobOn(f)
		// twin: the same file and format with options unset / set, the leak-sensitive pair
		js := []job{j}
		if g.r.Intn(3) == 0 {
			t := j
			if len(j.opts) == 0 {
				t.opts = g.optsFor(j.format, f.native)
			} else {
				t.opts = nil
			}
			js = append(js, t)
		}
		for _, j := range js {
			if !seen[j.String()] {
				seen[j.String()] = true
				out = append(out, j)
			}
		}
	}
	return out
}

// trial = multiset of pool indices
func (g *gen) trial(pool []job) []int {
	n := 3 + g.r.Intn(6)
	var ix []int
	switch g.r.Intn(6) {
	case 0: // the same job many times
		k := g.r.Intn(len(pool))
		for i := 0; i < n; i++ {
			ix = append(ix, k)
		}
	case 1: // jobs on the same file (different options/formats/renderings) where the pool has them
		k := g.r.Intn(len(pool))
		for i, j := range pool {
			if j.path == pool[k].path && len(ix) < n {
				ix = append(ix, i)
			}
		}
		for len(ix) < n {
			ix = append(ix, ix[g.r.Intn(len(ix))])
		}
	default:
		for i := 0; i < n; i++ {
			ix = append(ix, g.r.Intn(len(pool)))
		}
	}
	return ix
}
