//go:build verif

// C18 harness (monitor): decoding is deterministic, isolated and race-free.  Built with -race.
// Race reports and dead processes are decided here (`!PROPFAIL`, the race detector is a runtime
// monitor); the byte-for-byte comparison is a case line `trial … TAB r:k:hash … mode:k:hash …`
// whose predicate (every run of job k has the hash of its lone run) is evaluated by Drv/C18.lean.
//
// The parent process only orchestrates; every fq job runs in a child process of the same binary:
//
//	ref     one job alone in a FRESH PROCESS                      -> reference hash of (stdout, stderr, error)
//	procrep the whole pool sequentially, reversed, in ONE second process  (determinism across processes)
//	trial   a multiset of jobs in one process:
//	          sequentially in several permuted orders (state leaking from one input to the next shows as a
//	          difference that depends on the order), and
//	          concurrently on G in {2,4,8,16} goroutines, one Interp per job, all sharing the process-wide
//	          interp.DefaultRegistry, released by a barrier; on even seeds the concurrent phase comes FIRST so
//	          that the registry (sync.Once group resolution), wasm's instrMapOnce and the lazily compiled
//	          regexps are hit cold by all goroutines at once;
//	        every output is compared byte for byte (hash + length) with the reference;
//	        a race report of the race detector (stderr `WARNING: DATA RACE`, exit 66) or a runtime
//	        `fatal error:` (concurrent map writes) is a violation.
//	selftest a deliberately racy toy: shows that the detector is live in this binary.
//
// Case line (replayable alone):  trial seed=<n> <job> <job> …      job = path[@N]|format|opts|render
package main

import (
	"bufio"
	"bytes"
	"flag"
	"fmt"
	"os"
	"os/exec"
	"path/filepath"
	"sort"
	"strconv"
	"strings"
	"sync"
	"syscall"
	"time"

	"github.com/wader/fq/internal/verifharness/hlib"
)

var workerMode = flag.String("worker", "", "internal: ref|procrep|trial|selftest")

func main() {
	cfg := hlib.ParseFlags()
	if *workerMode != "" {
		worker(*workerMode, cfg.Seed)
		return
	}
	o := hlib.NewOut(cfg.Out)
	defer o.Close()
	if !raceEnabled {
		o.Verdict("BADOP", "harness not built with -race (run entry must set go_flags)")
		return
	}
	o.Stat("race_detector", 1)
	selftest(o)

	if cfg.Replay != "" {
		for _, l := range hlib.ReplayLines(cfg.Replay) {
			if i := strings.Index(l, " ## "); i >= 0 {
				l = l[:i]
			}
			if ws := strings.Fields(l); len(ws) > 0 && (ws[0] == "sweep" || (len(ws) > 1 && ws[1] == "sweep")) {
				if ws[0] != "sweep" {
					ws = ws[1:]
				}
				if len(ws) >= 3 {
					runSweep(o, map[string][]string{ws[1]: ws[2:]})
				}
				continue
			}
			if strings.Contains(l, "sweep-all") {
				runSweep(o, sweepPairs(hlib.NewRand(cfg.Seed), 4))
				continue
			}
			seed, jobs, err := parseTrial(l)
			if err != nil {
				o.Verdict("BADOP", err.Error())
				continue
			}
			refs := computeRefs(o, jobs)
			if strings.Contains(l, "procrep seed=") {
				rev := append([]job(nil), jobs...)
				for a, b := 0, len(rev)-1; a < b; a, b = a+1, b-1 {
					rev[a], rev[b] = rev[b], rev[a]
				}
				procRep(o, rev, refs) // procRep reverses again: the order of the line
				continue
			}
			runTrial(o, seed, jobs, refs)
		}
		return
	}

	r := hlib.NewRand(cfg.Seed)
	if len(cfg.Args) > 0 && cfg.Args[0] == "sweep" {
		capPerFormat := 4
		if cfg.Thorough() {
			capPerFormat = 40
		}
		runSweep(o, sweepPairs(r, capPerFormat))
		runTarget(o, r)
		return
	}
	g := newGen(r)
	nPool, nTrials := 12, 5
	if cfg.Thorough() {
		nPool, nTrials = 40, 25
		os.Setenv("C18_ORDERS", "4")
	}
	pool := g.pool(nPool)
	o.Stat("corpus_files", len(g.files))
	o.Stat("pool_jobs", len(pool))
	refs := computeRefs(o, pool)
	procRep(o, pool, refs)
	for t := 0; t < nTrials; t++ {
		ix := g.trial(pool)
		jobs := make([]job, len(ix))
		for i, k := range ix {
			jobs[i] = pool[k]
		}
		text := runTrial(o, r.U64()%1000000, jobs, refs)
		if t < 2 {
			o.Sample(text)
		}
	}
}

func trialTimeout() time.Duration {
	if os.Getenv("C18_ORDERS") == "4" {
		return 600 * time.Second
	}
	return 420 * time.Second
}

func trialText(seed uint64, jobs []job) string {
	ss := make([]string, len(jobs))
	for i, j := range jobs {
		ss[i] = j.String()
	}
	return fmt.Sprintf("trial seed=%d %s", seed, strings.Join(ss, " "))
}

// parseTrial accepts a case line, also with the verdict word a replay file of the runner carries
// in front (`PROPFAIL trial … ## why`).
func parseTrial(l string) (uint64, []job, error) {
	if i := strings.Index(l, " ## "); i >= 0 {
		l = l[:i]
	}
	ws := strings.Fields(l)
	for len(ws) > 0 && ws[0] != "trial" && ws[0] != "procrep" {
		ws = ws[1:]
	}
	if len(ws) < 3 || !strings.HasPrefix(ws[1], "seed=") {
		return 0, nil, fmt.Errorf("not a trial line: %.200s", l)
	}
	seed, err := strconv.ParseUint(ws[1][5:], 10, 64)
	if err != nil {
		return 0, nil, err
	}
	var jobs []job
	for _, w := range ws[2:] {
		j, err := parseJob(w)
		if err != nil {
			return 0, nil, err
		}
		jobs = append(jobs, j)
	}
	return seed, jobs, nil
}

// ---------------------------------------------------------------- child processes

type childResult struct {
	stdout, stderr string
	exit           int
	timedOut       bool
}

func child(mode string, seed uint64, stdin string, timeout time.Duration, env ...string) childResult {
	cmd := exec.Command(os.Args[0], "-worker", mode, "-seed", strconv.FormatUint(seed, 10))
	cmd.Stdin = strings.NewReader(stdin)
	var so, se bytes.Buffer
	cmd.Stdout, cmd.Stderr = &so, &se
	// exitcode=66 is the default; keep going after a report so that one run lists every race
	cmd.Env = append(append(os.Environ(), "GORACE=halt_on_error=0 exitcode=66", "GOMEMLIMIT=3GiB", "GOTRACEBACK=all"), env...)
	var res childResult
	if err := cmd.Start(); err != nil {
		return childResult{exit: -1, stderr: "exec: " + err.Error()}
	}
	done := make(chan error, 1)
	go func() { done <- cmd.Wait() }()
	var err error
	select {
	case err = <-done:
	case <-time.After(timeout):
		// a hang: ask the Go runtime for all goroutine stacks (SIGQUIT), then kill
		res.timedOut = true
		_ = cmd.Process.Signal(syscall.SIGQUIT)
		select {
		case err = <-done:
		case <-time.After(20 * time.Second):
			_ = cmd.Process.Kill()
			err = <-done
		}
	}
	res.stdout, res.stderr = so.String(), se.String()
	if ee, ok := err.(*exec.ExitError); ok {
		res.exit = ee.ExitCode()
	} else if err != nil {
		res.exit = -1
		res.stderr += "\nwait: " + err.Error()
	}
	return res
}

// raceSummary: kind and the top frames of both accesses of the first report
func raceSummary(stderr string) string {
	i := strings.Index(stderr, "WARNING: DATA RACE")
	if i < 0 {
		if k := strings.Index(stderr, "fatal error:"); k >= 0 {
			l := stderr[k:]
			if n := strings.IndexByte(l, '\n'); n >= 0 {
				l = l[:n]
			}
			return l
		}
		return ""
	}
	n := strings.Count(stderr, "WARNING: DATA RACE")
	var parts []string
	lines := strings.Split(stderr[i:], "\n")
	for k := 0; k < len(lines) && len(parts) < 6; k++ {
		l := strings.TrimSpace(lines[k])
		if strings.HasPrefix(l, "Write at") || strings.HasPrefix(l, "Read at") || strings.HasPrefix(l, "Previous write at") || strings.HasPrefix(l, "Previous read at") {
			kind := strings.Fields(l)[0]
			if strings.HasPrefix(l, "Previous") {
				kind = "Previous-" + strings.Fields(l)[1]
			}
			var frames []string
			for m := k + 1; m < len(lines) && len(frames) < 3; m += 2 {
				f := strings.TrimSpace(lines[m])
				if f == "" {
					break
				}
				loc := ""
				if m+1 < len(lines) {
					loc = strings.TrimSpace(lines[m+1])
					if sp := strings.IndexByte(loc, ' '); sp >= 0 {
						loc = loc[:sp]
					}
					loc = filepath.Base(filepath.Dir(loc)) + "/" + filepath.Base(loc)
				}
				f = strings.TrimSuffix(f, "()")
				if p := strings.LastIndex(f, "/"); p >= 0 {
					f = f[p+1:] // package-qualified name without the import path
				}
				frames = append(frames, f+"@"+loc)
			}
			parts = append(parts, kind+":"+strings.Join(frames, "<"))
		}
		if strings.HasPrefix(l, "==================") && k > 0 {
			break
		}
	}
	return fmt.Sprintf("%d race report(s); first: %s", n, strings.Join(parts, " | "))
}

func violationOf(c childResult) string {
	if s := raceSummary(c.stderr); s != "" {
		return "race: " + s
	}
	if c.exit == 66 {
		return "race: exit 66"
	}
	return ""
}

// selftest: the race detector is live in this binary and reaches the parent as exit 66 + report
func selftest(o *hlib.Out) {
	c := child("selftest", 0, "", 60*time.Second)
	if strings.Contains(c.stderr, "WARNING: DATA RACE") && c.exit == 66 {
		o.Verdict("OK", "selftest race-detector-live")
		o.Stat("selftest_race_detected", 1)
	} else {
		o.Verdict("BADOP", fmt.Sprintf("selftest: deliberate race not reported (exit %d)", c.exit))
	}
}

// computeRefs: every distinct job alone in a fresh process
func computeRefs(o *hlib.Out, jobs []job) map[string]string {
	refs := map[string]string{}
	var distinct []job
	for _, j := range jobs {
		if _, ok := refs[j.String()]; !ok {
			refs[j.String()] = ""
			distinct = append(distinct, j)
		}
	}
	type rr struct {
		j job
		c childResult
	}
	out := make([]rr, len(distinct))
	var wg sync.WaitGroup
	sem := make(chan struct{}, 6)
	for i, j := range distinct {
		wg.Add(1)
		go func() {
			defer wg.Done()
			sem <- struct{}{}
			defer func() { <-sem }()
			out[i] = rr{j, child("ref", 0, j.String()+"\n", 120*time.Second)}
		}()
	}
	wg.Wait()
	for _, r := range out {
		text := "ref " + r.j.String()
		if v := violationOf(r.c); v != "" {
			o.Verdict("PROPFAIL", "trial seed=0 "+r.j.String()+" ## single job alone: "+v)
			continue
		}
		fs := strings.Fields(r.c.stdout)
		if r.c.timedOut || r.c.exit != 0 || len(fs) != 4 || fs[0] != "R" {
			o.Verdict("BADOP", fmt.Sprintf("%s: reference run failed (exit %d timeout %v): %.300s", text, r.c.exit, r.c.timedOut, hlib.San(r.c.stderr)))
			continue
		}
		refs[r.j.String()] = fs[1]
		refs["tree "+r.j.String()] = fs[3]
		o.Stat("ref_"+fs[2], 1)
		o.Stat("ref_runs_fresh_process", 1)
		// distinct_nontrivial: distinct jobs (file, truncation, format, options, rendering) with a reference
		o.Class(r.j.String())
	}
	return refs
}

func stdinOf(jobs []job, refs map[string]string) string {
	var sb strings.Builder
	for _, j := range jobs {
		sb.WriteString(j.String() + "\t" + refs[j.String()] + "\t" + refs["tree "+j.String()] + "\n")
	}
	return sb.String()
}

// firstDiff re-runs the job alone with a dump and names the first line that differs
func firstDiff(j job, gotPath string) string {
	refPath := gotPath + ".ref"
	child("ref", 0, j.String()+"\n", 120*time.Second, "C18_DUMP="+refPath)
	a, _ := os.ReadFile(refPath)
	b, _ := os.ReadFile(gotPath)
	al, bl := strings.Split(string(a), "\n"), strings.Split(string(b), "\n")
	for i := 0; i < len(al) || i < len(bl); i++ {
		var x, y string
		if i < len(al) {
			x = al[i]
		}
		if i < len(bl) {
			y = bl[i]
		}
		if x != y {
			return fmt.Sprintf("line %d alone=%.100q here=%.100q", i+1, x, y)
		}
	}
	return "outputs equal on re-run (reference itself unstable?)"
}

func procRep(o *hlib.Out, pool []job, refs map[string]string) {
	rev := make([]job, 0, len(pool))
	for i := len(pool) - 1; i >= 0; i-- {
		if refs[pool[i].String()] != "" {
			rev = append(rev, pool[i])
		}
	}
	c := child("procrep", 0, stdinOf(rev, refs), 600*time.Second, "VERIF_WORK="+os.Getenv("VERIF_WORK"))
	text := "procrep" + strings.TrimPrefix(trialText(0, rev), "trial")
	if v := violationOf(c); v != "" {
		o.Verdict("PROPFAIL", text+" ## sequential pool in one process: "+v)
		return
	}
	if c.timedOut || c.exit != 0 || !strings.Contains(c.stdout, "DONE") {
		o.Verdict("BADOP", fmt.Sprintf("procrep failed (exit %d timeout %v): %.300s", c.exit, c.timedOut, hlib.San(c.stderr)))
		return
	}
	o.Stat("procrep_runs", len(rev))
	if bad := mismatches(c.stdout, rev); len(bad) > 0 {
		fmt.Println("MISMATCH " + text + " ## second process, pool in reverse order: " + strings.Join(bad, "; "))
	}
	o.Case(text, observation(c.stdout, rev, refs))
}

// observation: `r:k:hash` for every job of the line, `mode:k:hash` for every run the child reports
func observation(stdout string, jobs []job, refs map[string]string) string {
	var toks []string
	for k, j := range jobs {
		toks = append(toks, fmt.Sprintf("r:%d:%s", k, refs[j.String()]), fmt.Sprintf("rt:%d:%s", k, refs["tree "+j.String()]))
	}
	for _, l := range strings.Split(stdout, "\n") {
		fs := strings.Fields(l)
		if len(fs) == 4 && fs[0] == "H" {
			toks = append(toks, fs[1]+":"+fs[2]+":"+fs[3])
		}
	}
	return strings.Join(toks, " ")
}

// mismatches parses `M <mode> <jobidx> <hash> <dumpfile>` lines of a child
func mismatches(stdout string, jobs []job) []string {
	var bad []string
	for _, l := range strings.Split(stdout, "\n") {
		fs := strings.Fields(l)
		if len(fs) == 5 && fs[0] == "M" {
			k, _ := strconv.Atoi(fs[2])
			if k < 0 || k >= len(jobs) {
				continue
			}
			if len(bad) < 3 {
				bad = append(bad, fmt.Sprintf("%s job#%d %s got %s: %s", fs[1], k, jobs[k].String(), fs[3], firstDiff(jobs[k], fs[4])))
			} else if len(bad) == 3 {
				bad = append(bad, "…")
			}
		}
	}
	return bad
}

func runTrial(o *hlib.Out, seed uint64, jobs []job, refs map[string]string) string {
	text := trialText(seed, jobs)
	for _, j := range jobs {
		if refs[j.String()] == "" {
			return text // its reference already failed and was reported
		}
	}
	c := child("trial", seed, stdinOf(jobs, refs), trialTimeout(), "VERIF_WORK="+os.Getenv("VERIF_WORK"))
	if c.timedOut {
		// overload or a deadlock: the goroutine dump decides (kept in the run directory)
		p := filepath.Join(os.Getenv("VERIF_WORK"), fmt.Sprintf("timeout_%d.txt", seed))
		_ = os.WriteFile(p, []byte(text+"\n"+c.stderr), 0o644)
		o.Verdict("BADOP", text+" ## trial timed out after "+trialTimeout().String()+", goroutine dump in "+p)
		return text
	}
	if v := violationOf(c); v != "" {
		o.Verdict("PROPFAIL", text+" ## "+v)
		if w := os.Getenv("VERIF_WORK"); w != "" {
			_ = os.WriteFile(filepath.Join(w, fmt.Sprintf("race_%d.txt", seed)), []byte(text+"\n"+c.stderr), 0o644)
		}
		return text
	}
	if c.exit != 0 || !strings.Contains(c.stdout, "DONE") {
		o.Verdict("PROPFAIL", fmt.Sprintf("%s ## process died (exit %d): %.300s", text, c.exit, hlib.San(c.stderr)))
		return text
	}
	for _, l := range strings.Split(c.stdout, "\n") {
		fs := strings.Fields(l)
		if len(fs) == 3 && fs[0] == "N" {
			n, _ := strconv.Atoi(fs[2])
			o.Stat(fs[1], n)
		}
	}
	if bad := mismatches(c.stdout, jobs); len(bad) > 0 {
		// detail for the log (harness.log of the run directory); the verdict is the driver's
		fmt.Println("MISMATCH " + text + " ## output differs from the lone run: " + strings.Join(bad, "; "))
	}
	o.Case(text, observation(c.stdout, jobs, refs))
	return text
}

// ---------------------------------------------------------------- worker side

var treeRefs []string

func readJobs() ([]job, []string) {
	var jobs []job
	var refs []string
	sc := bufio.NewScanner(os.Stdin)
	sc.Buffer(make([]byte, 1<<20), 1<<26)
	for sc.Scan() {
		l := sc.Text()
		if l == "" {
			continue
		}
		ref, tref := "", ""
		if i := strings.IndexByte(l, '\t'); i >= 0 {
			l, ref = l[:i], l[i+1:]
			if k := strings.IndexByte(ref, '\t'); k >= 0 {
				ref, tref = ref[:k], ref[k+1:]
			}
		}
		treeRefs = append(treeRefs, tref)
		j, err := parseJob(l)
		if err != nil {
			fmt.Fprintln(os.Stderr, err)
			os.Exit(3)
		}
		jobs = append(jobs, j)
		refs = append(refs, ref)
	}
	return jobs, refs
}

var dumpMu sync.Mutex
var dumpN int

func report(w *bufio.Writer, mode string, k int, res result, ref string) {
	h := res.hash()
	dumpMu.Lock()
	defer dumpMu.Unlock()
	fmt.Fprintf(w, "H %s %d %s\n", mode, k, h)
	if h == ref {
		return
	}
	dumpN++
	dir := os.Getenv("VERIF_WORK")
	if dir == "" {
		dir = os.TempDir()
	}
	p := filepath.Join(dir, fmt.Sprintf("mismatch_%d_%d.txt", os.Getpid(), dumpN))
	_ = os.WriteFile(p, res.out, 0o644)
	fmt.Fprintf(w, "M %s %d %s %s\n", mode, k, h, p)
}

func classOf(res result) string {
	parts := bytes.SplitN(res.out, []byte{0}, 3)
	switch {
	case len(parts) == 3 && bytes.HasPrefix(parts[2], []byte("error: panic")):
		return "panic"
	case len(parts) == 3 && len(parts[2]) > 0:
		return "fail"
	case len(parts) == 3 && bytes.Contains(parts[0], []byte("error:")):
		return "partial"
	}
	return "ok"
}

var toy int

func worker(mode string, seed uint64) {
	w := bufio.NewWriter(os.Stdout)
	defer w.Flush()
	switch mode {
	case "sweepA", "sweepB", "sweepC":
		sweepWorker(w, mode)
	case "selftest":
		var wg sync.WaitGroup
		for g := 0; g < 2; g++ {
			wg.Add(1)
			go func() {
				defer wg.Done()
				for i := 0; i < 1000; i++ {
					toy++
				}
			}()
		}
		wg.Wait()
		fmt.Fprintln(w, "DONE", toy > 0)
	case "ref":
		jobs, _ := readJobs()
		if len(jobs) != 1 {
			os.Exit(3)
		}
		data, err := jobs[0].load()
		if err != nil {
			fmt.Fprintln(os.Stderr, err)
			os.Exit(3)
		}
		res := runJob(jobs[0], data)
		if p := os.Getenv("C18_DUMP"); p != "" {
			_ = os.WriteFile(p, res.out, 0o644)
		}
		fmt.Fprintf(w, "R %s %s %s\n", res.hash(), classOf(res), decodeTree(jobs[0], data))
	case "procrep":
		jobs, refs := readJobs()
		for k, j := range jobs {
			data, err := j.load()
			if err != nil {
				os.Exit(3)
			}
			report(w, "procrep", k, runJob(j, data), refs[k])
		}
		fmt.Fprintln(w, "DONE")
	case "trial":
		jobs, refs := readJobs()
		data := make([][]byte, len(jobs))
		for k, j := range jobs {
			b, err := j.load()
			if err != nil {
				fmt.Fprintln(os.Stderr, err)
				os.Exit(3)
			}
			data[k] = b
		}
		r := hlib.NewRand(seed ^ 0xc18)
		nSeq, nConc := 0, 0
		seq := func() {
			n := len(jobs)
			orders := [][]int{make([]int, n), make([]int, n), make([]int, n), make([]int, n)}
			for i := 0; i < n; i++ {
				orders[0][i], orders[1][i], orders[2][i], orders[3][i] = i, n-1-i, i, i
			}
			for _, p := range orders[2:] {
				for i := n - 1; i > 0; i-- {
					k := r.Intn(i + 1)
					p[i], p[k] = p[k], p[i]
				}
			}
			if os.Getenv("C18_ORDERS") != "4" {
				orders = orders[:3] // quick tier: as given, reversed, one random permutation
			}
			for oi, ord := range orders {
				for _, k := range ord {
					report(w, "seq"+strconv.Itoa(oi), k, runJob(jobs[k], data[k]), refs[k])
					nSeq++
				}
			}
		}
		conc := func() {
			gs := []int{2, 4, 8, 16}
			a := r.Intn(len(gs))
			b := (a + 1 + r.Intn(len(gs)-1)) % len(gs)
			pick := []int{gs[a], gs[b]}
			sort.Ints(pick)
			for _, G := range pick {
				var list []int
				for len(list) < len(jobs) || len(list) < G {
					list = append(list, len(list)%len(jobs))
				}
				for i := len(list) - 1; i > 0; i-- {
					k := r.Intn(i + 1)
					list[i], list[k] = list[k], list[i]
				}
				ch := make(chan int, len(list))
				for _, k := range list {
					ch <- k
				}
				close(ch)
				start := make(chan struct{})
				type done struct {
					k   int
					res result
				}
				results := make(chan done, len(list))
				var wg sync.WaitGroup
				for g := 0; g < G; g++ {
					wg.Add(1)
					go func() {
						defer wg.Done()
						<-start
						for k := range ch {
							results <- done{k, runJob(jobs[k], data[k])}
						}
					}()
				}
				close(start)
				wg.Wait()
				close(results)
				for d := range results {
					report(w, "conc"+strconv.Itoa(G), d.k, d.res, refs[d.k])
					nConc++
				}
			}
		}
		// hammer: pkg/decode directly, every job `reps` times on G goroutines (see tree.go)
		nHammer := 0
		hammer := func() {
			reps, G := 12, 8
			if os.Getenv("C18_ORDERS") == "4" {
				reps, G = 40, 16
			}
			var list []int
			for rep := 0; rep < reps; rep++ {
				for k := range jobs {
					list = append(list, k)
				}
			}
			for i := len(list) - 1; i > 0; i-- {
				k := r.Intn(i + 1)
				list[i], list[k] = list[k], list[i]
			}
			ch := make(chan int, len(list))
			for _, k := range list {
				ch <- k
			}
			close(ch)
			start := make(chan struct{})
			bad := make([]string, len(jobs)) // first differing hash per job
			var mu sync.Mutex
			var wg sync.WaitGroup
			for g := 0; g < G; g++ {
				wg.Add(1)
				go func() {
					defer wg.Done()
					<-start
					for k := range ch {
						h := decodeTree(jobs[k], data[k])
						if h != treeRefs[k] {
							mu.Lock()
							if bad[k] == "" {
								bad[k] = h
							}
							mu.Unlock()
						}
					}
				}()
			}
			close(start)
			wg.Wait()
			nHammer += len(list)
			for k := range jobs {
				h := treeRefs[k]
				if bad[k] != "" {
					h = bad[k]
				}
				fmt.Fprintf(w, "H hammer%d %d %s\n", G, k, h)
			}
		}
		if seed%2 == 0 {
			// cold process: registry Once, wasm Once, lazy regexps and any first-use fill of a shared
			// table are hit by all goroutines at once
			hammer()
			conc()
			seq()
		} else {
			seq()
			hammer()
			conc()
		}
		fmt.Fprintf(w, "N hammer_decodes %d\n", nHammer)
		fmt.Fprintf(w, "N seq_runs %d\nN conc_runs %d\n", nSeq, nConc)
		if seed%2 == 0 {
			fmt.Fprintf(w, "N trials_concurrent_cold_start 1\n")
		}
		fmt.Fprintln(w, "DONE")
	default:
		os.Exit(3)
	}
}
