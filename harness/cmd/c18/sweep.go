//go:build verif

package main

import (
	"bufio"
	"fmt"
	"os"
	"path/filepath"
	"sort"
	"strings"
	"sync"
	"time"

	"github.com/wader/fq/internal/verifharness/hlib"
)

// The format sweep (run entry "sweep"): EVERY format that has a sample under format/*/testdata is
// decoded, by pkg/decode directly (tree hash, see tree.go),
//
//	child A  every (sample, format) pair three times in a row in ONE process      first / rep1 / rep2
//	child B  every pair once, in reverse order, in a SECOND process                other
//	child C  every pair by each of 8 goroutines (own order, nothing shared) in a THIRD process   conc
//
// and all hashes of a pair must be equal: state that survives from one decode of a format to the
// next (a package-level hasher, cache, scratch buffer) shows as first != rep1, order dependence as
// first != other, sharing between concurrent decodes as conc != first or as a race report.
//
// (sample, format) pairs: what the repository's own tests decode — the `$ fq -d <format> … <file>`
// lines of the *.fqtest files next to the samples — plus (file, format named by its extension or
// directory).  Per format at most `cap` samples: the two smallest always (so every format is decoded
// >= 6 times sequentially in child A), the rest rotates with the seed.
//
// Case line, one per format:   sweep <format> <path>…   TAB   first:k:h rep1:k:h rep2:k:h other:k:h conc:k:h …

type pair struct{ path, format string }

const sweepMaxSize = 64 * 1024

func sweepPairs(r *hlib.Rand, capPerFormat int) map[string][]string {
	names := formatNames()
	root := filepath.Join(repoDir(), "format")
	byFormat := map[string]map[string]int{} // format -> path -> size
	add := func(format, rel string) {
		st, err := os.Stat(filepath.Join(repoDir(), rel))
		if err != nil || !st.Mode().IsRegular() || strings.Contains(rel, "bigzero") || st.Size() == 0 || st.Size() > sweepMaxSize || strings.ContainsAny(rel, " \t|@,;") {
			return
		}
		if byFormat[format] == nil {
			byFormat[format] = map[string]int{}
		}
		byFormat[format][rel] = int(st.Size())
	}
	_ = filepath.Walk(root, func(p string, info os.FileInfo, err error) error {
		if err != nil || info.IsDir() || filepath.Ext(p) != ".fqtest" {
			return nil
		}
		f, err := os.Open(p)
		if err != nil {
			return nil
		}
		defer f.Close()
		dir := filepath.Dir(p)
		sc := bufio.NewScanner(f)
		sc.Buffer(make([]byte, 1<<20), 1<<26)
		for sc.Scan() {
			l := sc.Text()
			if !strings.HasPrefix(l, "$ fq ") {
				continue
			}
			ws := strings.Fields(l)
			format := ""
			for i := 2; i+1 < len(ws); i++ {
				if ws[i] == "-d" {
					format = ws[i+1]
				}
			}
			if !names[format] {
				continue
			}
			last := ws[len(ws)-1]
			if strings.ContainsAny(last, "'\"()|") {
				continue
			}
			if st, err := os.Stat(filepath.Join(dir, last)); err == nil && st.Mode().IsRegular() {
				rel, _ := filepath.Rel(repoDir(), filepath.Join(dir, last))
				add(format, filepath.ToSlash(rel))
			}
		}
		return nil
	})
	for _, f := range corpus(1 << 20) {
		if f.native != "probe" {
			add(f.native, f.path)
		}
	}
	out := map[string][]string{}
	for format, m := range byFormat {
		var ps []string
		for p := range m {
			ps = append(ps, p)
		}
		sort.Slice(ps, func(i, j int) bool {
			if m[ps[i]] != m[ps[j]] {
				return m[ps[i]] < m[ps[j]]
			}
			return ps[i] < ps[j]
		})
		if len(ps) > capPerFormat {
			rest := ps[2:]
			for i := len(rest) - 1; i > 0; i-- {
				k := r.Intn(i + 1)
				rest[i], rest[k] = rest[k], rest[i]
			}
			ps = append(ps[:2:2], rest[:capPerFormat-2]...)
		}
		out[format] = ps
	}
	return out
}

// minimizeRace bisects a list of pairs whose concurrent decoding (child C) produced a race report
func minimizeRace(ps []pair, light bool) []pair {
	var env []string
	if light {
		env = append(env, "C18_SWEEP_LIGHT=1")
	}
	races := func(q []pair) bool {
		c := child("sweepC", 0, sweepStdin(q), 10*time.Minute, env...)
		return violationOf(c) != ""
	}
	for len(ps) > 1 {
		h := len(ps) / 2
		switch {
		case races(ps[:h]):
			ps = ps[:h]
		case races(ps[h:]):
			ps = ps[h:]
		default:
			return ps // needs pairs of both halves
		}
	}
	return ps
}

func fmtName(key string) string {
	if i := strings.IndexByte(key, '#'); i >= 0 {
		return key[:i]
	}
	return key
}

func sweepStdin(ps []pair) string {
	var sb strings.Builder
	for _, p := range ps {
		sb.WriteString(p.path + "|" + p.format + "|-|dv\n")
	}
	return sb.String()
}

// runSweep runs the three children on the pairs and writes one case line per format
func runSweep(o *hlib.Out, byFormat map[string][]string) { runSweepOpts(o, byFormat, false) }

// runSweepOpts: a key of byFormat is a format name, optionally followed by `#label` (several case lines for
// one format); light = without the second-process child B
func runSweepOpts(o *hlib.Out, byFormat map[string][]string, light bool) {
	var formats []string
	for f := range byFormat {
		formats = append(formats, f)
	}
	sort.Strings(formats)
	var ps []pair
	for _, f := range formats {
		for _, p := range byFormat[f] {
			ps = append(ps, pair{p, fmtName(f)})
		}
	}
	rev := make([]pair, len(ps))
	for i, p := range ps {
		rev[len(ps)-1-i] = p
	}
	type cr struct {
		c  childResult
		ps []pair
	}
	res := map[string]cr{}
	var mu sync.Mutex
	var wg sync.WaitGroup
	for _, m := range []struct {
		mode string
		ps   []pair
	}{{"sweepA", ps}, {"sweepB", rev}, {"sweepC", ps}} {
		if light && m.mode == "sweepB" {
			continue
		}
		wg.Add(1)
		go func() {
			defer wg.Done()
			var env []string
			if light {
				env = append(env, "C18_SWEEP_LIGHT=1")
			}
			c := child(m.mode, 0, sweepStdin(m.ps), 20*time.Minute, env...)
			mu.Lock()
			res[m.mode] = cr{c, m.ps}
			mu.Unlock()
		}()
	}
	wg.Wait()
	all := "sweep-all " + fmt.Sprint(len(ps)) + "-decodes-of " + strings.Join(formats, ",")
	toks := map[pair][]string{}
	for _, mode := range []string{"sweepA", "sweepB", "sweepC"} {
		r, ok := res[mode]
		if !ok {
			continue
		}
		if v := violationOf(r.c); v != "" {
			if mode == "sweepC" {
				// narrow the race down to few pairs so that the replay line is small and exact
				min := minimizeRace(r.ps, light)
				same := true
				var paths []string
				for _, p := range min {
					same = same && p.format == min[0].format
					paths = append(paths, p.path)
				}
				if same && len(min) > 0 && len(min) <= 64 {
					o.Verdict("PROPFAIL", "sweep "+min[0].format+" "+strings.Join(paths, " ")+" ## concurrent decodes: "+v)
					continue
				}
			}
			o.Verdict("PROPFAIL", all+" ## "+mode+": "+v)
			if w := os.Getenv("VERIF_WORK"); w != "" {
				_ = os.WriteFile(filepath.Join(w, "race_"+mode+".txt"), []byte(r.c.stderr), 0o644)
			}
			continue
		}
		if r.c.timedOut || r.c.exit != 0 || !strings.Contains(r.c.stdout, "DONE") {
			o.Verdict("BADOP", fmt.Sprintf("%s ## %s failed (exit %d timeout %v): %.300s", all, mode, r.c.exit, r.c.timedOut, hlib.San(r.c.stderr)))
			continue
		}
		for _, l := range strings.Split(r.c.stdout, "\n") {
			fs := strings.Fields(l)
			if len(fs) == 4 && fs[0] == "H" {
				var k int
				fmt.Sscan(fs[2], &k)
				if k >= 0 && k < len(r.ps) {
					toks[r.ps[k]] = append(toks[r.ps[k]], fs[1]+" "+fs[3])
				}
			}
		}
	}
	for _, f := range formats {
		var obs []string
		seq := 0
		for k, p := range byFormat[f] {
			for _, t := range toks[pair{p, fmtName(f)}] {
				mh := strings.Fields(t)
				obs = append(obs, fmt.Sprintf("%s:%d:%s", mh[0], k, mh[1]))
				if mh[0] == "first" || strings.HasPrefix(mh[0], "rep") {
					seq++
				}
			}
		}
		if len(obs) == 0 {
			continue // a child failed; already reported
		}
		o.Case("sweep "+fmtName(f)+" "+strings.Join(byFormat[f], " "), strings.Join(obs, " "))
		o.Class("sweep " + f)
		o.Stat("seqfmt_"+fmtName(f), seq)
		o.Stat("sweep_samples", len(byFormat[f]))
	}
	o.Stat("sweep_formats", len(formats))
}

// worker side: modes sweepA / sweepB / sweepC
func sweepWorker(w *bufio.Writer, mode string) {
	jobs, _ := readJobs()
	data := make([][]byte, len(jobs))
	for k, j := range jobs {
		b, err := j.load()
		if err != nil {
			fmt.Fprintln(os.Stderr, err)
			os.Exit(3)
		}
		data[k] = b
	}
	switch mode {
	case "sweepA":
		for k, j := range jobs {
			for _, m := range []string{"first", "rep1", "rep2"} {
				fmt.Fprintf(w, "H %s %d %s\n", m, k, decodeTree(j, data[k]))
			}
		}
	case "sweepB":
		for k, j := range jobs {
			fmt.Fprintf(w, "H other %d %s\n", k, decodeTree(j, data[k]))
		}
	case "sweepC":
		// every goroutine decodes EVERY pair, each in its own order, and keeps its results to itself: no
		// channel, lock or shared buffer between the decodes, so that the race detector sees two decodes of
		// the same format on different goroutines without a happens-before edge between them
		const G = 8
		res := make([][]string, G)
		// pass 1, in rounds: all goroutines decode the SAME pair at the same time (a barrier between the
		// rounds orders round i before round i+1, the G decodes inside a round are unordered)
		for k := range jobs {
			var rw sync.WaitGroup
			go1 := make(chan struct{})
			for g := 0; g < G; g++ {
				rw.Add(1)
				go func() {
					defer rw.Done()
					<-go1
					res[g] = append(res[g], fmt.Sprintf("H conc %d %s", k, decodeTree(jobs[k], data[k])))
				}()
			}
			close(go1)
			rw.Wait()
		}
		if os.Getenv("C18_SWEEP_LIGHT") != "" {
			for _, rs := range res {
				for _, l := range rs {
					fmt.Fprintln(w, l)
				}
			}
			break
		}
		// pass 2, free running: different pairs (and formats) overlap
		start := make(chan struct{})
		var wg sync.WaitGroup
		for g := 0; g < G; g++ {
			wg.Add(1)
			go func() {
				defer wg.Done()
				r := hlib.NewRand(0xc18c + uint64(g))
				order := make([]int, len(jobs))
				for i := range order {
					order[i] = i
				}
				for i := len(order) - 1; i > 0; i-- {
					k := r.Intn(i + 1)
					order[i], order[k] = order[k], order[i]
				}
				<-start
				for _, k := range order {
					res[g] = append(res[g], fmt.Sprintf("H conc %d %s", k, decodeTree(jobs[k], data[k])))
				}
			}()
		}
		close(start)
		wg.Wait()
		for _, rs := range res {
			for _, l := range rs {
				fmt.Fprintln(w, l)
			}
		}
	}
	fmt.Fprintln(w, "DONE")
}
