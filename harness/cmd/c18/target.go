//go:build verif

package main

import (
	"fmt"
	"os"
	"path/filepath"
	"reflect"
	"regexp"
	"runtime"
	"sort"
	"strings"

	"github.com/wader/fq/internal/verifharness/hlib"
	"github.com/wader/fq/pkg/interp"
)

// Directed search (DESIGN §1.1 step 6): when a regenerated table of lean/FqModel/Gen/Globals.lean has an
// entry that the allow-lists of lean/Props/C18.lean do not cover, the proof obligation is broken — and the
// entry names the package (and variable) that holds the new shared state.  Instead of settling for
// "no-failing-input-found" the monitor is aimed at it:
//
//	a format package (format/…):  every format whose decoder lives in that package is swept with its samples
//	    AND with every single-byte variant of the first 256 bytes of each small sample (values 0..3, 0xff:
//	    type/encoding/version selectors are small numbers) — three decodes in a row in one process and one
//	    decode by each of 8 unsynchronised goroutines under the race detector;
//	any other package (pkg/interp, pkg/decode, internal/…):  CLI jobs over the display option space
//	    (colour tables, bases, truncation …) sequentially in permuted orders and concurrently.
//
// A difference or a race found here is an ordinary PROPFAIL with a replay line.

var strRe = regexp.MustCompile(`"((?:[^"\\]|\\.)*)"`)

type offEntry struct {
	table  string
	fields []string
	text   string
}

func offendingEntries() []offEntry {
	dir := os.Getenv("VERIF_DIR")
	if dir == "" {
		dir = "/verif"
	}
	gen, err1 := os.ReadFile(filepath.Join(dir, "lean/FqModel/Gen/Globals.lean"))
	props, err2 := os.ReadFile(filepath.Join(dir, "lean/Props/C18.lean"))
	if err1 != nil || err2 != nil {
		return nil
	}
	ptext := string(props)
	var out []offEntry
	table := ""
	for _, l := range strings.Split(string(gen), "\n") {
		if strings.HasPrefix(l, "def ") {
			table = strings.Fields(l)[1]
			continue
		}
		t := strings.TrimSpace(l)
		if !strings.HasPrefix(t, "⟨") {
			continue
		}
		end := strings.Index(t, "⟩")
		if end < 0 {
			continue
		}
		tuple := t[:end+len("⟩")]
		var fs []string
		for _, m := range strRe.FindAllStringSubmatch(tuple, -1) {
			fs = append(fs, m[1])
		}
		listed := strings.Contains(ptext, tuple)
		last := ""
		if len(fs) > 0 {
			last = fs[len(fs)-1]
		}
		off := false
		switch table {
		case "writes", "otherCalls", "callInitVars":
			off = !listed
		case "ptrCalls":
			off = len(fs) >= 3 && !strings.Contains(ptext, `"`+fs[2]+`"`)
		case "typeWrites":
			off = last == "run" || !strings.Contains(ptext, `"`+last+`"`)
		case "guardedUses":
			off = len(fs) > 0 && (strings.HasSuffix(fs[0], "lazyre.RE") || strings.HasSuffix(fs[0], "interp.Registry")) && last != "init" && !listed
		}
		if off {
			out = append(out, offEntry{table, fs, tuple})
		}
	}
	return out
}

func (e offEntry) pkg() string {
	switch e.table {
	case "typeWrites", "guardedUses":
		if len(e.fields) >= 3 {
			return e.fields[2]
		}
	default:
		if len(e.fields) >= 1 {
			return e.fields[0]
		}
	}
	return ""
}

// formatsOfPackage: registered formats whose DecodeFn is declared in the package (relative path)
func formatsOfPackage(rel string) []string {
	var out []string
	for _, f := range interp.DefaultRegistry.MustAll().Formats {
		if f.DecodeFn == nil {
			continue
		}
		fn := runtime.FuncForPC(reflect.ValueOf(f.DecodeFn).Pointer())
		if fn == nil {
			continue
		}
		name := fn.Name() // github.com/wader/fq/format/id3.id3v2Decode
		if i := strings.LastIndex(name, "/"); i >= 0 {
			if j := strings.Index(name[i:], "."); j >= 0 {
				name = name[:i+j]
			}
		}
		if strings.HasSuffix(name, "/"+rel) {
			out = append(out, f.Name)
		}
	}
	sort.Strings(out)
	return out
}

func runTarget(o *hlib.Out, r *hlib.Rand) {
	offs := offendingEntries()
	o.Stat("target_offending_entries", len(offs))
	if len(offs) == 0 {
		return
	}
	pkgs := map[string]bool{}
	for _, e := range offs {
		fmt.Println("TARGET offending entry of Gen." + e.table + ": " + e.text)
		if p := e.pkg(); p != "" {
			pkgs[p] = true
		}
	}
	fmtTargets := map[string]bool{}
	other := false
	for p := range pkgs {
		if strings.HasPrefix(p, "format/") {
			fs := formatsOfPackage(p)
			for _, f := range fs {
				fmtTargets[f] = true
			}
			if len(fs) == 0 {
				other = true
			}
		} else {
			other = true
		}
	}
	if len(fmtTargets) > 0 {
		all := sweepPairs(r, 8)
		by := map[string][]string{}
		for f := range fmtTargets {
			for _, p := range all[f] {
				by[f] = append(by[f], p)
				st, err := os.Stat(filepath.Join(repoDir(), p))
				if err != nil || st.Size() > 4096 {
					continue
				}
				b, err := os.ReadFile(filepath.Join(repoDir(), p))
				if err != nil {
					continue
				}
				for pos := 0; pos < len(b) && pos < 256; pos++ {
					for _, v := range []byte{0, 1, 2, 3, 0xff} {
						if b[pos] != v {
							by[f+"#"+filepath.Base(p)] = append(by[f+"#"+filepath.Base(p)], fmt.Sprintf("%s~%d:%d", p, pos, v))
						}
					}
				}
			}
		}
		o.Stat("target_formats", len(fmtTargets))
		runSweepOpts(o, by, true)
	}
	if other {
		// display option space through the CLI: all option sets on two samples, as trials of 8 jobs
		files := []string{"format/png/testdata/4x4.png", "format/mp3/testdata/headerfooter.mp3"}
		var jobs []job
		for i, ds := range displayOptions {
			opts := append([]string(nil), ds...)
			sort.Strings(opts)
			render := []string{"d", "dv", "json"}[i%3]
			if len(opts) > 1 && strings.HasPrefix(opts[0], "byte_colors") || opts[0] == "color=true" {
				render = []string{"d", "dv"}[i%2]
			}
			jobs = append(jobs, job{path: files[i%2], trunc: -1, format: "probe", opts: opts, render: render})
		}
		jobs = append(jobs, job{path: files[0], trunc: -1, format: "probe", render: "d"}, job{path: files[1], trunc: -1, format: "probe", render: "dv"})
		refs := computeRefs(o, jobs)
		for i := 0; i < len(jobs); i += 6 {
			end := min(i+6, len(jobs))
			// colour-table jobs next to every group: a full table, then partial ones
			tr := append([]job{jobs[0]}, jobs[i:end]...)
			tr = append(tr, jobs[1], jobs[2])
			runTrial(o, uint64(5+2*i), tr, refs)
			o.Stat("target_display_trials", 1)
		}
	}
}
