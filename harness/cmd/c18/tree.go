//go:build verif

package main

import (
	"context"
	"crypto/sha256"
	"encoding/hex"
	"fmt"
	"math"
	"math/big"
	"reflect"
	"sort"
	"strconv"
	"strings"

	"github.com/mitchellh/copystructure"
	"github.com/wader/fq/internal/mapstruct"
	"github.com/wader/fq/pkg/bitio"
	"github.com/wader/fq/pkg/decode"
	"github.com/wader/fq/pkg/interp"
	"github.com/wader/fq/pkg/scalar"
)

// The "hammer" phase drives pkg/decode directly, without the interpreter: one fq job spends ~99 % of
// its time compiling jq, so that whole-job concurrency overlaps the DECODERS of two jobs only rarely.
// decodeTree is what pkg/interp/decode.go:_decode does (same Options, a ParseOptsFn with the same
// deep-copy contract) and hashes the resulting tree: names, ranges, scalar values, symbols,
// descriptions, errors — everything `dv` would show except the hex dump.

func optsMap(j job) map[string]any {
	m := map[string]any{}
	for _, o := range j.opts {
		k, v, _ := strings.Cut(o, "=")
		switch {
		case v == "true":
			m[k] = true
		case v == "false":
			m[k] = false
		default:
			if n, err := strconv.Atoi(v); err == nil {
				m[k] = n
			} else {
				m[k] = v
			}
		}
	}
	return m
}

func decodeTree(j job, data []byte) (h string) {
	defer func() {
		if r := recover(); r != nil {
			h = "panic:" + shortHash([]byte(fmt.Sprint(r)))
		}
	}()
	name := j.format
	group, err := interp.DefaultRegistry.Group(name)
	if err != nil {
		return "nogroup"
	}
	remain := optsMap(j)
	dv, _, derr := decode.Decode(context.Background(), bitio.NewBitReader(append([]byte(nil), data...), -1), group, decode.Options{
		IsRoot:      true,
		FillGaps:    true,
		Description: j.vname(),
		ParseOptsFn: func(init any) any {
			v, err := copystructure.Copy(init)
			if err != nil {
				return nil
			}
			if len(remain) > 0 {
				if err := mapstruct.ToStruct(remain, &v); err != nil {
					return nil
				}
			}
			if reflect.DeepEqual(init, v) {
				return nil
			}
			return v
		},
	})
	hh := sha256.New()
	n := 0
	if derr != nil {
		fmt.Fprintf(hh, "err %s\n", derr.Error())
	}
	if dv != nil {
		_ = dv.WalkPreOrder(func(v *decode.Value, _ *decode.Value, depth int, _ int) error {
			n++
			fmt.Fprintf(hh, "%d %s %d %d", depth, v.Name, v.Range.Start, v.Range.Len)
			switch c := v.V.(type) {
			case *decode.Compound:
				fmt.Fprintf(hh, " c %v %d %q", c.IsArray, len(c.Children), c.Description)
			case *scalar.BitBuf:
				fmt.Fprintf(hh, " raw %s %q", stable(c.Sym, 0), c.Description)
			case interface {
				ScalarActual() any
				ScalarSym() any
				ScalarDescription() string
			}:
				fmt.Fprintf(hh, " s %s|%s|%q", stable(c.ScalarActual(), 0), stable(c.ScalarSym(), 0), c.ScalarDescription())
			default:
				fmt.Fprintf(hh, " ? %T", v.V)
			}
			if v.Err != nil {
				fmt.Fprintf(hh, " E %s", v.Err.Error())
			}
			if v.Format != nil {
				fmt.Fprintf(hh, " F %s", v.Format.Name)
			}
			hh.Write([]byte{'\n'})
			return nil
		})
	}
	return hex.EncodeToString(hh.Sum(nil)[:8]) + "/" + strconv.Itoa(n)
}

// stable renders a scalar value without addresses: basic kinds, []byte, *big.Int, and maps/slices of
// those (keys sorted); anything else (readers, binaries) by its type only.
func stable(a any, depth int) string {
	if a == nil {
		return "nil"
	}
	if depth > 40 {
		return "deep"
	}
	switch x := a.(type) {
	case *big.Int:
		if x == nil {
			return "nil"
		}
		return "b" + x.String()
	case []byte:
		return "x" + hex.EncodeToString(x)
	}
	v := reflect.ValueOf(a)
	switch v.Kind() {
	case reflect.Bool, reflect.Int, reflect.Int8, reflect.Int16, reflect.Int32, reflect.Int64,
		reflect.Uint, reflect.Uint8, reflect.Uint16, reflect.Uint32, reflect.Uint64:
		return fmt.Sprintf("%v", a)
	case reflect.Float32, reflect.Float64:
		return strconv.FormatUint(math.Float64bits(v.Float()), 16)
	case reflect.String:
		return strconv.Quote(v.String())
	case reflect.Slice, reflect.Array:
		var sb strings.Builder
		sb.WriteByte('[')
		for i := 0; i < v.Len(); i++ {
			sb.WriteString(stable(v.Index(i).Interface(), depth+1))
			sb.WriteByte(',')
		}
		sb.WriteByte(']')
		return sb.String()
	case reflect.Map:
		var es []string
		for _, k := range v.MapKeys() {
			es = append(es, stable(k.Interface(), depth+1)+":"+stable(v.MapIndex(k).Interface(), depth+1))
		}
		sort.Strings(es)
		return "{" + strings.Join(es, ",") + "}"
	}
	return fmt.Sprintf("<%T>", a)
}

func shortHash(b []byte) string {
	s := sha256.Sum256(b)
	return hex.EncodeToString(s[:6])
}
