//go:build verif

package main

import (
	"context"
	"crypto/sha256"
	"encoding/hex"
	"fmt"
	"reflect"
	"strconv"
	"strings"

	"github.com/mitchellh/copystructure"
	"github.com/wader/fq/internal/mapstruct"
	"github.com/wader/fq/pkg/bitio"
	"github.com/wader/fq/pkg/decode"
	"github.com/wader/fq/pkg/interp"
	"github.com/wader/fq/pkg/scalar"
)

// The "hammer" phase drives pkg/decode directly, without the interpreter: one fq job spends ~99 % of
// its time compiling jq, so that whole-job concurrency overlaps the DECODERS of two jobs only rarely.
// decodeTree is what pkg/interp/decode.go:_decode does (same Options, a ParseOptsFn with the same
// deep-copy contract) and hashes the resulting tree: names, ranges, scalar values, symbols,
// descriptions, errors — everything `dv` would show except the hex dump.

func optsMap(j job) map[string]any {
	m := map[string]any{}
	for _, o := range j.opts {
		k, v, _ := strings.Cut(o, "=")
		switch {
		case v == "true":
			m[k] = true
		case v == "false":
			m[k] = false
		default:
			if n, err := strconv.Atoi(v); err == nil {
				m[k] = n
			} else {
				m[k] = v
			}
		}
	}
	return m
}

func decodeTree(j job, data []byte) (h string) {
	defer func() {
		if r := recover(); r != nil {
			h = "panic:" + shortHash([]byte(fmt.Sprint(r)))
		}
	}()
	name := j.format
	group, err := interp.DefaultRegistry.Group(name)
	if err != nil {
		return "nogroup"
	}
	remain := optsMap(j)
	dv, _, derr := decode.Decode(context.Background(), bitio.NewBitReader(append([]byte(nil), data...), -1), group, decode.Options{
		IsRoot:      true,
		FillGaps:    true,
		Description: j.vname(),
		ParseOptsFn: func(init any) any {
			v, err := copystructure.Copy(init)
			if err != nil {
				return nil
			}
			if len(remain) > 0 {
				if err := mapstruct.ToStruct(remain, &v); err != nil {
					return nil
				}
			}
			if reflect.DeepEqual(init, v) {
				return nil
			}
			return v
		},
	})
	hh := sha256.New()
	n := 0
	if derr != nil {
		fmt.Fprintf(hh, "err %s\n", derr.Error())
	}
	if dv != nil {
		_ = dv.WalkPreOrder(func(v *decode.Value, _ *decode.Value, depth int, _ int) error {
			n++
			fmt.Fprintf(hh, "%d %s %d %d", depth, v.Name, v.Range.Start, v.Range.Len)
			switch c := v.V.(type) {
			case *decode.Compound:
				fmt.Fprintf(hh, " c %v %d %q", c.IsArray, len(c.Children), c.Description)
			case *scalar.BitBuf:
				fmt.Fprintf(hh, " raw %v %q", c.Sym, c.Description)
			case interface {
				ScalarActual() any
				ScalarSym() any
				ScalarDescription() string
			}:
				fmt.Fprintf(hh, " s %v|%v|%q", c.ScalarActual(), c.ScalarSym(), c.ScalarDescription())
			default:
				fmt.Fprintf(hh, " ? %T", v.V)
			}
			if v.Err != nil {
				fmt.Fprintf(hh, " E %s", v.Err.Error())
			}
			if v.Format != nil {
				fmt.Fprintf(hh, " F %s", v.Format.Name)
			}
			hh.Write([]byte{'\n'})
			return nil
		})
	}
	return hex.EncodeToString(hh.Sum(nil)[:8]) + "/" + strconv.Itoa(n)
}

func shortHash(b []byte) string {
	s := sha256.Sum256(b)
	return hex.EncodeToString(s[:6])
}
