//go:build verif

package main

import (
	"bytes"
	"context"
	"crypto/sha256"
	"encoding/hex"
	"fmt"
	"io"
	"io/fs"
	"time"

	_ "github.com/wader/fq/format/all"
	"github.com/wader/fq/pkg/interp"
)

// virtual OS for an in-process fq (after format/fuzz_test.go and internal/script): the one input
// file comes from memory, stdout/stderr are captured, no terminal, no environment, no config.
type memFile struct {
	*bytes.Reader
	name string
	size int64
}

func (f *memFile) Stat() (fs.FileInfo, error) {
	return interp.FixedFileInfo{FName: f.name, FSize: f.size, FMode: 0o444, FModTime: time.Unix(0, 0)}, nil
}
func (f *memFile) Close() error { return nil }

type memFS map[string][]byte

func (m memFS) Open(name string) (fs.File, error) {
	b, ok := m[name]
	if !ok {
		return nil, &fs.PathError{Op: "open", Path: name, Err: fs.ErrNotExist}
	}
	return &memFile{Reader: bytes.NewReader(b), name: name, size: int64(len(b))}, nil
}

type vin struct {
	interp.FileReader
	io.Writer
}

func (vin) IsTerminal() bool { return false }
func (vin) Size() (int, int) { return 120, 25 }

type vout struct{ io.Writer }

func (vout) Size() (int, int) { return 120, 25 }
func (vout) IsTerminal() bool { return false }

type vos struct {
	args   []string
	files  memFS
	stdout *bytes.Buffer
	stderr *bytes.Buffer
}

func (o *vos) Platform() interp.Platform { return interp.Platform{} }
func (o *vos) Stdin() interp.Input {
	return vin{FileReader: interp.FileReader{R: bytes.NewBuffer(nil)}}
}
func (o *vos) Stdout() interp.Output                             { return vout{o.stdout} }
func (o *vos) Stderr() interp.Output                             { return vout{o.stderr} }
func (o *vos) InterruptChan() chan struct{}                      { return nil }
func (o *vos) Environ() []string                                 { return nil }
func (o *vos) Args() []string                                    { return o.args }
func (o *vos) ConfigDir() (string, error)                        { return "/config", nil }
func (o *vos) FS() fs.FS                                         { return o.files }
func (o *vos) History() ([]string, error)                        { return nil, nil }
func (o *vos) Readline(opts interp.ReadlineOpts) (string, error) { return "", io.EOF }

// result of one job: everything fq wrote and how Main ended
type result struct {
	out []byte // stdout 0x00 stderr 0x00 error text
}

func (r result) hash() string {
	h := sha256.Sum256(r.out)
	return fmt.Sprintf("%s/%d", hex.EncodeToString(h[:8]), len(r.out))
}

// runJob = one fq invocation: a fresh Interp on the process-wide DefaultRegistry, its own virtual
// OS, its own copy of the input bytes.  The copy makes sure that a decoder that scribbles over its
// input cannot influence another job through the harness itself.
func runJob(j job, data []byte) (res result) {
	o := &vos{args: append([]string{"fq"}, j.args()...), files: memFS{j.vname(): append([]byte(nil), data...)},
		stdout: &bytes.Buffer{}, stderr: &bytes.Buffer{}}
	var err error
	func() {
		defer func() {
			if r := recover(); r != nil {
				err = fmt.Errorf("panic: %v", r)
			}
		}()
		q, nerr := interp.New(o, interp.DefaultRegistry)
		if nerr != nil {
			err = nerr
			return
		}
		err = q.Main(context.Background(), o.Stdout(), "verif")
	}()
	var b bytes.Buffer
	b.Write(o.stdout.Bytes())
	b.WriteByte(0)
	b.Write(o.stderr.Bytes())
	b.WriteByte(0)
	if err != nil {
		b.WriteString("error: " + err.Error())
	}
	return result{out: b.Bytes()}
}
