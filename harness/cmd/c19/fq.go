//go:build verif

// Running the real fq in-process on a capture held in memory (virtual OS after
// format/fuzz_test.go), and the second observation: the calls gopacket's assembler makes
// into fq's Stream implementation (through the in-package accessor VerifC19NewTraced).
package main

import (
	"bytes"
	"context"
	"encoding/json"
	"fmt"
	"io"
	"io/fs"
	"os"
	"strings"
	"time"

	_ "github.com/wader/fq/format/all"
	"github.com/wader/fq/format/inet/flowsdecoder"
	"github.com/wader/fq/format/pcap"
	"github.com/wader/fq/internal/verifharness/hlib"
	"github.com/wader/fq/pkg/interp"
)

type memFile struct {
	*bytes.Reader
	name string
	size int64
}

func (f *memFile) Stat() (fs.FileInfo, error) {
	return interp.FixedFileInfo{FName: f.name, FSize: f.size, FMode: 0o444, FModTime: time.Unix(0, 0)}, nil
}
func (f *memFile) Close() error { return nil }

type memFS map[string][]byte

func (m memFS) Open(name string) (fs.File, error) {
	b, ok := m[name]
	if !ok {
		return nil, &fs.PathError{Op: "open", Path: name, Err: fs.ErrNotExist}
	}
	return &memFile{Reader: bytes.NewReader(b), name: name, size: int64(len(b))}, nil
}

type vin struct {
	interp.FileReader
	io.Writer
}

func (vin) IsTerminal() bool { return false }
func (vin) Size() (int, int) { return 120, 25 }

type vout struct{ io.Writer }

func (vout) Size() (int, int) { return 120, 25 }
func (vout) IsTerminal() bool { return false }

type vos struct {
	files  memFS
	args   []string
	stdout *bytes.Buffer
	stderr *bytes.Buffer
}

func (o *vos) Platform() interp.Platform { return interp.Platform{} }
func (o *vos) Stdin() interp.Input {
	return vin{FileReader: interp.FileReader{R: bytes.NewBuffer(nil)}}
}
func (o *vos) Stdout() interp.Output                             { return vout{o.stdout} }
func (o *vos) Stderr() interp.Output                             { return vout{o.stderr} }
func (o *vos) InterruptChan() chan struct{}                      { return nil }
func (o *vos) Environ() []string                                 { return nil }
func (o *vos) Args() []string                                    { return o.args }
func (o *vos) ConfigDir() (string, error)                        { return "/config", nil }
func (o *vos) FS() fs.FS                                         { return o.files }
func (o *vos) History() ([]string, error)                        { return nil, nil }
func (o *vos) Readline(opts interp.ReadlineOpts) (string, error) { return "", io.EOF }

// the observation program: everything fieldFlows exposes about the flows, read through jq;
// run as `fq -r <program> file…` (formats are probed), one output line per capture file
const obsProg = `
def hx: tobytes | if length == 0 then "-" else to_hex end;
format as $f
| [ (if type == "array" then .[] else . end)
    | { c: [ .tcp_connections[]
             | [ (.client, .server)
                 | [ (.ip | toactual), (.port | toactual), (.skipped_bytes | toactual),
                     (.has_start | toactual), (.has_end | toactual), (.stream | hx) ] ] ],
        r: [ .ipv4_reassembled[] | hx ] } ]
| {n: input_filename, f: $f, s: .}
| tojson
`

type fqDir struct {
	ip         string
	port       int
	skipped    uint64
	start, end bool
	stream     []byte
}

type fqSection struct {
	conns [][2]fqDir
	reasm [][]byte
}

type fqObs struct {
	format   string
	sections []fqSection
}

type fqResult struct {
	obs *fqObs
	err error
}

// runFqBatch runs the real command line interpreter once over all captures.
func runFqBatch(captures [][]byte) (res []fqResult) {
	res = make([]fqResult, len(captures))
	o := &vos{files: memFS{}, stdout: &bytes.Buffer{}, stderr: &bytes.Buffer{}}
	o.args = []string{"fq", "-r", obsProg}
	for i, c := range captures {
		name := fmt.Sprintf("c%d.cap", i)
		o.files[name] = c
		o.args = append(o.args, name)
		res[i].err = fmt.Errorf("no output")
	}
	var mainErr error
	func() {
		defer func() {
			if r := recover(); r != nil {
				mainErr = fmt.Errorf("panic: %v", r)
			}
		}()
		q, err := interp.New(o, interp.DefaultRegistry)
		if err != nil {
			mainErr = err
			return
		}
		_ = q.Main(context.Background(), o.Stdout(), "verif")
	}()
	if mainErr != nil {
		if len(captures) == 1 {
			res[0].err = mainErr
			return res
		}
		// a crash: one by one
		for i, c := range captures {
			res[i] = runFqBatch([][]byte{c})[0]
		}
		return res
	}
	if os.Getenv("C19_DEBUG") != "" && o.stderr.Len() > 0 {
		fmt.Fprintln(os.Stderr, "fq stderr:", o.stderr.String())
	}
	for _, line := range strings.Split(o.stdout.String(), "\n") {
		if strings.TrimSpace(line) == "" {
			continue
		}
		name, obs, err := parseObs(line)
		var i int
		if _, e := fmt.Sscanf(name, "c%d.cap", &i); e != nil || i < 0 || i >= len(res) {
			continue
		}
		res[i] = fqResult{obs: obs, err: err}
	}
	return res
}

func parseObs(line string) (name string, obs *fqObs, err error) {
	var raw struct {
		N string `json:"n"`
		F string `json:"f"`
		S []struct {
			C [][][]any `json:"c"`
			R []string  `json:"r"`
		} `json:"s"`
	}
	dec := json.NewDecoder(strings.NewReader(line))
	dec.UseNumber()
	if e := dec.Decode(&raw); e != nil {
		return "", nil, e
	}
	name = raw.N
	obs = &fqObs{format: raw.F}
	for _, s := range raw.S {
		var sec fqSection
		for _, c := range s.C {
			if len(c) != 2 {
				return name, nil, fmt.Errorf("connection with %d directions", len(c))
			}
			var cd [2]fqDir
			for i, d := range c {
				if len(d) != 6 {
					return name, nil, fmt.Errorf("direction with %d fields", len(d))
				}
				ip, ok1 := d[0].(string)
				port, ok2 := d[1].(json.Number)
				sk, ok3 := d[2].(json.Number)
				st, ok4 := d[3].(bool)
				en, ok5 := d[4].(bool)
				hx, ok6 := d[5].(string)
				if !(ok1 && ok2 && ok3 && ok4 && ok5 && ok6) {
					return name, nil, fmt.Errorf("direction field types %v", d)
				}
				p, e1 := port.Int64()
				var skv uint64
				_, e2 := fmt.Sscan(sk.String(), &skv)
				if e1 != nil || e2 != nil {
					return name, nil, fmt.Errorf("number %v %v", port, sk)
				}
				cd[i] = fqDir{ip: ip, port: int(p), skipped: skv, start: st, end: en, stream: hlib.UnHex(hx)}
			}
			sec.conns = append(sec.conns, cd)
		}
		for _, r := range s.R {
			sec.reasm = append(sec.reasm, hlib.UnHex(r))
		}
		obs.sections = append(obs.sections, sec)
	}
	return name, obs, nil
}

// traceEvent is a ReassembledSG call or the flush marker (conn < 0).
type traceEvent struct {
	flush      bool
	newSection bool
	call       flowsdecoder.VerifC19Call
}

type traceObs struct {
	events []traceEvent
	// what the traced Decoders hold afterwards (the same structure fieldFlows reads), per section
	sections []fqSection
}

// runTrace feeds the frames to a traced flowsdecoder.Decoder through the dispatch table of
// format/pcap/shared.go, then flushes once — the usage of decodePcap / decodePcapng: a new decoder for
// every section. merged: fq reported ONE section for a file with several section header blocks (what it does
// when section_length is -1): then one decoder sees all packets, and the interface id of a packet indexes
// the interface descriptions of all sections read so far.
func runTrace(k *kase, merged bool) (t *traceObs, err error) {
	defer func() {
		if r := recover(); r != nil {
			err = fmt.Errorf("panic: %v", r)
		}
	}()
	t = &traceObs{}
	frames, ifaces, flinks, _ := k.frames()
	secs := k.sections()
	if merged {
		var table []string
		flinks = append([]string(nil), flinks...)
		for si, r := range secs {
			table = append(table, k.linksOf(si)...)
			for i := r[0]; i < r[1]; i++ {
				flinks[i] = table[ifaces[i]]
			}
		}
		secs = [][2]int{{0, len(k.pkts)}}
	}
	for si, r := range secs {
		if si > 0 {
			t.events = append(t.events, traceEvent{newSection: true})
		}
		// decodePcapng: a new flows decoder per section, flushed at the end of the section
		fd := flowsdecoder.VerifC19NewTraced(flowsdecoder.DecoderOptions{CheckTCPOptions: false}, func(c flowsdecoder.VerifC19Call) {
			t.events = append(t.events, traceEvent{call: c})
		})
		for i := r[0]; i < r[1]; i++ {
			if fn, ok := pcap.VerifC19LinkFn(int(linkNum[flinks[i]])); ok {
				_ = fn(fd, frames[i])
			}
		}
		t.events = append(t.events, traceEvent{flush: true})
		fd.Flush()
		var sec fqSection
		for _, c := range fd.TCPConnections {
			var cd [2]fqDir
			for i, d := range []*flowsdecoder.TCPDirection{c.Client, c.Server} {
				cd[i] = fqDir{ip: d.Endpoint.IP.String(), port: d.Endpoint.Port, skipped: d.SkippedBytes, start: d.HasStart, end: d.HasEnd,
					stream: append([]byte(nil), d.Buffer.Bytes()...)}
			}
			sec.conns = append(sec.conns, cd)
		}
		for _, r := range fd.IPV4Reassembled {
			sec.reasm = append(sec.reasm, r.Datagram)
		}
		t.sections = append(t.sections, sec)
	}
	return t, nil
}
