//go:build verif

// Generator: conversations (1..4 connections) × segmentations × interleavings ×
// {duplicate, adjacent swap, IPv4 fragmentation, omission} × link types × file formats,
// every choice from one hlib.Rand.
package main

import (
	"fmt"
	"sort"
	"strings"

	"github.com/wader/fq/internal/verifharness/hlib"
)

type profile struct {
	name      string
	plainFile bool // pcap_le + ethernet only
	maxConns  int
	perturb   int // maximal number of perturbations per connection
	allowOmit bool
	allowFrag bool
	allowSwap bool
	allowDup  bool
	edgeSwap  bool // swaps may involve SYN / FIN / pure ACK packets
	fragMess  bool // fragments may be swapped / duplicated / dropped
	noSynFin  bool // SYN / FIN may be absent
	sections  bool // pcapng captures have 2..3 sections
	snap      bool // records may be cut by the snap length (incl_len < orig_len)
	big       bool
}

var fmtNames = []string{"pcap_le", "pcap_be", "pcap_le_ns", "pcap_be_ns", "pcapng_le", "pcapng_be"}
var linkNames = []string{"eth", "raw", "ipv4", "ipv6", "sll", "sll2", "null"}

var fragID uint16

// genV6 makes addresses that exercise the textual form fq prints: zero runs of every length and position,
// two runs of equal length, a single zero group, IPv4-mapped, all zero / loopback
func genV6(r *hlib.Rand, ci int, side byte) []byte {
	ip := make([]byte, 16)
	switch r.Intn(8) {
	case 0: // fd00::<ci>:<x>
		ip[0] = 0xfd
		ip[13], ip[14], ip[15] = byte(ci), side, byte(1+r.Intn(250))
	case 1: // ::1 / ::<x>
		ip[15] = byte(1 + r.Intn(250))
		ip[14] = side
		ip[13] = byte(ci)
	case 2: // IPv4-mapped ::ffff:a.b.c.d
		ip[10], ip[11] = 0xff, 0xff
		ip[12], ip[13], ip[14], ip[15] = 10, side, byte(ci), byte(1+r.Intn(250))
	default:
		for g := 0; g < 8; g++ {
			switch r.Intn(3) {
			case 0:
			case 1:
				ip[2*g+1] = byte(1 + r.Intn(255))
			default:
				ip[2*g], ip[2*g+1] = byte(r.Intn(256)), byte(r.Intn(256))
			}
		}
		ip[0], ip[1] = 0x20, 0x01
		ip[14], ip[15] = side, byte(ci+1)
	}
	return ip
}

func genConn(r *hlib.Rand, ci int, pf profile, v6 bool) conn {
	var c conn
	c.ip[0] = []byte{10, 0, byte(ci), byte(1 + r.Intn(250))}
	c.ip[1] = []byte{10, 1, byte(r.Intn(3)), byte(1 + r.Intn(250))}
	if v6 {
		c.ip[0] = genV6(r, ci, 1)
		c.ip[1] = genV6(r, ci, 2)
	}
	c.port[0] = uint16(1024 + ci*1000 + r.Intn(1000))
	switch r.Intn(8) {
	case 0:
		c.port[1] = 80
	case 1:
		c.port[1] = 443
	case 2:
		c.port[1] = 53
	case 3:
		c.port[1] = c.port[0] // equal ports: the directions differ only by address
	case 4:
		c.port[1] = uint16(r.Intn(1024))
	default:
		c.port[1] = uint16(1024 + r.Intn(60000))
	}
	if !v6 && r.Intn(10) == 0 {
		// same address on both sides (loopback traffic): the directions differ only by port
		c.ip[0] = []byte{127, 0, 0, 1}
		c.ip[1] = c.ip[0]
		c.port[0] = uint16(20000 + ci*1000 + r.Intn(1000))
		c.port[1] = uint16(10000 + ci*1000 + r.Intn(1000))
	}
	var lens [2]int
	for d := 0; d < 2; d++ {
		switch {
		case pf.big:
			lens[d] = r.Range(20000, 65536)
			if d == 1 && r.Intn(3) == 0 {
				lens[d] = r.Range(0, 2000)
			}
		default:
			switch r.Intn(10) {
			case 0:
				lens[d] = 0
			case 1:
				lens[d] = r.Range(1, 4)
			case 2:
				lens[d] = r.Range(300, 4000)
			default:
				lens[d] = r.Range(1, 300)
			}
		}
	}
	for d := 0; d < 2; d++ {
		if lens[d] > 600 {
			c.data[d] = generatedData(r.U64()%1000000, lens[d])
		} else {
			c.data[d] = literalData(r.Bytes(lens[d]))
		}
		c.isn[d] = uint32(r.U64())
		switch r.Intn(10) {
		case 0:
			// the sequence numbers wrap inside the stream
			c.isn[d] = uint32(0x100000000 - uint64(r.Range(0, lens[d]+2)))
		case 1:
			c.isn[d] = uint32(r.Range(0, 3))
		}
	}
	return c
}

// segmentation of n bytes into pieces
func cuts(r *hlib.Rand, n int, big bool) []int {
	var out []int
	for n > 0 {
		var m int
		switch {
		case big:
			m = 1460
			if r.Intn(4) == 0 {
				m = r.Range(1, 1460)
			}
		case n > 600:
			m = r.Range(100, 1460)
		default:
			m = r.Range(1, 120)
			if r.Intn(4) == 0 {
				m = r.Range(1, 8)
			}
		}
		if m > n {
			m = n
		}
		out = append(out, m)
		n -= m
	}
	return out
}

// timeline builds the unperturbed packet sequence of one connection.
func timeline(r *hlib.Rand, ci int, c conn, pf profile) (tl []pkt, notes []string) {
	hasSyn, finMode := true, 2
	if pf.noSynFin {
		hasSyn = r.Intn(10) < 6
		finMode = r.Intn(3) // 0 none, 1 one side, 2 both
	}
	if hasSyn {
		tl = append(tl, pkt{conn: ci, dir: 0, so: 0, flags: fSYN}, pkt{conn: ci, dir: 1, so: 0, flags: fSYN | fACK},
			pkt{conn: ci, dir: 0, so: 1, flags: fACK})
	} else {
		notes = append(notes, "nosyn")
	}
	var segs [2][]int
	for d := 0; d < 2; d++ {
		segs[d] = cuts(r, len(c.data[d].bytes), pf.big)
	}
	pos := [2]int{1, 1}
	next := [2]int{0, 0}
	d := 0
	if !hasSyn {
		d = r.Intn(2)
	}
	for next[0] < len(segs[0]) || next[1] < len(segs[1]) {
		if next[d] >= len(segs[d]) || r.Intn(3) == 0 {
			d = 1 - d
			if next[d] >= len(segs[d]) {
				d = 1 - d
			}
		}
		n := segs[d][next[d]]
		fl := fACK
		if r.Intn(3) == 0 {
			fl |= fPSH
		}
		tl = append(tl, pkt{conn: ci, dir: d, so: pos[d], n: n, flags: fl})
		pos[d] += n
		next[d]++
		if r.Intn(6) == 0 {
			// a pure ACK from the other side
			tl = append(tl, pkt{conn: ci, dir: 1 - d, so: pos[1-d], flags: fACK})
		}
	}
	if finMode > 0 {
		x := r.Intn(2)
		order := []int{x, 1 - x}[:finMode]
		for _, e := range order {
			placed := false
			if r.Intn(3) == 0 {
				// FIN on the endpoint's last data segment, if that is the last packet of the timeline so far
				if last := len(tl) - 1; last >= 0 && tl[last].dir == e && tl[last].n > 0 {
					tl[last].flags |= fFIN
					placed = true
				}
			}
			if !placed {
				tl = append(tl, pkt{conn: ci, dir: e, so: pos[e], flags: fFIN | fACK})
			}
			pos[e]++
		}
		if finMode == 2 {
			tl = append(tl, pkt{conn: ci, dir: x, so: pos[x], flags: fACK})
		}
	}
	if finMode < 2 {
		notes = append(notes, fmt.Sprintf("fin%d", finMode))
	}
	return tl, notes
}

func isData(p pkt) bool { return !p.frag && p.n > 0 && p.flags&(fSYN|fFIN) == 0 }

// fragment splits the IP payload of tl[i] into 2..4 fragments (sizes multiples of 8).
func fragment(r *hlib.Rand, k *kase, p pkt, mess bool) ([]pkt, string) {
	body := k.segmentBytes(p)
	nf := r.Range(2, 4)
	var fr []pkt
	fragID++
	id := fragID & 0x7fff
	off := 0
	for i := 0; i < nf && off < len(body); i++ {
		rest := len(body) - off
		sz := rest
		if i < nf-1 {
			maxUnits := (rest - 1) / 8
			if maxUnits < 1 {
				break
			}
			sz = 8 * r.Range(1, maxUnits)
			if r.Intn(2) == 0 && maxUnits > 3 {
				sz = 8 * r.Range(1, 3)
			}
		}
		fr = append(fr, pkt{frag: true, conn: p.conn, dir: p.dir, ipid: id, foff: off, body: body[off : off+sz], mf: true})
		off += sz
	}
	if off < len(body) {
		fr = append(fr, pkt{frag: true, conn: p.conn, dir: p.dir, ipid: id, foff: off, body: body[off:], mf: true})
	}
	fr[len(fr)-1].mf = false
	note := fmt.Sprintf("frag%d", len(fr))
	if mess && len(fr) > 1 {
		switch r.Intn(5) {
		case 0:
			i := r.Intn(len(fr) - 1)
			fr[i], fr[i+1] = fr[i+1], fr[i]
			note += "swap"
		case 1:
			i := r.Intn(len(fr))
			fr = append(fr[:i+1], fr[i:]...)
			note += "dup"
		case 2:
			i := r.Intn(len(fr))
			fr = append(fr[:i:i], fr[i+1:]...)
			note += "drop"
		case 3:
			for i := len(fr) - 1; i > 0; i-- {
				j := r.Intn(i + 1)
				fr[i], fr[j] = fr[j], fr[i]
			}
			note += "shuffle"
		}
	}
	return fr, note
}

func perturb(r *hlib.Rand, k *kase, tl []pkt, pf profile) ([]pkt, []string) {
	var notes []string
	for i := range tl {
		tl[i].cut = cutNone
	}
	n := 0
	if pf.perturb > 0 {
		n = r.Intn(pf.perturb + 1)
	}
	for ; n > 0 && len(tl) > 0; n-- {
		var kinds []string
		if pf.allowDup {
			kinds = append(kinds, "dup")
		}
		if pf.allowSwap {
			kinds = append(kinds, "swap")
		}
		if pf.allowOmit {
			kinds = append(kinds, "omit")
		}
		if pf.allowFrag {
			kinds = append(kinds, "frag")
		}
		if pf.edgeSwap {
			kinds = append(kinds, "finfirst")
		}
		if pf.snap {
			kinds = append(kinds, "snap", "snap")
		}
		if pf.allowFrag {
			kinds = append(kinds, "dgram")
		}
		if len(kinds) == 0 {
			break
		}
		switch kinds[r.Intn(len(kinds))] {
		case "dup":
			i := r.Intn(len(tl))
			if tl[i].frag || (!pf.edgeSwap && !isData(tl[i])) {
				continue
			}
			j := r.Range(i+1, len(tl))
			if r.Intn(2) == 0 {
				j = i + 1
			}
			cp := tl[i]
			tl = append(tl[:j], append([]pkt{cp}, tl[j:]...)...)
			notes = append(notes, "dup")
		case "swap":
			if len(tl) < 2 {
				continue
			}
			i := r.Intn(len(tl) - 1)
			if tl[i].frag || tl[i+1].frag {
				continue
			}
			if !pf.edgeSwap && !(isData(tl[i]) && isData(tl[i+1])) {
				continue
			}
			tl[i], tl[i+1] = tl[i+1], tl[i]
			if isData(tl[i]) && isData(tl[i+1]) {
				notes = append(notes, "swap")
			} else {
				notes = append(notes, "edgeswap")
			}
		case "finfirst":
			// a payload-free FIN overtakes the preceding packet of the same sender (its last data segment)
			var cand []int
			for i := 1; i < len(tl); i++ {
				if !tl[i].frag && !tl[i-1].frag && tl[i].flags&fFIN != 0 && tl[i].n == 0 && tl[i-1].dir == tl[i].dir && tl[i-1].n > 0 {
					cand = append(cand, i)
				}
			}
			if len(cand) == 0 {
				continue
			}
			i := cand[r.Intn(len(cand))]
			tl[i-1], tl[i] = tl[i], tl[i-1]
			notes = append(notes, "finfirst")
		case "dgram":
			// a fragmented IPv4 datagram that is not a TCP segment of the conversation: other protocols, with and
			// without a decoder in gopacket, and payloads too short for their transport header
			c := k.conns[tl[0].conn]
			if c.v6() {
				continue
			}
			// with and without a decoder in gopacket; 47 (GRE), 89 (OSPF), 51 (AH), 112 (VRRP), 58, 132, 2 have decoders
			// that are fed garbage here (the GRE one panics on it: fixed finding reassembled-ipv4-upper-layer-panic)
			protos := []int{17, 1, 47, 47, 50, 132, 115, 103, 88, 253, 6, 17, 1, 0xff, 2, 89, 51, 112, 58, 136}
			proto := protos[r.Intn(len(protos))]
			n := r.Range(9, 120)
			if r.Intn(3) == 0 || proto == 6 {
				// shorter than a TCP header, may be shorter than other headers too (a protocol 6 datagram of 20 bytes
				// or more WOULD be a TCP segment, of some other connection)
				n = r.Range(9, 19)
			}
			body := r.Bytes(n)
			fragID++
			id := fragID & 0x7fff
			dir := r.Intn(2)
			var fr []pkt
			off := 0
			for off < n {
				sz := n - off
				if maxUnits := (sz - 1) / 8; maxUnits >= 1 && len(fr) < 3 {
					sz = 8 * r.Range(1, maxUnits)
				}
				fr = append(fr, pkt{frag: true, conn: tl[0].conn, dir: dir, ipid: id, foff: off, body: body[off : off+sz], mf: off+sz < n, proto: proto, cut: cutNone})
				off += sz
			}
			if len(fr) < 2 {
				continue
			}
			if pf.fragMess && r.Intn(2) == 0 {
				for i := len(fr) - 1; i > 0; i-- {
					j := r.Intn(i + 1)
					fr[i], fr[j] = fr[j], fr[i]
				}
			}
			at := r.Range(0, len(tl))
			tl = append(tl[:at:at], append(fr, tl[at:]...)...)
			notes = append(notes, fmt.Sprintf("dgram%d", proto))
		case "snap":
			// the record is cut by the snap length: inside the payload, the TCP header, the IP header or the link header
			i := r.Intn(len(tl))
			if tl[i].frag || tl[i].cut != cutNone {
				continue
			}
			hdr := 20
			if k.conns[tl[i].conn].v6() {
				hdr = 40
			}
			switch c := r.Intn(8); {
			case c == 0:
				tl[i].cut = cutLink
				notes = append(notes, "snaplink")
			case c == 1:
				tl[i].cut = r.Range(0, hdr-1)
				notes = append(notes, "snapip")
			case c == 2:
				tl[i].cut = r.Range(hdr, hdr+19)
				notes = append(notes, "snaptcp")
			case tl[i].n > 0:
				tl[i].cut = hdr + 20 + r.Range(0, tl[i].n-1)
				notes = append(notes, "snappayload")
			default:
				continue
			}
		case "omit":
			i := r.Intn(len(tl))
			if !isData(tl[i]) {
				continue
			}
			tl = append(tl[:i:i], tl[i+1:]...)
			notes = append(notes, "omit")
		case "frag":
			i := r.Intn(len(tl))
			if tl[i].frag || tl[i].n == 0 || tl[i].n > 1460 || k.conns[tl[i].conn].v6() || tl[i].cut != cutNone {
				continue
			}
			fr, note := fragment(r, k, tl[i], pf.fragMess)
			tl = append(tl[:i:i], append(fr, tl[i+1:]...)...)
			notes = append(notes, note)
		}
	}
	return tl, notes
}

func pickLinks(r *hlib.Rand, ng bool) []string {
	ls := []string{linkNames[r.Intn(len(linkNames))]}
	if ng && r.Intn(4) == 0 {
		ls = append(ls, linkNames[r.Intn(len(linkNames))])
	}
	return ls
}

func genKase(r *hlib.Rand, pf profile) *kase {
	k := &kase{}
	nsec := 1
	if pf.plainFile {
		k.fmtName, k.links = "pcap_le", []string{"eth"}
	} else {
		k.fmtName = fmtNames[r.Intn(len(fmtNames))]
		if pf.sections {
			k.fmtName = []string{"pcapng_le", "pcapng_be"}[r.Intn(2)]
		}
		ng := capFmts[k.fmtName].ng
		k.links = pickLinks(r, ng)
		if ng && pf.sections {
			// several sections, every section may have its own interfaces; section_length -1 or given,
			// sometimes with a section header block longer than every packet block
			nsec = r.Range(2, 3)
			switch r.Intn(5) {
			case 0, 1:
				k.fmtName += "_len"
			case 2:
				k.fmtName += "_len_big"
			}
		}
	}
	var secLinks [][]string
	for s := 1; s < nsec; s++ {
		if r.Intn(2) == 0 {
			secLinks = append(secLinks, pickLinks(r, true))
		} else {
			secLinks = append(secLinks, nil)
		}
	}
	// address families every interface of the capture can carry
	v4ok, v6ok := true, true
	for _, ls := range append([][]string{k.links}, secLinks...) {
		for _, l := range ls {
			if l == "ipv4" {
				v6ok = false
			}
			if l == "ipv6" {
				v4ok = false
			}
		}
	}
	if !v4ok && !v6ok {
		k.links = []string{"eth"}
		for i := range secLinks {
			secLinks[i] = nil
		}
		v4ok, v6ok = true, true
	}
	// capture timestamps: the expected result never depends on them
	if !pf.plainFile && r.Intn(2) == 0 {
		k.times = timeModes[r.Intn(len(timeModes))]
		if capFmts[k.fmtName].ng && r.Intn(2) == 0 {
			k.times += "/" + []string{"ns", "ms", "b10", "s"}[r.Intn(4)]
		}
		k.notes = append(k.notes, "time"+strings.ReplaceAll(k.times, "/", ""))
	}
	nc := r.Range(1, pf.maxConns)
	var tls [][]pkt
	for ci := 0; ci < nc; ci++ {
		v6 := !v4ok || (v6ok && !pf.plainFile && r.Intn(4) == 0)
		k.conns = append(k.conns, genConn(r, ci, pf, v6))
		if v6 {
			k.notes = append(k.notes, "v6conn")
		}
	}
	for ci := 0; ci < nc; ci++ {
		tl, n1 := timeline(r, ci, k.conns[ci], pf)
		tl, n2 := perturb(r, k, tl, pf)
		tls = append(tls, tl)
		k.notes = append(k.notes, n1...)
		k.notes = append(k.notes, n2...)
	}
	// interleave the connections, keeping each connection's order
	total := 0
	for _, tl := range tls {
		total += len(tl)
	}
	idx := make([]int, nc)
	cur := r.Intn(nc)
	for len(k.pkts) < total {
		if idx[cur] >= len(tls[cur]) || r.Intn(3) == 0 {
			cur = r.Intn(nc)
			continue
		}
		k.pkts = append(k.pkts, tls[cur][idx[cur]])
		idx[cur]++
	}
	// section boundaries anywhere in the packet list (also at the ends: empty sections), so that
	// connections span them
	if nsec > 1 {
		// section boundaries anywhere, also at the ends and twice at the same place (sections without packets)
		var cutsAt []int
		for s := 1; s < nsec; s++ {
			cutsAt = append(cutsAt, r.Range(0, len(k.pkts)))
		}
		sort.Ints(cutsAt)
		k.secs = cutsAt
		k.secLinks = secLinks
		k.notes = append(k.notes, fmt.Sprintf("sections%d", nsec))
	}
	k.notes = dedup(k.notes)
	return k
}

// genLongQueue: one direction has a hole (a segment never captured, or captured late) followed by thousands of
// tiny segments that have to wait behind it — more than gopacket's page limits of 4096 / 8192 if one were set.
func genLongQueue(r *hlib.Rand) *kase {
	k := &kase{}
	k.fmtName = fmtNames[r.Intn(len(fmtNames))]
	k.links = []string{[]string{"eth", "raw", "sll", "sll2", "null"}[r.Intn(5)]}
	nseg := r.Range(4097, 4400)
	maxSz := 8
	if r.Intn(4) == 0 {
		nseg = r.Range(8193, 8300)
		maxSz = 7
	}
	sizes := make([]int, nseg)
	total := 0
	for i := range sizes {
		sizes[i] = r.Range(1, maxSz)
		total += sizes[i]
	}
	c := genConn(r, 0, profile{}, r.Intn(5) == 0)
	c.data[0] = generatedData(r.U64()%1000000, total)
	c.data[1] = literalData(r.Bytes(r.Range(0, 40)))
	k.conns = []conn{c}
	if r.Intn(2) == 0 {
		k.times = []string{"hours", "days", "back", "jumps", "minutes"}[r.Intn(5)]
		k.notes = append(k.notes, "time"+k.times)
	}
	hasSyn := r.Intn(10) < 7
	var tl []pkt
	if hasSyn {
		tl = append(tl, pkt{conn: 0, dir: 0, so: 0, flags: fSYN, cut: cutNone}, pkt{conn: 0, dir: 1, so: 0, flags: fSYN | fACK, cut: cutNone},
			pkt{conn: 0, dir: 0, so: 1, flags: fACK, cut: cutNone})
	} else {
		k.notes = append(k.notes, "nosyn")
	}
	hole := 0
	if r.Intn(2) == 0 {
		hole = r.Range(1, 30)
	}
	late := r.Intn(2) == 0
	var holePkt pkt
	pos := 1
	for i, sz := range sizes {
		p := pkt{conn: 0, dir: 0, so: pos, n: sz, flags: fACK, cut: cutNone}
		pos += sz
		if i == hole {
			holePkt = p
			continue
		}
		tl = append(tl, p)
		if i == nseg/2 && len(c.data[1].bytes) > 0 {
			tl = append(tl, pkt{conn: 0, dir: 1, so: 1, n: len(c.data[1].bytes), flags: fACK, cut: cutNone})
		}
	}
	if late {
		// the missing segment arrives at the very end (a retransmission), a few more segments may follow: none here
		tl = append(tl, holePkt)
		k.notes = append(k.notes, "late")
	} else {
		k.notes = append(k.notes, "omit")
	}
	if r.Intn(2) == 0 {
		tl = append(tl, pkt{conn: 0, dir: 0, so: pos, flags: fFIN | fACK, cut: cutNone})
	}
	k.pkts = tl
	k.notes = append(k.notes, fmt.Sprintf("longq%d", nseg))
	return k
}

func dedup(ss []string) []string {
	seen := map[string]bool{}
	var out []string
	for _, s := range ss {
		if !seen[s] {
			seen[s] = true
			out = append(out, s)
		}
	}
	return out
}
