//go:build verif

// The abstract case: conversations + the list of wire packets, its op-text form (what the Lean
// driver reads and what a replay re-runs) and the rendering into link-layer frames.
//
// op text (space separated words):
//
//	cap <fmt> <links> C <ipA> <portA> <ipB> <portB> <isnA> <isnB> <dataA> <dataB> [C ...] P (<pkt> | N | N=<links>)*  [@note]*
//	<fmt>   = pcap_{le,be}[_ns] | pcapng_{le,be}[_len[_big]]  (_len: section_length given instead of -1,
//	          _big: the section header block carries a 400 byte comment option)
//	an optional word `t=<mode>[/<resolution>]` after <links> sets the capture timestamps (see timeOf; resolution =
//	          pcapng if_tsresol: us (no option), ns, ms, b10 = 2^-10 s, s); the expected result never depends on it
//	<links> = link type, or `l1+l2` (pcapng only: one interface per entry, packet i of a section on interface i mod n)
//	<ip>    = dotted IPv4, or IPv6 as eight colon separated hex groups (not compressed)
//	<data>  = `-` | hex | g<seed>:<len> (bytes of a 64 bit LCG, see genBytes)
//	<pkt>   = T:<conn>:<a|b>:<seqoff>:<len>:<flags>   a whole TCP segment sent by endpoint A or B of <conn>;
//	              seqoff is relative to that endpoint's ISN (SYN = 0, first data byte = 1), payload =
//	              data[seqoff-1 : seqoff-1+len], flags ⊆ "SAFP" or `-`; an optional 7th field says that the
//	              record was cut by the snap length (incl_len < orig_len): `x<k>` = only the first k bytes of
//	              the IP packet are in the file, `xL` = the cut is inside the link header
//	          F:<conn>:<a|b>:<ipid>:<fragoff>:<mf>:<hex>[:p<proto>]   an IPv4 fragment (IP payload bytes literal) sent from
//	              that endpoint's address to the other's; IP protocol 6 unless given (a datagram of another protocol
//	              belongs to no connection)
//	N / N=<links>   (pcapng) a new section starts here, with the interfaces of the first section / with these
package main

import (
	"encoding/hex"
	"fmt"
	"strconv"
	"strings"

	"github.com/wader/fq/internal/verifharness/hlib"
)

type dataSpec struct {
	text  string // as written in the op
	bytes []byte
}

func genBytes(seed uint64, n int) []byte {
	b := make([]byte, n)
	x := seed
	for i := range b {
		x = x*6364136223846793005 + 1442695040888963407
		b[i] = byte(x >> 56)
	}
	return b
}

func parseData(w string) (dataSpec, error) {
	if w == "-" {
		return dataSpec{text: w}, nil
	}
	if strings.HasPrefix(w, "g") {
		p := strings.Split(w[1:], ":")
		if len(p) != 2 {
			return dataSpec{}, fmt.Errorf("data %q", w)
		}
		seed, e1 := strconv.ParseUint(p[0], 10, 64)
		n, e2 := strconv.Atoi(p[1])
		if e1 != nil || e2 != nil || n < 0 || n > 1<<20 {
			return dataSpec{}, fmt.Errorf("data %q", w)
		}
		return dataSpec{text: w, bytes: genBytes(seed, n)}, nil
	}
	b, err := hex.DecodeString(w)
	if err != nil {
		return dataSpec{}, err
	}
	return dataSpec{text: w, bytes: b}, nil
}

func literalData(b []byte) dataSpec { return dataSpec{text: hlib.Hex(b), bytes: b} }
func generatedData(seed uint64, n int) dataSpec {
	return dataSpec{text: fmt.Sprintf("g%d:%d", seed, n), bytes: genBytes(seed, n)}
}

type conn struct {
	ip   [2][]byte // 4 or 16 bytes each, both of the same family
	port [2]uint16
	isn  [2]uint32
	data [2]dataSpec
}

type pkt struct {
	frag  bool
	conn  int
	dir   int // 0 = sent by A, 1 = sent by B
	so    int // T: sequence offset relative to the ISN
	n     int // T: payload length
	flags int
	cut   int // T: snaplen truncation: cutNone, cutLink (inside the link header) or the number of bytes of the IP packet that are captured
	// F:
	ipid  uint16
	foff  int
	mf    bool
	body  []byte
	proto int // IP protocol number of the fragment (0 = 6, TCP)
}

func (p pkt) protoOr6() int {
	if p.proto == 0 {
		return 6
	}
	return p.proto
}

const (
	cutNone = -1
	cutLink = -2
)

func (p pkt) cutStr() string {
	switch p.cut {
	case cutNone:
		return ""
	case cutLink:
		return ":xL"
	}
	return fmt.Sprintf(":x%d", p.cut)
}

type kase struct {
	fmtName  string
	links    []string
	conns    []conn
	pkts     []pkt
	secs     []int      // pcapng: indices into pkts at which a further section starts (word `N` or `N=<links>` in the op)
	secLinks [][]string // links of the further sections (nil entry = as the first section)
	times    string     // capture timestamps: `<mode>[/<resolution>]`, "" = dense/us (see timeOf)
	notes    []string
}

// sections returns the [start, end) packet index ranges of the capture's sections.
func (k *kase) sections() [][2]int {
	var out [][2]int
	start := 0
	for _, s := range k.secs {
		out = append(out, [2]int{start, s})
		start = s
	}
	return append(out, [2]int{start, len(k.pkts)})
}

// addresses in the op text: dotted IPv4, or IPv6 as eight colon separated hex groups without compression
func ipStr(ip []byte) string {
	if len(ip) == 4 {
		return fmt.Sprintf("%d.%d.%d.%d", ip[0], ip[1], ip[2], ip[3])
	}
	gs := make([]string, 8)
	for i := range gs {
		gs[i] = strconv.FormatUint(uint64(ip[2*i])<<8|uint64(ip[2*i+1]), 16)
	}
	return strings.Join(gs, ":")
}

func parseIP(s string) ([]byte, error) {
	if strings.Contains(s, ":") {
		p := strings.Split(s, ":")
		if len(p) != 8 {
			return nil, fmt.Errorf("ip %q", s)
		}
		ip := make([]byte, 16)
		for i := range p {
			v, err := strconv.ParseUint(p[i], 16, 16)
			if err != nil {
				return nil, fmt.Errorf("ip %q", s)
			}
			ip[2*i], ip[2*i+1] = byte(v>>8), byte(v)
		}
		return ip, nil
	}
	p := strings.Split(s, ".")
	if len(p) != 4 {
		return nil, fmt.Errorf("ip %q", s)
	}
	ip := make([]byte, 4)
	for i := range p {
		v, err := strconv.Atoi(p[i])
		if err != nil || v < 0 || v > 255 {
			return nil, fmt.Errorf("ip %q", s)
		}
		ip[i] = byte(v)
	}
	return ip, nil
}

func (c conn) v6() bool { return len(c.ip[0]) == 16 }

func flagStr(f int) string {
	s := ""
	if f&fSYN != 0 {
		s += "S"
	}
	if f&fACK != 0 {
		s += "A"
	}
	if f&fFIN != 0 {
		s += "F"
	}
	if f&fPSH != 0 {
		s += "P"
	}
	if s == "" {
		return "-"
	}
	return s
}

func parseFlags(s string) (int, error) {
	if s == "-" {
		return 0, nil
	}
	f := 0
	for _, c := range s {
		switch c {
		case 'S':
			f |= fSYN
		case 'A':
			f |= fACK
		case 'F':
			f |= fFIN
		case 'P':
			f |= fPSH
		default:
			return 0, fmt.Errorf("flags %q", s)
		}
	}
	return f, nil
}

func (p pkt) String() string {
	d := "ab"[p.dir : p.dir+1]
	if p.frag {
		mf := 0
		if p.mf {
			mf = 1
		}
		pr := ""
		if p.protoOr6() != 6 {
			pr = fmt.Sprintf(":p%d", p.proto)
		}
		return fmt.Sprintf("F:%d:%s:%d:%d:%d:%s%s", p.conn, d, p.ipid, p.foff, mf, hlib.Hex(p.body), pr)
	}
	return fmt.Sprintf("T:%d:%s:%d:%d:%s%s", p.conn, d, p.so, p.n, flagStr(p.flags), p.cutStr())
}

func (k *kase) opText() string {
	var sb strings.Builder
	fmt.Fprintf(&sb, "cap %s %s", k.fmtName, strings.Join(k.links, "+"))
	if k.times != "" {
		sb.WriteString(" t=" + k.times)
	}
	for _, c := range k.conns {
		fmt.Fprintf(&sb, " C %s %d %s %d %d %d %s %s", ipStr(c.ip[0]), c.port[0], ipStr(c.ip[1]), c.port[1],
			c.isn[0], c.isn[1], c.data[0].text, c.data[1].text)
	}
	sb.WriteString(" P")
	si := 0
	for i, p := range k.pkts {
		for si < len(k.secs) && k.secs[si] == i {
			sb.WriteString(" " + k.secWord(si))
			si++
		}
		sb.WriteByte(' ')
		sb.WriteString(p.String())
	}
	for ; si < len(k.secs); si++ {
		sb.WriteString(" " + k.secWord(si))
	}
	for _, n := range k.notes {
		sb.WriteString(" @" + n)
	}
	return sb.String()
}

func (k *kase) secWord(si int) string {
	if k.secLinks[si] == nil {
		return "N"
	}
	return "N=" + strings.Join(k.secLinks[si], "+")
}

// linksOf returns the link types of the interfaces of section si (0 = first).
func (k *kase) linksOf(si int) []string {
	if si > 0 && k.secLinks[si-1] != nil {
		return k.secLinks[si-1]
	}
	return k.links
}

func parseKase(op string) (*kase, error) {
	ws := strings.Fields(op)
	if len(ws) < 3 || ws[0] != "cap" {
		return nil, fmt.Errorf("not a cap op")
	}
	k := &kase{fmtName: ws[1], links: strings.Split(ws[2], "+")}
	if _, ok := capFmts[k.fmtName]; !ok {
		return nil, fmt.Errorf("format %q", k.fmtName)
	}
	for _, l := range k.links {
		if _, ok := linkNum[l]; !ok {
			return nil, fmt.Errorf("link %q", l)
		}
	}
	i := 3
	if i < len(ws) && strings.HasPrefix(ws[i], "t=") {
		k.times = ws[i][2:]
		if _, _, ok := timeSpec(k.times); !ok {
			return nil, fmt.Errorf("times %q", k.times)
		}
		i++
	}
	for i < len(ws) && ws[i] == "C" {
		if i+8 >= len(ws) {
			return nil, fmt.Errorf("short C")
		}
		var c conn
		var err error
		if c.ip[0], err = parseIP(ws[i+1]); err != nil {
			return nil, err
		}
		if c.ip[1], err = parseIP(ws[i+3]); err != nil {
			return nil, err
		}
		if len(c.ip[0]) != len(c.ip[1]) {
			return nil, fmt.Errorf("address families differ")
		}
		for j, w := range []string{ws[i+2], ws[i+4]} {
			v, err := strconv.ParseUint(w, 10, 16)
			if err != nil {
				return nil, err
			}
			c.port[j] = uint16(v)
		}
		for j, w := range []string{ws[i+5], ws[i+6]} {
			v, err := strconv.ParseUint(w, 10, 32)
			if err != nil {
				return nil, err
			}
			c.isn[j] = uint32(v)
		}
		for j, w := range []string{ws[i+7], ws[i+8]} {
			if c.data[j], err = parseData(w); err != nil {
				return nil, err
			}
		}
		k.conns = append(k.conns, c)
		i += 9
	}
	if i >= len(ws) || ws[i] != "P" {
		return nil, fmt.Errorf("missing P")
	}
	for _, w := range ws[i+1:] {
		if strings.HasPrefix(w, "@") {
			k.notes = append(k.notes, w[1:])
			continue
		}
		if w == "N" || strings.HasPrefix(w, "N=") {
			if !capFmts[k.fmtName].ng {
				return nil, fmt.Errorf("sections in a pcap file")
			}
			var ls []string
			if w != "N" {
				ls = strings.Split(w[2:], "+")
				for _, l := range ls {
					if _, ok := linkNum[l]; !ok {
						return nil, fmt.Errorf("link %q", l)
					}
				}
			}
			k.secs = append(k.secs, len(k.pkts))
			k.secLinks = append(k.secLinks, ls)
			continue
		}
		f := strings.Split(w, ":")
		if len(f) < 3 {
			return nil, fmt.Errorf("pkt %q", w)
		}
		var p pkt
		ci, err := strconv.Atoi(f[1])
		if err != nil || ci < 0 || ci >= len(k.conns) {
			return nil, fmt.Errorf("pkt %q", w)
		}
		p.conn = ci
		switch f[2] {
		case "a":
			p.dir = 0
		case "b":
			p.dir = 1
		default:
			return nil, fmt.Errorf("pkt %q", w)
		}
		switch {
		case f[0] == "T" && (len(f) == 6 || len(f) == 7):
			p.cut = cutNone
			if len(f) == 7 {
				switch {
				case f[6] == "xL":
					p.cut = cutLink
				case strings.HasPrefix(f[6], "x"):
					v, err := strconv.Atoi(f[6][1:])
					if err != nil || v < 0 {
						return nil, fmt.Errorf("pkt %q", w)
					}
					p.cut = v
				default:
					return nil, fmt.Errorf("pkt %q", w)
				}
			}
			so, e1 := strconv.Atoi(f[3])
			n, e2 := strconv.Atoi(f[4])
			fl, e3 := parseFlags(f[5])
			if e1 != nil || e2 != nil || e3 != nil || so < 0 || n < 0 {
				return nil, fmt.Errorf("pkt %q", w)
			}
			d := k.conns[ci].data[p.dir].bytes
			if n > 0 && (so < 1 || so-1+n > len(d)) {
				return nil, fmt.Errorf("pkt %q outside the sent data", w)
			}
			p.so, p.n, p.flags = so, n, fl
		case f[0] == "F" && (len(f) == 7 || len(f) == 8):
			if len(f) == 8 {
				if !strings.HasPrefix(f[7], "p") {
					return nil, fmt.Errorf("pkt %q", w)
				}
				v, err := strconv.Atoi(f[7][1:])
				if err != nil || v < 0 || v > 255 {
					return nil, fmt.Errorf("pkt %q", w)
				}
				p.proto = v
			} else {
				p.proto = 6
			}
			id, e1 := strconv.ParseUint(f[3], 10, 16)
			fo, e2 := strconv.Atoi(f[4])
			if e1 != nil || e2 != nil || fo < 0 || fo%8 != 0 || (f[5] != "0" && f[5] != "1") {
				return nil, fmt.Errorf("pkt %q", w)
			}
			b, err := hex.DecodeString(strings.TrimPrefix(f[6], "-"))
			if err != nil {
				return nil, err
			}
			if k.conns[ci].v6() {
				return nil, fmt.Errorf("pkt %q: fragment of an IPv6 connection", w)
			}
			p.frag, p.ipid, p.foff, p.mf, p.body = true, uint16(id), fo, f[5] == "1", b
		default:
			return nil, fmt.Errorf("pkt %q", w)
		}
		k.pkts = append(k.pkts, p)
	}
	return k, nil
}

// segmentBytes is the IP payload (TCP header + payload) of a T packet.
func (k *kase) segmentBytes(p pkt) []byte {
	c := k.conns[p.conn]
	me, peer := p.dir, 1-p.dir
	var payload []byte
	if p.n > 0 {
		payload = c.data[me].bytes[p.so-1 : p.so-1+p.n]
	}
	ack := uint32(0)
	if p.flags&fACK != 0 {
		ack = c.isn[peer] + 1
	}
	return tcpSegment(c.ip[me], c.ip[peer], c.port[me], c.port[peer], c.isn[me]+uint32(p.so), ack, p.flags, payload)
}

// frames renders every packet as a link-layer frame; frame i is on interface i mod len(links).
// frames returns the captured bytes of every frame (truncated as the packet says), the frames' lengths on
// the wire, the interface and the link type of each.
func (k *kase) frames() (frames [][]byte, ifaces []int, flinks []string, origLens []int) {
	be := capFmts[k.fmtName].be
	secOf := make([]int, len(k.pkts))
	secIdx := make([]int, len(k.pkts))
	for si, r := range k.sections() {
		for i := r[0]; i < r[1]; i++ {
			secOf[i] = r[0]
			secIdx[i] = si
		}
	}
	for i, p := range k.pkts {
		c := k.conns[p.conn]
		var ip []byte
		if p.frag {
			ip = ipv4Packet(c.ip[p.dir], c.ip[1-p.dir], byte(p.protoOr6()), p.ipid, p.foff, p.mf, p.body)
		} else {
			// identification of unfragmented packets: distinct from the generator's fragment ids (< 0x8000)
			if c.v6() {
				ip = ipv6Packet(c.ip[p.dir], c.ip[1-p.dir], k.segmentBytes(p))
			} else {
				ip = ipv4Packet(c.ip[p.dir], c.ip[1-p.dir], 6, uint16(0x8000+i%0x8000), 0, false, k.segmentBytes(p))
			}
		}
		ls := k.linksOf(secIdx[i])
		ifc := (i - secOf[i]) % len(ls)
		fr := linkFrame(ls[ifc], be, ip, p.dir == 0, c.v6())
		origLens = append(origLens, len(fr))
		if !p.frag && p.cut != cutNone {
			linkLen := len(fr) - len(ip)
			keep := linkLen / 2
			if p.cut >= 0 {
				keep = linkLen + p.cut
			}
			if keep < len(fr) {
				fr = fr[:keep]
			}
		}
		frames = append(frames, fr)
		ifaces = append(ifaces, ifc)
		flinks = append(flinks, ls[ifc])
	}
	return frames, ifaces, flinks, origLens
}

var timeModes = []string{"dense", "const", "zero", "minutes", "hours", "days", "back", "wrap", "jumps"}
var timeResols = map[string]int{"us": -1, "ns": 9, "ms": 3, "b10": 0x80 | 10, "s": 0}

func timeSpec(t string) (mode string, resol string, ok bool) {
	mode, resol = "dense", "us"
	if t != "" {
		p := strings.Split(t, "/")
		mode = p[0]
		if len(p) == 2 {
			resol = p[1]
		} else if len(p) != 1 {
			return "", "", false
		}
	}
	for _, m := range timeModes {
		if m == mode {
			_, ok = timeResols[resol]
		}
	}
	return mode, resol, ok
}

// timeOf is the capture time of packet i: seconds and nanoseconds. The modes: dense (as a live capture), const,
// zero, minutes / hours / days between consecutive packets, back = every packet more than an hour EARLIER than
// the one before, wrap = ts_sec runs over 2^32, jumps = irregular gaps of 0 s .. 3 days, forwards and backwards.
func (k *kase) timeOf(i int) (sec uint64, nsec uint32) {
	mode, _, _ := timeSpec(k.times)
	const base = 1600000000
	switch mode {
	case "const":
		return base, 0
	case "zero":
		return 0, 0
	case "minutes":
		return base + uint64(i)*90, 0
	case "hours":
		return base + uint64(i)*4000, uint32(i%7) * 1000000
	case "days":
		return base + uint64(i)*100000, 0
	case "back":
		return base + 400000000 - uint64(i)*5000, 0
	case "wrap":
		return 0xfffffff0 + uint64(i)*3700, 0
	case "jumps":
		var t int64 = base
		x := uint64(12345)
		for j := 0; j <= i; j++ {
			x = x*6364136223846793005 + 1442695040888963407
			t += []int64{0, 1, 90, 7200, 259200, -7200, 3601, 0}[x>>61]
		}
		return uint64(t), uint32(i%1000) * 1000
	}
	return base + uint64(i/1000), uint32(i%1000) * 100000
}

func (k *kase) capture() []byte {
	b, _ := k.captureFacts()
	return b
}

// captureFacts also returns, for pcapng, `<SHB length>:<length of the section's last block>` per section.
func (k *kase) captureFacts() ([]byte, string) {
	f := capFmts[k.fmtName]
	frames, ifaces, _, origLens := k.frames()
	if f.ng {
		var out []byte
		var facts []string
		for si, r := range k.sections() {
			var ls []uint32
			for _, l := range k.linksOf(si) {
				ls = append(ls, linkNum[l])
			}
			_, resol, _ := timeSpec(k.times)
			var ts []uint64
			for i := r[0]; i < r[1]; i++ {
				sec, nsec := k.timeOf(i)
				switch resol {
				case "ns":
					ts = append(ts, sec*1000000000+uint64(nsec))
				case "ms":
					ts = append(ts, sec*1000+uint64(nsec)/1000000)
				case "b10":
					ts = append(ts, sec*1024+uint64(nsec)*1024/1000000000)
				case "s":
					ts = append(ts, sec)
				default:
					ts = append(ts, sec*1000000+uint64(nsec)/1000)
				}
			}
			b, shb, last := ngSection(f, ls, frames[r[0]:r[1]], ifaces[r[0]:r[1]], origLens[r[0]:r[1]], ts, timeResols[resol])
			out = append(out, b...)
			facts = append(facts, fmt.Sprintf("%d:%d", shb, last))
		}
		return out, strings.Join(facts, ",")
	}
	secs := make([]uint32, len(frames))
	fracs := make([]uint32, len(frames))
	for i := range frames {
		sec, nsec := k.timeOf(i)
		secs[i] = uint32(sec) // ts_sec is 32 bit: wraps
		fracs[i] = nsec / 1000
		if f.ns {
			fracs[i] = nsec
		}
	}
	return writePcap(f, linkNum[k.links[0]], frames, origLens, secs, fracs), "-"
}
