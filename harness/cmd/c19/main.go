//go:build verif

// C19 harness: writes packet captures itself, lets the real fq decode them in-process and
// prints, per case, `<abstract conversations and packet list> TAB <what fq reports>`:
//
//	fq <format> B=<facts> [S [K <ip> <port> <skipped> <start> <end> <stream> <ip> <port> <skipped> <start> <end> <stream>]* [R <datagram>]*]*
//	   T=<same|diff…> X [A<conn>.<c|s>.<flags>.<seq>.<nextSeq>.<accepted><start>.<payload> | <conn>.<c|s>.<start><end>.<skip>.<data> | flush | N]*
//
// S = one section as fq reports it, K = one tcp_connection (client fields then server fields, in fq's order),
// R = one entry of ipv4_reassembled, X = the packets handed to gopacket's assembler (A…: one per
// AssembleWithContext call, recorded in Accept: flags SFRA, sequence number, the half's nextSeq, Accept's answer
// and *start afterwards, payload) interleaved with the calls the assembler made into fq's ReassembledSG on the same
// packets (traced Decoder, one per section: `flush` marks the Flush at the section's end, `N` the next section),
// T = whether the traced Decoders ended in the state fq reported, B = `-` or, for pcapng, per file section
// <length of the section header block>:<length of the section's last block>.
// Streams/datagrams: `-` | hex | h<fnv1a64>:<len> (longer than 2048 bytes); trace data may also be
// r<conn>:<a|b>:<off>:<len> = a slice of the data the case says that endpoint sent.
// A failed decode is `err:decode B=<facts>` / `err:panic B=<facts>`.
package main

import (
	"bytes"
	"fmt"
	"os"
	"reflect"
	"runtime"
	"sort"
	"strings"

	"github.com/wader/fq/format/pcap"

	"github.com/wader/fq/internal/verifharness/hlib"
)

func fnv64(b []byte) uint64 {
	h := uint64(0xcbf29ce484222325)
	for _, c := range b {
		h ^= uint64(c)
		h *= 0x100000001b3
	}
	return h
}

func blob(b []byte) string {
	if len(b) > 2048 {
		return fmt.Sprintf("h%016x:%d", fnv64(b), len(b))
	}
	return hlib.Hex(b)
}

func b01(b bool) string {
	if b {
		return "1"
	}
	return "0"
}

func dirText(d fqDir) string {
	return fmt.Sprintf("%s %d %d %s %s %s", d.ip, d.port, d.skipped, b01(d.start), b01(d.end), blob(d.stream))
}

func sameSections(a, b []fqSection) string {
	if len(a) != len(b) {
		return fmt.Sprintf("diff:sections:%d:%d", len(a), len(b))
	}
	for i := range a {
		if r := sameFlows(a[i].conns, a[i].reasm, b[i].conns, b[i].reasm); r != "same" {
			return fmt.Sprintf("%s:section:%d", r, i)
		}
	}
	return "same"
}

func sameFlows(a [][2]fqDir, ar [][]byte, b [][2]fqDir, br [][]byte) string {
	if len(a) != len(b) {
		return fmt.Sprintf("diff:connections:%d:%d", len(a), len(b))
	}
	for i := range a {
		for j := 0; j < 2; j++ {
			x, y := a[i][j], b[i][j]
			if x.ip != y.ip || x.port != y.port || x.skipped != y.skipped || x.start != y.start || x.end != y.end || !bytes.Equal(x.stream, y.stream) {
				return fmt.Sprintf("diff:connection:%d:%d", i, j)
			}
		}
	}
	if len(ar) != len(br) {
		return fmt.Sprintf("diff:reassembled:%d:%d", len(ar), len(br))
	}
	for i := range ar {
		if !bytes.Equal(ar[i], br[i]) {
			return fmt.Sprintf("diff:datagram:%d", i)
		}
	}
	return "same"
}

func traceData(k *kase, b []byte) string {
	if len(b) > 64 {
		for ci, c := range k.conns {
			for d := 0; d < 2; d++ {
				if i := bytes.Index(c.data[d].bytes, b); i >= 0 {
					return fmt.Sprintf("r%d:%s:%d:%d", ci, "ab"[d:d+1], i, len(b))
				}
			}
		}
	}
	return hlib.Hex(b)
}

func observe(k *kase, fr fqResult) string {
	obs, err := fr.obs, fr.err
	_, facts := k.captureFacts()
	if err != nil {
		msg := err.Error()
		if os.Getenv("C19_DEBUG") != "" {
			fmt.Fprintln(os.Stderr, "fq error:", msg)
		}
		if strings.HasPrefix(msg, "panic") {
			return "err:panic B=" + facts
		}
		return "err:decode B=" + facts
	}
	var sb strings.Builder
	fmt.Fprintf(&sb, "fq %s B=%s", obs.format, facts)
	for _, s := range obs.sections {
		sb.WriteString(" S")
		for _, c := range s.conns {
			fmt.Fprintf(&sb, " K %s %s", dirText(c[0]), dirText(c[1]))
		}
		for _, r := range s.reasm {
			fmt.Fprintf(&sb, " R %s", blob(r))
		}
	}
	t, err := runTrace(k, len(obs.sections) == 1 && len(k.secs) > 0)
	if err != nil {
		sb.WriteString(" T=err:panic X")
		return sb.String()
	}
	fmt.Fprintf(&sb, " T=%s X", sameSections(obs.sections, t.sections))
	for _, e := range t.events {
		if e.flush {
			sb.WriteString(" flush")
			continue
		}
		if e.newSection {
			sb.WriteString(" N")
			continue
		}
		c := e.call
		d := "c"
		if c.ServerToClient {
			d = "s"
		}
		if c.Input {
			// the INPUT side: A<conn>.<c|s>.<flags>.<seq>.<nextSeq>.<accepted><start after Accept>.<payload>
			fl := ""
			for i, b := range []bool{c.SYN, c.FIN, c.RST, c.ACK} {
				if b {
					fl += "SFRA"[i : i+1]
				}
			}
			if fl == "" {
				fl = "-"
			}
			fmt.Fprintf(&sb, " A%d.%s.%s.%d.%d.%s%s.%s", c.Conn, d, fl, c.Seq, c.NextSeq, b01(c.Accepted), b01(c.StartAfter), traceData(k, c.Data))
			continue
		}
		fmt.Fprintf(&sb, " %d.%s.%s%s.%d.%s", c.Conn, d, b01(c.Start), b01(c.End), c.Skip, traceData(k, c.Data))
	}
	return sb.String()
}

// linkTable dumps the dispatch table of format/pcap/shared.go from the binary under test:
// `<link type>=<method of flowsdecoder.Decoder>` sorted by link type.
func linkTable() string {
	ks := pcap.VerifC19LinkTypes()
	sort.Ints(ks)
	var ws []string
	for _, k := range ks {
		fn, _ := pcap.VerifC19LinkFn(k)
		name := runtime.FuncForPC(reflect.ValueOf(fn).Pointer()).Name()
		if i := strings.LastIndex(name, "."); i >= 0 {
			name = name[i+1:]
		}
		ws = append(ws, fmt.Sprintf("%d=%s", k, strings.TrimSuffix(name, "-fm")))
	}
	return strings.Join(ws, " ")
}

type pending struct {
	k     *kase
	class string
}

// runKases decodes a batch of captures with one run of the interpreter.
func runKases(o *hlib.Out, ps []pending) {
	caps := make([][]byte, len(ps))
	for i, p := range ps {
		caps[i] = p.k.capture()
	}
	res := runFqBatch(caps)
	for i, p := range ps {
		op := p.k.opText()
		o.Case(op, observe(p.k, res[i]))
		if p.class != "" {
			o.Class(p.class + " " + op)
		}
	}
}

var profiles = []profile{
	{name: "plain", plainFile: true, maxConns: 1},
	{name: "files", maxConns: 2},
	{name: "nosynfin", maxConns: 3, noSynFin: true},
	{name: "dup", maxConns: 3, noSynFin: true, perturb: 3, allowDup: true},
	{name: "swap", maxConns: 3, noSynFin: true, perturb: 3, allowSwap: true},
	{name: "omit", maxConns: 3, noSynFin: true, perturb: 2, allowOmit: true},
	{name: "frag", maxConns: 3, noSynFin: true, perturb: 3, allowFrag: true},
	{name: "mixed", maxConns: 4, noSynFin: true, perturb: 4, allowDup: true, allowSwap: true, allowOmit: true, allowFrag: true, snap: true},
	{name: "edge", maxConns: 2, noSynFin: true, perturb: 3, allowDup: true, allowSwap: true, edgeSwap: true},
	{name: "fragmess", maxConns: 2, noSynFin: true, perturb: 3, allowFrag: true, fragMess: true, allowDup: true},
	{name: "sections", maxConns: 3, noSynFin: true, perturb: 2, allowDup: true, allowSwap: true, allowOmit: true, allowFrag: true, sections: true},
	{name: "snap", maxConns: 3, noSynFin: true, perturb: 3, snap: true, allowDup: true, allowSwap: true},
	{name: "longq", maxConns: 1},
	{name: "big", maxConns: 2, noSynFin: true, perturb: 3, allowDup: true, allowSwap: true, allowOmit: true, big: true},
}

func main() {
	cfg := hlib.ParseFlags()
	o := hlib.NewOut(cfg.Out)
	defer o.Close()
	r := hlib.NewRand(cfg.Seed)

	if cfg.Replay != "" {
		for _, l := range hlib.ReplayLines(cfg.Replay) {
			k, err := parseKase(l)
			if err != nil {
				o.Case(l, "err:unparsable-op "+err.Error())
				continue
			}
			runKases(o, []pending{{k: k}})
		}
		return
	}

	o.Case("linktable", linkTable())
	// link types fq dispatches but the generator does not write: a statistic, never a divergence
	var notCovered []string
	for _, k := range pcap.VerifC19LinkTypes() {
		used := false
		for _, n := range linkNum {
			if int(n) == k {
				used = true
			}
		}
		if !used {
			notCovered = append(notCovered, fmt.Sprint(k))
		}
	}
	sort.Strings(notCovered)
	o.Stat("link_types_not_covered_by_generator", len(notCovered))
	if len(notCovered) > 0 {
		o.Sample("link types not covered by the generator: " + strings.Join(notCovered, " "))
	}

	// per shard (lib/props/C19.json: 4 shards quick, 8 shards thorough)
	counts := map[string]int{"plain": 10, "files": 40, "nosynfin": 40, "dup": 40, "swap": 40, "omit": 50, "frag": 40,
		"mixed": 100, "edge": 60, "fragmess": 40, "sections": 40, "snap": 60, "longq": 1, "big": 2}
	if cfg.Thorough() {
		for k := range counts {
			counts[k] *= 10
		}
	}
	for _, a := range cfg.Args {
		// developer: restrict to one profile
		for k := range counts {
			if k != a {
				counts[k] = 0
			}
		}
	}
	var batch []pending
	flush := func() {
		if len(batch) > 0 {
			runKases(o, batch)
			batch = nil
		}
	}
	defer flush()
	// directed family wrap-reorder (wrapreorder.go): all ISNs 2^32-k, all adjacent swaps and rotations
	if counts["mixed"] > 0 || len(cfg.Args) > 0 && cfg.Args[0] == "wrapreorder" {
		reps := 1
		if cfg.Thorough() {
			reps = 6
		}
		for i, k := range genWrapReorder(r.Fork(), reps) {
			k2, err := parseKase(k.opText())
			if err != nil {
				panic(fmt.Sprintf("generated op does not parse: %v: %s", err, k.opText()))
			}
			batch = append(batch, pending{k: k2, class: "wrapreorder"})
			if len(batch) >= 64 {
				flush()
			}
			o.Stat("profile_wrapreorder", 1)
			for _, n := range k.notes {
				if n == "wstraddle" || n == "wedge" || n == "nosyn" || strings.HasPrefix(n, "wpd") || strings.HasPrefix(n, "wk") {
					o.Stat("note_"+n, 1)
				} else {
					o.Stat("note_"+strings.TrimRight(n, "0123456789"), 1)
				}
			}
			if i == 0 {
				o.Sample(k.opText())
			}
		}
		flush()
	}
	for _, pf := range profiles {
		for i := 0; i < counts[pf.name]; i++ {
			var k *kase
			if pf.name == "longq" {
				k = genLongQueue(r.Fork())
			} else {
				k = genKase(r.Fork(), pf)
			}
			// round trip of the op text: the case that runs is the case a replay would run
			k2, err := parseKase(k.opText())
			if err != nil {
				panic(fmt.Sprintf("generated op does not parse: %v: %s", err, k.opText()))
			}
			class := ""
			if len(k.pkts) >= 2 {
				class = pf.name
			}
			batch = append(batch, pending{k: k2, class: class})
			if len(batch) >= 64 || pf.big || pf.name == "longq" {
				flush()
			}
			o.Stat("profile_"+pf.name, 1)
			for _, n := range k.notes {
				o.Stat("note_"+strings.TrimRight(n, "0123456789"), 1)
			}
			o.Stat("fmt_"+k.fmtName, 1)
			for _, l := range k.links {
				o.Stat("link_"+l, 1)
			}
			if i == 0 && len(k.opText()) < 1500 {
				o.Sample(k.opText())
			}
		}
	}
}
