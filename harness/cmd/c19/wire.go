//go:build verif

// Hand-rolled packet and capture-file writers (no gopacket layers): IPv4 + TCP headers,
// link layers ethernet / raw IP / raw IPv4 / linux SLL / SLL2 / BSD loopback, and the file
// formats pcap (little/big endian, micro/nanosecond magic) and pcapng (SHB/IDB/EPB).
package main

import (
	"bytes"
	"encoding/binary"
)

const (
	fSYN = 1 << iota
	fACK
	fFIN
	fPSH
)

func ipChecksum(b []byte) uint16 {
	var s uint32
	for i := 0; i+1 < len(b); i += 2 {
		s += uint32(b[i])<<8 | uint32(b[i+1])
	}
	if len(b)%2 == 1 {
		s += uint32(b[len(b)-1]) << 8
	}
	for s>>16 != 0 {
		s = s&0xffff + s>>16
	}
	return ^uint16(s)
}

// tcpSegment builds a 20 byte TCP header (no options) followed by the payload.
func tcpSegment(src, dst []byte, sport, dport uint16, seq, ack uint32, flags int, payload []byte) []byte {
	b := make([]byte, 20+len(payload))
	binary.BigEndian.PutUint16(b[0:], sport)
	binary.BigEndian.PutUint16(b[2:], dport)
	binary.BigEndian.PutUint32(b[4:], seq)
	binary.BigEndian.PutUint32(b[8:], ack)
	b[12] = 5 << 4
	var fl byte
	if flags&fFIN != 0 {
		fl |= 0x01
	}
	if flags&fSYN != 0 {
		fl |= 0x02
	}
	if flags&fPSH != 0 {
		fl |= 0x08
	}
	if flags&fACK != 0 {
		fl |= 0x10
	}
	b[13] = fl
	binary.BigEndian.PutUint16(b[14:], 65535)
	copy(b[20:], payload)
	// checksum over pseudo header + segment
	var ph []byte
	if len(src) == 16 {
		ph = make([]byte, 40, 40+len(b))
		copy(ph[0:], src)
		copy(ph[16:], dst)
		binary.BigEndian.PutUint32(ph[32:], uint32(len(b)))
		ph[39] = 6
	} else {
		ph = make([]byte, 12, 12+len(b))
		copy(ph[0:], src)
		copy(ph[4:], dst)
		ph[9] = 6
		binary.BigEndian.PutUint16(ph[10:], uint16(len(b)))
	}
	ph = append(ph, b...)
	binary.BigEndian.PutUint16(b[16:], ipChecksum(ph))
	return b
}

// ipv4Packet builds a 20 byte IPv4 header (no options) followed by the payload.
// foff is the fragment offset in bytes (multiple of 8).
func ipv4Packet(src, dst []byte, proto byte, id uint16, foff int, mf bool, payload []byte) []byte {
	b := make([]byte, 20+len(payload))
	b[0] = 0x45
	binary.BigEndian.PutUint16(b[2:], uint16(len(b)))
	binary.BigEndian.PutUint16(b[4:], id)
	fo := uint16(foff / 8)
	if mf {
		fo |= 0x2000
	}
	binary.BigEndian.PutUint16(b[6:], fo)
	b[8] = 64
	b[9] = proto
	copy(b[12:], src)
	copy(b[16:], dst)
	binary.BigEndian.PutUint16(b[10:], ipChecksum(b[:20]))
	copy(b[20:], payload)
	return b
}

// ipv6Packet builds the 40 byte IPv6 header (no extension headers) followed by the payload.
func ipv6Packet(src, dst []byte, payload []byte) []byte {
	b := make([]byte, 40+len(payload))
	b[0] = 0x60
	binary.BigEndian.PutUint16(b[4:], uint16(len(payload)))
	b[6] = 6
	b[7] = 64
	copy(b[8:], src)
	copy(b[24:], dst)
	copy(b[40:], payload)
	return b
}

// link types as numbers of the tcpdump registry (independent of fq's constants)
var linkNum = map[string]uint32{"null": 0, "eth": 1, "raw": 101, "sll": 113, "ipv4": 228, "ipv6": 229, "sll2": 276}

// linkFrame wraps an IPv4 packet. be selects the byte order of the host-endian BSD loopback header.
func linkFrame(link string, be bool, ip []byte, aToB bool, v6 bool) []byte {
	et := []byte{0x08, 0x00}
	if v6 {
		et = []byte{0x86, 0xdd}
	}
	switch link {
	case "eth":
		h := []byte{0x02, 0, 0, 0, 0, 0x0b, 0x02, 0, 0, 0, 0, 0x0a, 0x08, 0x00}
		if !aToB {
			h[5], h[11] = 0x0a, 0x0b
		}
		copy(h[12:], et)
		return append(h, ip...)
	case "raw", "ipv4", "ipv6":
		return append([]byte(nil), ip...)
	case "sll":
		// packet type, ARPHRD_ETHER, address length 6, address (8), protocol
		h := []byte{0, 0, 0, 1, 0, 6, 0x02, 0, 0, 0, 0, 0x0a, 0, 0, 0x08, 0x00}
		if !aToB {
			h[1] = 4 // sent by us
			h[11] = 0x0b
		}
		copy(h[14:], et)
		return append(h, ip...)
	case "sll2":
		// protocol, reserved, interface index, ARPHRD_ETHER, packet type, address length, address (8)
		h := []byte{0x08, 0x00, 0, 0, 0, 0, 0, 2, 0, 1, 0, 6, 0x02, 0, 0, 0, 0, 0x0a, 0, 0}
		if !aToB {
			h[10] = 4
			h[17] = 0x0b
		}
		copy(h[0:], et)
		return append(h, ip...)
	case "null":
		af := byte(2) // AF_INET / AF_INET6 (BSD 24, FreeBSD 28, Darwin 30, Linux 10) in the byte order of the capturing host
		if v6 {
			af = []byte{24, 28, 30, 10}[int(ip[39])%4]
		}
		h := []byte{af, 0, 0, 0}
		if be {
			h = []byte{0, 0, 0, af}
		}
		return append(h, ip...)
	}
	panic("link " + link)
}

type capFmt struct {
	ng  bool
	be  bool
	ns  bool
	len bool // pcapng: section_length given instead of -1
	big bool // pcapng: the SHB carries a 400 byte comment option (longer than any packet block of a small case)
}

var capFmts = map[string]capFmt{
	"pcap_le": {}, "pcap_be": {be: true}, "pcap_le_ns": {ns: true}, "pcap_be_ns": {be: true, ns: true},
	"pcapng_le": {ng: true}, "pcapng_be": {ng: true, be: true},
	"pcapng_le_len": {ng: true, len: true}, "pcapng_be_len": {ng: true, be: true, len: true},
	"pcapng_le_len_big": {ng: true, len: true, big: true}, "pcapng_be_len_big": {ng: true, be: true, len: true, big: true},
}

func (f capFmt) order() binary.AppendByteOrder {
	if f.be {
		return binary.BigEndian
	}
	return binary.LittleEndian
}

func writePcap(f capFmt, link uint32, frames [][]byte, origLens []int, secs, fracs []uint32) []byte {
	bo := f.order()
	magic := uint32(0xa1b2c3d4)
	if f.ns {
		magic = 0xa1b23c4d
	}
	var out []byte
	out = bo.AppendUint32(out, magic)
	out = bo.AppendUint16(out, 2)
	out = bo.AppendUint16(out, 4)
	out = bo.AppendUint32(out, 0)
	out = bo.AppendUint32(out, 0)
	out = bo.AppendUint32(out, 262144)
	out = bo.AppendUint32(out, link)
	for i, fr := range frames {
		out = bo.AppendUint32(out, secs[i])
		out = bo.AppendUint32(out, fracs[i])
		out = bo.AppendUint32(out, uint32(len(fr)))
		out = bo.AppendUint32(out, uint32(origLens[i]))
		out = append(out, fr...)
	}
	return out
}

func pad4(b []byte) []byte {
	for len(b)%4 != 0 {
		b = append(b, 0)
	}
	return b
}

func ngBlock(bo binary.AppendByteOrder, typ uint32, body []byte) []byte {
	body = pad4(body)
	total := uint32(12 + len(body))
	var out []byte
	out = bo.AppendUint32(out, typ)
	out = bo.AppendUint32(out, total)
	out = append(out, body...)
	out = bo.AppendUint32(out, total)
	return out
}

func ngOption(bo binary.AppendByteOrder, code uint16, val []byte) []byte {
	var out []byte
	out = bo.AppendUint16(out, code)
	out = bo.AppendUint16(out, uint16(len(val)))
	out = append(out, val...)
	return pad4(out)
}

// ngSection writes one pcapng section: SHB (with a userappl option), one IDB per entry of links,
// one EPB per frame (ifaces[i] = interface of frame i; every second EPB carries a comment option).
// exactLen: section_length = number of bytes following the SHB (the specification's meaning) instead of -1.
// It also returns the length of the SHB and of the last block of the section (0: SHB only).
// ts = the packets' 64 bit timestamps in units of the interfaces' resolution; tsresol < 0: no if_tsresol option.
func ngSection(f capFmt, links []uint32, frames [][]byte, ifaces []int, origLens []int, ts []uint64, tsresol int) (out []byte, shbLen int, lastLen int) {
	exactLen := f.len
	bo := f.order()
	var body []byte
	for _, l := range links {
		var idb []byte
		idb = bo.AppendUint16(idb, uint16(l))
		idb = bo.AppendUint16(idb, 0)
		idb = bo.AppendUint32(idb, 262144)
		idb = append(idb, ngOption(bo, 2, []byte("if0"))...)
		if tsresol >= 0 {
			idb = append(idb, ngOption(bo, 9, []byte{byte(tsresol)})...)
		}
		idb = append(idb, ngOption(bo, 0, nil)...)
		blk := ngBlock(bo, 1, idb)
		lastLen = len(blk)
		body = append(body, blk...)
	}
	for i, fr := range frames {
		var epb []byte
		epb = bo.AppendUint32(epb, uint32(ifaces[i]))
		epb = bo.AppendUint32(epb, uint32(ts[i]>>32))
		epb = bo.AppendUint32(epb, uint32(ts[i]))
		epb = bo.AppendUint32(epb, uint32(len(fr)))
		epb = bo.AppendUint32(epb, uint32(origLens[i]))
		epb = pad4(append(epb, fr...))
		if i%2 == 1 {
			epb = append(epb, ngOption(bo, 1, []byte("c"))...)
			epb = append(epb, ngOption(bo, 0, nil)...)
		}
		blk := ngBlock(bo, 6, epb)
		lastLen = len(blk)
		body = append(body, blk...)
	}
	var shb []byte
	shb = bo.AppendUint32(shb, 0x1a2b3c4d)
	shb = bo.AppendUint16(shb, 1)
	shb = bo.AppendUint16(shb, 0)
	if exactLen {
		shb = bo.AppendUint64(shb, uint64(len(body)))
	} else {
		shb = bo.AppendUint64(shb, 0xffffffffffffffff)
	}
	shb = append(shb, ngOption(bo, 4, []byte("verif-c19"))...)
	if f.big {
		shb = append(shb, ngOption(bo, 1, bytes.Repeat([]byte("x"), 400))...)
	}
	shb = append(shb, ngOption(bo, 0, nil)...)
	hdr := ngBlock(bo, 0x0a0d0d0a, shb)
	return append(hdr, body...), len(hdr), lastLen
}
