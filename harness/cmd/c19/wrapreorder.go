//go:build verif

// Directed family "wrap-reorder": REORDERING EXACTLY AT THE 2^32 SEQUENCE WRAP, no duplicates, no overlaps.
//
// One connection; the perturbed direction has ISN = 2^32 - k, k in wrapKs, so that the data byte with sequence
// offset k (relative to the ISN; first data byte = 1) has sequence number 0.  A window of 3..8 segments of 1..1460
// bytes lies around the wrap in one of two layouts:
//
//	straddle  one segment CONTAINS the wrap (starts below 2^32, ends above it)
//	edge      one segment ENDS exactly at 2^32 and the next one STARTS exactly at 0
//
// (k = 1 has no data byte below the wrap: its first segment starts exactly at 0.)  Data before the window is sent
// in order in 1460 byte segments when the SYN is captured and is not captured at all otherwise (the capture then
// starts at the window).  The window's segments arrive in every order that is one adjacent swap or one rotation
// of the sending order (and once in order).  Every byte is captured exactly once: the reassembled stream must be the
// sent bytes and skipped_bytes 0.  The other direction wraps as well and arrives in order.  Both directions take the
// perturbed role, with and without the SYN handshake in the capture.
package main

import (
	"fmt"

	"github.com/wader/fq/internal/verifharness/hlib"
)

var wrapKs = []int{1, 2, 3, 4, 5, 100, 151, 1460, 1461, 2920, 65535}

// wrapWindow returns the [start, end) sequence offsets of the window's segments for a direction with ISN 2^32-k.
func wrapWindow(r *hlib.Rand, k int, straddle bool) [][2]int {
	w := k // sequence offset of the byte with sequence number 0
	n := r.Range(3, 8)
	size := func(max int) int {
		if max > 1460 {
			max = 1460
		}
		switch r.Intn(4) {
		case 0:
			if max > 8 {
				return r.Range(1, 8)
			}
		case 1:
			return max
		}
		return r.Range(1, max)
	}
	var before, after [][2]int
	lo, hi := w, w // window built outwards from the wrap
	avail := w - 1 // data bytes below the wrap
	if avail > 0 {
		if straddle {
			m := avail
			if m > 1459 {
				m = 1459
			}
			s := w - size(m)
			e := w + size(1460-(w-s))
			before = append(before, [2]int{s, e})
			lo, hi = s, e
		} else {
			s := w - size(avail)
			before = append(before, [2]int{s, w})
			lo = s
		}
	}
	// at least one segment that starts at or after the wrap, at least 3 in all
	na := r.Range(1, n-len(before))
	nb := n - len(before) - na
	if !straddle || avail == 0 {
		// the segment that STARTS exactly at 0
		e := hi + size(1460)
		after = append(after, [2]int{hi, e})
		hi = e
		na--
	}
	for ; na > 0; na-- {
		e := hi + size(1460)
		after = append(after, [2]int{hi, e})
		hi = e
	}
	for ; nb > 0 && lo > 1; nb-- {
		s := lo - size(lo-1)
		before = append([][2]int{{s, lo}}, before...)
		lo = s
	}
	out := append(before, after...)
	for len(out) < 3 {
		e := hi + size(1460)
		out = append(out, [2]int{hi, e})
		hi = e
	}
	return out
}

// wrapOrders: the identity, every adjacent swap and every rotation of 0..n-1
func wrapOrders(n int) (orders [][]int, names []string) {
	id := make([]int, n)
	for i := range id {
		id[i] = i
	}
	orders, names = append(orders, id), append(names, "inorder")
	for i := 0; i+1 < n; i++ {
		o := append([]int(nil), id...)
		o[i], o[i+1] = o[i+1], o[i]
		orders, names = append(orders, o), append(names, fmt.Sprintf("wswap%d", i))
	}
	for s := 1; s < n; s++ {
		if n == 2 {
			break // the rotation of two is the swap
		}
		o := make([]int, n)
		for i := range o {
			o[i] = (i + s) % n
		}
		orders, names = append(orders, o), append(names, fmt.Sprintf("wrot%d", s))
	}
	return
}

// genWrapReorder: `reps` random windows per (k, layout, SYN captured, perturbed direction), every order of each.
func genWrapReorder(r *hlib.Rand, reps int) []*kase {
	var out []*kase
	for _, k := range wrapKs {
		for rep := 0; rep < reps; rep++ {
			for _, hasSyn := range []bool{true, false} {
				for pd := 0; pd < 2; pd++ {
					straddle := r.Intn(2) == 0
					win := wrapWindow(r, k, straddle)
					total := win[len(win)-1][1] - 1
					c := genConn(r, 0, profile{}, false)
					c.isn[pd] = uint32(0x100000000 - uint64(k))
					c.data[pd] = generatedData(r.U64()%1000000, total)
					// the other direction: wraps too, in order
					k2 := wrapKs[r.Intn(len(wrapKs)-1)]
					olen := r.Range(k2, k2+300)
					c.isn[1-pd] = uint32(0x100000000 - uint64(k2))
					c.data[1-pd] = generatedData(r.U64()%1000000, olen)
					fmtName := fmtNames[r.Intn(len(fmtNames))]
					link := []string{"eth", "raw", "sll", "sll2", "null", "ipv4"}[r.Intn(6)]
					orders, names := wrapOrders(len(win))
					for oi, ord := range orders {
						kk := &kase{fmtName: fmtName, links: []string{link}, conns: []conn{c}}
						var tl []pkt
						if hasSyn {
							tl = append(tl, pkt{conn: 0, dir: 0, so: 0, flags: fSYN, cut: cutNone}, pkt{conn: 0, dir: 1, so: 0, flags: fSYN | fACK, cut: cutNone},
								pkt{conn: 0, dir: 0, so: 1, flags: fACK, cut: cutNone})
							// data before the window, in order
							for so := 1; so < win[0][0]; {
								n := win[0][0] - so
								if n > 1460 {
									n = 1460
								}
								tl = append(tl, pkt{conn: 0, dir: pd, so: so, n: n, flags: fACK, cut: cutNone})
								so += n
							}
						} else {
							kk.notes = append(kk.notes, "nosyn")
						}
						other := func() {
							for so := 1; so <= olen; {
								n := olen + 1 - so
								if n > 1460 {
									n = 1460
								}
								tl = append(tl, pkt{conn: 0, dir: 1 - pd, so: so, n: n, flags: fACK, cut: cutNone})
								so += n
							}
						}
						otherFirst := (oi+rep)%2 == 0
						if otherFirst {
							other()
						}
						for _, wi := range ord {
							tl = append(tl, pkt{conn: 0, dir: pd, so: win[wi][0], n: win[wi][1] - win[wi][0], flags: fACK | fPSH, cut: cutNone})
						}
						if !otherFirst {
							other()
						}
						if (oi+k)%3 != 0 {
							// FINs in protocol order after all data
							tl = append(tl, pkt{conn: 0, dir: 0, so: len(c.data[0].bytes) + 1, flags: fFIN | fACK, cut: cutNone},
								pkt{conn: 0, dir: 1, so: len(c.data[1].bytes) + 1, flags: fFIN | fACK, cut: cutNone},
								pkt{conn: 0, dir: 0, so: len(c.data[0].bytes) + 2, flags: fACK, cut: cutNone})
						} else {
							kk.notes = append(kk.notes, "fin0")
						}
						kk.pkts = tl
						lay := "edge"
						if straddle && k > 1 {
							lay = "straddle"
						}
						kk.notes = append(kk.notes, "wrapreorder", fmt.Sprintf("wk%d", k), "w"+lay, "wpd"+"ab"[pd:pd+1], names[oi])
						out = append(out, kk)
					}
				}
			}
		}
	}
	return out
}
