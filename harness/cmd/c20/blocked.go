//go:build verif

// "blocked" checks: an evaluation that is blocked inside a Read / Seek / Close of its input when
// the interrupt arrives. The only exits of that state are data arrival and cancellation: the
// interrupt must make the call return (pkg/interp/binary.go:249-270 wraps every opened input in
// internal/ctxreadseeker bound to the evaluation's context), the innermost evaluation must end
// cancelled, the enclosing one must stay live, and nothing may hang.
//
// Harness-decided verdicts (a hang has no observation the Lean driver could judge):
//
//	blockedread <variant>   variants: stdin, fifo (non-seekable, io.ReadAll fallback path),
//	                        regread, regseek (regular seekable file, ctxreadseeker path; the read is forced by a decode),
//	                        regtostring (same, read forced by gojq's tostring encoder: known finding, KNOWN verdict),
//	                        main (Interp.Main of `fq -d json .` on a blocked stdin),
//	                        crs-read, crs-seek, crs-close (ctxreadseeker itself under a real stack)
package main

import (
	"bytes"
	"context"
	"fmt"
	"io"
	"io/fs"
	"strings"
	"sync"
	"time"

	"github.com/wader/fq/internal/ctxreadseeker"
	"github.com/wader/fq/internal/verifharness/hlib"
	"github.com/wader/fq/pkg/interp"
)

// blocker: the k-th call of the chosen kind signals blockedCh and blocks until released
type blocker struct {
	mu        sync.Mutex
	kind      string // "read" | "seek" | "close"
	k         int
	calls     int
	blockedCh chan struct{}
	releaseCh chan struct{}
	once      sync.Once
}

func newBlocker(kind string, k int) *blocker {
	return &blocker{kind: kind, k: k, blockedCh: make(chan struct{}), releaseCh: make(chan struct{})}
}

func (b *blocker) hit(kind string) {
	if kind != b.kind {
		return
	}
	b.mu.Lock()
	b.calls++
	n := b.calls
	b.mu.Unlock()
	if n == b.k {
		close(b.blockedCh)
		<-b.releaseCh
	}
}

func (b *blocker) release() { b.once.Do(func() { close(b.releaseCh) }) }

// bfile: an in-memory file; regular+seekable or a pipe-like irregular one
type bfile struct {
	b       *blocker
	data    []byte
	pos     int64
	regular bool
}

func (f *bfile) Stat() (fs.FileInfo, error) {
	mode := fs.ModeIrregular
	if f.regular {
		mode = 0o644
	}
	return interp.FixedFileInfo{FName: "blocked", FSize: int64(len(f.data)), FMode: mode}, nil
}
func (f *bfile) Read(p []byte) (int, error) {
	f.b.hit("read")
	if f.pos >= int64(len(f.data)) {
		return 0, io.EOF
	}
	// small reads so that the k-th read exists
	n := copy(p[:min(len(p), 4)], f.data[f.pos:])
	f.pos += int64(n)
	return n, nil
}
func (f *bfile) Close() error { f.b.hit("close"); return nil }

type bseekfile struct{ *bfile }

func (f bseekfile) Seek(off int64, whence int) (int64, error) {
	f.b.hit("seek")
	switch whence {
	case io.SeekStart:
		f.pos = off
	case io.SeekCurrent:
		f.pos += off
	case io.SeekEnd:
		f.pos = int64(len(f.data)) + off
	}
	return f.pos, nil
}

type bfs struct{ files map[string]func() fs.File }

func (s bfs) Open(name string) (fs.File, error) {
	if f, ok := s.files[name]; ok {
		return f(), nil
	}
	return nil, fmt.Errorf("%s: file not found", name)
}

type bstdin struct {
	fs.File
}

func (bstdin) IsTerminal() bool { return false }
func (bstdin) Size() (int, int) { return 120, 25 }

// bos: the handshaking virtual OS of the interp mode with a blocking stdin / files
type bos struct {
	*c20os
	stdin fs.File
	files bfs
	args  []string
	out   *bytes.Buffer
}

func (o *bos) Stdin() interp.Input  { return bstdin{o.stdin} }
func (o *bos) FS() fs.FS            { return o.files }
func (o *bos) Args() []string       { return o.args }
func (o *bos) Stdout() interp.Output { return ivout{o.out} }
func (o *bos) Stderr() interp.Output { return ivout{o.out} }

const blockedWait = 8 * time.Second

type nextRes struct {
	v  any
	ok bool
}

func describe(v any, ok bool) string {
	if !ok {
		return "end"
	}
	switch vv := v.(type) {
	case string:
		return vv
	case error:
		if strings.HasPrefix(vv.Error(), "PANIC") {
			return vv.Error()
		}
		if strings.Contains(vv.Error(), "context canceled") {
			return "ctxerr"
		}
		return "error:" + vv.Error()
	}
	return fmt.Sprintf("%T", v)
}

// blockedEval: outer evaluation -> nested `_eval` whose program opens `input` (null = stdin) and
// forces the read; blocks; interrupt; the nested evaluation must end cancelled promptly.
func blockedEval(name string, input string, expr string, b *blocker, osv *bos) (verdict, text string) {
	core := osv.c20os
	r := &irig{os: core}
	cur = r
	i, err := interp.New(osv, interp.DefaultRegistry)
	if err != nil {
		return "BADOP", err.Error()
	}
	r.i = i
	<-core.entered
	defer func() {
		b.release()
		r.close()
	}()

	inner := "_c20step, (" + input + " | " + expr + ")"
	outer := "_c20step, (try (_eval(" + fmt.Sprintf("%q", inner) + "; {})) catch \"caught\"), \"after\""
	sk := &sink{}
	it, err := i.Eval(context.Background(), nil, outer, interp.VerifC20EvalOpts(sk))
	if err != nil {
		return "BADOP", "Eval: " + err.Error()
	}
	r.adopt(sk)
	step := func() string {
		r.script = []string{"y"}
		v, ok := it.Next()
		r.adopt(sk)
		return describe(v, ok)
	}
	if s := step(); s != "y" {
		return "BADOP", "outer first step answered " + s
	}
	if s := step(); s != "y" || len(r.levels) != 2 {
		return "BADOP", fmt.Sprintf("nested evaluation not started: %s, %d evaluations", s, len(r.levels))
	}
	resCh := make(chan nextRes, 1)
	go func() {
		defer func() {
			if p := recover(); p != nil {
				resCh <- nextRes{fmt.Errorf("PANIC: %v", p), true}
			}
		}()
		v, ok := it.Next()
		resCh <- nextRes{v, ok}
	}()
	select {
	case <-b.blockedCh:
	case res := <-resCh:
		return "BADOP", "the evaluation finished without blocking in the " + b.kind + ": " + describe(res.v, res.ok)
	case <-time.After(blockedWait):
		return "BADOP", "the input was never " + b.kind
	}
	before := r.observe()
	r.interrupt()
	var got string
	select {
	case res := <-resCh:
		got = describe(res.v, res.ok)
	case <-time.After(blockedWait):
		after := r.observe()
		return "PROPFAIL", fmt.Sprintf("evaluation blocked in %s of its input (%s) is still stuck %s after the interrupt was processed; contexts %s -> %s",
			b.kind, name, blockedWait, before, after)
	}
	after := r.observe()
	if before != "00/11" || after != "01/10" || got != "caught" {
		return "PROPFAIL", fmt.Sprintf("blocked in %s (%s): contexts %s -> %s (expected 00/11 -> 01/10), the enclosing evaluation saw %q (expected \"caught\")",
			b.kind, name, before, after, got)
	}
	b.release()
	if s := describe(it.Next()); s != "after" {
		return "PROPFAIL", fmt.Sprintf("blocked in %s (%s): the enclosing evaluation did not go on after the interrupt: %s", b.kind, name, s)
	}
	return "OK", fmt.Sprintf("%s %s -> %s", name, before, after)
}

func newBos(stdin fs.File, files map[string]func() fs.File, args []string) *bos {
	return &bos{
		c20os: &c20os{ch: make(chan struct{}), entered: make(chan struct{}), quit: make(chan struct{})},
		stdin: stdin, files: bfs{files}, args: args, out: &bytes.Buffer{},
	}
}

var blockedData = []byte(`{"a": [1, 2, 3], "b": "0123456789012345678901234567890123456789"}`)

// blockedMain: the whole CLI path, `fq -d json .` reading a stdin that stalls
func blockedMain() (verdict, text string) {
	b := newBlocker("read", 2)
	osv := newBos(&bfile{b: b, data: blockedData}, nil, []string{"fq", "-d", "json", "."})
	i, err := interp.New(osv, interp.DefaultRegistry)
	if err != nil {
		return "BADOP", err.Error()
	}
	<-osv.entered
	defer func() {
		b.release()
		i.Stop()
		close(osv.quit)
	}()
	done := make(chan error, 1)
	go func() { done <- i.Main(context.Background(), osv.Stdout(), "verif") }()
	select {
	case <-b.blockedCh:
	case err := <-done:
		return "BADOP", fmt.Sprintf("Main returned before stdin blocked: %v %s", err, osv.out.String())
	case <-time.After(blockedWait):
		return "BADOP", "stdin was never read"
	}
	osv.ch <- struct{}{}
	<-osv.entered
	select {
	case <-done:
		return "OK", "main"
	case <-time.After(blockedWait):
		return "PROPFAIL", fmt.Sprintf("`fq -d json .` blocked reading stdin is still hanging %s after the interrupt was processed", blockedWait)
	}
}

// blockedCrs: ctxreadseeker itself, context from a real stack, cancelled by a real interrupt
func blockedCrs(kind string) (verdict, text string) {
	r := newRig()
	defer func() {
		if !r.stopped {
			r.s.Stop()
		}
	}()
	outer, popOuter := r.s.Push(context.Background())
	ctx, pop := r.s.Push(outer)
	defer popOuter()
	defer pop()
	b := newBlocker(kind, 1)
	defer b.release()
	rd := ctxreadseeker.New(ctx, bseekfile{&bfile{b: b, data: blockedData, regular: true}})
	done := make(chan error, 1)
	go func() {
		var err error
		switch kind {
		case "read":
			_, err = rd.Read(make([]byte, 8))
		case "seek":
			_, err = rd.Seek(1, io.SeekStart)
		case "close":
			err = rd.Close()
		}
		done <- err
	}()
	select {
	case <-b.blockedCh:
	case err := <-done:
		return "BADOP", fmt.Sprintf("%s returned without blocking: %v", kind, err)
	case <-time.After(blockedWait):
		return "BADOP", kind + " never reached the underlying file"
	}
	r.interrupt()
	select {
	case err := <-done:
		if err != context.Canceled || ctx.Err() == nil || outer.Err() != nil {
			return "PROPFAIL", fmt.Sprintf("ctxreadseeker.%s in flight: returned %v, context cancelled=%v, enclosing context cancelled=%v", kind, err, ctx.Err() != nil, outer.Err() != nil)
		}
		return "OK", "crs-" + kind
	case <-time.After(blockedWait):
		return "PROPFAIL", fmt.Sprintf("ctxreadseeker.%s blocked in the underlying call is still stuck %s after its context was cancelled by the interrupt", kind, blockedWait)
	}
}

var blockedVariants = []string{"stdin", "fifo", "regread", "regtostring", "regseek", "main", "crs-read", "crs-seek", "crs-close"}

func blockedVariant(name string) (verdict, text string) {
	force := "tobytes | tostring | length"
	switch name {
	case "stdin":
		b := newBlocker("read", 2)
		return blockedEval(name, "null", "open | "+force, b, newBos(&bfile{b: b, data: blockedData}, nil, nil))
	case "fifo":
		b := newBlocker("read", 3)
		files := map[string]func() fs.File{"fifo": func() fs.File { return &bfile{b: b, data: blockedData} }}
		return blockedEval(name, `"fifo"`, "open | "+force, b, newBos(&bfile{b: newBlocker("none", 0)}, files, nil))
	case "regread", "regtostring":
		b := newBlocker("read", 2)
		files := map[string]func() fs.File{"reg": func() fs.File { return bseekfile{&bfile{b: b, data: blockedData, regular: true}} }}
		// regread: the read is forced by a decode; regtostring: by gojq's own encoder (tostring/tojson),
		// which panics on the read error that Binary.JQValueToGoJQ hands it (known finding
		// tostring-binary-read-error-panic in known_findings.json)
		expr := map[string]string{"regread": "open | json | .a | length", "regtostring": "open | " + force}[name]
		v, t := blockedEval(name, `"reg"`, expr, b, newBos(&bfile{b: newBlocker("none", 0)}, files, nil))
		// KNOWN only for exactly that defect: the contexts behave as required (innermost cancelled,
		// enclosing live) and the evaluation dies with the encoder's panic on the cancellation error
		if name == "regtostring" && v == "PROPFAIL" &&
			strings.Contains(t, "contexts 00/11 -> 01/10 (expected") &&
			strings.Contains(t, `saw "PANIC: invalid type: *errors.errorString (context canceled)"`) {
			return "KNOWN", "tostring-binary-read-error-panic " + t
		}
		return v, t
	case "regseek":
		b := newBlocker("seek", 1)
		files := map[string]func() fs.File{"reg": func() fs.File { return bseekfile{&bfile{b: b, data: blockedData, regular: true}} }}
		return blockedEval(name, `"reg"`, "open | "+force, b, newBos(&bfile{b: newBlocker("none", 0)}, files, nil))
	case "main":
		return blockedMain()
	case "crs-read", "crs-seek", "crs-close":
		return blockedCrs(name[4:])
	}
	return "BADOP", "unknown blockedread variant " + name
}

func blockedChecks(o *hlib.Out, only string) {
	vs := blockedVariants
	if only != "" {
		vs = []string{only}
	}
	for _, v := range vs {
		tick("blockedread " + v)
		verdict, text := blockedVariant(v)
		if verdict == "KNOWN" { // `KNOWN <key> text`
			key, rest, _ := strings.Cut(text, " ")
			o.Verdict(verdict, key+" blockedread "+v+": "+rest)
		} else {
			o.Verdict(verdict, "blockedread "+v+": "+text)
		}
		o.Class("blockedread/" + v)
	}
}
