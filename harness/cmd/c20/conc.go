//go:build verif

// conc mode (built with -race): worker sub-processes run a free-running interrupting goroutine
// against goroutines that start and finish evaluations, with fixed iteration counts, for several
// GOMAXPROCS. The parent turns each worker's fate into a verdict line:
//
//	data race reported (exit 66 / "DATA RACE")  -> !PROPFAIL
//	crash (Go panic, e.g. index out of range)   -> !PROPFAIL
//	no exit before the watchdog deadline        -> !PROPFAIL (deadlock)
//	an invariant checked by the worker fails    -> !PROPFAIL
//	otherwise                                   -> !OK
//
// and forwards the recorded two-thread histories (`lin` case lines) to the Lean driver, which
// checks each for linearizability against the abstract specification.
//
// Case line:  `conc @<scenario> @gmp=<n> @seed=<s> @iters=<k> <scenario>`  (replay text of a verdict)
//
//	`lin @gmp=<n> <E events>|<T events>`  events `,`-separated `<op>:<t0>:<t1>[:<errbits>]`, op as in
//	seq plus `o` (atomic snapshot of Err()!=nil of all contexts); T events are interrupts `i:<t0>:<t1>`
//	(t0 before the trigger is released, t1 after the goroutine re-entered the trigger function);
//	timestamps come from one atomic counter.
package main

import (
	"bufio"
	"bytes"
	"context"
	"fmt"
	"io"
	"os"
	"os/exec"
	"os/signal"
	"regexp"
	"runtime"
	"strconv"
	"strings"
	"sync"
	"sync/atomic"
	"syscall"
	"time"

	"github.com/wader/fq/internal/ctxreadseeker"
	"github.com/wader/fq/internal/ctxstack"
	"github.com/wader/fq/internal/verifharness/hlib"
	"github.com/wader/fq/pkg/cli"
	"github.com/wader/fq/pkg/interp"
)

// ---------------------------------------------------------------- parent

type job struct {
	scen  string
	gmp   int
	seed  uint64
	iters int
}

func (j job) text() string {
	return fmt.Sprintf("conc @gmp=%d @seed=%d @iters=%d %s", j.gmp, j.seed, j.iters, j.scen)
}

func repoDir() string {
	if d := os.Getenv("VERIF_REPO"); d != "" {
		return d
	}
	return "/repo"
}

var raceFrame = regexp.MustCompile(`(?m)^\s+(\S+)\(\)\n\s+(\S+):(\d+)`)

// classify the first race report: the frames of the two conflicting accesses
func raceSummary(stderr string) string {
	i := strings.Index(stderr, "WARNING: DATA RACE")
	if i < 0 {
		return ""
	}
	rep := stderr[i:]
	if j := strings.Index(rep[1:], "=================="); j > 0 {
		rep = rep[:j]
	}
	var fr []string
	for _, blk := range strings.Split(rep, "\n\n") {
		if strings.HasPrefix(blk, "Goroutine") || len(fr) >= 2 {
			continue
		}
		// the innermost frame inside fq (not the harness, not the runtime) of each access
		for _, mm := range raceFrame.FindAllStringSubmatch(blk, -1) {
			f := mm[2]
			if strings.Contains(f, "/verifharness/") || !strings.HasPrefix(f, repoDir()+"/") {
				continue
			}
			f = f[len(repoDir())+1:]
			fr = append(fr, mm[1][strings.LastIndex(mm[1], "/")+1:]+"@"+f+":"+mm[3])
			break
		}
	}
	if len(fr) == 0 {
		fr = []string{"(no fq frame in the report)"}
	}
	return strings.Join(fr, " <-> ")
}

func runJob(exe string, j job, deadline time.Duration) (verdict, text string, hist []string, stats map[string]int) {
	stats = map[string]int{}
	ctx, cancel := context.WithTimeout(context.Background(), deadline)
	defer cancel()
	cmd := exec.CommandContext(ctx, exe, "worker", j.scen, strconv.FormatUint(j.seed, 10), strconv.Itoa(j.iters))
	cmd.Env = append(os.Environ(), "GOMAXPROCS="+strconv.Itoa(j.gmp), "GORACE=halt_on_error=1 exitcode=66", "GOTRACEBACK=single")
	var so, se bytes.Buffer
	cmd.Stdout, cmd.Stderr = &so, &se
	err := cmd.Run()
	fails := []string{}
	finished := false
	for _, l := range strings.Split(so.String(), "\n") {
		switch {
		case strings.HasPrefix(l, "H "):
			hist = append(hist, l[2:])
		case strings.HasPrefix(l, "S "):
			f := strings.Fields(l)
			if len(f) == 3 {
				n, _ := strconv.Atoi(f[2])
				stats[f[1]] += n
			}
		case strings.HasPrefix(l, "F "):
			fails = append(fails, l[2:])
		case l == "DONE":
			finished = true
		}
	}
	es := se.String()
	switch {
	case ctx.Err() != nil:
		return "PROPFAIL", fmt.Sprintf("deadlock: worker did not finish within %s: %s", deadline, j.text()), hist, stats
	case strings.Contains(es, "DATA RACE"):
		return "RACE", raceSummary(es), hist, stats
	case err != nil || !finished:
		first := ""
		for _, l := range strings.Split(es, "\n") {
			if strings.HasPrefix(l, "panic:") || strings.HasPrefix(l, "fatal error:") {
				first = l
				break
			}
		}
		if first == "" {
			first = fmt.Sprintf("%v: %.200s", err, es)
		}
		return "PROPFAIL", fmt.Sprintf("crash: %s: %s", first, j.text()), hist, stats
	case len(fails) > 0:
		return "PROPFAIL", fmt.Sprintf("%s: %s", fails[0], j.text()), hist, stats
	}
	return "OK", j.text(), hist, stats
}

// knownRace: data races that belong to a recorded finding (known_findings.json)
func knownRace(j job, summary string) (key string, ok bool) {
	return "", false
}

func runJobs(cfg hlib.Config, o *hlib.Out, jobs []job) {
	// backstop only: a hang inside fq is detected by the worker's own no-progress watchdog
	deadline := 5 * time.Minute
	if cfg.Thorough() {
		deadline = 20 * time.Minute
	}
	exe, err := os.Executable()
	if err != nil {
		panic(err)
	}
	type res struct {
		verdict, text string
		hist          []string
		stats         map[string]int
	}
	results := make([]res, len(jobs))
	sem := make(chan struct{}, 3)
	var wg sync.WaitGroup
	for k, j := range jobs {
		wg.Add(1)
		go func() {
			defer wg.Done()
			sem <- struct{}{}
			defer func() { <-sem }()
			tick("conc " + j.text())
			v, t, h, s := runJob(exe, j, deadline)
			results[k] = res{v, t, h, s}
			tick("conc done " + j.text())
		}()
	}
	wg.Wait()
	seenLin := map[string]bool{}
	for k, r := range results {
		j := jobs[k]
		switch r.verdict {
		case "RACE":
			if key, ok := knownRace(j, r.text); ok {
				o.Verdict("KNOWN", key+" data race: "+r.text+": "+j.text())
			} else {
				o.Verdict("PROPFAIL", "data race: "+r.text+": "+j.text())
			}
		default:
			o.Verdict(r.verdict, r.text)
		}
		o.Class(j.scen + "/" + strconv.Itoa(j.gmp))
		for key, n := range r.stats {
			o.Stat("conc_"+j.scen+"_"+key, n)
		}
		for _, h := range r.hist {
			if seenLin[h] {
				continue
			}
			seenLin[h] = true
			o.Case(fmt.Sprintf("lin @gmp=%d %s", j.gmp, h), "-")
			if strings.Count(h, "i:") > 0 && strings.Count(h, ":") > 12 {
				o.Class(h)
			}
		}
	}
}

func modeConc(cfg hlib.Config, o *hlib.Out) {
	type sc struct {
		name         string
		quick, thoro int
	}
	scens := []sc{
		{"stress", 3000, 40000},  // one evaluator, nested push / finish in several orders
		{"stress2", 2000, 20000}, // two evaluators on the same stack
		{"stop", 300, 3000},      // Stop racing with interrupts and with an evaluator
		{"lin", 400, 6000},       // recorded histories for the linearizability check
		{"interp", 25, 150},      // the real Interp: nested Eval/_eval against a free-running interrupt channel
		{"crs", 200, 2000},       // ctxreadseeker: cancellation while the underlying read is in flight
		{"blocked", 12, 120},     // evaluation blocked reading a stalled stdin, interrupt around it
		{"bridge", 30, 300},      // cli signal bridge with real SIGINT
	}
	gmps := []int{1, 2, 4}
	if cfg.Thorough() {
		gmps = []int{1, 2, 4, 8}
	}
	r := hlib.NewRand(cfg.Seed)
	var jobs []job
	for _, s := range scens {
		for _, g := range gmps {
			if s.name == "bridge" && g != 2 {
				continue
			}
			it := s.quick
			if cfg.Thorough() {
				it = s.thoro
			}
			jobs = append(jobs, job{s.name, g, r.U64() % 1000000, it})
		}
	}
	runJobs(cfg, o, jobs)
	o.Stat("conc_jobs", len(jobs))
}

func concReplay(cfg hlib.Config, o *hlib.Out, ws []string) {
	j := job{gmp: 2, seed: cfg.Seed, iters: 1000}
	for _, w := range ws {
		switch {
		case strings.HasPrefix(w, "@gmp="):
			j.gmp, _ = strconv.Atoi(w[5:])
		case strings.HasPrefix(w, "@seed="):
			j.seed, _ = strconv.ParseUint(w[6:], 10, 64)
		case strings.HasPrefix(w, "@iters="):
			j.iters, _ = strconv.Atoi(w[7:])
		case !strings.HasPrefix(w, "@"):
			j.scen = w
		}
	}
	if j.scen == "" {
		o.Verdict("BADOP", "no scenario in "+strings.Join(ws, " "))
		return
	}
	// a schedule cannot be replayed exactly: repeat the same scenario a few times
	runJobs(cfg, o, []job{j, j, j})
}

// ---------------------------------------------------------------- worker

type wout struct {
	w *bufio.Writer
}

func (o *wout) fail(format string, a ...any) { fmt.Fprintf(o.w, "F "+format+"\n", a...) }
func (o *wout) stat(k string, n int)         { fmt.Fprintf(o.w, "S %s %d\n", k, n) }

var spinSink atomic.Int64

// wprogress counts finished iterations of the running scenario; the worker's own watchdog turns
// "no iteration finished for a minute" into a deadlock verdict, independent of how slow the
// (race-instrumented, possibly heavily loaded) machine is overall.
var wprogress atomic.Int64

func iterDone() { wprogress.Add(1) }

func workerWatchdog(o *wout, limit time.Duration) {
	go func() {
		last, since := wprogress.Load(), time.Now()
		for {
			time.Sleep(500 * time.Millisecond)
			if p := wprogress.Load(); p != last {
				last, since = p, time.Now()
				continue
			}
			if time.Since(since) > limit {
				fmt.Fprintf(os.Stdout, "F deadlock: no iteration finished for %s (after %d iterations)\nDONE\n", limit, last)
				os.Exit(0)
			}
		}
	}()
}

func spin(n int) {
	for k := 0; k < n; k++ {
		spinSink.Add(1)
	}
}

type freeStack struct {
	s    *ctxstack.Stack
	trig chan struct{}
	sent atomic.Int64
}

func newFree() *freeStack {
	c := &freeStack{trig: make(chan struct{})}
	c.s = ctxstack.New(func(stopCh chan struct{}) {
		select {
		case <-c.trig:
		case <-stopCh:
		}
	})
	return c
}

// interrupter releases the trigger as fast as the goroutine takes it until done is closed
func (c *freeStack) interrupter(done chan struct{}, rnd *hlib.Rand) (wait func() int64) {
	fin := make(chan struct{})
	go func() {
		defer close(fin)
		for {
			select {
			case c.trig <- struct{}{}:
				c.sent.Add(1)
			case <-done:
				return
			}
			spin(rnd.Intn(200))
			if rnd.Intn(16) == 0 {
				runtime.Gosched()
			}
		}
	}()
	return func() int64 { <-fin; return c.sent.Load() }
}

// evalLoop: push `depth` evaluations, look, finish them in one of several orders, check that all
// are cancelled afterwards. Returns the number of evaluations found cancelled before their finish.
func evalLoop(c *freeStack, rnd *hlib.Rand, iters int, o *wout, who string, shared bool) (hits int) {
	for it := 0; it < iters; it++ {
		depth := 1 + rnd.Intn(4)
		chain := it%4 == 3
		ctxs := make([]context.Context, 0, depth)
		pops := make([]func(), 0, depth)
		for d := 0; d < depth; d++ {
			var parent context.Context = context.Background()
			if chain && d > 0 {
				parent = ctxs[d-1]
			}
			ctx, pop := c.s.Push(parent)
			ctxs = append(ctxs, ctx)
			pops = append(pops, pop)
			spin(rnd.Intn(100))
		}
		if !chain {
			for _, ctx := range ctxs {
				if ctx.Err() != nil {
					hits++
				}
			}
		}
		switch rnd.Intn(3) {
		case 0:
			for d := depth - 1; d >= 0; d-- {
				pops[d]()
				spin(rnd.Intn(50))
			}
		case 1:
			pops[0]()
		default:
			for k := 0; k < depth; k++ {
				pops[rnd.Intn(depth)]()
			}
			pops[0]()
		}
		if shared {
			// with another evaluator on the same stack an own outer evaluation may have been ended
			// by the other one before an own inner one was started: finish each explicitly
			for d := depth - 1; d >= 0; d-- {
				pops[d]()
			}
		}
		for d, ctx := range ctxs {
			if ctx.Err() == nil {
				o.fail("%s: evaluation %d of %d is still live after it was finished (iteration %d)", who, d, depth, it)
				return hits
			}
		}
		iterDone()
	}
	return hits
}

func scenStress(seed uint64, iters int, o *wout) {
	rnd := hlib.NewRand(seed)
	c := newFree()
	done := make(chan struct{})
	wait := c.interrupter(done, rnd.Fork())
	hits := evalLoop(c, rnd, iters, o, "evaluator", false)
	close(done)
	n := wait()
	c.s.Stop()
	// with Background parents an interrupt cancels at most one evaluation
	if int64(hits) > n {
		o.fail("%d evaluations were cancelled while running but only %d interrupts were delivered", hits, n)
	}
	o.stat("interrupts", int(n))
	o.stat("cancelled_while_running", hits)
}

func scenStress2(seed uint64, iters int, o *wout) {
	rnd := hlib.NewRand(seed)
	c := newFree()
	done := make(chan struct{})
	wait := c.interrupter(done, rnd.Fork())
	var wg sync.WaitGroup
	var mu sync.Mutex
	for e := 0; e < 2; e++ {
		r2 := rnd.Fork()
		wg.Add(1)
		go func() {
			defer wg.Done()
			lo := &wout{w: bufio.NewWriter(io.Discard)}
			var buf bytes.Buffer
			lo.w = bufio.NewWriter(&buf)
			evalLoop(c, r2, iters, lo, fmt.Sprintf("evaluator %d", e), true)
			lo.w.Flush()
			mu.Lock()
			o.w.Write(buf.Bytes())
			mu.Unlock()
		}()
	}
	wg.Wait()
	close(done)
	o.stat("interrupts", int(wait()))
	c.s.Stop()
}

// Stop while the interrupter and an evaluator are running; afterwards everything that was on the
// stack when Stop returned must be cancelled.
func scenStop(seed uint64, iters int, o *wout) {
	rnd := hlib.NewRand(seed)
	for it := 0; it < iters; it++ {
		c := newFree()
		done := make(chan struct{})
		wait := c.interrupter(done, rnd.Fork())
		depth := 1 + rnd.Intn(4)
		var ctxs []context.Context
		var pops []func()
		for d := 0; d < depth; d++ {
			ctx, pop := c.s.Push(context.Background())
			ctxs = append(ctxs, ctx)
			pops = append(pops, pop)
		}
		var wg sync.WaitGroup
		wg.Add(1)
		r2 := rnd.Fork()
		go func() { // evaluator that keeps finishing and pushing above while Stop runs
			defer wg.Done()
			for k := 0; k < 3; k++ {
				_, pop := c.s.Push(ctxs[depth-1])
				spin(r2.Intn(200))
				pop()
			}
		}()
		spin(rnd.Intn(2000))
		c.s.Stop()
		for d, ctx := range ctxs {
			if ctx.Err() == nil {
				o.fail("evaluation %d of %d is live after Stop returned (iteration %d)", d, depth, it)
				return
			}
		}
		wg.Wait()
		close(done)
		wait()
		for _, p := range pops {
			p()
		}
		iterDone()
	}
}

// ---- lin: recorded histories

type lev struct {
	op     string
	t0, t1 int64
	bits   string
}

func (e lev) String() string {
	s := fmt.Sprintf("%s:%d:%d", e.op, e.t0, e.t1)
	if e.op == "o" {
		s += ":" + e.bits
	}
	return s
}

func linOne(rnd *hlib.Rand) string {
	var clock atomic.Int64
	r := newRig()
	nInts := rnd.Range(1, 4)
	var prog []op
	n := 0
	plen := rnd.Range(6, 40)
	for len(prog) < plen {
		switch k := rnd.Intn(20); {
		case k < 8 && n < 6:
			prog = append(prog, op{kind: 'p', arg: -1})
			n++
		case k < 14 && n > 0:
			prog = append(prog, op{kind: 'f', arg: rnd.Intn(n)})
		default:
			prog = append(prog, op{kind: 'o'})
		}
	}
	collect := func() string {
		var b strings.Builder
		for _, c := range r.ctxs {
			if c.Err() != nil {
				b.WriteByte('1')
			} else {
				b.WriteByte('0')
			}
		}
		if b.Len() == 0 {
			return "-"
		}
		return b.String()
	}
	// cancellation is monotone: two equal collects are an atomic snapshot
	snapshot := func() string {
		a := collect()
		for k := 0; k < 100; k++ {
			b := collect()
			if a == b {
				return a
			}
			a = b
		}
		return "?"
	}
	start := make(chan struct{})
	tdone := make(chan []lev)
	r2 := rnd.Fork()
	// the k-th interrupt is released when the evaluator is about to run op number target[k]
	var eprog atomic.Int64
	targets := make([]int64, nInts)
	for k := range targets {
		targets[k] = int64(r2.Intn(len(prog) + 1))
		if k > 0 && targets[k] < targets[k-1] {
			targets[k] = targets[k-1]
		}
	}
	go func() {
		<-start
		var evs []lev
		for k := 0; k < nInts; k++ {
			for eprog.Load() < targets[k] {
				if runtime.GOMAXPROCS(0) == 1 {
					runtime.Gosched()
				}
			}
			spin(r2.Intn(4))
			t0 := clock.Add(1)
			r.trig <- struct{}{}
			<-r.entered
			t1 := clock.Add(1)
			evs = append(evs, lev{"i", t0, t1, ""})
		}
		tdone <- evs
	}()
	var evs []lev
	close(start)
	do := func(o op) {
		t0 := clock.Add(1)
		bits := ""
		switch o.kind {
		case 'p':
			r.push(o.arg)
		case 'f':
			r.pops[o.arg]()
		case 'o':
			bits = snapshot()
		case 's':
			r.s.Stop()
			r.stopped = true
		}
		t1 := clock.Add(1)
		evs = append(evs, lev{o.String(), t0, t1, bits})
	}
	for k, o := range prog {
		eprog.Store(int64(k))
		spin(rnd.Intn(4))
		if rnd.Intn(16) == 0 {
			runtime.Gosched()
		}
		do(o)
		if o.kind != 'o' && rnd.Intn(2) == 0 {
			do(op{kind: 'o'})
		}
	}
	eprog.Store(int64(len(prog)))
	tevs := <-tdone
	do(op{kind: 'o'})
	do(op{kind: 's'})
	do(op{kind: 'o'})
	var es, ts []string
	for _, e := range evs {
		es = append(es, e.String())
	}
	for _, e := range tevs {
		ts = append(ts, e.String())
	}
	return strings.Join(es, ",") + "|" + strings.Join(ts, ",")
}

func scenLin(seed uint64, iters int, o *wout) {
	rnd := hlib.NewRand(seed)
	for it := 0; it < iters; it++ {
		fmt.Fprintf(o.w, "H %s\n", linOne(rnd.Fork()))
		iterDone()
	}
	o.stat("histories", iters)
}

// ---- interp: the real interpreter with a free-running interrupt channel

type freeOS struct {
	c20os
}

func (o *freeOS) InterruptChan() chan struct{} { return o.ch }

func scenInterp(seed uint64, iters int, o *wout) {
	rnd := hlib.NewRand(seed)
	fos := &freeOS{c20os{ch: make(chan struct{}), entered: make(chan struct{}), quit: make(chan struct{})}}
	i, err := interp.New(fos, interp.DefaultRegistry)
	if err != nil {
		o.fail("interp.New: %v", err)
		return
	}
	done := make(chan struct{})
	fin := make(chan struct{})
	var sent atomic.Int64
	r2 := rnd.Fork()
	go func() {
		defer close(fin)
		for {
			select {
			case fos.ch <- struct{}{}:
				sent.Add(1)
			case <-done:
				return
			}
			time.Sleep(time.Duration(r2.Intn(400000)) * time.Microsecond)
		}
	}()
	progs := []string{
		`[range(3000)] | map(. * 2) | add`,
		`[range(200)] | add, (try (_eval("[range(2000)] | add"; {})) catch "c"), 1`,
		`try (_eval("try (_eval(\"[range(3000)] | add\"; {})) catch \"c2\""; {})) catch "c1"`,
		`first(_eval("range(100000)"; {})), ([range(1000)] | add)`,
	}
	values, cancels, others := 0, 0, 0
	for it := 0; it < iters; it++ {
		sk := &sink{}
		iter, err := i.Eval(context.Background(), nil, progs[rnd.Intn(len(progs))], interp.VerifC20EvalOpts(sk))
		if err != nil {
			o.fail("Eval: %v", err)
			break
		}
		for {
			v, ok := iter.Next()
			if !ok {
				break
			}
			if e, isErr := v.(error); isErr {
				if strings.Contains(e.Error(), "context canceled") {
					cancels++
				} else {
					others++
					o.fail("evaluation ended with an error that is not a cancellation: %v", e)
				}
				break
			}
			values++
		}
		iterDone()
	}
	close(done)
	<-fin
	i.Stop()
	close(fos.quit)
	o.stat("values", values)
	o.stat("cancelled_evaluations", cancels)
	o.stat("interrupts", int(sent.Load()))
}

// ---- blocked: an evaluation blocked reading a stalled, non-seekable stdin; one interrupt at a
// random moment around the start of the evaluation, one after the read is known to be blocked: the
// evaluation must come back cancelled (never hang), under the race detector.

type freeBos struct{ *bos }

func (o freeBos) InterruptChan() chan struct{} { return o.ch }

func scenBlocked(seed uint64, iters int, o *wout) {
	rnd := hlib.NewRand(seed)
	cancelled, early := 0, 0
	for it := 0; it < iters; it++ {
		b := newBlocker("read", 1+rnd.Intn(3))
		osv := freeBos{newBos(&bfile{b: b, data: blockedData}, nil, nil)}
		i, err := interp.New(osv, interp.DefaultRegistry)
		if err != nil {
			o.fail("interp.New: %v", err)
			return
		}
		res := make(chan string, 1)
		go func() {
			iter, err := i.Eval(context.Background(), nil, `try (_eval("null | open | tobytes | length"; {})) catch "caught"`, interp.VerifC20EvalOpts(&sink{}))
			if err != nil {
				res <- "evalerr:" + err.Error()
				return
			}
			v, ok := iter.Next()
			res <- describe(v, ok)
		}()
		send := func() bool {
			select {
			case osv.ch <- struct{}{}:
				return true
			case <-time.After(blockedWait):
				return false
			}
		}
		d := time.Duration(rnd.Intn(200000)) * time.Microsecond
		var got string
		select {
		case got = <-res:
		case <-b.blockedCh:
		case <-time.After(d):
			early++
			send() // somewhere between New and the blocked read: cancels whatever is innermost then
			select {
			case got = <-res:
			case <-b.blockedCh:
			case <-time.After(blockedWait):
				o.fail("evaluation neither finished nor reached the read of stdin (iteration %d)", it)
				return
			}
		}
		if got == "" {
			// blocked in the read now
			if !send() {
				o.fail("interrupt could not be delivered while the evaluation was blocked (iteration %d)", it)
				return
			}
			select {
			case got = <-res:
			case <-time.After(blockedWait):
				o.fail("evaluation blocked reading stdin still stuck %s after the interrupt (iteration %d)", blockedWait, it)
				b.release()
				return
			}
		}
		if got != "caught" && got != "ctxerr" {
			o.fail("evaluation interrupted around a blocked read of stdin ended with %q (iteration %d)", got, it)
			b.release()
			return
		}
		cancelled++
		b.release()
		i.Stop()
		close(osv.quit)
		iterDone()
	}
	o.stat("cancelled", cancelled)
	o.stat("early_interrupts", early)
}

// ---- crs: ctxreadseeker, cancellation (by a real interrupt on a real stack) while the
// underlying read is in flight. The caller does not touch its buffer after a cancelled read.

type gated struct {
	gate chan struct{}
	pos  int
}

func (g *gated) Read(p []byte) (int, error) {
	<-g.gate
	for i := range p {
		p[i] = byte(g.pos)
		g.pos++
	}
	return len(p), nil
}
func (g *gated) Seek(off int64, whence int) (int64, error) { <-g.gate; return off, nil }

func scenCrs(seed uint64, iters int, o *wout) {
	rnd := hlib.NewRand(seed)
	c := newFree()
	cancelled, passed := 0, 0
	for it := 0; it < iters; it++ {
		ctx, pop := c.s.Push(context.Background())
		g := &gated{gate: make(chan struct{})}
		r := ctxreadseeker.New(ctx, g)
		d1, d2 := rnd.Intn(400), rnd.Intn(400)
		go func() {
			time.Sleep(time.Duration(d1) * time.Microsecond)
			c.trig <- struct{}{} // interrupt: cancels ctx (top of the stack)
		}()
		go func() {
			time.Sleep(time.Duration(d2) * time.Microsecond)
			close(g.gate)
		}()
		buf := make([]byte, 8)
		var n int
		var err error
		if it%3 == 2 {
			var n64 int64
			n64, err = r.Seek(3, io.SeekStart)
			n = int(n64)
		} else {
			n, err = r.Read(buf)
		}
		switch {
		case err == nil && it%3 != 2:
			passed++
			if n != 8 || buf[7] != 7 {
				o.fail("ctxreadseeker.Read returned n=%d buf=%x without error", n, buf)
			}
		case err == nil:
			passed++
		case err == context.Canceled:
			cancelled++
			if n != 0 {
				o.fail("ctxreadseeker returned n=%d together with the cancellation error", n)
			}
		default:
			o.fail("ctxreadseeker returned unexpected error %v", err)
		}
		// wait for the interrupt to be consumed so that it cannot hit the next iteration
		for ctx.Err() == nil {
			runtime.Gosched()
		}
		pop()
		iterDone()
	}
	c.s.Stop()
	o.stat("cancelled_in_flight", cancelled)
	o.stat("completed", passed)
}

// ---- bridge: os.Interrupt -> interrupt channel (cli.go:45-80) with real signals to ourselves

func scenBridge(seed uint64, iters int, o *wout) {
	// keep the default action (terminate) away even when the bridge is down
	guard := make(chan os.Signal, 1)
	signal.Notify(guard, os.Interrupt)
	defer signal.Stop(guard)
	ch, closeFn := cli.VerifC20SignalBridge()
	time.Sleep(10 * time.Millisecond)
	pid := os.Getpid()
	got, sent := 0, 0
	for it := 0; it < iters; it++ {
		burst := 1 + it%4
		for k := 0; k < burst; k++ {
			_ = syscall.Kill(pid, syscall.SIGINT)
		}
		sent += burst
		// at least one token arrives for a burst; never more tokens than signals; the bridge
		// never blocks on a full channel (it drops)
		n := 0
		deadline := time.After(5 * time.Second)
	recv:
		for {
			select {
			case _, ok := <-ch:
				if !ok {
					o.fail("interrupt channel closed while the bridge is running")
					return
				}
				n++
			case <-time.After(20 * time.Millisecond):
				if n > 0 {
					break recv
				}
			case <-deadline:
				break recv
			}
		}
		got += n
		if n < 1 {
			o.fail("%d SIGINT produced no interrupt within 5s (iteration %d)", burst, it)
			return
		}
		if got > sent {
			o.fail("%d interrupts from %d SIGINT", got, sent)
			return
		}
		iterDone()
	}
	closeFn()
	select {
	case _, ok := <-ch:
		if ok {
			// a token that was still in flight; the next receive must see the close
			select {
			case _, ok2 := <-ch:
				if ok2 {
					o.fail("interrupt channel delivers after the bridge was closed")
				}
			case <-time.After(2 * time.Second):
				o.fail("interrupt channel not closed after the bridge was closed")
			}
		}
	case <-time.After(2 * time.Second):
		o.fail("interrupt channel not closed after the bridge was closed")
	}
	o.stat("interrupts", got)
}

func workerMain(args []string) {
	if len(args) < 3 {
		fmt.Fprintln(os.Stderr, "worker <scenario> <seed> <iters>")
		os.Exit(2)
	}
	seed, _ := strconv.ParseUint(args[1], 10, 64)
	iters, _ := strconv.Atoi(args[2])
	o := &wout{w: bufio.NewWriterSize(os.Stdout, 1<<20)}
	workerWatchdog(o, 60*time.Second)
	switch args[0] {
	case "stress":
		scenStress(seed, iters, o)
	case "stress2":
		scenStress2(seed, iters, o)
	case "stop":
		scenStop(seed, iters, o)
	case "lin":
		scenLin(seed, iters, o)
	case "interp":
		scenInterp(seed, iters, o)
	case "crs":
		scenCrs(seed, iters, o)
	case "blocked":
		scenBlocked(seed, iters, o)
	case "bridge":
		scenBridge(seed, iters, o)
	default:
		fmt.Fprintln(os.Stderr, "unknown scenario", args[0])
		os.Exit(2)
	}
	fmt.Fprintln(o.w, "DONE")
	o.w.Flush()
}
