//go:build verif

package main

// run `copy`: every way fq hands bytes to an evaluation's output (an iox.CtxWriter bound to the
// evaluation's context, interp.go:968 / 526-529), with the context cancelled WHILE the output is
// being produced: the source reader (or the loop handing over the chunks) delivers an interrupt to
// the real ctxstack after k chunks and waits until the goroutine has processed it. Observation =
// what reached the sink before / after that moment. The Lean model (`copyFrom`, FqModel/CtxStack.lean
// §5b) says: exactly the chunks delivered before the cancellation (copy_stops_at_cancel), for a copy
// as for chunk-by-chunk writes (copy_eq_writes). A fast path that does not go through `Write` per chunk
// (io.ReaderFrom, io.StringWriter on the CtxWriter) shows as bytes after the cancellation.
//
// and `e2e` cases: the whole interp.Main on the virtual OS, stdout = a sink that delivers the interrupt
// when its K-th byte has arrived.

import (
	"bufio"
	"context"
	"errors"
	"fmt"
	"io"
	"strconv"
	"strings"
	"time"

	"github.com/wader/fq/internal/bitiox"
	"github.com/wader/fq/internal/iox"
	"github.com/wader/fq/internal/verifharness/hlib"
	"github.com/wader/fq/pkg/interp"
)

// as interp.go:968: a CtxWriter VALUE in an io.Writer
func ioxCtxWriter(w io.Writer, ctx context.Context) io.Writer { return iox.CtxWriter{Writer: w, Ctx: ctx} }

func pat(off int) byte { return byte(off*7 + off>>8 + off>>16) }

// csink: the underlying writer; checks that what arrives is the source's byte stream in order
type csink struct {
	n         int
	pre, post int
	cancelled bool
	bad       bool
}

func (s *csink) Write(p []byte) (int, error) {
	for i, b := range p {
		if b != pat(s.n+i) {
			s.bad = true
		}
	}
	s.n += len(p)
	if s.cancelled {
		s.post += len(p)
	} else {
		s.pre += len(p)
	}
	return len(p), nil
}

// csrc delivers n chunks of at most cs bytes; the Read that would deliver chunk k first has the
// interrupt delivered and processed
type csrc struct {
	cs, n, k  int
	delivered int
	off       int
	reads     []int
	cancel    func()
}

func (s *csrc) maybeCancel() {
	if s.delivered == s.k && s.cancel != nil {
		s.cancel()
		s.cancel = nil
	}
}

func (s *csrc) Read(p []byte) (int, error) {
	s.maybeCancel()
	if s.delivered >= s.n {
		return 0, io.EOF
	}
	m := s.cs
	if len(p) < m {
		m = len(p)
	}
	for i := 0; i < m; i++ {
		p[i] = pat(s.off + i)
	}
	s.off += m
	s.delivered++
	s.reads = append(s.reads, m)
	return m, nil
}

// chunk: the next chunk for the callers that hand chunks over themselves
func (s *csrc) chunk() []byte {
	p := make([]byte, s.cs)
	n, _ := s.Read(p)
	return p[:n]
}

// ReadBits: csrc as a bitio.Reader (whole bytes)
type csrcBits struct{ *csrc }

func (s csrcBits) ReadBits(p []byte, nBits int64) (int64, error) {
	n, err := s.csrc.Read(p[:nBits/8])
	return int64(n) * 8, err
}

var copyMethods = []string{
	"copy", "copybuf", "copyn", "copybits", "copybitsbuf", "readerfrom",
	"writestring", "fprintf", "stringwriter", "write",
	"bufio", "bufiocopy",
}

type copyCase struct {
	method string
	wr     string // flat | nest
	cs     int
	n      int
	k      int
}

func (c copyCase) String() string {
	return fmt.Sprintf("copy %s %s cs=%d n=%d k=%d", c.method, c.wr, c.cs, c.n, c.k)
}

func parseCopyCase(ws []string) (copyCase, error) {
	var c copyCase
	if len(ws) != 6 || ws[0] != "copy" {
		return c, fmt.Errorf("copy case: %v", ws)
	}
	c.method, c.wr = ws[1], ws[2]
	for i, pfx := range []string{"cs=", "n=", "k="} {
		v, err := strconv.Atoi(strings.TrimPrefix(ws[3+i], pfx))
		if err != nil || !strings.HasPrefix(ws[3+i], pfx) {
			return c, fmt.Errorf("copy case: %v", ws)
		}
		switch i {
		case 0:
			c.cs = v
		case 1:
			c.n = v
		case 2:
			c.k = v
		}
	}
	if c.cs < 1 || c.cs > 1<<21 || c.n < 0 || c.n > 64 || c.k < 0 {
		return c, fmt.Errorf("copy case: out of range %v", ws)
	}
	return c, nil
}

func errName(err error) string {
	switch {
	case err == nil:
		return "nil"
	case errors.Is(err, context.Canceled):
		return "canceled"
	case errors.Is(err, io.ErrShortWrite):
		return "short"
	default:
		return "other"
	}
}

// runCopy returns the observation, or "absent" when the writer does not offer the interface
func runCopy(c copyCase) (obs string) {
	r := newRig()
	defer func() {
		if !r.stopped {
			r.s.Stop()
		}
	}()
	r.push(-1)
	if c.wr == "nest" {
		r.push(0)
	}
	sk := &csink{}
	// the rig's writers end in its own counting sink; rebuild the same chain over the checking sink
	var w io.Writer
	switch c.wr {
	case "flat":
		w = ioxCtxWriter(sk, r.ctxs[0])
	case "nest":
		w = ioxCtxWriter(ioxCtxWriter(sk, r.ctxs[0]), r.ctxs[1])
	default:
		return "invalid:wr"
	}
	src := &csrc{cs: c.cs, n: c.n, k: c.k}
	src.cancel = func() {
		r.interrupt() // cancels the innermost context (the one `w` is bound to), processed on return
		sk.cancelled = true
	}
	var err error
	defer func() {
		if p := recover(); p != nil {
			obs = fmt.Sprintf("panic:%v", p)
		}
	}()
	perChunk := func(f func(p []byte) error) {
		for {
			p := src.chunk()
			if len(p) == 0 && src.delivered >= src.n {
				break
			}
			if e := f(p); e != nil && err == nil {
				err = e
			}
		}
	}
	switch c.method {
	case "copy":
		_, err = io.Copy(w, src)
	case "copybuf":
		_, err = io.CopyBuffer(w, src, make([]byte, c.cs))
	case "copyn":
		_, err = io.CopyN(w, src, int64(c.cs)*int64(c.n)+1)
		if err == io.EOF {
			err = nil
		}
	case "copybits":
		_, err = bitiox.CopyBits(w, csrcBits{src})
	case "copybitsbuf":
		_, err = bitiox.CopyBitsBuffer(w, csrcBits{src}, make([]byte, c.cs))
	case "readerfrom":
		rf, ok := w.(io.ReaderFrom)
		if !ok {
			return "absent"
		}
		_, err = rf.ReadFrom(src)
	case "stringwriter":
		sw, ok := w.(io.StringWriter)
		if !ok {
			return "absent"
		}
		perChunk(func(p []byte) error { _, e := sw.WriteString(string(p)); return e })
	case "writestring":
		perChunk(func(p []byte) error { _, e := io.WriteString(w, string(p)); return e })
	case "fprintf":
		perChunk(func(p []byte) error { _, e := fmt.Fprintf(w, "%s", p); return e })
	case "write":
		perChunk(func(p []byte) error { _, e := w.Write(p); return e })
	case "bufio":
		bw := bufio.NewWriterSize(w, 4096)
		perChunk(func(p []byte) error { _, e := bw.Write(p); return e })
		if e := bw.Flush(); e != nil && err == nil {
			err = e
		}
	case "bufiocopy":
		bw := bufio.NewWriterSize(w, 4096)
		_, err = io.Copy(bw, src)
		if e := bw.Flush(); e != nil && err == nil {
			err = e
		}
	default:
		return "invalid:method"
	}
	var cl strings.Builder
	for i, n := range src.reads {
		if i > 0 {
			cl.WriteByte(',')
		}
		cl.WriteString(strconv.Itoa(n))
	}
	if len(src.reads) == 0 {
		cl.WriteByte('-')
	}
	pfx := 1
	if sk.bad {
		pfx = 0
	}
	return fmt.Sprintf("c=%s;pre=%d;post=%d;err=%s;pfx=%d", cl.String(), sk.pre, sk.post, errName(err), pfx)
}

func copyCaseRun(o *hlib.Out, c copyCase) {
	tick(c.String())
	obs := runCopy(c)
	if obs == "absent" {
		// iox.CtxWriter offers only Write: nothing to exercise
		o.Stat("copy_interface_absent_"+c.method, 1)
		return
	}
	o.Case(c.String(), obs)
	o.Stat("copy_cases", 1)
	if c.k+1 < c.n {
		// something after the cancellation has to be dropped
		o.Class(c.String())
	}
}

// ---- end to end: interp.Main, stdout triggers the interrupt when its K-th byte has arrived

type e2esink struct {
	osv       *bos
	k         int
	n         int
	pre, post int
	triggered bool
	maxWrite  int
}

func (s *e2esink) Write(p []byte) (int, error) {
	s.n += len(p)
	if len(p) > s.maxWrite {
		s.maxWrite = len(p)
	}
	if s.triggered {
		s.post += len(p)
		return len(p), nil
	}
	s.pre += len(p)
	if s.n >= s.k {
		s.triggered = true
		// deliver the interrupt and wait until the ctxstack goroutine has processed it
		select {
		case s.osv.ch <- struct{}{}:
			<-s.osv.entered
		case <-time.After(blockedWait):
			s.k = -1
		}
	}
	return len(p), nil
}

type e2eos struct {
	*bos
	sk *e2esink
}

func (o *e2eos) Stdout() interp.Output { return ivout{o.sk} }

var e2eCases = map[string][]string{
	// Binary.Display raw: bitiox.CopyBits straight into the evaluation's output (binary.go:486)
	"raw": {"fq", "-n", "-r", `"a"*8388608 | tobytes`},
	// hexdump of a large binary (dump.go)
	"hexdump": {"fq", "-n", `"a"*1048576 | tobytes | dd`},
	// the JSON encoder on a large value
	"json": {"fq", "-n", `[range(300000)]`},
	// tojson: one large string, raw
	"tojson": {"fq", "-n", "-r", `[range(300000)] | tojson, tojson, tojson`},
}

var e2eNames = []string{"raw", "hexdump", "json", "tojson"}

func e2eRun(name string, k int) string {
	args, ok := e2eCases[name]
	if !ok {
		return "invalid:name"
	}
	b := newBos(&bfile{b: newBlocker("none", 1 << 30), data: nil}, nil, args)
	osv := &e2eos{bos: b}
	osv.sk = &e2esink{osv: b, k: k}
	i, err := interp.New(osv, interp.DefaultRegistry)
	if err != nil {
		return "invalid:" + err.Error()
	}
	<-b.entered
	defer func() {
		i.Stop()
		close(b.quit)
	}()
	done := make(chan error, 1)
	go func() {
		defer func() {
			if p := recover(); p != nil {
				done <- fmt.Errorf("panic: %v", p)
			}
		}()
		done <- i.Main(context.Background(), osv.Stdout(), "verif")
	}()
	fin := 1
	select {
	case <-done:
	case <-time.After(40 * time.Second):
		fin = 0
	}
	trig := 0
	if osv.sk.triggered && osv.sk.k >= 0 {
		trig = 1
	}
	return fmt.Sprintf("trig=%d;pre=%d;post=%d;done=%d", trig, osv.sk.pre, osv.sk.post, fin)
}

func e2eCaseRun(o *hlib.Out, name string, k int) {
	op := fmt.Sprintf("e2e %s K=%d", name, k)
	tick(op)
	o.Case(op, e2eRun(name, k))
	o.Stat("e2e_cases", 1)
	o.Class(op)
}

func copyReplay(o *hlib.Out, ws []string) {
	switch ws[0] {
	case "copy":
		c, err := parseCopyCase(ws)
		if err != nil {
			o.Case(strings.Join(ws, " "), "invalid:"+err.Error())
			return
		}
		copyCaseRun(o, c)
	case "e2e":
		if len(ws) == 3 && strings.HasPrefix(ws[2], "K=") {
			if k, err := strconv.Atoi(ws[2][2:]); err == nil {
				e2eCaseRun(o, ws[1], k)
				return
			}
		}
		o.Case(strings.Join(ws, " "), "invalid:e2e")
	}
}

func modeCopy(cfg hlib.Config, o *hlib.Out) {
	rnd := hlib.NewRand(cfg.Seed)
	for _, m := range copyMethods {
		for _, wr := range []string{"flat", "nest"} {
			for _, cs := range []int{1, 512, 32 * 1024, 1 << 20} {
				for _, n := range []int{3, 8} {
					for k := 0; k <= 5; k++ {
						copyCaseRun(o, copyCase{m, wr, cs, n, k})
					}
				}
			}
		}
	}
	// random chunk sizes / counts / cancellation points
	nr := 300
	if cfg.Thorough() {
		nr = 3000
	}
	for j := 0; j < nr; j++ {
		c := copyCase{
			method: copyMethods[rnd.Intn(len(copyMethods))],
			wr:     []string{"flat", "nest"}[rnd.Intn(2)],
			cs:     1 + rnd.Intn(70000),
			n:      rnd.Intn(40),
		}
		c.k = rnd.Intn(c.n + 2)
		copyCaseRun(o, c)
	}
	for _, name := range e2eNames {
		for _, k := range []int{1, 5000, 100000, 1000000} {
			e2eCaseRun(o, name, k)
		}
	}
}
