//go:build verif

// interp mode: the same op language as seq, produced by driving the real Interp.Eval push/pop
// sites (interp.go:966-984), nested `_eval` (interp.go:523-535) and the iox.CtxWriter that Eval
// installs as the output of every evaluation.
//
// Every evaluation runs the same jq program: a loop that asks the harness (Go function
// `_c20step`) what to do next — yield a value, end, raise an error, start a nested evaluation
// with `_eval`, or make the enclosing evaluation abandon this one (stop pulling its iterator).
// Harness actions (`@a=` annotation of the case line, `,`-separated; they replay the case):
//
//	E-  E<k>     Go-level i.Eval with Background / the context of evaluation k as parent  -> p- / p<k>
//	N<r>:<resp>  one Next() on the iterator of root evaluation r; <resp> is the answer given to
//	             the evaluation that asks next: y(ield) e(nd) x(error) n(est) a(bandon)
//	             -> f<j> when an evaluation ends / errors / is found cancelled, p<t> for nest
//	I  S         interrupt (through OS.InterruptChan) / Interp.Stop                       -> i / s
package main

import (
	"bytes"
	"context"
	"fmt"
	"io"
	"io/fs"
	"runtime"
	"strconv"
	"strings"
	"time"

	_ "github.com/wader/fq/format/all"
	"github.com/wader/fq/internal/gojqx"
	"github.com/wader/fq/internal/verifharness/hlib"
	"github.com/wader/fq/pkg/interp"
	"github.com/wader/gojq"
)

const c20prog = `
def _c20f:
  ( _c20step as $r
  | if $r == "e" then empty
    elif $r == "x" then error("c20")
    elif $r == "n" then
      ( ( label $brk
        | (try (_eval(_c20prog; {}), "childdone") catch "caught")
        | if . == "a" then ("abandoned", break $brk) else . end
        )
      , _c20f
      )
    else $r, _c20f
    end
  );
_c20f
`

// ---- virtual OS; InterruptChan is called by the trigger function of Interp (interp.go:359-366)
// every time the ctxstack goroutine (re-)enters it: that is the "processed" signal.

type ivfs struct{}

func (ivfs) Open(name string) (fs.File, error) { return nil, fmt.Errorf("%s: file not found", name) }

type ivin struct {
	interp.FileReader
	io.Writer
}

func (ivin) IsTerminal() bool { return false }
func (ivin) Size() (int, int) { return 120, 25 }

type ivout struct{ io.Writer }

func (ivout) Size() (int, int)  { return 120, 25 }
func (ivout) IsTerminal() bool { return false }

type c20os struct {
	ch      chan struct{}
	entered chan struct{}
	quit    chan struct{}
}

func (o *c20os) Platform() interp.Platform { return interp.Platform{} }
func (o *c20os) Stdin() interp.Input {
	return ivin{FileReader: interp.FileReader{R: bytes.NewBuffer(nil)}}
}
func (o *c20os) Stdout() interp.Output { return ivout{io.Discard} }
func (o *c20os) Stderr() interp.Output { return ivout{io.Discard} }
func (o *c20os) InterruptChan() chan struct{} {
	select {
	case o.entered <- struct{}{}:
	case <-o.quit:
	}
	return o.ch
}
func (o *c20os) Environ() []string                                  { return nil }
func (o *c20os) Args() []string                                     { return []string{"fq", "-n", "."} }
func (o *c20os) ConfigDir() (string, error)                         { return "/config", nil }
func (o *c20os) FS() fs.FS                                          { return ivfs{} }
func (o *c20os) History() ([]string, error)                         { return nil, nil }
func (o *c20os) Readline(opts interp.ReadlineOpts) (string, error)  { return "", io.EOF }

// ---- evaluations

type level struct {
	id        int
	ni        *interp.Interp
	ctx       context.Context
	out       io.Writer
	sink      *sink
	jqParent  int // evaluation suspended in `_eval` for this one; -1 for Go-level roots
	jqChild   int // active nested evaluation, -1 if none
	it        gojq.Iter
	done      bool
	abandoned bool
}

type irig struct {
	i       *interp.Interp
	os      *c20os
	levels  []*level
	script  []string
	stepped []int // ids of the evaluations that asked `_c20step` during the current call
	stopped bool
	created []*level // evaluations created (EnvFuncFn callback) during the current call
	problem string
}

var cur *irig

func init() {
	interp.DefaultRegistry.Func(func(env *interp.Interp) gojqx.Function {
		// called once per Eval with the Interp copy of that evaluation (interp.go:812-821),
		// before the context is pushed; Ctx/Output are read from it after Eval has returned
		var me *level
		if cur != nil {
			me = &level{id: len(cur.levels), ni: env, jqParent: -1, jqChild: -1}
			cur.levels = append(cur.levels, me)
			cur.created = append(cur.created, me)
		}
		return gojqx.Function{Name: "_c20step", MinArity: 0, MaxArity: 0, FuncFn: func(c any, a []any) any {
			if cur == nil || me == nil {
				return "e"
			}
			cur.stepped = append(cur.stepped, me.id)
			if len(cur.script) == 0 {
				cur.problem = fmt.Sprintf("evaluation %d asked for a step the harness did not plan", me.id)
				return "y"
			}
			r := cur.script[0]
			cur.script = cur.script[1:]
			return r
		}}
	})
	interp.DefaultRegistry.Func(func(env *interp.Interp) gojqx.Function {
		return gojqx.Function{Name: "_c20prog", MinArity: 0, MaxArity: 0, FuncFn: func(c any, a []any) any {
			return c20prog
		}}
	})
}

func newIrig() *irig {
	r := &irig{os: &c20os{ch: make(chan struct{}), entered: make(chan struct{}), quit: make(chan struct{})}}
	cur = r
	i, err := interp.New(r.os, interp.DefaultRegistry)
	if err != nil {
		panic(err)
	}
	r.i = i
	<-r.os.entered
	return r
}

func (r *irig) close() {
	if !r.stopped {
		r.i.Stop()
	}
	close(r.os.quit)
	cur = nil
}

// adopt fills in what Eval assigned to the evaluation's Interp copy after the callback
func (r *irig) adopt(parentSink *sink) {
	for _, l := range r.created {
		l.ctx = l.ni.EvalInstance.Ctx
		l.out = l.ni.EvalInstance.Output
		l.sink = parentSink
	}
	r.created = nil
}

func (r *irig) goEval(parent int) error {
	var pc context.Context = context.Background()
	if parent >= 0 {
		pc = r.levels[parent].ctx
	}
	sk := &sink{}
	n := len(r.levels)
	it, err := r.i.Eval(pc, nil, c20prog, interp.VerifC20EvalOpts(sk))
	if err != nil {
		// under a cancelled parent the module loader refuses (interp.go:831) and Eval returns
		// before it pushes: not an operation on the stack
		r.levels = r.levels[:n]
		r.created = nil
		if parent >= 0 && pc.Err() != nil && strings.Contains(err.Error(), "context canceled") {
			return errNoPush
		}
		return err
	}
	if len(r.levels) != n+1 {
		return fmt.Errorf("Eval created %d evaluations", len(r.levels)-n)
	}
	r.adopt(sk)
	r.levels[n].it = it
	return nil
}

var errNoPush = fmt.Errorf("no push")

func (r *irig) tip(root int) int {
	t := root
	for r.levels[t].jqChild >= 0 {
		t = r.levels[t].jqChild
	}
	return t
}

func (r *irig) orphan(from int) {
	for c := r.levels[from].jqChild; c >= 0; c = r.levels[c].jqChild {
		r.levels[c].abandoned = true
	}
	r.levels[from].jqChild = -1
}

// next performs one Next() on root `root` with answer `resp`; returns the abstract op it
// amounts to (nil for a pure yield/abandon) or an error when the action is not applicable
// or fq did not do what the harness planned.
func (r *irig) next(root int, resp string) (*op, error) {
	if root >= len(r.levels) || r.levels[root].it == nil || r.levels[root].done {
		return nil, fmt.Errorf("evaluation %d has no live iterator", root)
	}
	lv := r.levels[root]
	// the outermost cancelled evaluation of the chain returns the context error first
	cancelled := -1
	for t := root; t >= 0; t = r.levels[t].jqChild {
		if r.levels[t].ctx.Err() != nil {
			cancelled = t
			break
		}
	}
	tip := r.tip(root)
	var want *op
	r.stepped = nil
	r.script = nil
	expectSteps := []int{}
	expectVal := ""
	switch {
	case cancelled >= 0:
		want = &op{kind: 'f', arg: cancelled}
		if cancelled == root {
			expectVal = "ctxerr"
		} else {
			expectVal = "caught"
		}
	case resp == "y":
		r.script = []string{"y"}
		expectSteps = []int{tip}
		expectVal = "y"
	case resp == "e":
		r.script = []string{"e"}
		expectSteps = []int{tip}
		want = &op{kind: 'f', arg: tip}
		if tip == root {
			expectVal = "end"
		} else {
			expectVal = "childdone"
		}
	case resp == "x":
		r.script = []string{"x"}
		expectSteps = []int{tip}
		want = &op{kind: 'f', arg: tip}
		if tip == root {
			expectVal = "error"
		} else {
			expectVal = "caught"
		}
	case resp == "n":
		r.script = []string{"n", "y"}
		expectSteps = []int{tip, len(r.levels)}
		want = &op{kind: 'p', arg: tip}
		expectVal = "y"
	case resp == "a":
		if tip == root {
			return nil, fmt.Errorf("root evaluation %d cannot be abandoned", root)
		}
		r.script = []string{"a"}
		expectSteps = []int{tip}
		expectVal = "abandoned"
	default:
		return nil, fmt.Errorf("bad answer %q", resp)
	}

	n := len(r.levels)
	v, ok := lv.it.Next()
	got := ""
	switch vv := v.(type) {
	case nil:
		if !ok {
			got = "end"
		}
	case string:
		got = vv
	case error:
		if vv == context.Canceled || strings.Contains(vv.Error(), "context canceled") {
			got = "ctxerr"
		} else {
			got = "error"
		}
	default:
		got = fmt.Sprintf("%T", v)
	}
	if got != expectVal {
		r.problem = fmt.Sprintf("Next on evaluation %d answered %q, planned %q", root, got, expectVal)
	}
	if fmt.Sprint(r.stepped) != fmt.Sprint(expectSteps) {
		r.problem = fmt.Sprintf("evaluations %v stepped, planned %v", r.stepped, expectSteps)
	}
	// bookkeeping
	switch {
	case cancelled >= 0:
		if cancelled == root {
			lv.done = true
			r.orphan(root)
		} else {
			p := r.levels[cancelled].jqParent
			r.orphan(p)
			r.levels[cancelled].abandoned = true
		}
	case resp == "e" || resp == "x":
		if tip == root {
			lv.done = true
		} else {
			r.levels[r.levels[tip].jqParent].jqChild = -1
		}
	case resp == "n":
		if len(r.levels) == n+1 {
			c := r.levels[n]
			c.jqParent = tip
			r.levels[tip].jqChild = c.id
			r.adopt(r.levels[tip].sink)
		} else {
			r.problem = fmt.Sprintf("nest created %d evaluations", len(r.levels)-n)
		}
	case resp == "a":
		r.levels[tip].abandoned = true
		r.levels[r.levels[tip].jqParent].jqChild = -1
	}
	if len(r.levels) != n && resp != "n" {
		r.problem = "an evaluation was started by an action that is not a nest"
	}
	return want, nil
}

func (r *irig) interrupt() {
	if !r.stopped {
		r.os.ch <- struct{}{}
		<-r.os.entered
		return
	}
	// after Stop: the goroutine (if it still stands in InterruptChan) sees stopCh closed and leaves
	for k := 0; k < 3; k++ {
		select {
		case <-r.os.entered:
		default:
			runtime.Gosched()
		}
	}
	select {
	case r.os.ch <- struct{}{}:
		select {
		case <-r.os.entered:
		case <-time.After(20 * time.Millisecond):
		}
	default:
	}
}

func (r *irig) observe() string {
	var e, w strings.Builder
	for _, l := range r.levels {
		if l.ctx == nil {
			e.WriteByte('?')
			w.WriteByte('?')
			continue
		}
		if l.ctx.Err() != nil {
			e.WriteByte('1')
		} else {
			e.WriteByte('0')
		}
		before := l.sink.n
		n, err := l.out.Write([]byte{'x'})
		passed := l.sink.n == before+1
		switch {
		case passed && n == 1 && err == nil:
			w.WriteByte('1')
		case !passed && l.sink.n == before && n == 0 && err != nil:
			w.WriteByte('0')
		default:
			w.WriteByte('X')
		}
	}
	return e.String() + "/" + w.String()
}

// runActions executes actions produced by `gen` (which sees the rig, so that a random walk only
// picks applicable actions) and returns the actions, the abstract ops and the observations.
// problem: "invalid:…" = an action of a replayed list is not applicable; "unplanned:…" = fq did
// not do what the harness planned for the action (the derived abstract ops cannot be trusted).
func runActions(gen func(r *irig) (string, bool)) (actions []string, ops []op, obs []string, problem string) {
	r := newIrig()
	defer r.close()
	for {
		a, more := gen(r)
		if !more {
			return
		}
		actions = append(actions, a)
		tick("interp " + strings.Join(actions, ","))
		var o *op
		var err error
		panicked := false
		_, panicked = hlib.Catch(func() string {
			switch {
			case a == "I":
				r.interrupt()
				o = &op{kind: 'i'}
			case a == "S":
				o = &op{kind: 's'}
				defer func() { r.stopped = true }()
				r.i.Stop()
			case a == "E-":
				o = &op{kind: 'p', arg: -1}
				err = r.goEval(-1)
			case strings.HasPrefix(a, "E"):
				k, e2 := strconv.Atoi(a[1:])
				if e2 != nil || k < 0 || k >= len(r.levels) {
					err = fmt.Errorf("bad action %q", a)
					return ""
				}
				o = &op{kind: 'p', arg: k}
				err = r.goEval(k)
			case strings.HasPrefix(a, "N"):
				parts := strings.SplitN(a[1:], ":", 2)
				k, e2 := strconv.Atoi(parts[0])
				if e2 != nil || len(parts) != 2 {
					err = fmt.Errorf("bad action %q", a)
					return ""
				}
				o, err = r.next(k, parts[1])
			default:
				err = fmt.Errorf("bad action %q", a)
			}
			return ""
		})
		if err == errNoPush {
			continue
		}
		if err != nil {
			return actions, ops, obs, "invalid:" + err.Error()
		}
		if r.problem != "" {
			return actions, ops, obs, "unplanned:after " + a + ": " + r.problem
		}
		if o != nil {
			ob := r.observe()
			if panicked {
				ob += "!"
			}
			ops = append(ops, *o)
			obs = append(obs, ob)
		} else if panicked {
			return actions, ops, obs, "unplanned:panic in " + a
		}
	}
}

func interpCase(o *hlib.Out, gen func(r *irig) (string, bool)) []string {
	actions, ops, obs, problem := runActions(gen)
	text := "interp @a=" + strings.Join(actions, ",") + " " + opsString(ops)
	if problem != "" {
		// what was observed before the plan broke down is judged on its own (under a defect the
		// deviation usually shows there already), then the breakdown itself is reported
		if len(ops) > 0 {
			o.Case("interp @a="+strings.Join(actions[:len(actions)-1], ",")+" "+opsString(ops), strings.Join(obs, ";"))
		}
		o.Case(text, strings.ReplaceAll(problem, " ", "_"))
		return actions
	}
	if len(ops) == 0 {
		return actions
	}
	o.Case(text, strings.Join(obs, ";"))
	if nontrivial(ops) {
		o.Class("interp " + opsString(ops))
	}
	return actions
}

func fromList(list []string) func(r *irig) (string, bool) {
	k := 0
	return func(r *irig) (string, bool) {
		if k >= len(list) {
			return "", false
		}
		k++
		return list[k-1], true
	}
}

// randomWalk picks among the actions applicable to the rig as it is now
func randomWalk(rnd *hlib.Rand, maxLen int) func(r *irig) (string, bool) {
	length := rnd.Range(2, maxLen)
	done, stops := 0, 0
	return func(r *irig) (string, bool) {
		if done >= length {
			return "", false
		}
		done++
		for {
			var roots []int
			for k, l := range r.levels {
				if l.it != nil && !l.done {
					roots = append(roots, k)
				}
			}
			c := rnd.Intn(12)
			switch {
			case c < 2 || len(r.levels) == 0:
				if len(r.levels) >= 7 {
					continue
				}
				if len(r.levels) > 0 && rnd.Intn(3) == 0 {
					return "E" + strconv.Itoa(rnd.Intn(len(r.levels))), true
				}
				return "E-", true
			case c < 9 && len(roots) > 0:
				k := roots[rnd.Intn(len(roots))]
				t := r.tip(k)
				resp := []string{"y", "e", "x", "n", "n", "n", "a"}[rnd.Intn(7)]
				if resp == "a" && t == k {
					resp = "n"
				}
				if resp == "n" && len(r.levels) >= 7 {
					resp = "e"
				}
				return fmt.Sprintf("N%d:%s", k, resp), true
			case c < 11:
				return "I", true
			default:
				if stops < 1 && rnd.Intn(3) == 0 {
					stops++
					return "S", true
				}
			}
		}
	}
}

var pinnedActions = []string{
	// nested REPL levels: interrupt hits the innermost only, outer levels go on
	"E-,N0:n,N0:n,I,N0:y,N0:y,N0:y,N0:e",
	// abandoned inner evaluation stays on the stack until the outer one finishes
	"E-,N0:n,N0:a,N0:y,I,N0:y",
	"E-,N0:n,N0:a,N0:n,I,N0:y,N0:e",
	// two Go-level evaluations finished out of order (the histories of commit c3499288)
	"E-,E-,E-,N0:e,E-,N2:y,I",
	"E-,E-,N0:e,E-,E-,N1:y",
	// error ends an evaluation like end does; stop cancels all
	"E-,N0:n,N0:x,N0:n,N0:n,S,N0:y",
	"E-,E0,N1:n,I,N1:y,N0:y,S",
}

// ctxChainCheck: an enclosing context that is NOT managed by the stack (the timeout context of
// a completion, interp.go:463, or the caller's context) is cancelled: every evaluation nested
// below it through `_eval` must be cancelled by context propagation alone and its output
// suppressed. The op language has no external contexts, so the harness decides this one itself.
func ctxChainCheck(o *hlib.Out) {
	r := newIrig()
	defer r.close()
	ext, cancelExt := context.WithCancel(context.Background())
	defer cancelExt()
	sk := &sink{}
	it, err := r.i.Eval(ext, nil, c20prog, interp.VerifC20EvalOpts(sk))
	if err != nil || len(r.levels) != 1 {
		o.Verdict("BADOP", fmt.Sprintf("ctxchain: Eval: %v", err))
		return
	}
	r.adopt(sk)
	r.levels[0].it = it
	for k := 0; k < 2; k++ {
		if _, err := r.next(0, "n"); err != nil || r.problem != "" {
			o.Verdict("BADOP", fmt.Sprintf("ctxchain: nest: %v %s", err, r.problem))
			return
		}
	}
	before := r.observe()
	cancelExt()
	after := r.observe()
	if before != "000/111" {
		o.Verdict("PROPFAIL", "ctxchain: three nested evaluations under a live external context observe "+before)
		return
	}
	if after != "111/000" {
		o.Verdict("PROPFAIL", "ctxchain: after the enclosing (external) context was cancelled the nested evaluations observe "+after+
			" (expected 111/000): a nested _eval does not derive its context / output from the enclosing evaluation")
		return
	}
	o.Verdict("OK", "ctxchain "+before+" -> "+after)
}

func interpReplay(o *hlib.Out, ws []string) {
	for _, w := range ws {
		if strings.HasPrefix(w, "@a=") {
			interpCase(o, fromList(strings.Split(w[3:], ",")))
			return
		}
	}
	o.Case("interp "+strings.Join(ws, " "), "invalid:no-@a-annotation")
}

func modeInterp(cfg hlib.Config, o *hlib.Out) {
	rnd := hlib.NewRand(cfg.Seed)
	for _, p := range pinnedActions {
		interpCase(o, fromList(strings.Split(p, ",")))
	}
	ctxChainCheck(o)
	blockedChecks(o, "")
	n := 150
	if cfg.Thorough() {
		n = 1500
	}
	for k := 0; k < n; k++ {
		acts := interpCase(o, randomWalk(rnd.Fork(), 24))
		if k < 2 {
			o.Sample("interp @a=" + strings.Join(acts, ","))
		}
	}
	o.Stat("interp_random_sequences", n)
}
