//go:build verif

// C20 harness. Modes (first positional argument):
//
//	seq     op sequences on the real internal/ctxstack (the harness owns the trigger function)
//	interp  op sequences through the real Interp.Eval push/pop sites, nested `_eval` and the
//	        iox.CtxWriter that Eval installs as output
//	conc    (built with -race) a free-running interrupter against push/finish loops in worker
//	        sub-processes: data race / crash / deadlock verdicts (!OK / !PROPFAIL) and recorded
//	        histories that the Lean driver checks for linearizability against the specification
//
// Case line (seq, interp):  `<mode> [@note]* <op>;<op>;…` TAB `<obs>;<obs>;…`
//
//	op  = p- | p<i>   Push with parent Background / the context of the i-th push
//	      f<i>        call the cancel closure returned by the i-th push
//	      i           deliver one interrupt and wait until the goroutine has processed it
//	      s           Stop
//	      b<i>        the evaluator calls Read on a ctxreadseeker bound to the context of the i-th push
//	                  and the underlying read blocks; d = the underlying read returns. While a call is
//	                  blocked the evaluator does nothing else (only i and d are generated).
//	obs = <e>/<w>[!]  after the op: e = one digit per context pushed so far, 1 iff Err() != nil;
//	                  w = one digit per context, 1 iff a Write through the CtxWriter bound to it
//	                  reached the sink; `!` = the op panicked (recovered); sequences with b/d ops have
//	                  a third field: B = a call is blocked, c / d = it came back at this op with the
//	                  cancellation error / with data, - = none
package main

import (
	"bytes"
	"context"
	"fmt"
	"os"
	"runtime"
	"strconv"
	"strings"
	"sync/atomic"
	"time"

	"github.com/wader/fq/internal/ctxreadseeker"
	"github.com/wader/fq/internal/ctxstack"
	"github.com/wader/fq/internal/iox"
	"github.com/wader/fq/internal/verifharness/hlib"
)

// ---------------------------------------------------------------- ops

type op struct {
	kind   byte // 'p', 'f', 'i', 's'
	arg    int  // parent (-1 = Background) or closure index
	viaGo  bool // interp mode only: push by a Go-level Eval even if jq nesting were possible
	action string
}

func (o op) String() string {
	switch o.kind {
	case 'p':
		if o.arg < 0 {
			return "p-"
		}
		return "p" + strconv.Itoa(o.arg)
	case 'f':
		return "f" + strconv.Itoa(o.arg)
	case 'b':
		return "b" + strconv.Itoa(o.arg)
	}
	return string(o.kind)
}

func opsString(ops []op) string {
	ss := make([]string, len(ops))
	for i, o := range ops {
		ss[i] = o.String()
	}
	return strings.Join(ss, ";")
}

func parseOps(s string) ([]op, error) {
	var ops []op
	for _, w := range strings.Split(s, ";") {
		if w == "" {
			continue
		}
		switch {
		case w == "i" || w == "s" || w == "d":
			ops = append(ops, op{kind: w[0]})
		case w == "p-":
			ops = append(ops, op{kind: 'p', arg: -1})
		case w[0] == 'p' || w[0] == 'f' || w[0] == 'b':
			n, err := strconv.Atoi(w[1:])
			if err != nil || n < 0 {
				return nil, fmt.Errorf("bad op %q", w)
			}
			ops = append(ops, op{kind: w[0], arg: n})
		default:
			return nil, fmt.Errorf("bad op %q", w)
		}
	}
	return ops, nil
}

// ---------------------------------------------------------------- watchdog

var (
	progress  atomic.Int64
	wdContext atomic.Value // string: what the main goroutine is doing
)

// watchdog turns a hang of the main goroutine (a deadlock inside the code under test) into a
// `!PROPFAIL` verdict instead of a harness timeout.
func watchdog(o *hlib.Out, limit time.Duration) {
	go func() {
		last, since := progress.Load(), time.Now()
		for {
			time.Sleep(200 * time.Millisecond)
			if p := progress.Load(); p != last {
				last, since = p, time.Now()
				continue
			}
			if time.Since(since) > limit {
				what, _ := wdContext.Load().(string)
				o.Verdict("PROPFAIL", "deadlock: no progress for "+limit.String()+" in "+what)
				o.Close()
				os.Exit(0)
			}
		}
	}()
}

func tick(what string) {
	progress.Add(1)
	wdContext.Store(what)
}

// ---------------------------------------------------------------- seq: the real ctxstack

type sink struct{ n int }

func (s *sink) Write(p []byte) (int, error) { s.n += len(p); return len(p), nil }

type rig struct {
	s       *ctxstack.Stack
	trig    chan struct{}
	entered chan struct{}
	stopped bool
	ctxs    []context.Context
	pops    []func()
	sinks   []*sink
	writers []iox.CtxWriter
	call    *readCall // the outstanding blocked call, if any
}

type readCall struct {
	ctx  context.Context
	b    *blocker
	done chan error
}

func newRig() *rig {
	r := &rig{trig: make(chan struct{}), entered: make(chan struct{})}
	// ctxstack.New takes the trigger function: the goroutine is known to have processed
	// everything delivered so far when it (re-)enters it.
	r.s = ctxstack.New(func(stopCh chan struct{}) {
		select {
		case r.entered <- struct{}{}:
		case <-stopCh:
			return
		}
		select {
		case <-r.trig:
		case <-stopCh:
		}
	})
	<-r.entered
	return r
}

func (r *rig) push(parent int) {
	var pc context.Context = context.Background()
	var pw *iox.CtxWriter
	if parent >= 0 {
		pc = r.ctxs[parent]
		pw = &r.writers[parent]
	}
	ctx, pop := r.s.Push(pc)
	r.ctxs = append(r.ctxs, ctx)
	r.pops = append(r.pops, pop)
	sk := &sink{}
	r.sinks = append(r.sinks, sk)
	// odd pushes: writer directly on the sink; even pushes with a parent: on the parent's
	// CtxWriter, as nested `_eval` does (interp.go:526-529)
	if pw != nil && len(r.ctxs)%2 == 0 {
		r.sinks[len(r.sinks)-1] = r.sinks[parent]
		r.writers = append(r.writers, iox.CtxWriter{Writer: *pw, Ctx: ctx})
	} else {
		r.writers = append(r.writers, iox.CtxWriter{Writer: sk, Ctx: ctx})
	}
}

// interrupt delivers one interrupt and returns when the goroutine has processed it. After
// Stop the goroutine has left its loop and nobody receives: the interrupt cannot be delivered.
func (r *rig) interrupt() {
	if !r.stopped {
		r.trig <- struct{}{}
		<-r.entered
		return
	}
	for k := 0; k < 3; k++ {
		select {
		case r.trig <- struct{}{}:
			// a goroutine that survived Stop took it: give it the chance to act
			select {
			case <-r.entered:
			case <-time.After(20 * time.Millisecond):
			}
			return
		default:
			runtime.Gosched()
		}
	}
}

func (r *rig) observe() string {
	var e, w strings.Builder
	for i, c := range r.ctxs {
		if c.Err() != nil {
			e.WriteByte('1')
		} else {
			e.WriteByte('0')
		}
		sk := r.sinks[i]
		before := sk.n
		n, err := r.writers[i].Write([]byte{'x'})
		passed := sk.n == before+1
		switch {
		case passed && n == 1 && err == nil:
			w.WriteByte('1')
		case !passed && sk.n == before && n == 0 && err != nil:
			w.WriteByte('0')
		default:
			w.WriteByte('X')
		}
	}
	return e.String() + "/" + w.String()
}

// startRead: Read through ctxreadseeker bound to context i; returns when the underlying read is
// blocked or the call has come back
func (r *rig) startRead(i int) {
	if r.call != nil {
		return // the evaluator is stuck in the earlier call
	}
	b := newBlocker("read", 1)
	rd := ctxreadseeker.New(r.ctxs[i], bseekfile{&bfile{b: b, data: blockedData, regular: true}})
	c := &readCall{ctx: r.ctxs[i], b: b, done: make(chan error, 1)}
	go func() {
		_, err := rd.Read(make([]byte, 8))
		c.done <- err
	}()
	r.call = c
	select {
	case <-b.blockedCh:
	case err := <-c.done:
		c.done <- err
	case <-time.After(2 * time.Second):
	}
}

// reader: B = still blocked, c/d = came back now (cancelled / data), - = no call
func (r *rig) reader() string {
	c := r.call
	if c == nil {
		return "-"
	}
	wait := 300 * time.Microsecond
	if c.ctx.Err() != nil {
		// it has to come back; a reader that does not is reported as B (after a few such
		// reports the wait is cut so that a broken reader does not stall the whole run)
		wait = 2 * time.Second
		if readTimeouts >= 5 {
			wait = 50 * time.Millisecond
		}
	}
	select {
	case err := <-c.done:
		r.call = nil
		c.b.release()
		switch err {
		case nil:
			return "d"
		case context.Canceled:
			return "c"
		}
		return "X"
	case <-time.After(wait):
		if c.ctx.Err() != nil {
			readTimeouts++
		}
		return "B"
	}
}

var readTimeouts int

func (r *rig) do(o op) (panicked bool) {
	_, panicked = hlib.Catch(func() string {
		switch o.kind {
		case 'p':
			r.push(o.arg)
		case 'f':
			r.pops[o.arg]()
		case 'i':
			r.interrupt()
		case 's':
			defer func() { r.stopped = true }()
			r.s.Stop()
		case 'b':
			r.startRead(o.arg)
		case 'd':
			if r.call != nil {
				r.call.b.release()
				select {
				case err := <-r.call.done:
					r.call.done <- err
				case <-time.After(2 * time.Second):
				}
			}
		}
		return ""
	})
	return panicked
}

func valid(ops []op) error {
	n := 0
	for _, o := range ops {
		switch o.kind {
		case 'p':
			if o.arg >= n {
				return fmt.Errorf("parent %d not pushed yet", o.arg)
			}
			n++
		case 'f':
			if o.arg >= n {
				return fmt.Errorf("closure %d does not exist yet", o.arg)
			}
		case 'b':
			if o.arg >= n {
				return fmt.Errorf("context %d does not exist yet", o.arg)
			}
		}
	}
	return nil
}

func hasReads(ops []op) bool {
	for _, o := range ops {
		if o.kind == 'b' || o.kind == 'd' {
			return true
		}
	}
	return false
}

func runSeq(ops []op) string {
	r := newRig()
	obs := make([]string, len(ops))
	reads := hasReads(ops)
	for k, o := range ops {
		tick("seq " + opsString(ops))
		p := r.do(o)
		obs[k] = r.observe()
		if reads {
			obs[k] += "/" + r.reader()
		}
		if p {
			obs[k] += "!"
		}
	}
	if r.call != nil {
		r.call.b.release()
	}
	if !r.stopped {
		r.do(op{kind: 's'}) // let the goroutine go
	}
	return strings.Join(obs, ";")
}

func seqCase(o *hlib.Out, ops []op, note string) {
	text := "seq " + note + opsString(ops)
	if err := valid(ops); err != nil {
		o.Case(text, "invalid:"+err.Error())
		return
	}
	o.Case(text, runSeq(ops))
	if nontrivial(ops) {
		o.Class(opsString(ops))
	}
}

// non-trivial: at least two evaluations nested and an interrupt or an out-of-order finish
func nontrivial(ops []op) bool {
	pushes, other := 0, false
	for _, o := range ops {
		if o.kind == 'p' {
			pushes++
		} else if pushes >= 2 {
			other = true
		}
	}
	return pushes >= 2 && other
}

// enumerate all op sequences of exactly `length` ops (every shorter sequence is a prefix and
// observations are taken after every op) with at most maxPush pushes and maxStop stops.
// parents: 0 = Background only, 1 = Background or the previous push, 2 = any earlier push.
func enumerate(length, maxPush, maxStop, parents int, emit func([]op)) {
	cur := make([]op, 0, length)
	var rec func(n, stops int)
	rec = func(n, stops int) {
		if len(cur) == length {
			emit(cur)
			return
		}
		try := func(o op, n2, st2 int) {
			cur = append(cur, o)
			rec(n2, st2)
			cur = cur[:len(cur)-1]
		}
		if n < maxPush {
			try(op{kind: 'p', arg: -1}, n+1, stops)
			switch parents {
			case 1:
				if n > 0 {
					try(op{kind: 'p', arg: n - 1}, n+1, stops)
				}
			case 2:
				for p := 0; p < n; p++ {
					try(op{kind: 'p', arg: p}, n+1, stops)
				}
			}
		}
		for i := 0; i < n; i++ {
			try(op{kind: 'f', arg: i}, n, stops)
		}
		try(op{kind: 'i'}, n, stops)
		if stops < maxStop {
			try(op{kind: 's'}, n, stops+1)
		}
	}
	rec(0, 0)
}

// genSpec: what the generator needs to know to keep its sequences well-formed (no evaluator
// operation while a call is blocked). Used for generation only, never for judging.
type genSpec struct {
	parent    []int
	running   []bool
	cancelled []bool
	stopped   bool
	blocked   int // context of the blocked call, -1 if none
}

func (g *genSpec) err(c int) bool {
	for ; c >= 0; c = g.parent[c] {
		if g.cancelled[c] {
			return true
		}
	}
	return false
}

func (g *genSpec) apply(o op) {
	switch o.kind {
	case 'p':
		g.parent = append(g.parent, o.arg)
		g.running = append(g.running, true)
		g.cancelled = append(g.cancelled, false)
	case 'f':
		if g.running[o.arg] {
			for j := o.arg; j < len(g.running); j++ {
				if g.running[j] {
					g.running[j], g.cancelled[j] = false, true
				}
			}
		}
	case 'i':
		if !g.stopped {
			for j := len(g.running) - 1; j >= 0; j-- {
				if g.running[j] {
					g.cancelled[j] = true
					break
				}
			}
		}
	case 's':
		for j := range g.running {
			if g.running[j] {
				g.cancelled[j] = true
			}
		}
		g.stopped = true
	case 'b':
		if g.blocked < 0 {
			g.blocked = o.arg
		}
	case 'd':
		g.blocked = -1
	}
	if g.blocked >= 0 && g.err(g.blocked) {
		g.blocked = -1
	}
}

// randomReadOps: like randomOps with blocked reads; while a call is blocked only i and d occur
func randomReadOps(r *hlib.Rand, maxLen int) []op {
	length := r.Range(2, maxLen)
	var ops []op
	g := &genSpec{blocked: -1}
	add := func(o op) { ops = append(ops, o); g.apply(o) }
	for len(ops) < length {
		n := len(g.running)
		if g.blocked >= 0 {
			if r.Intn(3) == 0 {
				add(op{kind: 'd'})
			} else {
				add(op{kind: 'i'})
			}
			continue
		}
		switch k := r.Intn(10); {
		case k < 3 && n < 8:
			p := -1
			if n > 0 && r.Bool() {
				p = n - 1
			}
			add(op{kind: 'p', arg: p})
		case k < 5 && n > 0:
			add(op{kind: 'f', arg: n - 1 - r.Intn(min(n, 3))})
		case k < 6:
			add(op{kind: 'i'})
		case k < 9 && n > 0:
			add(op{kind: 'b', arg: n - 1 - r.Intn(min(n, 2))})
		case k == 9 && r.Intn(6) == 0:
			add(op{kind: 's'})
		}
	}
	return ops
}

func randomOps(r *hlib.Rand, maxLen int) []op {
	length := r.Range(1, maxLen)
	maxDepth := r.Range(1, 12)
	var ops []op
	n := 0
	stops := 0
	for len(ops) < length {
		switch k := r.Intn(10); {
		case k < 4 && n < maxDepth+8:
			p := -1
			switch r.Intn(3) {
			case 0:
				if n > 0 {
					p = n - 1
				}
			case 1:
				if n > 0 {
					p = r.Intn(n)
				}
			}
			ops = append(ops, op{kind: 'p', arg: p})
			n++
		case k < 7 && n > 0:
			i := r.Intn(n)
			if r.Bool() { // bias to recent pushes
				i = n - 1 - r.Intn(min(n, 3))
			}
			ops = append(ops, op{kind: 'f', arg: i})
		case k < 9:
			ops = append(ops, op{kind: 'i'})
		default:
			if stops < 2 && r.Intn(4) == 0 {
				ops = append(ops, op{kind: 's'})
				stops++
			}
		}
	}
	return ops
}

var pinned = []string{
	// the two histories of commit c3499288 (stale pop)
	"p-;p-;p-;f0;p-;f2;i",
	"p-;p-;f0;p-;p-;f1",
	// same with nested parents, as Eval/_eval produce them
	"p-;p0;p1;f0;p-;f2;i",
	"p-;p0;f0;p-;p2;f1",
	// interrupt before any push, twice on the same evaluation, after finish, after stop
	"i;p-;i;i;f0;i",
	"p-;p0;i;f1;i;f0;i",
	"p-;s;i;p-;i",
	// stop cancels everything; a second stop panics (close of closed channel)
	"p-;p0;p-;s",
	"p-;s;p-;s",
	// finish is idempotent, out of order, under a cancelled parent
	"p-;p0;f1;f1;f0;f0;f1",
	"p-;p0;p1;f1;f2;f0",
	"p-;i;p0;p-;f1",
	// growth of the backing array past 4 and 8 with stale closures
	"p-;p-;p-;p-;p-;f0;p-;p-;p-;f4;f3;i;p-;p-;p-;p-;p-;p-;p-;p-;p-;f2;i",
}

func modeSeq(cfg hlib.Config, o *hlib.Out, shard, shards int) {
	r := hlib.NewRand(cfg.Seed)
	for _, p := range pinned {
		ops, err := parseOps(p)
		if err != nil {
			panic(err)
		}
		seqCase(o, ops, "")
	}
	// quick: all sequences of 7 ops with <= 4 pushes (any parent);
	// thorough: 8 ops / <= 5 pushes (any parent) and 9 ops / <= 4 pushes (parent = Background or the previous push)
	length, maxPush := 7, 4
	if cfg.Thorough() {
		length, maxPush = 8, 5
	}
	k := 0
	emit := func(ops []op) {
		k++
		if k%shards == shard {
			seqCase(o, ops, "")
		}
	}
	enumerate(length, maxPush, 1, 2, emit)
	if cfg.Thorough() {
		enumerate(9, 4, 1, 1, emit)
	}
	// two stops (the second one panics in close) on a shorter horizon
	enumerate(length-2, 3, 2, 1, emit)
	o.Stat("exhaustive_small_domain", 1)
	o.Stat("seq_exhaustive_length", length)
	o.Stat("seq_exhaustive_max_pushes", maxPush)
	o.Stat("seq_exhaustive_sequences", k)
	nRandom := 3000
	if cfg.Thorough() {
		nRandom = 40000
	}
	for i := 0; i < nRandom; i++ {
		ops := randomOps(r, 60)
		seqCase(o, ops, "")
		if i < 2 {
			o.Sample("seq " + opsString(ops))
		}
	}
	o.Stat("seq_random_sequences", nRandom)
	// blocked reads (only on shard 0: every such op waits a little for the reader to settle)
	if shard == 0 {
		for _, p := range pinnedReads {
			ops, err := parseOps(p)
			if err != nil {
				panic(err)
			}
			seqCase(o, ops, "")
		}
		nReads := 400
		if cfg.Thorough() {
			nReads = 5000
		}
		for i := 0; i < nReads; i++ {
			seqCase(o, randomReadOps(r, 14), "")
		}
		o.Stat("seq_read_sequences", nReads+len(pinnedReads))
	}
}

var pinnedReads = []string{
	// innermost evaluation blocked in a read: interrupt gets it out, enclosing context stays live
	"p-;p0;b1;i",
	"p-;p0;b1;d;i",
	// reader of an enclosing (not innermost) context: the interrupt hits the innermost, the reader stays blocked
	"p-;p-;b0;i;d",
	// child of the interrupted context: cancelled by propagation
	"p-;p0;f1;p0;b2;i",
	"p-;b0;i;i;d;b0",
	// read on an already cancelled context does not block
	"p-;i;b0;d",
	"p-;s;b0",
}

func main() {
	cfg := hlib.ParseFlags()
	mode := "seq"
	if len(cfg.Args) > 0 {
		mode = cfg.Args[0]
	}
	if mode == "worker" {
		workerMain(cfg.Args[1:])
		return
	}
	if mode == "rsworker" {
		n, _ := strconv.Atoi(cfg.Args[2])
		rsWorker(cfg.Args[1], n)
		return
	}
	o := hlib.NewOut(cfg.Out)
	defer o.Close()
	if mode != "conc" {
		// conc: every worker process has its own no-progress watchdog and a deadline
		watchdog(o, 60*time.Second)
	}

	// shards: the runner gives shard s the seed `seed + 1000003*s`
	shards := 1
	if len(cfg.Args) > 1 && cfg.Thorough() {
		shards, _ = strconv.Atoi(cfg.Args[1])
	}
	shard := 0
	if shards > 1 {
		shard = int((cfg.Seed / 1000003) % uint64(shards))
	}

	if cfg.Replay != "" && mode == "rsrace" {
		modeRsRace(cfg, o)
		return
	}
	if cfg.Replay != "" {
		for _, l := range hlib.ReplayLines(cfg.Replay) {
			// a harness-decided verdict is replayed by its trailing `conc @… <scenario>` text
			if k := strings.Index(l, "conc @"); k > 0 {
				l = l[k:]
			}
			if k := strings.Index(l, "blockedread "); k >= 0 {
				if mode == "interp" {
					v := strings.TrimSuffix(strings.Fields(l[k:])[1], ":")
					blockedChecks(o, v)
				}
				continue
			}
			if mode == "interp" && strings.Contains(l, "ctxchain") {
				ctxChainCheck(o)
				continue
			}
			ws := strings.Fields(l)
			if mode == "conc" && len(ws) >= 2 && ws[0] == "lin" {
				// a recorded history: the driver judges the recording again (a schedule cannot be
				// forced), and the scenario that produced it is repeated
				o.Case(l, "-")
				concReplay(cfg, o, []string{"lin", "@iters=2000"})
				continue
			}
			if len(ws) < 2 || ws[0] != mode {
				continue
			}
			switch mode {
			case "seq":
				ops, err := parseOps(ws[len(ws)-1])
				if err != nil {
					o.Case(l, "invalid:"+err.Error())
					continue
				}
				seqCase(o, ops, "")
			case "interp":
				interpReplay(o, ws[1:])
			case "conc":
				concReplay(cfg, o, ws[1:])
			case "rs":
				rsReplay(o, ws)
			}
		}
		if mode == "copy" {
			for _, l := range hlib.ReplayLines(cfg.Replay) {
				if ws := strings.Fields(l); len(ws) > 0 && (ws[0] == "copy" || ws[0] == "e2e") {
					copyReplay(o, ws)
				}
			}
		}
		return
	}
	switch mode {
	case "seq":
		modeSeq(cfg, o, shard, shards)
	case "interp":
		modeInterp(cfg, o)
	case "conc":
		modeConc(cfg, o)
	case "copy":
		modeCopy(cfg, o)
	case "rs":
		modeRs(cfg, o)
	case "rsrace":
		modeRsRace(cfg, o)
	default:
		fmt.Fprintln(os.Stderr, "unknown mode", mode)
		os.Exit(2)
	}
}

var _ = bytes.NewBuffer
