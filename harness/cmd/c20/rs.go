//go:build verif

// rs mode: the protocol of internal/ctxreadseeker — which goroutine touches the underlying reader when.
// A schedule (tokens joined by ',') is driven through the REAL ctxreadseeker.Reader around an
// instrumented underlying reader that records enter/exit of every Read/Seek/Close (a mutex protected
// event log + an atomic in-flight counter) and can block inside Read/Seek until released. All
// synchronisation is by channels (handshakes); timeouts only detect failures (`T:<what>` event).
//
//	R S C   Reader.Read / Seek / Close, the underlying operation returns at once; wait for the call
//	Rb Sb   Reader.Read / Seek whose underlying operation blocks; wait until it has been entered
//	x       cancel the context
//	w       wait for the outstanding call to return
//	u       release the blocked underlying operation and wait until it has returned
//	q       wait for the underlying Close on cancellation to have returned
//
// observation: `<events>|max=<largest number in flight>|closes=<underlying Close calls>`; the Lean driver
// judges it (monitor = property; trace inclusion in the model FqModel/CtxReadSeeker.lean = correspondence).
//
// rsrace mode (built with -race): worker processes run the same key schedules around a PLAIN struct reader
// (no atomics, no mutex) so that the Go race detector sees a Close concurrent with a Read.
package main

import (
	"bytes"
	"context"
	"fmt"
	"io"
	"os"
	"os/exec"
	"strings"
	"sync"
	"sync/atomic"
	"time"

	"github.com/wader/fq/internal/ctxreadseeker"
	"github.com/wader/fq/internal/verifharness/hlib"
)

const rsTimeout = 10 * time.Second

type rsLog struct {
	mu   sync.Mutex
	evs  []string
	done bool
}

func (l *rsLog) add(e string) {
	l.mu.Lock()
	if !l.done {
		l.evs = append(l.evs, e)
	}
	l.mu.Unlock()
}

func (l *rsLog) snapshot() []string {
	l.mu.Lock()
	defer l.mu.Unlock()
	l.done = true
	return append([]string(nil), l.evs...)
}

type blockReq struct {
	entered chan struct{}
	release chan struct{}
	exited  chan struct{}
}

// instRS: the instrumented underlying reader
type instRS struct {
	log      *rsLog
	inflight atomic.Int32
	max      atomic.Int32
	closes   atomic.Int32
	next     atomic.Pointer[blockReq] // the next Read/Seek blocks on this request
	closed   chan struct{}            // one token per returned Close
}

func (r *instRS) enter(k string) {
	n := r.inflight.Add(1)
	for {
		m := r.max.Load()
		if n <= m || r.max.CompareAndSwap(m, n) {
			break
		}
	}
	r.log.add("B" + k)
}

func (r *instRS) exit(k string) {
	r.log.add("E" + k)
	r.inflight.Add(-1)
}

func (r *instRS) maybeBlock() *blockReq {
	if b := r.next.Swap(nil); b != nil {
		close(b.entered)
		<-b.release
		return b
	}
	return nil
}

func (r *instRS) Read(p []byte) (int, error) {
	r.enter("r")
	b := r.maybeBlock()
	r.exit("r")
	if b != nil {
		close(b.exited)
	}
	return len(p), nil
}

func (r *instRS) Seek(offset int64, whence int) (int64, error) {
	r.enter("s")
	b := r.maybeBlock()
	r.exit("s")
	if b != nil {
		close(b.exited)
	}
	return offset, nil
}

func (r *instRS) doClose() error {
	r.closes.Add(1)
	r.enter("c")
	r.exit("c")
	select {
	case r.closed <- struct{}{}:
	default:
	}
	return nil
}

type instRSC struct{ *instRS }

func (r instRSC) Close() error { return r.doClose() }

// rsGen: what the generator knows about a schedule prefix (which tokens are valid next)
type rsGen struct {
	closer, cancelled, pending, blocked, qdone, dirty bool
}

func (g *rsGen) valid(t string) bool {
	switch t {
	case "R", "S", "C":
		return !g.pending
	case "Rb", "Sb":
		return !g.pending && !g.cancelled && !g.blocked
	case "x":
		return true
	case "w":
		return g.pending && (g.cancelled || !g.blocked)
	case "u":
		return g.blocked
	case "q":
		return g.cancelled && g.closer && !g.dirty && !g.qdone
	}
	return false
}

func (g *rsGen) apply(t string) {
	switch t {
	case "R", "S", "C":
		if g.cancelled && !g.qdone {
			g.dirty = true
		}
	case "Rb", "Sb":
		g.pending, g.blocked = true, true
	case "x":
		if (g.pending || g.blocked) && !g.cancelled {
			g.dirty = true
		}
		g.cancelled = true
	case "w":
		g.pending = false
	case "u":
		g.blocked = false
	case "q":
		g.qdone = true
	}
}

var rsTokens = []string{"R", "S", "C", "Rb", "Sb", "x", "w", "u", "q"}

func rsValid(closer bool, toks []string) bool {
	g := rsGen{closer: closer}
	for _, t := range toks {
		if !g.valid(t) {
			return false
		}
		g.apply(t)
	}
	return true
}

// rsKey: a cancellation arrives while an underlying operation is in progress
func rsKey(toks []string) bool {
	g := rsGen{closer: true}
	for _, t := range toks {
		if t == "x" && g.blocked && !g.cancelled {
			return true
		}
		g.apply(t)
	}
	return false
}

func rsRun(closer bool, toks []string) string {
	log := &rsLog{}
	u := &instRS{log: log, closed: make(chan struct{}, 64)}
	ctx, cancel := context.WithCancel(context.Background())
	defer cancel()
	var rs io.ReadSeeker = u
	if closer {
		rs = instRSC{u}
	}
	r := ctxreadseeker.New(ctx, rs)

	var ret chan error // outstanding call
	var blk *blockReq
	var blocks []*blockReq
	timeout := false
	call := func(k string) chan error {
		log.add("c:" + k)
		ch := make(chan error, 1)
		go func() {
			var err error
			switch k {
			case "r":
				_, err = r.Read(make([]byte, 1))
			case "s":
				_, err = r.Seek(0, io.SeekStart)
			case "c":
				err = r.Close()
			}
			if err != nil {
				log.add("er")
			} else {
				log.add("ok")
			}
			ch <- err
		}()
		return ch
	}
	wait := func(ch <-chan error, what string) {
		select {
		case <-ch:
		case <-time.After(rsTimeout):
			log.add("T:" + what)
			timeout = true
		}
	}
	waitS := func(ch <-chan struct{}, what string) {
		select {
		case <-ch:
		case <-time.After(rsTimeout):
			log.add("T:" + what)
			timeout = true
		}
	}
	for _, t := range toks {
		if timeout {
			break
		}
		tick("rs " + strings.Join(toks, ","))
		switch t {
		case "R", "S", "C":
			wait(call(strings.ToLower(t)), "ret")
			if t == "C" {
				select { // the token of a Close made through Reader.Close is not the Close on cancellation
				case <-u.closed:
				default:
				}
			}
		case "Rb", "Sb":
			blk = &blockReq{entered: make(chan struct{}), release: make(chan struct{}), exited: make(chan struct{})}
			blocks = append(blocks, blk)
			u.next.Store(blk)
			ret = call(strings.ToLower(t[:1]))
			waitS(blk.entered, "enter")
		case "x":
			log.add("x")
			cancel()
		case "w":
			wait(ret, "ret")
			ret = nil
		case "u":
			close(blk.release)
			waitS(blk.exited, "exit")
			blk = nil
		case "q":
			waitS(u.closed, "close")
		}
	}
	// finish: let every blocked operation go, collect the outstanding call
	if blk != nil {
		close(blk.release)
		if !timeout {
			waitS(blk.exited, "exit")
		}
	}
	if ret != nil && !timeout {
		wait(ret, "ret")
	}
	evs := log.snapshot()
	cancel()
	tr := "-"
	if len(evs) > 0 {
		tr = strings.Join(evs, ",")
	}
	return fmt.Sprintf("%s|max=%d|closes=%d", tr, u.max.Load(), u.closes.Load())
}

func rsCase(o *hlib.Out, closer bool, toks []string) {
	c := "0"
	if closer {
		c = "1"
	}
	sched := strings.Join(toks, ",")
	o.Case("rs "+c+" "+sched, rsRun(closer, toks))
	o.Stat("rs_cases", 1)
	if rsKey(toks) {
		o.Stat("rs_cancel_during_op", 1)
		o.Class("rs " + c + " " + sched)
	}
}

var rsPinned = []string{
	"x,R", "Rb,x,w", "Rb,x,w,u", "Sb,x,w,u", "Rb,u,w,x,q", "R,x,q", "x,x,q", "x,q,R,S,C", "Rb,x,x,w,u,R",
	"Rb,x,w,R,S,C,u", "C,x,q", "R,C,R,x,q", "Rb,x,u,w", "Rb,u,x,w", "Rb,x,w,u,x,R",
}

func rsEnumerate(closer bool, n int, emit func([]string)) {
	var rec func(g rsGen, pre []string)
	rec = func(g rsGen, pre []string) {
		if len(pre) > 0 {
			emit(append([]string(nil), pre...))
		}
		if len(pre) == n {
			return
		}
		for _, t := range rsTokens {
			if g.valid(t) {
				g2 := g
				g2.apply(t)
				rec(g2, append(pre, t))
			}
		}
	}
	rec(rsGen{closer: closer}, nil)
}

func modeRs(cfg hlib.Config, o *hlib.Out) {
	for _, closer := range []bool{true, false} {
		for _, p := range rsPinned {
			toks := strings.Split(p, ",")
			if rsValid(closer, toks) {
				rsCase(o, closer, toks)
			}
		}
	}
	n, random, maxLen := 5, 400, 14
	if cfg.Thorough() {
		n, random, maxLen = 7, 6000, 30
	}
	for _, closer := range []bool{true, false} {
		rsEnumerate(closer, n, func(t []string) { rsCase(o, closer, t) })
	}
	rnd := hlib.NewRand(cfg.Seed)
	for i := 0; i < random; i++ {
		g := rsGen{closer: rnd.Intn(4) != 0}
		closer := g.closer
		var toks []string
		l := rnd.Range(4, maxLen)
		for len(toks) < l {
			t := rsTokens[rnd.Intn(len(rsTokens))]
			if t == "x" && !g.blocked && rnd.Intn(3) != 0 {
				continue // prefer cancellations that hit an operation in progress
			}
			if g.valid(t) {
				g.apply(t)
				toks = append(toks, t)
			}
		}
		rsCase(o, closer, toks)
	}
}

func rsReplay(o *hlib.Out, ws []string) {
	if len(ws) != 3 || (ws[1] != "0" && ws[1] != "1") {
		o.Case(strings.Join(ws, " "), "invalid")
		return
	}
	toks := strings.Split(ws[2], ",")
	if !rsValid(ws[1] == "1", toks) {
		o.Case(strings.Join(ws, " "), "invalid")
		return
	}
	rsCase(o, ws[1] == "1", toks)
}

// ---------------------------------------------------------------- rsrace

// plainRS: an underlying reader like any in-memory / archive backed file: plain fields, Close releases
// the buffer. Safe when used by one goroutine at a time, which is all ctxreadseeker may assume.
type plainRS struct {
	buf     []byte
	pos     int
	closed  bool
	entered chan struct{}
	release chan struct{}
	exited  chan struct{}
	block   bool
}

func (p *plainRS) Read(b []byte) (int, error) {
	if p.block {
		p.block = false
		close(p.entered)
		<-p.release
		defer close(p.exited)
	}
	if p.closed {
		return 0, io.ErrClosedPipe
	}
	n := copy(b, p.buf[p.pos:])
	p.pos += n
	return n, nil
}

func (p *plainRS) Seek(offset int64, whence int) (int64, error) {
	if p.closed {
		return 0, io.ErrClosedPipe
	}
	p.pos = int(offset)
	return offset, nil
}

func (p *plainRS) Close() error {
	p.closed = true
	p.buf = nil
	return nil
}

// rsWorker: scenario `during` = cancel while the underlying Read is blocked, then release it WITHOUT
// waiting for anything else (so nothing orders a Close by another goroutine with the rest of the Read);
// `idle` = calls, cancel while idle (the loop goroutine closes), calls after.
func rsWorker(scen string, iters int) {
	for i := 0; i < iters; i++ {
		p := &plainRS{buf: make([]byte, 64), entered: make(chan struct{}), release: make(chan struct{}), exited: make(chan struct{})}
		ctx, cancel := context.WithCancel(context.Background())
		r := ctxreadseeker.New(ctx, p)
		b := make([]byte, 8)
		dl := time.After(rsTimeout)
		switch scen {
		case "during":
			_, _ = r.Read(b)
			p.block = true
			done := make(chan struct{})
			go func() { _, _ = r.Read(b); close(done) }()
			select {
			case <-p.entered:
			case <-dl:
				fmt.Println("F timeout: blocked read not entered")
				return
			}
			cancel()
			close(p.release)
			for _, ch := range []chan struct{}{done, p.exited} {
				select {
				case <-ch:
				case <-dl:
					fmt.Println("F timeout: cancelled read did not return")
					return
				}
			}
			_, _ = r.Seek(0, io.SeekStart)
		case "idle":
			_, _ = r.Read(b)
			_, _ = r.Seek(0, io.SeekStart)
			cancel()
			_, _ = r.Read(b)
			_ = r.Close()
		}
		cancel()
	}
	fmt.Println("DONE")
}

func modeRsRace(cfg hlib.Config, o *hlib.Out) {
	exe, err := os.Executable()
	if err != nil {
		panic(err)
	}
	iters := 200
	if cfg.Thorough() {
		iters = 3000
	}
	for _, scen := range []string{"during", "idle"} {
		for _, gmp := range []string{"1", "4"} {
			text := fmt.Sprintf("rsrace %s gomaxprocs=%s iters=%d", scen, gmp, iters)
			ctx, cancel := context.WithTimeout(context.Background(), 120*time.Second)
			cmd := exec.CommandContext(ctx, exe, "rsworker", scen, fmt.Sprint(iters))
			cmd.Env = append(os.Environ(), "GOMAXPROCS="+gmp, "GORACE=halt_on_error=1 exitcode=66", "GOTRACEBACK=single")
			var so, se bytes.Buffer
			cmd.Stdout, cmd.Stderr = &so, &se
			rerr := cmd.Run()
			es := se.String()
			switch {
			case ctx.Err() != nil:
				o.Verdict("PROPFAIL", "deadlock: worker did not finish: "+text)
			case strings.Contains(es, "DATA RACE"):
				o.Verdict("PROPFAIL", "data race on a plain underlying reader of ctxreadseeker (Close concurrent with Read/Seek): "+raceSummary(es)+": "+text)
			case strings.Contains(so.String(), "F "):
				o.Verdict("PROPFAIL", hlib.San(strings.TrimSpace(so.String()))+": "+text)
			case rerr != nil || !strings.Contains(so.String(), "DONE"):
				o.Verdict("PROPFAIL", fmt.Sprintf("crash: %v: %.300s: %s", rerr, hlib.San(es), text))
			default:
				o.Verdict("OK", text)
			}
			cancel()
			o.Stat("rsrace_workers", 1)
			o.Class(text)
		}
	}
}
