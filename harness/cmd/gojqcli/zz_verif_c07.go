//go:build verif

// Package cli here is the REAL encoder of the reference command: encoder.go and color.go in this directory are
// symbolic links to github.com/wader/gojq/cli/{encoder.go,color.go} in the module cache (the version of
// /repo/go.mod; the rest of that package needs modules that are not available offline). This file only adds
// an exported entry point. When go.mod moves to another gojq version the two links must follow.
package cli

import "bytes"

// VerifC07Marshal is what `gojq -M --indent n` (tab: `--tab`) prints for v, without the final line feed
// (cli.go:399-407 `newEncoder(cli.outputTab, indent)`, then `marshal`).
func VerifC07Marshal(tab bool, indent int, v any) ([]byte, error) {
	noColor = true
	var bb bytes.Buffer
	err := newEncoder(tab, indent).marshal(v, &bb)
	return bb.Bytes(), err
}
