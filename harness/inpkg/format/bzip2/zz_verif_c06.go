//go:build verif

package bzip2

import "io"

// VerifC06BitFlipReader builds the bit-reversing reader bzip2Decode puts in front of compress/bzip2 — accessor
// for the C06 harness (Read driven call by call, see FqModel/ReadChunks.lean).
func VerifC06BitFlipReader(r io.Reader) io.Reader { return bitFlipReader{r: r} }
