//go:build verif

package id3

import "io"

// VerifC06UnsyncReader builds the ID3v2 unsynchronisation reader exactly as decodeFrame does (a VALUE in the
// io.Reader interface) — accessor for the C06 harness, see FqModel/ReadChunks.lean.
func VerifC06UnsyncReader(r io.Reader) io.Reader { return unsyncReader{Reader: r} }
