//go:build verif

package flowsdecoder

// Verification accessor for C19 (adds nothing to a normal build): a Decoder whose stream factory
// records every call the gopacket assembler makes to fq's Stream implementation and then forwards
// it unchanged to the real (*Decoder).New / (*TCPConnection).ReassembledSG. packet(), New,
// Accept, ReassembledSG, ReassemblyComplete and Flush are the repository's own code.

import (
	"github.com/gopacket/gopacket"
	"github.com/gopacket/gopacket/ip4defrag"
	"github.com/gopacket/gopacket/layers"
	"github.com/gopacket/gopacket/reassembly"
)

// VerifC19Call is one ReassembledSG call: index of the connection in Decoder.TCPConnections,
// direction as gopacket reports it, and the arguments fq reads from the ScatterGather.
type VerifC19Call struct {
	Conn           int
	ServerToClient bool
	Start, End     bool
	Skip           int
	Data           []byte

	// Input = true: not a ReassembledSG call but the INPUT side, one record per
	// AssembleWithContext call (gopacket calls the stream's Accept exactly once per packet,
	// tcpassembly.go:669, before it looks at the packet): what the assembler reads of the segment
	// (Seq, flags, Data = payload), the half connection's nextSeq as the assembler passes it,
	// what fq's own Accept answered and the value of *start afterwards.
	Input              bool
	Seq                uint32
	SYN, FIN, RST, ACK bool
	NextSeq            int64
	Accepted           bool
	StartAfter         bool
}

type verifC19Factory struct {
	fd  *Decoder
	rec func(VerifC19Call)
}

type verifC19Stream struct {
	*TCPConnection
	idx int
	rec func(VerifC19Call)
}

func (f *verifC19Factory) New(n, t gopacket.Flow, tcp *layers.TCP, ac reassembly.AssemblerContext) reassembly.Stream {
	s := f.fd.New(n, t, tcp, ac)
	return &verifC19Stream{TCPConnection: s.(*TCPConnection), idx: len(f.fd.TCPConnections) - 1, rec: f.rec}
}

func (s *verifC19Stream) ReassembledSG(sg reassembly.ScatterGather, ac reassembly.AssemblerContext) {
	dir, start, end, skip := sg.Info()
	length, _ := sg.Lengths()
	data := append([]byte(nil), sg.Fetch(length)...)
	s.rec(VerifC19Call{Conn: s.idx, ServerToClient: dir == reassembly.TCPDirServerToClient, Start: start, End: end, Skip: skip, Data: data})
	s.TCPConnection.ReassembledSG(sg, ac)
}

// Accept forwards to fq's own Accept and records the packet together with the answer.
func (s *verifC19Stream) Accept(tcp *layers.TCP, ci gopacket.CaptureInfo, dir reassembly.TCPFlowDirection, nextSeq reassembly.Sequence, start *bool, ac reassembly.AssemblerContext) bool {
	ok := s.TCPConnection.Accept(tcp, ci, dir, nextSeq, start, ac)
	s.rec(VerifC19Call{Input: true, Conn: s.idx, ServerToClient: dir == reassembly.TCPDirServerToClient,
		Seq: tcp.Seq, SYN: tcp.SYN, FIN: tcp.FIN, RST: tcp.RST, ACK: tcp.ACK, NextSeq: int64(nextSeq),
		Accepted: ok, StartAfter: *start, Data: append([]byte(nil), tcp.Payload...)})
	return ok
}

// VerifC19NewTraced is New with the recording factory in front of the Decoder's own.
func VerifC19NewTraced(options DecoderOptions, rec func(VerifC19Call)) *Decoder {
	fd := &Decoder{Options: options}
	fd.tcpAssembler = reassembly.NewAssembler(reassembly.NewStreamPool(&verifC19Factory{fd: fd, rec: rec}))
	fd.ipv4Defrag = ip4defrag.NewIPv4Defragmenter()
	return fd
}
