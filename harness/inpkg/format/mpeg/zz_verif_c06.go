//go:build verif

package mpeg

import "io"

// VerifC06NalUnescapeReader builds the reader avc_nalu / hevc_nalu / nal_unescape read their payload through
// (read-only accessor for the C06 harness: the Read calls are driven one by one with explicit destination
// sizes and compared with the Lean model FqModel/ReadChunks.lean).
func VerifC06NalUnescapeReader(r io.Reader) io.Reader { return &nalUnescapeReader{Reader: r} }
