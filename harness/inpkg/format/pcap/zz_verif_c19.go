//go:build verif

package pcap

import "github.com/wader/fq/format/inet/flowsdecoder"

// VerifC19LinkFn exposes the link type dispatch table of shared.go (read only).
func VerifC19LinkFn(linkType int) (func(fd *flowsdecoder.Decoder, bs []byte) error, bool) {
	fn, ok := linkToDecodeFn[linkType]
	return fn, ok
}

// VerifC19LinkTypes lists the keys of the table.
func VerifC19LinkTypes() []int {
	var ks []int
	for k := range linkToDecodeFn {
		ks = append(ks, k)
	}
	return ks
}
