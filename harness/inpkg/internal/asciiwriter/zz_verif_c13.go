//go:build verif

package asciiwriter

// VerifC13BufLen exposes the length of the line buffer (read-only accessor for the C13
// harness: the buffer arithmetic of Write is compared with the Lean model).
func VerifC13BufLen(h *Writer) int { return len(h.buf) }
