//go:build verif

package hexpairwriter

// VerifC13BufLen exposes the length of the line buffer (read-only accessor for the C13 harness).
func VerifC13BufLen(h *Writer) int { return len(h.buf) }
