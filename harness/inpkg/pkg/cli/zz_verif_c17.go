//go:build verif

package cli

import "io/fs"

// VerifC17StdOSFS is the file system cmd/fq hands to the interpreter: what (*stdOS).FS() returns
// (cli.go:177-181, `os.Open` behind fs.FS).  The C17 harness runs interp.Main on it against a real
// directory tree, so that directories, symlinks, devices and procfs files behave as they do for a user.
func VerifC17StdOSFS() fs.FS { return (&stdOS{}).FS() }
