//go:build verif

package cli

// VerifC20SignalBridge starts the os.Interrupt -> interrupt channel bridge of newStandardOS
// (cli.go:45-80) and returns the channel handed to the interpreter and the function that
// shuts the bridge down (what stdOS.Close does to closeChan).
func VerifC20SignalBridge() (interruptChan chan struct{}, closeFn func()) {
	o := newStandardOS()
	return o.InterruptChan(), func() { close(o.closeChan) }
}
