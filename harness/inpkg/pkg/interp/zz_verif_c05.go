//go:build verif

package interp

import "github.com/wader/fq/pkg/bitio"

// VerifC05Binary exposes the fields of an interp.Binary (read-only accessor for the C05 harness).
func VerifC05Binary(v any) (br bitio.ReaderAtSeeker, start int64, length int64, unit int, pad int64, ok bool) {
	b, isB := v.(Binary)
	if !isB {
		return nil, 0, 0, 0, 0, false
	}
	return b.br, b.r.Start, b.r.Len, b.unit, b.pad, true
}

// VerifC05IsRaw reports whether v is a decode value whose jq value is raw bits
// (decodeValue.isRaw: the values whose tovalue honours the bits_format option).
func VerifC05IsRaw(v any) bool {
	dv, ok := v.(decodeValue)
	return ok && dv.isRaw
}
