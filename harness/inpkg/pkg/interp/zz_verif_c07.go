//go:build verif

package interp

import "io/fs"

// VerifC07BuiltinFS exposes the embedded pkg/interp/*.jq sources (read-only accessor for the C07
// harness, which re-derives the override table from what is really compiled in).
func VerifC07BuiltinFS() fs.ReadDirFS { return builtinFS }

// VerifC07ExtKeys is decodeValueBase.ExtKeys(): the `_`-prefixed keys every decode value answers to
// (the C07 generators use them as ordinary JSON object keys).
func VerifC07ExtKeys() []string { return decodeValueBase{}.ExtKeys() }
