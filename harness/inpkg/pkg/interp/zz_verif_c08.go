//go:build verif

package interp

import "github.com/wader/fq/pkg/decode"

// VerifC08MakeDecodeValue is makeDecodeValue(dv, decodeValueValue): the jq value the interpreter
// hands out for a node of a decode tree (read-only accessor for the C08 harness).
func VerifC08MakeDecodeValue(dv *decode.Value) any {
	return makeDecodeValue(dv, decodeValueValue)
}

// VerifC08ToValue is what `tovalue` computes (decode.go toValue) with the given option map
// (the harness passes the defaults: bits_format=string, skip_gaps=false).
func VerifC08ToValue(v any, om map[string]any) (any, error) {
	if verifC08Opts == nil {
		opts, err := OptionsFromValue(om)
		if err != nil {
			return nil, err
		}
		verifC08Opts = opts
	}
	return toValue(func() (*Options, error) { return verifC08Opts, nil }, v)
}

// the option map is constant (the harness always passes the tovalue defaults)
var verifC08Opts *Options

// VerifC08ExtKeys is decodeValueBase.ExtKeys(): the documented `_`-prefixed extra keys.
func VerifC08ExtKeys() []string { return decodeValueBase{}.ExtKeys() }
