//go:build verif

package interp

import "github.com/wader/fq/pkg/bitio"

// VerifC10Binary exposes the root reader and bit range of an interp.Binary
// (read-only accessor for the C10 harness: the ground truth a hexdump is compared with).
func VerifC10Binary(v any) (br bitio.ReaderAtSeeker, start int64, length int64, ok bool) {
	b, isB := v.(Binary)
	if !isB {
		return nil, 0, 0, false
	}
	return b.br, b.r.Start, b.r.Len, true
}
