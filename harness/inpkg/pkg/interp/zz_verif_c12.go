//go:build verif

package interp

import "github.com/wader/fq/pkg/decode"

// VerifC12Wrap makes the jq value of a node of a decode tree exactly as the interpreter does
// when it hands out a child/parent/root (makeDecodeValue(dv, decodeValueValue)); read-only
// accessor for the C12 harness, which enumerates the nodes by walking Compound.Children itself.
func VerifC12Wrap(dv *decode.Value) any { return makeDecodeValue(dv, decodeValueValue) }
