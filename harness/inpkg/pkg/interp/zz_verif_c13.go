//go:build verif

package interp

import (
	"bytes"
	"fmt"
	"io/fs"

	"github.com/wader/fq/internal/mapstruct"
	"github.com/wader/fq/pkg/bitio"
	"github.com/wader/fq/pkg/ranges"
	"github.com/wader/fq/pkg/scalar"
	"github.com/wader/gojq"
)

// VerifC13IncludeCache returns the parsed jq sources the interpreter has loaded so far
// (file name -> parsed query), including the dynamically generated includes
// (format_decode.jq, format_func.jq, registry_include.jq). Read-only accessor for the C13
// harness: the list of jq-defined functions is enumerated from it at run time.
func VerifC13IncludeCache(i *Interp) map[string]*gojq.Query {
	m := make(map[string]*gojq.Query, len(i.includeCache))
	for k, v := range i.includeCache {
		m[k] = v
	}
	return m
}

// VerifC13BuiltinFS is the embedded @builtin/*.jq file system.
func VerifC13BuiltinFS() fs.ReadDirFS { return builtinFS }

// VerifC13Options is the numeric part of Options after OptionsFromValue (interp.go:1059).
type VerifC13Options struct {
	Depth, ArrayTruncate, StringTruncate, Width, LineBytes, DisplayBytes, Addrbase, Sizebase int
}

// VerifC13OptionsFromValue runs the real OptionsFromValue on v.
func VerifC13OptionsFromValue(v any) (VerifC13Options, error) {
	o, err := OptionsFromValue(v)
	if err != nil {
		return VerifC13Options{}, err
	}
	return VerifC13Options{
		Depth: o.Depth, ArrayTruncate: o.ArrayTruncate, StringTruncate: o.StringTruncate, Width: o.Width,
		LineBytes: o.LineBytes, DisplayBytes: o.DisplayBytes, Addrbase: o.Addrbase, Sizebase: o.Sizebase,
	}, nil
}

// VerifC13BinaryFields exposes range/unit/pad of a Binary (to check the range arithmetic of
// JQValueIndex/JQValueSlice/_tobits results).
func VerifC13BinaryFields(v any) (start, length int64, unit int, pad int64, ok bool) {
	b, isB := v.(Binary)
	if !isB {
		return 0, 0, 0, 0, false
	}
	return b.r.Start, b.r.Len, b.unit, b.pad, true
}

// VerifC13BitsFormat runs the real OptionsFromValue on v and then the bits format function it
// returned (Options.BitsFormatFn, the closure every binary / raw decode value conversion uses)
// on nbytes zero bytes. It shows which options the closure actually captured.
func VerifC13BitsFormat(v any, nbytes int) (string, error) {
	o, err := OptionsFromValue(v)
	if err != nil {
		return "", err
	}
	r, err := o.BitsFormatFn(bitio.NewBitReader(make([]byte, nbytes), -1))
	if err != nil {
		return "", err
	}
	return fmt.Sprintf("%v", r), nil
}

// VerifC13PreviewString runs the real previewValue (preview.go: the one-line value preview of
// the tree dump) on a string with the given string_truncate.
func VerifC13PreviewString(s string, stringTruncate int) string {
	return previewValue(s, scalar.DisplayFormat(0), &Options{StringTruncate: stringTruncate})
}

// VerifC13ByteColor builds the decorator of {color: true, byte_colors: byteColors} with the real
// decoratorFromOptions (decorator.go) and returns the ANSI set string it gives byte b.
func VerifC13ByteColor(byteColors any, b int) (string, error) {
	var opts Options
	if err := mapstruct.ToStruct(map[string]any{"color": true, "byte_colors": byteColors}, &opts); err != nil {
		return "", err
	}
	d := decoratorFromOptions(opts)
	return d.ByteColor(byte(b)).SetString, nil
}

// VerifC13Hexdump runs the real hexdump (dump.go) on the bit range startBit..startBit+sizeBits of
// a buffer holding data, with the options the real OptionsFromValue makes of v, and returns the
// text (to check the display_bytes / line_bytes arithmetic of dump.go:227-310 through its output).
func VerifC13Hexdump(data []byte, startBit, sizeBits int64, v any) (string, error) {
	o, err := OptionsFromValue(v)
	if err != nil {
		return "", err
	}
	var b bytes.Buffer
	bv := Binary{br: bitio.NewBitReader(data, -1), r: ranges.Range{Start: startBit, Len: sizeBits}, unit: 8}
	if err := hexdump(&b, bv, o); err != nil {
		return "", err
	}
	return b.String(), nil
}
