//go:build verif

package interp

import "io"

// VerifC20EvalOpts gives the C20 harness an EvalOpts with the (unexported) output writer set,
// as Interp._eval and the REPL do (interp.go:526-529).
func VerifC20EvalOpts(output io.Writer) EvalOpts { return EvalOpts{output: output} }
