//go:build verif

// Package hlib is shared by the verification harness commands. It is compiled into
// /repo through `go build -overlay` (see /verif/lib/build.py); it never replaces a file
// of the repository.
package hlib

import (
	"bufio"
	"encoding/hex"
	"flag"
	"fmt"
	"os"
	"sort"
	"strings"
)

// Rand is splitmix64: every random choice of a harness derives from one state so that
// a run replays exactly from VERIF_SEED.
type Rand struct{ s uint64 }

func NewRand(seed uint64) *Rand { return &Rand{s: seed} }

func (r *Rand) U64() uint64 {
	r.s += 0x9e3779b97f4a7c15
	z := r.s
	z = (z ^ (z >> 30)) * 0xbf58476d1ce4e5b9
	z = (z ^ (z >> 27)) * 0x94d049bb133111eb
	return z ^ (z >> 31)
}

// Intn returns a value in [0,n)
func (r *Rand) Intn(n int) int {
	if n <= 0 {
		return 0
	}
	return int(r.U64() % uint64(n))
}

// Range returns a value in [lo,hi]
func (r *Rand) Range(lo, hi int) int { return lo + r.Intn(hi-lo+1) }

func (r *Rand) Bool() bool { return r.U64()&1 == 1 }

func (r *Rand) Bytes(n int) []byte {
	b := make([]byte, n)
	for i := range b {
		b[i] = byte(r.U64())
	}
	return b
}

// Fork derives an independent stream (e.g. per case) so that shrinking one case
// does not shift the others.
func (r *Rand) Fork() *Rand { return NewRand(r.U64()) }

// Out writes the line protocol: `op TAB observation`, `#stat k v`, `#sample text`.
type Out struct {
	w       *bufio.Writer
	f       *os.File
	N       int
	stats   map[string]int
	classes map[string]struct{}
	samples int
}

type Config struct {
	Tier   string
	Seed   uint64
	Out    string
	Replay string
	Args   []string
}

func ParseFlags() Config {
	var c Config
	flag.StringVar(&c.Tier, "tier", "quick", "quick|thorough")
	flag.Uint64Var(&c.Seed, "seed", 1, "seed")
	flag.StringVar(&c.Out, "out", "", "ops output file")
	flag.StringVar(&c.Replay, "replay", "", "file with op lines to re-run (one per line)")
	flag.Parse()
	c.Args = flag.Args()
	return c
}

func (c Config) Thorough() bool { return c.Tier == "thorough" }

func NewOut(path string) *Out {
	f := os.Stdout
	if path != "" && path != "-" {
		var err error
		f, err = os.Create(path)
		if err != nil {
			panic(err)
		}
	}
	return &Out{w: bufio.NewWriterSize(f, 1<<20), f: f, stats: map[string]int{}, classes: map[string]struct{}{}}
}

// Case writes one case; op and obs must not contain TAB or newline.
func (o *Out) Case(op, obs string) {
	o.N++
	o.w.WriteString(San(op))
	o.w.WriteByte('\t')
	o.w.WriteString(San(obs))
	o.w.WriteByte('\n')
}

// Class records a distinct non-trivial case class (evidence: distinct_nontrivial).
func (o *Out) Class(key string) { o.classes[key] = struct{}{} }

func (o *Out) Stat(key string, n int) { o.stats[key] += n }

// Sample records up to 8 sample cases for the evidence file.
func (o *Out) Sample(s string) {
	if o.samples < 8 {
		o.samples++
		fmt.Fprintf(o.w, "#sample %s\n", San(s))
	}
}

// Note emits a harness-level verdict line for checks the harness decides itself
// (differential checks without a Lean model): `!VERDICT text`.
func (o *Out) Verdict(kind, text string) {
	fmt.Fprintf(o.w, "!%s %s\n", kind, San(text))
}

func (o *Out) Close() {
	keys := make([]string, 0, len(o.stats))
	for k := range o.stats {
		keys = append(keys, k)
	}
	sort.Strings(keys)
	for _, k := range keys {
		fmt.Fprintf(o.w, "#stat %s %d\n", k, o.stats[k])
	}
	fmt.Fprintf(o.w, "#stat cases %d\n", o.N)
	fmt.Fprintf(o.w, "#stat distinct_nontrivial %d\n", len(o.classes))
	o.w.Flush()
	if o.f != os.Stdout {
		o.f.Close()
	}
}

func San(s string) string {
	if !strings.ContainsAny(s, "\t\n\r") {
		return s
	}
	s = strings.ReplaceAll(s, "\t", "\\t")
	s = strings.ReplaceAll(s, "\n", "\\n")
	return strings.ReplaceAll(s, "\r", "\\r")
}

// Hex encodes bytes; "-" for empty (the drivers' convention).
func Hex(b []byte) string {
	if len(b) == 0 {
		return "-"
	}
	return hex.EncodeToString(b)
}

func UnHex(s string) []byte {
	if s == "-" {
		return nil
	}
	b, err := hex.DecodeString(s)
	if err != nil {
		panic(err)
	}
	return b
}

// ReplayLines reads op lines (text before TAB) from a replay/corpus file.
func ReplayLines(path string) []string {
	f, err := os.Open(path)
	if err != nil {
		panic(err)
	}
	defer f.Close()
	var ls []string
	sc := bufio.NewScanner(f)
	sc.Buffer(make([]byte, 1<<20), 1<<28)
	for sc.Scan() {
		l := sc.Text()
		if l == "" || l[0] == '#' || l[0] == '!' {
			continue
		}
		if i := strings.IndexByte(l, '\t'); i >= 0 {
			l = l[:i]
		}
		ls = append(ls, l)
	}
	return ls
}

// Catch runs f and maps a Go panic to ("panic: ...", true).
func Catch(f func() string) (res string, panicked bool) {
	defer func() {
		if r := recover(); r != nil {
			res = fmt.Sprintf("panic: %v", r)
			panicked = true
		}
	}()
	return f(), false
}
